(* A flat file system for process-crash reasoning: path |-> (bytes, mode), plus a
   set of directories with modes.  Micro-steps are the mutating system calls;
   a process crash is any prefix of a micro-step list, the interrupted step
   being either not started or (for a write) cut to a prefix of its data.
   Rename is atomic; nothing already written is lost at process death (no
   fsync / power-loss model).  Definitions only; lemmas in Proofs/FlatFS.v. *)
From Oras Require Import Base.Prelude.

Definition path := str.
Record file := { f_data : str; f_mode : N }.
Record fs := { fs_files : list (path * file); fs_dirs : list (path * N) }.

Section PMap.
  Context {V : Type}.
  Fixpoint pget (p : path) (l : list (path * V)) : option V :=
    match l with
    | [] => None
    | (q, v) :: r => if str_eqb p q then Some v else pget p r
    end.
  Definition pdel (p : path) (l : list (path * V)) : list (path * V) :=
    filter (fun kv => negb (str_eqb p (fst kv))) l.
  Definition pset (p : path) (v : V) (l : list (path * V)) : list (path * V) :=
    (p, v) :: pdel p l.
End PMap.

Definition fget (p : path) (s : fs) : option file := pget p (fs_files s).
Definition dget (p : path) (s : fs) : option N := pget p (fs_dirs s).

Inductive mstep :=
| MkdirAll (d : path) (mode : N)      (* one level: creates d when it does not exist *)
| CreateExcl (p : path) (mode : N)    (* openat O_CREAT|O_EXCL *)
| Chmod (p : path) (mode : N)
| Write (p : path) (data : str)       (* append *)
| Close (p : path)
| Rename (src dst : path)
| Unlink (p : path).

(* failing steps (EEXIST, ENOENT) leave the file system unchanged *)
Definition exec (s : fs) (m : mstep) : fs :=
  match m with
  | MkdirAll d mode =>
      match dget d s with
      | Some _ => s
      | None => {| fs_files := fs_files s; fs_dirs := pset d mode (fs_dirs s) |}
      end
  | CreateExcl p mode =>
      match fget p s with
      | Some _ => s
      | None => {| fs_files := pset p {| f_data := []; f_mode := mode |} (fs_files s); fs_dirs := fs_dirs s |}
      end
  | Chmod p mode =>
      match fget p s with
      | Some f => {| fs_files := pset p {| f_data := f_data f; f_mode := mode |} (fs_files s); fs_dirs := fs_dirs s |}
      | None => s
      end
  | Write p data =>
      match fget p s with
      | Some f => {| fs_files := pset p {| f_data := f_data f ++ data; f_mode := f_mode f |} (fs_files s); fs_dirs := fs_dirs s |}
      | None => s
      end
  | Close _ => s
  | Rename src dst =>
      match fget src s with
      | Some f => {| fs_files := pset dst f (pdel src (fs_files s)); fs_dirs := fs_dirs s |}
      | None => s
      end
  | Unlink p => {| fs_files := pdel p (fs_files s); fs_dirs := fs_dirs s |}
  end.

Definition exec_all (s : fs) (l : list mstep) : fs := fold_left exec l s.

(* what a crash can leave executed of a micro-step list *)
Inductive crash_cut : list mstep -> list mstep -> Prop :=
| cut_here l : crash_cut l []
| cut_partial p d d' l : crash_cut (Write p (d ++ d') :: l) [Write p d]
| cut_later m l l' : crash_cut l l' -> crash_cut (m :: l) (m :: l').

(* executable enumeration of the same: k completed steps, then w bytes of the
   next step when it is a write *)
Definition cut_at (l : list mstep) (k w : nat) : list mstep :=
  firstn k l ++
  match nth_error l k with
  | Some (Write p d) => match w with O => [] | _ => [Write p (firstn w d)] end
  | _ => []
  end.
