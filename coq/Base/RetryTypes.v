(* Result types shared by the generated decision functions of registry/remote/retry
   (Generated/GC17.v) and the hand-written model (Model/Retry.v). *)
From Coq Require Import ZArith.

(* what a Predicate returns: (true, nil) | (false, nil) | (_, err) *)
Inductive pred_result := PRetry | PStop | PFail.

(* what a Backoff returns, or its panic *)
Inductive bres := BRet (d : Z) | BPanic.

(* what Policy.Retry returns: (-1, nil) | (-1, err) | (d, nil), or the backoff's panic *)
Inductive decision := DStop | DFail | DWait (d : Z) | DPanic.

(* what the body-rewind logic does with a request: nothing (go on), install GetBody's result
   (go on), give up because GetBody is nil / returned an error *)
Inductive rw_class := RcKeep | RcFresh | RcNoGetBody | RcGetBodyErr.
