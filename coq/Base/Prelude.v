(* Shared basics: bytes are N, strings are lists of bytes. *)
From Coq Require Export String Ascii.
From Coq Require Export List NArith ZArith Bool Lia.
Export ListNotations.
Open Scope N_scope.

Definition byte := N.
Definition str := list N.

(* Coq string literal -> byte list (only used to write constants readably). *)
Definition b (s : string) : str := map N_of_ascii (list_ascii_of_string s).

Fixpoint str_eqb (x y : str) : bool :=
  match x, y with
  | [], [] => true
  | c :: x', d :: y' => (c =? d) && str_eqb x' y'
  | _, _ => false
  end.

Lemma str_eqb_spec x y : str_eqb x y = true <-> x = y.
Proof.
  revert y; induction x as [|c x IH]; intros [|d y]; simpl; split; intro H;
    try reflexivity; try discriminate.
  - apply andb_true_iff in H as [H1 H2]. apply N.eqb_eq in H1. apply IH in H2. congruence.
  - injection H as -> ->. rewrite N.eqb_refl. simpl. now apply IH.
Qed.

Lemma str_eqb_refl x : str_eqb x x = true.
Proof. now apply str_eqb_spec. Qed.

(* index of first occurrence of byte c *)
Fixpoint index_of (c : N) (s : str) : option nat :=
  match s with
  | [] => None
  | d :: s' => if d =? c then Some 0%nat
               else match index_of c s' with Some i => Some (S i) | None => None end
  end.

Definition contains (c : N) (s : str) : bool :=
  existsb (fun d => d =? c) s.

Lemma index_of_none c s : index_of c s = None <-> contains c s = false.
Proof.
  induction s as [|d s IH]; simpl; [tauto|].
  destruct (d =? c); simpl; [split; discriminate|].
  destruct (index_of c s) as [j|]; split; intro H; try discriminate; try tauto.
  apply IH in H. discriminate.
Qed.

Lemma index_of_some c s i :
  index_of c s = Some i ->
  contains c (firstn i s) = false /\ nth_error s i = Some c /\
  s = firstn i s ++ c :: skipn (S i) s.
Proof.
  revert i; induction s as [|d s IH]; simpl; intros i H; [discriminate|].
  destruct (d =? c) eqn:E.
  - injection H as <-. apply N.eqb_eq in E. subst. simpl. auto.
  - destruct (index_of c s) as [j|] eqn:Ej; [|discriminate]. injection H as <-.
    destruct (IH j eq_refl) as (A & B & C). simpl. rewrite E. simpl.
    repeat split; auto. f_equal. exact C.
Qed.

Lemma index_of_app_fresh c s t :
  contains c s = false -> index_of c (s ++ c :: t) = Some (length s).
Proof.
  induction s as [|d s IH]; simpl; intro H.
  - now rewrite N.eqb_refl.
  - apply orb_false_iff in H as [H1 H2]. rewrite H1. now rewrite IH.
Qed.

Lemma contains_app c s t : contains c (s ++ t) = contains c s || contains c t.
Proof. unfold contains. apply existsb_app. Qed.

Lemma firstn_app_exact {A} (s t : list A) : firstn (length s) (s ++ t) = s.
Proof. induction s; simpl; congruence. Qed.

Lemma skipn_app_exact {A} (s t : list A) : skipn (length s) (s ++ t) = t.
Proof. induction s; simpl; congruence. Qed.

Lemma skipn_S_app {A} (s : list A) c t : skipn (S (length s)) (s ++ c :: t) = t.
Proof. induction s; simpl; auto. Qed.
