(* Regular expressions over bytes: denotation, Brzozowski-derivative matcher,
   correctness of the matcher, and a decision procedure for "every accepted
   character avoids a set of bad ranges".  Fully anchored (^...$) semantics. *)
From Oras Require Import Base.Prelude.

Inductive re : Type :=
| Emp | Eps
| Cls (rs : list (N * N))
| Cat (a c : re) | Alt (a c : re) | Star (a : re).

Definition in_ranges (rs : list (N * N)) (c : N) : bool :=
  existsb (fun r => (fst r <=? c) && (c <=? snd r)) rs.

Inductive Lang : re -> str -> Prop :=
| LEps : Lang Eps []
| LCls rs c : in_ranges rs c = true -> Lang (Cls rs) [c]
| LCat a c s t : Lang a s -> Lang c t -> Lang (Cat a c) (s ++ t)
| LAltL a c s : Lang a s -> Lang (Alt a c) s
| LAltR a c s : Lang c s -> Lang (Alt a c) s
| LStar0 a : Lang (Star a) []
| LStarS a s t : Lang a s -> Lang (Star a) t -> Lang (Star a) (s ++ t).

Fixpoint nullable (r : re) : bool :=
  match r with
  | Emp => false | Eps => true | Cls _ => false
  | Cat a c => nullable a && nullable c
  | Alt a c => nullable a || nullable c
  | Star _ => true
  end.

Definition cat (a c : re) : re :=
  match a, c with
  | Emp, _ => Emp | _, Emp => Emp
  | Eps, _ => c | _, Eps => a
  | _, _ => Cat a c
  end.

(* Alternation is kept flattened and duplicate-free (associativity,
   idempotence): without this, derivatives of ambiguous expressions such as
   (x*y+)* grow exponentially. *)
Fixpoint ranges_eqb (x y : list (N * N)) : bool :=
  match x, y with
  | [], [] => true
  | (a1, a2) :: x', (c1, c2) :: y' => (a1 =? c1) && (a2 =? c2) && ranges_eqb x' y'
  | _, _ => false
  end.

Fixpoint re_eqb (a c : re) : bool :=
  match a, c with
  | Emp, Emp => true
  | Eps, Eps => true
  | Cls x, Cls y => ranges_eqb x y
  | Cat a1 a2, Cat c1 c2 => re_eqb a1 c1 && re_eqb a2 c2
  | Alt a1 a2, Alt c1 c2 => re_eqb a1 c1 && re_eqb a2 c2
  | Star a1, Star c1 => re_eqb a1 c1
  | _, _ => false
  end.

Fixpoint flat (r : re) : list re :=
  match r with
  | Alt a c => flat a ++ flat c
  | Emp => []
  | _ => [r]
  end.

Definition mem (r : re) (l : list re) : bool := existsb (re_eqb r) l.

Fixpoint dedup (l : list re) : list re :=
  match l with
  | [] => []
  | x :: l' => if mem x l' then dedup l' else x :: dedup l'
  end.

Fixpoint alts (l : list re) : re :=
  match l with
  | [] => Emp
  | [x] => x
  | x :: l' => Alt x (alts l')
  end.

Definition alt (a c : re) : re := alts (dedup (flat a ++ flat c)).

Fixpoint deriv (x : N) (r : re) : re :=
  match r with
  | Emp | Eps => Emp
  | Cls rs => if in_ranges rs x then Eps else Emp
  | Cat a c => if nullable a then alt (cat (deriv x a) c) (deriv x c)
               else cat (deriv x a) c
  | Alt a c => alt (deriv x a) (deriv x c)
  | Star a => cat (deriv x a) (Star a)
  end.

Definition matches (r : re) (s : str) : bool :=
  nullable (fold_left (fun r x => deriv x r) s r).

(* derived forms used by the translator *)
Definition Opt (a : re) := Alt Eps a.
Definition Plus (a : re) := Cat a (Star a).
Fixpoint rep_exact (a : re) (n : nat) : re :=
  match n with O => Eps | S n => Cat a (rep_exact a n) end.
Fixpoint rep_upto (a : re) (n : nat) : re :=
  match n with O => Eps | S n => Alt Eps (Cat a (rep_upto a n)) end.
Definition Rep (a : re) (lo hi : nat) := Cat (rep_exact a lo) (rep_upto a (hi - lo)).
Definition RepMin (a : re) (lo : nat) := Cat (rep_exact a lo) (Star a).
Fixpoint Lit (s : str) : re :=
  match s with [] => Eps | x :: s' => Cat (Cls [(x, x)]) (Lit s') end.

(* ---------- inversion lemmas ---------- *)

Lemma Lang_Emp s : ~ Lang Emp s.
Proof. intro H; inversion H. Qed.

Lemma Lang_Eps s : Lang Eps s <-> s = [].
Proof. split; intro H; [now inversion H | subst; constructor]. Qed.

Lemma Lang_Cls rs s : Lang (Cls rs) s <-> exists c, s = [c] /\ in_ranges rs c = true.
Proof.
  split; intro H.
  - inversion H; subst; eauto.
  - destruct H as (c & -> & H). now constructor.
Qed.

Lemma Lang_Cat a c s : Lang (Cat a c) s <-> exists s1 s2, s = s1 ++ s2 /\ Lang a s1 /\ Lang c s2.
Proof.
  split; intro H.
  - inversion H; subst; eauto.
  - destruct H as (s1 & s2 & -> & H1 & H2). now constructor.
Qed.

Lemma Lang_Alt a c s : Lang (Alt a c) s <-> Lang a s \/ Lang c s.
Proof.
  split; intro H.
  - inversion H; subst; auto.
  - destruct H; [now apply LAltL | now apply LAltR].
Qed.

Lemma Lang_Cat_Emp_l c s : Lang (Cat Emp c) s <-> False.
Proof. rewrite Lang_Cat. split; [|tauto]. intros (s1 & s2 & _ & H & _). now apply Lang_Emp in H. Qed.
Lemma Lang_Cat_Emp_r a s : Lang (Cat a Emp) s <-> False.
Proof. rewrite Lang_Cat. split; [|tauto]. intros (s1 & s2 & _ & _ & H). now apply Lang_Emp in H. Qed.
Lemma Lang_Cat_Eps_l c s : Lang (Cat Eps c) s <-> Lang c s.
Proof.
  rewrite Lang_Cat. split.
  - intros (s1 & s2 & -> & H1 & H2). apply Lang_Eps in H1. now subst.
  - intro H. exists [], s. repeat split; auto. constructor.
Qed.
Lemma Lang_Cat_Eps_r a s : Lang (Cat a Eps) s <-> Lang a s.
Proof.
  rewrite Lang_Cat. split.
  - intros (s1 & s2 & -> & H1 & H2). apply Lang_Eps in H2. subst. now rewrite app_nil_r.
  - intro H. exists s, []. rewrite app_nil_r. repeat split; auto. constructor.
Qed.
Lemma Lang_Emp_iff s : Lang Emp s <-> False.
Proof. split; [apply Lang_Emp | tauto]. Qed.

Lemma Lang_cat a c s : Lang (cat a c) s <-> Lang (Cat a c) s.
Proof.
  unfold cat; destruct a; destruct c;
    rewrite ?Lang_Cat_Emp_l, ?Lang_Cat_Emp_r, ?Lang_Cat_Eps_l, ?Lang_Cat_Eps_r, ?Lang_Emp_iff;
    reflexivity.
Qed.

Lemma ranges_eqb_eq x y : ranges_eqb x y = true -> x = y.
Proof.
  revert y; induction x as [|[a1 a2] x IH]; intros [|[c1 c2] y]; simpl; intro H;
    try discriminate; auto.
  apply andb_true_iff in H as [H H3]. apply andb_true_iff in H as [H1 H2].
  apply N.eqb_eq in H1, H2. apply IH in H3. congruence.
Qed.

Lemma re_eqb_eq a c : re_eqb a c = true -> a = c.
Proof.
  revert c; induction a as [| |x|a1 IH1 a2 IH2|a1 IH1 a2 IH2|a1 IH1]; intros [| |y|c1 c2|c1 c2|c1];
    simpl; intro H; try discriminate; auto.
  - apply ranges_eqb_eq in H. congruence.
  - apply andb_true_iff in H as [H1 H2]. apply IH1 in H1. apply IH2 in H2. congruence.
  - apply andb_true_iff in H as [H1 H2]. apply IH1 in H1. apply IH2 in H2. congruence.
  - apply IH1 in H. congruence.
Qed.

Lemma Lang_flat r s : Lang r s <-> Exists (fun x => Lang x s) (flat r).
Proof.
  induction r as [| |x|a1 IH1 a2 IH2|a1 IH1 a2 IH2|a1 IH1]; simpl;
    try (split; [intro H; now constructor | intro H; inversion H as [? ? H1|? ? H1]; subst; [exact H1|inversion H1]]).
  - rewrite Lang_Emp_iff. split; [tauto | intro H; inversion H].
  - rewrite Lang_Alt, Exists_app, IH1, IH2. reflexivity.
Qed.

Lemma Lang_alts l s : Lang (alts l) s <-> Exists (fun x => Lang x s) l.
Proof.
  induction l as [|x l IH]; simpl.
  - rewrite Lang_Emp_iff. split; [tauto | intro H; inversion H].
  - destruct l as [|y l].
    + split; [intro H; now constructor | intro H; inversion H as [? ? H1|? ? H1]; subst; [exact H1|inversion H1]].
    + rewrite Lang_Alt, IH. split.
      * intros [H|H]; [now apply Exists_cons_hd | now apply Exists_cons_tl].
      * intro H. inversion H; subst; auto.
Qed.

Lemma mem_In x l : mem x l = true -> In x l.
Proof.
  unfold mem. intro H. apply existsb_exists in H as (y & Hy & E). apply re_eqb_eq in E. now subst.
Qed.

Lemma dedup_Exists (P : re -> Prop) l : Exists P (dedup l) <-> Exists P l.
Proof.
  induction l as [|x l IH]; simpl; [reflexivity|].
  destruct (mem x l) eqn:M.
  - rewrite IH. split; [apply Exists_cons_tl|].
    intro H. inversion H; subst; auto. apply mem_In in M. apply Exists_exists. eauto.
  - split; intro H; inversion H; subst; try (now apply Exists_cons_hd);
      apply Exists_cons_tl; now apply IH.
Qed.

Lemma Lang_alt a c s : Lang (alt a c) s <-> Lang (Alt a c) s.
Proof.
  unfold alt. rewrite Lang_alts, dedup_Exists, Exists_app, <- !Lang_flat, Lang_Alt. reflexivity.
Qed.

Lemma nullable_spec r : nullable r = true <-> Lang r [].
Proof.
  induction r as [| |rs|a IHa c IHc|a IHa c IHc|a IHa]; simpl.
  - split; [discriminate | intro H; now apply Lang_Emp in H].
  - split; [constructor | reflexivity].
  - split; [discriminate | intro H; apply Lang_Cls in H as (c & H & _); discriminate].
  - rewrite andb_true_iff, IHa, IHc, Lang_Cat. split.
    + intros [H1 H2]. exists [], []. auto.
    + intros (s1 & s2 & E & H1 & H2). symmetry in E. apply app_eq_nil in E as [-> ->]. auto.
  - rewrite orb_true_iff, IHa, IHc, Lang_Alt. reflexivity.
  - split; [constructor | reflexivity].
Qed.

Lemma Lang_Star_cons a x s :
  Lang (Star a) (x :: s) -> exists s1 s2, s = s1 ++ s2 /\ Lang a (x :: s1) /\ Lang (Star a) s2.
Proof.
  intro H. remember (Star a) as r eqn:Er. remember (x :: s) as w eqn:Ew.
  revert x s Er Ew.
  induction H as [| | | | | a' | a' s1 t H1 IH1 H2 IH2]; intros x0 w0 Er Ew; try discriminate.
  injection Er as ->.
  destruct s1 as [|y s1]; simpl in Ew.
  - subst t. now apply IH2.
  - injection Ew as -> <-. exists s1, t. auto.
Qed.

Theorem deriv_spec x r s : Lang (deriv x r) s <-> Lang r (x :: s).
Proof.
  revert s. induction r as [| |rs|a IHa c IHc|a IHa c IHc|a IHa]; intro s; simpl.
  - split; intro H; now apply Lang_Emp in H.
  - split; intro H; [now apply Lang_Emp in H | apply Lang_Eps in H; discriminate].
  - rewrite Lang_Cls. destruct (in_ranges rs x) eqn:E.
    + rewrite Lang_Eps. split.
      * intros ->. eauto.
      * intros (c & H & _). now injection H.
    + split; [intro H; now apply Lang_Emp in H|].
      intros (c & H & Hc). injection H as -> ->. congruence.
  - assert (Hc : Lang (cat (deriv x a) c) s <->
                 exists s1 s2, s = s1 ++ s2 /\ Lang a (x :: s1) /\ Lang c s2).
    { rewrite Lang_cat, Lang_Cat. split; intros (s1 & s2 & E & H1 & H2); exists s1, s2;
        repeat split; auto; now apply IHa. }
    destruct (nullable a) eqn:Na.
    + rewrite Lang_alt, Lang_Alt, Hc, IHc, Lang_Cat. split.
      * intros [(s1 & s2 & -> & H1 & H2) | H].
        -- exists (x :: s1), s2. auto.
        -- exists [], (x :: s). repeat split; auto. now apply nullable_spec.
      * intros (s1 & s2 & E & H1 & H2). destruct s1 as [|y s1]; simpl in E.
        -- subst s2. auto.
        -- injection E as -> ->. left. eauto.
    + rewrite Hc, Lang_Cat. split.
      * intros (s1 & s2 & -> & H1 & H2). exists (x :: s1), s2. auto.
      * intros (s1 & s2 & E & H1 & H2). destruct s1 as [|y s1]; simpl in E.
        -- apply nullable_spec in H1. congruence.
        -- injection E as -> ->. eauto.
  - rewrite Lang_alt, !Lang_Alt, IHa, IHc. reflexivity.
  - rewrite Lang_cat, Lang_Cat. split.
    + intros (s1 & s2 & -> & H1 & H2). apply IHa in H1.
      change (x :: s1 ++ s2) with ((x :: s1) ++ s2). now constructor.
    + intro H. apply Lang_Star_cons in H as (s1 & s2 & -> & H1 & H2).
      exists s1, s2. repeat split; auto. now apply IHa.
Qed.

Theorem matches_spec r s : matches r s = true <-> Lang r s.
Proof.
  unfold matches. revert r. induction s as [|x s IH]; intro r; simpl.
  - apply nullable_spec.
  - rewrite IH. apply deriv_spec.
Qed.

Lemma matches_false r s : matches r s = false <-> ~ Lang r s.
Proof.
  rewrite <- matches_spec. destruct (matches r s); split; intro H; auto; try discriminate.
  now elim H.
Qed.

(* ---------- derived forms ---------- *)

Lemma Lang_Lit w s : Lang (Lit w) s <-> s = w.
Proof.
  revert s; induction w as [|x w IH]; intro s; simpl.
  - apply Lang_Eps.
  - rewrite Lang_Cat. split.
    + intros (s1 & s2 & -> & H1 & H2). apply Lang_Cls in H1 as (c & -> & H1).
      apply IH in H2. subst. simpl in H1. rewrite orb_false_r in H1.
      apply andb_true_iff in H1 as [A B]. apply N.leb_le in A, B.
      assert (c = x) by lia. now subst.
    + intros ->. exists [x], w. repeat split.
      * apply Lang_Cls. exists x. split; auto. simpl. now rewrite N.leb_refl.
      * now apply IH.
Qed.

Definition all_in (rs : list (N * N)) (s : str) : Prop := Forall (fun c => in_ranges rs c = true) s.

Lemma Lang_rep_exact_cls rs n s :
  Lang (rep_exact (Cls rs) n) s <-> length s = n /\ all_in rs s.
Proof.
  revert s; induction n as [|n IH]; intro s; simpl.
  - rewrite Lang_Eps. split.
    + intros ->. split; auto. constructor.
    + intros [H _]. now destruct s.
  - rewrite Lang_Cat. split.
    + intros (s1 & s2 & -> & H1 & H2). apply Lang_Cls in H1 as (c & -> & H1).
      apply IH in H2 as [L A]. simpl. split; [now rewrite L | now constructor].
    + intros [L A]. destruct s as [|c s]; [discriminate|]. inversion A; subst.
      exists [c], s. repeat split; [apply Lang_Cls; eauto | apply IH; split; auto].
Qed.

Lemma Lang_rep_upto_cls rs n s :
  Lang (rep_upto (Cls rs) n) s <-> (length s <= n)%nat /\ all_in rs s.
Proof.
  revert s; induction n as [|n IH]; intro s; simpl.
  - rewrite Lang_Eps. split.
    + intros ->. split; auto. constructor.
    + intros [H _]. destruct s; [auto | simpl in H; lia].
  - rewrite Lang_Alt, Lang_Eps, Lang_Cat. split.
    + intros [-> | (s1 & s2 & -> & H1 & H2)].
      * split; [simpl; lia | constructor].
      * apply Lang_Cls in H1 as (c & -> & H1). apply IH in H2 as [L A].
        simpl. split; [lia | now constructor].
    + intros [L A]. destruct s as [|c s]; [now left | right]. inversion A; subst.
      exists [c], s. repeat split; [apply Lang_Cls; eauto | apply IH; split; auto].
      simpl in L. lia.
Qed.

Lemma Lang_star_cls rs s : Lang (Star (Cls rs)) s <-> all_in rs s.
Proof.
  unfold all_in. split.
  - intro H. remember (Star (Cls rs)) as r eqn:E. induction H; try discriminate.
    + constructor.
    + injection E as ->. apply Lang_Cls in H as (c & -> & H). simpl.
      constructor; [exact H | now apply IHLang2].
  - induction 1 as [|c s H A IH]; [constructor|].
    change (c :: s) with ([c] ++ s). constructor; auto. apply Lang_Cls; eauto.
Qed.

(* ---------- character-set closure ---------- *)

(* every range of rs is disjoint from every range of bad *)
Definition ranges_avoid (rs bad : list (N * N)) : bool :=
  forallb (fun r => forallb (fun q => (snd r <? fst q) || (snd q <? fst r) || (snd r <? fst r)) bad) rs.

Lemma ranges_avoid_spec rs bad c :
  ranges_avoid rs bad = true -> in_ranges rs c = true -> in_ranges bad c = false.
Proof.
  unfold ranges_avoid, in_ranges. intros H Hc.
  apply existsb_exists in Hc as (r & Hr & Hc).
  rewrite forallb_forall in H. specialize (H r Hr). rewrite forallb_forall in H.
  apply andb_true_iff in Hc as [A B]. apply N.leb_le in A, B.
  destruct (existsb _ bad) eqn:E; auto.
  apply existsb_exists in E as (q & Hq & E). specialize (H q Hq).
  apply andb_true_iff in E as [C D]. apply N.leb_le in C, D.
  apply orb_true_iff in H as [H|H]; [apply orb_true_iff in H as [H|H]|]; apply N.ltb_lt in H; lia.
Qed.

Fixpoint avoids (bad : list (N * N)) (r : re) : bool :=
  match r with
  | Emp | Eps => true
  | Cls rs => ranges_avoid rs bad
  | Cat a c | Alt a c => avoids bad a && avoids bad c
  | Star a => avoids bad a
  end.

Theorem avoids_spec bad r s :
  avoids bad r = true -> Lang r s -> Forall (fun c => in_ranges bad c = false) s.
Proof.
  intros H L. induction L; simpl in H;
    try (apply andb_true_iff in H as [H1 H2]); auto.
  - constructor; [eapply ranges_avoid_spec; eauto | constructor].
  - apply Forall_app; auto.
  - apply Forall_app; auto.
Qed.

Lemma forall_not_single x s :
  Forall (fun c => in_ranges [(x, x)] c = false) s -> contains x s = false.
Proof.
  unfold contains. induction 1 as [|c s Hc F IH]; simpl; auto.
  rewrite IH, orb_false_r. simpl in Hc. rewrite orb_false_r in Hc.
  destruct (c =? x) eqn:E; auto. apply N.eqb_eq in E. subst.
  now rewrite N.leb_refl in Hc.
Qed.

Corollary avoids_contains x r s :
  avoids [(x, x)] r = true -> Lang r s -> contains x s = false.
Proof. intros H L. apply forall_not_single. eapply avoids_spec; eauto. Qed.
