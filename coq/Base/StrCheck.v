(* A tiny language of byte-level checks on a string, the target of the gosrc2v kind
   "strictchecks" (index-based validations such as pack.go validateRFC3339), with its
   evaluator.  Go semantics: value[i], value[len(value)-k], num2(value[len(value)-k:]). *)
From Oras Require Import Base.Prelude.

Inductive sidx := FromStart (n : nat) | FromEnd (n : nat).

Inductive cmpop := OpGe | OpGt | OpLe | OpLt | OpEq | OpNe.

Inductive scond :=
| CTrue
| CByte (i : sidx) (op : cmpop) (c : N)        (* value[i] op 'c' *)
| CNum2 (i : sidx) (op : cmpop) (bound : N)    (* num2(value[i:]) op bound *)
| CAnd (a c : scond) | COr (a c : scond) | CNot (a : scond).

Definition byte_at (s : str) (i : sidx) : N :=
  match i with
  | FromStart n => nth n s 0
  | FromEnd k => nth (length s - k) s 0
  end.

Definition cmp_eval (op : cmpop) (x y : N) : bool :=
  match op with
  | OpGe => y <=? x | OpGt => y <? x | OpLe => x <=? y | OpLt => x <? y
  | OpEq => x =? y | OpNe => negb (x =? y)
  end.

Definition next_idx (i : sidx) : sidx :=
  match i with FromStart n => FromStart (S n) | FromEnd k => FromEnd (k - 1) end.

(* num2 := func(s string) int { return 10*int(s[0]-'0') + int(s[1]-'0') } on digits *)
Definition num2_at (s : str) (i : sidx) : N :=
  (byte_at s i - 48) * 10 + (byte_at s (next_idx i) - 48).

Fixpoint scond_eval (s : str) (c : scond) : bool :=
  match c with
  | CTrue => true
  | CByte i op x => cmp_eval op (byte_at s i) x
  | CNum2 i op x => cmp_eval op (num2_at s i) x
  | CAnd a c => scond_eval s a && scond_eval s c
  | COr a c => scond_eval s a || scond_eval s c
  | CNot a => negb (scond_eval s a)
  end.

(* switch { case g1: if c11 {reject}; if c12 {reject} ... case g2: ... }: the first case whose
   guard holds is entered; it rejects when one of its conditions holds *)
Fixpoint switch_rejects (s : str) (cases : list (scond * list scond)) : bool :=
  match cases with
  | [] => false
  | (g, body) :: rest => if scond_eval s g then existsb (scond_eval s) body else switch_rejects s rest
  end.

(* ---------- no index out of range (Go would panic where [nth] returns its default) ---------- *)
Definition idx_ok (s : str) (i : sidx) : bool :=
  match i with
  | FromStart n => Nat.ltb n (length s)
  | FromEnd k => Nat.leb 1 k && Nat.leb k (length s)
  end.

(* the indices a condition touches, in Go's evaluation order (&& and || short-circuit) *)
Fixpoint scond_safe (s : str) (c : scond) : bool :=
  match c with
  | CTrue => true
  | CByte i _ _ => idx_ok s i
  | CNum2 i _ _ => idx_ok s i && idx_ok s (next_idx i)
  | CAnd a c => scond_safe s a && (if scond_eval s a then scond_safe s c else true)
  | COr a c => scond_safe s a && (if scond_eval s a then true else scond_safe s c)
  | CNot a => scond_safe s a
  end.

Fixpoint body_safe (s : str) (body : list scond) : bool :=
  match body with
  | [] => true
  | c :: r => scond_safe s c && (if scond_eval s c then true else body_safe s r)
  end.

Fixpoint switch_safe (s : str) (cases : list (scond * list scond)) : bool :=
  match cases with
  | [] => true
  | (g, body) :: rest => scond_safe s g && (if scond_eval s g then body_safe s body else switch_safe s rest)
  end.
