From Coq Require Import Extraction ExtrOcamlBasic ExtrOcamlString NArith.
From Oras Require Import Model.OciIndex Model.TarFS.
Extraction Language OCaml.
(* N.of_nat only so that the types positive / n used by ml/common.ml exist *)
Extraction "xc08.ml" step reopen store_empty obs_tags obs_tags_from gc_sweeps_stray obs_resolve_tag obs_resolve_dig obs_exists obs_preds disk_valid ord0 tar_open N.of_nat.
