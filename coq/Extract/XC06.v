From Coq Require Import Extraction ExtrOcamlBasic ExtrOcamlString.
From Oras Require Import Base.Prelude Model.Stores Model.StoresFileSpec Model.StoresFileLimit.
Extraction Language OCaml.
Extraction "xc06.ml" mem_step mem_init mem_abs mspec_step mspec_init
  oci_step oci_init oci_abs ospec_step ospec_init gk gkey_eqb ref_eqb run length file_step file_init runf fspec_step fspec_init d_name file_step_lim fspec_step_lim runl.
