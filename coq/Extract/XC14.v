From Coq Require Import Extraction ExtrOcamlBasic ExtrOcamlString.
From Oras Require Import Base.Prelude Model.Referrers Model.Merge Model.Live Model.MergeFine.
Extraction Language OCaml.
Extraction "xc14.ml" apply_changes remove_empty filter_referrers spec_apply member_after
  step init run vis_summary set_caps referrer_art api_art tag_classes list_referrers lvis_summary fvis_summary pool_trace.
