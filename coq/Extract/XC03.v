From Coq Require Import Extraction ExtrOcamlBasic ExtrOcamlString.
From Oras Require Import Base.Prelude Model.FindRoots.
Extraction Language OCaml.
Extraction "xc03.ml" find_roots find_roots_e find_roots_custom_e find_roots_fp find_preds_custom dfs_log find_roots_run find_preds_g find_preds_custom_g find_preds fetch_artifact_type fetch_annotations fuel_for extended_copy extended_copy_x resolve_tag.
