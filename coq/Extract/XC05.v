From Coq Require Import Extraction ExtrOcamlBasic ExtrOcamlString.
From Oras Require Import Base.Prelude Generated.GC05 Model.Verify.
Extraction Language OCaml.
Extraction "xc05.ml" ev_weight stream valid_digest new_vr vr_read vr_verify read_all copy_buffer
  mem_push mem_get limited_push oci_push oci_get oci_exists file_push file_exists file_fetch proxy_fetch explore visible_blobs thread_results ingest_files explore_m mthread_results mem_fetch_all oci_fetch_all file_fetch_all copy_buffer_w file_push_name resolve_name explore_f fthread_results file_push_opt default_opts.
