From Coq Require Import Extraction ExtrOcamlBasic ExtrOcamlString.
From Oras Require Import Base.Prelude Generated.GC01 Model.CopySpec Model.CopyTop Model.CopyOpt Model.CopyCancel.
Extraction Language OCaml.
(* effective concurrency with the default re-read from copy.go *)
Definition eff_K_gen : Z -> nat := eff_K defaultConcurrency.
Extraction "xc01.ml" step step_opt cstep_opt init copy_result present_nodes inflight_src inflight_dst active eff_K_gen
  eff_ref prologue select_manifest N.of_nat N.to_nat.
