From Coq Require Import Extraction ExtrOcamlBasic ExtrOcamlString.
From Oras Require Import Base.Prelude Model.FileConfine.
Extraction Language OCaml.
Extraction "xc11.ml" push pushes cfg_fixed cfg_prefix content dir_mode file_stamp dir_stamp inside view_at sym_node exists_obs.
