From Coq Require Import Extraction ExtrOcamlBasic ExtrOcamlString.
From Oras Require Import Base.Prelude Model.TarRoundTrip.
Extraction Language OCaml.
Extraction "xc12.ml" tar_entries extract fs_lookup unpack copy_into benign_tree wf_treeb modes_okb is_dir
  expected expected_impl sort_tree strip_times dir_descriptor push_file file_descriptor extract_p extract_prefix_p extract_partial unpack_residue fs_init extract_list_partial finish_dirs fs_init_sg sgid extract_sg extract_po restore_order.
