From Coq Require Import Extraction ExtrOcamlBasic ExtrOcamlString.
From Oras Require Import Base.Prelude Model.Reference Model.Registry Model.RemoteClient Model.Location.
Extraction Language OCaml.
Extraction "xc13.ml" run_history allowed rsc_run rsc_open range_srv put_url_str eff_limit name_unknown gen_index mt_index request_url.
