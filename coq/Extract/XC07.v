From Coq Require Import Extraction ExtrOcamlBasic ExtrOcamlString.
From Oras Require Import Model.GraphMem.
Extraction Language OCaml.
Extraction "xc07.ml" run init_state predecessors_raw exists_node load.
