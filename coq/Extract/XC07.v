From Coq Require Import Extraction ExtrOcamlBasic ExtrOcamlString.
From Oras Require Import Model.GraphMem Model.GraphStore Model.Links.
Extraction Language OCaml.
Extraction "xc07.ml" run init_state predecessors_raw exists_node load ostep empty_store astep empty_astore ntrans1 ctab successors_of.
