From Coq Require Import Extraction ExtrOcamlBasic ExtrOcamlString.
From Oras Require Import Base.Prelude Model.Paging Model.PagingUrl Model.PagingJson.
Extraction Language OCaml.
Extraction "xc15.ml" loop reg_page reg_serve parse_link is_filter_applied filter_referrers
  eff_limit limit_size_rejects body_fits mk_request list_tags after tag_schema referrers_wrap mediaTypeImageIndex ping
  next_request first_query referrers_q0 set_query_params query_escape query_unescape parse_query_lenient resolve_ref loop_s scan consumed_of consumed_index collect_all.
