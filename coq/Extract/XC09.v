From Coq Require Import Extraction ExtrOcamlBasic ExtrOcamlString NArith.
From Oras Require Import Model.OciGC.
Extraction Language OCaml.
(* N.of_nat only so that the types positive/n used by ml/common.ml exist *)
Extraction "xc09.ml" init pinit cfg_fixed cfg_orig step pstep preds is_manifest_kind kind_has_subject N.of_nat.
