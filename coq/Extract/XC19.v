From Coq Require Import Extraction ExtrOcamlBasic ExtrOcamlString.
From Oras Require Import Base.Prelude Model.Pack Model.PackEnc Model.PackSha.
Extraction Language OCaml.
Extraction "xc19.ml" valid_media_type rfc3339_ok pack init_state empty_json empty_json_digest san_manifest utf8_san rfc3339_ok_prefix json_manifest json_string base64 format_rfc3339_utc civil_ok digest_of json_ann read_obj doc_media_type doc_artifact_type doc_config_head.
