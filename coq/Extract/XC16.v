From Coq Require Import Extraction ExtrOcamlBasic ExtrOcamlString.
From Oras Require Import Base.Prelude Model.Scopes Model.Challenge Model.AuthClient Model.Once Model.CacheSet Model.OnceSlot Model.AuthConc Model.Redirect.
Extraction Language OCaml.
Extraction "xc16.ml" clean_scopes clean_scopes_prefix clean_actions get_all_scopes parse_challenge get_param
  run_model unjudged_header once_accepts set_accepts once_slot_final path_with paths_taken paths_closed paths_panic do_request_rd parse_with lookup_cred keeps_authorization keeps_body.
