From Coq Require Import Extraction ExtrOcamlBasic ExtrOcamlString NArith.
From Oras Require Import Model.CopyImpl Model.CopyImplDst Model.CopyImplSem.
Extraction Language OCaml.
(* N.succ only so that the types positive / n used by ml/common.ml exist *)
Extraction "xcopyimpl.ml" N.succ step init result is_final holders inflight enabled is_done run progress_label dstep dinit dclosedb drun sstep ssize_init sfree.
