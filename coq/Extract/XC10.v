From Coq Require Import Extraction ExtrOcamlBasic ExtrOcamlString.
From Oras Require Import Base.Prelude Model.OciCrash.
Extraction Language OCaml.
Extraction "xc10.ml" run run_op op_steps op_res crash_fs init recoverableb read_index apply
  files dirs fcontent fro sfs sctr.
