From Coq Require Import Extraction ExtrOcamlBasic ExtrOcamlString.
From Oras Require Import Base.Prelude Generated.GC10 Model.OciCrash Model.OciCrashConc.
Extraction Language OCaml.
Extraction "xc10.ml" start sched call_prog gstart gsched gquietb expand api_res crash_ops run_acall runa load_okb run runc run_hop reopen steps_seq crash_seq run_op op_steps op_res crash_fs init recoverableb read_index apply
  files dirs fcontent fro sfs sctr exists_file new_steps init_attempts empty_fs new_okb layout_okb src_layout_inplace src_inplace src_unlink_first src_push_order_ok.
