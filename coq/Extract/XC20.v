From Coq Require Import Extraction ExtrOcamlBasic ExtrOcamlString.
From Oras Require Import Base.Prelude Model.NetURL Model.Reference Model.RefOps.
Extraction Language OCaml.
Extraction "xc20.ml" parse_verdict repo_parse_verdict format url_manifest url_blob url_referrers url_taglist url_upload url_base url_catalog url_repo_base op_requests_verdict valid_repository valid_tag valid_digest url_split go_registry_verdict query_escape query_unescape url_referrers_at url_mount desc_op_requests parse_query.
