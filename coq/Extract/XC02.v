From Coq Require Import Extraction ExtrOcamlBasic ExtrOcamlString.
From Oras Require Import Base.Prelude Generated.GC02 Model.CopySpec Model.CopyTop Model.CopyOpt Model.CopyFault Model.CopyFaultOpt.
Extraction Language OCaml.
(* effective concurrency with the default re-read from copy.go *)
Definition eff_K_gen : Z -> nat := eff_K defaultConcurrency.
Extraction "xc02.ml" fstep fstep_opt finit tainted closedb present_nodes eff_K_gen N.of_nat N.to_nat.
