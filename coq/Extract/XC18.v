From Coq Require Import Extraction ExtrOcamlBasic ExtrOcamlString.
From Oras Require Import Base.Prelude Base.FlatFS Model.Utf8 Model.Json Model.Base64 Model.CredFile Model.CredSave Model.JsonDoc Model.JsonRead.
Extraction Language OCaml.

(* the runner instantiates the base64 parameters with the concrete codec *)
Definition x_open_store := open_file.
Definition x_step := step b64_encode b64_decode.
Definition x_candidates := get_candidates b64_decode.
Definition x_run_sched := run_sched b64_encode b64_decode.
Definition x_to_hostname := to_hostname.
Definition x_saves := saves.
Definition x_entry_bytes := entry_bytes b64_encode.
Definition x_fs_step := fs_step b64_encode b64_decode.
Definition x_encode_auth := encode_auth b64_encode.
Definition x_decode_auth := decode_auth b64_decode.

Extraction "xc18.ml" x_open_store x_step x_candidates x_run_sched x_to_hostname x_saves x_entry_bytes x_fs_step x_encode_auth x_decode_auth
  json_quote json_unquote render_file retire open_bytes open_dynamic ds_route save_steps failed_save_steps cut_at exec_all fget dget b64_encode b64_decode mode_file mode_dir.
