From Coq Require Import Extraction ExtrOcamlBasic ExtrOcamlString.
From Oras Require Import Base.Prelude Generated.GC04 Model.CopySpec Model.CopyTop Model.CopyOpt Model.CopyCancel Model.CopyHold Model.CopyPermit.
Extraction Language OCaml.
(* effective concurrency: the limiter size translated from copyGraph's source (guard, default,
   argument of semaphore.NewWeighted); equal to eff_K defaultConcurrency by C04_limiter_size *)
Definition eff_K_gen : Z -> nat := fun opt => Z.to_nat (copyGraph_limiter_size opt).
(* C04's runner replays every recorded trace on the permit-holding overlay (Model/CopyHold.v): the
   driver ml/c01_main.ml calls [cstep_opt] (cancellation layer over the nil-callback elaboration),
   which here is the overlay's version of it (a waiting leaf holds its permit; holders < K at every
   acquisition) -- accepted by it implies accepted by CopyCancel / CopySpec.
   In CopyGraph runs whose limiter the harness owns, the trace also carries the semaphore's free-permit
   readings (token TB.<f>, decoded by Model/CopyPermit.decode): each must satisfy holders + f <= K. *)
Definition step_opt := step_opt_p.
Definition cstep_opt := cstep_opt_p.
Extraction "xc04.ml" step step_opt cstep_opt init copy_result present_nodes inflight_src inflight_dst active eff_K_gen
  eff_ref prologue select_manifest N.of_nat N.to_nat holders.
