From Coq Require Import Extraction ExtrOcamlBasic ExtrOcamlString.
From Coq Require Import QArith ZArith.
From Oras Require Import Base.Prelude Base.RetryTypes Generated.GC17 Model.Retry.
Extraction Language OCaml.
Extraction "xc17.ml" round_trip auth_do auth_do_tok auth_do_tokw_at blob_push_tok blob_push_gen auth_attempts table_policy parse_int64 default_predicate custom_predicate accept_decision generic_retry
  default_eparams exp_backoff_guarded default_max_retry default_min_wait default_max_wait
  attempts pauses is_prefix manifest_push_body indexed_manifest_push_body init_state
  Z.add Z.mul Z.opp Z.quotrem Z.of_N Z.to_pos Z.ltb Z.eqb.
