(* Proofs about the protocol LTS of Model/CopyImpl.v. *)
From Coq Require Import List Arith Bool Lia.
From Oras Require Import Model.CopyImpl.
Import ListNotations.

Lemma upd_same {A} (f : nat -> A) i x : upd f i x i = x.
Proof. unfold upd. now rewrite Nat.eqb_refl. Qed.
Lemma upd_other {A} (f : nat -> A) i x j : j <> i -> upd f i x j = f j.
Proof. intro H. unfold upd. destruct (Nat.eqb_spec j i); congruence. Qed.

Definition b2n (b : bool) : nat := if b then 1 else 0.

Lemma count_upto_ext p q n : (forall i, i < n -> p i = q i) -> count_upto p n = count_upto q n.
Proof.
  induction n; intros H; simpl; auto. rewrite H by lia. rewrite IHn; auto.
Qed.
Lemma count_upto_upd_ge {A} (g : A -> bool) (f : nat -> A) i x n : n <= i ->
  count_upto (fun t => g (upd f i x t)) n = count_upto (fun t => g (f t)) n.
Proof. intros H. apply count_upto_ext. intros j Hj. rewrite upd_other by lia. reflexivity. Qed.
Lemma count_upto_upd {A} (g : A -> bool) (f : nat -> A) i x n : i < n ->
  count_upto (fun t => g (upd f i x t)) n + b2n (g (f i)) = count_upto (fun t => g (f t)) n + b2n (g x).
Proof.
  induction n; intros H; [lia|]. simpl.
  destruct (Nat.eq_dec i n) as [->|Hne].
  - rewrite upd_same. rewrite count_upto_upd_ge by lia. unfold b2n. destruct (g x), (g (f n)); lia.
  - rewrite upd_other by lia. assert (Hi : i < n) by lia. specialize (IHn Hi). lia.
Qed.
Lemma count_upto_le p q n : (forall i, p i = true -> q i = true) -> count_upto p n <= count_upto q n.
Proof.
  intros H. induction n; simpl; auto. specialize (H n). destruct (p n), (q n); try lia.
Qed.
Lemma count_upto_bound p n : count_upto p n <= n.
Proof. induction n; simpl; auto. destruct (p n); lia. Qed.

Definition must_hold (p : pc) : bool :=
  match p with TSpawned | TTry | TExists | TFind | TPush => true | _ => false end.
Definition may_hold (p : pc) : bool :=
  match p with TSpawned | TTry | TExists | TFind | TEnd | TPush => true | _ => false end.

(* destructs every match / if of a `step ... = Some s'` hypothesis *)
Ltac inv_step H :=
  unfold step in H; cbv zeta in H;
  repeat match type of H with
         | context [match ?x with _ => _ end] => destruct x eqn:?; try discriminate H
         end;
  try (injection H as H); try subst.

Ltac upd_cases :=
  repeat match goal with
         | |- context [upd _ ?i _ ?j] =>
           let E := fresh "E" in
           destruct (Nat.eq_dec j i) as [E|E];
           [ try subst; rewrite ?upd_same in * | rewrite (upd_other _ _ _ _ E) in * ]
         | H : context [upd _ ?i _ ?j] |- _ =>
           let E := fresh "E" in
           destruct (Nat.eq_dec j i) as [E|E];
           [ try subst; rewrite ?upd_same in * | rewrite (upd_other _ _ _ _ E) in * ]
         end.

Section Proofs.
Variable succ : nat -> list nat.
Variable K : nat.
Variable ext : bool.
Variable roots : list nat.

Inductive Reachable : state -> Prop :=
| R_init : Reachable (init K ext roots)
| R_step s l s' : Reachable s -> step succ s l = Some s' -> Reachable s'.

(* ------------------------------------------------------------------ permits *)

Record Inv1 (s : state) : Prop := {
  i1_wf : forall t, ntasks s <= t -> tasks s t = dtask;
  i1_perm : free s + holders s = K;
  i1_must : forall t, must_hold (t_pc (tasks s t)) = true -> t_holds (tasks s t) = true;
  i1_may : forall t, t_holds (tasks s t) = true -> may_hold (t_pc (tasks s t)) = true }.

Lemma live_lt s t : (forall t, ntasks s <= t -> tasks s t = dtask) ->
  is_fin (t_pc (tasks s t)) = false -> t < ntasks s.
Proof.
  intros Hwf Hp. destruct (Nat.lt_ge_cases t (ntasks s)); auto. rewrite Hwf in Hp by auto. discriminate.
Qed.

Lemma holders_upd s ts t x fr nf fe trk tc fl :
  ts = tasks s -> t < ntasks s ->
  holders (mkState (upd ts t x) (ntasks s) fr nf fe trk tc fl) + b2n (t_holds (tasks s t))
  = holders s + b2n (t_holds x).
Proof. intros -> Hlt. unfold holders. simpl. apply (count_upto_upd t_holds). auto. Qed.

Lemma inv1_init : Inv1 (init K ext roots).
Proof. constructor; simpl; intros; auto; try discriminate. Qed.

Ltac live t :=
  match goal with
  | Hwf : forall t, ntasks ?s <= t -> tasks ?s t = dtask, Hpc : t_pc (tasks ?s t) = _ |- _ =>
    assert (t < ntasks s) by (apply (live_lt s t Hwf); rewrite Hpc; reflexivity)
  end.

Ltac holds_from_pc :=
  repeat match goal with
         | Hm : (forall t, must_hold (t_pc (tasks ?s t)) = true -> _), Hpc : t_pc (tasks ?s ?t) = _ |- _ =>
           lazymatch goal with
           | _ : t_holds (tasks s t) = true |- _ => fail
           | _ => idtac
           end;
           assert (t_holds (tasks s t) = true) by (apply Hm; rewrite Hpc; reflexivity)
         end.

Ltac perm_tac :=
  match goal with
  | |- context [holders (mkState (upd (tasks ?s) ?t ?x) (ntasks ?s) ?a ?b ?c ?d ?e ?f)] =>
    let HH := fresh "HH" in
    pose proof (holders_upd s (tasks s) t x a b c d e f eq_refl ltac:(assumption)) as HH;
    cbn [set_pc set_pc_holds t_holds] in HH; unfold b2n in HH;
    repeat match goal with
           | |- context [if t_holds ?y then _ else _] => destruct (t_holds y) eqn:?
           | H : context [if t_holds ?y then _ else _] |- _ => destruct (t_holds y) eqn:?
           end;
    try congruence; try lia
  end.

Lemma inv1_step s l s' : Inv1 s -> step succ s l = Some s' -> Inv1 s'.
Proof.
  intros [Hwf Hperm Hmust Hmay] Hs.
  destruct l; inv_step Hs.
  all: try (live t).
  all: try match goal with H : t_pc (tasks _ ?p) = TInGo _ |- _ => live p end.
  all: holds_from_pc.
  all: constructor; unfold finish, with_tasks; cbn [tasks ntasks free frames nframes tracker]; intros.
  (* wf *)
  all: try solve [ upd_cases; try lia; apply Hwf; lia ].
  (* perm *)
  all: try solve [ assumption | perm_tac ].
  (* must / may *)
  all: try solve [ upd_cases; unfold wait_pc in *; cbn in *; auto; try congruence;
                   repeat match goal with
                          | H : t_holds (tasks ?s ?t) = true, Hm : forall t, t_holds (tasks ?s t) = true -> _ |- _ => apply Hm in H
                          end;
                   repeat match goal with
                          | H : t_pc (tasks _ ?t) = _ |- _ => first [rewrite H in * | clear H]
                          end;
                   repeat match goal with
                          | H : context [match ?x with _ => _ end] |- _ => destruct x
                          | |- context [match ?x with _ => _ end] => destruct x
                          end;
                   cbn in *; auto; try congruence ].
  unfold holders. cbn [tasks ntasks]. simpl count_upto. rewrite upd_same. cbn [t_holds].
  rewrite (count_upto_upd_ge t_holds) by lia. unfold holders in Hperm. lia.
Qed.

Lemma inv1_reach s : Reachable s -> Inv1 s.
Proof. induction 1; eauto using inv1_init, inv1_step. Qed.

Lemma permits_conserved s : Reachable s ->
  free s + holders s = K /\ holders s <= K /\
  (forall t, is_fin (t_pc (tasks s t)) = true -> t_holds (tasks s t) = false).
Proof.
  intros H. destruct (inv1_reach s H) as [Hwf Hperm Hmust Hmay]. repeat split; auto; try lia.
  intros t Hf. destruct (t_holds (tasks s t)) eqn:Hh; auto. apply Hmay in Hh.
  destruct (t_pc (tasks s t)); discriminate.
Qed.

(* End / Start are idempotent: a task that does not hold a permit releases nothing when it ends its
   region or finishes; a task that holds one does not acquire a second one *)
Lemma end_idempotent s t s' : step succ s (LEnd t) = Some s' ->
  t_holds (tasks s' t) = false /\ free s' = (if t_holds (tasks s t) then S (free s) else free s).
Proof.
  intros Hs. inv_step Hs; cbn; rewrite upd_same; auto.
Qed.
Lemma finish_releases_once s t e m :
  free (finish s t e m) = (if t_holds (tasks s t) then S (free s) else free s) /\
  t_holds (tasks (finish s t e m) t) = false.
Proof. unfold finish. cbn. rewrite upd_same. auto. Qed.
Lemma start_idempotent s t s' : step succ s (LStart t) = Some s' -> t_holds (tasks s t) = true ->
  t_kind (tasks s t) = KFn -> free s' = free s /\ t_holds (tasks s' t) = true.
Proof.
  intros Hs Hh Hk. inv_step Hs; try congruence; cbn; rewrite upd_same; auto.
Qed.

Lemma inflight_bounded s : Reachable s -> inflight s <= holders s /\ inflight s <= K.
Proof.
  intros H. destruct (inv1_reach s H) as [Hwf Hperm Hmust Hmay].
  assert (inflight s <= holders s).
  { unfold inflight, holders. apply count_upto_le. intros i Hi. apply Hmust.
    destruct (t_pc (tasks s i)); try discriminate; reflexivity. }
  split; auto. lia.
Qed.

End Proofs.
