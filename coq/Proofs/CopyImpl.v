From Coq Require Import List Arith Bool Lia.
From Oras Require Import Model.CopyImpl.
Import ListNotations.
Lemma init_free : forall K ext roots, free (init K ext roots) = K.
Proof. reflexivity. Qed.
