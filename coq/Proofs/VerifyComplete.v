(* Completeness: a well-behaved reader of exactly the right bytes is accepted
   (and the model never runs out of fuel on it). *)
From Oras Require Import Base.Prelude Generated.GC05 Model.Verify Proofs.Verify.
From Coq Require Import Lia ZArith.

Local Open Scope nat_scope.

Lemma clamp_same k : clamp k (Z.of_nat k) = k.
Proof. rewrite clamp_min, Nat2Z.id. lia. Qed.

Section Complete.
  Variable H : str -> str -> str.
  Variable comb : bool.

  (* the io.ReadFull loop of ReadAll on a reader that holds exactly the missing bytes *)
  Lemma read_full_exact : forall evs fuel acc N want,
    nfail evs + neof evs = 0 -> length evs < fuel ->
    N = Z.of_nat (length (stream evs)) -> want = length acc + length (stream evs) ->
    exists evs' err',
      read_full (vr_read comb) fuel (mkVr (mkBase evs None) N acc None false) want acc
      = ((acc ++ stream evs, None), mkVr (mkBase evs' None) 0 (acc ++ stream evs) err' false) /\
      stream evs' = [] /\ nfail evs' + neof evs' = 0 /\ length evs' <= length evs /\
      (err' = None \/ err' = Some EEof).
  Proof.
    induction evs as [|e r IH]; intros fuel acc N want NF Fu EN EW.
    - simpl in *. subst. exists [], None. rewrite Nat.add_0_r, app_nil_r.
      destruct fuel; simpl; rewrite Nat.leb_refl; repeat split; auto.
    - destruct (stream (e :: r)) as [|c0 s0] eqn:ES.
      + (* nothing missing: the loop does not run *)
        simpl in EN, EW. subst. exists (e :: r), None. rewrite Nat.add_0_r, app_nil_r.
        destruct fuel; simpl; rewrite Nat.leb_refl; repeat split; auto.
      + destruct fuel as [|f]; [simpl in Fu; lia|]. simpl in Fu.
        assert (Wgt : (want <=? length acc) = false).
        { apply Nat.leb_gt. subst want. simpl. lia. }
        assert (Npos : (N <=? 0)%Z = false).
        { apply Z.leb_gt. subst N. simpl length. lia. }
        assert (K : want - length acc = length (c0 :: s0)) by (subst want; lia).
        cbn [read_full]. rewrite Wgt.
        unfold vr_read at 1. cbn [v_err v_N v_base v_hashed v_verified]. rewrite Npos.
        rewrite K. subst N. rewrite clamp_same.
        unfold base_read. cbn [b_lim b_evs].
        destruct e as [d| | |]; [| |exfalso; simpl in NF; lia|exfalso; simpl in NF; lia].
        * (* Data d *)
          simpl in ES. simpl in NF.
          assert (Ld : (length d <=? length (c0 :: s0)) = true).
          { apply Nat.leb_le. rewrite <- ES, app_length. lia. }
          cbn [script_read]. rewrite Ld.
          assert (Rest : (Z.of_nat (length (c0 :: s0)) - Z.of_nat (length d) = Z.of_nat (length (stream r)))%Z).
          { rewrite <- ES, app_length. lia. }
          assert (Go : forall fuel', length r < fuel' -> exists evs' err',
                     read_full (vr_read comb) fuel'
                       (mkVr (mkBase r None) (Z.of_nat (length (stream r))) (acc ++ d) None false) want (acc ++ d)
                     = ((acc ++ c0 :: s0, None), mkVr (mkBase evs' None) 0 (acc ++ c0 :: s0) err' false) /\
                     stream evs' = [] /\ nfail evs' + neof evs' = 0 /\ length evs' <= length r /\
                     (err' = None \/ err' = Some EEof)).
          { intros fuel' Fu'. destruct (IH fuel' (acc ++ d) (Z.of_nat (length (stream r))) want NF Fu' eq_refl) as (evs' & err' & E1 & E2).
            - subst want. rewrite app_length, <- ES, app_length. lia.
            - exists evs', err'. rewrite <- ES, app_assoc. split; [exact E1|exact E2]. }
          destruct comb eqn:Cb.
          -- destruct r as [|[d'| | |] r']; [| | |exfalso; simpl in NF; lia|exfalso; simpl in NF; lia].
             ++ (* data together with EOF *)
                simpl in ES. rewrite app_nil_r in ES. subst d.
                cbn [length app]. rewrite Z.sub_diag. cbn [is_eof andb Z.gtb Z.compare set_err v_base v_N v_hashed v_verified].
                assert (Wl : (want <=? length (acc ++ c0 :: s0)) = true).
                { apply Nat.leb_le. subst want. rewrite app_length. lia. }
                rewrite Wl. exists [], (Some EEof). repeat split; auto; try (simpl; lia).
             ++ rewrite Rest. destruct (Go f) as (evs' & err' & E1 & E2 & E3 & E4 & E5); [simpl in *; lia|].
                exists evs', err'. split; [exact E1|]. repeat split; auto; try (simpl in *; lia).
             ++ rewrite Rest. destruct (Go f) as (evs' & err' & E1 & E2 & E3 & E4 & E5); [simpl in *; lia|].
                exists evs', err'. split; [exact E1|]. repeat split; auto; try (simpl in *; lia).
          -- rewrite Rest. destruct (Go f) as (evs' & err' & E1 & E2 & E3 & E4 & E5); [simpl in *; lia|].
             exists evs', err'. split; [exact E1|]. repeat split; auto; try (simpl in *; lia).
        * (* Zero *)
          simpl in ES, NF. cbn [script_read length app]. rewrite Z.sub_0_r, app_nil_r.
          destruct (IH f acc (Z.of_nat (length (stream r))) want NF) as (evs' & err' & E1 & E2 & E3 & E4 & E5).
          -- simpl in Fu; lia.
          -- reflexivity.
          -- subst want. rewrite ES. reflexivity.
          -- rewrite ES in *. exists evs', err'. split; [exact E1|]. repeat split; auto; try (simpl; lia).
  Qed.

  (* the same behind an io.LimitReader whose bound is exactly the missing bytes (LimitedStorage) *)
  Lemma read_full_exact_lim : forall evs fuel acc N want,
    nfail evs + neof evs = 0 -> length evs < fuel ->
    N = Z.of_nat (length (stream evs)) -> want = length acc + length (stream evs) ->
    exists evs' err',
      read_full (vr_read comb) fuel (mkVr (mkBase evs (Some N)) N acc None false) want acc
      = ((acc ++ stream evs, None), mkVr (mkBase evs' (Some 0%Z)) 0 (acc ++ stream evs) err' false) /\
      stream evs' = [] /\ nfail evs' + neof evs' = 0 /\ length evs' <= length evs /\
      (err' = None \/ err' = Some EEof).
  Proof.
    induction evs as [|e r IH]; intros fuel acc N want NF Fu EN EW.
    - simpl in *. subst. exists [], None. rewrite Nat.add_0_r, app_nil_r.
      destruct fuel; simpl; rewrite Nat.leb_refl; repeat split; auto.
    - destruct (stream (e :: r)) as [|c0 s0] eqn:ES.
      + (* nothing missing: the loop does not run *)
        simpl in EN, EW. subst. exists (e :: r), None. rewrite Nat.add_0_r, app_nil_r.
        destruct fuel; simpl; rewrite Nat.leb_refl; repeat split; auto.
      + destruct fuel as [|f]; [simpl in Fu; lia|]. simpl in Fu.
        assert (Wgt : (want <=? length acc) = false).
        { apply Nat.leb_gt. subst want. simpl. lia. }
        assert (Npos : (N <=? 0)%Z = false).
        { apply Z.leb_gt. subst N. simpl length. lia. }
        assert (K : want - length acc = length (c0 :: s0)) by (subst want; lia).
        cbn [read_full]. rewrite Wgt.
        unfold vr_read at 1. cbn [v_err v_N v_base v_hashed v_verified]. rewrite Npos.
        rewrite K. subst N. rewrite clamp_same.
        unfold base_read. cbn [b_lim b_evs]. rewrite Npos, clamp_same.
        destruct e as [d| | |]; [| |exfalso; simpl in NF; lia|exfalso; simpl in NF; lia].
        * (* Data d *)
          simpl in ES. simpl in NF.
          assert (Ld : (length d <=? length (c0 :: s0)) = true).
          { apply Nat.leb_le. rewrite <- ES, app_length. lia. }
          cbn [script_read]. rewrite Ld.
          assert (Rest : (Z.of_nat (length (c0 :: s0)) - Z.of_nat (length d) = Z.of_nat (length (stream r)))%Z).
          { rewrite <- ES, app_length. lia. }
          assert (Go : forall fuel', length r < fuel' -> exists evs' err',
                     read_full (vr_read comb) fuel'
                       (mkVr (mkBase r (Some (Z.of_nat (length (stream r))))) (Z.of_nat (length (stream r))) (acc ++ d) None false) want (acc ++ d)
                     = ((acc ++ c0 :: s0, None), mkVr (mkBase evs' (Some 0%Z)) 0 (acc ++ c0 :: s0) err' false) /\
                     stream evs' = [] /\ nfail evs' + neof evs' = 0 /\ length evs' <= length r /\
                     (err' = None \/ err' = Some EEof)).
          { intros fuel' Fu'. destruct (IH fuel' (acc ++ d) (Z.of_nat (length (stream r))) want NF Fu' eq_refl) as (evs' & err' & E1 & E2).
            - subst want. rewrite app_length, <- ES, app_length. lia.
            - exists evs', err'. rewrite <- ES, app_assoc. split; [exact E1|exact E2]. }
          destruct comb eqn:Cb.
          -- destruct r as [|[d'| | |] r']; [| | |exfalso; simpl in NF; lia|exfalso; simpl in NF; lia].
             ++ (* data together with EOF *)
                simpl in ES. rewrite app_nil_r in ES. subst d.
                cbn [length app]. rewrite Z.sub_diag. cbn [is_eof andb Z.gtb Z.compare set_err v_base v_N v_hashed v_verified].
                assert (Wl : (want <=? length (acc ++ c0 :: s0)) = true).
                { apply Nat.leb_le. subst want. rewrite app_length. lia. }
                rewrite Wl. exists [], (Some EEof). repeat split; auto; try (simpl; lia).
             ++ rewrite Rest. destruct (Go f) as (evs' & err' & E1 & E2 & E3 & E4 & E5); [simpl in *; lia|].
                exists evs', err'. split; [exact E1|]. repeat split; auto; try (simpl in *; lia).
             ++ rewrite Rest. destruct (Go f) as (evs' & err' & E1 & E2 & E3 & E4 & E5); [simpl in *; lia|].
                exists evs', err'. split; [exact E1|]. repeat split; auto; try (simpl in *; lia).
          -- rewrite Rest. destruct (Go f) as (evs' & err' & E1 & E2 & E3 & E4 & E5); [simpl in *; lia|].
             exists evs', err'. split; [exact E1|]. repeat split; auto; try (simpl in *; lia).
        * (* Zero *)
          simpl in ES, NF. cbn [script_read length app]. rewrite Z.sub_0_r, app_nil_r.
          destruct (IH f acc (Z.of_nat (length (stream r))) want NF) as (evs' & err' & E1 & E2 & E3 & E4 & E5).
          -- simpl in Fu; lia.
          -- reflexivity.
          -- subst want. rewrite ES. reflexivity.
          -- rewrite ES in *. exists evs', err'. split; [exact E1|]. repeat split; auto; try (simpl; lia).
  Qed.

  (* ensureEOF on what is left of such a reader (only 0-byte reads) *)
  Lemma ensure_eof_exhausted : forall evs fuel h,
    stream evs = [] -> nfail evs + neof evs = 0 -> length evs < fuel ->
    exists b', read_full (tee_read comb) fuel (mkBase evs None, h) 1 [] = (([], Some EEof), (b', h)).
  Proof.
    induction evs as [|e r IH]; intros fuel h ES NF Fu; (destruct fuel as [|f]; [simpl in Fu; lia|]).
    - exists (mkBase [] None). cbn. rewrite app_nil_r. reflexivity.
    - cbn [read_full length Nat.leb]. unfold tee_read at 1. cbn [fst snd Nat.sub].
      unfold base_read. cbn [b_lim b_evs]. simpl in Fu.
      destruct e as [d| | |]; [| |exfalso; simpl in NF; lia|exfalso; simpl in NF; lia].
      + simpl in ES. apply app_eq_nil in ES as [-> ES]. simpl in NF.
        cbn [script_read length Nat.leb].
        destruct comb.
        * destruct r as [|[d'| | |] r']; [| | |exfalso; simpl in NF; lia|exfalso; simpl in NF; lia].
          -- exists (mkBase [] None). cbn. rewrite app_nil_r. reflexivity.
          -- cbn [app]. rewrite app_nil_r. apply IH; auto. lia.
          -- cbn [app]. rewrite app_nil_r. apply IH; auto. lia.
        * cbn [app]. rewrite app_nil_r. apply IH; auto. lia.
      + simpl in ES, NF. cbn [script_read app]. rewrite app_nil_r. apply IH; auto. lia.
  Qed.

  Lemma length_le_weight evs : length evs <= ev_weight evs.
  Proof. induction evs as [|[d| | |] r IH]; simpl; lia. Qed.

  (* content.ReadAll accepts every well-behaved reader of exactly the right bytes:
     any chunking, any number of 0-byte reads, EOF with or after the last chunk *)
  Theorem read_all_complete fixed fuel evs dg :
    nfail evs + neof evs = 0 -> valid_digest dg = true -> dg = digest_of H (alg_of dg) (stream evs) ->
    ev_weight evs < fuel ->
    fst (read_all H comb fixed fuel (mkBase evs None) dg (Z.of_nat (length (stream evs))))
    = (None, stream evs).
  Proof.
    intros NF V D Fu. pose proof (length_le_weight evs) as LW.
    unfold read_all. assert (Z0 : (Z.of_nat (length (stream evs)) <? 0)%Z = false) by (apply Z.ltb_ge; lia).
    rewrite Z0. unfold new_vr, new_vr_gen. rewrite V, Z0, andb_false_r. cbn [negb].
    rewrite Nat2Z.id.
    destruct (read_full_exact evs fuel [] (Z.of_nat (length (stream evs))) (length (stream evs)) NF)
      as (evs' & err' & E1 & E2 & E3 & E4 & E5); try reflexivity; try lia.
    rewrite E1. cbn [app].
    unfold vr_verify. cbn [v_verified v_err v_N v_base v_hashed].
    destruct (ensure_eof_exhausted evs' fuel (stream evs) E2 E3) as (b' & Ee); [lia|].
    unfold ensure_eof. rewrite Ee. cbn [negb].
    assert (Vd : verified H dg (stream evs) = true).
    { unfold verified. rewrite <- D. apply str_eqb_refl. }
    rewrite Vd. destruct E5 as [-> | ->]; reflexivity.
  Qed.

  Theorem mem_push_complete fixed fuel m d evs :
    mem_get m d = None -> nfail evs + neof evs = 0 -> valid_digest (d_dg d) = true ->
    d_dg d = digest_of H (alg_of (d_dg d)) (stream evs) -> d_sz d = Z.of_nat (length (stream evs)) ->
    ev_weight evs < fuel ->
    mem_push H comb fixed fuel m d (mkBase evs None) = (None, (d, stream evs) :: m).
  Proof.
    intros G NF V D Sz Fu. unfold mem_push. rewrite G, Sz.
    pose proof (read_all_complete fixed fuel evs (d_dg d) NF V D Fu) as C.
    destruct (read_all H comb fixed fuel (mkBase evs None) (d_dg d) (Z.of_nat (length (stream evs)))) as [[e buf] v].
    simpl in C. inversion C; subst. reflexivity.
  Qed.

  (* ---------------------------------------------------------------- CopyBuffer, any buffer size *)
  Lemma clamp_pos k n : 1 <= k -> (0 < n)%Z -> 1 <= clamp k n.
  Proof. rewrite clamp_min. lia. Qed.

  Lemma copy_loop_exact bufsz : 1 <= bufsz -> forall fuel evs out N,
    nfail evs + neof evs = 0 -> ev_weight evs < fuel -> N = Z.of_nat (length (stream evs)) ->
    exists evs',
      copy_loop comb fuel (mkVr (mkBase evs None) N out None false) bufsz out
      = ((None, out ++ stream evs), mkVr (mkBase evs' None) 0 (out ++ stream evs) (Some EEof) false) /\
      stream evs' = [] /\ nfail evs' + neof evs' = 0 /\ length evs' <= length evs.
  Proof.
    intro B1. induction fuel as [|f IH]; intros evs out N NF Fu EN; [lia|].
    cbn [copy_loop]. unfold vr_read at 1. cbn [v_err v_N v_base v_hashed v_verified].
    destruct (N <=? 0)%Z eqn:N0.
    - (* everything copied: the LimitedReader reports EOF *)
      assert (ES : stream evs = []).
      { apply Z.leb_le in N0. destruct (stream evs); [reflexivity|simpl in EN; lia]. }
      rewrite ES in *. simpl in EN. subst N. rewrite !app_nil_r. exists evs. repeat split; auto.
    - apply Z.leb_gt in N0.
      pose proof (clamp_pos bufsz N B1 N0) as K1. pose proof (clamp_le bufsz N N0) as [_ K2].
      remember (clamp bufsz N) as k eqn:Ek. clear Ek.
      unfold base_read. cbn [b_lim b_evs].
      destruct evs as [|[d| | |] r]; [| | |exfalso; simpl in NF; lia|exfalso; simpl in NF; lia].
      + simpl in EN. lia.
      + simpl in NF, Fu, EN. cbn [script_read].
        destruct (length d <=? k) eqn:Ld.
        * apply Nat.leb_le in Ld.
          assert (Rest : (N - Z.of_nat (length d) = Z.of_nat (length (stream r)))%Z).
          { subst N. rewrite app_length. lia. }
          assert (Go : exists evs',
                     copy_loop comb f (mkVr (mkBase r None) (Z.of_nat (length (stream r))) (out ++ d) None false) bufsz (out ++ d)
                     = ((None, out ++ stream (Data d :: r)), mkVr (mkBase evs' None) 0 (out ++ stream (Data d :: r)) (Some EEof) false) /\
                     stream evs' = [] /\ nfail evs' + neof evs' = 0 /\ length evs' <= length (Data d :: r)).
          { destruct (IH r (out ++ d) (Z.of_nat (length (stream r))) NF) as (evs' & E1 & E2 & E3 & E4); [lia|reflexivity|].
            exists evs'. simpl stream. rewrite app_assoc. split; [exact E1|]. repeat split; auto. simpl; lia. }
          destruct comb eqn:Cb.
          -- destruct r as [|[d'| | |] r']; [| | |exfalso; simpl in NF; lia|exfalso; simpl in NF; lia].
             ++ simpl in Rest. rewrite Rest. cbn [is_eof andb Z.gtb Z.compare set_err v_base v_N v_hashed v_verified].
                exists []. simpl stream. rewrite app_nil_r. repeat split; auto; simpl; lia.
             ++ rewrite Rest. exact Go.
             ++ rewrite Rest. exact Go.
          -- rewrite Rest. exact Go.
        * apply Nat.leb_gt in Ld.
          assert (Lf : length (firstn k d) = k) by (apply firstn_length_le; lia).
          rewrite Lf.
          destruct (IH (Data (skipn k d) :: r) (out ++ firstn k d) (N - Z.of_nat k)%Z) as (evs' & E1 & E2 & E3 & E4).
          -- exact NF.
          -- simpl. rewrite skipn_length. lia.
          -- subst N. simpl. rewrite !app_length, skipn_length. lia.
          -- exists evs'. simpl stream in *. rewrite <- app_assoc in E1.
             rewrite (app_assoc (firstn k d)), firstn_skipn in E1.
             split; [exact E1|]. repeat split; auto.
      + simpl in NF, Fu, EN. cbn [script_read length app]. rewrite Z.sub_0_r, app_nil_r.
        destruct (IH r out N NF) as (evs' & E1 & E2 & E3 & E4); [lia|exact EN|].
        exists evs'. simpl stream. split; [exact E1|]. repeat split; auto; try (simpl; lia).
  Qed.

  Theorem copy_buffer_complete fuel evs bufsz dg :
    1 <= bufsz -> nfail evs + neof evs = 0 -> valid_digest dg = true -> dg = digest_of H (alg_of dg) (stream evs) ->
    ev_weight evs < fuel ->
    fst (copy_buffer H comb true fuel (mkBase evs None) bufsz dg (Z.of_nat (length (stream evs))))
    = (None, stream evs).
  Proof.
    intros B1 NF V D Fu. pose proof (length_le_weight evs) as LW.
    unfold copy_buffer, new_vr, new_vr_gen.
    assert (Z0 : (Z.of_nat (length (stream evs)) <? 0)%Z = false) by (apply Z.ltb_ge; lia).
    rewrite V, Z0. cbn [negb andb].
    destruct (copy_loop_exact bufsz B1 fuel evs [] _ NF Fu eq_refl) as (evs' & E1 & E2 & E3 & E4).
    rewrite E1. cbn [app].
    unfold vr_verify. cbn [v_verified v_err v_N v_base v_hashed].
    destruct (ensure_eof_exhausted evs' fuel (stream evs) E2 E3) as (b' & Ee); [lia|].
    unfold ensure_eof. rewrite Ee. cbn [negb].
    assert (Vd : verified H dg (stream evs) = true).
    { unfold verified. rewrite <- D. apply str_eqb_refl. }
    rewrite Vd. reflexivity.
  Qed.

  Lemma oci_bufsz_pos : 1 <= oci_bufsz.
  Proof. apply Nat.leb_le. vm_compute. reflexivity. Qed.

  Theorem oci_push_complete fuel s d evs :
    oci_get s (d_dg d) = None -> nfail evs + neof evs = 0 -> valid_digest (d_dg d) = true ->
    d_dg d = digest_of H (alg_of (d_dg d)) (stream evs) -> d_sz d = Z.of_nat (length (stream evs)) ->
    ev_weight evs < fuel ->
    oci_push H comb true fuel s d (mkBase evs None) = (None, (d_dg d, stream evs) :: s).
  Proof.
    intros G NF V D Sz Fu. unfold oci_push. rewrite V, G, Sz. cbn [negb].
    pose proof (copy_buffer_complete fuel evs oci_bufsz (d_dg d) oci_bufsz_pos NF V D Fu) as C.
    destruct (copy_buffer H comb true fuel (mkBase evs None) oci_bufsz (d_dg d) (Z.of_nat (length (stream evs)))) as [[e out] v].
    simpl in C. inversion C; subst. reflexivity.
  Qed.

  Lemma file_bufsz_pos : 1 <= file_bufsz.
  Proof. apply Nat.leb_le. vm_compute. reflexivity. Qed.

  (* file.Store, named push: a fresh name and a well-behaved reader of the right bytes *)
  Theorem file_push_complete fuel s name path d evs :
    name <> [] -> name_in name (f_names s) = false ->
    nfail evs + neof evs = 0 -> valid_digest (d_dg d) = true ->
    d_dg d = digest_of H (alg_of (d_dg d)) (stream evs) -> d_sz d = Z.of_nat (length (stream evs)) ->
    ev_weight evs < fuel ->
    file_push H comb true fuel s name path d evs
    = (None, mkFs (assoc_set (f_files s) path (stream evs)) (name :: f_names s)
                  (assoc_set (f_d2p s) (d_dg d) path) (f_fb s)).
  Proof.
    intros Nn Nin NF V D Sz Fu. unfold file_push. destruct name as [|c n0]; [congruence|].
    rewrite Nin, Sz.
    pose proof (copy_buffer_complete fuel evs file_bufsz (d_dg d) file_bufsz_pos NF V D Fu) as C.
    destruct (copy_buffer H comb true fuel (mkBase evs None) file_bufsz (d_dg d) (Z.of_nat (length (stream evs)))) as [[e out] v].
    simpl in C. inversion C; subst. reflexivity.
  Qed.

  (* ---------------------------------------------------------------- behind LimitedStorage *)
  Lemma ensure_eof_limit0 evs fuel h : 1 <= fuel ->
    read_full (tee_read comb) fuel (mkBase evs (Some 0%Z), h) 1 []
    = (([], Some EEof), (mkBase evs (Some 0%Z), h)).
  Proof. destruct fuel; [lia|]. intros _. cbn. rewrite app_nil_r. reflexivity. Qed.

  Theorem read_all_complete_lim fixed fuel evs dg :
    nfail evs + neof evs = 0 -> valid_digest dg = true -> dg = digest_of H (alg_of dg) (stream evs) ->
    ev_weight evs < fuel ->
    fst (read_all H comb fixed fuel (mkBase evs (Some (Z.of_nat (length (stream evs))))) dg
                  (Z.of_nat (length (stream evs))))
    = (None, stream evs).
  Proof.
    intros NF V D Fu. pose proof (length_le_weight evs) as LW.
    unfold read_all. assert (Z0 : (Z.of_nat (length (stream evs)) <? 0)%Z = false) by (apply Z.ltb_ge; lia).
    rewrite Z0. unfold new_vr, new_vr_gen. rewrite V, Z0, andb_false_r. cbn [negb].
    rewrite Nat2Z.id.
    destruct (read_full_exact_lim evs fuel [] (Z.of_nat (length (stream evs))) (length (stream evs)) NF)
      as (evs' & err' & E1 & E2 & E3 & E4 & E5); try reflexivity; try lia.
    rewrite E1. cbn [app].
    unfold vr_verify. cbn [v_verified v_err v_N v_base v_hashed].
    unfold ensure_eof. rewrite ensure_eof_limit0 by lia. cbn [negb].
    assert (Vd : verified H dg (stream evs) = true).
    { unfold verified. rewrite <- D. apply str_eqb_refl. }
    rewrite Vd. destruct E5 as [-> | ->]; reflexivity.
  Qed.

  (* LimitedStorage over cas.Memory (= the file store's fallback for unnamed content) *)
  Theorem limited_mem_push_complete fixed fuel limit m d evs :
    (d_sz d <= limit)%Z -> mem_get m d = None -> nfail evs + neof evs = 0 -> valid_digest (d_dg d) = true ->
    d_dg d = digest_of H (alg_of (d_dg d)) (stream evs) -> d_sz d = Z.of_nat (length (stream evs)) ->
    ev_weight evs < fuel ->
    limited_push (mem_push H comb fixed fuel) limit m d evs = (None, (d, stream evs) :: m).
  Proof.
    intros Lm G NF V D Sz Fu. unfold limited_push.
    assert (Q : (d_sz d >? limit)%Z = false) by (rewrite Z.gtb_ltb; apply Z.ltb_ge; lia). rewrite Q.
    unfold mem_push. rewrite G, Sz.
    pose proof (read_all_complete_lim fixed fuel evs (d_dg d) NF V D Fu) as C.
    destruct (read_all H comb fixed fuel (mkBase evs (Some (Z.of_nat (length (stream evs))))) (d_dg d)
                       (Z.of_nat (length (stream evs)))) as [[e buf] v].
    simpl in C. inversion C; subst. reflexivity.
  Qed.

  Theorem file_push_fallback_complete fuel s path d evs :
    (d_sz d <= defaultFallbackPushSizeLimit)%Z -> mem_get (f_fb s) d = None ->
    nfail evs + neof evs = 0 -> valid_digest (d_dg d) = true ->
    d_dg d = digest_of H (alg_of (d_dg d)) (stream evs) -> d_sz d = Z.of_nat (length (stream evs)) ->
    ev_weight evs < fuel ->
    file_push H comb true fuel s [] path d evs
    = (None, mkFs (f_files s) (f_names s) (f_d2p s) ((d, stream evs) :: f_fb s)).
  Proof.
    intros Lm G NF V D Sz Fu. unfold file_push.
    rewrite (limited_mem_push_complete true fuel _ _ _ _ Lm G NF V D Sz Fu). reflexivity.
  Qed.
End Complete.

(* ------------------------------------------------------------------ the two verification paths agree *)
(* content.ReadAll (memory store, FetchAll) and ioutil.CopyBuffer (OCI layout, file store)
   accept exactly the same (reader, descriptor) pairs and hand on the same bytes. *)
Section PathsAgree.
  Variable H : str -> str -> str.
  Variable comb : bool.
  Local Open Scope nat_scope.

  Lemma accepted_facts evs dg sz buf :
    matches_desc H dg sz buf -> stream evs = buf ->
    sz = Z.of_nat (length (stream evs)) /\ valid_digest dg = true /\ dg = digest_of H (alg_of dg) (stream evs).
  Proof. intros (A1 & A2 & A3) S. subst buf. repeat split; auto; lia. Qed.

  Theorem paths_agree fuel evs bufsz dg sz buf :
    1 <= bufsz -> ev_weight evs < fuel -> neof evs = 0 ->
    (fst (read_all H comb true fuel (mkBase evs None) dg sz) = (None, buf) <->
     fst (copy_buffer H comb true fuel (mkBase evs None) bufsz dg sz) = (None, buf)).
  Proof.
    intros B1 Fu Ne. split; intro E.
    - destruct (read_all H comb true fuel (mkBase evs None) dg sz) as [[e b0] v] eqn:Er.
      simpl in E. inversion E; subst.
      pose proof (read_all_failing H comb true fuel evs dg sz buf v Ne Er) as NF.
      apply read_all_sound in Er as (A & _ & C). specialize (C eq_refl Ne). simpl in C.
      destruct (accepted_facts evs dg sz buf A C) as (-> & V & D). rewrite <- C.
      apply copy_buffer_complete; auto; lia.
    - destruct (copy_buffer H comb true fuel (mkBase evs None) bufsz dg sz) as [[e b0] v] eqn:Ec.
      simpl in E. inversion E; subst.
      pose proof (copy_buffer_failing H comb fuel evs bufsz dg sz buf v Ne Ec) as NF.
      apply copy_buffer_sound in Ec as (A & _ & C). specialize (C eq_refl Ne). simpl in C.
      destruct (accepted_facts evs dg sz buf A C) as (-> & V & D). rewrite <- C.
      apply read_all_complete; auto; lia.
  Qed.

  (* hence a memory store and an OCI layout that do not hold the descriptor yet accept the
     same pushes, and store the same bytes *)
  Theorem stores_agree fuel m s d evs buf :
    ev_weight evs < fuel -> neof evs = 0 -> mem_get m d = None -> oci_get s (d_dg d) = None ->
    (mem_push H comb true fuel m d (mkBase evs None) = (None, (d, buf) :: m) <->
     oci_push H comb true fuel s d (mkBase evs None) = (None, (d_dg d, buf) :: s)).
  Proof.
    intros Fu Ne Gm Go.
    pose proof (paths_agree fuel evs oci_bufsz (d_dg d) (d_sz d) buf oci_bufsz_pos Fu Ne) as P.
    unfold mem_push, oci_push. rewrite Gm, Go.
    destruct (read_all H comb true fuel (mkBase evs None) (d_dg d) (d_sz d)) as [[e1 b1] v1] eqn:Er.
    destruct (copy_buffer H comb true fuel (mkBase evs None) oci_bufsz (d_dg d) (d_sz d)) as [[e2 b2] v2] eqn:Ec.
    simpl in P. split; intro E.
    - destruct e1 as [e1|]; [discriminate|]. inversion E; subst b1.
      assert (X : (e2, b2) = (None, buf)) by (apply P; reflexivity). inversion X; subst.
      apply copy_buffer_sound in Ec as ((_ & _ & V) & _). rewrite V. reflexivity.
    - destruct (negb (valid_digest (d_dg d))); [discriminate|].
      destruct e2 as [e2|]; [discriminate|]. inversion E; subst b2.
      assert (X : (e1, b1) = (None, buf)) by (apply P; reflexivity). inversion X; subst. reflexivity.
  Qed.
End PathsAgree.
