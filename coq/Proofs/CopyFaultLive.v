(* CopyFaultLive: the fault-extended transition system never gets stuck.  At every state reached by an
   accepted trace that has not returned, some FAULT-FREE event is enabled: the acceptor excludes no behaviour
   by deadlocking, and an untainted run can always go on until the successful return.  (That real executions
   do terminate is the protocol part's theorem.)  Destinations without registry.Mounter (c_mount = false). *)
From Oras Require Import Base.Prelude Model.CopySpec Model.CopyTop Model.CopyOpt Model.CopyFault Proofs.CopySpec Proofs.CopyFault.
Local Open Scope nat_scope.

Ltac simp_st := cbn [set_ph ph dst cached tag returned] in *.
Ltac upd_cases m n :=
  let E := fresh "E" in
  destruct (Nat.eq_dec m n) as [E|E];
  [subst; rewrite ?upd_same in * | rewrite ?(upd_other _ _ _ _ E) in *].

Section L.
Variable g : graph.
Variable c : cfg.
Variable ext : bool.
Variable d0 : list node.
Notation Inv := (Inv g c d0).

(* two more invariants: a probe that saw the content still sees it; a manifest waiting for its proxy fetch
   is not cached *)
Definition P1 (st : state) : Prop := forall n, ph st n = ExQ true -> has g (dst st) n = true.
Definition P2 (st : state) : Prop := forall n, ph st n = NeedFetch -> memb n (cached st) = false.

Lemma P1_step st e st' : Inv st -> P1 st -> step g c st e = Some st' -> P1 st'.
Proof.
  intros I H1 H m Hm.
  pose proof (dst_mono g c d0 st e st' m I H) as DM.
  step_inv H; simp_st; try (now apply H1);
    (upd_cases m n; [| first [now apply H1 | apply DM; now apply H1 | apply has_mono; now apply H1]]);
    unfold after_push, after_tag in Hm;
    repeat match type of Hm with context [if ?b then _ else _] => destruct b eqn:? end;
    try discriminate Hm.
  injection Hm as Hm. assumption.
Qed.

Lemma memb_cons x y l : memb x (y :: l) = Nat.eqb x y || memb x l.
Proof. reflexivity. Qed.

Lemma P2_step st e st' : P2 st -> step g c st e = Some st' -> P2 st'.
Proof.
  intros H2 H m Hm.
  step_inv H; simp_st; try (now apply H2);
    (upd_cases m n; [| first [now apply H2
                            | rewrite memb_cons; apply orb_false_iff; split; [now apply Nat.eqb_neq | now apply H2]]]);
    unfold after_push, after_tag in Hm;
    repeat match type of Hm with context [if ?b then _ else _] => destruct b eqn:? end;
    try discriminate Hm.
  now apply negb_true_iff.
Qed.


(* for Mounter destinations: a node on the mount path is not in the proxy cache; and (content keys injective)
   whatever the destination holds is initial content, or belongs to a node in a "present" phase, or to a
   dead task that had stored it *)
Definition P3 (st : state) : Prop := forall n, mt_ph (ph st n) = true -> memb n (cached st) = false.
Definition P4 (st : state) : Prop := forall n, has g (dst st) n = true ->
  present_ph (ph st n) = true \/ has g d0 n = true \/ ph st n = Dead.

Lemma P3_step st e st' : P3 st -> step g c st e = Some st' -> P3 st'.
Proof.
  intros H3 H m Hm.
  step_inv H; simp_st; try (now apply H3);
    (upd_cases m n; [| first [now apply H3
                            | rewrite memb_cons; apply orb_false_iff; split; [now apply Nat.eqb_neq | now apply H3]]]);
    unfold after_push, after_tag in Hm;
    repeat match type of Hm with context [if ?b then _ else _] => destruct b eqn:? end;
    try discriminate Hm;
    try (apply H3; match goal with Hp : ph _ ?n = _ |- _ => rewrite Hp; reflexivity end).
  all: match goal with Hx : mount_applies g c _ _ = true |- _ =>
         unfold mount_applies in Hx; apply andb_true_iff in Hx as [_ Hx]; now apply negb_true_iff in Hx end.
Qed.

Lemma present_step st e st' m : step g c st e = Some st' -> present_ph (ph st m) = true ->
  present_ph (ph st' m) = true \/ ph st' m = Dead.
Proof.
  intros H Hm.
  step_inv H; simp_st; auto;
    (upd_cases m n; [|auto]);
    match goal with Hp : ph st _ = _ |- _ => rewrite Hp in Hm; simpl in Hm; try discriminate Hm end;
    unfold after_push, after_tag;
    repeat match goal with |- context [if ?b then _ else _] => destruct b eqn:? end;
    simpl; auto.
Qed.

Lemma cons_neq {A} (l : list A) x : l = x :: l -> False.
Proof. revert x. induction l as [|a l IH]; intros x H; [discriminate|]. injection H as -> H'. eauto. Qed.

Lemma stored_present st e st' n' : step g c st e = Some st' -> dst st' = n' :: dst st ->
  has g (dst st) n' = false -> present_ph (ph st' n') = true.
Proof.
  intros H Hd Hn.
  step_inv H; simp_st;
    try (exfalso; eapply cons_neq; eassumption);
    injection Hd as <-; rewrite upd_same;
    unfold after_push, after_tag;
    repeat match goal with |- context [if ?b then _ else _] => destruct b eqn:? end;
    reflexivity.
Qed.

Section Inj.
Hypothesis dkey_inj : forall a b, g_dkey g a = g_dkey g b -> a = b.

Lemma has_cons_inj d x m : has g (x :: d) m = true -> has g d m = false -> m = x.
Proof.
  rewrite has_cons. intros H Hf. rewrite Hf, orb_false_r in H. apply Nat.eqb_eq in H. symmetry. now apply dkey_inj.
Qed.

Lemma P4_step st e st' : Inv st -> P4 st -> step g c st e = Some st' -> P4 st'.
Proof.
  intros I H4 H m Hm.
  destruct (has g (dst st) m) eqn:Hold.
  - destruct (H4 m Hold) as [Hp|[H0|Hd]].
    + destruct (present_step _ _ _ m H Hp); auto.
    + auto.
    + right. right. eapply dead_absorbing; eauto.
  - destruct (dst_step g c d0 st e st' I H) as [E|[n' [E [Hs Hn]]]].
    + rewrite E in Hm. congruence.
    + rewrite E in Hm. pose proof (has_cons_inj _ _ _ Hm Hold) as ->.
      left. eapply stored_present; eauto.
Qed.

End Inj.

(* killing a task (possibly after its content was stored) keeps P1, P2 *)
Lemma P12_kill st n d' t' r : P1 st -> P2 st ->
  (forall x, has g (dst st) x = true -> has g d' x = true) ->
  P1 (mkState (upd (ph st) n Dead) d' (cached st) t' r) /\ P2 (mkState (upd (ph st) n Dead) d' (cached st) t' r).
Proof.
  intros H1 H2 Hm. split; intros m Hp; cbn [ph dst cached] in *.
  - upd_cases m n; [discriminate|]. apply Hm. now apply H1.
  - upd_cases m n; [discriminate|]. now apply H2.
Qed.

Lemma P12_fstep fs fe fs' : Inv (fb fs) -> P1 (fb fs) -> P2 (fb fs) ->
  fstep g c ext fs fe = Some fs' -> P1 (fb fs') /\ P2 (fb fs').
Proof.
  intros I H1 H2 H. apply fstep_inv in H as [Hr H].
  destruct H; cbn [fb set_ret with_base]; auto;
    try (unfold set_ph; apply P12_kill; auto; fail).
  - split; [eapply P1_step | eapply P2_step]; eauto.
  - apply P12_kill; auto. intros x Hx. destruct (stored && negb (has g (dst (fb fs)) n)); auto using has_mono.
  - apply P12_kill; auto. intros x Hx. destruct (stored && negb (has g (dst (fb fs)) n)); auto using has_mono.
Qed.

Lemma P12_init : P1 (fb (finit c ext d0)) /\ P2 (fb (finit c ext d0)).
Proof.
  unfold finit, P1, P2. cbn [fb]. destruct ext; cbn [set_ph init ph]; split; intros n Hn;
    try discriminate; unfold upd in Hn; destruct (Nat.eqb n (c_root c)); discriminate.
Qed.

Lemma P12_run tr : forall fs fs', Inv (fb fs) -> P1 (fb fs) -> P2 (fb fs) ->
  frun g c ext fs tr = Some fs' -> P1 (fb fs') /\ P2 (fb fs').
Proof.
  induction tr as [|fe tr IH]; simpl; intros fs fs' I H1 H2 H.
  - injection H as <-. auto.
  - destruct (fstep g c ext fs fe) as [fs1|] eqn:E; [|discriminate].
    destruct (P12_fstep _ _ _ I H1 H2 E) as [A B].
    exact (IH fs1 fs' (fstep_preserves_inv g c ext d0 fs fe fs1 I E) A B H).
Qed.

(* ---- an active task always has a next event ---- *)

Definition plain_event (e : event) : Prop :=
  (forall k m, e <> CbFail k m) /\ (forall b, e <> Ret b).

Lemma active_enabled_core st n : Inv st -> P1 st -> P2 st -> mt_ph (ph st n) = false -> returned st = None ->
  active_ph (ph st n) = true ->
  exists e st', plain_event e /\ ev_node e = Some n /\ step g c st e = Some st'.
Proof.
  intros I H1 H2 Hmt Hret Ha.
  assert (PE : forall e, (match e with CbFail _ _ | Ret _ => False | _ => True end) -> plain_event e).
  { intros e He. split; intros; intro; subst; exact He. }
  assert (ND : forall e m, e = SFC m -> m = n -> ph st m <> Dead).
  { intros e m _ ->. intro Hd. rewrite Hd in Ha. discriminate. }
  destruct (ph st n) eqn:Hp; simpl in Ha, Hmt; try discriminate.
  - (* ExQ *)
    destruct (has g (dst st) n) eqn:Hh.
    + exists (ExE n true). eexists. split; [apply PE; exact Logic.I|]. split; [reflexivity|].
      unfold step. rewrite Hret, Hp, Hh. reflexivity.
    + exists (ExE n false). eexists. split; [apply PE; exact Logic.I|]. split; [reflexivity|].
      unfold step. rewrite Hret, Hp. destruct was; [|reflexivity].
      rewrite (H1 n Hp) in Hh. discriminate.
  - exists (Cb CSkip n). eexists. split; [apply PE; exact Logic.I|]. split; [reflexivity|].
    unfold step, cb_next. rewrite Hret, Hp. reflexivity.
  - exists (SFB n). eexists. split; [apply PE; exact Logic.I|]. split; [reflexivity|].
    unfold step. rewrite Hret, Hp, (H2 n Hp). reflexivity.
  - exists (SFE n). eexists. split; [apply PE; exact Logic.I|]. split; [reflexivity|].
    unfold step. rewrite Hret, Hp. reflexivity.
  - exists (SFC n). eexists. split; [apply PE; exact Logic.I|]. split; [reflexivity|].
    unfold step. rewrite Hret, Hp. reflexivity.
  - (* Rdy *)
    destruct (memb n (cached st)) eqn:Hc.
    + exists (PuB n (root_refpush c n)). eexists. split; [apply PE; exact Logic.I|]. split; [reflexivity|].
      unfold step. rewrite Hret, Bool.eqb_reflx, Hp, Hc. reflexivity.
    + exists (SFB n). eexists. split; [apply PE; exact Logic.I|]. split; [reflexivity|].
      unfold step. rewrite Hret, Hp, Hc. reflexivity.
  - exists (SFE n). eexists. split; [apply PE; exact Logic.I|]. split; [reflexivity|].
    unfold step. rewrite Hret, Hp. reflexivity.
  - exists (PuB n (root_refpush c n)). eexists. split; [apply PE; exact Logic.I|]. split; [reflexivity|].
    unfold step. rewrite Hret, Bool.eqb_reflx, Hp. reflexivity.
  - (* Pushing *)
    destruct (has g (dst st) n) eqn:Hh.
    + exists (PuE n (root_refpush c n) PExists). eexists. split; [apply PE; exact Logic.I|]. split; [reflexivity|].
      unfold step. rewrite Hret, Bool.eqb_reflx, Hp, Hh. reflexivity.
    + exists (PuE n (root_refpush c n) POk). eexists. split; [apply PE; exact Logic.I|]. split; [reflexivity|].
      unfold step. rewrite Hret, Bool.eqb_reflx, Hp, Hh. reflexivity.
  - exists (SFC n). eexists. split; [apply PE; exact Logic.I|]. split; [reflexivity|].
    unfold step. rewrite Hret, Hp. reflexivity.
  - exists (TagB n). eexists. split; [apply PE; exact Logic.I|]. split; [reflexivity|].
    unfold step. rewrite Hret, Hp. reflexivity.
  - exists (TagE n). eexists. split; [apply PE; exact Logic.I|]. split; [reflexivity|].
    unfold step. rewrite Hret, Hp. reflexivity.
  - exists (Cb CPost n). eexists. split; [apply PE; exact Logic.I|]. split; [reflexivity|].
    unfold step, cb_next. rewrite Hret, Hp. reflexivity.
Qed.

Lemma active_enabled st n : Inv st -> P1 st -> P2 st -> c_mount c = false -> returned st = None ->
  active_ph (ph st n) = true ->
  exists e st', plain_event e /\ ev_node e = Some n /\ step g c st e = Some st'.
Proof.
  intros I H1 H2 Hnm Hret Ha. apply active_enabled_core; auto.
  destruct (mt_ph (ph st n)) eqn:E; auto. destruct (i_mt _ _ _ st I n E) as [Hc _]. congruence.
Qed.

(* Mounter destinations: the phases of the mount path have a next event too *)
Lemma active_enabled_m st n : Inv st -> P1 st -> P2 st -> P3 st -> P4 st -> returned st = None ->
  active_ph (ph st n) = true ->
  exists e st', plain_event e /\ ev_node e = Some n /\ step g c st e = Some st'.
Proof.
  intros I H1 H2 H3 H4 Hret Ha.
  destruct (mt_ph (ph st n)) eqn:Hmt; [|now apply active_enabled_core].
  assert (PE : forall e, (match e with CbFail _ _ | Ret _ => False | _ => True end) -> plain_event e).
  { intros e He. split; intros; intro; subst; exact He. }
  pose proof (H3 n Hmt) as Hnc.
  destruct (ph st n) eqn:Hp; simpl in Hmt; try discriminate.
  - exists (MtB n). eexists. split; [apply PE; exact Logic.I|]. split; [reflexivity|].
    unfold step. rewrite Hret, Hp. reflexivity.
  - exists (MtE n MSkipped). eexists. split; [apply PE; exact Logic.I|]. split; [reflexivity|].
    unfold step. rewrite Hret, Hp. reflexivity.
  - exists (SFB n). eexists. split; [apply PE; exact Logic.I|]. split; [reflexivity|].
    unfold step. rewrite Hret, Hp, Hnc. reflexivity.
  - exists (SFE n). eexists. split; [apply PE; exact Logic.I|]. split; [reflexivity|].
    unfold step. rewrite Hret, Hp. reflexivity.
  - exists (SFC n). eexists. split; [apply PE; exact Logic.I|]. split; [reflexivity|].
    unfold step. rewrite Hret, Hp. reflexivity.
  - (* MtC: the upload is stored -- the destination does not hold the node yet *)
    assert (Hh : has g (dst st) n = false).
    { destruct (has g (dst st) n) eqn:E; auto. exfalso.
      destruct (H4 n E) as [Hpp|[H0|Hd]].
      - rewrite Hp in Hpp. discriminate.
      - rewrite (i_absent _ _ _ st I n) in H0; [discriminate | rewrite Hp; reflexivity].
      - congruence. }
    exists (MtE n MCopied). eexists. split; [apply PE; exact Logic.I|]. split; [reflexivity|].
    unfold step. rewrite Hret, Hp, Hh. reflexivity.
  - exists (Cb CMounted n). eexists. split; [apply PE; exact Logic.I|]. split; [reflexivity|].
    unfold step, cb_next. rewrite Hret, Hp. reflexivity.
Qed.


(* ---- the virtual super-root stays Waiting ---- *)

Lemma step_frame st e st' x : step g c st e = Some st' -> ev_node e <> Some x -> ph st' x = ph st x.
Proof.
  intros H Hn. step_inv H; simp_st; auto; upd_cases x n; auto; exfalso; apply Hn; reflexivity.
Qed.

Definition Wv (st : state) : Prop := ext = true -> ph st (c_root c) = Waiting.

Lemma Wv_fstep fs fe fs' : Wv (fb fs) -> fstep g c ext fs fe = Some fs' -> Wv (fb fs').
Proof.
  intros Hw H Hx. specialize (Hw Hx). apply fstep_inv in H as [Hr H].
  destruct H; cbn [fb set_ret with_base set_ph ph]; auto;
    try (unfold upd; destruct (Nat.eqb (c_root c) n) eqn:En; [apply Nat.eqb_eq in En; subst n; congruence | exact Hw]).
  - (* base step: the event does not name the virtual root *)
    rewrite (step_frame _ _ _ (c_root c) H1); auto.
    unfold on_virtual in H2. rewrite Hx in H2. cbn [andb] in H2.
    intro He. rewrite He, Nat.eqb_refl in H2. discriminate.
  - unfold upd; destruct (Nat.eqb (c_root c) n) eqn:En; [apply Nat.eqb_eq in En; subst n|exact Hw].
    destruct H0 as [H0|[[sk H0]|H0]]; congruence.
  - (* FSX: never on the virtual root *)
    unfold upd; destruct (Nat.eqb (c_root c) n) eqn:En; [apply Nat.eqb_eq in En; subst n|exact Hw].
    exfalso. unfold on_virtual in H1. rewrite Hx in H1. cbn [andb ev_node] in H1. rewrite Nat.eqb_refl in H1. discriminate.
  - unfold upd; destruct (Nat.eqb (c_root c) n) eqn:En; [apply Nat.eqb_eq in En; subst n|exact Hw].
    destruct H0 as [H0|H0]; congruence.
Qed.

Lemma Wv_init : Wv (fb (finit c ext d0)).
Proof. intros Hx. unfold finit. rewrite Hx. cbn [fb set_ph ph]. apply upd_same. Qed.

Lemma Wv_run tr : forall fs fs', Wv (fb fs) -> frun g c ext fs tr = Some fs' -> Wv (fb fs').
Proof.
  induction tr as [|fe tr IH]; simpl; intros fs fs' Hw H.
  - now injection H as <-.
  - destruct (fstep g c ext fs fe) as [fs1|] eqn:E; [|discriminate]. eapply IH; [eapply Wv_fstep; eauto | exact H].
Qed.

(* ---- lifting an enabled base event to the extended system ---- *)

Lemma fstep_base fs e st' : returned (fb fs) = None -> f_aborted fs = false -> plain_event e ->
  (forall m, ev_node e = Some m -> ph (fb fs) m <> Dead) -> on_virtual c ext e = false ->
  step g c (fb fs) e = Some st' -> fstep g c ext fs (Ev e) = Some (with_base fs st').
Proof.
  intros Hr Ha [Hc Hb] Hd Hv Hs. unfold fstep. rewrite Hr.
  destruct e; try (rewrite Ha; cbv iota beta; rewrite Hs, Hv; reflexivity).
  - rewrite Ha. cbv iota beta.
    destruct (is_dead (ph (fb fs) n)) eqn:E.
    + exfalso. apply (Hd n eq_refl). destruct (ph (fb fs) n); simpl in E; congruence.
    + rewrite Hs, Hv. reflexivity.
  - exfalso. eapply Hb. reflexivity.
Qed.

Section Rank.
Variable rank : node -> nat.
Hypothesis rank_dec : forall n x, In x (succ' g n) -> rank x < rank n.
Hypothesis K_pos : 1 <= c_K c.
Hypothesis root_in : c_root c < g_n g.
Hypothesis xroots_in : forall x, In x (c_xroots c) -> x < g_n g.
Hypothesis succ_in : forall n x, n < g_n g -> In x (succ' g n) -> x < g_n g.
Hypothesis nomount : c_mount c = false.
Hypothesis virt_nopred : ext = true -> forall n, ~ In (c_root c) (succ' g n).

Definition virt (n : node) : bool := ext && Nat.eqb n (c_root c).
Definition quiet (st : state) : Prop := forall n, active_ph (ph st n) = false /\ ph st n <> Dead.

Lemma filter_nil {A} (f : A -> bool) l : (forall x, f x = false) -> filter f l = [].
Proof. intro H. induction l as [|a l IH]; simpl; [reflexivity|]. now rewrite H. Qed.

Lemma quiet_active0 st : quiet st -> active g st = 0.
Proof. intro Q. unfold active, count. rewrite filter_nil; [reflexivity|]. intro x. apply Q. Qed.

Lemma forallb_false_ex {A} (f : A -> bool) l : forallb f l = false -> exists x, In x l /\ f x = false.
Proof.
  induction l as [|a l IH]; simpl; [discriminate|]. intro H.
  destruct (f a) eqn:E; [|exists a; auto]. destruct (IH H) as [x [Hx Hf]]. exists x. auto.
Qed.

Lemma quiet_cases st n : quiet st -> ph st n = Idle \/ ph st n = Waiting \/ ph st n = Done.
Proof.
  intro Q. destruct (Q n) as [Ha Hd]. destruct (ph st n); simpl in Ha; try discriminate; auto. congruence.
Qed.

Lemma K_gt0 : Nat.ltb 0 (c_K c) = true.
Proof. apply Nat.ltb_lt. lia. Qed.

Lemma exb_enabled st x : returned st = None -> quiet st -> ph st x = Idle -> x < g_n g ->
  dispatched g c st x = true -> exists st', step g c st (ExB x) = Some st'.
Proof.
  intros Hr Q Hp Hx Hd. unfold step. rewrite Hr, Hp, Hd, (quiet_active0 st Q), K_gt0.
  assert (E : Nat.ltb x (g_n g) = true) by now apply Nat.ltb_lt. rewrite E. eexists. reflexivity.
Qed.

Lemma virt_event_node n : virt n = false -> forall e, ev_node e = Some n -> on_virtual c ext e = false.
Proof. intros Hv e He. unfold on_virtual. rewrite He. exact Hv. Qed.

Lemma succ_not_virt n x : In x (succ' g n) -> virt x = false.
Proof.
  intro Hx. unfold virt.
  destruct (Bool.bool_dec ext true) as [Hext|Hext]; [|apply Bool.not_true_is_false in Hext; rewrite Hext; reflexivity].
  rewrite Hext. cbn [andb]. apply Nat.eqb_neq. intro E. subst x. exact (virt_nopred Hext n Hx).
Qed.

(* a waiting real node: a successor can be probed, or a successor waits in turn, or PreCopy is enabled *)
Lemma waiting_enabled st : Inv st -> returned st = None -> quiet st ->
  forall k n, rank n < k -> ph st n = Waiting -> virt n = false ->
  exists e st' m, plain_event e /\ ev_node e = Some m /\ virt m = false /\ step g c st e = Some st'.
Proof.
  intros I Hr Q. induction k as [|k IH]; intros n Hk Hp Hv; [lia|].
  assert (Hn : n < g_n g) by (apply (i_bound _ _ _ st I); congruence).
  destruct (forallb (fun s => is_done (ph st s)) (succ' g n)) eqn:Ef.
  - exists (Cb CPre n). eexists. exists n.
    split; [split; intros; discriminate|]. split; [reflexivity|]. split; [exact Hv|].
    unfold step, cb_next, mount_applies. rewrite Hr, Hp, Ef, (quiet_active0 st Q), K_gt0, nomount. reflexivity.
  - destruct (forallb_false_ex _ _ Ef) as [x [Hx Hxd]].
    pose proof (succ_not_virt n x Hx) as Hvx.
    destruct (quiet_cases st x Q) as [Hi|[Hw|Hdn]].
    + destruct (exb_enabled st x Hr Q Hi (succ_in n x Hn Hx)) as [st' Hs].
      { unfold dispatched. apply orb_true_iff. right. apply existsb_exists. exists n. split.
        - apply in_seq. lia.
        - rewrite Hp. cbn [is_waiting andb]. now apply memb_In. }
      exists (ExB x). exists st'. exists x. split; [split; intros; discriminate|]. auto.
    + apply (IH x); auto. specialize (rank_dec n x Hx). lia.
    + rewrite Hdn in Hxd. discriminate.
Qed.

Lemma find_none_all {A} (f : A -> bool) l : find f l = None -> forall x, In x l -> f x = false.
Proof. intros H x Hx. exact (find_none f l H x Hx). Qed.

(* the progress theorem, at a state *)
Lemma fprogress_state fs : Inv (fb fs) -> P1 (fb fs) -> P2 (fb fs) -> Wv (fb fs) ->
  returned (fb fs) = None ->
  exists e fs', is_fault (Ev e) = false /\ fstep g c ext fs (Ev e) = Some fs'.
Proof.
  intros I H1 H2 Hw Hr.
  destruct (tainted g fs) eqn:Ht.
  { exists (Ret false). eexists. split; [reflexivity|]. now apply fret_err_enabled. }
  assert (Hel : f_cancelled fs = false /\ f_aborted fs = false /\ any_dead g (fb fs) = false).
  { unfold tainted in Ht. apply orb_false_iff in Ht as [Ht H3]. apply orb_false_iff in Ht as [Hc Ha]. auto. }
  destruct Hel as [Hc [Ha Hnd]].
  set (st := fb fs) in *.
  assert (Hnodead : forall n, ph st n <> Dead).
  { intros n Hd. assert (Hn : n < g_n g) by (apply (i_bound _ _ _ st I); congruence).
    rewrite (any_dead_intro g st n Hn Hd) in Hnd. discriminate. }
  assert (Hout : forall n, g_n g <= n -> ph st n = Idle).
  { intros n Hn. destruct (ph st n) eqn:E; auto; exfalso;
      assert (n < g_n g) by (apply (i_bound _ _ _ st I); rewrite E; discriminate); lia. }
  (* 1. an active task *)
  destruct (find (fun n => active_ph (ph st n)) (seq 0 (g_n g))) as [n|] eqn:Ef.
  { apply find_some in Ef as [Hin Hact].
    destruct (active_enabled st n I H1 H2 nomount Hr Hact) as [e [st' [Hpl [Hnode Hs]]]].
    exists e. exists (with_base fs st'). split.
    - destruct Hpl as [Hcf _]. destruct e; try reflexivity. exfalso. eapply Hcf. reflexivity.
    - apply fstep_base; [exact Hr | exact Ha | exact Hpl | | | exact Hs].
      + intros m Hm. apply Hnodead.
      + apply (virt_event_node n); auto. unfold virt.
        destruct (Bool.bool_dec ext true) as [Hext|Hext]; [|apply Bool.not_true_is_false in Hext; rewrite Hext; reflexivity].
        rewrite Hext. cbn [andb]. apply Nat.eqb_neq. intro E. subst n.
        pose proof (Hw Hext) as Hwv. unfold st in *. rewrite Hwv in Hact. discriminate. }
  assert (Q : quiet st).
  { intros n. split; [|apply Hnodead].
    destruct (Nat.lt_ge_cases n (g_n g)) as [Hn|Hn].
    - apply (find_none_all _ _ Ef). apply in_seq. lia.
    - now rewrite (Hout n Hn). }
  (* 2. a waiting real node *)
  destruct (find (fun n => is_waiting (ph st n) && negb (virt n)) (seq 0 (g_n g))) as [n|] eqn:Ew.
  { apply find_some in Ew as [Hin Hwn]. apply andb_true_iff in Hwn as [Hwn Hvn]. apply negb_true_iff in Hvn.
    assert (Hp : ph st n = Waiting) by (destruct (ph st n); simpl in Hwn; congruence).
    destruct (waiting_enabled st I Hr Q (S (rank n)) n (Nat.lt_succ_diag_r _) Hp Hvn) as [e [st' [m [Hpl [Hnode [Hvm Hs]]]]]].
    exists e. exists (with_base fs st'). split.
    - destruct Hpl as [Hcf _]. destruct e; try reflexivity. exfalso. eapply Hcf. reflexivity.
    - apply fstep_base; [exact Hr | exact Ha | exact Hpl | | | exact Hs].
      + intros m' Hm. apply Hnodead.
      + apply (virt_event_node m); auto. }
  assert (Hreal : forall n, virt n = false -> ph st n = Idle \/ ph st n = Done).
  { intros n Hv. destruct (quiet_cases st n Q) as [Hi|[Hwt|Hd]]; auto. exfalso.
    assert (Hn : n < g_n g) by (apply (i_bound _ _ _ st I); congruence).
    assert (Hin : In n (seq 0 (g_n g))) by (apply in_seq; lia).
    pose proof (find_none_all _ _ Ew n Hin) as Hf. cbv beta in Hf. rewrite Hwt, Hv in Hf. discriminate. }
  (* 3. only roots are left to dispatch, or the call returns *)
  destruct (Bool.bool_dec ext true) as [Hext|Hext]; [|apply Bool.not_true_is_false in Hext].
  - (* ExtendedCopyGraph: the virtual root waits *)
    pose proof (Hw Hext) as Hwv. fold st in Hwv.
    destruct (forallb (fun r => is_done (ph st r)) (succ' g (c_root c))) eqn:Ed.
    + exists (Ret true). eexists. split; [reflexivity|].
      unfold fstep. fold st. rewrite Hr, Ht. cbn [negb andb]. unfold ret_ok_guard. rewrite Hext, Hwv, Ed. cbn [is_waiting andb].
      assert (Eall : forallb (fun n => Nat.eqb n (c_root c) || is_idle_or_done (ph st n)) (seq 0 (g_n g)) = true).
      { apply forallb_forall. intros n _. destruct (Nat.eqb n (c_root c)) eqn:En; [reflexivity|]. cbn [orb].
        destruct (Hreal n) as [Hi|Hd]; [unfold virt; rewrite Hext, En; reflexivity | rewrite Hi; reflexivity | rewrite Hd; reflexivity]. }
      rewrite Eall. reflexivity.
    + destruct (forallb_false_ex _ _ Ed) as [x [Hx Hxd]].
      assert (Hvx : virt x = false).
      { unfold virt. rewrite Hext. cbn [andb]. apply Nat.eqb_neq. intro E. subst x. exact (virt_nopred Hext _ Hx). }
      destruct (Hreal x Hvx) as [Hi|Hd]; [|rewrite Hd in Hxd; discriminate].
      destruct (exb_enabled st x Hr Q Hi (succ_in _ x root_in Hx)) as [st' Hs].
      { unfold dispatched. apply orb_true_iff. right. apply existsb_exists. exists (c_root c). split.
        - apply in_seq. lia.
        - rewrite Hwv. cbn [is_waiting andb]. now apply memb_In. }
      exists (ExB x). exists (with_base fs st'). split; [reflexivity|].
      apply fstep_base; [exact Hr | exact Ha | split; intros; discriminate | | | exact Hs].
      * intros m _. apply Hnodead.
      * unfold on_virtual. cbn [ev_node]. exact Hvx.
  - (* CopyGraph / Copy *)
    assert (Hv0 : forall n, virt n = false) by (intro n; unfold virt; rewrite Hext; reflexivity).
    assert (Hov : forall e, on_virtual c ext e = false) by (intro e; unfold on_virtual; rewrite Hext; reflexivity).
    destruct (Hreal (c_root c) (Hv0 _)) as [Hi|Hd].
    + destruct (exb_enabled st (c_root c) Hr Q Hi root_in) as [st' Hs].
      { unfold dispatched, is_root. rewrite Nat.eqb_refl. reflexivity. }
      exists (ExB (c_root c)). exists (with_base fs st'). split; [reflexivity|].
      apply fstep_base; [exact Hr | exact Ha | split; intros; discriminate | intros m _; apply Hnodead | apply Hov | exact Hs].
    + destruct (forallb (fun r => is_done (ph st r)) (c_xroots c)) eqn:Ex.
      * exists (Ret true). eexists. split; [reflexivity|].
        unfold fstep. fold st. rewrite Hr, Ht. cbn [negb andb]. unfold ret_ok_guard. rewrite Hext, Hd, Ex. cbn [is_done andb].
        assert (Eall : forallb (fun n => is_idle_or_done (ph st n)) (seq 0 (g_n g)) = true).
        { apply forallb_forall. intros n _. destruct (Hreal n (Hv0 n)) as [Hi|Hd']; [rewrite Hi | rewrite Hd']; reflexivity. }
        rewrite Eall. reflexivity.
      * destruct (forallb_false_ex _ _ Ex) as [x [Hx Hxd]].
        destruct (Hreal x (Hv0 x)) as [Hi|Hd']; [|rewrite Hd' in Hxd; discriminate].
        destruct (exb_enabled st x Hr Q Hi (xroots_in x Hx)) as [st' Hs].
        { unfold dispatched. apply orb_true_iff. left. apply orb_true_iff. right. now apply memb_In. }
        exists (ExB x). exists (with_base fs st'). split; [reflexivity|].
        apply fstep_base; [exact Hr | exact Ha | split; intros; discriminate | intros m _; apply Hnodead | apply Hov | exact Hs].
Qed.

(* ... at every state reached by an accepted trace *)
Theorem fprogress tr fs : ext_ok g c ext d0 ->
  faccepts g c ext d0 tr = Some fs -> returned (fb fs) = None ->
  exists e fs', is_fault (Ev e) = false /\ fstep g c ext fs (Ev e) = Some fs'.
Proof.
  intros Hx Ha Hr. unfold faccepts in Ha.
  pose proof (frun_inv g c ext d0 tr _ _ (finit_inv g c ext d0 Hx) Ha) as I.
  destruct P12_init as [A B]. destruct (P12_run tr _ _ (finit_inv g c ext d0 Hx) A B Ha) as [H1 H2].
  apply fprogress_state; auto. eapply Wv_run; eauto. apply Wv_init.
Qed.


Section M.
Hypothesis dkey_inj : forall a b, g_dkey g a = g_dkey g b -> a = b.

Lemma P34_kill st n d' t' r : P3 st -> P4 st -> (d' = dst st \/ d' = n :: dst st) ->
  P3 (mkState (upd (ph st) n Dead) d' (cached st) t' r) /\ P4 (mkState (upd (ph st) n Dead) d' (cached st) t' r).
Proof.
  intros H3 H4 Hd. split; intros m Hp; cbn [ph dst cached] in *.
  - upd_cases m n; [discriminate|]. now apply H3.
  - upd_cases m n; [auto|]. apply H4.
    destruct Hd as [->| ->]; [exact Hp|].
    destruct (has g (dst st) m) eqn:E0; [reflexivity|].
    exfalso. apply E. exact (has_cons_inj dkey_inj _ _ _ Hp E0).
Qed.

Lemma P34_fstep fs fe fs' : Inv (fb fs) -> P3 (fb fs) -> P4 (fb fs) ->
  fstep g c ext fs fe = Some fs' -> P3 (fb fs') /\ P4 (fb fs').
Proof.
  intros I H3 H4 H. apply fstep_inv in H as [Hr H].
  destruct H; cbn [fb set_ret with_base]; auto;
    try (unfold set_ph; apply P34_kill; auto; fail).
  - match goal with Hs : step g c (fb fs) _ = Some _ |- _ =>
      split; [exact (P3_step _ _ _ H3 Hs) | exact (P4_step dkey_inj _ _ _ I H4 Hs)] end.
  - apply P34_kill; auto. destruct (stored && negb (has g (dst (fb fs)) n)); [right|left]; reflexivity.
  - apply P34_kill; auto. destruct (stored && negb (has g (dst (fb fs)) n)); [right|left]; reflexivity.
Qed.

Lemma P34_init : P3 (fb (finit c ext d0)) /\ P4 (fb (finit c ext d0)).
Proof.
  unfold finit, P3, P4. cbn [fb]. destruct ext; cbn [set_ph init ph dst]; split; intros n Hn; auto;
    try discriminate; unfold upd in Hn; destruct (Nat.eqb n (c_root c)); discriminate.
Qed.

Lemma P34_run tr : forall fs fs', Inv (fb fs) -> P3 (fb fs) -> P4 (fb fs) ->
  frun g c ext fs tr = Some fs' -> P3 (fb fs') /\ P4 (fb fs').
Proof.
  induction tr as [|fe tr IH]; simpl; intros fs fs' I H3 H4 H.
  - injection H as <-. auto.
  - destruct (fstep g c ext fs fe) as [fs1|] eqn:E; [|discriminate].
    destruct (P34_fstep _ _ _ I H3 H4 E) as [A B].
    exact (IH fs1 fs' (fstep_preserves_inv g c ext d0 fs fe fs1 I E) A B H).
Qed.

(* a waiting real node: a successor can be probed, or a successor waits in turn, or PreCopy is enabled *)
Lemma waiting_enabled_m st : Inv st -> returned st = None -> quiet st ->
  forall k n, rank n < k -> ph st n = Waiting -> virt n = false ->
  exists e st' m, plain_event e /\ ev_node e = Some m /\ virt m = false /\ step g c st e = Some st'.
Proof.
  intros I Hr Q. induction k as [|k IH]; intros n Hk Hp Hv; [lia|].
  assert (Hn : n < g_n g) by (apply (i_bound _ _ _ st I); congruence).
  destruct (forallb (fun s => is_done (ph st s)) (succ' g n)) eqn:Ef.
  - destruct (mount_applies g c st n) eqn:Em.
    + exists (Cb CMountFrom n). eexists. exists n.
      split; [split; intros; discriminate|]. split; [reflexivity|]. split; [exact Hv|].
      unfold step, cb_next. rewrite Hr, Hp, Ef, (quiet_active0 st Q), K_gt0, Em. reflexivity.
    + exists (Cb CPre n). eexists. exists n.
      split; [split; intros; discriminate|]. split; [reflexivity|]. split; [exact Hv|].
      unfold step, cb_next. rewrite Hr, Hp, Ef, (quiet_active0 st Q), K_gt0, Em. reflexivity.
  - destruct (forallb_false_ex _ _ Ef) as [x [Hx Hxd]].
    pose proof (succ_not_virt n x Hx) as Hvx.
    destruct (quiet_cases st x Q) as [Hi|[Hw|Hdn]].
    + destruct (exb_enabled st x Hr Q Hi (succ_in n x Hn Hx)) as [st' Hs].
      { unfold dispatched. apply orb_true_iff. right. apply existsb_exists. exists n. split.
        - apply in_seq. lia.
        - rewrite Hp. cbn [is_waiting andb]. now apply memb_In. }
      exists (ExB x). exists st'. exists x. split; [split; intros; discriminate|]. auto.
    + apply (IH x); auto. specialize (rank_dec n x Hx). lia.
    + rewrite Hdn in Hxd. discriminate.
Qed.

(* the progress theorem for Mounter destinations too, at a state *)
Lemma fprogress_state_m fs : Inv (fb fs) -> P1 (fb fs) -> P2 (fb fs) -> P3 (fb fs) -> P4 (fb fs) -> Wv (fb fs) ->
  returned (fb fs) = None ->
  exists e fs', is_fault (Ev e) = false /\ fstep g c ext fs (Ev e) = Some fs'.
Proof.
  intros I H1 H2 HP3 HP4 Hw Hr.
  destruct (tainted g fs) eqn:Ht.
  { exists (Ret false). eexists. split; [reflexivity|]. now apply fret_err_enabled. }
  assert (Hel : f_cancelled fs = false /\ f_aborted fs = false /\ any_dead g (fb fs) = false).
  { unfold tainted in Ht. apply orb_false_iff in Ht as [Ht H3]. apply orb_false_iff in Ht as [Hc Ha]. auto. }
  destruct Hel as [Hc [Ha Hnd]].
  set (st := fb fs) in *.
  assert (Hnodead : forall n, ph st n <> Dead).
  { intros n Hd. assert (Hn : n < g_n g) by (apply (i_bound _ _ _ st I); congruence).
    rewrite (any_dead_intro g st n Hn Hd) in Hnd. discriminate. }
  assert (Hout : forall n, g_n g <= n -> ph st n = Idle).
  { intros n Hn. destruct (ph st n) eqn:E; auto; exfalso;
      assert (n < g_n g) by (apply (i_bound _ _ _ st I); rewrite E; discriminate); lia. }
  (* 1. an active task *)
  destruct (find (fun n => active_ph (ph st n)) (seq 0 (g_n g))) as [n|] eqn:Ef.
  { apply find_some in Ef as [Hin Hact].
    destruct (active_enabled_m st n I H1 H2 HP3 HP4 Hr Hact) as [e [st' [Hpl [Hnode Hs]]]].
    exists e. exists (with_base fs st'). split.
    - destruct Hpl as [Hcf _]. destruct e; try reflexivity. exfalso. eapply Hcf. reflexivity.
    - apply fstep_base; [exact Hr | exact Ha | exact Hpl | | | exact Hs].
      + intros m Hm. apply Hnodead.
      + apply (virt_event_node n); auto. unfold virt.
        destruct (Bool.bool_dec ext true) as [Hext|Hext]; [|apply Bool.not_true_is_false in Hext; rewrite Hext; reflexivity].
        rewrite Hext. cbn [andb]. apply Nat.eqb_neq. intro E. subst n.
        pose proof (Hw Hext) as Hwv. unfold st in *. rewrite Hwv in Hact. discriminate. }
  assert (Q : quiet st).
  { intros n. split; [|apply Hnodead].
    destruct (Nat.lt_ge_cases n (g_n g)) as [Hn|Hn].
    - apply (find_none_all _ _ Ef). apply in_seq. lia.
    - now rewrite (Hout n Hn). }
  (* 2. a waiting real node *)
  destruct (find (fun n => is_waiting (ph st n) && negb (virt n)) (seq 0 (g_n g))) as [n|] eqn:Ew.
  { apply find_some in Ew as [Hin Hwn]. apply andb_true_iff in Hwn as [Hwn Hvn]. apply negb_true_iff in Hvn.
    assert (Hp : ph st n = Waiting) by (destruct (ph st n); simpl in Hwn; congruence).
    destruct (waiting_enabled_m st I Hr Q (S (rank n)) n (Nat.lt_succ_diag_r _) Hp Hvn) as [e [st' [m [Hpl [Hnode [Hvm Hs]]]]]].
    exists e. exists (with_base fs st'). split.
    - destruct Hpl as [Hcf _]. destruct e; try reflexivity. exfalso. eapply Hcf. reflexivity.
    - apply fstep_base; [exact Hr | exact Ha | exact Hpl | | | exact Hs].
      + intros m' Hm. apply Hnodead.
      + apply (virt_event_node m); auto. }
  assert (Hreal : forall n, virt n = false -> ph st n = Idle \/ ph st n = Done).
  { intros n Hv. destruct (quiet_cases st n Q) as [Hi|[Hwt|Hd]]; auto. exfalso.
    assert (Hn : n < g_n g) by (apply (i_bound _ _ _ st I); congruence).
    assert (Hin : In n (seq 0 (g_n g))) by (apply in_seq; lia).
    pose proof (find_none_all _ _ Ew n Hin) as Hf. cbv beta in Hf. rewrite Hwt, Hv in Hf. discriminate. }
  (* 3. only roots are left to dispatch, or the call returns *)
  destruct (Bool.bool_dec ext true) as [Hext|Hext]; [|apply Bool.not_true_is_false in Hext].
  - (* ExtendedCopyGraph: the virtual root waits *)
    pose proof (Hw Hext) as Hwv. fold st in Hwv.
    destruct (forallb (fun r => is_done (ph st r)) (succ' g (c_root c))) eqn:Ed.
    + exists (Ret true). eexists. split; [reflexivity|].
      unfold fstep. fold st. rewrite Hr, Ht. cbn [negb andb]. unfold ret_ok_guard. rewrite Hext, Hwv, Ed. cbn [is_waiting andb].
      assert (Eall : forallb (fun n => Nat.eqb n (c_root c) || is_idle_or_done (ph st n)) (seq 0 (g_n g)) = true).
      { apply forallb_forall. intros n _. destruct (Nat.eqb n (c_root c)) eqn:En; [reflexivity|]. cbn [orb].
        destruct (Hreal n) as [Hi|Hd]; [unfold virt; rewrite Hext, En; reflexivity | rewrite Hi; reflexivity | rewrite Hd; reflexivity]. }
      rewrite Eall. reflexivity.
    + destruct (forallb_false_ex _ _ Ed) as [x [Hx Hxd]].
      assert (Hvx : virt x = false).
      { unfold virt. rewrite Hext. cbn [andb]. apply Nat.eqb_neq. intro E. subst x. exact (virt_nopred Hext _ Hx). }
      destruct (Hreal x Hvx) as [Hi|Hd]; [|rewrite Hd in Hxd; discriminate].
      destruct (exb_enabled st x Hr Q Hi (succ_in _ x root_in Hx)) as [st' Hs].
      { unfold dispatched. apply orb_true_iff. right. apply existsb_exists. exists (c_root c). split.
        - apply in_seq. lia.
        - rewrite Hwv. cbn [is_waiting andb]. now apply memb_In. }
      exists (ExB x). exists (with_base fs st'). split; [reflexivity|].
      apply fstep_base; [exact Hr | exact Ha | split; intros; discriminate | | | exact Hs].
      * intros m _. apply Hnodead.
      * unfold on_virtual. cbn [ev_node]. exact Hvx.
  - (* CopyGraph / Copy *)
    assert (Hv0 : forall n, virt n = false) by (intro n; unfold virt; rewrite Hext; reflexivity).
    assert (Hov : forall e, on_virtual c ext e = false) by (intro e; unfold on_virtual; rewrite Hext; reflexivity).
    destruct (Hreal (c_root c) (Hv0 _)) as [Hi|Hd].
    + destruct (exb_enabled st (c_root c) Hr Q Hi root_in) as [st' Hs].
      { unfold dispatched, is_root. rewrite Nat.eqb_refl. reflexivity. }
      exists (ExB (c_root c)). exists (with_base fs st'). split; [reflexivity|].
      apply fstep_base; [exact Hr | exact Ha | split; intros; discriminate | intros m _; apply Hnodead | apply Hov | exact Hs].
    + destruct (forallb (fun r => is_done (ph st r)) (c_xroots c)) eqn:Ex.
      * exists (Ret true). eexists. split; [reflexivity|].
        unfold fstep. fold st. rewrite Hr, Ht. cbn [negb andb]. unfold ret_ok_guard. rewrite Hext, Hd, Ex. cbn [is_done andb].
        assert (Eall : forallb (fun n => is_idle_or_done (ph st n)) (seq 0 (g_n g)) = true).
        { apply forallb_forall. intros n _. destruct (Hreal n (Hv0 n)) as [Hi|Hd']; [rewrite Hi | rewrite Hd']; reflexivity. }
        rewrite Eall. reflexivity.
      * destruct (forallb_false_ex _ _ Ex) as [x [Hx Hxd]].
        destruct (Hreal x (Hv0 x)) as [Hi|Hd']; [|rewrite Hd' in Hxd; discriminate].
        destruct (exb_enabled st x Hr Q Hi (xroots_in x Hx)) as [st' Hs].
        { unfold dispatched. apply orb_true_iff. left. apply orb_true_iff. right. now apply memb_In. }
        exists (ExB x). exists (with_base fs st'). split; [reflexivity|].
        apply fstep_base; [exact Hr | exact Ha | split; intros; discriminate | intros m _; apply Hnodead | apply Hov | exact Hs].
Qed.

Lemma mtb_needs_mtrdy st k st' : step g c st (MtB k) = Some st' -> ph st k = MtRdy.
Proof.
  unfold step. destruct (returned st); [discriminate|]. destruct (ph st k); try discriminate. reflexivity.
Qed.

Lemma active_enabled_m2 st n : Inv st -> P1 st -> P2 st -> P3 st -> P4 st -> returned st = None ->
  active_ph (ph st n) = true ->
  exists e st', plain_event e /\ ev_node e = Some n /\ (forall k, e <> MtB k) /\ step g c st e = Some st'.
Proof.
  intros I H1 H2 H3 H4 Hret Ha.
  assert (Hor : ph st n = MtRdy \/ ph st n <> MtRdy).
  { destruct (ph st n); try (right; discriminate); left; reflexivity. }
  destruct Hor as [Hp|Hp].
  - exists (Cb CPre n). eexists. split; [split; intros; discriminate|]. split; [reflexivity|].
    split; [intros k; discriminate|]. unfold step, cb_next. rewrite Hret, Hp. reflexivity.
  - destruct (active_enabled_m st n I H1 H2 H3 H4 Hret Ha) as [e [st' [A [B C]]]].
    exists e. exists st'. split; [exact A|]. split; [exact B|]. split; [|exact C].
    intros k Hk. subst e. cbn [ev_node] in B. injection B as ->. apply Hp. eapply mtb_needs_mtrdy; eauto.
Qed.

(* the same with a witness that is never a further Mount attempt (MtB): at MtRdy the witness is PreCopy
   ("no candidate left: copy"), so that a potential function decreases along the witnesses *)
Lemma fprogress_state_m2 fs : Inv (fb fs) -> P1 (fb fs) -> P2 (fb fs) -> P3 (fb fs) -> P4 (fb fs) -> Wv (fb fs) ->
  returned (fb fs) = None ->
  exists e fs', is_fault (Ev e) = false /\ (forall k, e <> MtB k) /\ fstep g c ext fs (Ev e) = Some fs'.
Proof.
  intros I H1 H2 HP3 HP4 Hw Hr.
  destruct (tainted g fs) eqn:Ht.
  { exists (Ret false). eexists. split; [reflexivity|]. split; [intros k; discriminate|]. now apply fret_err_enabled. }
  assert (Hel : f_cancelled fs = false /\ f_aborted fs = false /\ any_dead g (fb fs) = false).
  { unfold tainted in Ht. apply orb_false_iff in Ht as [Ht H3]. apply orb_false_iff in Ht as [Hc Ha]. auto. }
  destruct Hel as [Hc [Ha Hnd]].
  set (st := fb fs) in *.
  assert (Hnodead : forall n, ph st n <> Dead).
  { intros n Hd. assert (Hn : n < g_n g) by (apply (i_bound _ _ _ st I); congruence).
    rewrite (any_dead_intro g st n Hn Hd) in Hnd. discriminate. }
  assert (Hout : forall n, g_n g <= n -> ph st n = Idle).
  { intros n Hn. destruct (ph st n) eqn:E; auto; exfalso;
      assert (n < g_n g) by (apply (i_bound _ _ _ st I); rewrite E; discriminate); lia. }
  (* 1. an active task *)
  destruct (find (fun n => active_ph (ph st n)) (seq 0 (g_n g))) as [n|] eqn:Ef.
  { apply find_some in Ef as [Hin Hact].
    destruct (active_enabled_m2 st n I H1 H2 HP3 HP4 Hr Hact) as [e [st' [Hpl [Hnode [HnoB Hs]]]]].
    exists e. exists (with_base fs st'). split.
    - destruct Hpl as [Hcf _]. destruct e; try reflexivity. exfalso. eapply Hcf. reflexivity.
    - split; [exact HnoB|]. apply fstep_base; [exact Hr | exact Ha | exact Hpl | | | exact Hs].
      + intros m Hm. apply Hnodead.
      + apply (virt_event_node n); auto. unfold virt.
        destruct (Bool.bool_dec ext true) as [Hext|Hext]; [|apply Bool.not_true_is_false in Hext; rewrite Hext; reflexivity].
        rewrite Hext. cbn [andb]. apply Nat.eqb_neq. intro E. subst n.
        pose proof (Hw Hext) as Hwv. unfold st in *. rewrite Hwv in Hact. discriminate. }
  assert (Q : quiet st).
  { intros n. split; [|apply Hnodead].
    destruct (Nat.lt_ge_cases n (g_n g)) as [Hn|Hn].
    - apply (find_none_all _ _ Ef). apply in_seq. lia.
    - now rewrite (Hout n Hn). }
  (* 2. a waiting real node *)
  destruct (find (fun n => is_waiting (ph st n) && negb (virt n)) (seq 0 (g_n g))) as [n|] eqn:Ew.
  { apply find_some in Ew as [Hin Hwn]. apply andb_true_iff in Hwn as [Hwn Hvn]. apply negb_true_iff in Hvn.
    assert (Hp : ph st n = Waiting) by (destruct (ph st n); simpl in Hwn; congruence).
    destruct (waiting_enabled_m st I Hr Q (S (rank n)) n (Nat.lt_succ_diag_r _) Hp Hvn) as [e [st' [m [Hpl [Hnode [Hvm Hs]]]]]].
    exists e. exists (with_base fs st'). split.
    - destruct Hpl as [Hcf _]. destruct e; try reflexivity. exfalso. eapply Hcf. reflexivity.
    - split; [intros k Hk; subst e; cbn [ev_node] in Hnode; injection Hnode as ->;
               pose proof (mtb_needs_mtrdy _ _ _ Hs) as Hq; destruct (Q m) as [Hqa _]; rewrite Hq in Hqa; discriminate|].
      apply fstep_base; [exact Hr | exact Ha | exact Hpl | | | exact Hs].
      + intros m' Hm. apply Hnodead.
      + apply (virt_event_node m); auto. }
  assert (Hreal : forall n, virt n = false -> ph st n = Idle \/ ph st n = Done).
  { intros n Hv. destruct (quiet_cases st n Q) as [Hi|[Hwt|Hd]]; auto. exfalso.
    assert (Hn : n < g_n g) by (apply (i_bound _ _ _ st I); congruence).
    assert (Hin : In n (seq 0 (g_n g))) by (apply in_seq; lia).
    pose proof (find_none_all _ _ Ew n Hin) as Hf. cbv beta in Hf. rewrite Hwt, Hv in Hf. discriminate. }
  (* 3. only roots are left to dispatch, or the call returns *)
  destruct (Bool.bool_dec ext true) as [Hext|Hext]; [|apply Bool.not_true_is_false in Hext].
  - (* ExtendedCopyGraph: the virtual root waits *)
    pose proof (Hw Hext) as Hwv. fold st in Hwv.
    destruct (forallb (fun r => is_done (ph st r)) (succ' g (c_root c))) eqn:Ed.
    + exists (Ret true). eexists. split; [reflexivity|]. split; [intros k; discriminate|].
      unfold fstep. fold st. rewrite Hr, Ht. cbn [negb andb]. unfold ret_ok_guard. rewrite Hext, Hwv, Ed. cbn [is_waiting andb].
      assert (Eall : forallb (fun n => Nat.eqb n (c_root c) || is_idle_or_done (ph st n)) (seq 0 (g_n g)) = true).
      { apply forallb_forall. intros n _. destruct (Nat.eqb n (c_root c)) eqn:En; [reflexivity|]. cbn [orb].
        destruct (Hreal n) as [Hi|Hd]; [unfold virt; rewrite Hext, En; reflexivity | rewrite Hi; reflexivity | rewrite Hd; reflexivity]. }
      rewrite Eall. reflexivity.
    + destruct (forallb_false_ex _ _ Ed) as [x [Hx Hxd]].
      assert (Hvx : virt x = false).
      { unfold virt. rewrite Hext. cbn [andb]. apply Nat.eqb_neq. intro E. subst x. exact (virt_nopred Hext _ Hx). }
      destruct (Hreal x Hvx) as [Hi|Hd]; [|rewrite Hd in Hxd; discriminate].
      destruct (exb_enabled st x Hr Q Hi (succ_in _ x root_in Hx)) as [st' Hs].
      { unfold dispatched. apply orb_true_iff. right. apply existsb_exists. exists (c_root c). split.
        - apply in_seq. lia.
        - rewrite Hwv. cbn [is_waiting andb]. now apply memb_In. }
      exists (ExB x). exists (with_base fs st'). split; [reflexivity|]. split; [intros k; discriminate|].
      apply fstep_base; [exact Hr | exact Ha | split; intros; discriminate | | | exact Hs].
      * intros m _. apply Hnodead.
      * unfold on_virtual. cbn [ev_node]. exact Hvx.
  - (* CopyGraph / Copy *)
    assert (Hv0 : forall n, virt n = false) by (intro n; unfold virt; rewrite Hext; reflexivity).
    assert (Hov : forall e, on_virtual c ext e = false) by (intro e; unfold on_virtual; rewrite Hext; reflexivity).
    destruct (Hreal (c_root c) (Hv0 _)) as [Hi|Hd].
    + destruct (exb_enabled st (c_root c) Hr Q Hi root_in) as [st' Hs].
      { unfold dispatched, is_root. rewrite Nat.eqb_refl. reflexivity. }
      exists (ExB (c_root c)). exists (with_base fs st'). split; [reflexivity|]. split; [intros k; discriminate|].
      apply fstep_base; [exact Hr | exact Ha | split; intros; discriminate | intros m _; apply Hnodead | apply Hov | exact Hs].
    + destruct (forallb (fun r => is_done (ph st r)) (c_xroots c)) eqn:Ex.
      * exists (Ret true). eexists. split; [reflexivity|]. split; [intros k; discriminate|].
        unfold fstep. fold st. rewrite Hr, Ht. cbn [negb andb]. unfold ret_ok_guard. rewrite Hext, Hd, Ex. cbn [is_done andb].
        assert (Eall : forallb (fun n => is_idle_or_done (ph st n)) (seq 0 (g_n g)) = true).
        { apply forallb_forall. intros n _. destruct (Hreal n (Hv0 n)) as [Hi|Hd']; [rewrite Hi | rewrite Hd']; reflexivity. }
        rewrite Eall. reflexivity.
      * destruct (forallb_false_ex _ _ Ex) as [x [Hx Hxd]].
        destruct (Hreal x (Hv0 x)) as [Hi|Hd']; [|rewrite Hd' in Hxd; discriminate].
        destruct (exb_enabled st x Hr Q Hi (xroots_in x Hx)) as [st' Hs].
        { unfold dispatched. apply orb_true_iff. left. apply orb_true_iff. right. now apply memb_In. }
        exists (ExB x). exists (with_base fs st'). split; [reflexivity|]. split; [intros k; discriminate|].
        apply fstep_base; [exact Hr | exact Ha | split; intros; discriminate | intros m _; apply Hnodead | apply Hov | exact Hs].
Qed.

(* ... at every state reached by an accepted trace (Mounter destinations included; content keys injective) *)
Theorem fprogress_m tr fs : ext_ok g c ext d0 ->
  faccepts g c ext d0 tr = Some fs -> returned (fb fs) = None ->
  exists e fs', is_fault (Ev e) = false /\ fstep g c ext fs (Ev e) = Some fs'.
Proof.
  intros Hx Ha Hr. unfold faccepts in Ha.
  pose proof (frun_inv g c ext d0 tr _ _ (finit_inv g c ext d0 Hx) Ha) as I.
  destruct P12_init as [A B]. destruct (P12_run tr _ _ (finit_inv g c ext d0 Hx) A B Ha) as [H1 H2].
  destruct P34_init as [A3 A4]. destruct (P34_run tr _ _ (finit_inv g c ext d0 Hx) A3 A4 Ha) as [H3 H4].
  apply fprogress_state_m; auto. eapply Wv_run; eauto. apply Wv_init.
Qed.

End M.

End Rank.

End L.

(* the hypotheses are satisfiable: the shared-successor DAG g_sh (CopyGraph, K = 3) and the ExtendedCopyGraph
   universe g_x with the virtual root 3 *)
Lemma example_progress_hyps :
  (forall n x, In x (succ' g_sh n) -> x < n) /\ 1 <= c_K c_sh /\ c_root c_sh < g_n g_sh /\
  (forall n x, n < g_n g_sh -> In x (succ' g_sh n) -> x < g_n g_sh) /\ c_mount c_sh = false /\
  (forall n x, In x (succ' g_x n) -> x < n) /\ (forall n, ~ In (c_root c_x) (succ' g_x n)) /\
  (forall n x, n < g_n g_x -> In x (succ' g_x n) -> x < g_n g_x).
Proof.
  assert (A : forall n x, In x (succ' g_sh n) -> x < n).
  { intros n x. do 5 (destruct n as [|n]; [cbn; intuition lia|]). cbn. tauto. }
  assert (B : forall n x, In x (succ' g_x n) -> x < n).
  { intros n x. do 4 (destruct n as [|n]; [cbn; intuition lia|]). cbn. tauto. }
  split; [exact A|]. split; [cbn; lia|]. split; [cbn; lia|].
  split; [intros n x Hn Hx; specialize (A n x Hx); cbn in *; lia|]. split; [reflexivity|].
  split; [exact B|]. split.
  - intros n Hin. specialize (B n _ Hin). cbn in B.
    revert Hin. do 4 (destruct n as [|n]; [cbn; intuition lia|]). cbn. tauto.
  - intros n x Hn Hx. specialize (B n x Hx). cbn in *. lia.
Qed.
