(* Lemmas about the executable json.Marshal model (Model/PackEnc.v). *)
From Coq Require Import Sorting.Permutation.
From Oras Require Import Base.Prelude Base.Regex Generated.GC19 Model.Pack Model.PackEnc Proofs.Pack.

(* ---------- bytewise order on strings (strings.Compare) ---------- *)
Lemma str_ltb_irrefl x : str_ltb x x = false.
Proof. induction x as [|c x IH]; simpl; auto. now rewrite N.ltb_irrefl, N.eqb_refl, IH. Qed.

Lemma str_ltb_trans x y z : str_ltb x y = true -> str_ltb y z = true -> str_ltb x z = true.
Proof.
  revert y z. induction x as [|c x IH]; intros [|d y] [|e z]; simpl; auto; try discriminate.
  intros A B. apply orb_true_iff in A, B. apply orb_true_iff.
  destruct A as [A | A]; destruct B as [B | B].
  - left. apply N.ltb_lt in A, B. apply N.ltb_lt. lia.
  - apply andb_true_iff in B as [B _]. apply N.eqb_eq in B. subst. now left.
  - apply andb_true_iff in A as [A _]. apply N.eqb_eq in A. subst. now left.
  - apply andb_true_iff in A as [A1 A2]. apply andb_true_iff in B as [B1 B2].
    apply N.eqb_eq in A1, B1. subst. right. rewrite N.eqb_refl. simpl. eapply IH; eauto.
Qed.

Lemma str_ltb_asym x y : str_ltb x y = true -> str_ltb y x = false.
Proof.
  intro A. destruct (str_ltb y x) eqn:B; auto.
  pose proof (str_ltb_trans _ _ _ A B) as C. now rewrite str_ltb_irrefl in C.
Qed.

Lemma str_ltb_total x y : x <> y -> str_ltb x y = true \/ str_ltb y x = true.
Proof.
  revert y. induction x as [|c x IH]; intros [|d y] N; simpl; auto; try congruence.
  destruct (N.lt_trichotomy c d) as [L | [E | G]].
  - left. apply N.ltb_lt in L. now rewrite L.
  - subst d. rewrite N.ltb_irrefl, N.eqb_refl. simpl.
    apply IH. intro E. apply N. now subst.
  - right. apply N.ltb_lt in G. now rewrite G.
Qed.

(* ---------- sorting is canonical: the order of a map's entries does not matter ---------- *)
Lemma kv_insert_comm p q l :
  fst p <> fst q -> kv_insert p (kv_insert q l) = kv_insert q (kv_insert p l).
Proof.
  intro N. induction l as [|x l IH]; simpl.
  - destruct (str_ltb_total _ _ N) as [A | A]; rewrite A, (str_ltb_asym _ _ A); reflexivity.
  - destruct (str_ltb (fst q) (fst x)) eqn:Q; destruct (str_ltb (fst p) (fst x)) eqn:P; simpl.
    + destruct (str_ltb_total _ _ N) as [A | A]; rewrite A, (str_ltb_asym _ _ A); simpl.
      * now rewrite Q.
      * now rewrite P.
    + rewrite Q.
      destruct (str_ltb (fst p) (fst q)) eqn:A.
      * rewrite (str_ltb_trans _ _ _ A Q) in P. discriminate.
      * simpl. now rewrite P.
    + rewrite P.
      destruct (str_ltb (fst q) (fst p)) eqn:A.
      * rewrite (str_ltb_trans _ _ _ A P) in Q. discriminate.
      * simpl. now rewrite Q.
    + rewrite P, Q. now rewrite IH.
Qed.

Lemma kv_sort_perm l l' :
  NoDup (map fst l) -> Permutation l l' -> kv_sort l = kv_sort l'.
Proof.
  intros N P. induction P as [| x l l' P IH | x y l | l l' l'' P1 IH1 P2 IH2].
  - reflexivity.
  - simpl. rewrite IH; auto. now inversion N.
  - simpl. apply kv_insert_comm. simpl in N. inversion N as [|? ? NI _]. intro E. apply NI. simpl. auto.
  - rewrite IH1 by exact N. apply IH2.
    eapply Permutation_NoDup; [|exact N]. now apply Permutation_map.
Qed.

Theorem json_ann_perm l l' :
  NoDup (map fst l) -> Permutation l l' -> json_ann l = json_ann l'.
Proof. intros N P. unfold json_ann. now rewrite (kv_sort_perm l l' N P). Qed.

Lemma nonempty_perm {A} (l l' : list A) : Permutation l l' -> nonempty l = nonempty l'.
Proof.
  intro P. destruct l, l'; auto.
  - apply Permutation_nil in P. discriminate.
  - apply Permutation_sym, Permutation_nil in P. discriminate.
Qed.

(* json.Marshal of the manifest does not depend on the order in which the annotations are listed *)
Theorem json_manifest_perm k c l sj a ann ann' :
  NoDup (map fst ann) -> Permutation ann ann' ->
  json_manifest (mkManifest k c l sj a ann) = json_manifest (mkManifest k c l sj a ann').
Proof.
  intros N P. pose proof (nonempty_perm _ _ P) as E.
  unfold json_manifest. cbn [m_kind m_config m_layers m_subject m_at m_ann].
  rewrite (json_ann_perm _ _ N P).
  destruct ann; destruct ann'; simpl in E; try discriminate; reflexivity.
Qed.

(* the output is never empty and is an object: starts with '{', ends with '}' *)
Lemma json_manifest_shape m : exists body, json_manifest m = 123 :: body ++ [125].
Proof. unfold json_manifest, json_obj. destruct (m_kind m); eexists; reflexivity. Qed.

(* with the executable json.Marshal the order independence needs no premise about marshalling *)
Theorem deterministic_perm_json (H : str -> str) (H_empty : H empty_json = empty_json_digest)
        f at_ o o' v tc1 fa1 s1 now1 s1' d1 m1 tc2 fa2 s2 now2 s2' d2 m2 :
  NoDup (map fst (o_ann o)) -> Permutation (o_ann o) (o_ann o') -> same_but_ann o o' ->
  ann_get (created_key f) (o_ann o) = Some v ->
  pack json_manifest H f tc1 fa1 s1 at_ o now1 = (s1', Ok d1 m1) ->
  pack json_manifest H f tc2 fa2 s2 at_ o' now2 = (s2', Ok d2 m2) ->
  d_dg d1 = d_dg d2 /\ d_sz d1 = d_sz d2 /\ d_mt d1 = d_mt d2 /\ d_at d1 = d_at d2 /\
  d_extra d1 = d_extra d2 /\ Permutation (d_ann d1) (d_ann d2) /\
  json_manifest m1 = json_manifest m2.
Proof.
  intros N P S G P1 P2.
  destruct (deterministic_perm json_manifest H H_empty json_manifest_perm f at_ o o' v
              tc1 fa1 s1 now1 s1' d1 m1 tc2 fa2 s2 now2 s2' d2 m2 N P S G P1 P2)
    as (A1 & A2 & A3 & A4 & A5 & A6 & B1 & B2 & B3 & B4).
  repeat (split; [assumption|]).
  (* the two manifests differ only in the order of their annotations *)
  apply (ok_consistent json_manifest H H_empty) in P1 as (a1 & e1 & EC1 & -> & _).
  apply (ok_consistent json_manifest H H_empty) in P2 as (a2 & e2 & EC2 & -> & _).
  assert (G' : ann_get (created_key f) (o_ann o') = Some v) by (rewrite <- (ann_get_perm _ _ _ N P); exact G).
  unfold ensure_created in EC1, EC2. rewrite G in EC1. rewrite G' in EC2.
  destruct (rfc3339_ok v); [|discriminate]. injection EC1 as <-. injection EC2 as <-.
  destruct (requested_manifest_perm H f at_ o o' _ _ S P) as (k & c & l & sj & a & -> & ->).
  now apply json_manifest_perm.
Qed.

(* ---------- what is read back from an encoded string is exactly its UTF-8 coercion ---------- *)
Lemma unesc_raw c t : 128 <= c -> json_unesc (c :: t) = option_map (cons c) (json_unesc t).
Proof.
  intro G. simpl.
  assert (E1 : (c =? 92) = false) by (apply N.eqb_neq; lia).
  assert (E2 : (c =? 34) = false) by (apply N.eqb_neq; lia).
  assert (E3 : (c <? 32) = false) by (apply N.ltb_ge; lia).
  now rewrite E1, E2, E3.
Qed.

Lemma unesc_fffd t : json_unesc (esc_fffd ++ t) = option_map (app ufffd) (json_unesc t).
Proof. reflexivity. Qed.

Lemma unesc_2028 b2 t :
  b2 = 168 \/ b2 = 169 ->
  json_unesc (esc_2028 b2 ++ t) = option_map (app [226; 128; b2]) (json_unesc t).
Proof. intros [-> | ->]; reflexivity. Qed.

Lemma unhex_hex_digit n : n < 16 -> unhex (hex_digit n) = Some n.
Proof.
  intro L. unfold hex_digit, unhex, in_rng.
  destruct (n <? 10) eqn:A.
  - apply N.ltb_lt in A.
    assert (E : (48 <=? 48 + n) && (48 + n <=? 57) = true)
      by (apply andb_true_iff; split; apply N.leb_le; lia).
    rewrite E. f_equal. lia.
  - apply N.ltb_ge in A.
    assert (E0 : (48 <=? 87 + n) && (87 + n <=? 57) = false)
      by (apply andb_false_iff; right; apply N.leb_gt; lia).
    assert (E : (97 <=? 87 + n) && (87 + n <=? 102) = true)
      by (apply andb_true_iff; split; apply N.leb_le; lia).
    rewrite E0, E. f_equal. lia.
Qed.

Lemma unesc_u00 c t : c < 128 -> json_unesc (esc_u00 c ++ t) = option_map (cons c) (json_unesc t).
Proof.
  intro L. unfold esc_u00. cbn [app json_unesc N.eqb Pos.eqb].
  change (unhex 48) with (Some 0).
  rewrite (unhex_hex_digit (c / 16)) by (apply N.div_lt_upper_bound; lia).
  rewrite (unhex_hex_digit (c mod 16)) by (apply N.mod_lt; lia).
  assert (E : ((0 * 16 + 0) * 16 + c / 16) * 16 + c mod 16 = c).
  { rewrite (N.div_mod c 16) at 3 by lia. lia. }
  rewrite E. unfold utf8_enc. apply N.ltb_lt in L. now rewrite L.
Qed.

Lemma unesc_ascii c t : c < 128 -> json_unesc (esc_ascii c ++ t) = option_map (cons c) (json_unesc t).
Proof.
  intro L. unfold esc_ascii.
  destruct ((c =? 34) || (c =? 92)) eqn:Q.
  { apply orb_true_iff in Q as [Q | Q]; apply N.eqb_eq in Q; subst; reflexivity. }
  apply orb_false_iff in Q as [Q1 Q2].
  destruct (c =? 8) eqn:E8; [apply N.eqb_eq in E8; subst; reflexivity|].
  destruct (c =? 12) eqn:E12; [apply N.eqb_eq in E12; subst; reflexivity|].
  destruct (c =? 10) eqn:E10; [apply N.eqb_eq in E10; subst; reflexivity|].
  destruct (c =? 13) eqn:E13; [apply N.eqb_eq in E13; subst; reflexivity|].
  destruct (c =? 9) eqn:E9; [apply N.eqb_eq in E9; subst; reflexivity|].
  destruct ((c <? 32) || (c =? 60) || (c =? 62) || (c =? 38)) eqn:U; [now apply unesc_u00|].
  apply orb_false_iff in U as [U _]. apply orb_false_iff in U as [U _]. apply orb_false_iff in U as [U _].
  simpl. now rewrite Q2, Q1, U.
Qed.

Lemma cont_ge c : utf8_cont c = true -> 128 <= c.
Proof. unfold utf8_cont, in_rng. intro E. apply andb_true_iff in E as [E _]. now apply N.leb_le in E. Qed.

Lemma three_ge b0 b1 : utf8_three b0 b1 = true -> 128 <= b1.
Proof.
  unfold utf8_three, utf8_cont, in_rng.
  rewrite !orb_true_iff, !andb_true_iff, !N.leb_le, !N.eqb_eq. lia.
Qed.

Lemma four_ge b0 b1 : utf8_four b0 b1 = true -> 128 <= b1.
Proof.
  unfold utf8_four, utf8_cont, in_rng.
  rewrite !orb_true_iff, !andb_true_iff, !N.leb_le, !N.eqb_eq. lia.
Qed.

Lemma unesc_esc_n n : forall s, (length s <= n)%nat -> json_unesc (json_esc s) = Some (utf8_san s).
Proof.
  induction n as [|n IH]; intros s L.
  { destruct s; [reflexivity | simpl in L; lia]. }
  destruct s as [|b0 r1]; [reflexivity|].
  assert (IH1 : json_unesc (json_esc r1) = Some (utf8_san r1)) by (apply IH; simpl in L; lia).
  cbn [json_esc utf8_san].
  destruct (b0 <? 128) eqn:A.
  { apply N.ltb_lt in A. now rewrite unesc_ascii, IH1. }
  apply N.ltb_ge in A.
  destruct r1 as [|b1 r2]; [reflexivity|].
  assert (IH2 : json_unesc (json_esc r2) = Some (utf8_san r2)) by (apply IH; simpl in L; lia).
  destruct (in_rng 194 223 b0 && utf8_cont b1) eqn:B.
  { apply andb_true_iff in B as [_ B]. apply cont_ge in B.
    now rewrite (unesc_raw b0) by lia; rewrite (unesc_raw b1) by lia; rewrite IH2. }
  destruct r2 as [|b2 r3]; [now rewrite unesc_fffd, IH1|].
  assert (IH3 : json_unesc (json_esc r3) = Some (utf8_san r3)) by (apply IH; simpl in L; lia).
  destruct (utf8_three b0 b1 && utf8_cont b2) eqn:C.
  { apply andb_true_iff in C as [C1 C2]. apply three_ge in C1. apply cont_ge in C2.
    destruct ((b0 =? 226) && (b1 =? 128) && ((b2 =? 168) || (b2 =? 169))) eqn:S.
    - apply andb_true_iff in S as [S S3]. apply andb_true_iff in S as [S1 S2].
      apply N.eqb_eq in S1, S2. subst b0 b1.
      rewrite unesc_2028, IH3; [reflexivity|].
      apply orb_true_iff in S3 as [S3 | S3]; apply N.eqb_eq in S3; auto.
    - now rewrite (unesc_raw b0) by lia; rewrite (unesc_raw b1) by lia; rewrite (unesc_raw b2) by lia; rewrite IH3. }
  destruct r3 as [|b3 r4]; [now rewrite unesc_fffd, IH1|].
  assert (IH4 : json_unesc (json_esc r4) = Some (utf8_san r4)) by (apply IH; simpl in L; lia).
  destruct (utf8_four b0 b1 && utf8_cont b2 && utf8_cont b3) eqn:D.
  { apply andb_true_iff in D as [D D3]. apply andb_true_iff in D as [D1 D2].
    apply four_ge in D1. apply cont_ge in D2, D3.
    now rewrite (unesc_raw b0) by lia; rewrite (unesc_raw b1) by lia; rewrite (unesc_raw b2) by lia;
      rewrite (unesc_raw b3) by lia; rewrite IH4. }
  now rewrite unesc_fffd, IH1.
Qed.

(* json.Marshal then Unmarshal of a Go string gives its UTF-8 coercion: for strings, the premise
   json_roundtrip of C19_stored_parses is a theorem *)
Theorem json_string_roundtrip s : json_unesc (json_esc s) = Some (utf8_san s).
Proof. apply (unesc_esc_n (length s)). lia. Qed.

Corollary json_string_roundtrip_clean s : utf8_san s = s -> json_unesc (json_esc s) = Some s.
Proof. intro C. now rewrite json_string_roundtrip, C. Qed.

(* distinct clean strings have distinct encodings *)
Corollary json_esc_injective_clean s t :
  utf8_san s = s -> utf8_san t = t -> json_esc s = json_esc t -> s = t.
Proof.
  intros Cs Ct E. pose proof (json_string_roundtrip_clean s Cs) as A.
  rewrite E, (json_string_roundtrip_clean t Ct) in A. congruence.
Qed.

(* ---------- the executable instance: modelled json.Marshal and modelled SHA-256 ---------- *)
From Oras Require Import Model.PackSha.

(* the one hypothesis about the digest function holds for the modelled SHA-256, by computation *)
Lemma digest_of_empty_json : digest_of empty_json = empty_json_digest.
Proof. vm_compute. reflexivity. Qed.

(* so every theorem of C19 applies to the fully executable model; e.g. the descriptor it returns *)
Theorem executable_instance_consistent f tc fa s at_ o now s' d m :
  pack json_manifest digest_of f tc fa s at_ o now = (s', Ok d m) ->
  exists ann,
    ensure_created (o_ann o) (created_key f) now = Some ann /\
    m = requested_manifest digest_of f at_ o ann /\
    d_dg d = digest_of (json_manifest m) /\
    d_sz d = Z.of_nat (length (json_manifest m)) /\
    d_mt d = kind_mt (m_kind m) /\ d_ann d = m_ann m /\
    stored (t_key tc) (s_store s') d = true.
Proof.
  intro P. destruct (ok_consistent json_manifest digest_of digest_of_empty_json _ _ _ _ _ _ _ _ _ _ P)
    as (ann & evs & EC & -> & -> & _ & _ & St & _).
  exists ann. repeat split; auto.
Qed.

(* ---------- reading an annotations object back ---------- *)
Definition consp (c : N) (p : option (str * str)) : option (str * str) :=
  match p with Some (y, rest) => Some (c :: y, rest) | None => None end.
Definition appp (x : str) (p : option (str * str)) : option (str * str) :=
  match p with Some (y, rest) => Some (x ++ y, rest) | None => None end.

Lemma rb_raw c t : 128 <= c -> read_body (c :: t) = consp c (read_body t).
Proof.
  intro G. simpl.
  assert (E1 : (c =? 92) = false) by (apply N.eqb_neq; lia).
  assert (E2 : (c =? 34) = false) by (apply N.eqb_neq; lia).
  assert (E3 : (c <? 32) = false) by (apply N.ltb_ge; lia).
  rewrite E2, E1, E3. reflexivity.
Qed.

Lemma rb_fffd t : read_body (esc_fffd ++ t) = appp ufffd (read_body t).
Proof. reflexivity. Qed.

Lemma rb_2028 b2 t :
  b2 = 168 \/ b2 = 169 -> read_body (esc_2028 b2 ++ t) = appp [226; 128; b2] (read_body t).
Proof. intros [-> | ->]; reflexivity. Qed.

Lemma rb_u00 c t : c < 128 -> read_body (esc_u00 c ++ t) = consp c (read_body t).
Proof.
  intro L. unfold esc_u00. cbn [app read_body N.eqb Pos.eqb].
  change (unhex 48) with (Some 0).
  rewrite (unhex_hex_digit (c / 16)) by (apply N.div_lt_upper_bound; lia).
  rewrite (unhex_hex_digit (c mod 16)) by (apply N.mod_lt; lia).
  assert (E : ((0 * 16 + 0) * 16 + c / 16) * 16 + c mod 16 = c).
  { rewrite (N.div_mod c 16) at 3 by lia. lia. }
  rewrite E. unfold utf8_enc. apply N.ltb_lt in L. rewrite L. reflexivity.
Qed.

Lemma rb_ascii c t : c < 128 -> read_body (esc_ascii c ++ t) = consp c (read_body t).
Proof.
  intro L. unfold esc_ascii.
  destruct ((c =? 34) || (c =? 92)) eqn:Q.
  { apply orb_true_iff in Q as [Q | Q]; apply N.eqb_eq in Q; subst; reflexivity. }
  apply orb_false_iff in Q as [Q1 Q2].
  destruct (c =? 8) eqn:E8; [apply N.eqb_eq in E8; subst; reflexivity|].
  destruct (c =? 12) eqn:E12; [apply N.eqb_eq in E12; subst; reflexivity|].
  destruct (c =? 10) eqn:E10; [apply N.eqb_eq in E10; subst; reflexivity|].
  destruct (c =? 13) eqn:E13; [apply N.eqb_eq in E13; subst; reflexivity|].
  destruct (c =? 9) eqn:E9; [apply N.eqb_eq in E9; subst; reflexivity|].
  destruct ((c <? 32) || (c =? 60) || (c =? 62) || (c =? 38)) eqn:U; [now apply rb_u00|].
  apply orb_false_iff in U as [U _]. apply orb_false_iff in U as [U _]. apply orb_false_iff in U as [U _].
  simpl. now rewrite Q1, Q2, U.
Qed.

(* a string body is read up to its closing quote, whatever follows *)
Lemma read_body_esc_n n : forall s rest, (length s <= n)%nat ->
  read_body (json_esc s ++ 34 :: rest) = Some (utf8_san s, rest).
Proof.
  induction n as [|n IH]; intros s rest L.
  { destruct s; [reflexivity | simpl in L; lia]. }
  destruct s as [|b0 r1]; [reflexivity|].
  assert (IH1 : read_body (json_esc r1 ++ 34 :: rest) = Some (utf8_san r1, rest)) by (apply IH; simpl in L; lia).
  cbn [json_esc utf8_san].
  destruct (b0 <? 128) eqn:A.
  { apply N.ltb_lt in A. now rewrite <- app_assoc, rb_ascii, IH1. }
  apply N.ltb_ge in A.
  destruct r1 as [|b1 r2]; [reflexivity|].
  assert (IH2 : read_body (json_esc r2 ++ 34 :: rest) = Some (utf8_san r2, rest)) by (apply IH; simpl in L; lia).
  destruct (in_rng 194 223 b0 && utf8_cont b1) eqn:B.
  { apply andb_true_iff in B as [_ B]. apply cont_ge in B. cbn [app].
    now rewrite (rb_raw b0) by lia; rewrite (rb_raw b1) by lia; rewrite IH2. }
  destruct r2 as [|b2 r3]; [now rewrite <- app_assoc, rb_fffd, IH1|].
  assert (IH3 : read_body (json_esc r3 ++ 34 :: rest) = Some (utf8_san r3, rest)) by (apply IH; simpl in L; lia).
  destruct (utf8_three b0 b1 && utf8_cont b2) eqn:C.
  { apply andb_true_iff in C as [C1 C2]. apply three_ge in C1. apply cont_ge in C2.
    destruct ((b0 =? 226) && (b1 =? 128) && ((b2 =? 168) || (b2 =? 169))) eqn:S.
    - apply andb_true_iff in S as [S S3]. apply andb_true_iff in S as [S1 S2].
      apply N.eqb_eq in S1, S2. subst b0 b1.
      rewrite <- app_assoc, rb_2028, IH3; [reflexivity|].
      apply orb_true_iff in S3 as [S3 | S3]; apply N.eqb_eq in S3; auto.
    - cbn [app]. now rewrite (rb_raw b0) by lia; rewrite (rb_raw b1) by lia; rewrite (rb_raw b2) by lia; rewrite IH3. }
  destruct r3 as [|b3 r4]; [now rewrite <- app_assoc, rb_fffd, IH1|].
  assert (IH4 : read_body (json_esc r4 ++ 34 :: rest) = Some (utf8_san r4, rest)) by (apply IH; simpl in L; lia).
  destruct (utf8_four b0 b1 && utf8_cont b2 && utf8_cont b3) eqn:D.
  { apply andb_true_iff in D as [D D3]. apply andb_true_iff in D as [D1 D2].
    apply four_ge in D1. apply cont_ge in D2, D3. cbn [app].
    now rewrite (rb_raw b0) by lia; rewrite (rb_raw b1) by lia; rewrite (rb_raw b2) by lia;
      rewrite (rb_raw b3) by lia; rewrite IH4. }
  now rewrite <- app_assoc, rb_fffd, IH1.
Qed.

Lemma read_string_json s rest : read_string (json_string s ++ rest) = Some (utf8_san s, rest).
Proof.
  unfold json_string, read_string. cbn [app]. rewrite <- app_assoc. cbn [app].
  apply (read_body_esc_n (length s)). lia.
Qed.

Definition json_pair (p : kv) : str := json_string (fst p) ++ 58 :: json_string (snd p).

Lemma read_pair_json p rest :
  read_pair (json_pair p ++ rest) = Some ((utf8_san (fst p), utf8_san (snd p)), rest).
Proof.
  unfold read_pair, json_pair. rewrite <- app_assoc. rewrite read_string_json. cbn [app].
  now rewrite read_string_json.
Qed.

(* the tail of an object: the remaining pairs, each preceded by a comma, then "}" *)
Fixpoint tail_of (l : list kv) : str :=
  match l with
  | [] => [125]
  | p :: l' => 44 :: json_pair p ++ tail_of l'
  end.

Lemma read_more_tail l : forall fuel rest, (length l < fuel)%nat ->
  read_more fuel (tail_of l ++ rest) = Some (san_ann l, rest).
Proof.
  induction l as [|p l IH]; intros fuel rest L; destruct fuel as [|f]; try (simpl in L; lia).
  - reflexivity.
  - cbn [tail_of app read_more]. rewrite <- app_assoc, read_pair_json.
    rewrite IH by (simpl in L; lia). reflexivity.
Qed.

Lemma json_obj_pairs p l : json_obj (map json_pair (p :: l)) = 123 :: json_pair p ++ tail_of l.
Proof.
  unfold json_obj. f_equal. revert p. induction l as [|q l IH]; intro p.
  - simpl. reflexivity.
  - change (join comma (map json_pair (p :: q :: l))) with (json_pair p ++ comma ++ join comma (map json_pair (q :: l))).
    rewrite <- app_assoc. f_equal. rewrite <- app_assoc. unfold comma. cbn [app tail_of]. f_equal. apply IH.
Qed.

Lemma tail_length l : (length l < length (tail_of l))%nat.
Proof.
  induction l as [|p l IH]; simpl; [lia|]. rewrite app_length. lia.
Qed.

(* reading back the object written for a list of pairs gives the pairs, coerced, in the written order *)
Lemma read_obj_pairs l rest :
  read_obj (json_obj (map json_pair l) ++ rest) = Some (san_ann l, rest).
Proof.
  destruct l as [|p l]; [reflexivity|].
  rewrite json_obj_pairs. cbn [app]. rewrite <- app_assoc.
  remember (json_pair p ++ tail_of l ++ rest) as body eqn:EB.
  assert (HB : exists Z, body = 34 :: Z).
  { subst body. unfold json_pair, json_string. cbn [app]. eexists. reflexivity. }
  destruct HB as (Z & EZ).
  unfold read_obj. rewrite EZ. cbv beta iota. rewrite <- EZ, EB.
  rewrite read_pair_json. rewrite read_more_tail; [reflexivity|].
  simpl. rewrite !app_length. pose proof (tail_length l). lia.
Qed.

(* the annotations object of a manifest reads back as the requested annotations, coerced to UTF-8,
   in key order *)
Theorem json_ann_roundtrip l rest :
  read_obj (json_ann l ++ rest) = Some (san_ann (kv_sort l), rest).
Proof. unfold json_ann. apply (read_obj_pairs (kv_sort l) rest). Qed.

(* ---------- the stored document declares the media type of the returned descriptor ---------- *)
Lemma strip_prefix_app p t : strip_prefix p (p ++ t) = Some t.
Proof. induction p as [|c p IH]; simpl; auto. now rewrite N.eqb_refl. Qed.

Lemma join_head x l : exists t, join comma (x :: l) = x ++ t.
Proof.
  destruct l as [|y l]; [exists []; simpl; now rewrite app_nil_r|].
  exists (comma ++ join comma (y :: l)). reflexivity.
Qed.

Lemma join_head2 x y l : exists t, join comma (x :: y :: l) = x ++ comma ++ y ++ t.
Proof.
  destruct (join_head y l) as (t & E). exists t.
  change (join comma (x :: y :: l)) with (x ++ comma ++ join comma (y :: l)). now rewrite E.
Qed.

Lemma read_field_json name v rest :
  read_field name (field name (json_string v) ++ rest) = Some (utf8_san v, rest).
Proof.
  unfold read_field, field.
  assert (E : (json_string (b name) ++ 58 :: json_string v) ++ rest
              = (json_string (b name) ++ [58]) ++ json_string v ++ rest)
    by (rewrite <- !app_assoc; reflexivity).
  rewrite E, strip_prefix_app. apply read_string_json.
Qed.

Lemma kind_mt_clean k : utf8_san (kind_mt k) = kind_mt k.
Proof. destruct k; vm_compute; reflexivity. Qed.

Theorem doc_media_type_json m : doc_media_type (json_manifest m) = Some (kind_mt (m_kind m)).
Proof.
  unfold json_manifest. destruct (m_kind m) eqn:K; cbn [app].
  - match goal with |- doc_media_type (json_obj (?a :: ?b' :: ?l)) = _ =>
      destruct (join_head2 a b' l) as (t & E); unfold json_obj, doc_media_type; rewrite E end.
    cbn [app strip_prefix N.eqb Pos.eqb]. rewrite <- !app_assoc.
    rewrite (app_assoc (field "schemaVersion" [50]) comma). rewrite strip_prefix_app. rewrite read_field_json. now rewrite kind_mt_clean.
  - match goal with |- doc_media_type (json_obj (?a :: ?l)) = _ =>
      destruct (join_head a l) as (t & E); unfold json_obj, doc_media_type; rewrite E end.
    cbn [app strip_prefix N.eqb Pos.eqb]. rewrite <- app_assoc.
    assert (NS : forall t', strip_prefix (field "schemaVersion" [50] ++ comma)
                   (field "mediaType" (json_string (kind_mt KArtifact)) ++ t') = None) by reflexivity.
    rewrite NS. rewrite read_field_json. now rewrite kind_mt_clean.
Qed.

Lemma join_cons x y l : join comma (x :: y :: l) = x ++ comma ++ join comma (y :: l).
Proof. reflexivity. Qed.

(* ... and the artifactType the caller asked for (coerced), when the document has one *)
Theorem doc_artifact_type_json m :
  doc_artifact_type (json_manifest m) =
  match m_kind m, m_at m with
  | KImage, [] => None
  | _, a => Some (utf8_san a)
  end.
Proof.
  unfold json_manifest. destruct (m_kind m) eqn:K; cbn [app].
  - destruct (m_at m) as [|a0 a] eqn:A; cbn [nonempty opt_field app].
    + (* no artifactType: the next field is "config" *)
      unfold json_obj, doc_artifact_type. rewrite !join_cons.
      cbn [app strip_prefix N.eqb Pos.eqb]. rewrite <- !app_assoc.
      rewrite (app_assoc (field "schemaVersion" [50]) comma). rewrite strip_prefix_app.
      rewrite read_field_json. rewrite strip_prefix_app. reflexivity.
    + unfold json_obj, doc_artifact_type. rewrite !join_cons.
      cbn [app strip_prefix N.eqb Pos.eqb]. rewrite <- !app_assoc.
      rewrite (app_assoc (field "schemaVersion" [50]) comma). rewrite strip_prefix_app.
      rewrite read_field_json. rewrite strip_prefix_app. rewrite read_field_json. reflexivity.
  - match goal with |- doc_artifact_type (json_obj (?a :: ?b' :: ?l)) = _ =>
      destruct (join_head b' l) as (t & E); unfold json_obj, doc_artifact_type; rewrite join_cons, E end.
    cbn [app strip_prefix N.eqb Pos.eqb]. rewrite <- !app_assoc.
    assert (NS : forall t', strip_prefix (field "schemaVersion" [50] ++ comma)
                   (field "mediaType" (json_string (kind_mt KArtifact)) ++ t') = None) by reflexivity.
    rewrite NS. rewrite read_field_json. rewrite strip_prefix_app. rewrite read_field_json.
    destruct (m_at m); reflexivity.
Qed.

(* "those bytes parse as a manifest of the returned media type": with the modelled json.Marshal, the
   document stored under the returned descriptor declares that descriptor's media type, and the artifact
   type of the requested manifest (coerced to UTF-8) exactly when the manifest has one *)
Theorem stored_document_declares (H : str -> str) (H_empty : H empty_json = empty_json_digest)
        (H_inj : forall x y, H x = H y -> x = y) f tc fa s at_ o now s' d m :
  wf_store H (s_store s) ->
  pack json_manifest H f tc fa s at_ o now = (s', Ok d m) ->
  exists e, In e (s_store s') /\ same_key (t_key tc) d e = true /\
            doc_media_type (e_bytes e) = Some (d_mt d) /\
            doc_artifact_type (e_bytes e) =
              match m_kind m, m_at m with KImage, [] => None | _, a => Some (utf8_san a) end.
Proof.
  intros W P.
  destruct (ok_descriptor_describes_stored json_manifest H H_empty _ _ _ _ _ _ _ _ _ _ W P)
    as (_ & _ & MT & e & I & K & _ & B).
  destruct (B H_inj) as (EB & _). exists e. split; auto. split; auto.
  rewrite EB, doc_media_type_json, doc_artifact_type_json, MT. auto.
Qed.
