(* Lemmas about the executable json.Marshal model (Model/PackEnc.v). *)
From Coq Require Import Sorting.Permutation.
From Oras Require Import Base.Prelude Base.Regex Generated.GC19 Model.Pack Model.PackEnc Proofs.Pack.

(* ---------- bytewise order on strings (strings.Compare) ---------- *)
Lemma str_ltb_irrefl x : str_ltb x x = false.
Proof. induction x as [|c x IH]; simpl; auto. now rewrite N.ltb_irrefl, N.eqb_refl, IH. Qed.

Lemma str_ltb_trans x y z : str_ltb x y = true -> str_ltb y z = true -> str_ltb x z = true.
Proof.
  revert y z. induction x as [|c x IH]; intros [|d y] [|e z]; simpl; auto; try discriminate.
  intros A B. apply orb_true_iff in A, B. apply orb_true_iff.
  destruct A as [A | A]; destruct B as [B | B].
  - left. apply N.ltb_lt in A, B. apply N.ltb_lt. lia.
  - apply andb_true_iff in B as [B _]. apply N.eqb_eq in B. subst. now left.
  - apply andb_true_iff in A as [A _]. apply N.eqb_eq in A. subst. now left.
  - apply andb_true_iff in A as [A1 A2]. apply andb_true_iff in B as [B1 B2].
    apply N.eqb_eq in A1, B1. subst. right. rewrite N.eqb_refl. simpl. eapply IH; eauto.
Qed.

Lemma str_ltb_asym x y : str_ltb x y = true -> str_ltb y x = false.
Proof.
  intro A. destruct (str_ltb y x) eqn:B; auto.
  pose proof (str_ltb_trans _ _ _ A B) as C. now rewrite str_ltb_irrefl in C.
Qed.

Lemma str_ltb_total x y : x <> y -> str_ltb x y = true \/ str_ltb y x = true.
Proof.
  revert y. induction x as [|c x IH]; intros [|d y] N; simpl; auto; try congruence.
  destruct (N.lt_trichotomy c d) as [L | [E | G]].
  - left. apply N.ltb_lt in L. now rewrite L.
  - subst d. rewrite N.ltb_irrefl, N.eqb_refl. simpl.
    apply IH. intro E. apply N. now subst.
  - right. apply N.ltb_lt in G. now rewrite G.
Qed.

(* ---------- sorting is canonical: the order of a map's entries does not matter ---------- *)
Lemma kv_insert_comm p q l :
  fst p <> fst q -> kv_insert p (kv_insert q l) = kv_insert q (kv_insert p l).
Proof.
  intro N. induction l as [|x l IH]; simpl.
  - destruct (str_ltb_total _ _ N) as [A | A]; rewrite A, (str_ltb_asym _ _ A); reflexivity.
  - destruct (str_ltb (fst q) (fst x)) eqn:Q; destruct (str_ltb (fst p) (fst x)) eqn:P; simpl.
    + destruct (str_ltb_total _ _ N) as [A | A]; rewrite A, (str_ltb_asym _ _ A); simpl.
      * now rewrite Q.
      * now rewrite P.
    + rewrite Q.
      destruct (str_ltb (fst p) (fst q)) eqn:A.
      * rewrite (str_ltb_trans _ _ _ A Q) in P. discriminate.
      * simpl. now rewrite P.
    + rewrite P.
      destruct (str_ltb (fst q) (fst p)) eqn:A.
      * rewrite (str_ltb_trans _ _ _ A P) in Q. discriminate.
      * simpl. now rewrite Q.
    + rewrite P, Q. now rewrite IH.
Qed.

Lemma kv_sort_perm l l' :
  NoDup (map fst l) -> Permutation l l' -> kv_sort l = kv_sort l'.
Proof.
  intros N P. induction P as [| x l l' P IH | x y l | l l' l'' P1 IH1 P2 IH2].
  - reflexivity.
  - simpl. rewrite IH; auto. now inversion N.
  - simpl. apply kv_insert_comm. simpl in N. inversion N as [|? ? NI _]. intro E. apply NI. simpl. auto.
  - rewrite IH1 by exact N. apply IH2.
    eapply Permutation_NoDup; [|exact N]. now apply Permutation_map.
Qed.

Theorem json_ann_perm l l' :
  NoDup (map fst l) -> Permutation l l' -> json_ann l = json_ann l'.
Proof. intros N P. unfold json_ann. now rewrite (kv_sort_perm l l' N P). Qed.

Lemma nonempty_perm {A} (l l' : list A) : Permutation l l' -> nonempty l = nonempty l'.
Proof.
  intro P. destruct l, l'; auto.
  - apply Permutation_nil in P. discriminate.
  - apply Permutation_sym, Permutation_nil in P. discriminate.
Qed.

(* json.Marshal of the manifest does not depend on the order in which the annotations are listed *)
Theorem json_manifest_perm k c l sj a ann ann' :
  NoDup (map fst ann) -> Permutation ann ann' ->
  json_manifest (mkManifest k c l sj a ann) = json_manifest (mkManifest k c l sj a ann').
Proof.
  intros N P. pose proof (nonempty_perm _ _ P) as E.
  unfold json_manifest. cbn [m_kind m_config m_layers m_subject m_at m_ann].
  rewrite (json_ann_perm _ _ N P).
  destruct ann; destruct ann'; simpl in E; try discriminate; reflexivity.
Qed.

(* the output is never empty and is an object: starts with '{', ends with '}' *)
Lemma json_manifest_shape m : exists body, json_manifest m = 123 :: body ++ [125].
Proof. unfold json_manifest, json_obj. destruct (m_kind m); eexists; reflexivity. Qed.

(* with the executable json.Marshal the order independence needs no premise about marshalling *)
Theorem deterministic_perm_json (H : str -> str) (H_empty : H empty_json = empty_json_digest)
        f at_ o o' v tc1 fa1 s1 now1 s1' d1 m1 tc2 fa2 s2 now2 s2' d2 m2 :
  NoDup (map fst (o_ann o)) -> Permutation (o_ann o) (o_ann o') -> same_but_ann o o' ->
  ann_get (created_key f) (o_ann o) = Some v ->
  pack json_manifest H f tc1 fa1 s1 at_ o now1 = (s1', Ok d1 m1) ->
  pack json_manifest H f tc2 fa2 s2 at_ o' now2 = (s2', Ok d2 m2) ->
  d_dg d1 = d_dg d2 /\ d_sz d1 = d_sz d2 /\ d_mt d1 = d_mt d2 /\ d_at d1 = d_at d2 /\
  d_extra d1 = d_extra d2 /\ Permutation (d_ann d1) (d_ann d2) /\
  json_manifest m1 = json_manifest m2.
Proof.
  intros N P S G P1 P2.
  destruct (deterministic_perm json_manifest H H_empty json_manifest_perm f at_ o o' v
              tc1 fa1 s1 now1 s1' d1 m1 tc2 fa2 s2 now2 s2' d2 m2 N P S G P1 P2)
    as (A1 & A2 & A3 & A4 & A5 & A6 & B1 & B2 & B3 & B4).
  repeat (split; [assumption|]).
  (* the two manifests differ only in the order of their annotations *)
  apply (ok_consistent json_manifest H H_empty) in P1 as (a1 & e1 & EC1 & -> & _).
  apply (ok_consistent json_manifest H H_empty) in P2 as (a2 & e2 & EC2 & -> & _).
  assert (G' : ann_get (created_key f) (o_ann o') = Some v) by (rewrite <- (ann_get_perm _ _ _ N P); exact G).
  unfold ensure_created in EC1, EC2. rewrite G in EC1. rewrite G' in EC2.
  destruct (rfc3339_ok v); [|discriminate]. injection EC1 as <-. injection EC2 as <-.
  destruct (requested_manifest_perm H f at_ o o' _ _ S P) as (k & c & l & sj & a & -> & ->).
  now apply json_manifest_perm.
Qed.
