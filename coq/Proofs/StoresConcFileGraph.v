(* C06 -- the file store's graph under interleavings: at quiescence the set of indexed nodes,
   and hence every Predecessors answer, is the one of the sequential execution in commit
   order (untitled content, no aliasing name, collision-free bytes B). *)
From Oras Require Import Base.Prelude Model.Stores Model.StoresConc Model.StoresConcFile
     Proofs.Stores Proofs.StoresConc Proofs.StoresConcFile Proofs.StoresFile.
From Coq Require Import Permutation.

Local Arguments res_tag : simpl never.
Local Arguments g_index : simpl never.
Local Arguments gkey_eqb : simpl never.
Local Arguments verify : simpl never.
Local Arguments is_manifest : simpl never.
Local Arguments limit_reader : simpl never.
Local Arguments file_index_after : simpl never.

Lemma with_graph_self s : with_graph s (f_graph s) = s.
Proof. destruct s; reflexivity. Qed.

Lemma file_push_store_graph_same fx ig ov s d c : f_graph (fst (file_push_store fx ig ov s d c)) = f_graph s.
Proof.
  pose proof (file_push_store_graph fx ig ov s (f_graph s) d c) as H. rewrite with_graph_self in H.
  rewrite H. reflexivity.
Qed.

Lemma file_push_store_snd_core fx ig ov s q d c :
  fcore s = fcore q -> snd (file_push_store fx ig ov s d c) = snd (file_push_store fx ig ov q d c).
Proof.
  intro H. rewrite (fcore_eq_graph _ _ H). set (g := f_graph s). clearbody g.
  rewrite file_push_store_graph. reflexivity.
Qed.

Lemma file_inv_core s q : fcore s = fcore q -> file_inv q -> file_inv s.
Proof.
  intro H. rewrite (fcore_eq_graph _ _ H). intros [A C D]. constructor; [exact A | exact C | exact D].
Qed.

Lemma file_exists_fetch d s : file_inv s -> file_exists d s = true -> exists c, file_fetch d s = Some c.
Proof.
  intros [A _ _]. unfold file_exists, file_fetch. destruct (name_ok d s); [|discriminate]. simpl.
  destruct (get N.eqb (d_dig d) (f_d2p s)) as [p|] eqn:E.
  - destruct (A _ _ E) as (_ & c & Hc & _). eauto.
  - simpl. destruct (get gkey_eqb (gk d) (f_cas s)); [eauto | discriminate].
Qed.

Lemma file_index_after_graph_eq fx ov d s :
  f_graph (fst (file_index_after fx ov d s)) = f_graph (fst (file_index d s)).
Proof.
  unfold file_index_after. destruct (file_index d s) as [s2 r]. cbn [fst].
  destruct r as [o|e]; [|reflexivity]. destruct o; try reflexivity.
  destruct (is_manifest (d_mt d)); [|reflexivity].
  destruct (file_fetch d s2) as [c1|]; [|reflexivity]. destruct (d_dig d =? b_hash c1); [|reflexivity].
  pose proof (file_restore_graph_same fx ov (b_tl c1) s2) as X.
  destruct (file_restore fx ov (b_tl c1) s2) as [s3 [e|]]; exact X.
Qed.

(* graph.Index after a successful store adds exactly the pushed node *)
Lemma index_after_nodes fx ov d s k :
  file_inv s -> file_exists d s = true ->
  (indexed k (fst (file_index_after fx ov d s)) <-> (k = gk d \/ indexed k s)).
Proof.
  intros Hi He. unfold indexed. rewrite file_index_after_graph_eq.
  assert (E : exists ss, f_graph (fst (file_index d s)) = g_index d ss (f_graph s)).
  { unfold file_index. destruct (is_manifest (d_mt d)); [|eexists; reflexivity].
    destruct (file_exists_fetch d s Hi He) as [c1 Hf]. rewrite Hf.
    destruct (file_fetch_inv _ _ _ Hi Hf) as [Hh _]. rewrite Hh, N.eqb_refl. eexists; reflexivity. }
  destruct E as [ss ->]. rewrite g_index_nodes, mem_keys_put, orb_true_iff, gkey_eqb_spec. reflexivity.
Qed.

Lemma push_store_none_exists fx ig ov s d c :
  snd (file_push_store fx ig ov s d c) = None -> file_exists d (fst (file_push_store fx ig ov s d c)) = true.
Proof.
  unfold file_push_store, file_exists, name_ok. destruct (d_name d =? 0) eqn:En.
  - destruct ig.
    + destruct (is_manifest (d_mt d)); [|discriminate]. destruct (verify d c); [|discriminate].
      destruct (file_restore fx ov (b_tl c) s) as [s2 [e|]]; discriminate.
    + destruct (get gkey_eqb (gk d) (f_cas s)); [discriminate|].
      destruct (verify d (limit_reader d c)); [|discriminate]. intros _. cbn [fst f_names f_d2p f_cas].
      rewrite (get_put_eq gkey_eqb gkey_eqb_spec). simpl. apply orb_true_r.
  - unfold file_named_push. destruct (mem N.eqb (d_name d) (f_names s)); [discriminate|].
    destruct (bad_name (d_name d)); [discriminate|]. destruct (ov && _); [discriminate|].
    destruct (_ && _); [|discriminate]. intros _. cbn [fst f_names f_d2p f_cas].
    change (k_dig (gk d)) with (d_dig d). rewrite (get_put_eq N.eqb Neqb_spec).
    assert (M : mem N.eqb (d_name d) (d_name d :: f_names s) = true) by (apply memN_In; now left). rewrite M. reflexivity.
Qed.

Lemma file_step_nonpush_graph fx ig ov s o :
  match o with Push _ _ => False | _ => True end -> f_graph (fst (file_step fx ig ov s o)) = f_graph s.
Proof.
  destruct o; intro H; try reflexivity; try contradiction.
  - cbn [file_step]. destruct (file_fetch d s); reflexivity.
  - cbn [file_step]. destruct r; try reflexivity; destruct (file_exists d s); reflexivity.
  - cbn [file_step]. destruct r; try reflexivity; destruct (get ref_eqb _ (r_index (f_res s))); reflexivity.
Qed.

Section FileConcGraph.
  Variable B : N -> blob.
  Variables ig ov : bool.

  Lemma file_B_core s q : fcore s = fcore q -> file_B B q -> file_B B s.
  Proof. intro H. rewrite (fcore_eq_graph _ _ H). intros [A C]. constructor; [exact A | exact C]. Qed.

  Definition fpending (t : fthread) : list gkey := match ft_pc t with FIndex d => [gk d] | _ => [] end.
  Definition fthread_ix (s : file_store) (t : fthread) : Prop :=
    match ft_pc t with FIndex d => file_exists d s = true | _ => True end.
  Definition good_op (o : op) : Prop := untitled o /\ no_alias o /\ wfB_op B o.

  Lemma fthread_ix_mono s s' t : fle s s' -> fthread_ix s t -> fthread_ix s' t.
  Proof. unfold fthread_ix. intro H. destruct (ft_pc t); auto. Qed.

  (* one atomic step against the sequential state q of the commit log: the nodes it adds to the
     sequential graph ([add]) are the ones it indexes or leaves pending *)
  Lemma fgstep s q t s' t' lg :
    fcore s = fcore q -> file_G B q -> file_unt q -> file_ginv B s -> fthread_ix s t ->
    (forall o, In o (fremaining t) -> good_op o) ->
    fthread_step true ig ov s t = Some (s', t', lg) ->
    let q' := fst (runf (file_step true ig ov) q lg) in
    file_ginv B s' /\ fthread_ix s' t' /\
    exists add, (forall k, indexed k q' <-> indexed k q \/ In k add) /\
                (forall k, indexed k s' \/ In k (fpending t') <-> (indexed k s \/ In k (fpending t)) \/ In k add).
  Proof.
    intros Hc HG Huq Hg Hix Hgood. unfold fthread_step, fthread_ix, fpending, fremaining in *.
    destruct t as [pc ops]; cbn [ft_pc ft_ops] in *. destruct pc as [|d|d r].
    - destruct ops as [|o rest]; [discriminate|].
      assert (Hsame : match o with Push _ _ => False | _ => True end ->
                      Some (s, mkFT FIdle rest, [o]) = Some (s', t', lg) ->
                      let q' := fst (runf (file_step true ig ov) q lg) in
                      file_ginv B s' /\ match ft_pc t' with FIndex d => file_exists d s' = true | _ => True end /\
                      exists add, (forall k, indexed k q' <-> indexed k q \/ In k add) /\
                        (forall k, indexed k s' \/ In k (match ft_pc t' with FIndex d => [gk d] | _ => [] end) <->
                                   (indexed k s \/ In k []) \/ In k add)).
      { intros Hnp H. injection H as <- <- <-. cbn [ft_pc]. rewrite runf_cons. cbn [fst runf].
        split; [exact Hg|]. split; [exact I|]. exists []. split; intro k.
        - unfold indexed. rewrite (file_step_nonpush_graph true ig ov q o Hnp). simpl. tauto.
        - simpl. tauto. }
      destruct o; try (apply Hsame; exact I).
      + (* Push *)
        destruct (Hgood (Push d c) (or_introl eq_refl)) as (Hu & Hna & Hw).
        pose proof (file_push_store_graph_same true ig ov s d c) as Gs.
        pose proof (file_push_store_graph_same true ig ov q d c) as Gq.
        pose proof (file_push_store_snd_core true ig ov s q d c Hc) as Hsnd.
        pose proof (push_store_none_exists true ig ov s d c) as Exs.
        pose proof (push_store_none_exists true ig ov q d c) as Exq.
        pose proof (file_step_push_split true ig ov q d c) as Hsp.
        pose proof (file_step_G B ig ov q (Push d c) Hna Hw HG) as HG'.
        pose proof (unt_push_store true ig ov q d c Hu Huq) as Hu1.
        destruct (file_push_store true ig ov s d c) as [s1 [x|]]; cbn [fst snd] in *;
          intro H; injection H as <- <- <-; cbn [ft_pc]; rewrite runf_cons; cbn [fst runf];
          (split; [unfold file_ginv; rewrite Gs; exact Hg|]).
        * split; [exact I|]. exists []. split; intro k; [|unfold indexed; rewrite Gs; simpl; tauto].
          rewrite Hsp. destruct (file_push_store true ig ov q d c) as [q1 [y|]]; cbn [fst snd] in *; [|discriminate].
          unfold indexed. rewrite Gq. simpl. tauto.
        * split; [now apply Exs|]. exists [gk d]. split; intro k; [|unfold indexed; rewrite Gs; simpl; intuition].
          rewrite Hsp in *. destruct (file_push_store true ig ov q d c) as [q1 [y|]]; cbn [fst snd] in *; [discriminate|].
          assert (Hi1 : file_inv q1).
          { eapply file_inv_core; [|exact (fg_inv _ _ HG')]. symmetry. now apply fcore_index_after. }
          rewrite (index_after_nodes true ov d q1 k Hi1 (Exq eq_refl)). unfold indexed. rewrite Gq. simpl. intuition.
      + (* Tag *)
        destruct r as [m|g|]; try (apply Hsame; exact I);
          (destruct (file_exists d s); [|apply Hsame; exact I];
           intro H; injection H as <- <- <-; cbn [ft_pc fst runf];
           split; [exact Hg|]; split; [exact I|]; exists []; split; intro k; simpl; tauto).
    - (* FIndex *)
      intro H. injection H as <- <- <-. cbn [ft_pc fst runf].
      assert (Hi : file_inv s) by (eapply file_inv_core; [exact Hc | exact (fg_inv _ _ HG)]).
      assert (Hb : file_B B s) by (eapply file_B_core; [exact Hc | exact (fg_B _ _ HG)]).
      split; [exact (fg_g _ _ (file_index_after_G B ov d s (mkFG B s Hi Hb Hg)))|].
      split; [exact I|]. exists []. split; intro k; [simpl; tauto|].
      rewrite (index_after_nodes true ov d s k Hi Hix). simpl. intuition.
    - (* FTag2 *)
      intro H. injection H as <- <- <-. cbn [ft_pc]. rewrite runf_cons. cbn [fst runf].
      split; [exact Hg|]. split; [exact I|]. exists []. split; intro k; [|simpl; tauto].
      unfold indexed. rewrite (file_step_nonpush_graph true ig ov q (Tag d r) I). simpl. tauto.
  Qed.

  Record fginv (cf : fconf) : Prop := mkFGI {
    fgi_g : file_ginv B (fc_store cf);
    fgi_nodes : forall k, (indexed k (fc_store cf) \/ In k (flat_map fpending (fc_threads cf))) <->
                          indexed k (seq_fstate true ig ov (map snd (fc_log cf)));
    fgi_ix : Forall (fthread_ix (fc_store cf)) (fc_threads cf) }.

  Lemma fginv_init progs : fginv (fconf_init progs).
  Proof.
    constructor; simpl.
    - exact (file_ginv_init B).
    - intro k. assert (E : flat_map fpending (map (fun p => mkFT FIdle p) progs) = []).
      { induction progs as [|p ps IH]; simpl; auto. }
      rewrite E. simpl. tauto.
    - apply Forall_forall. intros t Ht. apply in_map_iff in Ht as (p & <- & _). exact I.
  Qed.

  Lemma fginv_step progs cf i :
    Forall good_op (concat progs) -> finv true ig ov progs cf -> fginv cf -> fginv (fconf_step true ig ov cf i).
  Proof.
    intros Hall Hinv Hgi. unfold fconf_step.
    destruct (nth_error (fc_threads cf) i) as [t|] eqn:En; [|exact Hgi].
    destruct (fthread_step true ig ov (fc_store cf) t) as [[[s' t'] lg]|] eqn:Es; [|exact Hgi].
    apply nth_error_split in En as (l1 & l2 & Hth & Hlen). subst i.
    destruct cf as [s ths L]. cbn [fc_store fc_threads fc_log] in *. subst ths.
    rewrite upd_nth_split.
    destruct Hinv as [Hperm Hord Hcore Hu Hthr]. destruct Hgi as [Hg Hn Hix]. cbn [fc_store fc_threads fc_log] in *.
    rewrite Forall_forall in Hall.
    assert (HallL : forall o, In o (map snd L) -> good_op o).
    { intros o Ho. apply Hall. eapply Permutation_in; [exact Hperm|]. apply in_or_app. now left. }
    assert (Hallt : forall o, In o (fremaining t) -> good_op o).
    { intros o Ho. apply Hall. eapply Permutation_in; [exact Hperm|]. apply in_or_app. right.
      rewrite flat_map_app. apply in_or_app. right. simpl. apply in_or_app. now left. }
    assert (HGq : file_G B (seq_fstate true ig ov (map snd L))).
    { apply file_run_G; [| |exact (file_G_init B)]; apply Forall_forall; intros o Ho; apply (HallL o Ho). }
    assert (Huq : file_unt (seq_fstate true ig ov (map snd L))) by (eapply file_unt_core; [exact Hcore | exact Hu]).
    assert (Hokt : fthread_ok s t).
    { rewrite Forall_forall in Hthr. apply Hthr. apply in_or_app. right. now left. }
    assert (Hixt : fthread_ix s t).
    { rewrite Forall_forall in Hix. apply Hix. apply in_or_app. right. now left. }
    destruct (fstep_facts true ig ov s t s' t' lg Hokt Hu (fun o Ho => proj1 (Hallt o Ho)) Es) as (_ & Hle & _).
    destruct (fgstep s _ t s' t' lg Hcore HGq Huq Hg Hixt Hallt Es) as (Hg' & Hix' & add & Hq' & Hs').
    constructor; cbn [fc_store fc_threads fc_log].
    - exact Hg'.
    - intro k. rewrite map_app, map_snd_pair. unfold seq_fstate. rewrite runf_app.
      fold (seq_fstate true ig ov (map snd L)). rewrite (Hq' k), <- (Hn k).
      rewrite !flat_map_app. cbn [flat_map]. rewrite !in_app_iff. specialize (Hs' k). tauto.
    - apply Forall_forall. intros x Hx. rewrite Forall_forall in Hix.
      apply in_app_or in Hx as [Hx|[<-|Hx]]; auto;
        (eapply fthread_ix_mono; [exact Hle|]; apply Hix; apply in_or_app; auto). right. now right.
  Qed.

  Lemma fginv_run progs sched :
    Forall good_op (concat progs) ->
    forall cf, finv true ig ov progs cf -> fginv cf ->
    finv true ig ov progs (fconf_run true ig ov cf sched) /\ fginv (fconf_run true ig ov cf sched).
  Proof.
    intro Hall. assert (Hun : Forall untitled (concat progs)).
    { apply Forall_forall. intros o Ho. rewrite Forall_forall in Hall. exact (proj1 (Hall o Ho)). }
    unfold fconf_run. induction sched as [|i sched IH]; intros cf H1 H2; [split; assumption|].
    simpl. apply IH; [now apply finv_step | now apply (fginv_step progs)].
  Qed.

  (* Every interleaving of the file store's atomic steps (store ; index as separate steps), run
     to quiescence, ends with the core state AND the Predecessors answers of the sequential
     execution of the same operations in commit order, which keeps program order. *)
  Theorem quiescent_serialisable_file_graph (progs : list (list op)) (sched : list nat) :
    Forall good_op (concat progs) ->
    let cf := fconf_run true ig ov (fconf_init progs) sched in
    fquiescent cf = true ->
    exists order : list (nat * op),
      Permutation (map snd order) (concat progs) /\
      (forall i, log_of i order = nth i progs []) /\
      let q := fst (runf (file_step true ig ov) file_init (map snd order)) in
      fcore (fc_store cf) = fcore q /\
      forall n k, In k (map gk (g_predecessors n (f_graph (fc_store cf)))) <->
                  In k (map gk (g_predecessors n (f_graph q))).
  Proof.
    intros Hall cf Hq.
    destruct (fginv_run progs sched Hall _ (finv_init true ig ov progs) (fginv_init progs)) as [Hinv Hgi].
    fold cf in Hinv, Hgi. destruct Hinv as [Hperm Hord Hcore Hu Hthr]. destruct Hgi as [Hg Hn _].
    unfold fquiescent in Hq.
    assert (Hrem : flat_map fremaining (fc_threads cf) = []).
    { clear - Hq. induction (fc_threads cf) as [|t ths IH]; simpl in *; auto.
      apply andb_true_iff in Hq as [A C]. rewrite (fthread_done_spec t A). now apply IH. }
    assert (Hpend : flat_map fpending (fc_threads cf) = []).
    { clear - Hq. induction (fc_threads cf) as [|t ths IH]; simpl in *; auto.
      apply andb_true_iff in Hq as [A C]. rewrite (IH C), app_nil_r.
      unfold fthread_done in A. unfold fpending. destruct (ft_pc t); auto; discriminate. }
    exists (fc_log cf). split; [|split].
    - rewrite Hrem, app_nil_r in Hperm. exact Hperm.
    - intro i. specialize (Hord i).
      assert (E : match nth_error (fc_threads cf) i with Some t => fremaining t | None => [] end = []).
      { destruct (nth_error (fc_threads cf) i) as [t|] eqn:E; auto.
        rewrite forallb_forall in Hq. apply nth_error_In in E. apply Hq in E. now apply fthread_done_spec. }
      rewrite E, app_nil_r in Hord. exact Hord.
    - cbn zeta. fold (seq_fstate true ig ov (map snd (fc_log cf))). split; [exact Hcore|].
      intros n k.
      assert (HGq : file_G B (seq_fstate true ig ov (map snd (fc_log cf)))).
      { rewrite Forall_forall in Hall.
        apply file_run_G; [| |exact (file_G_init B)]; apply Forall_forall; intros o Ho;
          (assert (X : good_op o) by (apply Hall; eapply Permutation_in; [exact Hperm|]; apply in_or_app; now left));
          apply X. }
      rewrite (g_predecessors_spec _ _ _ _ Hg), (g_predecessors_spec _ _ _ _ (fg_g _ _ HGq)).
      assert (Hm : mem gkey_eqb k (map fst (g_nodes (f_graph (fc_store cf)))) =
                   mem gkey_eqb k (map fst (g_nodes (f_graph (seq_fstate true ig ov (map snd (fc_log cf))))))).
      { specialize (Hn k). rewrite Hpend in Hn. unfold indexed in Hn. simpl in Hn.
        destruct (mem gkey_eqb k (map fst (g_nodes (f_graph (fc_store cf)))));
          destruct (mem gkey_eqb k (map fst (g_nodes (f_graph (seq_fstate true ig ov (map snd (fc_log cf)))))));
          auto; [symmetry; apply Hn; now left | destruct (proj2 Hn eq_refl) as [X|[]]; exact X]. }
      unfold S_file. rewrite Hm. reflexivity.
  Qed.
End FileConcGraph.

(* non-vacuity: two goroutines push a layer and a manifest listing it; a schedule that runs
   both store steps before either index step is quiescent and Predecessors lists the manifest *)
Definition fgc_man := mkDesc 1 9 20 0.
Definition fgc_man_blob := mkBlob 9 20 [(6, 1, 5)] 9 [(6, 1, 5)].
Definition fgc_progs : list (list op) := [ [Push w_named w_good; Preds w_layer]; [Push fgc_man fgc_man_blob] ].
Definition fgc_sched : list nat := [1; 0; 1; 0; 0]%nat.
Lemma fgc_good : Forall (good_op fgx_B) (concat fgc_progs).
Proof.
  repeat constructor; try reflexivity; try (intros _; reflexivity); try (intros k n []).
Qed.
Lemma fgc_quiescent :
  let cf := fconf_run true false false (fconf_init fgc_progs) fgc_sched in
  fquiescent cf = true /\ map gk (g_predecessors w_layer (f_graph (fc_store cf))) = [(1, 9, 20)].
Proof. vm_compute. split; reflexivity. Qed.
