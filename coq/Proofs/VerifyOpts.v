(* file.Store options.  With DisableOverwrite the property holds for ALL names, aliases
   included: a path that exists is never created again, so nothing visible is clobbered. *)
From Oras Require Import Base.Prelude Generated.GC05 Model.Verify Proofs.Verify Proofs.VerifyNames.

Ltac refused := let E := fresh in intro E; inversion E; subst; split; [assumption|intros _; split; [discriminate|auto]].

Section Opts.
  Variable H : str -> str -> str.

  Lemma file_push_opt_default comb fuel s name d evs :
    file_push_opt H comb true default_opts fuel s name d evs = file_push_name H comb true fuel s name d evs.
  Proof. unfold file_push_opt, file_push_name, default_opts. destruct name; reflexivity. Qed.

  Lemma file_push_opt_do comb o fuel s name d evs e s' :
    file_ok H s -> o_disable_overwrite o = true ->
    file_push_opt H comb true o fuel s name d evs = (e, s') ->
    file_ok H s' /\
    (name <> [] ->
       (e = None ->
          exists bs, file_fetch s' name d = Some bs /\ file_exists s' name d = true /\
                     matches_desc H (d_dg d) (d_sz d) bs /\ exists rest, stream evs = bs ++ rest) /\
       (e <> None -> forall name' d', file_exists s' name' d' = file_exists s name' d' /\
                                      file_fetch s' name' d' = file_fetch s name' d')).
  Proof.
    intros Ok Do. unfold file_push_opt. destruct name as [|c n0].
    - (* unnamed *)
      destruct (o_ignore_noname o); [intro E; inversion E; subst; split; [exact Ok|congruence]|].
      destruct Ok as [Ok1 Ok2].
      destruct (o_fb_limit o) as [l|].
      + destruct (limited_push (mem_push H comb true fuel) l (f_fb s) d evs) as [e0 fb'] eqn:El.
        intro E; inversion E; subst. split; [|congruence]. split; auto. simpl.
        apply limited_push_spec in El as [(_ & ->)|(_ & Ep)]; auto. eapply mem_push_ok; eauto.
      + destruct (mem_push H comb true fuel (f_fb s) d (mkBase evs None)) as [e0 fb'] eqn:Ep.
        intro E; inversion E; subst. split; [|congruence]. split; auto. simpl. eapply mem_push_ok; eauto.
    - remember (c :: n0) as name eqn:Hn.
      destruct (name_in name (f_names s)); [refused|].
      destruct (resolve_name name) as [path|]; [|refused].
      rewrite Do. cbn [andb].
      destruct (assoc_get (f_files s) path) eqn:Gf; [refused|].
      intro E.
      assert (Pf : path_free s path).
      { intros dg p Gp. destruct (proj1 Ok _ _ Gp) as (bs & Fb & _).
        destruct (str_eqb path p) eqn:Q; auto. apply str_eqb_spec in Q. subst p. congruence. }
      destruct (file_push_spec H comb fuel s name path d evs e s' Ok (fun _ => Pf) E) as (A & B & C).
      split; [exact A|]. intros Nn. split; [|exact C].
      intro En. destruct (B En) as (bs & F1 & F2 & _ & _ & F5). exists bs.
      destruct (F5 (or_introl Nn)) as [G1 G2]. auto.
  Qed.

  Lemma file_reach_do_ok s : file_reach_do H s -> file_ok H s.
  Proof.
    induction 1 as [|o comb fuel s name d evs e s' R IH Do E].
    - split; intros d bs; discriminate.
    - exact (proj1 (file_push_opt_do comb o fuel s name d evs e s' IH Do E)).
  Qed.

  (* DisableOverwrite: the full statement for every name *)
  Theorem file_disable_overwrite comb o fuel s name d evs e s' :
    file_reach_do H s -> o_disable_overwrite o = true -> name <> [] ->
    file_push_opt H comb true o fuel s name d evs = (e, s') ->
    (e = None ->
       exists bs, file_fetch s' name d = Some bs /\ file_exists s' name d = true /\
                  matches_desc H (d_dg d) (d_sz d) bs /\ exists rest, stream evs = bs ++ rest) /\
    (e <> None -> forall name' d', file_exists s' name' d' = file_exists s name' d' /\
                                   file_fetch s' name' d' = file_fetch s name' d') /\
    (forall name' d' bs, file_fetch s' name' d' = Some bs ->
                         d_dg d' = digest_of H (alg_of (d_dg d')) bs /\ valid_digest (d_dg d') = true).
  Proof.
    intros R Do Nn E.
    destruct (file_push_opt_do comb o fuel s name d evs e s' (file_reach_do_ok s R) Do E) as (A & B).
    destruct (B Nn) as [B1 B2]. split; [exact B1|]. split; [exact B2|].
    intros name' d' bs. apply file_fetch_ok. exact A.
  Qed.

  (* IgnoreNoName: an unnamed push is discarded: nil, and nothing changes *)
  Theorem file_ignore_noname comb o fuel s d evs :
    o_ignore_noname o = true -> file_push_opt H comb true o fuel s [] d evs = (None, s).
  Proof. intro I. unfold file_push_opt. rewrite I. reflexivity. Qed.
End Opts.

Lemma file_options (H : str -> str -> str) comb fuel s name d evs :
    file_push_opt H comb true default_opts fuel s name d evs = file_push_name H comb true fuel s name d evs /\
    (forall o, o_ignore_noname o = true -> file_push_opt H comb true o fuel s [] d evs = (None, s)).
Proof.
  split; [apply file_push_opt_default|]. intros o I. apply file_ignore_noname; auto.
Qed.
