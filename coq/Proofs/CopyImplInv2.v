(* CopyImplInv2: structural invariants, part 2 (context ancestry, ranks, wait lists). *)
From Coq Require Import List Arith Bool Lia.
From Oras Require Import Model.CopyImpl Proofs.CopyImplBase Proofs.CopyImplInv.
Import ListNotations.

Section Proofs.
Variable succ : nat -> list nat.
Variable K : nat.
Variable ext : bool.
Variable roots : list nat.
Hypothesis succ_dec : forall n m, In m (succ n) -> m < n.
Local Notation Reachable := (Reachable succ K ext roots).
Local Notation Inv1 := (Inv1 K).
Local Notation Inv2 := (Inv2 succ).
Local Notation I_wait := (I_wait succ).

Ltac prep Hanc Hwait :=
  fsimp; rewrite ?cf_cancelled, ?upd_same, ?orb_true_iff, ?existsb_eqb_in in *; upd_cases; cbn [f_parent f_anc f_kind f_all f_items f_pc f_cancelled t_node t_kind t_frame t_pc t_holds set_pc set_pc_holds set_fpc set_cancelled is_fin is_ret In] in *; fsimp; rewrite ?cf_cancelled, ?upd_same, ?orb_true_iff, ?existsb_eqb_in in *; upd_cases;
  cbn [f_parent f_anc f_kind f_all f_items f_pc f_cancelled t_node t_kind t_frame t_pc t_holds set_pc set_pc_holds set_fpc set_cancelled is_fin is_ret In] in *; sat; fpc_rw; extra; cbn in *;
  repeat match goal with
         | H : f_parent (frames ?s ?f) = Some ?p |- _ =>
           lazymatch goal with
           | _ : f_cancelled (frames s (t_frame (tasks s p))) = true -> f_cancelled (frames s f) = true |- _ => fail
           | _ => idtac
           end;
           destruct (Hanc f p H)
         end;
  repeat match goal with
         | Ht : I_tframe ?s, H : context [t_frame (tasks ?s ?p)] |- _ =>
           lazymatch goal with | _ : t_frame (tasks s p) < nframes s |- _ => fail | _ => idtac end;
           pose proof (Ht p)
         end;
  try match goal with H : t_pc (tasks _ ?t) = TWait ?l |- _ /\ _ => destruct (Hwait t l H) as [? [? ?]] end;
  unfold wait_pc, wait_list in *.

Lemma inv2_anc s l s' : Inv1 s -> Inv2 s -> step succ s l = Some s' ->
  I_ancself s' /\ I_anc s' /\ I_wait s'.
Proof.
  intros [Hwf Hperm Hmust Hmay] [Hwff Hnf Htf Hunf Hingo Hpar Htop Hself Hanc Hrank Hwait] Hs.
  red in Hnf.
  step_cases l Hs.
  all: flive_all.
  all: try (live t).
  all: (split; [|split]); red; intros; cbn [tasks ntasks free frames nframes tracker failed top_cancelled] in *.
  all: fsimp.
  all: pose proof Hself as Hself'; red in Hself'.
  all: pre.
  all: try (timeout 20 solve [ prep Hanc Hwait;
       repeat match goal with H : context [match ?x with _ => _ end] |- _ => destruct x eqn:? end;
       intuition (try congruence; try lia; eauto) ]).
  all: prep Hanc Hwait.
  all: try solve [intuition (try congruence; try lia; eauto)].
  all: try solve [apply Hself'; lia].
  all: try solve [destruct l0; inversion H0; subst; intuition (try congruence; eauto); apply H6; right; auto].
Qed.

Lemma inv2_rank s l s' : Inv1 s -> Inv2 s -> step succ s l = Some s' -> I_rank s'.
Proof.
  intros [Hwf Hperm Hmust Hmay] [Hwff Hnf Htf Hunf Hingo Hpar Htop Hself Hanc Hrank Hwait] Hs.
  red in Hnf.
  step_cases l Hs.
  all: flive_all.
  all: try (live t).
  all: red; intros; cbn [tasks ntasks free frames nframes tracker failed top_cancelled] in *.
  all: fsimp.
  all: pre.
  all: split; intros.
  all: try (timeout 20 solve [ prep Hanc Hwait;
       repeat match goal with H : f_parent (frames _ ?f) = Some ?p |- _ => destruct (Hrank f p H); clear H end;
       unfold trank, crank, go_items in *; cbn in *;
       repeat match goal with H : context [match ?x with _ => _ end] |- _ => destruct x eqn:? end;
       intuition (try congruence; try lia; eauto) ]).
  all: prep Hanc Hwait.
  all: repeat match goal with H : f_parent (frames _ ?f) = Some ?p |- _ => destruct (Hrank f p H); clear H end.
  all: unfold trank, crank, go_items in *; cbn in *.
  all: try solve [intuition (try congruence; try lia; eauto)].
  all: try solve [match goal with H6 : forall i, In i (f_items _) -> _ |- _ => apply H6; rewrite Heql; cbn; auto end].
  all: destruct (t_kind (tasks s t)) eqn:?; cbn in *;
    try match goal with H : In _ (succ _) |- _ => apply succ_dec in H end; intuition lia.
Qed.

Lemma inv2_step s l s' : Inv1 s -> Inv2 s -> step succ s l = Some s' -> Inv2 s'.
Proof.
  intros H1 H2 Hs.
  destruct (inv2_wff succ K s l s' H1 H2 Hs) as [? [? ?]].
  destruct (inv2_struct succ K s l s' H1 H2 Hs) as [? [? [? ?]]].
  destruct (inv2_anc s l s' H1 H2 Hs) as [? [? ?]].
  pose proof (inv2_rank s l s' H1 H2 Hs).
  constructor; auto.
Qed.

Lemma inv12_reach s : Reachable s -> Inv1 s /\ Inv2 s.
Proof.
  induction 1 as [|s l s' Hr [I1 I2] Hs].
  - split. apply inv1_init. apply inv2_init.
  - split. eapply inv1_step; eauto. eapply inv2_step; eauto.
Qed.

End Proofs.
