(* C14 — structural invariant of the channel-level Merge system (Model/MergeFine.v), for every
   interleaving of lock regions, channel operations and HTTP exchanges. *)
From Oras Require Import Base.Prelude Model.Referrers Proofs.Referrers Model.Merge Proofs.Merge Model.MergeFine.
From Coq Require Import Lia.

Definition fmain (p : fpc) : bool :=
  match p with FPrep | FPrepared _ | FNeedPut _ _ | FNeedDel _ _ | FNotify _ _ | FSwap _ => true | _ => false end.
Definition fwindow (p : fpc) : bool := match p with FNotify _ _ | FSwap _ => true | _ => false end.
Definition fpre (p : fpc) : bool :=
  match p with FPrep | FPrepared _ | FNeedPut _ _ | FNeedDel _ _ => true | _ => false end.
Definition fpost (p : fpc) : bool :=
  match p with FNeedPut _ _ | FNeedDel _ _ | FNotify _ _ | FSwap _ => true | _ => false end.
Definition fholding (p : fpc) : bool := match p with FIdle | FDone _ => false | _ => true end.
Definition fbatch (s : fstate) : list tid := map fst (f_items s).
Definition fres (p : fpc) : option result := match p with FNotify r _ | FSwap r => Some r | _ => None end.

Record InvF (s : fstate) : Prop := {
  f_it : forall t c, In (t, c) (f_items s) ->
      f_pcs s t = FWait (f_gen s) \/ fmain (f_pcs s t) = true \/
      ((exists tm, fwindow (f_pcs s tm) = true) /\ exists r, f_pcs s t = FRet r \/ f_pcs s t = FDone r);
  f_it_nd : NoDup (fbatch s);
  f_pe : forall t c, In (t, c) (f_pending s) -> f_pcs s t = FWait (S (f_gen s)) /\ ~ In t (fbatch s);
  f_pe_nd : NoDup (map fst (f_pending s));
  f_mn : forall t, fmain (f_pcs s t) = true -> In t (fbatch s);
  f_mu : forall t1 t2, fmain (f_pcs s t1) = true -> fmain (f_pcs s t2) = true -> t1 = t2;
  f_wt : forall t g, f_pcs s t = FWait g ->
      (g <= S (f_gen s))%nat /\ (g = f_gen s -> In t (fbatch s)) /\ (g = S (f_gen s) -> In t (map fst (f_pending s)));
  f_tok : fbuf (f_chans s (f_gen s)) = Some FMain ->
      f_items s <> [] /\ f_committed s = false /\ forall t, fmain (f_pcs s t) = false;
  f_tom : f_items s <> [] -> fbuf (f_chans s (f_gen s)) = Some FMain \/ exists t, fmain (f_pcs s t) = true;
  f_emp : f_items s = [] -> f_committed s = false /\ f_pending s = [];
  f_com : forall t, fpost (f_pcs s t) = true -> f_committed s = true;
  f_qt : forall t, fpre (f_pcs s t) = true ->
      fbuf (f_chans s (f_gen s)) = None /\ fclosed (f_chans s (f_gen s)) = false /\ f_verdict s (f_gen s) = None;
  f_fut : forall g, (f_gen s < g)%nat ->
      fbuf (f_chans s g) = None /\ fclosed (f_chans s g) = false /\ f_verdict s g = None;
  f_vb : forall g r, fbuf (f_chans s g) = Some (FRes r) -> f_verdict s g = Some r;
  f_vc : forall g, fclosed (f_chans s g) = true -> f_verdict s g = Some ROk;
  f_vm : forall g, fbuf (f_chans s g) = Some FMain -> g = f_gen s;
  f_vw : forall t r, fres (f_pcs s t) = Some r -> f_verdict s (f_gen s) = Some r;
  f_vn : forall r, f_verdict s (f_gen s) = Some r -> exists t, fres (f_pcs s t) = Some r;
  f_pl : exists hs, NoDup hs /\ (forall t, In t hs <-> fholding (f_pcs s t) = true) /\
      match f_pool s with None => hs = [] | Some rc => rc = length hs /\ hs <> [] end
}.

Lemma invF_init r0 st0 : InvF (finit r0 st0).
Proof.
  constructor; simpl; intros; try discriminate; try tauto; try (now constructor); auto.
  exists []. repeat split; try constructor; simpl; try tauto; discriminate.
Qed.

Ltac fsolve :=
  intros;
  repeat match goal with
         | H : context [upd _ ?k _ ?x] |- _ => tcase x k
         | |- context [upd _ ?k _ ?x] => tcase x k
         end;
  simpl in *; inst; fin.

Lemma fmain_holding p : fmain p = true -> fholding p = true.
Proof. destruct p; simpl; congruence. Qed.
Lemma fwindow_main p : fwindow p = true -> fmain p = true.
Proof. destruct p; simpl; congruence. Qed.
Lemma fpre_main p : fpre p = true -> fmain p = true.
Proof. destruct p; simpl; congruence. Qed.
Lemma fpost_main p : fpost p = true -> fmain p = true.
Proof. destruct p; simpl; congruence. Qed.
Lemma fres_window p r : fres p = Some r -> fwindow p = true.
Proof. destruct p; simpl; congruence. Qed.

Lemma f_member s t : InvF s -> In t (fbatch s) -> fholding (f_pcs s t) = true \/ (exists tm, fwindow (f_pcs s tm) = true).
Proof.
  intros I Hin. unfold fbatch in Hin. apply in_map_iff in Hin as ((t', c) & E & Hin). simpl in E. subst t'.
  destruct (f_it s I t c Hin) as [H|[H|[H _]]]; auto.
  - left. now rewrite H.
  - left. now apply fmain_holding.
Qed.

Lemma fpool_none s : InvF s -> f_pool s = None ->
  (forall t, fholding (f_pcs s t) = false) /\ f_items s = [] /\ f_pending s = [].
Proof.
  intros I Hp. destruct (f_pl s I) as (hs & _ & Hin & Hm). rewrite Hp in Hm. subst hs.
  assert (Hh : forall t, fholding (f_pcs s t) = false).
  { intro t. destruct (fholding (f_pcs s t)) eqn:E; auto. apply Hin in E. destruct E. }
  assert (Hi : f_items s = []).
  { destruct (f_items s) as [|[t c] l] eqn:E; auto. exfalso.
    assert (Hb : In t (fbatch s)) by (unfold fbatch; rewrite E; now left).
    destruct (f_member s t I Hb) as [H|(tm & H)].
    - now rewrite Hh in H.
    - apply fwindow_main, fmain_holding in H. now rewrite Hh in H. }
  split; auto. split; auto. now destruct (f_emp s I Hi).
Qed.

Lemma not_in_fbatch s t : InvF s -> fholding (f_pcs s t) = false -> ~ In t (fbatch s) \/ (exists tm, fwindow (f_pcs s tm) = true).
Proof.
  intros I H. destruct (in_dec Nat.eq_dec t (fbatch s)) as [Hin|]; auto.
  destruct (f_member s t I Hin) as [E|E]; auto. congruence.
Qed.

Lemma ex_keep (P : fpc -> bool) (f : tid -> fpc) t p :
  P (f t) = false \/ P p = true -> (exists x, P (f x) = true) -> exists x, P (upd f t p x) = true.
Proof.
  intros Hc (x & H). destruct (Nat.eq_dec x t) as [->|Hne].
  - destruct Hc as [Hc|Hc]; [congruence|]. exists t. now rewrite upd_eq.
  - exists x. now rewrite upd_neq.
Qed.

Lemma ex_res_keep (f : tid -> fpc) t p r :
  fres (f t) = None \/ fres p = Some r -> (exists x, fres (f x) = Some r) -> exists x, fres (upd f t p x) = Some r.
Proof.
  intros Hc (x & H). destruct (Nat.eq_dec x t) as [->|Hne].
  - destruct Hc as [Hc|Hc]; [congruence|]. exists t. now rewrite upd_eq.
  - exists x. now rewrite upd_neq.
Qed.

(* the stepping thread t is not (and does not become) a member-like state: f_it is kept *)
Lemma it_keep s t p :
  (forall t0 c0, In (t0, c0) (f_items s) ->
      f_pcs s t0 = FWait (f_gen s) \/ fmain (f_pcs s t0) = true \/
      ((exists tm, fwindow (f_pcs s tm) = true) /\ exists r, f_pcs s t0 = FRet r \/ f_pcs s t0 = FDone r)) ->
  (fwindow (f_pcs s t) = false \/ fwindow p = true) ->
  (In t (fbatch s) -> p = FWait (f_gen s) \/ fmain p = true \/
       ((exists tm, fwindow (upd (f_pcs s) t p tm) = true) /\ exists r, p = FRet r \/ p = FDone r)) ->
  forall t0 c0, In (t0, c0) (f_items s) ->
      upd (f_pcs s) t p t0 = FWait (f_gen s) \/ fmain (upd (f_pcs s) t p t0) = true \/
      ((exists tm, fwindow (upd (f_pcs s) t p tm) = true) /\ exists r, upd (f_pcs s) t p t0 = FRet r \/ upd (f_pcs s) t p t0 = FDone r).
Proof.
  intros H Hw Ht t0 c0 Hin. destruct (Nat.eq_dec t0 t) as [->|Hne].
  - rewrite upd_eq. apply Ht. unfold fbatch. apply in_map_iff. exists (t, c0). auto.
  - rewrite upd_neq by auto. destruct (H t0 c0 Hin) as [A|[A|[A B]]]; auto.
    right; right. split; auto. now apply ex_keep.
Qed.

Ltac poolF t :=
  match goal with Hp : exists hs, NoDup hs /\ _ |- _ =>
    let hs := fresh "hs" in let A := fresh in let B := fresh in let C := fresh in
    destruct Hp as (hs & A & B & C); exists hs;
    split; [assumption|split; [|assumption]];
    let x := fresh "x" in intro x; destruct (Nat.eq_dec x t) as [->|?];
    [rewrite upd_eq; rewrite B; match goal with Hq : f_pcs _ t = _ |- _ => rewrite Hq end; simpl; tauto
    |rewrite upd_neq by assumption; apply B] end.


Ltac dI I := destruct I as [f_it0 f_it_nd0 f_pe0 f_pe_nd0 f_mn0 f_mu0 f_wt0 f_tok0 f_tom0 f_emp0 f_com0 f_qt0 f_fut0 f_vb0 f_vc0 f_vm0 f_vw0 f_vn0 f_pl0].
