(* C14 — structural invariant of the channel-level Merge system (Model/MergeFine.v), for every
   interleaving of lock regions, channel operations and HTTP exchanges. *)
From Oras Require Import Base.Prelude Model.Referrers Proofs.Referrers Model.Merge Proofs.Merge Model.MergeFine.
From Coq Require Import Lia.

Definition fmain (p : fpc) : bool :=
  match p with FPrep | FPrepared _ | FNeedPut _ _ | FNeedDel _ _ | FNotify _ _ | FSwap _ => true | _ => false end.
Definition fwindow (p : fpc) : bool := match p with FNotify _ _ | FSwap _ => true | _ => false end.
Definition fpre (p : fpc) : bool :=
  match p with FPrep | FPrepared _ | FNeedPut _ _ | FNeedDel _ _ => true | _ => false end.
Definition fpost (p : fpc) : bool :=
  match p with FNeedPut _ _ | FNeedDel _ _ | FNotify _ _ | FSwap _ => true | _ => false end.
Definition fholding (p : fpc) : bool := match p with FIdle | FDone _ => false | _ => true end.
Definition fbatch (s : fstate) : list tid := map fst (f_items s).
Definition fres (p : fpc) : option result := match p with FNotify r _ | FSwap r => Some r | _ => None end.

Record InvF (s : fstate) : Prop := {
  f_it : forall t c, In (t, c) (f_items s) ->
      f_pcs s t = FWait (f_gen s) \/ fmain (f_pcs s t) = true \/
      ((exists tm, fwindow (f_pcs s tm) = true) /\ exists r, f_pcs s t = FRet r \/ f_pcs s t = FDone r);
  f_it_nd : NoDup (fbatch s);
  f_pe : forall t c, In (t, c) (f_pending s) -> f_pcs s t = FWait (S (f_gen s)) /\ ~ In t (fbatch s);
  f_pe_nd : NoDup (map fst (f_pending s));
  f_mn : forall t, fmain (f_pcs s t) = true -> In t (fbatch s);
  f_mu : forall t1 t2, fmain (f_pcs s t1) = true -> fmain (f_pcs s t2) = true -> t1 = t2;
  f_wt : forall t g, f_pcs s t = FWait g ->
      (g <= S (f_gen s))%nat /\ (g = f_gen s -> In t (fbatch s)) /\ (g = S (f_gen s) -> In t (map fst (f_pending s)));
  f_tok : fbuf (f_chans s (f_gen s)) = Some FMain ->
      f_items s <> [] /\ f_committed s = false /\ forall t, fmain (f_pcs s t) = false;
  f_tom : f_items s <> [] -> fbuf (f_chans s (f_gen s)) = Some FMain \/ exists t, fmain (f_pcs s t) = true;
  f_emp : f_items s = [] -> f_committed s = false /\ f_pending s = [];
  f_com : forall t, fpost (f_pcs s t) = true -> f_committed s = true;
  f_qt : forall t, fpre (f_pcs s t) = true ->
      fbuf (f_chans s (f_gen s)) = None /\ fclosed (f_chans s (f_gen s)) = false /\ f_verdict s (f_gen s) = None;
  f_fut : forall g, (f_gen s < g)%nat ->
      fbuf (f_chans s g) = None /\ fclosed (f_chans s g) = false /\ f_verdict s g = None;
  f_vb : forall g r, fbuf (f_chans s g) = Some (FRes r) -> f_verdict s g = Some r;
  f_vc : forall g, fclosed (f_chans s g) = true -> f_verdict s g = Some ROk;
  f_vm : forall g, fbuf (f_chans s g) = Some FMain -> g = f_gen s;
  f_vw : forall t r, fres (f_pcs s t) = Some r -> f_verdict s (f_gen s) = Some r;
  f_vn : forall r, f_verdict s (f_gen s) = Some r -> exists t, fres (f_pcs s t) = Some r;
  f_pl : exists hs, NoDup hs /\ (forall t, In t hs <-> fholding (f_pcs s t) = true) /\
      match f_pool s with None => hs = [] | Some rc => rc = length hs /\ hs <> [] end
}.

Lemma invF_init r0 st0 : InvF (finit r0 st0).
Proof.
  constructor; simpl; intros; try discriminate; try tauto; try (now constructor); auto.
  exists []. repeat split; try constructor; simpl; try tauto; discriminate.
Qed.

Ltac fsolve :=
  intros;
  repeat match goal with
         | H : context [upd _ ?k _ ?x] |- _ => tcase x k
         | |- context [upd _ ?k _ ?x] => tcase x k
         end;
  simpl in *; inst; fin.

Lemma fmain_holding p : fmain p = true -> fholding p = true.
Proof. destruct p; simpl; congruence. Qed.
Lemma fwindow_main p : fwindow p = true -> fmain p = true.
Proof. destruct p; simpl; congruence. Qed.
Lemma fpre_main p : fpre p = true -> fmain p = true.
Proof. destruct p; simpl; congruence. Qed.
Lemma fpost_main p : fpost p = true -> fmain p = true.
Proof. destruct p; simpl; congruence. Qed.
Lemma fres_window p r : fres p = Some r -> fwindow p = true.
Proof. destruct p; simpl; congruence. Qed.

Lemma f_member s t : InvF s -> In t (fbatch s) -> fholding (f_pcs s t) = true \/ (exists tm, fwindow (f_pcs s tm) = true).
Proof.
  intros I Hin. unfold fbatch in Hin. apply in_map_iff in Hin as ((t', c) & E & Hin). simpl in E. subst t'.
  destruct (f_it s I t c Hin) as [H|[H|[H _]]]; auto.
  - left. now rewrite H.
  - left. now apply fmain_holding.
Qed.

Lemma fpool_none s : InvF s -> f_pool s = None ->
  (forall t, fholding (f_pcs s t) = false) /\ f_items s = [] /\ f_pending s = [].
Proof.
  intros I Hp. destruct (f_pl s I) as (hs & _ & Hin & Hm). rewrite Hp in Hm. subst hs.
  assert (Hh : forall t, fholding (f_pcs s t) = false).
  { intro t. destruct (fholding (f_pcs s t)) eqn:E; auto. apply Hin in E. destruct E. }
  assert (Hi : f_items s = []).
  { destruct (f_items s) as [|[t c] l] eqn:E; auto. exfalso.
    assert (Hb : In t (fbatch s)) by (unfold fbatch; rewrite E; now left).
    destruct (f_member s t I Hb) as [H|(tm & H)].
    - now rewrite Hh in H.
    - apply fwindow_main, fmain_holding in H. now rewrite Hh in H. }
  split; auto. split; auto. now destruct (f_emp s I Hi).
Qed.

Lemma not_in_fbatch s t : InvF s -> fholding (f_pcs s t) = false -> ~ In t (fbatch s) \/ (exists tm, fwindow (f_pcs s tm) = true).
Proof.
  intros I H. destruct (in_dec Nat.eq_dec t (fbatch s)) as [Hin|]; auto.
  destruct (f_member s t I Hin) as [E|E]; auto. congruence.
Qed.

Lemma ex_keep (P : fpc -> bool) (f : tid -> fpc) t p :
  P (f t) = false \/ P p = true -> (exists x, P (f x) = true) -> exists x, P (upd f t p x) = true.
Proof.
  intros Hc (x & H). destruct (Nat.eq_dec x t) as [->|Hne].
  - destruct Hc as [Hc|Hc]; [congruence|]. exists t. now rewrite upd_eq.
  - exists x. now rewrite upd_neq.
Qed.

Lemma ex_res_keep (f : tid -> fpc) t p r :
  fres (f t) = None \/ fres p = Some r -> (exists x, fres (f x) = Some r) -> exists x, fres (upd f t p x) = Some r.
Proof.
  intros Hc (x & H). destruct (Nat.eq_dec x t) as [->|Hne].
  - destruct Hc as [Hc|Hc]; [congruence|]. exists t. now rewrite upd_eq.
  - exists x. now rewrite upd_neq.
Qed.

(* the stepping thread t is not (and does not become) a member-like state: f_it is kept *)
Lemma it_keep s t p :
  (forall t0 c0, In (t0, c0) (f_items s) ->
      f_pcs s t0 = FWait (f_gen s) \/ fmain (f_pcs s t0) = true \/
      ((exists tm, fwindow (f_pcs s tm) = true) /\ exists r, f_pcs s t0 = FRet r \/ f_pcs s t0 = FDone r)) ->
  (fwindow (f_pcs s t) = false \/ fwindow p = true) ->
  (In t (fbatch s) -> p = FWait (f_gen s) \/ fmain p = true \/
       ((exists tm, fwindow (upd (f_pcs s) t p tm) = true) /\ exists r, p = FRet r \/ p = FDone r)) ->
  forall t0 c0, In (t0, c0) (f_items s) ->
      upd (f_pcs s) t p t0 = FWait (f_gen s) \/ fmain (upd (f_pcs s) t p t0) = true \/
      ((exists tm, fwindow (upd (f_pcs s) t p tm) = true) /\ exists r, upd (f_pcs s) t p t0 = FRet r \/ upd (f_pcs s) t p t0 = FDone r).
Proof.
  intros H Hw Ht t0 c0 Hin. destruct (Nat.eq_dec t0 t) as [->|Hne].
  - rewrite upd_eq. apply Ht. unfold fbatch. apply in_map_iff. exists (t, c0). auto.
  - rewrite upd_neq by auto. destruct (H t0 c0 Hin) as [A|[A|[A B]]]; auto.
    right; right. split; auto. now apply ex_keep.
Qed.

Ltac poolF t :=
  match goal with Hp : exists hs, NoDup hs /\ _ |- _ =>
    let hs := fresh "hs" in let A := fresh in let B := fresh in let C := fresh in
    destruct Hp as (hs & A & B & C); exists hs;
    split; [assumption|split; [|assumption]];
    let x := fresh "x" in intro x; destruct (Nat.eq_dec x t) as [->|?];
    [rewrite upd_eq; rewrite B; match goal with Hq : f_pcs _ t = _ |- _ => rewrite Hq end; simpl; tauto
    |rewrite upd_neq by assumption; apply B] end.

Lemma stepF_get sg s t c s' : InvF s -> fstep sg s (FEGet t c) = Some s' -> InvF s'.
Proof.
  intros I H. simpl in H.
  destruct (f_pcs s t) eqn:Hpc; try discriminate.
  destruct (is_empty (cdesc c)) eqn:Hne0; try discriminate.
  assert (Hh : fholding (f_pcs s t) = false) by (now rewrite Hpc).
  assert (Hnm : fmain (f_pcs s t) = false) by (now rewrite Hpc).
  assert (Hnw : fwindow (f_pcs s t) = false) by (now rewrite Hpc).
  assert (Hnr : fres (f_pcs s t) = None) by (now rewrite Hpc).
  assert (Hnb : In t (fbatch s) -> False).
  { intro Hin. unfold fbatch in Hin. apply in_map_iff in Hin as ((t', c0) & E & Hin). simpl in E. subst t'.
    destruct (f_it s I t c0 Hin) as [H1|[H1|[_ (r & [H1|H1])]]]; rewrite Hpc in H1; discriminate. }
  assert (Hnp : In t (map fst (f_pending s)) -> False).
  { intro Hin. apply in_map_iff in Hin as ((t', c0) & E & Hin). simpl in E. subst t'.
    destruct (f_pe s I t c0 Hin) as [H1 _]. rewrite Hpc in H1. discriminate. }
  destruct (f_pool s) as [rc|] eqn:Hpool; injection H as <-.
  - destruct I. constructor; simpl.
    all: try solve [fsolve].
    all: try solve [apply it_keep; auto; intro; tauto].
    all: try solve [intros t0 c0 Hin; assert (t0 <> t) by (intro; subst; apply Hnp; now apply in_fst in Hin);
                    rewrite upd_neq by auto; auto].
    all: try solve [intro Hx; destruct (f_tok0 Hx) as (A & B & C); repeat split; auto; intro t0; tcase t0 t; auto].
    all: try solve [intro Hx; destruct (f_tom0 Hx) as [A|A]; auto; right; apply ex_keep; auto].
    all: try solve [intros r Hx; apply ex_res_keep; auto].
    + intros t0 c0 Hin. assert (t0 <> t) by (intro; subst; apply Hnp; eapply in_fst; eauto).
      rewrite upd_neq by auto. exact (f_pe0 t0 c0 Hin).
    + destruct f_pl0 as (hs & Hnd & Hin & Hp). rewrite Hpool in Hp. destruct Hp as [-> Hp].
      exists (t :: hs). repeat split; try discriminate.
      * constructor; auto. intro Hx. apply Hin in Hx. congruence.
      * intros [<-|Hx]; [now rewrite upd_eq|]. tcase t0 t; auto. now apply Hin.
      * intro Hx. tcase t0 t; [now left|]. right. now apply Hin.
  - destruct (fpool_none s I Hpool) as (Hhold & Hi & Hpd).
    destruct (f_emp s I Hi) as (Hc & _).
    assert (Hnomain : forall t0, fmain (f_pcs s t0) = false).
    { intro t0. destruct (fmain (f_pcs s t0)) eqn:E; auto. apply fmain_holding in E. now rewrite Hhold in E. }
    destruct I. rewrite Hi, Hpd, Hc in *. constructor; simpl.
    all: try solve [fsolve].
    all: try solve [constructor].
    all: try solve [intros t0 Hx; tcase t0 t; [discriminate|]; rewrite Hnomain in Hx; discriminate].
    all: try solve [intros t0 Hx; tcase t0 t; [discriminate|]; try apply fpost_main in Hx; try apply fpre_main in Hx; rewrite Hnomain in Hx; discriminate].
    all: try solve [intro Hx; destruct (f_tok0 Hx) as (A & B & C); congruence].
    all: try solve [intros r Hx; apply ex_res_keep; auto].
    all: try solve [intros t0 g Hx; tcase t0 t; [discriminate|]; exfalso; specialize (Hhold t0); rewrite Hx in Hhold; discriminate].
    exists [t]. repeat split; try discriminate.
    * constructor; [simpl; tauto|constructor].
    * intros [<-|[]]. now rewrite upd_eq.
    * intro Hx. tcase t0 t; [now left|]. rewrite Hhold in Hx. discriminate.
Qed.

(* a step of the main caller before complete(): its pc changes within
   {Prep, Prepared, NeedPut, NeedDel}, committed may become true, the registry cell changes *)
Lemma invF_pre s t p cm r st :
  InvF s -> fpre (f_pcs s t) = true -> fpre p = true ->
  (f_committed s = true -> cm = true) -> (fpost p = true -> cm = true) ->
  InvF (mkF (f_pool s) cm (f_items s) (f_pending s) (f_gen s) (f_chans s) (upd (f_pcs s) t p) r st (f_verdict s)).
Proof.
  intros I Hm Hp Hc1 Hc2.
  assert (Hmm : fmain (f_pcs s t) = true) by now apply fpre_main.
  assert (Hpm : fmain p = true) by now apply fpre_main.
  assert (Hin : In t (fbatch s)) by now apply (f_mn s I).
  assert (Hni : f_items s <> []) by (unfold fbatch in Hin; destruct (f_items s); [destruct Hin|discriminate]).
  assert (Hu : forall t0, fmain (f_pcs s t0) = true -> t0 = t) by (intros; eapply (f_mu s I); eauto).
  assert (Hnw : fwindow (f_pcs s t) = false) by (destruct (f_pcs s t); try discriminate; reflexivity).
  assert (Hnw' : fwindow p = false) by (destruct p; try discriminate; reflexivity).
  assert (Hnr : fres (f_pcs s t) = None) by (destruct (f_pcs s t); try discriminate; reflexivity).
  assert (Hnr' : fres p = None) by (destruct p; try discriminate; reflexivity).
  destruct (f_qt s I t Hm) as (Q1 & Q2 & Q3).
  destruct I. constructor; simpl.
  all: try solve [fsolve].
  all: try solve [apply it_keep; auto].
  all: try solve [intros t0 c0 Hin0; destruct (f_pe0 t0 c0 Hin0) as [A B]; split; auto; tcase t0 t; auto; rewrite A in Hmm; discriminate].
  all: try solve [intros t0 Hx; tcase t0 t; auto].
  all: try solve [intros t1 t2 H1 H2; tcase t1 t; tcase t2 t; auto; symmetry; auto].
  all: try solve [intros t0 g Hx; tcase t0 t; [rewrite Hx in Hpm; discriminate|eauto]].
  all: try solve [intro Hx; congruence].
  all: try solve [intros _; right; exists t; rewrite upd_eq; exact Hpm].
  all: try solve [intro Hx; exfalso; apply Hni; exact Hx].
  all: try solve [intros t0 Hx; tcase t0 t; auto; apply Hc1; eapply f_com0; eauto].
  all: try solve [intros t0 r0 Hx; tcase t0 t; [congruence|eauto]].
  all: try solve [intros r0 Hx; congruence].
  destruct f_pl0 as (hs & A & B & C). exists hs. split; auto. split; auto.
  intro x. tcase x t; [rewrite B, (fmain_holding _ Hmm), (fmain_holding _ Hpm); tauto | apply B].
Qed.

(* the main caller learns the result of its batch and enters complete() *)
Lemma invF_enter s t r cm rg st :
  InvF s -> fpre (f_pcs s t) = true -> fpost (f_pcs s t) = true \/ cm = true -> (f_committed s = true -> cm = true) ->
  InvF (mkF (f_pool s) cm (f_items s) (f_pending s) (f_gen s) (f_chans s)
            (upd (f_pcs s) t (FNotify r (length (f_items s) - 1))) rg st
            (upd (f_verdict s) (f_gen s) (Some r))).
Proof.
  intros I Hm Hcm Hc1.
  assert (Hmm : fmain (f_pcs s t) = true) by now apply fpre_main.
  assert (Hin : In t (fbatch s)) by now apply (f_mn s I).
  assert (Hni : f_items s <> []) by (unfold fbatch in Hin; destruct (f_items s); [destruct Hin|discriminate]).
  assert (Hu : forall t0, fmain (f_pcs s t0) = true -> t0 = t) by (intros; eapply (f_mu s I); eauto).
  assert (Hcm' : cm = true).
  { destruct Hcm as [Hcm|]; auto. apply Hc1. eapply (f_com s I); eauto. }
  destruct (f_qt s I t Hm) as (Q1 & Q2 & Q3).
  destruct I. constructor; simpl.
  all: try solve [fsolve].
  all: try solve [apply it_keep; auto].
  all: try solve [intros t0 c0 Hin0; destruct (f_pe0 t0 c0 Hin0) as [A B]; split; auto; tcase t0 t; auto; rewrite A in Hmm; discriminate].
  all: try solve [intros t0 Hx; tcase t0 t; auto].
  all: try solve [intros t1 t2 H1 H2; tcase t1 t; tcase t2 t; auto; symmetry; auto].
  all: try solve [intros t0 g Hx; tcase t0 t; [discriminate|eauto]].
  all: try solve [intro Hx; congruence].
  all: try solve [intros _; right; exists t; rewrite upd_eq; reflexivity].
  all: try solve [intro Hx; exfalso; apply Hni; exact Hx].
  all: try solve [intros t0 Hx; tcase t0 t; auto].
  - intros t0 Hx. tcase t0 t; [discriminate|]. apply fpre_main, Hu in Hx. congruence.
  - intros t0 r0 Hx. rewrite upd_eq. tcase t0 t; [simpl in Hx; congruence|].
    apply fres_window, fwindow_main, Hu in Hx. congruence.
  - intros r0 Hx. rewrite upd_eq in Hx. injection Hx as <-. exists t. now rewrite upd_eq.
  - destruct f_pl0 as (hs & A & B & C). exists hs. split; auto. split; auto.
    intro x. tcase x t; [rewrite B, (fmain_holding _ Hmm); simpl; tauto | apply B].
Qed.

Lemma invF_frame s rg st : InvF s ->
  InvF (mkF (f_pool s) (f_committed s) (f_items s) (f_pending s) (f_gen s) (f_chans s) (f_pcs s) rg st (f_verdict s)).
Proof. intro I. destruct I. constructor; simpl; auto. Qed.

Lemma stepF_main sg s e s' t :
  InvF s -> fstep sg s e = Some s' ->
  ((exists f, e = FEPrepare t f) \/ e = FECommit t \/ (exists f, e = FEPut t f) \/ (exists f, e = FEDel t f)) ->
  InvF s'.
Proof.
  intros I H [[f ->]|[->|[[f ->]|[f ->]]]]; simpl in H.
  - destruct (f_pcs s t) eqn:Hpc; try discriminate. injection H as <-.
    unfold fset_pc. apply invF_pre; auto; try (rewrite Hpc; reflexivity). discriminate.
  - destruct (f_pcs s t) as [|c0|g| |old|nw o|oi ap|r k|r|r|r] eqn:Hpc; try discriminate.
    assert (Hp : fpre (f_pcs s t) = true) by (rewrite Hpc; reflexivity).
    destruct old as [o|].
    + destruct (apply_changes (idx o) (map snd (f_items s))) as [|new].
      * injection H as <-. unfold fnotify. simpl. apply invF_enter; auto.
      * destruct (negb (is_nil new) || sg).
        -- injection H as <-. unfold fset_pc. simpl. apply invF_pre; auto.
        -- destruct o; injection H as <-; [unfold fset_pc; simpl; apply invF_pre; auto|unfold fnotify; simpl; apply invF_enter; auto].
    + injection H as <-. unfold fnotify. simpl. apply invF_enter; auto.
  - destruct (f_pcs s t) as [|c0|g| |old|nw o|oi ap|r k|r|r|r] eqn:Hpc; try discriminate.
    assert (Hp : fpre (f_pcs s t) = true) by (rewrite Hpc; reflexivity).
    assert (Hq : fpost (f_pcs s t) = true) by (rewrite Hpc; reflexivity).
    destruct f; injection H as <-.
    + unfold fnotify. apply invF_enter; auto.
    + unfold fafter_put. destruct sg; [unfold fnotify, fset_reg; simpl; apply invF_enter; auto|].
      destruct o; [unfold fset_pc, fset_reg; simpl; apply invF_pre; auto; intro; eapply (f_com s I); eauto
                  |unfold fnotify, fset_reg; simpl; apply invF_enter; auto].
  - destruct (f_pcs s t) as [|c0|g| |old|nw o|oi ap|r k|r|r|r] eqn:Hpc; try discriminate.
    assert (Hp : fpre (f_pcs s t) = true) by (rewrite Hpc; reflexivity).
    assert (Hq : fpost (f_pcs s t) = true) by (rewrite Hpc; reflexivity).
    destruct f; injection H as <-; unfold fnotify, fset_reg; simpl; apply invF_enter; auto.
Qed.

Lemma stepF_assign sg s t s' : InvF s -> fstep sg s (FEAssign t) = Some s' -> InvF s'.
Proof.
  intros I H. simpl in H.
  destruct (f_pcs s t) as [|c|g| |old|nw o|oi ap|r k|r|r|r] eqn:Hpc; try discriminate.
  assert (Hnm : fmain (f_pcs s t) = false) by (now rewrite Hpc).
  assert (Hnw : fwindow (f_pcs s t) = false) by (now rewrite Hpc).
  assert (Hnr : fres (f_pcs s t) = None) by (now rewrite Hpc).
  assert (Hnb : In t (fbatch s) -> False).
  { intro Hin. unfold fbatch in Hin. apply in_map_iff in Hin as ((t', c0) & E & Hin). simpl in E. subst t'.
    destruct (f_it s I t c0 Hin) as [H1|[H1|[_ (r & [H1|H1])]]]; rewrite Hpc in H1; discriminate. }
  assert (Hnp : In t (map fst (f_pending s)) -> False).
  { intro Hin. apply in_map_iff in Hin as ((t', c0) & E & Hin). simpl in E. subst t'.
    destruct (f_pe s I t c0 Hin) as [H1 _]. rewrite Hpc in H1. discriminate. }
  assert (Hne_it : forall t0 c0, In (t0, c0) (f_items s) -> t0 <> t) by (intros t0 c0 Hin ->; apply Hnb; eapply in_fst; eauto).
  assert (Hne_pe : forall t0 c0, In (t0, c0) (f_pending s) -> t0 <> t) by (intros t0 c0 Hin ->; apply Hnp; eapply in_fst; eauto).
  destruct (f_committed s) eqn:Hc; injection H as <-.
  - destruct I. constructor; simpl.
    all: try solve [fsolve].
    all: try solve [apply it_keep; auto; intro; tauto].
    all: try solve [intro Hx; destruct (f_tok0 Hx) as (A & B & C); congruence].
    all: try solve [intro Hx; destruct (f_tom0 Hx) as [A|A]; auto; right; apply ex_keep; auto].
    all: try solve [intros r Hx; apply ex_res_keep; auto].
    all: try solve [poolF t].
    intros t0 g Hx. rewrite in_map_fst_snoc. tcase t0 t.
    + injection Hx as <-. repeat split; auto. intro E. exfalso. lia.
    + destruct (f_wt0 t0 g Hx) as (A & B & C). repeat split; auto.
  - assert (Hnopost : forall t0, fpost (f_pcs s t0) = false).
    { intro t0. destruct (fpost (f_pcs s t0)) eqn:E; auto. apply (f_com s I) in E. congruence. }
    assert (Hit' : forall t0 c0, In (t0, c0) (f_items s ++ [(t, c)]) ->
              upd (f_pcs s) t (FWait (f_gen s)) t0 = FWait (f_gen s) \/
              fmain (upd (f_pcs s) t (FWait (f_gen s)) t0) = true \/
              ((exists tm, fwindow (upd (f_pcs s) t (FWait (f_gen s)) tm) = true) /\
               exists r, upd (f_pcs s) t (FWait (f_gen s)) t0 = FRet r \/ upd (f_pcs s) t (FWait (f_gen s)) t0 = FDone r)).
    { intros t0 c0 Hin. apply in_snoc in Hin. destruct Hin as [Hin|Hin].
      - apply (it_keep s t (FWait (f_gen s)) (f_it s I)) with (c0 := c0); auto; try (intro; tauto).
      - injection Hin as -> ->. left. now rewrite upd_eq. }
    assert (Hnd' : NoDup (map fst (f_items s ++ [(t, c)]))).
    { apply NoDup_map_fst_snoc; [apply (f_it_nd s I)|exact Hnb]. }
    assert (Hpe' : forall t0 c0, In (t0, c0) (f_pending s) ->
              upd (f_pcs s) t (FWait (f_gen s)) t0 = FWait (S (f_gen s)) /\ ~ In t0 (map fst (f_items s ++ [(t, c)]))).
    { intros t0 c0 Hin. rewrite upd_neq by eauto. destruct (f_pe s I t0 c0 Hin) as [A B]. split; auto.
      rewrite in_map_fst_snoc. intros [Hx|Hx]; [auto|]. subst. eapply Hne_pe; eauto. }
    assert (Hmn' : forall t0, fmain (upd (f_pcs s) t (FWait (f_gen s)) t0) = true -> In t0 (map fst (f_items s ++ [(t, c)]))).
    { intros t0 Hx. tcase t0 t; [discriminate|]. rewrite in_map_fst_snoc. left. now apply (f_mn s I). }
    assert (Hwt' : forall t0 g, upd (f_pcs s) t (FWait (f_gen s)) t0 = FWait g ->
              (g <= S (f_gen s))%nat /\ (g = f_gen s -> In t0 (map fst (f_items s ++ [(t, c)]))) /\
              (g = S (f_gen s) -> In t0 (map fst (f_pending s)))).
    { intros t0 g Hx. rewrite in_map_fst_snoc. tcase t0 t.
      - injection Hx as <-. repeat split; auto. intro E. exfalso. lia.
      - destruct (f_wt s I t0 g Hx) as (A & B & C). repeat split; auto. }
    destruct (is_nil (f_items s)) eqn:En.
    + (* m.status == nil: a new status channel with the main status *)
      assert (Ei : f_items s = []) by (destruct (f_items s); [reflexivity|discriminate]).
      assert (Hnomain : forall t0, fmain (f_pcs s t0) = false).
      { intro t0. destruct (fmain (f_pcs s t0)) eqn:E; auto. apply (f_mn s I) in E. unfold fbatch in E. rewrite Ei in E. destruct E. }
      destruct I. constructor; simpl; auto.
      all: try solve [fsolve].
      all: try solve [intros r Hx; apply ex_res_keep; auto].
      all: try solve [poolF t].
      all: try solve [intros _; repeat split; auto using snoc_not_nil; intro t0; tcase t0 t; auto].
      all: try solve [intros _; left; now rewrite upd_eq].
      all: try solve [intro Hx; exfalso; eapply snoc_not_nil; eauto].
      all: try solve [intros t0 Hx; tcase t0 t; [discriminate|]; try apply fpre_main in Hx; try apply fpost_main in Hx; rewrite Hnomain in Hx; discriminate].
      all: try solve [intros g Hx; rewrite upd_neq by lia; auto].
      all: try solve [intros g r Hx; tcase g (f_gen s); [discriminate|eauto]].
      all: try solve [intros g Hx; tcase g (f_gen s); [discriminate|eauto]].
      all: try solve [intros g Hx; tcase g (f_gen s); eauto].
    + assert (Hni : f_items s <> []) by (destruct (f_items s); [discriminate|discriminate]).
      destruct I. constructor; simpl; auto.
      all: try solve [fsolve].
      all: try solve [intros r Hx; apply ex_res_keep; auto].
      all: try solve [poolF t].
      all: try solve [intro Hx; destruct (f_tok0 Hx) as (A & B & C); repeat split; auto using snoc_not_nil; intro t0; tcase t0 t; auto].
      all: try solve [intros _; destruct (f_tom0 Hni) as [A|A]; auto; right; apply ex_keep; auto].
      all: try solve [intro Hx; exfalso; eapply snoc_not_nil; eauto].
Qed.

(* facts about the current status channel *)
Lemma f_window_no_token s t : InvF s -> fmain (f_pcs s t) = true -> fbuf (f_chans s (f_gen s)) <> Some FMain.
Proof. intros I Hm E. destruct (f_tok s I E) as (_ & _ & H). rewrite H in Hm. discriminate. Qed.

Lemma f_token_fresh s : InvF s -> fbuf (f_chans s (f_gen s)) = Some FMain ->
  fclosed (f_chans s (f_gen s)) = false /\ f_verdict s (f_gen s) = None.
Proof.
  intros I E. destruct (f_tok s I E) as (_ & _ & Hn).
  assert (Hv : f_verdict s (f_gen s) = None).
  { destruct (f_verdict s (f_gen s)) as [r|] eqn:Ev; auto. destruct (f_vn s I r Ev) as (t & Ht).
    apply fres_window, fwindow_main in Ht. now rewrite Hn in Ht. }
  split; auto. destruct (fclosed (f_chans s (f_gen s))) eqn:Ec; auto.
  apply (f_vc s I) in Ec. congruence.
Qed.

(* a waiter of generation g <= gen gets its status and returns; the channel of g keeps its
   closed flag and either keeps or loses its buffered value *)
Lemma invF_wake s t g r ch' :
  InvF s -> f_pcs s t = FWait g -> (g <= f_gen s)%nat ->
  (g = f_gen s -> exists tm, fwindow (f_pcs s tm) = true) ->
  (ch' = f_chans s \/ (fbuf (f_chans s g) <> Some FMain /\ ch' = upd (f_chans s) g (mkFC None (fclosed (f_chans s g))))) ->
  InvF (mkF (f_pool s) (f_committed s) (f_items s) (f_pending s) (f_gen s) ch' (upd (f_pcs s) t (FRet r))
            (f_reg s) (f_store s) (f_verdict s)).
Proof.
  intros I Hpc Hg Hwin Hch.
  assert (Hnm : fmain (f_pcs s t) = false) by now rewrite Hpc.
  assert (Hnw : fwindow (f_pcs s t) = false) by now rewrite Hpc.
  assert (Hnr : fres (f_pcs s t) = None) by now rewrite Hpc.
  assert (Hnp : forall c0, In (t, c0) (f_pending s) -> False).
  { intros c0 Hin. destruct (f_pe s I t c0 Hin) as [E _]. rewrite Hpc in E. injection E as ->. lia. }
  (* channel facts carried over *)
  assert (Hb : forall g0, fbuf (ch' g0) = fbuf (f_chans s g0) \/ (g0 = g /\ fbuf (ch' g0) = None /\ fbuf (f_chans s g) <> Some FMain)).
  { intro g0. destruct Hch as [->|[Hn ->]]; auto. tcase g0 g; auto. }
  assert (Hc : forall g0, fclosed (ch' g0) = fclosed (f_chans s g0)).
  { intro g0. destruct Hch as [->|[_ ->]]; auto. tcase g0 g; auto. }
  destruct I. constructor; simpl.
  all: try solve [fsolve].
  - intros t0 c0 Hin. tcase t0 t.
    + right; right. split; [|eauto].
      destruct (f_it0 t c0 Hin) as [E|[E|[E _]]]; [|congruence|].
      * rewrite Hpc in E. injection E as ->. destruct (Hwin eq_refl) as (tm & Htm). exists tm.
        rewrite upd_neq; auto. intro; subst. congruence.
      * destruct E as (tm & Htm). exists tm. rewrite upd_neq; auto. intro; subst. congruence.
    + destruct (f_it0 t0 c0 Hin) as [E|[E|[(tm & Htm) E]]]; auto. right; right. split; auto.
      exists tm. rewrite upd_neq; auto. intro; subst. congruence.
  - intros t0 c0 Hin. assert (t0 <> t) by (intro; subst; eauto). rewrite upd_neq by auto. exact (f_pe0 t0 c0 Hin).
  - intro Hx. destruct (Hb (f_gen s)) as [E|(E1 & E2 & _)]; [|congruence]. rewrite E in Hx.
    destruct (f_tok0 Hx) as (A & B & C). repeat split; auto. intro t0. tcase t0 t; auto.
  - intro Hx. destruct (f_tom0 Hx) as [A|A].
    + destruct (Hb (f_gen s)) as [E|(E1 & E2 & E3)]; [left; congruence|]. subst g. congruence.
    + right. apply ex_keep; auto.
  - intros t0 Hx. tcase t0 t; [discriminate|]. destruct (f_qt0 t0 Hx) as (A & B & C). rewrite Hc. repeat split; auto.
    destruct (Hb (f_gen s)) as [E|(E1 & E2 & _)]; congruence.
  - intros g0 Hx. destruct (f_fut0 g0 Hx) as (A & B & C). rewrite Hc. repeat split; auto.
    destruct (Hb g0) as [E|(E1 & E2 & _)]; congruence.
  - intros g0 r0 Hx. destruct (Hb g0) as [E|(E1 & E2 & _)]; [rewrite E in Hx; eauto|congruence].
  - intros g0 Hx. destruct (Hb g0) as [E|(E1 & E2 & _)]; [rewrite E in Hx; eauto|congruence].
  - intros r0 Hx. apply ex_res_keep; auto.
  - destruct f_pl0 as (hs & A & B & C). exists hs. split; auto. split; auto.
    intro x. tcase x t; [rewrite B, Hpc; simpl; tauto | apply B].
Qed.
