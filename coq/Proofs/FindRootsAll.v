(* C03, unlimited depth and no filter, end to end for a source backed by graph.Memory:
   C07 (Predecessors exact after every history)  +  the walk of findRoots (this property)
   +  C01 (the copy run delivers every root's graph), composed into the property's own words:
   the destination holds every node reachable through links from any stored node that
   reaches the given node through links. *)
From Oras Require Import Base.Prelude Model.FindRoots Proofs.FindRoots Proofs.FindRootsMem.
From Oras Require Import Model.CopySpec Proofs.CopySpec Proofs.FindRootsCopy.
Local Open Scope nat_scope.

Lemma reach_trans_c01 g a c x :
  Proofs.CopySpec.reach g a c -> Proofs.CopySpec.reach g c x -> Proofs.CopySpec.reach g a x.
Proof. intros H1 H2. induction H1; auto. econstructor; eauto. Qed.

Section All.
  Variable ct : GM.amap.                 (* content.Successors of every key (C07's content table) *)
  Variable fuelm : nat.
  Variable ops : list GM.op.             (* any history of graph.Memory operations *)
  Let gm := GM.s_g (fst (GM.run ct fuelm GM.init_state ops)).
  Variable s : source.
  Variable fs : list filter.
  Variable g : graph.                    (* C01's content universe *)
  Variable nd : desc.

  (* R: the followed relation in terms of stored content (instantiated below without and with filters) *)
  Variable R : nat -> nat -> Prop.
  Hypothesis HE : forall x y, E (find_preds s fs) x y <-> R x y.
  Hypothesis HRlink : forall x y, R x y -> link_up (GM.ctab ct) gm x y.
  Hypothesis Hacyclic : exists rank, acyclic_source s rank.
  (* the two models speak of the same content.Successors *)
  Hypothesis links_agree : forall p x, In (N.of_nat x) (GM.ctab ct (N.of_nat p)) <-> In x (g_succ g p).
  (* the given node and the nodes above it are stored content, not foreign layers *)
  Hypothesis not_foreign : forall a, anc s fs (d_id nd) a -> g_foreign g a = false.

  Definition upR (a c : nat) : Prop := exists k, rpath R k a c.

  Lemma anc_upR a c : anc s fs a c <-> upR a c.
  Proof.
    unfold anc, Proofs.FindRoots.reach, upR. split; intros (k & P); exists k.
    - apply (rpath_equiv _ _ HE). now apply path_rpath_E.
    - apply path_rpath_E. now apply (rpath_equiv _ _ HE).
  Qed.

  Lemma path_rpathR k a c : path (find_preds s fs) k a c <-> rpath R k a c.
  Proof.
    split; intro P.
    - apply (rpath_equiv _ _ HE). now apply path_rpath_E.
    - apply path_rpath_E. now apply (rpath_equiv _ _ HE).
  Qed.

  (* a followed step from an ancestor is a (foreign-cut) link of C01's graph *)
  Lemma step_is_link a y : anc s fs (d_id nd) a -> E (find_preds s fs) a y -> In a (succ' g y).
  Proof.
    intros Ha He. apply HE in He. apply HRlink in He. destruct He as (_ & Hl).
    unfold succ'. apply filter_In. split; [now apply links_agree|].
    now rewrite (not_foreign a Ha).
  Qed.

  Lemma anc_down a : anc s fs (d_id nd) a ->
    forall c, anc s fs a c -> Proofs.CopySpec.reach g c a.
  Proof.
    intros Ha c (k & P). induction P as [x | k x y z P IH He].
    - constructor.
    - assert (Hy : anc s fs (d_id nd) y).
      { destruct Ha as (k1 & P1). exists (k + k1). eapply path_trans; eauto. }
      eapply reach_step; [exact (step_is_link y z Hy He) | exact (IH Ha)].
  Qed.

  (* unlimited depth: everything below every followed ancestor is held *)
  Lemma all_closure limit fuel roots final :
    mt_consistent g -> (limit <= 0)%Z ->
    find_roots fuel s fs limit nd = Some roots ->
    extended_copy_run g final roots ->
    forall a, upR (d_id nd) a ->
    forall x, Proofs.CopySpec.reach g a x -> has g final x = true.
  Proof.
    intros Hmt Hl Hf (c & d0 & tr & st & Hroots & Hcl & Hacc & Hret & Hincl) a Ha x Hx.
    apply anc_upR in Ha. destruct Hacyclic as (rank & Hac).
    destruct (find_roots_unlimited s fs rank limit nd fuel roots Hac Hl Hf) as (_ & _ & H3).
    destruct (H3 a Ha) as (r & Hr & Hra).
    apply Hincl.
    apply (closure_all_roots g c d0 tr st Hcl Hmt Hacc Hret (d_id r) (Hroots r Hr)).
    eapply reach_trans_c01; [exact (anc_down a Ha (d_id r) Hra) | exact Hx].
  Qed.

  (* any depth: the given node's own graph is held *)
  Lemma all_own_graph limit fuel roots final :
    mt_consistent g ->
    find_roots fuel s fs limit nd = Some roots ->
    extended_copy_run g final roots ->
    forall x, Proofs.CopySpec.reach g (d_id nd) x -> has g final x = true.
  Proof.
    intros Hmt Hf (c & d0 & tr & st & Hroots & Hcl & Hacc & Hret & Hincl) x Hx.
    destruct Hacyclic as (rank & Hac).
    destruct (roots_cover_node (find_preds s fs) limit nd rank (find_preds_rank s fs rank Hac) fuel roots Hf)
      as ((r & Hr & Hnr) & _).
    apply Hincl.
    apply (closure_all_roots g c d0 tr st Hcl Hmt Hacc Hret (d_id r) (Hroots r Hr)).
    eapply reach_trans_c01; [|exact Hx].
    apply (anc_down (d_id nd)); [exists 0; constructor | exact Hnr].
  Qed.

  (* any depth: nothing new outside the graphs of the followed ancestors; with Depth = d > 0 only
     ancestors at most d steps away *)
  Lemma all_nothing_outside limit fuel roots d0 final :
    find_roots fuel s fs limit nd = Some roots ->
    extended_copy_run_only g d0 final roots ->
    forall x, In x final ->
      In x d0 \/ exists a, upR (d_id nd) a /\ Proofs.CopySpec.reach g a x.
  Proof.
    intros Hf Hrun x Hx. destruct Hacyclic as (rank & Hac).
    destruct (nothing_outside_C01 s fs limit nd rank fuel roots g d0 final Hac Hf Hrun x Hx)
      as [H | (a & Ha & Hr)]; [auto|].
    right. exists a. split; auto. now apply anc_upR.
  Qed.

  Lemma all_depth_nothing_outside limit fuel roots d0 final :
    (0 < limit)%Z ->
    find_roots fuel s fs limit nd = Some roots ->
    extended_copy_run_only g d0 final roots ->
    forall x, In x final ->
      In x d0 \/
      exists a k, (Z.of_nat k <= limit)%Z /\ rpath R k (d_id nd) a /\ Proofs.CopySpec.reach g a x.
  Proof.
    intros Hl Hf Hrun x Hx. destruct Hacyclic as (rank & Hac).
    destruct (depth_nothing_outside_C01 s fs limit nd rank fuel roots g d0 final Hac Hl Hf Hrun x Hx)
      as [H | (a & k & Hk & Hp & Hr)]; [auto|].
    right. exists a, k. repeat split; auto. now apply path_rpathR.
  Qed.
End All.

(* ---- instance: no filter (no condition on the served descriptors) ---- *)
Definition up_links (ct : GM.amap) (fuelm : nat) (ops : list GM.op) (a c : nat) : Prop :=
  exists k, rpath (link_up (GM.ctab ct) (GM.s_g (fst (GM.run ct fuelm GM.init_state ops)))) k a c.

Lemma E_nofilter ct fuelm ops s :
  backed_by s (GM.s_g (fst (GM.run ct fuelm GM.init_state ops))) ->
  forall x y, E (find_preds s []) x y <->
              link_up (GM.ctab ct) (GM.s_g (fst (GM.run ct fuelm GM.init_state ops))) x y.
Proof.
  intros Hb x y. unfold E. rewrite find_preds_nil.
  apply (backed_preds_are_links (GM.ctab ct) _ s (GP.history_inv ct fuelm ops) Hb).
Qed.

Lemma property_unlimited ct fuelm ops s g nd final :
  backed_by s (GM.s_g (fst (GM.run ct fuelm GM.init_state ops))) ->
  (forall p x, In (N.of_nat x) (GM.ctab ct (N.of_nat p)) <-> In x (g_succ g p)) ->
  (forall a, anc s [] (d_id nd) a -> g_foreign g a = false) ->
  forall (rank : GM.node -> nat) limit fuel roots,
  content_acyclic (GM.ctab ct) rank -> mt_consistent g -> (limit <= 0)%Z ->
  find_roots fuel s [] limit nd = Some roots ->
  extended_copy_run g final roots ->
  forall a, up_links ct fuelm ops (d_id nd) a ->
  forall x, Proofs.CopySpec.reach g a x -> has g final x = true.
Proof.
  intros Hb Hla Hnf rank limit fuel roots Hc Hmt Hl Hf Hrun.
  apply (all_closure ct fuelm ops s [] g nd _ (E_nofilter ct fuelm ops s Hb) (fun x y H => H)
           (ex_intro _ _ (backed_acyclic _ _ s rank (GP.history_inv ct fuelm ops) Hb Hc))
           Hla Hnf limit fuel roots final Hmt Hl Hf Hrun).
Qed.

Lemma property_depth ct fuelm ops s g nd d0 final :
  backed_by s (GM.s_g (fst (GM.run ct fuelm GM.init_state ops))) ->
  (forall p x, In (N.of_nat x) (GM.ctab ct (N.of_nat p)) <-> In x (g_succ g p)) ->
  (forall a, anc s [] (d_id nd) a -> g_foreign g a = false) ->
  forall (rank : GM.node -> nat) limit fuel roots,
  content_acyclic (GM.ctab ct) rank -> mt_consistent g -> (0 < limit)%Z ->
  find_roots fuel s [] limit nd = Some roots ->
  extended_copy_run g final roots -> extended_copy_run_only g d0 final roots ->
  (forall x, Proofs.CopySpec.reach g (d_id nd) x -> has g final x = true) /\
  (forall x, In x final ->
     In x d0 \/
     exists a k, (Z.of_nat k <= limit)%Z /\
       rpath (link_up (GM.ctab ct) (GM.s_g (fst (GM.run ct fuelm GM.init_state ops)))) k (d_id nd) a /\
       Proofs.CopySpec.reach g a x).
Proof.
  intros Hb Hla Hnf rank limit fuel roots Hc Hmt Hl Hf Hrun Hrun2.
  pose proof (ex_intro (fun r => acyclic_source s r) _
                (backed_acyclic _ _ s rank (GP.history_inv ct fuelm ops) Hb Hc)) as Hac.
  split.
  - apply (all_own_graph ct fuelm ops s [] g nd _ (E_nofilter ct fuelm ops s Hb) (fun x y H => H)
             Hac Hla Hnf limit fuel roots final Hmt Hf Hrun).
  - apply (all_depth_nothing_outside s [] g nd _ (E_nofilter ct fuelm ops s Hb)
             Hac limit fuel roots d0 final Hl Hf Hrun2).
Qed.

(* ---- instance: any filter stack (served descriptors must not contradict their manifests) ---- *)
Lemma property_filtered ct fuelm ops s fs g nd final :
  backed_by s (GM.s_g (fst (GM.run ct fuelm GM.init_state ops))) -> all_served_ok s ->
  (forall p x, In (N.of_nat x) (GM.ctab ct (N.of_nat p)) <-> In x (g_succ g p)) ->
  (forall a, anc s fs (d_id nd) a -> g_foreign g a = false) ->
  forall (rank : GM.node -> nat) limit fuel roots,
  content_acyclic (GM.ctab ct) rank -> mt_consistent g -> (limit <= 0)%Z ->
  find_roots fuel s fs limit nd = Some roots ->
  extended_copy_run g final roots ->
  forall a, (exists k, rpath (followed_links (GM.ctab ct) (GM.s_g (fst (GM.run ct fuelm GM.init_state ops))) s fs)
                             k (d_id nd) a) ->
  forall x, Proofs.CopySpec.reach g a x -> has g final x = true.
Proof.
  intros Hb Hok Hla Hnf rank limit fuel roots Hc Hmt Hl Hf Hrun.
  apply (all_closure ct fuelm ops s fs g nd _
           (backed_followed (GM.ctab ct) _ s fs (GP.history_inv ct fuelm ops) Hb Hok)
           (fun x y H => proj1 H)
           (ex_intro _ _ (backed_acyclic _ _ s rank (GP.history_inv ct fuelm ops) Hb Hc))
           Hla Hnf limit fuel roots final Hmt Hl Hf Hrun).
Qed.

(* the hypotheses are satisfiable together: blob 0 under manifests 1 and 2, pushed into a
   graph.Memory, ExtendedCopyGraph from the blob, both roots copied by one run (Concurrency 2) *)
Lemma ex_links_agree :
  forall p x, In (N.of_nat x) (GM.ctab ct_two (N.of_nat p)) <-> In x (g_succ g_two p).
Proof.
  intros p x. destruct p as [|[|[|p]]].
  - vm_compute. tauto.
  - simpl g_succ. change (GM.ctab ct_two (N.of_nat 1)) with [0%N]. simpl. split.
    + intros [H | []]. left. apply Nat2N.inj. simpl. now rewrite <- H.
    + intros [<- | []]. left. reflexivity.
  - simpl g_succ. change (GM.ctab ct_two (N.of_nat 2)) with [0%N]. simpl. split.
    + intros [H | []]. left. apply Nat2N.inj. simpl. now rewrite <- H.
    + intros [<- | []]. left. reflexivity.
  - simpl g_succ. unfold GM.ctab, GM.getd, ct_two, GM.aget.
    destruct (N.eqb (N.of_nat (S (S (S p)))) 1) eqn:E1; [apply N.eqb_eq in E1; lia|].
    destruct (N.eqb (N.of_nat (S (S (S p)))) 2) eqn:E2; [apply N.eqb_eq in E2; lia|].
    simpl. tauto.
Qed.

Lemma ex_property_all :
  forall a, up_links ct_two 10 ops_two (d_id (mkDesc 0 [] None)) a ->
  forall x, Proofs.CopySpec.reach g_two a x -> has g_two [1; 2; 0] x = true.
Proof.
  destruct ex_backed as (Hb & _ & Hc & Hf).
  destruct ex_two_roots as (_ & _ & Hmt & _ & Hrun).
  apply (property_unlimited ct_two 10 ops_two src_mem_two g_two (mkDesc 0 [] None) [1; 2; 0]
           Hb ex_links_agree (fun _ _ => eq_refl) N.to_nat 0%Z (fuel_for src_mem_two 3)
           [mkDesc 2 [] None; mkDesc 1 [] None] Hc Hmt); auto. lia.
Qed.
