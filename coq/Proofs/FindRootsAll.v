(* C03, unlimited depth and no filter, end to end for a source backed by graph.Memory:
   C07 (Predecessors exact after every history)  +  the walk of findRoots (this property)
   +  C01 (the copy run delivers every root's graph), composed into the property's own words:
   the destination holds every node reachable through links from any stored node that
   reaches the given node through links. *)
From Oras Require Import Base.Prelude Model.FindRoots Proofs.FindRoots Proofs.FindRootsMem.
From Oras Require Import Model.CopySpec Proofs.CopySpec Proofs.FindRootsCopy.
Local Open Scope nat_scope.

Lemma reach_trans_c01 g a c x :
  Proofs.CopySpec.reach g a c -> Proofs.CopySpec.reach g c x -> Proofs.CopySpec.reach g a x.
Proof. intros H1 H2. induction H1; auto. econstructor; eauto. Qed.

Section All.
  Variable ct : GM.amap.                 (* content.Successors of every key (C07's content table) *)
  Variable fuelm : nat.
  Variable ops : list GM.op.             (* any history of graph.Memory operations *)
  Let gm := GM.s_g (fst (GM.run ct fuelm GM.init_state ops)).
  Variable s : source.
  Variable g : graph.                    (* C01's content universe *)
  Variable nd : desc.
  Variable final : list node.

  Hypothesis Hbacked : backed_by s gm.
  (* the two models speak of the same content.Successors *)
  Hypothesis links_agree : forall p x, In (N.of_nat x) (GM.ctab ct (N.of_nat p)) <-> In x (g_succ g p).
  (* the given node and the nodes above it are stored content, not foreign layers *)
  Hypothesis not_foreign : forall a, anc s [] (d_id nd) a -> g_foreign g a = false.

  Definition up_links (a c : nat) : Prop := exists k, rpath (link_up (GM.ctab ct) gm) k a c.

  Lemma E_nofilter x y : E (find_preds s []) x y <-> link_up (GM.ctab ct) gm x y.
  Proof.
    unfold E. rewrite find_preds_nil.
    apply (backed_preds_are_links (GM.ctab ct) gm s (GP.history_inv ct fuelm ops) Hbacked).
  Qed.

  Lemma anc_up_links a c : anc s [] a c <-> up_links a c.
  Proof.
    unfold anc, Proofs.FindRoots.reach, up_links. split; intros (k & P); exists k.
    - apply (rpath_equiv _ _ E_nofilter). now apply path_rpath_E.
    - apply path_rpath_E. now apply (rpath_equiv _ _ E_nofilter).
  Qed.

  (* a followed step from an ancestor is a (foreign-cut) link of C01's graph *)
  Lemma step_is_link a y : anc s [] (d_id nd) a -> E (find_preds s []) a y -> In a (succ' g y).
  Proof.
    intros Ha He. apply E_nofilter in He. destruct He as (_ & Hl).
    unfold succ'. apply filter_In. split; [now apply links_agree|].
    now rewrite (not_foreign a Ha).
  Qed.

  Lemma anc_down a : anc s [] (d_id nd) a ->
    forall c, anc s [] a c -> Proofs.CopySpec.reach g c a.
  Proof.
    intros Ha c (k & P). induction P as [x | k x y z P IH He].
    - constructor.
    - assert (Hy : anc s [] (d_id nd) y).
      { destruct Ha as (k1 & P1). exists (k + k1). eapply path_trans; eauto. }
      eapply reach_step; [exact (step_is_link y z Hy He) | exact (IH Ha)].
  Qed.

  Lemma property_unlimited (rank : GM.node -> nat) limit fuel roots :
    content_acyclic (GM.ctab ct) rank -> mt_consistent g -> (limit <= 0)%Z ->
    find_roots fuel s [] limit nd = Some roots ->
    extended_copy_run g final roots ->
    forall a, up_links (d_id nd) a ->
    forall x, Proofs.CopySpec.reach g a x -> has g final x = true.
  Proof.
    intros Hc Hmt Hl Hf (c & d0 & tr & st & Hroots & Hcl & Hacc & Hret & Hincl) a Ha x Hx.
    apply anc_up_links in Ha.
    assert (Hac : acyclic_source s (fun y => rank (N.of_nat y))).
    { eapply backed_acyclic; eauto. apply (GP.history_inv ct fuelm ops). }
    destruct (find_roots_unlimited s [] _ limit nd fuel roots Hac Hl Hf) as (_ & _ & H3).
    destruct (H3 a Ha) as (r & Hr & Hra).
    apply Hincl.
    apply (closure_all_roots g c d0 tr st Hcl Hmt Hacc Hret (d_id r) (Hroots r Hr)).
    eapply reach_trans_c01; [exact (anc_down a Ha (d_id r) Hra) | exact Hx].
  Qed.
End All.

(* the hypotheses are satisfiable together: blob 0 under manifests 1 and 2, pushed into a
   graph.Memory, ExtendedCopyGraph from the blob, both roots copied by one run (Concurrency 2) *)
Lemma ex_links_agree :
  forall p x, In (N.of_nat x) (GM.ctab ct_two (N.of_nat p)) <-> In x (g_succ g_two p).
Proof.
  intros p x. destruct p as [|[|[|p]]].
  - vm_compute. tauto.
  - simpl g_succ. change (GM.ctab ct_two (N.of_nat 1)) with [0%N]. simpl. split.
    + intros [H | []]. left. apply Nat2N.inj. simpl. now rewrite <- H.
    + intros [<- | []]. left. reflexivity.
  - simpl g_succ. change (GM.ctab ct_two (N.of_nat 2)) with [0%N]. simpl. split.
    + intros [H | []]. left. apply Nat2N.inj. simpl. now rewrite <- H.
    + intros [<- | []]. left. reflexivity.
  - simpl g_succ. unfold GM.ctab, GM.getd, ct_two, GM.aget.
    destruct (N.eqb (N.of_nat (S (S (S p)))) 1) eqn:E1; [apply N.eqb_eq in E1; lia|].
    destruct (N.eqb (N.of_nat (S (S (S p)))) 2) eqn:E2; [apply N.eqb_eq in E2; lia|].
    simpl. tauto.
Qed.

Lemma ex_property_all :
  forall a, up_links ct_two 10 ops_two (d_id (mkDesc 0 [] None)) a ->
  forall x, Proofs.CopySpec.reach g_two a x -> has g_two [1; 2; 0] x = true.
Proof.
  destruct ex_backed as (Hb & _ & Hc & Hf).
  destruct ex_two_roots as (_ & _ & Hmt & _ & Hrun).
  apply (property_unlimited ct_two 10 ops_two src_mem_two g_two (mkDesc 0 [] None) [1; 2; 0]
           Hb ex_links_agree (fun _ _ => eq_refl) N.to_nat 0%Z (fuel_for src_mem_two 3)
           [mkDesc 2 [] None; mkDesc 1 [] None] Hc Hmt); auto. lia.
Qed.
