(* C20, URL slot at full strength: where the parts of an accepted reference end up in a built URL
   under the generic URL syntax (Model.Reference.url_split = RFC 3986 section 3).  The only fact
   about net/url used is a character-class property of accepted registries ([reg_clean]), which
   the harness checks on every reference the implementation accepts (oracle registry-charset). *)
From Oras Require Import Base.Prelude Base.Regex Generated.GC20 Model.Reference Model.RefOps Proofs.Reference Proofs.RefOps.

(* ---------- take_until / split_on ---------- *)

Definition free (stops : list N) (s : str) : Prop := Forall (fun c => contains c stops = false) s.

Lemma take_until_stop stops a c t :
  free stops a -> contains c stops = true -> take_until stops (a ++ c :: t) = (a, c :: t).
Proof.
  intros F Hc. induction F as [|x a Hx F IH]; simpl.
  - now rewrite Hc.
  - rewrite Hx, IH. reflexivity.
Qed.

Lemma take_until_end stops a : free stops a -> take_until stops a = (a, []).
Proof.
  intros F. induction F as [|x a Hx F IH]; simpl; [reflexivity|]. now rewrite Hx, IH.
Qed.

Lemma free_of_contains stops s :
  (forall x, In x stops -> contains x s = false) -> free stops s.
Proof.
  unfold free. induction s as [|c s IH]; intro H; constructor.
  - destruct (contains c stops) eqn:E; auto. unfold contains in E.
    apply existsb_exists in E as (d & Hd & E). apply N.eqb_eq in E. subst d.
    specialize (H c Hd). unfold contains in H. simpl in H. now rewrite N.eqb_refl in H.
  - apply IH. intros x Hx. specialize (H x Hx). unfold contains in *. simpl in H.
    now apply orb_false_iff in H as [_ H].
Qed.

Lemma free_app stops s t : free stops s -> free stops t -> free stops (s ++ t).
Proof. apply Forall_app_intro || (intros; apply Forall_app; auto). Qed.

Lemma split_on_nonempty c s : split_on c s <> [].
Proof.
  destruct s as [|x s]; simpl; [discriminate|].
  destruct (x =? c); [discriminate|]. destruct (split_on c s); discriminate.
Qed.

Lemma split_on_none c s : contains c s = false -> split_on c s = [s].
Proof.
  unfold contains. induction s as [|x s IH]; simpl; [reflexivity|].
  intro H. apply orb_false_iff in H as [A B]. rewrite A, (IH B). reflexivity.
Qed.

Lemma split_on_app c x y : split_on c (x ++ c :: y) = split_on c x ++ split_on c y.
Proof.
  induction x as [|x0 x IH]; simpl.
  - now rewrite N.eqb_refl.
  - destruct (x0 =? c); [now rewrite IH|]. rewrite IH.
    destruct (split_on c x) eqn:E; [now apply split_on_nonempty in E|]. reflexivity.
Qed.

(* "/seg1/seg2/..." *)
Definition tail_of (segs : list str) : str := flat_map (fun s => c_slash :: s) segs.

Lemma split_on_tail x segs :
  Forall (fun s => contains c_slash s = false) segs ->
  split_on c_slash (x ++ tail_of segs) = split_on c_slash x ++ segs.
Proof.
  intro F. revert x. induction F as [|s segs Hs F IH]; intro x; simpl.
  - now rewrite !app_nil_r.
  - rewrite split_on_app, IH, (split_on_none _ _ Hs). reflexivity.
Qed.

(* ---------- character facts ---------- *)

(* what an accepted registry looks like to the URL syntax: non-empty, and none of: controls and
   space, '#', '%', '/', '?', '@', backslash, DEL *)
Definition reg_char_ok (c : N) : bool :=
  negb ((c <=? 32) || (c =? 35) || (c =? 37) || (c =? 47) || (c =? 63) || (c =? 64) || (c =? 92) || (c =? 127)).
Definition reg_clean (reg : str) : bool :=
  match reg with [] => false | _ => forallb reg_char_ok reg end.

Lemma reg_clean_no x reg : reg_char_ok x = false -> reg_clean reg = true -> contains x reg = false.
Proof.
  intros Hx H. assert (F : forallb reg_char_ok reg = true) by (destruct reg; [discriminate | exact H]).
  clear H. unfold contains. induction reg as [|c reg IH]; simpl in *; [reflexivity|].
  apply andb_true_iff in F as [A B]. rewrite (IH B), orb_false_r.
  destruct (c =? x) eqn:E; auto. apply N.eqb_eq in E. subst. congruence.
Qed.

Lemma clean_contains bad x s :
  Forall (fun c => in_ranges bad c = false) s -> in_ranges bad x = true -> contains x s = false.
Proof.
  intros F Hx. unfold contains. induction F as [|c s Hc F IH]; simpl; [reflexivity|].
  rewrite IH, orb_false_r. destruct (c =? x) eqn:E; auto. apply N.eqb_eq in E. subst. congruence.
Qed.

Lemma host_of_clean x reg :
  reg_char_ok x = false -> reg_clean reg = true -> contains x (host_of reg) = false.
Proof.
  intros Hx H. unfold host_of. destruct (str_eqb reg (b "docker.io")); [|now apply reg_clean_no].
  destruct (contains x (b "registry-1.docker.io")) eqn:E; auto.
  unfold contains in E. apply existsb_exists in E as (d & Hd & E). apply N.eqb_eq in E. subst d.
  vm_compute in Hd.
  repeat (destruct Hd as [Hd|Hd]; [subst x; discriminate|]). contradiction.
Qed.

Lemma host_of_nonempty reg : reg_clean reg = true -> host_of reg <> [].
Proof.
  unfold host_of. destruct (str_eqb reg (b "docker.io")); [discriminate|].
  destruct reg; [discriminate | discriminate].
Qed.

Lemma scheme_free plain : free [c_colon] (scheme plain).
Proof. destruct plain; vm_compute; repeat constructor. Qed.

(* ---------- the general statement ---------- *)

Definition path_of (repo : str) (segs : list str) : str := b "/v2/" ++ repo ++ tail_of segs.

Definition qf_free (s : str) : Prop := contains c_qm s = false /\ contains c_hash s = false.
Definition seg_ok (s : str) : Prop := contains c_slash s = false /\ qf_free s.

Lemma qf_free_free s : qf_free s -> free [c_qm; c_hash] s.
Proof.
  intros [A B]. apply free_of_contains. intros x [<-|[<-|[]]]; assumption.
Qed.

Lemma tail_qf_free segs : Forall seg_ok segs -> free [c_qm; c_hash] (tail_of segs).
Proof.
  induction 1 as [|s segs [_ Hs] F IH]; simpl; [constructor|].
  constructor; [reflexivity|]. apply free_app; [now apply qf_free_free | exact IH].
Qed.

Theorem url_split_general plain reg repo segs :
  reg_clean reg = true -> qf_free repo -> Forall seg_ok segs ->
  url_split (scheme plain ++ b "://" ++ host_of reg ++ path_of repo segs)
  = Some (mkParts (scheme plain) (host_of reg) (path_of repo segs) None None) /\
  split_on c_slash (path_of repo segs) = [[]; b "v2"] ++ split_on c_slash repo ++ segs.
Proof.
  intros Hreg Hrepo Hsegs. split.
  - unfold url_split.
    change (b "://" ++ host_of reg ++ path_of repo segs)
      with (c_colon :: 47 :: 47 :: host_of reg ++ path_of repo segs).
    rewrite (take_until_stop [c_colon] (scheme plain) c_colon _ (scheme_free plain) eq_refl).
    change (path_of repo segs) with (c_slash :: b "v2/" ++ repo ++ tail_of segs).
    assert (Fh : free [c_slash; c_qm; c_hash] (host_of reg)).
    { apply free_of_contains. intros x [<-|[<-|[<-|[]]]]; now apply host_of_clean. }
    rewrite (take_until_stop _ _ c_slash _ Fh eq_refl).
    assert (Fp : free [c_qm; c_hash] (c_slash :: b "v2/" ++ repo ++ tail_of segs)).
    { change (c_slash :: b "v2/" ++ repo ++ tail_of segs) with (b "/v2/" ++ repo ++ tail_of segs).
      apply free_app; [vm_compute; repeat constructor|].
      apply free_app; [now apply qf_free_free | now apply tail_qf_free]. }
    rewrite (take_until_end _ _ Fp). reflexivity.
  - unfold path_of.
    change (b "/v2/" ++ repo ++ tail_of segs) with ([] ++ c_slash :: (b "v2" ++ c_slash :: (repo ++ tail_of segs))).
    rewrite split_on_app. simpl (split_on c_slash []).
    rewrite split_on_app. rewrite (split_on_none c_slash (b "v2") eq_refl).
    rewrite split_on_tail; [reflexivity|].
    eapply Forall_impl; [|exact Hsegs]. intros s [H _]. exact H.
Qed.

(* ---------- instantiated to accepted references ---------- *)

Section Avail.
Variable avail : str -> bool.
Notation valid_digest := (Reference.valid_digest avail).
Notation repo_parse := (Reference.repo_parse avail).
Notation op_requests := (RefOps.op_requests avail).
Notation wf_ref := (wf_ref avail).

Lemma repo_qf_free s : valid_repository s = true -> qf_free s.
Proof.
  intro H. pose proof (repository_url_clean s H) as C.
  split; eapply clean_contains; try exact C; reflexivity.
Qed.

Lemma seg_clean_ok s : seg_clean s -> seg_ok s.
Proof.
  intro C. split; [now apply seg_clean_no_slash|].
  split; eapply clean_contains; try exact C; reflexivity.
Qed.

Lemma const_seg_ok s : forallb (fun c => (97 <=? c) && (c <=? 122)) s = true -> seg_ok s.
Proof.
  intro H. assert (G : forall x, (97 <=? x) && (x <=? 122) = false -> contains x s = false).
  { intros x Hx. unfold contains. induction s as [|c s IH]; simpl in *; [reflexivity|].
    apply andb_true_iff in H as [A B]. rewrite (IH B), orb_false_r.
    destruct (c =? x) eqn:E; auto. apply N.eqb_eq in E. subst. congruence. }
  split; [|split]; apply G; reflexivity.
Qed.

(* [url_is u plain r seg]: under the generic URL syntax, [u] is
   <scheme>://<host of the registry>/v2/<repository>/<seg>/<reference>: the authority is exactly
   the host (no user-info), the path has exactly the segments "", v2, the repository's components,
   seg, the reference, and there is neither query nor fragment. *)
Definition url_is (u : str) (plain : bool) (r : reference) (seg : str) : Prop :=
  url_split u = Some (mkParts (scheme plain) (host_of (r_registry r))
                        (b "/v2/" ++ r_repository r ++ [c_slash] ++ seg ++ [c_slash] ++ r_reference r) None None) /\
  split_on c_slash (b "/v2/" ++ r_repository r ++ [c_slash] ++ seg ++ [c_slash] ++ r_reference r)
  = [[]; b "v2"] ++ split_on c_slash (r_repository r) ++ [seg; r_reference r] /\
  contains c_at (host_of (r_registry r)) = false /\ host_of (r_registry r) <> [].

Lemma url_is_intro plain r seg :
  reg_clean (r_registry r) = true -> valid_repository (r_repository r) = true ->
  seg_ok seg -> seg_clean (r_reference r) ->
  url_is (url_repo_base plain r ++ [c_slash] ++ seg ++ [c_slash] ++ r_reference r) plain r seg.
Proof.
  intros Hreg Hrepo Hseg Href.
  destruct (url_split_general plain (r_registry r) (r_repository r) [seg; r_reference r] Hreg
              (repo_qf_free _ Hrepo)) as [A B].
  { constructor; [exact Hseg|]. constructor; [now apply seg_clean_ok|]. constructor. }
  assert (E : path_of (r_repository r) [seg; r_reference r]
              = b "/v2/" ++ r_repository r ++ [c_slash] ++ seg ++ [c_slash] ++ r_reference r).
  { unfold path_of, tail_of. simpl. rewrite ?app_nil_r. reflexivity. }
  rewrite E in A, B. unfold url_is. split; [|split; [exact B|split]].
  - rewrite <- A. f_equal. unfold url_repo_base. rewrite <- !app_assoc. reflexivity.
  - now apply host_of_clean.
  - now apply host_of_nonempty.
Qed.

Theorem url_exact vr plain r :
  (forall reg, vr reg = true -> reg_clean reg = true) ->
  wf_ref vr r -> r_reference r <> [] ->
  url_is (url_manifest plain r) plain r (b "manifests") /\
  url_is (url_blob plain r) plain r (b "blobs") /\
  url_is (url_referrers plain r) plain r (b "referrers").
Proof.
  intros Hvr ([Hr _] & Hp & Hf) Hne.
  assert (Hs : seg_clean (r_reference r)).
  { destruct Hf as [E|[T|D]]; [contradiction | now apply tag_seg_clean | now apply (digest_seg_clean avail)]. }
  pose proof (Hvr _ Hr) as Hc.
  split; [|split].
  - apply (url_is_intro plain r (b "manifests") Hc Hp); [apply const_seg_ok; reflexivity | exact Hs].
  - apply (url_is_intro plain r (b "blobs") Hc Hp); [apply const_seg_ok; reflexivity | exact Hs].
  - apply (url_is_intro plain r (b "referrers") Hc Hp); [apply const_seg_ok; reflexivity | exact Hs].
Qed.

(* the repository-level URLs without a reference: tag list and blob upload *)
Theorem url_exact_noref vr plain r :
  (forall reg, vr reg = true -> reg_clean reg = true) -> wf_ref vr r ->
  url_split (url_taglist plain r)
  = Some (mkParts (scheme plain) (host_of (r_registry r)) (b "/v2/" ++ r_repository r ++ b "/tags/list") None None) /\
  url_split (url_upload plain r)
  = Some (mkParts (scheme plain) (host_of (r_registry r)) (b "/v2/" ++ r_repository r ++ b "/blobs/uploads/") None None).
Proof.
  intros Hvr ([Hr _] & Hp & _). pose proof (Hvr _ Hr) as Hc.
  split.
  - destruct (url_split_general plain (r_registry r) (r_repository r) [b "tags"; b "list"] Hc (repo_qf_free _ Hp)) as [A _].
    { constructor; [apply const_seg_ok; reflexivity|]. constructor; [apply const_seg_ok; reflexivity|]. constructor. }
    assert (E : path_of (r_repository r) [b "tags"; b "list"] = b "/v2/" ++ r_repository r ++ b "/tags/list")
      by (unfold path_of, tail_of; simpl; rewrite ?app_nil_r; reflexivity).
    rewrite E in A. rewrite <- A. f_equal. unfold url_taglist, url_repo_base. rewrite <- !app_assoc. reflexivity.
  - destruct (url_split_general plain (r_registry r) (r_repository r) [b "blobs"; b "uploads"; []] Hc (repo_qf_free _ Hp)) as [A _].
    { constructor; [apply const_seg_ok; reflexivity|]. constructor; [apply const_seg_ok; reflexivity|].
      constructor; [|constructor]. repeat split; reflexivity. }
    assert (E : path_of (r_repository r) [b "blobs"; b "uploads"; []] = b "/v2/" ++ r_repository r ++ b "/blobs/uploads/")
      by (unfold path_of, tail_of; simpl; rewrite ?app_nil_r; reflexivity).
    rewrite E in A. rewrite <- A. f_equal. unfold url_upload, url_repo_base. rewrite <- !app_assoc. reflexivity.
Qed.

(* ---------- requests of the reference-taking operations ---------- *)

(* every request an operation sends for an accepted reference string goes to the base repository,
   path exactly /v2/<base repository>/{manifests|blobs}/<x> with x the resolved reference or the
   digest of the descriptor being tagged; no query, no fragment, no user-info *)
Theorem op_requests_exact_paths vr op plain breg brepo s d reqs :
  (forall reg, vr reg = true -> reg_clean reg = true) ->
  ok_registry vr breg -> valid_repository brepo = true -> valid_digest d = true ->
  op_requests vr op plain breg brepo s d = Some reqs ->
  exists r, repo_parse vr breg brepo s = Some r /\
    Forall (fun mu => exists seg x,
              (seg = b "manifests" \/ seg = b "blobs") /\ (x = r_reference r \/ x = d) /\
              url_is (snd mu) plain (mkRef breg brepo x) seg) reqs.
Proof.
  intros Hvr Hbr Hbp Hd H. unfold RefOps.op_requests in H.
  destruct (repo_parse vr breg brepo s) as [r|] eqn:Hp; [|discriminate].
  destruct (repo_parse_result_in_base avail vr breg brepo s r Hp) as (Hreg & Hrepo & Hne & Hv).
  exists r. split; [reflexivity|].
  destruct r as [rr rp rf]. cbn [r_registry r_repository r_reference] in *. subst rr rp.
  assert (Wr : wf_ref vr (mkRef breg brepo rf)).
  { unfold wf_ref; simpl. repeat split; try apply Hbr; auto. }
  assert (Wd : wf_ref vr (mkRef breg brepo d)).
  { unfold wf_ref; simpl. repeat split; try apply Hbr; auto. }
  destruct (url_exact vr plain _ Hvr Wr Hne) as (Mr & Br & _).
  assert (Hdne : d <> []) by (destruct d; [discriminate | discriminate]).
  destruct (url_exact vr plain _ Hvr Wd Hdne) as (Md & _ & _).
  assert (GMr : exists seg x, (seg = b "manifests" \/ seg = b "blobs") /\ (x = rf \/ x = d) /\
                  url_is (url_manifest plain (mkRef breg brepo rf)) plain (mkRef breg brepo x) seg).
  { exists (b "manifests"), rf. split; [now left|]. split; [now left | exact Mr]. }
  assert (GBr : exists seg x, (seg = b "manifests" \/ seg = b "blobs") /\ (x = rf \/ x = d) /\
                  url_is (url_blob plain (mkRef breg brepo rf)) plain (mkRef breg brepo x) seg).
  { exists (b "blobs"), rf. split; [now right|]. split; [now left | exact Br]. }
  assert (GMd : exists seg x, (seg = b "manifests" \/ seg = b "blobs") /\ (x = rf \/ x = d) /\
                  url_is (url_manifest plain (mkRef breg brepo d)) plain (mkRef breg brepo x) seg).
  { exists (b "manifests"), d. split; [now left|]. split; [now right | exact Md]. }
  destruct op; cbn [op_requests_resolved r_registry r_repository r_reference] in H;
    try (destruct (valid_digest rf); [|discriminate]);
    injection H as <-;
    repeat (apply Forall_cons || apply Forall_nil); cbn [snd]; assumption.
Qed.
End Avail.

Theorem url_exact_unconstrained_registry_refuted :
  exists (avail valid_registry : str -> bool) r,
    wf_ref avail valid_registry r /\ r_reference r <> [] /\
    url_split (url_manifest false r)
    = Some (mkParts (b "https") (b "h") [] (Some (b "x")) (Some (b "y/v2/a/manifests/t"))).
Proof.
  exists (fun _ => true), (fun _ => true), (mkRef (b "h?x#y") (b "a") (b "t")).
  unfold wf_ref, ok_registry. repeat split; try (vm_compute; reflexivity); try discriminate.
  right. left. vm_compute. reflexivity.
Qed.
