(* C10 -- AutoSaveIndex = false: what still holds.  The full property is refuted there
   (C10_crash_safe_refuted_autosave_off: Delete unlinks content the saved index.json names).
   Everything else survives: at every cut of every operation after every history the layout
   is valid, every blob file is complete and matches its name, index.json parses and is the
   one before or the one after, and blobs lie between before and after. *)
From Oras Require Import Base.Prelude Model.OciCrash Model.OciCrashSpec Proofs.OciCrash.

Section Off.
Variable H : list N -> N.
Variable shuffle : nat -> list entry -> list entry.

Notation stepsF := (op_steps H shuffle false false false).
Notation runopF := (run_op H shuffle false false false).

Definition GoodW (fs : FS) : Prop :=
  layout_ok fs /\ blob_ok H fs /\ exists l, read_index fs = Some l.

Definition RecW (fs0 fsk fs1 : FS) : Prop :=
  GoodW fsk /\
  (read_index fsk = read_index fs0 \/ read_index fsk = read_index fs1) /\
  (forall d, has fs0 (FBlob d) -> has fs1 (FBlob d) -> has fsk (FBlob d)) /\
  (forall d, has fsk (FBlob d) -> has fs0 (FBlob d) \/ has fs1 (FBlob d)).

Definition nteq (a c : FS) : Prop := forall p, is_temp p = false -> files a p = files c p.

Lemma goodw_nt a c : nteq a c -> GoodW a -> GoodW c.
Proof.
  intros E (L & B & (l & Hl)). split; [|split].
  - destruct L as (f & Hf & Hc). exists f. split; [|exact Hc]. now rewrite <- (E FLayout eq_refl).
  - intros d f Hf. apply (B d f). now rewrite (E (FBlob d) eq_refl).
  - exists l. unfold read_index in *. now rewrite <- (E FIndex eq_refl).
Qed.

Lemma recw_nt fs0 a c fs1 : nteq a c -> RecW fs0 a fs1 -> RecW fs0 c fs1.
Proof.
  intros E (G & R & P1 & P2).
  assert (RI : read_index a = read_index c) by (unfold read_index; now rewrite (E FIndex eq_refl)).
  split; [now apply (goodw_nt a)|]. split; [now rewrite <- RI|]. split.
  - intros d H0 H1. unfold has. rewrite <- (E (FBlob d) eq_refl). now apply P1.
  - intros d Hc. apply P2. unfold has in *. now rewrite (E (FBlob d) eq_refl).
Qed.

Lemma recw_start fs0 fs1 : GoodW fs0 -> RecW fs0 fs0 fs1.
Proof. intro G. repeat split; try apply G; auto. Qed.
Lemma recw_end fs0 fs1 : GoodW fs1 -> RecW fs0 fs1 fs1.
Proof. intro G. repeat split; try apply G; auto. Qed.

Definition WInv (s : st) : Prop :=
  GoodW (sfs s) /\ forall p, is_temp p = true -> (sctr s <= temp_ctr p)%nat -> files (sfs s) p = None.

Lemma prefix_temp_w fs0 fs1 (A : list mstep) base :
  (forall m, In m A -> forall p, touches m p -> is_temp p = true) ->
  RecW fs0 base fs1 -> forall k, RecW fs0 (apply (firstn k A) base) fs1.
Proof.
  intros HA HR k. apply (recw_nt fs0 base); [|exact HR].
  intros p Hp. symmetry. apply apply_frame. intros m Hin Ht.
  apply In_firstn in Hin. rewrite (HA m Hin p Ht) in Hp. discriminate.
Qed.

(* no steps *)
Lemma noop_w fs tags digs c : WInv (mkSt fs tags digs c) ->
  forall tags' digs', WInv (mkSt (apply [] fs) tags' digs' (S c)) /\
  forall k, RecW fs (apply (firstn k []) fs) (apply [] fs).
Proof.
  intros [G T] tags' digs'. split.
  - split; [exact G|]. cbn [sfs sctr] in *. intros p Hp Hk. apply T; [exact Hp|lia].
  - intro k. rewrite firstn_nil. now apply recw_start.
Qed.

Lemma opF_safe s o :
  WInv s ->
  WInv (runopF s o) /\
  forall k, RecW (sfs s) (crash_fs H shuffle false false false s o k) (sfs (runopF s o)).
Proof.
  intros [G T]. destruct G as (L & B & (l0 & Hl0)).
  assert (G0 : GoodW (sfs s)) by (split; [exact L|split; [exact B|now exists l0]]).
  assert (W0 : WInv (mkSt (sfs s) (stags s) (sdigs s) (sctr s))) by (split; assumption).
  unfold run_op, crash_fs, op_steps. cbv beta iota delta [auto_idx].
  destruct o as [d cont man|d r|r|d| |dd|live]; cbn [op_mem].
  - (* Push *)
    destruct (exists_file (sfs s) (FBlob d)) eqn:Ex; [exact (noop_w _ _ _ _ W0 _ _)|].
    apply exists_file_false in Ex.
    set (t := FIngest d (sctr s)).
    assert (Htmp : files (sfs s) t = None) by (apply T; [reflexivity|apply le_n]).
    destruct (H cont =? d) eqn:EH; cbn [negb].
    + (* verified: the blob is renamed into place; no index write *)
      assert (Eman : (if man then [] else @nil mstep) = []) by (destruct man; reflexivity).
      set (X := mkFile (map AChunk cont) true).
      set (A := ingest_pre (sfs s) d t cont ++ [Chmod t; Close t]).
      assert (Steps : mkdirs (sfs s) d ++ [Create t] ++ map (fun x => Write t (AChunk x)) cont ++
                      [Chmod t; Close t; Rename t (FBlob d)] ++ (if man then [] else [])
                      = A ++ [Rename t (FBlob d)]).
      { rewrite Eman, app_nil_r. unfold A, ingest_pre. rewrite <- !app_assoc. reflexivity. }
      assert (HT : only_touch A t).
      { apply only_touch_app; [intros m Hin p; now apply (ingest_pre_touch (sfs s) d t cont)|].
        intros m [<-|[<-|[]]] p Hp; cbn in Hp; [exact Hp|contradiction]. }
      assert (FAt : files (apply A (sfs s)) t = Some X).
      { unfold A. rewrite apply_app. unfold apply at 1. cbn [fold_left apply1].
        rewrite (ingest_pre_content (sfs s) d t cont Htmp). cbn [files fcontent fro]. apply upd_same. }
      set (fs1 := apply (A ++ [Rename t (FBlob d)]) (sfs s)).
      assert (F1 : forall p, files fs1 p = if fpath_eqb p (FBlob d) then Some X else files (sfs s) p).
      { intro p. unfold fs1. rewrite apply_app. unfold apply at 1. cbn [fold_left apply1]. rewrite FAt. cbn [files].
        destruct (fpath_eqb p t) eqn:Et.
        - apply fpath_eqb_spec in Et. subst p. rewrite upd_same. cbn. now rewrite Htmp.
        - assert (p <> t) by (intros ->; rewrite fpath_eqb_refl in Et; discriminate).
          rewrite upd_other by assumption. unfold upd at 1.
          destruct (fpath_eqb p (FBlob d)); [reflexivity|]. now apply (only_touch_frame A t). }
      assert (G1 : GoodW fs1).
      { split; [|split].
        - destruct L as (f & Hf & Hc). exists f. rewrite F1. cbn. now split.
        - intros d' f. rewrite F1. cbn. destruct (d' =? d) eqn:E.
          + apply N.eqb_eq in E. subst d'. intro Hf. injection Hf as <-. exists cont. split; [reflexivity|].
            now apply N.eqb_eq.
          + apply B.
        - exists l0. unfold read_index. rewrite F1. cbn. exact Hl0. }
      rewrite Steps. fold fs1.
      assert (W1 : forall tg dg, WInv (mkSt fs1 tg dg (S (sctr s)))).
      { intros tg dg. split; [exact G1|]. cbn [sfs sctr]. intros p Hp Hk. rewrite F1.
        destruct p; try discriminate; cbn; (apply T; [reflexivity|cbn in *; lia]). }
      assert (HA : forall m, In m A -> forall p, touches m p -> is_temp p = true)
        by (now apply (only_touch_temp A t)).
      assert (R1 : forall k, RecW (sfs s) (apply (firstn k (A ++ [Rename t (FBlob d)])) (sfs s)) fs1).
      { intro k. destruct (firstn_app_cases k A [Rename t (FBlob d)]) as [[E _]|(k' & E)]; rewrite E.
        - apply prefix_temp_w; [exact HA|now apply recw_start].
        - destruct k' as [|k']; cbn [firstn].
          + rewrite app_nil_r.
            pose proof (prefix_temp_w (sfs s) fs1 A (sfs s) HA (recw_start _ fs1 G0) (length A)) as Xr.
            now rewrite firstn_all in Xr.
          + rewrite firstn_nil. fold fs1. now apply recw_end. }
      destruct man; (split; [apply W1|exact R1]).
    + (* verification fails: only the temporary was touched *)
      set (ms := ingest_pre (sfs s) d t cont ++ [Close t; Unlink t]).
      assert (Steps : mkdirs (sfs s) d ++ [Create t] ++ map (fun x => Write t (AChunk x)) cont ++ [Close t; Unlink t] = ms).
      { unfold ms, ingest_pre. rewrite <- !app_assoc. reflexivity. }
      assert (HT : only_touch ms t).
      { apply only_touch_app; [intros m Hin p; now apply (ingest_pre_touch (sfs s) d t cont)|].
        intros m [<-|[<-|[]]] p Hp; cbn in Hp; [contradiction|exact Hp]. }
      assert (Ft : files (apply ms (sfs s)) t = None).
      { unfold ms. rewrite apply_app. unfold apply at 1. cbn [fold_left apply1 files]. apply upd_same. }
      assert (Fo : forall p, files (apply ms (sfs s)) p = files (sfs s) p).
      { intro p. destruct (fpath_eqb p t) eqn:E.
        - apply fpath_eqb_spec in E. subst p. now rewrite Ft, Htmp.
        - apply (only_touch_frame ms t); [exact HT|]. intros ->. rewrite fpath_eqb_refl in E. discriminate. }
      assert (G1 : GoodW (apply ms (sfs s))) by (apply (goodw_nt (sfs s)); [intros p _; now rewrite Fo|exact G0]).
      rewrite Steps.
      assert (W1 : forall tg dg, WInv (mkSt (apply ms (sfs s)) tg dg (S (sctr s)))).
      { intros tg dg. split; [exact G1|]. cbn [sfs sctr]. intros p Hp Hk. rewrite Fo. apply T; [exact Hp|lia]. }
      assert (R1 : forall k, RecW (sfs s) (apply (firstn k ms) (sfs s)) (apply ms (sfs s))).
      { intro k. apply prefix_temp_w; [now apply (only_touch_temp ms t)|now apply recw_start]. }
      destruct man; (split; [apply W1|exact R1]).
  - (* Tag: the resolver only *)
    destruct (exists_file (sfs s) (FBlob d)); exact (noop_w _ _ _ _ W0 _ _).
  - destruct (tag_get r (stags s)); exact (noop_w _ _ _ _ W0 _ _).
  - (* Delete: the unlink, nothing else *)
    assert (Eix : (if existsb (fun e => snd e =? d) (stags s) || memN d (sdigs s) then [] else @nil mstep) = [])
      by (destruct (existsb (fun e => snd e =? d) (stags s) || memN d (sdigs s)); reflexivity).
    rewrite Eix. cbn [app].
    destruct (exists_file (sfs s) (FBlob d)) eqn:Ex; [|exact (noop_w _ _ _ _ W0 _ _)].
    set (fs1 := apply [Unlink (FBlob d)] (sfs s)).
    assert (F1 : forall p, files fs1 p = upd (files (sfs s)) (FBlob d) None p) by reflexivity.
    assert (G1 : GoodW fs1).
    { split; [|split].
      - destruct L as (f & Hf & Hc). exists f. rewrite F1, upd_other by discriminate. now split.
      - intros d' f. rewrite F1. destruct (N.eq_dec d' d) as [->|Hn].
        + rewrite upd_same. discriminate.
        + rewrite upd_other by congruence. apply B.
      - exists l0. unfold read_index. rewrite F1, upd_other by discriminate. exact Hl0. }
    split.
    + split; [exact G1|]. cbn [sfs sctr]. intros p Hp Hk. rewrite F1, upd_other; [apply T; [exact Hp|lia]|].
      intros ->. discriminate.
    + intros [|k]; cbn [firstn]; [now apply recw_start|]. rewrite firstn_nil. fold fs1. now apply recw_end.
  - (* SaveIndex: the only operation that writes index.json *)
    pose proof (T (FIndexTmp (sctr s)) eq_refl (le_n _)) as Hnone.
    destruct (idx_final shuffle (sctr s) (stags s) (sdigs s) (sfs s) Hnone) as (F1 & F2 & F3).
    set (ix := index_steps shuffle false (sctr s) (stags s) (sdigs s)) in *.
    set (fs1 := apply ix (sfs s)) in *.
    assert (G1 : GoodW fs1).
    { split; [|split].
      - destruct L as (f & Hf & Hc). exists f. rewrite F3; [now split|discriminate|discriminate].
      - intros d' f. rewrite F3; [apply B|discriminate|discriminate].
      - eexists. unfold read_index. rewrite F1. reflexivity. }
    split.
    + split; [exact G1|]. cbn [sfs sctr]. intros p Hp Hk. destruct (fpath_eqb p (FIndexTmp (sctr s))) eqn:E.
      * apply fpath_eqb_spec in E. subst p. exact F2.
      * rewrite F3; [apply T; [exact Hp|lia]|intros ->; discriminate|intros ->; rewrite fpath_eqb_refl in E; discriminate].
    + intro k. destruct (Nat.lt_ge_cases k 4) as [Hk|Hk].
      * apply (recw_nt (sfs s) (sfs s)); [|now apply recw_start].
        intros p Hp. symmetry. exact (idx_prefix H shuffle (sctr s) (stags s) (sdigs s) (sfs s) k Hk p Hp).
      * unfold ix. rewrite (idx_prefix_all shuffle) by exact Hk. fold ix. fold fs1. now apply recw_end.
  - (* TagDig *)
    destruct (exists_file (sfs s) (FBlob dd)); exact (noop_w _ _ _ _ W0 _ _).
  - (* Forget *)
    exact (noop_w _ _ _ _ W0 _ _).
Qed.

Lemma winv_init : WInv init.
Proof.
  split.
  - split; [eexists; split; reflexivity|split; [intros d f Hf; discriminate|now exists []]].
  - intros p Hp _. destruct p; try discriminate; reflexivity.
Qed.

Lemma winv_run h : forall s, WInv s -> WInv (run H shuffle false false false h s).
Proof.
  induction h as [|o h IH]; intros s W; [exact W|]. cbn [run fold_left]. apply IH. now apply opF_safe.
Qed.

Theorem autosave_off_partial h o k :
  let s := run H shuffle false false false h init in
  RecW (sfs s) (crash_fs H shuffle false false false s o k) (sfs (run_op H shuffle false false false s o)).
Proof. intro s. apply opF_safe. apply winv_run. apply winv_init. Qed.

End Off.

Theorem autosave_off_partial_src :
  forall (H : list N -> N) (shuffle : nat -> list entry -> list entry) (h : list op) (o : op) (k : nat),
    let s := run H shuffle src_inplace src_unlink_first false h init in
    let fsk := crash_fs H shuffle src_inplace src_unlink_first false s o k in
    let fs1 := sfs (run_op H shuffle src_inplace src_unlink_first false s o) in
    layout_ok fsk /\ blob_ok H fsk /\ (exists l, read_index fsk = Some l) /\
    (read_index fsk = read_index (sfs s) \/ read_index fsk = read_index fs1) /\
    (forall d, has (sfs s) (FBlob d) -> has fs1 (FBlob d) -> has fsk (FBlob d)) /\
    (forall d, has fsk (FBlob d) -> has (sfs s) (FBlob d) \/ has fs1 (FBlob d)).
Proof.
  rewrite src_inplace_false, src_unlink_first_false. intros H shuffle h o k s fsk fs1.
  destruct (autosave_off_partial H shuffle h o k) as ((L & B & X) & R & P1 & P2).
  repeat split; assumption.
Qed.
