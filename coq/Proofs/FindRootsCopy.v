(* C03 end to end with C01's theorem in place of the copy-closure hypothesis:
   the copy phase of ExtendedCopyGraph is a set of copyGraph runs (Model/CopySpec.v,
   mode CopyGraph), one per root; C01's closure_lemma gives each root's graph. *)
From Oras Require Import Base.Prelude Model.FindRoots Proofs.FindRoots.
From Oras Require Import Model.CopySpec Proofs.CopySpec.
Local Open Scope nat_scope.

(* C03's link-reachability over C01's (foreign layers cut) successor function is C01's reach *)
Lemma down_reach (g : graph) a x : down (succ' g) a x <-> Proofs.CopySpec.reach g a x.
Proof.
  split; intro H.
  - induction H; [constructor | econstructor; eauto].
  - induction H; [constructor | econstructor; eauto].
Qed.

(* one copyGraph run per root: an accepted trace of C01's transition system that
   returned success from a link-closed destination, and whose destination content
   is part of the final destination (stores only grow during a copy) *)
Definition copy_run_of (g : graph) (final : list node) (r : nat) : Prop :=
  exists (c : cfg) (d0 : list node) (tr : list event) (st : state),
    c_root c = r /\ closed_nodes g d0 /\
    accepts g c d0 tr = Some st /\ returned st = Some true /\
    (forall x, has g (dst st) x = true -> has g final x = true).

Lemma copy_closure_from_C01 (g : graph) (final : list node) (roots : list desc) :
  mt_consistent g ->
  (forall r, In r roots -> copy_run_of g final (d_id r)) ->
  forall r, In r roots -> forall x, down (succ' g) (d_id r) x -> has g final x = true.
Proof.
  intros Hmt Hruns r Hr x Hx.
  destruct (Hruns r Hr) as (c & d0 & tr & st & Hroot & Hcl & Hacc & Hret & Hincl).
  apply Hincl. apply (closure_lemma g c d0 tr st Hcl Hmt Hacc Hret).
  rewrite Hroot. now apply down_reach.
Qed.

(* unlimited depth: the destination holds the graph of every member of the given
   node's (filtered) upward closure *)
Lemma extended_closure_C01 (s : source) (fs : list filter) (limit : Z) (nd : desc)
      (rank : nat -> nat) (fuel : nat) (roots : list desc) (g : graph) (final : list node) :
  acyclic_source s rank ->
  (forall x p, In p (s_preds s x) -> In x (succ' g (d_id p))) ->
  mt_consistent g ->
  find_roots fuel s fs limit nd = Some roots ->
  (forall r, In r roots -> copy_run_of g final (d_id r)) ->
  (limit <= 0)%Z ->
  forall a, anc s fs (d_id nd) a ->
  forall x, Proofs.CopySpec.reach g a x -> has g final x = true.
Proof.
  intros Hac Hinv Hmt Hf Hruns Hl a Ha x Hx.
  apply (extended_closure_gen s fs limit nd (succ' g) Hinv (fun y => has g final y = true)
           rank fuel roots Hac Hl Hf (copy_closure_from_C01 g final roots Hmt Hruns) a Ha x).
  now apply down_reach.
Qed.

(* any depth: the given node's own graph is held *)
Lemma depth_own_graph_C01 (s : source) (fs : list filter) (limit : Z) (nd : desc)
      (rank : nat -> nat) (fuel : nat) (roots : list desc) (g : graph) (final : list node) :
  acyclic_source s rank ->
  (forall x p, In p (s_preds s x) -> In x (succ' g (d_id p))) ->
  mt_consistent g ->
  find_roots fuel s fs limit nd = Some roots ->
  (forall r, In r roots -> copy_run_of g final (d_id r)) ->
  forall x, Proofs.CopySpec.reach g (d_id nd) x -> has g final x = true.
Proof.
  intros Hac Hinv Hmt Hf Hruns x Hx.
  apply (depth_own_graph s fs limit nd (succ' g) Hinv (fun y => has g final y = true)
           rank fuel roots Hac Hf (copy_closure_from_C01 g final roots Hmt Hruns) x).
  now apply down_reach.
Qed.

(* the hypotheses are satisfiable: C01's own example run (g_ex, c_ex, tr_ex) as the
   copy of the single root 3 found above node 1 *)
Definition ex_src_c01 : source :=
  mkSource (fun x => match x with
                     | 0 => [mkDesc 2 [] None; mkDesc 3 [] None]
                     | 1 => [mkDesc 2 [] None]
                     | 2 => [mkDesc 3 [] None]
                     | _ => [] end)
           (fun x => match x with 2 => KImage | 3 => KIndex | _ => KOther end)
           (fun _ => []) (fun _ => []) (fun _ => None) false.

Lemma ex_c01_bridge :
  exists final,
    acyclic_source ex_src_c01 (fun x => x) /\
    (forall x p, In p (s_preds ex_src_c01 x) -> In x (succ' g_ex (d_id p))) /\
    mt_consistent g_ex /\
    find_roots (fuel_for ex_src_c01 4) ex_src_c01 [] 0%Z (mkDesc 1 [] None) = Some [mkDesc 3 [] None] /\
    (forall r, In r [mkDesc 3 [] None] -> copy_run_of g_ex final (d_id r)) /\
    present_nodes g_ex final = [0; 1; 2; 3].
Proof.
  destruct example_run as (Hcl & Hmt & _ & st & Hacc & Hret & _ & Hpres).
  exists (dst st). repeat split; auto.
  - intros x p H. destruct x as [|[|[|x]]]; simpl in H;
      repeat (destruct H as [<- | H]; [simpl; lia|]); contradiction.
  - intros x p H. destruct x as [|[|[|x]]]; simpl in H;
      repeat (destruct H as [<- | H]; [vm_compute; auto|]); contradiction.
  - intros r [<- | []]. exists c_ex, [1], tr_ex, st. repeat split; auto.
Qed.
