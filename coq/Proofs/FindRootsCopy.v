(* C03 end to end with C01's theorem in place of the copy-closure hypothesis:
   the copy phase of ExtendedCopyGraph is a set of copyGraph runs (Model/CopySpec.v,
   mode CopyGraph), one per root; C01's closure_lemma gives each root's graph. *)
From Oras Require Import Base.Prelude Model.FindRoots Proofs.FindRoots.
From Oras Require Import Model.CopySpec Proofs.CopySpec.
Local Open Scope nat_scope.

(* C03's link-reachability over C01's (foreign layers cut) successor function is C01's reach *)
Lemma down_reach (g : graph) a x : down (succ' g) a x <-> Proofs.CopySpec.reach g a x.
Proof.
  split; intro H.
  - induction H; [constructor | econstructor; eauto].
  - induction H; [constructor | econstructor; eauto].
Qed.

(* ---- ExtendedCopyGraph's copy phase is ONE run of C01's transition system: all roots are
   dispatched by one syncutil.Go and share the tracker, the proxy and the limiter
   (cfg: c_root = one root, c_xroots = the others).  C01 proves closure below c_root;
   the same invariants give it below every further root: "Ret true" is only accepted
   when every root is Done. *)

Lemma step_ret_true_x g c st e st' : step g c st e = Some st' -> returned st' = Some true ->
  forall r, In r (c_xroots c) -> ph st' r = Done.
Proof.
  intros H Hr. step_inv H; cbn [set_ph ph dst cached tag returned] in *; try congruence.
  intros r Hin.
  match goal with Hx : forallb (fun r => is_done (ph st r)) _ = true |- _ =>
    rewrite forallb_forall in Hx; specialize (Hx r Hin) end.
  destruct (ph st r); simpl in *; congruence.
Qed.

Lemma run_ret_true_x g c tr : forall st st', run g c st tr = Some st' ->
  returned st = None -> returned st' = Some true ->
  forall r, In r (c_xroots c) -> ph st' r = Done.
Proof.
  induction tr as [|e tr IH]; simpl; intros st st' H Hn Hr.
  - injection H as <-. congruence.
  - destruct (step g c st e) as [st1|] eqn:E; [|discriminate].
    destruct (returned st1) as [bb|] eqn:R1.
    + destruct tr as [|e' tr']; simpl in H.
      * injection H as <-. eapply step_ret_true_x; eauto.
      * rewrite (step_after_ret g c st1 e' bb R1) in H. discriminate.
    + eapply IH; eauto.
Qed.

(* closure below every root of a successful run *)
Lemma closure_all_roots g c d0 tr st :
  closed_nodes g d0 -> mt_consistent g ->
  accepts g c d0 tr = Some st -> returned st = Some true ->
  forall r, In r (c_root c :: c_xroots c) ->
  forall n, Proofs.CopySpec.reach g r n -> has g (dst st) n = true.
Proof.
  intros Hc Hmt Ha Hr r [<- | Hin] n Hn.
  - eapply closure_lemma; eauto.
  - unfold accepts in Ha.
    pose proof (run_inv g c d0 tr _ _ (init_inv g c d0) Ha) as I.
    pose proof (run_ret_true_x g c tr _ _ Ha eq_refl Hr r Hin) as Hd.
    eapply reach_closed; eauto using (i_closed g c d0 st I Hc).
    apply (i_present g c d0 st I). now rewrite Hd.
Qed.

(* the copy phase of ExtendedCopyGraph for the roots found: one accepted run that dispatches
   every root, returned success from a link-closed destination, and whose destination content
   is (part of) the final destination *)
Definition extended_copy_run (g : graph) (final : list node) (roots : list desc) : Prop :=
  exists (c : cfg) (d0 : list node) (tr : list event) (st : state),
    (forall r, In r roots -> In (d_id r) (c_root c :: c_xroots c)) /\
    closed_nodes g d0 /\
    accepts g c d0 tr = Some st /\ returned st = Some true /\
    (forall x, has g (dst st) x = true -> has g final x = true).

Lemma copy_closure_from_C01 (g : graph) (final : list node) (roots : list desc) :
  mt_consistent g ->
  extended_copy_run g final roots ->
  forall r, In r roots -> forall x, down (succ' g) (d_id r) x -> has g final x = true.
Proof.
  intros Hmt (c & d0 & tr & st & Hroots & Hcl & Hacc & Hret & Hincl) r Hr x Hx.
  apply Hincl. apply (closure_all_roots g c d0 tr st Hcl Hmt Hacc Hret (d_id r) (Hroots r Hr)).
  now apply down_reach.
Qed.

(* unlimited depth: the destination holds the graph of every member of the given
   node's (filtered) upward closure *)
Lemma extended_closure_C01 (s : source) (fs : list filter) (limit : Z) (nd : desc)
      (rank : nat -> nat) (fuel : nat) (roots : list desc) (g : graph) (final : list node) :
  acyclic_source s rank ->
  (forall x p, In p (s_preds s x) -> In x (succ' g (d_id p))) ->
  mt_consistent g ->
  find_roots fuel s fs limit nd = Some roots ->
  extended_copy_run g final roots ->
  (limit <= 0)%Z ->
  forall a, anc s fs (d_id nd) a ->
  forall x, Proofs.CopySpec.reach g a x -> has g final x = true.
Proof.
  intros Hac Hinv Hmt Hf Hruns Hl a Ha x Hx.
  apply (extended_closure_gen s fs limit nd (succ' g) Hinv (fun y => has g final y = true)
           rank fuel roots Hac Hl Hf (copy_closure_from_C01 g final roots Hmt Hruns) a Ha x).
  now apply down_reach.
Qed.

(* any depth: the given node's own graph is held *)
Lemma depth_own_graph_C01 (s : source) (fs : list filter) (limit : Z) (nd : desc)
      (rank : nat -> nat) (fuel : nat) (roots : list desc) (g : graph) (final : list node) :
  acyclic_source s rank ->
  (forall x p, In p (s_preds s x) -> In x (succ' g (d_id p))) ->
  mt_consistent g ->
  find_roots fuel s fs limit nd = Some roots ->
  extended_copy_run g final roots ->
  forall x, Proofs.CopySpec.reach g (d_id nd) x -> has g final x = true.
Proof.
  intros Hac Hinv Hmt Hf Hruns x Hx.
  apply (depth_own_graph s fs limit nd (succ' g) Hinv (fun y => has g final y = true)
           rank fuel roots Hac Hf (copy_closure_from_C01 g final roots Hmt Hruns) x).
  now apply down_reach.
Qed.

(* the hypotheses are satisfiable with two roots that share a child: blob 0 <- manifests 1 and 2
   (both roots of the upward closure of 0); one run, Concurrency 2, the two roots interleaved,
   the shared blob copied once *)
Definition g_two : graph :=
  mkGraph 3 (fun n => match n with 1 => [0] | 2 => [0] | _ => [] end) (fun _ => false)
          (fun n => Nat.leb 1 n) (fun n => n).
Definition c_two : cfg := mkCfg 2 MGraph 1 false true [] [2].
Definition tr_two : list event :=
  [ExB 1; ExB 2; ExE 1 false; ExE 2 false; SFB 1; SFE 1; SFC 1; SFB 2; SFE 2; SFC 2;
   ExB 0; ExE 0 false; Cb CPre 0; SFB 0; SFE 0; PuB 0 false; PuE 0 false POk; SFC 0; Cb CPost 0;
   Cb CPre 2; PuB 2 false; PuE 2 false POk; Cb CPost 2;
   Cb CPre 1; PuB 1 false; PuE 1 false POk; Cb CPost 1; Ret true].
Definition src_two : source :=
  mkSource (fun x => match x with 0 => [mkDesc 1 [] None; mkDesc 2 [] None] | _ => [] end)
           (fun x => match x with 0 => KOther | _ => KImage end)
           (fun _ => []) (fun _ => []) (fun _ => None) false.

Lemma ex_two_roots :
  acyclic_source src_two (fun x => x) /\
  (forall x p, In p (s_preds src_two x) -> In x (succ' g_two (d_id p))) /\
  mt_consistent g_two /\
  find_roots (fuel_for src_two 3) src_two [] 0%Z (mkDesc 0 [] None)
    = Some [mkDesc 2 [] None; mkDesc 1 [] None] /\
  extended_copy_run g_two [1; 2; 0] [mkDesc 2 [] None; mkDesc 1 [] None].
Proof.
  repeat split.
  - intros x p H. destruct x as [|x]; simpl in H;
      repeat (destruct H as [<- | H]; [simpl; lia|]); contradiction.
  - intros x p H. destruct x as [|x]; simpl in H;
      repeat (destruct H as [<- | H]; [vm_compute; auto|]); contradiction.
  - apply mt_consistent_inj. auto.
  - exists c_two, [], tr_two.
    destruct (accepts g_two c_two [] tr_two) as [st|] eqn:E; [|vm_compute in E; discriminate].
    exists st. assert (Hst : dst st = [1; 2; 0] /\ returned st = Some true).
    { vm_compute in E. injection E as <-. split; reflexivity. }
    destruct Hst as (Hd & Hr). repeat split; auto.
    + intros r [<- | [<- | []]]; simpl; auto.
    + intros m x [].
    + now rewrite Hd.
Qed.

(* ---- nothing outside: whatever a run (successful or not) adds to the destination lies below a
   dispatched root (C01's invariant i_orig, which holds with further roots too) ---- *)
Lemma reach_snoc g a p x :
  Proofs.CopySpec.reach g a p -> In x (succ' g p) -> Proofs.CopySpec.reach g a x.
Proof.
  intros H Hx. induction H as [a | a y b' Hy H IH].
  - eapply reach_step; [exact Hx | constructor].
  - eapply reach_step; [exact Hy | apply IH; exact Hx].
Qed.

Lemma dp_reach g c d0 m :
  dp g c d0 m -> exists r, In r (c_root c :: c_xroots c) /\ Proofs.CopySpec.reach g r m.
Proof.
  induction 1 as [| x Hx | p x Hp IH Hab Hx].
  - exists (c_root c). split; [left; reflexivity | constructor].
  - exists x. split; [right; exact Hx | constructor].
  - destruct IH as (r & Hr & Hreach). exists r. split; auto. eapply reach_snoc; eauto.
Qed.

Lemma run_writes_below_roots g c d0 tr st :
  accepts g c d0 tr = Some st ->
  forall m, In m (dst st) ->
    In m d0 \/ exists r, In r (c_root c :: c_xroots c) /\ Proofs.CopySpec.reach g r m.
Proof.
  intros Ha m Hm. unfold accepts in Ha.
  pose proof (run_inv g c d0 tr _ _ (init_inv g c d0) Ha) as I.
  destruct (i_orig g c d0 st I m Hm) as [H | (H & _)]; [left; exact H | right; exact (dp_reach g c d0 m H)].
Qed.

(* the copy phase dispatched only roots that findRoots returned; [final] is what the
   destination holds at any point of / after the run *)
Definition extended_copy_run_only (g : graph) (d0 final : list node) (roots : list desc) : Prop :=
  exists (c : cfg) (tr : list event) (st : state),
    (forall r, In r (c_root c :: c_xroots c) -> In r (map d_id roots)) /\
    accepts g c d0 tr = Some st /\
    (forall x, In x final -> In x (dst st)).

Lemma depth_nothing_outside_C01 (s : source) (fs : list filter) (limit : Z) (nd : desc)
      (rank : nat -> nat) (fuel : nat) (roots : list desc) (g : graph) (d0 final : list node) :
  acyclic_source s rank -> (0 < limit)%Z ->
  find_roots fuel s fs limit nd = Some roots ->
  extended_copy_run_only g d0 final roots ->
  forall x, In x final ->
    In x d0 \/
    exists a k, (Z.of_nat k <= limit)%Z /\ anc_steps s fs k (d_id nd) a /\ Proofs.CopySpec.reach g a x.
Proof.
  intros Hac Hl Hf (c & tr & st & Hroots & Hacc & Hfin) x Hx.
  destruct (depth_upper s fs rank limit nd (succ' g) (fun y => In y final) (fun y => In y d0)
              fuel roots Hac Hl Hf) with (x := x) as [Hi | (a & k & Hk & Hp & Hd)]; auto.
  - intros y Hy. destruct (run_writes_below_roots g c d0 tr st Hacc y (Hfin y Hy)) as [H | (r0 & Hr0 & Hreach)]; [auto|].
    right. apply Hroots in Hr0. apply in_map_iff in Hr0. destruct Hr0 as (r & <- & Hr).
    exists r. split; auto. now apply down_reach.
  - right. exists a, k. repeat split; auto. now apply down_reach.
Qed.

(* the unlimited case: nothing outside the graphs of the (filtered) upward closure *)
Lemma nothing_outside_C01 (s : source) (fs : list filter) (limit : Z) (nd : desc)
      (rank : nat -> nat) (fuel : nat) (roots : list desc) (g : graph) (d0 final : list node) :
  acyclic_source s rank ->
  find_roots fuel s fs limit nd = Some roots ->
  extended_copy_run_only g d0 final roots ->
  forall x, In x final ->
    In x d0 \/ exists a, anc s fs (d_id nd) a /\ Proofs.CopySpec.reach g a x.
Proof.
  intros Hac Hf (c & tr & st & Hroots & Hacc & Hfin) x Hx.
  destruct (run_writes_below_roots g c d0 tr st Hacc x (Hfin x Hx)) as [H | (r0 & Hr0 & Hreach)]; [auto|].
  right. apply Hroots in Hr0. apply in_map_iff in Hr0. destruct Hr0 as (r & <- & Hr).
  exists (d_id r). split; auto.
  destruct (roots_cover_node (find_preds s fs) limit nd rank (find_preds_rank s fs rank Hac) fuel roots Hf)
    as (_ & Hall). now apply Hall.
Qed.

Lemma ex_two_roots_only :
  extended_copy_run_only g_two [] [1; 2; 0] [mkDesc 2 [] None; mkDesc 1 [] None].
Proof.
  exists c_two, tr_two.
  destruct (accepts g_two c_two [] tr_two) as [st|] eqn:E; [|vm_compute in E; discriminate].
  exists st. assert (Hd : dst st = [1; 2; 0]) by (vm_compute in E; injection E as <-; reflexivity).
  repeat split; auto.
  - intros r [<- | [<- | []]]; simpl; auto.
  - now rewrite Hd.
Qed.
