(* C14 — InvS preserved by EGet, EAssign *)
From Oras Require Import Base.Prelude Model.Referrers Proofs.Referrers Model.Merge Proofs.MergeBase.
From Coq Require Import Lia.

Lemma stepS_get sg s t c s' : InvS s -> step sg s (EGet t c) = Some s' -> InvS s'.
Proof.
  intros I H. simpl in H.
  destruct (pcs s t) eqn:Hpc; try discriminate.
  destruct (is_empty (cdesc c)) eqn:Hne0; try discriminate.
  assert (Hnb : ~ In t (batch s)) by (apply not_in_batch; auto; rewrite Hpc; [discriminate|reflexivity]).
  assert (Hnp : ~ In t (map fst (pending s))) by (apply not_in_pending; auto; rewrite Hpc; discriminate).
  destruct (pool s) as [rc|] eqn:Hpool; injection H as <-.
  + dS I. constructor; simpl.
    all: try solve [solveS t | tomS].
    all: try solve [intros t0 c0 Hin; assert (t0 <> t) by (intro; subst; eauto using in_fst);
                    rewrite !upd_neq by auto; auto].
    * destruct i_pool0 as (hs & Hnd & Hin & Hp). rewrite Hpool in Hp. destruct Hp as [-> Hp].
      exists (t :: hs). repeat split; try discriminate.
      -- constructor; auto. intro Hx. apply Hin in Hx. rewrite Hpc in Hx. discriminate.
      -- intros [<-|Hx]; [now rewrite upd_eq|]. tcase t0 t; auto. now apply Hin.
      -- intro Hx. tcase t0 t; [now left|]. right. now apply Hin.
  + destruct (pool_none s I Hpool) as (Hh & Hi & Hpd).
    destruct (i_nomain s I Hi) as (Ht & Hc & _ & Ha).
    assert (Hnm : forall t0, is_main (pcs s t0) = false).
    { intro t0. destruct (is_main (pcs s t0)) eqn:E; auto. apply main_holding in E. rewrite Hh in E. discriminate. }
    dS I. constructor; simpl.
    all: try solve [solveS t].
    all: try solve [constructor].
    all: try solve [intros t0 Hx; tcase t0 t; [discriminate|]; try apply post_commit_main in Hx; rewrite Hnm in Hx; discriminate].
    all: try solve [intro Hx; congruence].
    all: try solve [intros t0 Hx; tcase t0 t; [discriminate|]; exfalso; specialize (Hh t0); rewrite Hx in Hh; discriminate].
    exists [t]. repeat split; try discriminate.
    -- constructor; [simpl; tauto|constructor].
    -- intros [<-|[]]. now rewrite upd_eq.
    -- intro Hx. tcase t0 t; [now left|]. rewrite Hh in Hx. discriminate.
Qed.

Lemma stepS_assign sg s t s' : InvS s -> step sg s (EAssign t) = Some s' -> InvS s'.
Proof.
  intros I H. simpl in H.
  destruct (pcs s t) eqn:Hpc; try discriminate.
  assert (Hnb : ~ In t (batch s)) by (apply not_in_batch; auto; rewrite Hpc; [discriminate|reflexivity]).
  assert (Hnp : ~ In t (map fst (pending s))) by (apply not_in_pending; auto; rewrite Hpc; discriminate).
  assert (Harg : arg s t = c) by (eapply i_got; eauto).
  assert (Hne_items : forall t0 c0, In (t0, c0) (items s) -> t0 <> t) by (intros t0 c0 Hin ->; eauto using in_fst).
  assert (Hne_pend : forall t0 c0, In (t0, c0) (pending s) -> t0 <> t) by (intros t0 c0 Hin ->; eauto using in_fst).
  destruct (committed s) eqn:Hc; injection H as <-.
  + dS I. constructor; simpl.
    all: try solve [solveS t | poolS t | tomS].
    all: try solve [intros t0 c0 Hin; rewrite !upd_neq by eauto; auto].
    all: try solve [intros t0 Hx; tcase t0 t; [right; apply in_map_fst_snoc; auto|];
                    destruct (i_wait0 t0 Hx); [auto|right; apply in_map_fst_snoc; auto]].
    intros t0 c0 Hin. apply in_snoc in Hin. destruct Hin as [Hin|Hin].
    * rewrite !upd_neq by eauto. auto.
    * injection Hin as -> ->. rewrite upd_eq. auto.
  + dS I. constructor; simpl.
    all: try solve [solveS t | poolS t].
    all: try solve [intros t0 c0 Hin; apply in_snoc in Hin; destruct Hin as [Hin|Hin];
                    [rewrite !upd_neq by eauto; auto | injection Hin as -> ->; rewrite upd_eq; auto]].
    all: try solve [intros t0 c0 Hin; rewrite !upd_neq by eauto; destruct (i_pend0 t0 c0 Hin) as (A & B & C);
                    repeat split; auto; unfold batch; simpl; rewrite in_map_fst_snoc; intros [Hx|Hx]; [auto|];
                    subst; eapply Hne_pend; eauto].
    all: try solve [intros t0 Hx; tcase t0 t; [discriminate|]; destruct (i_main_in0 t0 Hx) as [A B]; split;
                    [unfold batch; simpl; rewrite in_map_fst_snoc; auto
                    |unfold batch in A; destruct (items s); [destruct A|]; simpl; auto]].
    all: try solve [intro Hx; exfalso; eapply snoc_not_nil; eauto].
    all: try solve [intros t0 Hx; unfold batch; simpl; rewrite in_map_fst_snoc; tcase t0 t; [auto|];
                    destruct (i_wait0 t0 Hx); auto].
    intros _. destruct (items s) as [|it its] eqn:Ei; [now left|]. simpl.
    apply token_or_main_keep; [left; rewrite Hpc; reflexivity|]. apply i_token_or_main0. discriminate.
Qed.

(* a step of the main thread that stays main: only its pc, the committed flag,
   the registry and ghost fields change *)
