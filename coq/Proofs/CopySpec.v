(* Lemmas about the copyGraph transition system (Model/CopySpec.v): invariants of
   every accepted trace, closure / copy_result / tagging (C01), work accounting (C04). *)
From Oras Require Import Base.Prelude Model.CopySpec Model.CopyTop.
Local Open Scope nat_scope.

(* ------------------------------------------------------------------ basics *)

Lemma memb_In n l : memb n l = true <-> In n l.
Proof.
  unfold memb. rewrite existsb_exists. split.
  - intros [x [Hx He]]. apply Nat.eqb_eq in He. now subst.
  - intro H. exists n. split; [assumption | apply Nat.eqb_refl].
Qed.

Lemma has_cons g d x n : has g (x :: d) n = Nat.eqb (g_dkey g x) (g_dkey g n) || has g d n.
Proof. reflexivity. Qed.

Lemma has_mono g d x n : has g d n = true -> has g (x :: d) n = true.
Proof. intro H. rewrite has_cons, H. apply orb_true_r. Qed.

Lemma has_self g d n : has g (n :: d) n = true.
Proof. rewrite has_cons, Nat.eqb_refl. reflexivity. Qed.

Lemma has_In g d n : In n d -> has g d n = true.
Proof.
  intro H. unfold has. apply existsb_exists. exists n. split; [assumption | apply Nat.eqb_refl].
Qed.

Lemma has_spec g d n : has g d n = true <-> exists m, In m d /\ g_dkey g m = g_dkey g n.
Proof.
  unfold has. rewrite existsb_exists. split; intros [m [Hm He]]; exists m; split; auto.
  - now apply Nat.eqb_eq.
  - now apply Nat.eqb_eq.
Qed.

Lemma has_key g d n n' : g_dkey g n = g_dkey g n' -> has g d n = has g d n'.
Proof. intro H. unfold has. now rewrite H. Qed.

Lemma has_app g d1 d2 n : has g (d1 ++ d2) n = has g d1 n || has g d2 n.
Proof. unfold has. apply existsb_app. Qed.

Lemma upd_same {A} (f : nat -> A) n v : upd f n v n = v.
Proof. unfold upd. now rewrite Nat.eqb_refl. Qed.

Lemma upd_other {A} (f : nat -> A) n v m : m <> n -> upd f n v m = f m.
Proof. intro H. unfold upd. apply Nat.eqb_neq in H. now rewrite H. Qed.

(* ------------------------------------------------------------------ step inversion *)

(* Break [step g c st e = Some st'] into its successful transitions. *)
Ltac step_inv H :=
  unfold step, cb_next in H;
  match type of H with
  | context [returned ?st] => destruct (returned st) eqn:?Hret; [discriminate H|]
  end;
  match type of H with
  | context [match ?e with ExB _ => _ | _ => _ end] => destruct e
  end;
  repeat match type of H with
  | context [match ?x with _ => _ end] => destruct x eqn:?Hd; try discriminate H
  end;
  repeat match goal with
  | Hx : match ?x with _ => _ end = Some _ |- _ => destruct x eqn:?Hd; try discriminate Hx
  end;
  repeat match goal with
  | Hx : Some _ = Some _ |- _ => injection Hx as Hx; try subst
  end;
  repeat match goal with
  | Hx : (_ && _) = true |- _ => apply andb_true_iff in Hx; destruct Hx
  end.

Section Inv.
Variable g : graph.
Variable c : cfg.
Variable d0 : list node.

Definition closed_nodes (d : list node) : Prop :=
  forall m x, In m d -> In x (succ' g m) -> has g d x = true.

(* content with one digest has one set of (non-foreign) successors, up to digest *)
Definition mt_consistent : Prop :=
  forall m m' x, g_dkey g m = g_dkey g m' -> In x (succ' g m) ->
    exists x', In x' (succ' g m') /\ g_dkey g x' = g_dkey g x.

Inductive reach : node -> node -> Prop :=
| reach_refl a : reach a a
| reach_step a x b : In x (succ' g a) -> reach x b -> reach a b.

(* dispatch-reachable: every proper ancestor on the path is absent from the initial destination *)
Inductive dp : node -> Prop :=
| dp_root : dp (c_root c)
| dp_xroot x : In x (c_xroots c) -> dp x
| dp_step p x : dp p -> has g d0 p = false -> In x (succ' g p) -> dp x.

(* phases of a node whose content is in the destination *)
Definition present_ph (p : phase) : bool :=
  match p with
  | SkipP | Rdy true | F1 true | F2 true | Pushing true _ | Closing _ | TagP0 _ | TagP1 _ | PostP | Done
  | MountedP => true
  | _ => false
  end.

(* phases after PreCopy on the not-found path *)
Definition settled_ph (p : phase) : bool :=
  match p with
  | Rdy false | F1 false | F2 false | Pushing false _ | Closing false | TagP0 false | TagP1 false | PostP
  | MtRdy | Mounting | MtPre | MtF1 | MtF2 | MtC | MountedP => true
  | _ => false
  end.

(* the tag clause holds when a mounted root gets tagged, or the root cannot be mounted *)
Definition tag_ok : bool := c_tagmounted c || negb (c_mount c && negb (g_ismf g (c_root c))).

(* the fallback inside Mount *)
Definition mtfb_ph (p : phase) : bool :=
  match p with MtPre | MtF1 | MtF2 | MtC => true | _ => false end.

(* phases of the mount path *)
Definition mt_ph (p : phase) : bool :=
  match p with MtRdy | Mounting | MtPre | MtF1 | MtF2 | MtC | MountedP => true | _ => false end.

(* phases of a node that was probed and found absent *)
Definition absent_ph (p : phase) : bool :=
  match p with
  | ExQ false | NeedFetch | MF1 | MF2 | Waiting => true
  | p => settled_ph p
  end.

(* phases with the skip flag: only the root of a ReferencePusher copy *)
Definition skflag_ph (p : phase) : bool :=
  match p with
  | Rdy true | F1 true | F2 true | Pushing true _ | Closing true => true
  | _ => false
  end.

Definition tagging_ph (p : phase) : bool :=
  match p with TagP0 _ | TagP1 _ => true | _ => false end.

Record Inv (st : state) : Prop := {
  i_closed : closed_nodes d0 -> closed_nodes (dst st);
  i_present : forall n, present_ph (ph st n) = true -> has g (dst st) n = true;
  i_settled : forall n, settled_ph (ph st n) = true -> forall x, In x (succ' g n) -> ph st x = Done;
  i_bound : forall n, ph st n <> Idle -> n < g_n g;
  i_dp : forall n, ph st n <> Idle -> dp n;
  i_absent : forall n, absent_ph (ph st n) = true -> has g d0 n = false;
  i_mono : forall n, has g d0 n = true -> has g (dst st) n = true;
  i_orig : forall m, In m (dst st) -> In m d0 \/ (dp m /\ has g d0 m = false);
  i_skflag : forall n, skflag_ph (ph st n) = true -> root_refpush c n = true;
  i_tagging : forall n, tagging_ph (ph st n) = true -> root_tagger c n = true;
  i_noskip : root_refpush c (c_root c) = true -> ph st (c_root c) <> SkipP;
  i_mt : forall n, mt_ph (ph st n) = true -> c_mount c = true /\ g_ismf g n = false;
  i_tagroot : tag st = None \/ tag st = Some (c_root c);
  i_mtfb : forall n, mtfb_ph (ph st n) = true -> root_refpush c n = false;
  i_tagged : c_mode c <> MGraph -> tag_ok = true ->
             (ph st (c_root c) = PostP \/ ph st (c_root c) = Done \/
              (root_refpush c (c_root c) = true /\ exists sk, ph st (c_root c) = Closing sk)) ->
             tag st <> None
}.

Lemma is_root_eq n : is_root c n = true -> n = c_root c.
Proof. unfold is_root. apply Nat.eqb_eq. Qed.

Lemma root_refpush_root n : root_refpush c n = true -> n = c_root c /\ c_mode c = MRefPush.
Proof.
  unfold root_refpush. intro H. apply andb_true_iff in H as [H1 H2].
  split; [now apply is_root_eq|]. destruct (c_mode c); simpl in H2; congruence.
Qed.

Lemma root_tagger_root n : root_tagger c n = true -> n = c_root c /\ c_mode c = MTagger.
Proof.
  unfold root_tagger. intro H. apply andb_true_iff in H as [H1 H2].
  split; [now apply is_root_eq|]. destruct (c_mode c); simpl in H2; congruence.
Qed.

Lemma refpush_not_tagger n : root_refpush c n = true -> root_tagger c n = false.
Proof.
  intro H. apply root_refpush_root in H as [_ H]. unfold root_tagger. rewrite H.
  simpl. apply andb_false_r.
Qed.

Lemma init_inv : Inv (init c d0).
Proof.
  constructor; simpl; intros; try discriminate; try congruence; auto.
  - destruct H1 as [H1|[H1|[_ [sk H1]]]]; discriminate.
Qed.

(* case analysis on whether m is the node that moved *)
Ltac upd_cases m n :=
  let E := fresh "E" in
  destruct (Nat.eq_dec m n) as [E|E];
  [subst; rewrite ?upd_same in * | rewrite ?(upd_other _ _ _ _ E) in *].

Lemma dispatched_dp st n : Inv st -> dispatched g c st n = true -> dp n.
Proof.
  intros I H. unfold dispatched in H. apply orb_true_iff in H as [H|H]; [apply orb_true_iff in H as [H|H]|].
  - apply is_root_eq in H. subst. constructor.
  - apply dp_xroot. now apply memb_In.
  - apply existsb_exists in H as [p [_ Hp]]. apply andb_true_iff in Hp as [Hw Hm].
    apply memb_In in Hm.
    assert (Hph : ph st p = Waiting) by (destruct (ph st p); simpl in Hw; congruence).
    apply dp_step with p; auto.
    + apply (i_dp st I). congruence.
    + apply (i_absent st I). now rewrite Hph.
Qed.

Lemma forallb_done st l : forallb (fun s => is_done (ph st s)) l = true ->
  forall x, In x l -> ph st x = Done.
Proof.
  intros H x Hx. rewrite forallb_forall in H. specialize (H x Hx).
  destruct (ph st x); simpl in H; congruence.
Qed.

(* ------------------------------------------------------------------ the invariant is preserved *)

Ltac simp_st := cbn [set_ph ph dst cached tag returned] in *.

Ltac split_ifs_in Hm :=
  unfold after_push, after_tag in Hm;
  repeat match type of Hm with
  | context [if ?x then _ else _] => destruct x eqn:?Hi
  end.

Ltac old_ph :=
  match goal with Hp : ph ?st ?n = _ |- context [ph ?st ?n] => rewrite Hp end.

Lemma done_absorbing st e st' x : step g c st e = Some st' -> ph st x = Done -> ph st' x = Done.
Proof.
  intros H Hx. step_inv H; simp_st; auto; upd_cases x n; auto; congruence.
Qed.

Lemma settled_absent p : settled_ph p = true -> absent_ph p = true.
Proof. destruct p; simpl; auto; try discriminate. Qed.

Lemma dst_step st e st' : Inv st -> step g c st e = Some st' ->
  dst st' = dst st \/
  exists n, dst st' = n :: dst st /\ settled_ph (ph st n) = true /\ has g (dst st) n = false.
Proof.
  intros I H. step_inv H; simp_st; auto;
  right; exists n; (split; [reflexivity|]); (split; [|assumption]);
  old_ph; try reflexivity;
  (destruct sk; [|reflexivity]);
  exfalso; assert (has g (dst st) n = true) by (apply (i_present st I); old_ph; reflexivity);
  congruence.
Qed.

Lemma dst_mono st e st' x : Inv st -> step g c st e = Some st' ->
  has g (dst st) x = true -> has g (dst st') x = true.
Proof.
  intros I H Hx. destruct (dst_step st e st' I H) as [->|[n [-> _]]]; auto using has_mono.
Qed.

Lemma pres_closed st e st' : Inv st -> step g c st e = Some st' ->
  closed_nodes d0 -> closed_nodes (dst st').
Proof.
  intros I H Hc0. destruct (dst_step st e st' I H) as [->|[n [-> [Hp _]]]]; [now apply (i_closed st I)|].
  intros m x [<-|Hm] Hx.
  - apply has_mono. apply (i_present st I).
    rewrite (i_settled st I n) with (x := x); auto.
  - apply has_mono. eapply (i_closed st I); eauto.
Qed.

Lemma pres_present st e st' : Inv st -> step g c st e = Some st' ->
  forall m, present_ph (ph st' m) = true -> has g (dst st') m = true.
Proof.
  intros I H m Hm. pose proof (i_present st I) as IP.
  pose proof (dst_mono st e st') as DM.
  step_inv H; simp_st; try (now apply IP);
  (upd_cases m n; [| first [now apply IP | apply has_mono; now apply IP]]);
  split_ifs_in Hm; simpl in Hm; split_ifs_in Hm; try discriminate Hm;
  first [ apply has_self | assumption
        | apply IP; old_ph; reflexivity
        | apply has_mono; apply IP; old_ph; reflexivity ].
Qed.

Ltac moved Hm := split_ifs_in Hm; simpl in Hm; split_ifs_in Hm; try discriminate Hm.

Lemma pres_settled st e st' : Inv st -> step g c st e = Some st' ->
  forall m, settled_ph (ph st' m) = true -> forall x, In x (succ' g m) -> ph st' x = Done.
Proof.
  intros I H m Hm x Hx. apply (done_absorbing st e st' x H).
  pose proof (i_settled st I) as IS.
  step_inv H; simp_st; try (now apply (IS m));
  (upd_cases m n; [| now apply (IS m)]);
  moved Hm;
  first [ apply (IS n); [old_ph; reflexivity | assumption]
        | eapply forallb_done; eassumption ].
Qed.

Lemma pres_bound st e st' : Inv st -> step g c st e = Some st' ->
  forall m, ph st' m <> Idle -> m < g_n g.
Proof.
  intros I H m Hm. pose proof (i_bound st I) as IB.
  step_inv H; simp_st; try (now apply IB);
  (upd_cases m n; [| now apply IB]);
  first [ now apply Nat.ltb_lt | apply IB; old_ph; discriminate ].
Qed.

Lemma pres_dp st e st' : Inv st -> step g c st e = Some st' ->
  forall m, ph st' m <> Idle -> dp m.
Proof.
  intros I H m Hm. pose proof (i_dp st I) as ID.
  step_inv H; simp_st; try (now apply ID);
  (upd_cases m n; [| now apply ID]);
  first [ eapply dispatched_dp; eassumption | apply ID; old_ph; discriminate ].
Qed.

Lemma pres_mono st e st' : Inv st -> step g c st e = Some st' ->
  forall m, has g d0 m = true -> has g (dst st') m = true.
Proof.
  intros I H m Hm. eapply dst_mono; eauto. now apply (i_mono st I).
Qed.

Lemma pres_absent st e st' : Inv st -> step g c st e = Some st' ->
  forall m, absent_ph (ph st' m) = true -> has g d0 m = false.
Proof.
  intros I H m Hm. pose proof (i_absent st I) as IA.
  step_inv H; simp_st; try (now apply IA);
  (upd_cases m n; [| now apply IA]);
  moved Hm;
  try (apply IA; old_ph; reflexivity).
  (* ExB: the probe sees the destination, which contains the initial content *)
  all: destruct (has g d0 n) eqn:E0; auto; apply (i_mono st I) in E0; congruence.
Qed.

Lemma pres_orig st e st' : Inv st -> step g c st e = Some st' ->
  forall m, In m (dst st') -> In m d0 \/ (dp m /\ has g d0 m = false).
Proof.
  intros I H m Hm.
  destruct (dst_step st e st' I H) as [E|[n [E [Hp _]]]]; rewrite E in Hm.
  - now apply (i_orig st I).
  - destruct Hm as [<-|Hm]; [|now apply (i_orig st I)].
    right. split.
    + apply (i_dp st I). intro Hz. rewrite Hz in Hp. discriminate.
    + apply (i_absent st I). now apply settled_absent.
Qed.

Lemma pres_skflag st e st' : Inv st -> step g c st e = Some st' ->
  forall m, skflag_ph (ph st' m) = true -> root_refpush c m = true.
Proof.
  intros I H m Hm. pose proof (i_skflag st I) as IK.
  step_inv H; simp_st; try (now apply IK);
  (upd_cases m n; [| now apply IK]);
  moved Hm;
  first [ assumption | apply IK; old_ph; reflexivity ].
Qed.

Lemma pres_tagging st e st' : Inv st -> step g c st e = Some st' ->
  forall m, tagging_ph (ph st' m) = true -> root_tagger c m = true.
Proof.
  intros I H m Hm. pose proof (i_tagging st I) as IT.
  step_inv H; simp_st; try (now apply IT);
  (upd_cases m n; [| now apply IT]);
  moved Hm;
  first [ assumption | apply IT; old_ph; reflexivity ].
Qed.

Lemma pres_noskip st e st' : Inv st -> step g c st e = Some st' ->
  root_refpush c (c_root c) = true -> ph st' (c_root c) <> SkipP.
Proof.
  intros I H Hr. pose proof (i_noskip st I Hr) as IN.
  step_inv H; simp_st; try assumption;
  (upd_cases (c_root c) n; [| assumption]);
  try discriminate;
  unfold after_push, after_tag;
  repeat match goal with |- context [if ?x then _ else _] => destruct x eqn:?Hi end;
  try discriminate; congruence.
Qed.

Lemma pres_tagroot st e st' : Inv st -> step g c st e = Some st' ->
  tag st' = None \/ tag st' = Some (c_root c).
Proof.
  intros I H. pose proof (i_tagroot st I) as IT.
  step_inv H; simp_st; try assumption; right; f_equal;
  first [ match goal with Hx : negb (eqb true (root_refpush c ?n)) = false |- _ =>
            apply negb_false_iff, Bool.eqb_prop in Hx; symmetry in Hx;
            now apply root_refpush_root in Hx end
        | assert (Ht : root_tagger c n = true) by (apply (i_tagging st I); old_ph; reflexivity);
          now apply root_tagger_root in Ht ].
Qed.

Lemma mode_cases : c_mode c <> MGraph -> root_tagger c (c_root c) = false ->
  root_refpush c (c_root c) = true.
Proof.
  unfold root_tagger, root_refpush, is_root. rewrite Nat.eqb_refl.
  destruct (c_mode c); simpl; congruence.
Qed.

Lemma tag_mono st e st' : step g c st e = Some st' -> tag st <> None -> tag st' <> None.
Proof. intros H Ht. step_inv H; simp_st; auto; discriminate. Qed.

Ltac ph_contra Hph :=
  unfold after_push, after_tag in Hph;
  repeat match type of Hph with
  | context [if ?x then _ else _] => destruct x eqn:?Hi
  end; try discriminate Hph.

Lemma pres_tagged st e st' : Inv st -> step g c st e = Some st' ->
  c_mode c <> MGraph -> tag_ok = true ->
  (ph st' (c_root c) = PostP \/ ph st' (c_root c) = Done \/
   (root_refpush c (c_root c) = true /\ exists sk, ph st' (c_root c) = Closing sk)) ->
  tag st' <> None.
Proof.
  intros I H Hm Hnm Hph. pose proof (i_tagged st I Hm Hnm) as IT.
  pose proof (i_mt st I (c_root c)) as MT.
  pose proof (tag_mono st e st' H) as TM.
  pose proof (mode_cases Hm) as RR.
  pose proof (i_noskip st I) as NS.
  pose proof (i_skflag st I (c_root c)) as SK.
  step_inv H; simp_st; try (now apply IT);
  (upd_cases (c_root c) n; [| now apply TM, IT]);
  try discriminate;
  destruct Hph as [Hph|[Hph|[Hrr [sk' Hph]]]]; ph_contra Hph;
  try (assert (RP : root_refpush c (c_root c) = true)
    by first [ assumption | apply RR; reflexivity | apply SK; old_ph; reflexivity ]);
  first [ exfalso;
          match goal with Hx : negb (eqb false (root_refpush c _)) = false |- _ =>
            apply negb_false_iff, Bool.eqb_prop in Hx; congruence end
        | apply IT; left; assumption
        | apply IT; right; right; split; [assumption | solve [eauto]]
        | exfalso; apply NS; assumption
        | exfalso; specialize (RR eq_refl); discriminate RR
        | exfalso; pose proof (i_mtfb st I (c_root c)) as FB; rewrite FB in RP;
          [discriminate | old_ph; reflexivity]
        | exfalso; destruct MT as [A B]; [old_ph; reflexivity |];
          unfold tag_ok in Hnm; rewrite A, B in Hnm;
          match goal with Hx : c_tagmounted c = false |- _ => rewrite Hx in Hnm end; discriminate ].
Qed.

Lemma pres_mt st e st' : Inv st -> step g c st e = Some st' ->
  forall m, mt_ph (ph st' m) = true -> c_mount c = true /\ g_ismf g m = false.
Proof.
  intros I H m Hm. pose proof (i_mt st I) as IM.
  step_inv H; simp_st; try (now apply IM);
  (upd_cases m n; [| now apply IM]);
  moved Hm;
  try (apply IM; old_ph; reflexivity).
  all: unfold mount_applies in *;
    repeat match goal with Hx : (_ && _) = true |- _ => apply andb_true_iff in Hx; destruct Hx end;
    split; [assumption | now apply negb_true_iff].
Qed.

Lemma pres_mtfb st e st' : Inv st -> step g c st e = Some st' ->
  forall m, mtfb_ph (ph st' m) = true -> root_refpush c m = false.
Proof.
  intros I H m Hm. pose proof (i_mtfb st I) as IF.
  step_inv H; simp_st; try (now apply IF);
  (upd_cases m n; [| now apply IF]);
  moved Hm;
  first [ assumption | apply IF; old_ph; reflexivity ].
Qed.

Lemma step_preserves_inv st e st' : Inv st -> step g c st e = Some st' -> Inv st'.
Proof.
  intros I H. constructor.
  - eapply pres_closed; eauto.
  - eapply pres_present; eauto.
  - eapply pres_settled; eauto.
  - eapply pres_bound; eauto.
  - eapply pres_dp; eauto.
  - eapply pres_absent; eauto.
  - eapply pres_mono; eauto.
  - eapply pres_orig; eauto.
  - eapply pres_skflag; eauto.
  - eapply pres_tagging; eauto.
  - eapply pres_noskip; eauto.
  - eapply pres_mt; eauto.
  - eapply pres_tagroot; eauto.
  - eapply pres_mtfb; eauto.
  - eapply pres_tagged; eauto.
Qed.

Lemma run_inv tr : forall st st', Inv st -> run g c st tr = Some st' -> Inv st'.
Proof.
  induction tr as [|e tr IH]; simpl; intros st st' I H.
  - now injection H as <-.
  - destruct (step g c st e) as [st1|] eqn:E; [|discriminate].
    eapply IH; [eapply step_preserves_inv; eauto | exact H].
Qed.

(* ---- the successful return ---- *)

Lemma step_after_ret st e b : returned st = Some b -> step g c st e = None.
Proof. intro H. unfold step. now rewrite H. Qed.

Lemma step_ret_true st e st' : step g c st e = Some st' -> returned st' = Some true ->
  ph st' (c_root c) = Done /\ forall n, n < g_n g -> is_idle_or_done (ph st' n) = true.
Proof.
  intros H Hr. step_inv H; simp_st; try congruence.
  split.
  - destruct (ph st (c_root c)); simpl in *; congruence.
  - intros n Hn.
    match goal with Hx : forallb (fun n => is_idle_or_done (ph st n)) _ = true |- _ =>
      rewrite forallb_forall in Hx; apply Hx end.
    apply in_seq. lia.
Qed.

Lemma run_ret_true tr : forall st st', run g c st tr = Some st' ->
  returned st = None -> returned st' = Some true ->
  ph st' (c_root c) = Done /\ forall n, n < g_n g -> is_idle_or_done (ph st' n) = true.
Proof.
  induction tr as [|e tr IH]; simpl; intros st st' H Hn Hr.
  - injection H as <-. congruence.
  - destruct (step g c st e) as [st1|] eqn:E; [|discriminate].
    destruct (returned st1) as [b|] eqn:R1.
    + destruct tr as [|e' tr']; simpl in H.
      * injection H as <-. eapply step_ret_true; eauto.
      * rewrite (step_after_ret st1 e' b R1) in H. discriminate.
    + eapply IH; eauto.
Qed.

(* ---- closure ---- *)

Lemma key_closed d m x : closed_nodes d -> mt_consistent ->
  has g d m = true -> In x (succ' g m) -> has g d x = true.
Proof.
  intros Hc Hmt Hm Hx. apply has_spec in Hm as [m' [Hin Hk]].
  destruct (Hmt m m' x (eq_sym Hk) Hx) as [x' [Hx' Hk']].
  rewrite <- (has_key g d x' x Hk'). eapply Hc; eauto.
Qed.

Lemma reach_closed d a b : closed_nodes d -> mt_consistent -> reach a b ->
  has g d a = true -> has g d b = true.
Proof.
  intros Hc Hmt Hr. induction Hr as [a|a x b Hx Hr IH]; auto.
  intro Ha. apply IH. eapply key_closed; eauto.
Qed.

Lemma closure_lemma tr st : closed_nodes d0 -> mt_consistent ->
  accepts g c d0 tr = Some st -> returned st = Some true ->
  forall n, reach (c_root c) n -> has g (dst st) n = true.
Proof.
  intros Hc Hmt Ha Hr n Hn. unfold accepts in Ha.
  pose proof (run_inv tr _ _ init_inv Ha) as I.
  destruct (run_ret_true tr _ _ Ha eq_refl Hr) as [Hd _].
  eapply reach_closed; eauto using (i_closed st I Hc).
  apply (i_present st I). now rewrite Hd.
Qed.

(* ---- copy_result ---- *)

(* paths all of whose nodes are absent from the initial destination *)
Inductive dr : node -> node -> Prop :=
| dr_refl a : has g d0 a = false -> dr a a
| dr_step a x b : has g d0 a = false -> In x (succ' g a) -> dr x b -> dr a b.

Lemma dr_snoc a p x : dr a p -> In x (succ' g p) -> has g d0 x = false -> dr a x.
Proof.
  intros H Hx Hax. induction H as [a Ha|a y b Ha Hy H IH].
  - eapply dr_step; eauto. now constructor.
  - eapply dr_step; eauto.
Qed.

Lemma dp_dr m : c_xroots c = [] -> dp m -> has g d0 m = false -> dr (c_root c) m.
Proof.
  intros Hx0 H. induction H as [|y Hy|p x Hp IH Hap Hx]; intro Ha.
  - now constructor.
  - rewrite Hx0 in Hy. contradiction.
  - eapply dr_snoc; eauto.
Qed.

Lemma dr_reach a b : dr a b -> reach a b.
Proof. induction 1; econstructor; eauto. Qed.

Lemma reachset_dr f : forall a m, In m (reachset g d0 f a) -> dr a m.
Proof.
  induction f as [|f IH]; simpl; intros a m H; [contradiction|].
  destruct (has g d0 a) eqn:Ha; [contradiction|].
  destruct H as [<-|H]; [now constructor|].
  apply in_flat_map in H as [x [Hx Hm]]. eapply dr_step; eauto.
Qed.

Section Rank.
Variable rank : node -> nat.
Hypothesis rank_dec : forall n x, In x (succ' g n) -> rank x < rank n.

Lemma dr_reachset a m : dr a m -> forall f, rank a < f -> In m (reachset g d0 f a).
Proof.
  induction 1 as [a Ha|a x b Ha Hx H IH]; intros f Hf; (destruct f as [|f]; [lia|]); simpl; rewrite Ha.
  - now left.
  - right. apply in_flat_map. exists x. split; auto. apply IH.
    specialize (rank_dec a x Hx). lia.
Qed.

Lemma copy_result_lemma tr st fuel : c_xroots c = [] -> closed_nodes d0 -> mt_consistent ->
  rank (c_root c) < fuel ->
  accepts g c d0 tr = Some st -> returned st = Some true ->
  forall n, has g (dst st) n = has g (copy_result g d0 fuel (c_root c)) n.
Proof.
  intros Hx0 Hc Hmt Hf Ha Hr n.
  pose proof (closure_lemma tr st Hc Hmt Ha Hr) as CL.
  unfold accepts in Ha. pose proof (run_inv tr _ _ init_inv Ha) as I.
  unfold copy_result. rewrite has_app.
  apply Bool.eq_iff_eq_true. rewrite orb_true_iff. split.
  - intro H. apply has_spec in H as [m [Hm Hk]].
    destruct (i_orig st I m Hm) as [H0|[Hdp Hab]].
    + right. apply has_spec. eauto.
    + left. apply has_spec. exists m. split; auto.
      apply dr_reachset; auto. now apply dp_dr.
  - intros [H|H].
    + apply has_spec in H as [m [Hm Hk]]. rewrite <- (has_key g (dst st) m n Hk).
      apply CL. apply dr_reach. eapply reachset_dr; eauto.
    + now apply (i_mono st I).
Qed.
End Rank.

(* ---- the tag ---- *)

Lemma tagged_lemma tr st :
  accepts g c d0 tr = Some st -> returned st = Some true -> c_mode c <> MGraph ->
  tag_ok = true ->
  tag st = Some (c_root c).
Proof.
  intros Ha Hr Hm Hnm. unfold accepts in Ha.
  pose proof (run_inv tr _ _ init_inv Ha) as I.
  destruct (run_ret_true tr _ _ Ha eq_refl Hr) as [Hd _].
  destruct (i_tagroot st I) as [Hn|Hs]; auto.
  exfalso. apply (i_tagged st I Hm Hnm); auto.
Qed.

Lemma mt_consistent_inj : (forall a b, g_dkey g a = g_dkey g b -> a = b) -> mt_consistent.
Proof. intros Hi m m' x Hk Hx. apply Hi in Hk. subst. eauto. Qed.

End Inv.

(* ------------------------------------------------------------------ Copy: the reference *)

Lemma copy_tagged_lemma (g : graph) (dflt opt : Z) (refpusher mount : bool) (root : node)
      (cached0 d0 : list node) (tags0 : str -> option node) (srcRef dstRef : str) tr st :
  accepts g (copy_cfg dflt opt refpusher mount root cached0) d0 tr = Some st ->
  returned st = Some true ->
  tags_after tags0 (eff_ref srcRef dstRef) st (eff_ref srcRef dstRef) = Some root.
Proof.
  intros Ha Hr. unfold tags_after. rewrite str_eqb_refl.
  rewrite (tagged_lemma g _ d0 tr st Ha Hr); [reflexivity| |reflexivity].
  unfold copy_cfg. simpl. destruct refpusher; discriminate.
Qed.

(* before the fix (c_tagmounted = false): a blob root that gets mounted is never tagged
   (OnMounted was not wrapped by prepareCopy) *)
Definition g_blob : graph := mkGraph 1 (fun _ => []) (fun _ => false) (fun _ => false) (fun n => n).
Definition c_mountroot : cfg := mkCfg 3 MTagger 0 true false [] [].
Definition tr_mountroot : list event :=
  [ExB 0; ExE 0 false; Cb CMountFrom 0; MtB 0; MtE 0 MMounted; Cb CMounted 0; Ret true].

Lemma tagged_refuted_for_mounted_blob_root :
  exists g c d0 tr st,
    c_tagmounted c = false /\
    closed_nodes g d0 /\ accepts g c d0 tr = Some st /\ returned st = Some true /\
    c_mode c <> MGraph /\ tag st <> Some (c_root c).
Proof.
  exists g_blob, c_mountroot, [], tr_mountroot. eexists.
  split; [reflexivity|].
  split; [intros m x []|]. split; [vm_compute; reflexivity|].
  split; [reflexivity|]. split; simpl; discriminate.
Qed.

Lemma eff_ref_blank srcRef : eff_ref srcRef [] = srcRef.
Proof. reflexivity. Qed.

Lemma eff_ref_given srcRef x dstRef : eff_ref srcRef (x :: dstRef) = x :: dstRef.
Proof. reflexivity. Qed.

(* ------------------------------------------------------------------ witnesses *)

(* F12: node 1 is a manifest with the layer 0; node 2 is a blob with the same bytes
   (same digest key) as the manifest.  The destination holds only node 2. *)
Definition g_twin : graph :=
  mkGraph 3 (fun n => match n with 1 => [0] | _ => [] end) (fun _ => false)
          (fun n => Nat.eqb n 1) (fun n => match n with 0 => 0 | _ => 1 end).
Definition c_twin : cfg := mkCfg 3 MGraph 1 false true [] [].
Definition tr_twin : list event := [ExB 1; ExE 1 true; Cb CSkip 1; Ret true].

Lemma closure_refuted_without_mt_consistency :
  exists g c d0 tr st,
    closed_nodes g d0 /\ accepts g c d0 tr = Some st /\ returned st = Some true /\
    exists n, reach g (c_root c) n /\ has g (dst st) n = false.
Proof.
  exists g_twin, c_twin, [2], tr_twin.
  eexists. split; [|split; [vm_compute; reflexivity|split; [reflexivity|]]].
  - intros m x [<-|[]] Hx. simpl in Hx. contradiction.
  - exists 0. split; [|reflexivity].
    apply reach_step with 0; [simpl; auto | constructor].
Qed.

(* the hypotheses of the closure theorem are satisfiable: an index-like manifest 3 over the
   manifest 2 = [0; 1; 1] (a blob listed twice) and the shared blob 0, blob 1 already present *)
Definition g_ex : graph :=
  mkGraph 4 (fun n => match n with 2 => [0; 1; 1] | 3 => [2; 0] | _ => [] end) (fun _ => false)
          (fun n => Nat.leb 2 n) (fun n => n).
Definition c_ex : cfg := mkCfg 2 MTagger 3 false true [] [].
Definition tr_ex : list event :=
  [ExB 3; ExE 3 false; SFB 3; SFE 3; SFC 3; ExB 2; ExB 0; ExE 2 false; ExE 0 false; SFB 2;
   Cb CPre 0; SFE 2; SFB 0; SFC 2; SFE 0; PuB 0 false; ExB 1; ExE 1 true; PuE 0 false POk;
   Cb CSkip 1; SFC 0; Cb CPost 0; Cb CPre 2; PuB 2 false; PuE 2 false POk; Cb CPost 2;
   Cb CPre 3; PuB 3 false; PuE 3 false POk; TagB 3; TagE 3; Cb CPost 3; Ret true].

Lemma example_run :
  closed_nodes g_ex [1] /\ mt_consistent g_ex /\
  (forall n x, In x (succ' g_ex n) -> x < n) /\
  exists st, accepts g_ex c_ex [1] tr_ex = Some st /\ returned st = Some true /\
             tag st = Some 3 /\ present_nodes g_ex (dst st) = [0; 1; 2; 3].
Proof.
  split; [|split; [|split]].
  - intros m x [<-|[]] Hx. simpl in Hx. contradiction.
  - apply mt_consistent_inj. auto.
  - intros n x. destruct n as [|[|[|[|n]]]]; simpl; intuition lia.
  - eexists. split; [vm_compute; reflexivity|]. repeat split; reflexivity.
Qed.

(* for C02 (built on top of this file): the destination stays link-closed at every
   instant of every accepted trace prefix, successful or not *)
Lemma closed_always_lemma (g : graph) (c : cfg) (d0 : list node) tr st :
  closed_nodes g d0 -> accepts g c d0 tr = Some st -> closed_nodes g (dst st).
Proof.
  intros Hc Ha. exact (i_closed g c d0 st (run_inv g c d0 tr _ _ (init_inv g c d0) Ha) Hc).
Qed.

(* F12 needs no pre-population: with an EMPTY (trivially link-closed) digest-keyed
   destination, a source graph in which a manifest's bytes also occur as a blob (node 3 = the
   bytes of manifest 2 under a non-manifest media type, used as a layer of manifest 4) is
   copied like this: blob 3 is pushed, then Exists(manifest 2) answers true, 2 is skipped
   and its layer 1 never arrives -- Copy succeeds and tags the root 5. *)
Definition g_twin2 : graph :=
  mkGraph 6 (fun n => match n with 2 => [0; 1] | 4 => [0; 3] | 5 => [4; 2] | _ => [] end)
          (fun _ => false) (fun n => match n with 2 | 4 | 5 => true | _ => false end)
          (fun n => if Nat.eqb n 3 then 2 else n).
Definition c_twin2 : cfg := mkCfg 3 MTagger 5 false true [] [].
Definition tr_twin2 : list event :=
 [ExB 5; ExE 5 false; SFB 5; SFE 5; SFC 5;
  ExB 4; ExE 4 false; SFB 4; SFE 4; SFC 4;
  ExB 0; ExE 0 false; Cb CPre 0; SFB 0; SFE 0; PuB 0 false; PuE 0 false POk; SFC 0; Cb CPost 0;
  ExB 3; ExE 3 false; Cb CPre 3; SFB 3; SFE 3; PuB 3 false; PuE 3 false POk; SFC 3; Cb CPost 3;
  ExB 2; ExE 2 true; Cb CSkip 2;
  Cb CPre 4; PuB 4 false; PuE 4 false POk; Cb CPost 4;
  Cb CPre 5; PuB 5 false; PuE 5 false POk; TagB 5; TagE 5; Cb CPost 5; Ret true].

Lemma closure_refuted_in_call :
  exists g c tr st,
    closed_nodes g [] /\ accepts g c [] tr = Some st /\ returned st = Some true /\
    tag st = Some (c_root c) /\
    exists n, reach g (c_root c) n /\ has g (dst st) n = false.
Proof.
  exists g_twin2, c_twin2, tr_twin2. eexists.
  split; [intros m x []|]. split; [vm_compute; reflexivity|].
  split; [reflexivity|]. split; [reflexivity|].
  exists 1. split; [|reflexivity].
  apply reach_step with 2; [simpl; auto|]. apply reach_step with 1; [simpl; auto|]. constructor.
Qed.

(* mt_consistent is exactly what the witnesses lack *)
Lemma twin2_not_mt_consistent : ~ mt_consistent g_twin2.
Proof.
  intro H. destruct (H 2 3 1 eq_refl) as [x [Hx _]]; [simpl; auto|]. simpl in Hx. contradiction.
Qed.

(* further satisfiability witnesses: ReferencePusher with the root already present; a Mounter
   destination whose candidate repository has the (blob) root; two roots (ExtendedCopyGraph) *)
Lemma example_runs_more :
  (exists st, accepts g_ex (mkCfg 2 MRefPush 3 false true [] []) [0; 1; 2; 3]
                [ExB 3; ExE 3 true; SFB 3; SFE 3; PuB 3 true; PuE 3 true PExists; SFC 3; Ret true] = Some st /\
              returned st = Some true /\ tag st = Some 3) /\
  (exists st, accepts g_blob (mkCfg 3 MTagger 0 true true [] []) []
                [ExB 0; ExE 0 false; Cb CMountFrom 0; MtB 0; MtE 0 MMounted; Cb CMounted 0;
                 TagB 0; TagE 0; Ret true] = Some st /\
              returned st = Some true /\ tag st = Some 0 /\ present_nodes g_blob (dst st) = [0]) /\
  (exists st, accepts g_ex (mkCfg 2 MGraph 3 false true [] [2]) [0; 1; 2; 3]
                [ExB 3; ExE 3 true; Cb CSkip 3; ExB 2; ExE 2 true; Cb CSkip 2; Ret true] = Some st /\
              returned st = Some true).
Proof.
  repeat split; eexists; (split; [vm_compute; reflexivity|]); repeat split; reflexivity.
Qed.
