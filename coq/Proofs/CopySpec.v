From Oras Require Import Base.Prelude Model.CopySpec Model.CopyTop.
Local Open Scope nat_scope.
Lemma run_nil g c st : run g c st [] = Some st.
Proof. reflexivity. Qed.
