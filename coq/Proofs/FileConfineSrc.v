(* C11 — the write paths of the file store consult no remembered state (layer T, kind
   c11_state_reads): Model/FileConfine.v models them as functions of the file-system state alone,
   every operation walking its path again in the current tree.  The lists are regenerated from the
   Go source on every run; a cache or any other store-side state consulted by one of these
   functions changes a list and breaks this file. *)
From Oras Require Import Base.Prelude Generated.GC11.

Lemma c11_write_paths_state_free :
  reads_ensureWriteDir = [b "s.AllowPathTraversalOnWrite"; b "s.workingDir"] /\
  reads_ensureDirNoSymlink = [b "var:ErrPathTraversalDisallowed"] /\
  reads_pushFile = [b "s.AllowPathTraversalOnWrite"; b "s.ensureWriteDir"; b "s.saveFile"; b "s.workingDir"] /\
  reads_pushDir = [b "s.PreservePermissions"; b "s.ensureWriteDir"; b "s.saveFile"; b "s.tempFile"; b "var:bufPool"] /\
  reads_resolveWritePath = [b "s.AllowPathTraversalOnWrite"; b "s.DisableOverwrite"; b "s.absPath"; b "s.workingDir";
                            b "var:ErrOverwriteDisallowed"; b "var:ErrPathTraversalDisallowed"] /\
  reads_absPath = [b "s.workingDir"] /\
  reads_removeSymlink = [] /\ reads_writeFile = [] /\ reads_resolveRelToBase = [] /\
  reads_ensureLinkPath = [] /\ reads_restoreDirModes = [] /\ reads_extractTarDirectory = [] /\
  reads_extractTarGzip = [].
Proof. repeat split; vm_compute; reflexivity. Qed.
