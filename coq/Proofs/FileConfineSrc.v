(* C11 — the write paths of the file store consult no remembered state (layer T, kind
   c11_state_reads): Model/FileConfine.v models them as functions of the file-system state alone,
   every operation walking its path again in the current tree.  The lists are regenerated from the
   Go source on every run; a cache or any other store-side state consulted by one of these
   functions changes a list and breaks this file. *)
From Oras Require Import Base.Prelude Generated.GC11.

Lemma c11_write_paths_state_free :
  reads_ensureWriteDir = [b "s.AllowPathTraversalOnWrite"; b "s.workingDir"] /\
  reads_ensureDirNoSymlink = [b "var:ErrPathTraversalDisallowed"] /\
  reads_pushFile = [b "s.AllowPathTraversalOnWrite"; b "s.ensureWriteDir"; b "s.saveFile"; b "s.workingDir"] /\
  reads_pushDir = [b "s.PreservePermissions"; b "s.ensureWriteDir"; b "s.saveFile"; b "s.tempFile"; b "var:bufPool"] /\
  reads_resolveWritePath = [b "s.AllowPathTraversalOnWrite"; b "s.DisableOverwrite"; b "s.absPath"; b "s.workingDir";
                            b "var:ErrOverwriteDisallowed"; b "var:ErrPathTraversalDisallowed"] /\
  reads_absPath = [b "s.workingDir"] /\
  reads_removeSymlink = [] /\ reads_writeFile = [] /\ reads_resolveRelToBase = [] /\
  reads_ensureLinkPath = [] /\ reads_restoreDirModes = [] /\ reads_extractTarDirectory = [] /\
  reads_extractTarGzip = [].
Proof. repeat split; vm_compute; reflexivity. Qed.

(* the guards and statements that Model/FileConfine.v mirrors are in the source as the model has them
   (kind c11_srcfact; one boolean per place, regenerated on every run) *)
Lemma c11_modelled_guards_present :
  forallb (fun x => x)
    [c11_fact_traversal_test;
     c11_fact_write_cleaned_path;
     c11_fact_never_replace_wd;
     c11_fact_remove_link_before_create;
     c11_fact_cleanup_target;
     c11_fact_lstat_each_element;
     c11_fact_link_refused;
     c11_fact_dir_continues;
     c11_fact_mkdir_missing;
     c11_fact_outside_test;
     c11_fact_parent_loop;
     c11_fact_parent_loop_step;
     c11_fact_parent_link_refused;
     c11_fact_missing_tolerated;
     c11_fact_target_relative_to_link;
     c11_fact_target_validated;
     c11_fact_hardlink_oldname;
     c11_fact_no_file_or_link_at_base;
     c11_fact_chtimes_not_through_link;
     c11_fact_dir_no_symlink;
     c11_fact_symlink_raw_target;
     c11_fact_modes_after_last_entry;
     c11_fact_skip_non_directories;
     c11_fact_lstat;
     c11_fact_only_links;
     c11_fact_remove_link_before_open] = true.
Proof. vm_compute. reflexivity. Qed.
