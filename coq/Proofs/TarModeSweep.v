(* C12: narrowing a directory created with (mode | 0700) under the umask -- or the pre-created
   base directory -- to its recorded mode leaves mode minus umask.  Bit by bit: the twelve mode
   bits one after the other, all higher bits at once (no vm_compute sweep). *)
From Oras Require Import Base.Prelude Generated.GC12 Model.TarRoundTrip.

Lemma testbit_small a k i : a < 2 ^ k -> k <= i -> N.testbit a i = false.
Proof.
  intros Ha Hi. rewrite <- (N.mod_small a (2 ^ k)) by exact Ha. now apply N.mod_pow2_bits_high.
Qed.

Ltac const_bits :=
  repeat match goal with
  | |- context [N.testbit (N.pos ?p) ?k] =>
      let v := eval vm_compute in (N.testbit (N.pos p) k) in
      change (N.testbit (N.pos p) k) with v
  end.

Ltac bit_specs :=
  repeat (rewrite N.lor_spec || rewrite N.land_spec || rewrite N.ldiff_spec).

Ltac var_bits :=
  repeat match goal with
  | |- context [N.testbit ?x ?k] => destruct (N.testbit x k)
  end.

Lemma narrow_ok umask m :
  m <= 4095 -> umask <= 511 ->
  narrow_mode (mid_dir_mode umask m) m = N.ldiff m umask /\
  narrow_mode (N.ldiff 511 umask) m = N.ldiff m umask.
Proof.
  intros Hm Hu.
  assert (Hmh : forall i, 12 <= i -> N.testbit m i = false).
  { intros i Hi. apply (testbit_small m 12); [change (2 ^ 12) with 4096; lia|exact Hi]. }
  assert (Huh : forall i, 9 <= i -> N.testbit umask i = false).
  { intros i Hi. apply (testbit_small umask 9); [change (2 ^ 9) with 512; lia|exact Hi]. }
  assert (Hch : forall c i, c < 4096 -> 12 <= i -> N.testbit c i = false).
  { intros c i Hc Hi. apply (testbit_small c 12); [exact Hc|exact Hi]. }
  split; apply N.bits_inj; intro i;
    unfold narrow_mode, mid_dir_mode, create_mode, perm_bits, dir_create_bits, owner_rwx, c12_dir_owner_bits;
    bit_specs;
    (destruct (N.lt_ge_cases i 12) as [Hi|Hi];
     [ assert (Hc : i = 0 \/ i = 1 \/ i = 2 \/ i = 3 \/ i = 4 \/ i = 5 \/ i = 6 \/ i = 7 \/
                    i = 8 \/ i = 9 \/ i = 10 \/ i = 11) by lia;
       repeat (destruct Hc as [Hc|Hc]; [subst i; const_bits;
                                        rewrite ?(Huh 9), ?(Huh 10), ?(Huh 11) by lia;
                                        var_bits; reflexivity|]);
       subst i; const_bits; rewrite ?(Huh 11) by lia; var_bits; reflexivity
     | rewrite (Hmh i Hi), (Huh i) by lia;
       rewrite ?(Hch 511 i), ?(Hch 3584 i), ?(Hch 448 i), ?(Hch 1023 i) by (first [reflexivity | exact Hi]);
       reflexivity ]).
Qed.

(* restoreDirModes without PreservePermissions never drops a setuid/setgid/sticky bit that the
   directory already has (e.g. the set-group-ID bit inherited from the working directory) nor
   one that is recorded: the special bits of the result are exactly those two sets *)
Lemma narrow_special cur m :
  N.land (narrow_mode cur m) 3584 = N.lor (N.land cur 3584) (N.land m 3584).
Proof.
  apply N.bits_inj. intro i. unfold narrow_mode, perm_bits. bit_specs.
  destruct (N.lt_ge_cases i 12) as [Hi|Hi].
  - assert (Hc : i = 0 \/ i = 1 \/ i = 2 \/ i = 3 \/ i = 4 \/ i = 5 \/ i = 6 \/ i = 7 \/
                 i = 8 \/ i = 9 \/ i = 10 \/ i = 11) by lia.
    repeat (destruct Hc as [Hc|Hc]; [subst i; const_bits; var_bits; reflexivity|]).
    subst i; const_bits; var_bits; reflexivity.
  - rewrite (testbit_small 3584 12 i), (testbit_small 511 12 i) by (first [reflexivity|exact Hi]).
    now rewrite !andb_false_r.
Qed.

(* ... and its permission bits are never wider than what the directory had *)
Lemma narrow_never_widens cur m :
  N.land (narrow_mode cur m) 511 = N.land (N.land cur 511) (N.land m 511).
Proof.
  apply N.bits_inj. intro i. unfold narrow_mode, perm_bits. bit_specs.
  destruct (N.lt_ge_cases i 12) as [Hi|Hi].
  - assert (Hc : i = 0 \/ i = 1 \/ i = 2 \/ i = 3 \/ i = 4 \/ i = 5 \/ i = 6 \/ i = 7 \/
                 i = 8 \/ i = 9 \/ i = 10 \/ i = 11) by lia.
    repeat (destruct Hc as [Hc|Hc]; [subst i; const_bits; var_bits; reflexivity|]).
    subst i; const_bits; var_bits; reflexivity.
  - rewrite (testbit_small 3584 12 i), (testbit_small 511 12 i) by (first [reflexivity|exact Hi]).
    now rewrite !andb_false_r.
Qed.
