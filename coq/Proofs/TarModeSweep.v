(* C12: narrowing a directory created with (mode | 0700) under the umask -- or the pre-created
   base directory -- to its recorded mode leaves mode minus umask: a finite sweep. *)
From Oras Require Import Base.Prelude Model.TarRoundTrip.

(* ---------- the modes: a finite sweep (4096 directory modes x 512 umasks, vm_compute) ---------- *)
Definition N_range (k : nat) : list N := map N.of_nat (seq 0 k).

Lemma N_range_in x k : x < N.of_nat k -> In x (N_range k).
Proof.
  intro Hx. unfold N_range. apply in_map_iff. exists (N.to_nat x). split; [apply N2Nat.id|].
  apply in_seq. lia.
Qed.

Lemma narrow_sweep :
  forallb (fun m => forallb (fun u =>
     (narrow_mode (mid_dir_mode u m) m =? N.ldiff m u) &&
     (narrow_mode (N.ldiff 511 u) m =? N.ldiff m u)) (N_range 512)) (N_range 4096) = true.
Proof. vm_compute. reflexivity. Qed.

Lemma narrow_ok umask m :
  m <= 4095 -> umask <= 511 ->
  narrow_mode (mid_dir_mode umask m) m = N.ldiff m umask /\
  narrow_mode (N.ldiff 511 umask) m = N.ldiff m umask.
Proof.
  intros Hm Hu. pose proof narrow_sweep as Hs.
  rewrite forallb_forall in Hs. specialize (Hs m (N_range_in m 4096 ltac:(simpl; lia))).
  rewrite forallb_forall in Hs. specialize (Hs umask (N_range_in umask 512 ltac:(simpl; lia))).
  apply andb_true_iff in Hs as [H1 H2]. split; now apply N.eqb_eq.
Qed.

