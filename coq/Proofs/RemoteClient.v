(* Proofs/RemoteClient.v -- facts about the client model that hold against ANY
   server (arbitrary responses): every emitted request is in the request grammar
   (C13_requests_allowed) and a successful call implies that the response was
   consistent with what was requested (C13_corruption_rejected). *)
From Oras Require Import Base.Prelude Base.Regex Generated.GC20 Generated.GC13 Model.Reference
  Model.Registry Model.RemoteClient Model.RemoteSpec Proofs.Reference.
Require Import Lia.

(* C20's lemmas, at the instance "every digest algorithm is available" (Model/Registry.v) *)
Lemma c13_repo_parse_result vr breg brepo s r :
  repo_parse vr breg brepo s = Some r ->
  r_registry r = breg /\ r_repository r = brepo /\ r_reference r <> [] /\
  (valid_tag (r_reference r) = true \/ valid_digest (r_reference r) = true).
Proof. exact (repo_parse_result_in_base all_algs vr breg brepo s r). Qed.

Lemma c13_repo_parse_digest vr breg brepo d :
  valid_digest d = true -> repo_parse vr breg brepo d = Some (mkRef breg brepo d).
Proof. exact (Proofs.Reference.repo_parse_digest all_algs vr breg brepo d). Qed.

Lemma c13_repo_parse_tag vr breg brepo t :
  valid_tag t = true -> repo_parse vr breg brepo t = Some (mkRef breg brepo t).
Proof. exact (Proofs.Reference.repo_parse_tag all_algs vr breg brepo t). Qed.

Ltac break_in H :=
  match type of H with
  | context [match ?x with _ => _ end] => destruct x eqn:?
  | context [if ?x then _ else _] => destruct x eqn:?
  end.

Ltac inv_pair H := injection H; clear H; intros; subst.
Ltac proj := cbn [q_m q_repo q_ep q_digest q_mount q_accept q_ctype q_clen q_range q_body].

(* ---------- request shapes ---------- *)

Lemma allowed_blob m repo d :
  (m = GET \/ m = HEAD \/ m = DELETE) ->
  valid_repository repo = true -> valid_digest d = true ->
  allowed (req m repo (EBlob d)) = true.
Proof.
  intros Hm Hr Hd. unfold allowed, req; proj. rewrite Hr, Hd.
  destruct Hm as [->|[->| ->]]; reflexivity.
Qed.

Lemma allowed_man_read m repo rf acc :
  (m = GET \/ m = HEAD) ->
  valid_repository repo = true -> valid_ref rf = true ->
  allowed (mkReq m repo (EManifest rf) None None acc None None None []) = true.
Proof.
  intros Hm Hr Hd. unfold allowed; proj. rewrite Hr, Hd. destruct Hm as [->| ->]; reflexivity.
Qed.

Lemma allowed_man_delete repo rf :
  valid_repository repo = true -> valid_ref rf = true ->
  allowed (req DELETE repo (EManifest rf)) = true.
Proof. intros Hr Hd. unfold allowed, req; proj. rewrite Hr, Hd. reflexivity. Qed.

Lemma allowed_man_put repo rf mt n c :
  valid_repository repo = true -> valid_ref rf = true -> mt <> [] ->
  allowed (mkReq PUT repo (EManifest rf) None None None (Some mt) (Some n) None c) = true.
Proof.
  intros Hr Hd Hm. unfold allowed; proj. rewrite Hr, Hd. destruct mt; [congruence|reflexivity].
Qed.

Lemma allowed_post repo :
  valid_repository repo = true -> allowed (req POST repo EUploads) = true.
Proof. intros Hr. unfold allowed, req; proj. now rewrite Hr. Qed.

Lemma allowed_mount repo d from :
  valid_repository repo = true -> valid_digest d = true -> valid_repository from = true ->
  allowed (mkReq POST repo EUploads None (Some (d, from)) None None None None []) = true.
Proof. intros Hr Hd Hf. unfold allowed; proj. now rewrite Hr, Hd, Hf. Qed.

Lemma allowed_put_session repo id d n c :
  valid_repository repo = true -> valid_digest d = true ->
  allowed (mkReq PUT repo (ESession id) (Some d) None None (Some ct_octet) (Some n) None c) = true.
Proof. intros Hr Hd. unfold allowed; proj. rewrite Hr, Hd. reflexivity. Qed.

Lemma allowed_referrers repo d :
  valid_repository repo = true -> valid_digest d = true ->
  allowed (req GET repo (EReferrers d)) = true.
Proof. intros Hr Hd. unfold allowed, req; proj. now rewrite Hr, Hd. Qed.

Lemma valid_ref_digest d : valid_digest d = true -> valid_ref d = true.
Proof. intro Hd. unfold valid_ref. now rewrite Hd. Qed.

Lemma zero_digest_valid : valid_digest zero_digest = true.
Proof. vm_compute. reflexivity. Qed.

Definition all_allowed (t : trace) : Prop := Forall (fun qr => allowed (fst qr) = true) t.

Lemma all_allowed_app t1 t2 : all_allowed t1 -> all_allowed t2 -> all_allowed (t1 ++ t2).
Proof. intros A B. apply Forall_app. split; assumption. Qed.

Lemma all_allowed_cons q r t : allowed q = true -> all_allowed t -> all_allowed ((q, r) :: t).
Proof. intros A B. constructor; assumption. Qed.

Lemma all_allowed_nil : all_allowed [].
Proof. constructor. Qed.

Global Hint Resolve all_allowed_nil all_allowed_cons all_allowed_app : c13.

Section ClientFacts.
  Variable H : str -> str.
  Variable parse_mt : str -> option str.
  Variable subject_of : str -> option (option desc).
  Variables main other : str.
  Variable user_mts : list str.
  Variable limit : N.
  Variable skip_gc : bool.
  Variable index_of : str -> option (list desc).
  Variable srv : Type.
  Variable exch : srv -> request -> srv * response.

  Hypothesis Hmain : valid_repository main = true.
  Hypothesis Hother : valid_repository other = true.

  Hypothesis Hloc : loc_ok srv exch.
  (* the hash function yields well-formed digests (needed where the client uses a digest it
     computed itself in a later request: deleting an old referrers index) *)
  Hypothesis HvalidH : forall c, valid_digest (H c) = true.

  Lemma resolve_ref_valid s rf : resolve_ref main s = Some rf -> valid_ref rf = true.
  Proof.
    unfold resolve_ref. destruct (repo_parse _ _ _ s) as [r|] eqn:E; [|discriminate].
    intro X. injection X as <-. apply c13_repo_parse_result in E as (_ & _ & _ & [V|V]);
      unfold valid_ref; rewrite V; auto using orb_true_r.
  Qed.

  Lemma resolve_ref_digest d : valid_digest d = true -> resolve_ref main d = Some d.
  Proof. intro V. unfold resolve_ref. now rewrite c13_repo_parse_digest. Qed.

  Lemma resolve_ref_tag t : valid_tag t = true -> resolve_ref main t = Some t.
  Proof. intro V. unfold resolve_ref. now rewrite c13_repo_parse_tag. Qed.

  (* ---- allowed, function by function ---- *)

  Lemma blob_fetch_allowed repo s d s' t res :
    valid_repository repo = true -> valid_digest (d_dg d) = true ->
    blob_fetch srv exch repo s d = (s', t, res) -> all_allowed t.
  Proof.
    intros Hr Hd. unfold blob_fetch. destruct (exch s _) as [s1 r].
    intro X. inv_pair X. auto using allowed_blob with c13.
  Qed.

  Lemma complete_push_allowed s r1 d c sized s' t res :
    (match r_loc r1 with
     | Some (rp, ep) => valid_repository rp = true /\ exists id, ep = ESession id
     | None => True end) ->
    valid_digest (d_dg d) = true ->
    complete_push srv exch s r1 d c sized = (s', t, res) -> all_allowed t.
  Proof.
    intros Hl Hd. unfold complete_push. destruct (r_loc r1) as [[rp ep]|].
    - destruct Hl as (Hrp & id & ->).
      destruct (sized && negb (len c =? d_sz d)).
      + intro X; inv_pair X; auto with c13.
      + destruct (exch s _) as [s2 r2]. intro X; inv_pair X.
        auto using allowed_put_session with c13.
    - intro X; inv_pair X; auto with c13.
  Qed.

  Lemma blob_push_allowed s d c s' t res :
    valid_digest (d_dg d) = true ->
    blob_push main srv exch s d c = (s', t, res) -> all_allowed t.
  Proof.
    intros Hd. unfold blob_push.
    pose proof (Hloc s (req POST main EUploads) eq_refl) as Hl.
    destruct (exch s _) as [s1 r1]. cbn [snd] in Hl.
    destruct (r_status r1 =? 202) eqn:E202.
    - apply N.eqb_eq in E202. specialize (Hl E202).
      destruct (complete_push _ _ s1 r1 d c true) as [[s2 t2] res2] eqn:E.
      intro X; inv_pair X. apply all_allowed_cons; [now apply allowed_post|].
      eapply complete_push_allowed; eauto.
    - intro X; inv_pair X. auto using allowed_post with c13.
  Qed.

  Lemma blob_mount_allowed s d g s' t res :
    valid_digest (d_dg d) = true ->
    blob_mount main other srv exch s d g = (s', t, res) -> all_allowed t.
  Proof.
    intros Hd. unfold blob_mount.
    set (q := mkReq POST main EUploads None (Some (d_dg d, other)) None None None None []).
    pose proof (Hloc s q eq_refl) as Hl.
    assert (Aq : allowed q = true) by (now apply allowed_mount).
    destruct (exch s q) as [s1 r1]. cbn [snd] in Hl.
    destruct (r_status r1 =? 201); [intro X; inv_pair X; auto with c13|].
    destruct (r_status r1 =? 202) eqn:E202; [|intro X; inv_pair X; auto with c13].
    apply N.eqb_eq in E202. specialize (Hl E202).
    destruct g as [c|].
    - destruct (complete_push _ _ s1 r1 d c false) as [[s2 t2] res2] eqn:E.
      intro X; inv_pair X. apply all_allowed_cons; auto. eapply complete_push_allowed; eauto.
    - destruct (blob_fetch _ _ other s1 d) as [[s2 t2] res2] eqn:E.
      pose proof (blob_fetch_allowed _ _ _ _ _ _ Hother Hd E) as A2.
      destruct res2; try (intro X; inv_pair X; auto with c13).
      destruct (complete_push _ _ s2 r1 d c false) as [[s3 t3] res3] eqn:E3.
      intro X; inv_pair X. apply all_allowed_cons; auto. apply all_allowed_app; auto.
      eapply complete_push_allowed; eauto.
  Qed.

  Lemma blob_resolve_allowed s rs s' t res :
    blob_resolve parse_mt main srv exch s rs = (s', t, res) -> all_allowed t.
  Proof.
    unfold blob_resolve. destruct (resolve_ref main rs) as [rf|]; [|intro X; inv_pair X; auto with c13].
    destruct (valid_digest rf) eqn:V; cbn [negb]; [|intro X; inv_pair X; auto with c13].
    destruct (exch s _) as [s1 r]. intro X; inv_pair X. auto using allowed_blob with c13.
  Qed.

  Lemma blob_fetchref_allowed s rs s' t res :
    blob_fetchref parse_mt main srv exch s rs = (s', t, res) -> all_allowed t.
  Proof.
    unfold blob_fetchref. destruct (resolve_ref main rs) as [rf|] eqn:ER; [|intro X; inv_pair X; auto with c13].
    destruct (valid_digest rf) eqn:V; cbn [negb]; [|intro X; inv_pair X; auto with c13].
    assert (A : allowed (req GET main (EBlob rf)) = true) by auto using allowed_blob.
    destruct (exch s _) as [s1 r].
    destruct (r_status r =? 200); [|intro X; inv_pair X; auto with c13].
    destruct (r_clen r); [intro X; inv_pair X; auto with c13|].
    destruct (blob_resolve _ _ _ _ s1 rs) as [[s2 t2] res2] eqn:E.
    apply blob_resolve_allowed in E. intro X; inv_pair X. auto with c13.
  Qed.

  Lemma delete_req_allowed s d man s' t res :
    valid_digest (d_dg d) = true ->
    delete_req main srv exch s d man = (s', t, res) -> all_allowed t.
  Proof.
    intros Hd. unfold delete_req. destruct (exch s _) as [s1 r]. intro X; inv_pair X.
    destruct man; auto using allowed_blob, allowed_man_delete, valid_ref_digest with c13.
  Qed.

  Lemma man_fetch_allowed s d s' t res :
    valid_digest (d_dg d) = true ->
    man_fetch parse_mt main srv exch s d = (s', t, res) -> all_allowed t.
  Proof.
    intros Hd. unfold man_fetch. destruct (exch s _) as [s1 r]. intro X; inv_pair X.
    auto using allowed_man_read, valid_ref_digest with c13.
  Qed.

  Lemma man_resolve_allowed s rs s' t res :
    man_resolve H parse_mt main user_mts limit srv exch s rs = (s', t, res) -> all_allowed t.
  Proof.
    unfold man_resolve. destruct (resolve_ref main rs) as [rf|] eqn:ER; [|intro X; inv_pair X; auto with c13].
    apply resolve_ref_valid in ER.
    destruct (exch s _) as [s1 r]. intro X; inv_pair X. auto using allowed_man_read with c13.
  Qed.

  Lemma man_fetchref_allowed s rs s' t res :
    man_fetchref H parse_mt main user_mts limit srv exch s rs = (s', t, res) -> all_allowed t.
  Proof.
    unfold man_fetchref. destruct (resolve_ref main rs) as [rf|] eqn:ER; [|intro X; inv_pair X; auto with c13].
    pose proof (resolve_ref_valid _ _ ER) as V.
    assert (A : allowed (mkReq GET main (EManifest rf) None None (Some (join_comma (mts user_mts))) None None None []) = true)
      by auto using allowed_man_read.
    destruct (exch s _) as [s1 r].
    destruct (r_status r =? 200); [|intro X; inv_pair X; auto with c13].
    destruct (r_clen r); [intro X; inv_pair X; auto with c13|].
    destruct (man_resolve _ _ _ _ _ _ _ s1 rs) as [[s2 t2] res2] eqn:E.
    apply man_resolve_allowed in E. intro X; inv_pair X. auto with c13.
  Qed.

  Lemma man_put_allowed s rst d c sized rf s' rst' t res :
    valid_ref rf = true -> d_mt d <> [] ->
    man_put main srv exch s rst d c sized rf = (s', rst', t, res) -> all_allowed t.
  Proof.
    intros Hr Hm. unfold man_put. destruct (sized && negb (len c =? d_sz d)); [intro X; inv_pair X; auto with c13|].
    destruct (exch s _) as [s1 r].
    destruct (r_status r =? 201); intro X; inv_pair X; auto using allowed_man_put with c13.
  Qed.

  Lemma ping_allowed s rst s' rst' t o :
    ping_referrers main srv exch s rst = (s', rst', t, o) -> all_allowed t.
  Proof.
    unfold ping_referrers. destruct rst; try (intro X; inv_pair X; auto with c13).
    assert (A : allowed (req GET main (EReferrers zero_digest)) = true)
      by auto using allowed_referrers, zero_digest_valid.
    destruct (exch s _) as [s1 r].
    destruct (r_status r =? 200); [intro X; inv_pair X; auto with c13|].
    destruct (r_status r =? 404); [destruct (str_eqb _ _)|]; intro X; inv_pair X; auto with c13.
  Qed.

  Lemma gen_desc_valid r rf hd d :
    gen_desc H parse_mt limit r rf hd = Some d -> valid_digest (d_dg d) = true.
  Proof.
    unfold gen_desc.
    destruct (parse_mt (nstr (r_ctype r))) as [mt|]; [|discriminate].
    destruct (r_clen r) as [n|]; [|discriminate].
    destruct (nstr (r_dig r)) as [|x sd] eqn:Ed.
    - destruct (valid_digest rf) eqn:Vr.
      + destruct hd.
        * destruct rf as [|y rf]; [discriminate|].
          rewrite str_eqb_refl. cbn [negb]. intro X; injection X as <-. exact Vr.
        * destruct rf as [|y rf]; [discriminate|].
          destruct (limit <? n); [discriminate|].
          destruct (str_eqb (y :: rf) (H (hashed_body limit r))) eqn:Eq; cbn [negb]; [|discriminate].
          intro X; injection X as <-. apply HvalidH.
      + destruct hd; [discriminate|]. destruct (limit <? n); [discriminate|].
        intro X; injection X as <-. apply HvalidH.
    - destruct (valid_digest (x :: sd)) eqn:Vs; cbn [negb]; [|discriminate].
      destruct (valid_digest rf) eqn:Vr.
      + destruct rf as [|y rf]; [discriminate|].
        destruct (str_eqb (y :: rf) (x :: sd)) eqn:Eq; cbn [negb]; [|discriminate].
        intro X; injection X as <-. exact Vs.
      + intro X; injection X as <-. exact Vs.
  Qed.

  Lemma man_resolve_desc_valid s rs s' t d :
    man_resolve H parse_mt main user_mts limit srv exch s rs = (s', t, RDesc d) -> valid_digest (d_dg d) = true.
  Proof.
    unfold man_resolve. destruct (resolve_ref main rs) as [rf|]; [|discriminate].
    destruct (exch s _) as [s1 r]. intro X. injection X as _ _ X.
    destruct (r_status r =? 200).
    - destruct (gen_desc H parse_mt limit r rf true) eqn:G; [|discriminate]. injection X as <-.
      eapply gen_desc_valid; eauto.
    - destruct (r_status r =? 404); discriminate.
  Qed.

  Lemma man_fetchref_desc_valid s rs s' t d c :
    man_fetchref H parse_mt main user_mts limit srv exch s rs = (s', t, RDescBytes d c) ->
    valid_digest (d_dg d) = true.
  Proof.
    unfold man_fetchref. destruct (resolve_ref main rs) as [rf|]; [|discriminate].
    destruct (exch s _) as [s1 r].
    destruct (r_status r =? 200).
    - destruct (r_clen r).
      + intro X. injection X as _ _ X.
        destruct (gen_desc H parse_mt limit r rf false) eqn:G; [|discriminate]. injection X as <- _.
        eapply gen_desc_valid; eauto.
      + destruct (man_resolve _ _ _ _ _ _ _ s1 rs) as [[s2 t2] res2] eqn:E2.
        intro X. injection X as _ _ X.
        destruct res2; try discriminate.
        * destruct (verify_digest r (d_dg d0)); [|discriminate]. injection X as <- _.
          eapply man_resolve_desc_valid; eauto.
        * injection X as <- <-. (* man_resolve never returns RDescBytes *)
          exfalso. revert E2. unfold man_resolve. destruct (resolve_ref main rs); [|discriminate].
          destruct (exch s1 _) as [s3 r3]. intro Y. injection Y as _ _ Y.
          destruct (r_status r3 =? 200); [destruct (gen_desc _ _ _ _ _ _); discriminate|].
          destruct (r_status r3 =? 404); discriminate.
    - intro X. injection X as _ _ X. destruct (r_status r =? 404); discriminate.
  Qed.

  (* ---- the referrers tag schema ---- *)
  (* the source of decodeJSON reads the body through content.ReadAll (regenerated call sequence) *)
  Lemma decode_json_verifies_true : decode_json_verifies = true.
  Proof. vm_compute. reflexivity. Qed.

  Lemma referrersFromIndex_order :
    referrersFromIndex_calls = [b "r.FetchReference"; b "limitSize"; b "decodeJSON"].
  Proof. vm_compute. reflexivity. Qed.

  Lemma calculateDigest_bounded_read :
    calculateDigest_calls = [b "limitReader"; b "io.ReadAll"; b "digest.FromBytes"].
  Proof. vm_compute. reflexivity. Qed.

  Lemma ref_tag_plain dg :
    valid_digest dg = true ->
    contains c_slash (ref_tag dg) = false /\ contains c_at (ref_tag dg) = false.
  Proof.
    intro V. apply (digest_chars all_algs) in V. unfold contains, ref_tag.
    induction dg as [|x dg IH]; [split; reflexivity|].
    cbn [forallb] in V. apply andb_true_iff in V as [A B]. destruct (IH B) as [I1 I2].
    cbn [map existsb]. rewrite I1, I2, !orb_false_r.
    unfold digest_char, c_colon, c_slash, c_at in *.
    destruct (x =? 58) eqn:E; [split; reflexivity|].
    split; apply N.eqb_neq; intros ->; vm_compute in A; discriminate.
  Qed.

  Lemma resolve_ref_plain s rf :
    contains c_slash s = false -> contains c_at s = false -> resolve_ref main s = Some rf -> rf = s.
  Proof.
    intros Hs Ha. unfold resolve_ref, repo_parse, Reference.repo_parse, repo_parse_gen.
    rewrite (parse_no_slash all_algs _ _ Hs).
    assert (E : split_first c_at s = None) by (now apply split_first_None). rewrite E.
    destruct (validate_reference all_algs s); [|discriminate]. cbn [r_reference].
    destruct s; [discriminate|]. intro X. now injection X as <-.
  Qed.

  Lemma ref_tag_valid_ref dg rf :
    valid_digest dg = true -> resolve_ref main (ref_tag dg) = Some rf -> valid_ref (ref_tag dg) = true.
  Proof.
    intros V E. destruct (ref_tag_plain dg V) as [A B].
    pose proof (resolve_ref_plain _ _ A B E) as <-. eapply resolve_ref_valid; eauto.
  Qed.

  Notation rfi := (referrers_from_index H parse_mt main user_mts limit index_of srv exch).

  Lemma rfi_allowed s tag s' t res old :
    rfi s tag = (s', t, res, old) -> all_allowed t.
  Proof.
    unfold referrers_from_index.
    destruct (man_fetchref _ _ _ _ _ _ _ s tag) as [[s1 t1] res1] eqn:E. apply man_fetchref_allowed in E.
    destruct res1; try (intro X; inv_pair X; exact E).
    destruct (limit <? d_sz d); [intro X; inv_pair X; exact E|].
    destruct (decode_json_verifies && _); [intro X; inv_pair X; exact E|].
    destruct (index_of c); intro X; inv_pair X; exact E.
  Qed.

  (* the tag is only written after it was read: a referrers tag that is not a valid reference
     (sha512: longer than a tag may be) never reaches the registry *)
  Lemma rfi_ref s tag s' t res old :
    rfi s tag = (s', t, res, old) ->
    (res = ROk \/ res = RErr ENotFound) -> exists rf, resolve_ref main tag = Some rf.
  Proof.
    unfold referrers_from_index, man_fetchref.
    destruct (resolve_ref main tag) as [rf|]; [eauto|].
    intro X. injection X as _ _ <- _. intros [Y|Y]; discriminate.
  Qed.

  Lemma update_allowed s rst subj ch s' rst' t res :
    update_referrers_index H parse_mt main user_mts limit skip_gc index_of srv exch s rst subj ch = (s', rst', t, res) ->
    all_allowed t.
  Proof.
    unfold update_referrers_index. destruct (valid_digest (d_dg subj)) eqn:V; cbn [negb]; [|intro X; inv_pair X; auto with c13].
    destruct (rfi s (ref_tag (d_dg subj))) as [[[s1 t1] res1] old] eqn:E.
    pose proof (rfi_allowed _ _ _ _ _ _ E) as A1.
    assert (G : forall oldd oldl,
              (exists rf, resolve_ref main (ref_tag (d_dg subj)) = Some rf) ->
              match apply_change oldl (Some ch) with
              | None => (s1, rst, t1, ROk)
              | Some upd =>
                  let '(s2, rst2, t2, res2) :=
                    if negb (is_nil upd) || skip_gc then
                      man_put main srv exch s1 rst (mkDesc mt_index (H (gen_index upd)) (len (gen_index upd))) (gen_index upd) true (ref_tag (d_dg subj))
                    else (s1, rst, [], ROk) in
                  match res2 with
                  | ROk =>
                      match oldd with
                      | Some od => if skip_gc then (s2, rst2, t1 ++ t2, ROk)
                                   else let '(s3, t3, res3) := delete_req main srv exch s2 od true in (s3, rst2, t1 ++ t2 ++ t3, res3)
                      | None => (s2, rst2, t1 ++ t2, ROk)
                      end
                  | _ => (s2, rst2, t1 ++ t2, res2)
                  end
              end = (s', rst', t, res) ->
              (forall od, oldd = Some od -> valid_digest (d_dg od) = true) -> all_allowed t).
    { intros oldd oldl [rf ER] X Hod.
      pose proof (ref_tag_valid_ref _ _ V ER) as Vt.
      destruct (apply_change oldl (Some ch)) as [upd|]; [|inv_pair X; exact A1].
      destruct (negb (is_nil upd) || skip_gc).
      - destruct (man_put _ _ _ s1 rst _ _ true _) as [[[s2 rst2] t2] res2] eqn:E2.
        apply man_put_allowed in E2; [|exact Vt|cbn; vm_compute; discriminate].
        destruct res2; try (inv_pair X; auto with c13).
        destruct oldd as [od|]; [|inv_pair X; auto with c13].
        destruct skip_gc; [inv_pair X; auto with c13|].
        destruct (delete_req _ _ _ s2 od true) as [[s3 t3] res3] eqn:E3.
        apply delete_req_allowed in E3; [|now apply Hod]. inv_pair X. auto with c13.
      - destruct oldd as [od|]; [|inv_pair X; rewrite app_nil_r; exact A1].
        destruct skip_gc; [inv_pair X; rewrite app_nil_r; exact A1|].
        destruct (delete_req _ _ _ s1 od true) as [[s3 t3] res3] eqn:E3.
        apply delete_req_allowed in E3; [|now apply Hod]. inv_pair X. cbn [app]. auto with c13. }
    destruct res1 as [| | | | | |e]; try (intro X; inv_pair X; exact A1).
    - (* ROk *)
      destruct old as [[od l]|]; [|intro X; inv_pair X; exact A1].
      intro X. eapply (G (Some od) l); eauto.
      + eapply rfi_ref; eauto.
      + intros od' Y. injection Y as <-.
        (* the old index descriptor comes from a successful FetchReference *)
        revert E. unfold referrers_from_index.
        destruct (man_fetchref _ _ _ _ _ _ _ s _) as [[s0 t0] res0] eqn:E0.
        destruct res0; try (intro Y; inv_pair Y; discriminate).
        apply man_fetchref_desc_valid in E0.
        destruct (limit <? d_sz d); [intro Y; inv_pair Y; discriminate|].
        destruct (decode_json_verifies && _); [intro Y; inv_pair Y; discriminate|].
        destruct (index_of c); intro Y; inv_pair Y; try discriminate. exact E0.
    - destruct e; try (intro X; inv_pair X; exact A1).
      intro X. eapply (G None []); eauto.
      + eapply rfi_ref; eauto.
      + intros od Y; discriminate.
  Qed.

  Lemma man_push_allowed s rst d c rf s' rst' t res :
    valid_ref rf = true -> d_mt d <> [] ->
    man_push H parse_mt subject_of main user_mts limit skip_gc index_of srv exch s rst d c rf = (s', rst', t, res) -> all_allowed t.
  Proof.
    intros Hr Hm. unfold man_push.
    destruct (indexable (d_mt d) && negb (rs_supported rst)); [|apply man_put_allowed; auto].
    destruct (limit <? d_sz d); [intro X; inv_pair X; auto with c13|].
    destruct (negb (len c =? d_sz d) || negb (str_eqb (H c) (d_dg d))); [intro X; inv_pair X; auto with c13|].
    destruct (man_put _ _ _ s rst d c true rf) as [[[s1 rst1] t1] res1] eqn:E.
    apply man_put_allowed in E; auto.
    destruct res1; try (intro X; inv_pair X; exact E).
    destruct (rs_supported rst1); [intro X; inv_pair X; exact E|].
    destruct (subject_of c) as [[sj|]|]; try (intro X; inv_pair X; exact E).
    destruct (update_referrers_index _ _ _ _ _ _ _ _ _ s1 _ sj _) as [[[s2 rst2] t2] res2] eqn:E2.
    apply update_allowed in E2. intro X; inv_pair X. auto with c13.
  Qed.

  Lemma tag_schema_allowed s d s' t res :
    tag_schema_referrers H parse_mt main user_mts limit index_of srv exch s d = (s', t, res) -> all_allowed t.
  Proof.
    unfold tag_schema_referrers. destruct (negb (valid_digest (d_dg d))); [intro X; inv_pair X; auto with c13|].
    destruct (rfi s _) as [[[s1 t1] res1] old] eqn:E. apply rfi_allowed in E.
    destruct res1 as [| | | | | |e]; try (intro X; inv_pair X; exact E).
    - destruct old as [[od l]|]; intro X; inv_pair X; exact E.
    - destruct e; intro X; inv_pair X; exact E.
  Qed.

  (* the variant that also reports "only the clean-up failed" agrees with update_referrers_index *)
  Lemma update_x_fst s rst subj ch :
    fst (update_referrers_index_x H parse_mt main user_mts limit skip_gc index_of srv exch s rst subj ch)
    = update_referrers_index H parse_mt main user_mts limit skip_gc index_of srv exch s rst subj ch.
  Proof.
    unfold update_referrers_index_x, update_referrers_index.
    destruct (negb (valid_digest (d_dg subj))); [reflexivity|].
    destruct (referrers_from_index H parse_mt main user_mts limit index_of srv exch s (ref_tag (d_dg subj))) as [[[s1 t1] res1] old].
    repeat match goal with
           | |- context [match ?x with _ => _ end] => destruct x
           end; reflexivity.
  Qed.

  Lemma man_delete_allowed s rst d s' rst' t res :
    valid_digest (d_dg d) = true ->
    man_delete H parse_mt subject_of main user_mts limit skip_gc index_of srv exch s rst d = (s', rst', t, res) -> all_allowed t.
  Proof.
    intros Hd. unfold man_delete.
    destruct (indexable_del (d_mt d) && negb (rs_supported rst)).
    - destruct (limit <? d_sz d); [intro X; inv_pair X; auto with c13|].
      destruct (man_fetch _ _ _ _ s d) as [[s1 t1] res1] eqn:E1.
      apply man_fetch_allowed in E1; auto.
      destruct res1; try (intro X; inv_pair X; exact E1).
      destruct (negb (len c =? d_sz d) || negb (str_eqb (H c) (d_dg d))); [intro X; inv_pair X; exact E1|].
      destruct (subject_of c) as [[sj|]|]; [| |intro X; inv_pair X; exact E1].
      + destruct (ping_referrers _ _ _ s1 rst) as [[[s2 rst2] t2] ok] eqn:E2.
        apply ping_allowed in E2.
        destruct ok as [[|]|]; try (intro X; inv_pair X; auto with c13).
        * destruct (delete_req _ _ _ s2 d true) as [[s3 t3] res3] eqn:E3.
          apply delete_req_allowed in E3; auto. intro X; inv_pair X. auto with c13.
        * pose proof (update_x_fst s2 rst2 sj (RRemove d)) as Ex.
          destruct (update_referrers_index_x _ _ _ _ _ _ _ _ _ s2 rst2 sj _) as [[[[s3 rst3] t3] res3] cl].
          cbn [fst] in Ex. symmetry in Ex. apply update_allowed in Ex.
          destruct (delete_req _ _ _ s3 d true) as [[s4 t4] res4] eqn:E4.
          apply delete_req_allowed in E4; auto.
          destruct res3; try destruct cl; intro X; inv_pair X; auto 8 with c13.
      + destruct (delete_req _ _ _ s1 d true) as [[s2 t2] res2] eqn:E2.
        apply delete_req_allowed in E2; auto. intro X; inv_pair X. auto with c13.
    - destruct (delete_req _ _ _ s d true) as [[s1 t1] res1] eqn:E1.
      apply delete_req_allowed in E1; auto. intro X; inv_pair X. auto.
  Qed.

  Lemma man_tag_allowed s rst d rs s' rst' t res :
    valid_digest (d_dg d) = true -> d_mt d <> [] ->
    man_tag parse_mt main srv exch s rst d rs = (s', rst', t, res) -> all_allowed t.
  Proof.
    intros Hd Hm. unfold man_tag.
    destruct (resolve_ref main rs) as [rf|] eqn:ER; [|intro X; inv_pair X; auto with c13].
    apply resolve_ref_valid in ER.
    destruct (man_fetch _ _ _ _ s d) as [[s1 t1] res1] eqn:E1.
    apply man_fetch_allowed in E1; auto.
    destruct res1; try (intro X; inv_pair X; exact E1).
    destruct (man_put _ _ _ s1 rst d c false rf) as [[[s2 rst2] t2] res2] eqn:E2.
    apply man_put_allowed in E2; auto. intro X; inv_pair X. auto with c13.
  Qed.

  Lemma lift_eq {A} (x : A * trace * result) rst a rst' t res :
    lift A x rst = (a, rst', t, res) -> exists a0, x = (a0, t, res).
  Proof. destruct x as [[a0 t0] r0]. cbn. intro X; inv_pair X. eauto. Qed.

  Lemma predecessors_allowed s rst d s' rst' t res :
    valid_digest (d_dg d) = true ->
    predecessors H parse_mt main user_mts limit index_of srv exch s rst d = (s', rst', t, res) -> all_allowed t.
  Proof.
    intros Hd. unfold predecessors.
    assert (A : allowed (req GET main (EReferrers (d_dg d))) = true) by auto using allowed_referrers.
    assert (T : forall s0 t0 res0 s1 r,
              (let '(s2, t2, res2) := tag_schema_referrers H parse_mt main user_mts limit index_of srv exch s1 d in
               (s2, rs_set rst false, (req GET main (EReferrers (d_dg d)), r) :: t2, res2)) = (s0, rst', t0, res0) ->
              all_allowed t0).
    { intros s0 t0 res0 s1 r. destruct (tag_schema_referrers _ _ _ _ _ _ _ _ s1 d) as [[s2 t2] res2] eqn:E.
      apply tag_schema_allowed in E. intro X; inv_pair X. auto with c13. }
    destruct rst.
    - destruct (exch s _) as [s1 r].
      destruct (r_status r =? 200); [destruct (str_eqb _ _); [intro X; inv_pair X; auto with c13|apply T]|].
      destruct (r_status r =? 404); [destruct (str_eqb (r_body r) name_unknown); [intro X; inv_pair X; auto with c13|apply T]|].
      intro X; inv_pair X; auto with c13.
    - destruct (exch s _) as [s1 r].
      destruct (r_status r =? 200); [destruct (str_eqb _ _); intro X; inv_pair X; auto with c13|].
      destruct (r_status r =? 404); [destruct (str_eqb (r_body r) name_unknown)|]; intro X; inv_pair X; auto with c13.
    - intro X. apply lift_eq in X as [a X]. eapply tag_schema_allowed; eauto.
  Qed.

  Notation run_op' := (run_op H parse_mt subject_of main other user_mts limit skip_gc index_of srv exch).
  Notation run_ops' := (run_ops H parse_mt subject_of main other user_mts limit skip_gc index_of srv exch).



  Theorem run_op_allowed s rst o s' rst' t res :
    op_ok o -> run_op' s rst o = (s', rst', t, res) -> all_allowed t.
  Proof.
    destruct o; cbn [op_ok run_op]; intros Hok.
    - destruct Hok as [Hd Hm]. destruct (is_manifest user_mts d).
      + apply man_push_allowed; auto using valid_ref_digest.
      + intro X. apply lift_eq in X as [a X]. eapply blob_push_allowed; eauto.
    - destruct Hok as [Hd Hm]. intro X. apply lift_eq in X as [a X]. revert X. destruct (is_manifest user_mts d); intro X.
      + eapply man_fetch_allowed; eauto.
      + eapply blob_fetch_allowed with (repo := main); eauto.
    - destruct Hok as [Hd Hm]. destruct (is_manifest user_mts d).
      + destruct (man_resolve _ _ _ _ _ _ _ s (d_dg d)) as [[s1 t1] r1] eqn:E.
        apply man_resolve_allowed in E. intro X; inv_pair X. exact E.
      + destruct (blob_resolve _ _ _ _ s (d_dg d)) as [[s1 t1] r1] eqn:E.
        apply blob_resolve_allowed in E. intro X; inv_pair X. exact E.
    - destruct Hok as [Hd Hm]. destruct (is_manifest user_mts d).
      + apply man_delete_allowed; auto.
      + intro X. apply lift_eq in X as [a X]. eapply delete_req_allowed; eauto.
    - intro X. apply lift_eq in X as [a X]. eapply man_resolve_allowed; eauto.
    - intro X. apply lift_eq in X as [a X]. eapply man_fetchref_allowed; eauto.
    - destruct Hok as [Hd Hm]. apply man_tag_allowed; auto.
    - destruct Hok as [Hd Hm]. destruct (resolve_ref main s0) as [rf|] eqn:ER.
      + apply man_push_allowed; auto. eapply resolve_ref_valid; eauto.
      + intro X; inv_pair X. auto with c13.
    - destruct Hok as [Hd Hm]. intro X. apply lift_eq in X as [a X]. eapply blob_mount_allowed; eauto.
    - destruct Hok as [Hd Hm]. apply predecessors_allowed; auto.
    - intro X. apply lift_eq in X as [a X]. eapply blob_resolve_allowed; eauto.
    - intro X. apply lift_eq in X as [a X]. eapply blob_fetchref_allowed; eauto.
  Qed.

  Theorem run_ops_allowed os : forall s rst s' rst' out,
    Forall op_ok os -> run_ops' s rst os = (s', rst', out) ->
    Forall (fun tr => all_allowed (fst tr)) out.
  Proof.
    induction os as [|o os IH]; intros s rst s' rst' out Hok; cbn [run_ops].
    - intro X; inv_pair X. constructor.
    - inversion Hok as [|? ? Ho Hos]; subst.
      destruct (run_op' s rst o) as [[[s1 rst1] t] r] eqn:E1.
      destruct (run_ops' s1 rst1 os) as [[s2 rst2] out2] eqn:E2.
      intro X; inv_pair X. constructor.
      + cbn [fst]. eapply run_op_allowed; eauto.
      + eapply IH; eauto.
  Qed.
End ClientFacts.

(* ---------- success implies a response consistent with the request ---------- *)

Lemma verify_digest_spec r e : verify_digest r e = true <-> dig_consistent r e.
Proof.
  unfold verify_digest, dig_consistent. destruct (nstr (r_dig r)) as [|x s] eqn:E.
  - split; auto.
  - split.
    + intro V. apply andb_true_iff in V as [V1 V2]. apply str_eqb_spec in V2. subst e. auto.
    + intros [X|[X V]]; [discriminate|]. subst e. rewrite V, str_eqb_refl. reflexivity.
Qed.

Lemma len_check_spec r n :
  (match r_clen r with Some m => negb (m =? n) | None => false end) = false <-> len_consistent r n.
Proof.
  unfold len_consistent. destruct (r_clen r) as [m|]; [|split; auto].
  split.
  - intro E. apply negb_false_iff in E. apply N.eqb_eq in E. subst. auto.
  - intros [X|X]; [discriminate|]. injection X as ->. now rewrite N.eqb_refl.
Qed.

Section Consistency.
  Variable H : str -> str.
  Variable parse_mt : str -> option str.
  Variables main other : str.
  Variable user_mts : list str.
  Variable limit : N.
  Variable index_of : str -> option (list desc).
  Variable srv : Type.
  Variable exch : srv -> request -> srv * response.

  (* blobStore.Fetch: bytes are returned only from a 200 whose Content-Length and
     digest header do not contradict the descriptor *)
  Theorem blob_fetch_consistent repo s d s' t c :
    blob_fetch srv exch repo s d = (s', t, RBytes c) ->
    exists q r, t = [(q, r)] /\ r_status r = 200 /\ c = r_body r /\
                len_consistent r (d_sz d) /\ dig_consistent r (d_dg d).
  Proof.
    unfold blob_fetch. destruct (exch s _) as [s1 r]. intro X. injection X as _ <- X.
    exists (req GET repo (EBlob (d_dg d))), r.
    destruct (r_status r =? 200) eqn:Es.
    - apply N.eqb_eq in Es.
      destruct (match r_clen r with Some n => negb (n =? d_sz d) | None => false end) eqn:El; [discriminate|].
      destruct (verify_digest r (d_dg d)) eqn:Ev; [|discriminate].
      injection X as <-. apply len_check_spec in El. apply verify_digest_spec in Ev. auto.
    - destruct (r_status r =? 404); discriminate.
  Qed.

  (* manifestStore.Fetch: additionally the Content-Type must be the descriptor's media type *)
  Theorem man_fetch_consistent s d s' t c :
    man_fetch parse_mt main srv exch s d = (s', t, RBytes c) ->
    exists q r, t = [(q, r)] /\ r_status r = 200 /\ c = r_body r /\
                parse_mt (nstr (r_ctype r)) = Some (d_mt d) /\
                len_consistent r (d_sz d) /\ dig_consistent r (d_dg d).
  Proof.
    unfold man_fetch. destruct (exch s _) as [s1 r]. intro X. injection X as _ <- X.
    eexists _, r. split; [reflexivity|].
    destruct (r_status r =? 200) eqn:Es.
    - apply N.eqb_eq in Es.
      destruct (parse_mt (nstr (r_ctype r))) as [mt|] eqn:Em; [|discriminate].
      destruct (str_eqb mt (d_mt d)) eqn:Eq; cbn [negb] in X; [|discriminate].
      apply str_eqb_spec in Eq. subst mt.
      destruct (match r_clen r with Some n => negb (n =? d_sz d) | None => false end) eqn:El; [discriminate|].
      destruct (verify_digest r (d_dg d)) eqn:Ev; [|discriminate].
      injection X as <-. apply len_check_spec in El. apply verify_digest_spec in Ev. auto 10.
    - destruct (r_status r =? 404); discriminate.
  Qed.

  (* generateDescriptor: the descriptor is exactly what the response states, and it
     agrees with a digest reference; without a digest header it is the client's
     digest (HEAD, digest reference only) or the digest of the body (GET) *)
  Theorem gen_desc_consistent r rf hd d :
    gen_desc H parse_mt limit r rf hd = Some d ->
    parse_mt (nstr (r_ctype r)) = Some (d_mt d) /\ r_clen r = Some (d_sz d) /\
    (valid_digest rf = true -> d_dg d = rf) /\
    match nstr (r_dig r) with
    | [] => if hd then d_dg d = rf /\ valid_digest rf = true
            else d_dg d = H (hashed_body limit r) /\ (limit <? d_sz d) = false
    | sd => sd = d_dg d /\ valid_digest sd = true
    end.
  Proof.
    unfold gen_desc.
    destruct (parse_mt (nstr (r_ctype r))) as [mt|]; [|discriminate].
    destruct (r_clen r) as [n|]; [|discriminate].
    destruct (nstr (r_dig r)) as [|x sd] eqn:Ed.
    - destruct (valid_digest rf) eqn:Vr.
      + destruct hd.
        * destruct rf as [|y rf]; [discriminate|].
          rewrite str_eqb_refl. cbn [negb]. intro X; injection X as <-. cbn. auto.
        * destruct rf as [|y rf]; [discriminate|].
          destruct (limit <? n) eqn:El; [discriminate|].
          destruct (str_eqb (y :: rf) (H (hashed_body limit r))) eqn:Eq; cbn [negb]; [|discriminate].
          apply str_eqb_spec in Eq. intro X; injection X as <-. cbn. auto.
      + destruct hd; [discriminate|].
        destruct (limit <? n) eqn:El; [discriminate|].
        intro X; injection X as <-. cbn.
        repeat split; auto. discriminate.
    - destruct (valid_digest (x :: sd)) eqn:Vs; cbn [negb]; [|discriminate].
      destruct (valid_digest rf) eqn:Vr.
      + destruct rf as [|y rf]; [discriminate|].
        destruct (str_eqb (y :: rf) (x :: sd)) eqn:Eq; cbn [negb]; [|discriminate].
        apply str_eqb_spec in Eq. intro X; injection X as <-. cbn. auto.
      + intro X; injection X as <-. cbn. repeat split; auto. discriminate.
  Qed.

  (* generateBlobDescriptor *)
  Theorem gen_blob_desc_consistent r refd d :
    gen_blob_desc parse_mt r refd = Some d ->
    d_dg d = refd /\ r_clen r = Some (d_sz d) /\ dig_consistent r refd.
  Proof using parse_mt.
    unfold gen_blob_desc. destruct (r_clen r) as [n|]; [|discriminate].
    destruct (verify_digest r refd) eqn:Ev; [|discriminate].
    apply verify_digest_spec in Ev. intro X; injection X as <-. cbn. auto.
  Qed.

  (* Resolve / FetchReference: a descriptor is returned only for a valid reference,
     from a 200, and it is consistent with the (last) response and the reference *)
  Theorem man_resolve_consistent s rs s' t d :
    man_resolve H parse_mt main user_mts limit srv exch s rs = (s', t, RDesc d) ->
    exists rf q r, resolve_ref main rs = Some rf /\ t = [(q, r)] /\ q_ep q = EManifest rf /\
                   r_status r = 200 /\ gen_desc H parse_mt limit r rf true = Some d.
  Proof.
    unfold man_resolve. destruct (resolve_ref main rs) as [rf|]; [|discriminate].
    destruct (exch s _) as [s1 r]. intro X. injection X as _ <- X.
    eexists rf, _, r. split; [reflexivity|]. split; [reflexivity|]. split; [reflexivity|].
    destruct (r_status r =? 200) eqn:Es.
    - apply N.eqb_eq in Es. destruct (gen_desc H parse_mt limit r rf true); [|discriminate].
      injection X as <-. auto.
    - destruct (r_status r =? 404); discriminate.
  Qed.

  Theorem blob_resolve_consistent s rs s' t d :
    blob_resolve parse_mt main srv exch s rs = (s', t, RDesc d) ->
    exists rf q r, resolve_ref main rs = Some rf /\ valid_digest rf = true /\ t = [(q, r)] /\
                   r_status r = 200 /\ d_dg d = rf /\ r_clen r = Some (d_sz d) /\ dig_consistent r rf.
  Proof using parse_mt main srv exch.
    unfold blob_resolve. destruct (resolve_ref main rs) as [rf|]; [|discriminate].
    destruct (valid_digest rf) eqn:V; cbn [negb]; [|discriminate].
    destruct (exch s _) as [s1 r]. intro X. injection X as _ <- X.
    eexists rf, _, r. split; [reflexivity|]. split; [exact V|]. split; [reflexivity|].
    destruct (r_status r =? 200) eqn:Es.
    - apply N.eqb_eq in Es. destruct (gen_blob_desc parse_mt r rf) eqn:Eg; [|discriminate].
      injection X as <-. apply gen_blob_desc_consistent in Eg. destruct Eg as (A & B & C). auto.
    - destruct (r_status r =? 404); discriminate.
  Qed.

  Lemma man_resolve_shape s rs s' t res :
    man_resolve H parse_mt main user_mts limit srv exch s rs = (s', t, res) ->
    (exists d, res = RDesc d) \/ (exists e, res = RErr e).
  Proof.
    unfold man_resolve. destruct (resolve_ref main rs) as [rf|]; [|intro X; injection X as _ _ <-; eauto].
    destruct (exch s _) as [s1 r]. intro X. injection X as _ _ <-.
    destruct (r_status r =? 200); [destruct (gen_desc _ _ _ _ _); eauto|].
    destruct (r_status r =? 404); unfold status_err; eauto.
  Qed.

  Theorem man_fetchref_consistent s rs s' t d c :
    man_fetchref H parse_mt main user_mts limit srv exch s rs = (s', t, RDescBytes d c) ->
    exists rf q r rest, resolve_ref main rs = Some rf /\ t = (q, r) :: rest /\
      r_status r = 200 /\
      ((rest = [] /\ gen_desc H parse_mt limit r rf false = Some d /\
        c = match nstr (r_dig r) with [] => hashed_body limit r | _ => r_body r end) \/
       (r_clen r = None /\ c = r_body r /\ dig_consistent r (d_dg d) /\
        exists q2 r2, rest = [(q2, r2)] /\ r_status r2 = 200 /\
                      gen_desc H parse_mt limit r2 rf true = Some d)).
  Proof.
    unfold man_fetchref. destruct (resolve_ref main rs) as [rf|] eqn:ER; [|discriminate].
    destruct (exch s _) as [s1 r].
    destruct (r_status r =? 200) eqn:Es.
    - apply N.eqb_eq in Es. destruct (r_clen r) as [n|] eqn:Ec.
      + intro X. injection X as _ <- X. eexists rf, _, r, []. repeat (split; [reflexivity|]). split; [exact Es|].
        destruct (gen_desc H parse_mt limit r rf false); [|discriminate]. injection X as <- <-. auto.
      + destruct (man_resolve _ _ _ _ _ _ _ s1 rs) as [[s2 t2] res2] eqn:E2.
        intro X. injection X as _ <- X.
        destruct (man_resolve_shape _ _ _ _ _ E2) as [[d0 ->]|[e ->]]; [|discriminate].
        destruct (verify_digest r (d_dg d0)) eqn:Ev; [|discriminate].
        injection X as <- <-. apply verify_digest_spec in Ev.
        apply man_resolve_consistent in E2 as (rf' & q2 & r2 & ER' & -> & _ & Es2 & G).
        rewrite ER in ER'. injection ER' as <-.
        eexists rf, _, r, _. repeat (split; [reflexivity|]). split; [exact Es|].
        right. split; [exact Ec|]. split; [reflexivity|]. split; [exact Ev|]. eauto.
    - intro X. injection X as _ _ X. destruct (r_status r =? 404); discriminate.
  Qed.

  (* blob FetchReference: the descriptor is for the digest asked for, the body is the GET's,
     and the GET's digest header does not contradict it -- also when the descriptor comes
     from a second (HEAD) request because the GET has no Content-Length *)
  Lemma blob_resolve_shape s rs s' t res :
    blob_resolve parse_mt main srv exch s rs = (s', t, res) ->
    (exists d, res = RDesc d) \/ (exists e, res = RErr e).
  Proof using parse_mt main srv exch.
    unfold blob_resolve. destruct (resolve_ref main rs) as [rf|]; [|intro X; injection X as _ _ <-; eauto].
    destruct (negb (valid_digest rf)); [intro X; injection X as _ _ <-; eauto|].
    destruct (exch s _) as [s1 r]. intro X. injection X as _ _ <-.
    destruct (r_status r =? 200); [destruct (gen_blob_desc _ _ _); eauto|].
    destruct (r_status r =? 404); unfold status_err; eauto.
  Qed.

  Theorem blob_fetchref_consistent s rs s' t d c :
    blob_fetchref parse_mt main srv exch s rs = (s', t, RDescBytes d c) ->
    exists rf q r rest, resolve_ref main rs = Some rf /\ valid_digest rf = true /\ t = (q, r) :: rest /\
      r_status r = 200 /\ c = r_body r /\ d_dg d = rf /\ dig_consistent r rf.
  Proof using parse_mt main srv exch.
    unfold blob_fetchref. destruct (resolve_ref main rs) as [rf|] eqn:ER; [|discriminate].
    destruct (valid_digest rf) eqn:V; cbn [negb]; [|discriminate].
    destruct (exch s _) as [s1 r].
    destruct (r_status r =? 200) eqn:Es.
    - apply N.eqb_eq in Es. destruct (r_clen r) as [n|] eqn:Ec.
      + intro X. injection X as _ <- X.
        destruct (gen_blob_desc parse_mt r rf) eqn:Eg; [|discriminate]. injection X as <- <-.
        apply gen_blob_desc_consistent in Eg as (A & B & C).
        eexists rf, _, r, []. split; [reflexivity|]. split; [exact V|]. split; [reflexivity|]. auto.
      + destruct (blob_resolve _ _ _ _ s1 rs) as [[s2 t2] res2] eqn:E2.
        intro X. injection X as _ <- X.
        destruct (blob_resolve_shape _ _ _ _ _ E2) as [[d0 ->]|[e ->]]; [|discriminate].
        destruct (verify_digest r (d_dg d0)) eqn:Ev; [|discriminate].
        injection X as <- <-. apply verify_digest_spec in Ev.
        apply blob_resolve_consistent in E2 as (rf' & q2 & r2 & ER' & _ & _ & _ & Hd & _).
        rewrite ER in ER'. injection ER' as <-. rewrite Hd in Ev.
        eexists rf, _, r, _. split; [reflexivity|]. split; [exact V|]. split; [reflexivity|]. auto.
    - intro X. injection X as _ _ X. destruct (r_status r =? 404); discriminate.
  Qed.

  (* the referrers index read through the referrers tag (registries without the Referrers API):
     it is used only if the body that was received is exactly what the descriptor derived from
     the same response says -- its length is the Content-Length, its digest the digest header
     (or the digest computed from it) -- and it decodes; so a digest header or Content-Length
     contradicting the body makes Referrers/Predecessors and the index update fail *)
  Lemma man_fetchref_shape s rs s' t res :
    man_fetchref H parse_mt main user_mts limit srv exch s rs = (s', t, res) ->
    (exists d c, res = RDescBytes d c) \/ (exists e, res = RErr e).
  Proof.
    unfold man_fetchref. destruct (resolve_ref main rs) as [rf|]; [|intro X; injection X as _ _ <-; eauto].
    destruct (exch s _) as [s1 r].
    destruct (r_status r =? 200).
    - destruct (r_clen r).
      + intro X. injection X as _ _ <-. destruct (gen_desc _ _ _ _ _ _); eauto.
      + destruct (man_resolve _ _ _ _ _ _ _ s1 rs) as [[s2 t2] res2] eqn:E2.
        intro X. injection X as _ _ <-.
        destruct (man_resolve_shape _ _ _ _ _ E2) as [[d0 ->]|[e ->]]; [|eauto].
        destruct (verify_digest r (d_dg d0)); eauto.
    - intro X. injection X as _ _ <-. destruct (r_status r =? 404); unfold status_err; eauto.
  Qed.

  Lemma rfi_shape s tag s' t res old :
    referrers_from_index H parse_mt main user_mts limit index_of srv exch s tag = (s', t, res, old) ->
    res = ROk \/ exists e, res = RErr e.
  Proof.
    unfold referrers_from_index.
    destruct (man_fetchref _ _ _ _ _ _ _ s tag) as [[s1 t1] res1] eqn:E.
    destruct (man_fetchref_shape _ _ _ _ _ E) as [(d0 & c0 & ->)|[e ->]]; [|intro X; injection X as _ _ <- _; eauto].
    destruct (limit <? d_sz d0); [intro X; injection X as _ _ <- _; eauto|].
    destruct (decode_json_verifies && _); [intro X; injection X as _ _ <- _; eauto|].
    destruct (index_of c0); intro X; injection X as _ _ <- _; eauto.
  Qed.

  Theorem referrers_index_consistent s tag s' t d l :
    referrers_from_index H parse_mt main user_mts limit index_of srv exch s tag = (s', t, ROk, Some (d, l)) ->
    exists body,
      man_fetchref H parse_mt main user_mts limit srv exch s tag = (s', t, RDescBytes d body) /\
      len body = d_sz d /\ H body = d_dg d /\ d_sz d <= limit /\ index_of body = Some l.
  Proof.
    unfold referrers_from_index.
    destruct (man_fetchref _ _ _ _ _ _ _ s tag) as [[s1 t1] res1] eqn:E.
    destruct res1 as [| | | |d0 body| |]; try (intro X; discriminate X).
    destruct (limit <? d_sz d0) eqn:El; [discriminate|].
    rewrite decode_json_verifies_true. cbn [andb].
    destruct (negb (len body =? d_sz d0) || negb (str_eqb (H body) (d_dg d0))) eqn:Ev; [discriminate|].
    destruct (index_of body) as [l0|] eqn:Ei; [|discriminate].
    intro X. injection X as <- <- <- <-.
    apply orb_false_iff in Ev as [E1 E2]. apply negb_false_iff in E1, E2.
    apply N.eqb_eq in E1. apply str_eqb_spec in E2. apply N.ltb_ge in El.
    exists body. auto.
  Qed.

  Theorem tag_schema_consistent s d s' t l :
    tag_schema_referrers H parse_mt main user_mts limit index_of srv exch s d = (s', t, RDescs l) ->
    l = [] \/
    exists id body idx,
      man_fetchref H parse_mt main user_mts limit srv exch s (ref_tag (d_dg d)) = (s', t, RDescBytes id body) /\
      len body = d_sz id /\ H body = d_dg id /\ index_of body = Some idx /\ l = clean_refs [] idx.
  Proof.
    unfold tag_schema_referrers. destruct (valid_digest (d_dg d)); cbn [negb]; [|discriminate].
    destruct (referrers_from_index _ _ _ _ _ _ _ _ s _) as [[[s1 t1] res1] old] eqn:E.
    destruct (rfi_shape _ _ _ _ _ _ E) as [->|[e ->]].
    - destruct old as [[od idx]|]; [|discriminate]. intro X. injection X as <- <- <-.
      apply referrers_index_consistent in E as (body & E & A & B & _ & C). right. eauto 10.
    - destruct e; try discriminate. intro X. injection X as _ _ <-. now left.
  Qed.

  (* writes: success needs the exact status and a digest header that does not
     contradict the descriptor; a push needs the Location of the session *)
  Theorem delete_req_consistent s d man s' t :
    delete_req main srv exch s d man = (s', t, ROk) ->
    exists q r, t = [(q, r)] /\ r_status r = 202 /\ dig_consistent r (d_dg d).
  Proof.
    unfold delete_req. destruct (exch s _) as [s1 r]. intro X. injection X as _ <- X.
    eexists _, r. split; [reflexivity|].
    destruct (r_status r =? 202) eqn:Es.
    - apply N.eqb_eq in Es. destruct (verify_digest r (d_dg d)) eqn:Ev; [|discriminate].
      apply verify_digest_spec in Ev. auto.
    - destruct (r_status r =? 404); discriminate.
  Qed.

  Theorem man_put_consistent s rst d c sized rf s' rst' t :
    man_put main srv exch s rst d c sized rf = (s', rst', t, ROk) ->
    exists q r, t = [(q, r)] /\ r_status r = 201 /\ dig_consistent r (d_dg d) /\
                q_body q = c /\ q_ctype q = Some (d_mt d) /\ (sized = true -> len c = d_sz d).
  Proof.
    unfold man_put. destruct (sized && negb (len c =? d_sz d)) eqn:Esz; [discriminate|].
    destruct (exch s _) as [s1 r].
    destruct (r_status r =? 201) eqn:Es; [|discriminate].
    apply N.eqb_eq in Es. intro X. injection X as _ _ <- X.
    destruct (verify_digest r (d_dg d)) eqn:Ev; [|discriminate].
    apply verify_digest_spec in Ev. eexists _, r. repeat (split; [reflexivity|]).
    split; [exact Es|]. split; [exact Ev|]. cbn. repeat split; auto.
    intros ->. cbn in Esz. apply negb_false_iff in Esz. now apply N.eqb_eq.
  Qed.

  Theorem complete_push_consistent s r1 d c sized s' t :
    complete_push srv exch s r1 d c sized = (s', t, ROk) ->
    exists rp ep q r2, r_loc r1 = Some (rp, ep) /\ t = [(q, r2)] /\ r_status r2 = 201 /\
                       q_repo q = rp /\ q_ep q = ep /\ q_digest q = Some (d_dg d) /\ q_body q = c /\
                       (* a well-formed digest header names the pushed blob *)
                       (valid_digest (nstr (r_dig r2)) = true -> nstr (r_dig r2) = d_dg d).
  Proof.
    unfold complete_push. destruct (r_loc r1) as [[rp ep]|]; [|discriminate].
    destruct (sized && negb (len c =? d_sz d)); [discriminate|].
    destruct (exch s _) as [s2 r2]. intro X. injection X as _ <- X.
    destruct (r_status r2 =? 201) eqn:Es; [|discriminate]. apply N.eqb_eq in Es.
    destruct (valid_digest (nstr (r_dig r2)) && negb (str_eqb (nstr (r_dig r2)) (d_dg d))) eqn:Ed; [discriminate|].
    eexists rp, ep, _, r2. repeat (split; [reflexivity|]). split; [exact Es|]. cbn. repeat split; auto.
    intro V. rewrite V in Ed. cbn in Ed. apply negb_false_iff in Ed. now apply str_eqb_spec.
  Qed.

  Lemma blob_fetch_shape repo s d s' t res :
    blob_fetch srv exch repo s d = (s', t, res) ->
    (exists c, res = RBytes c) \/ (exists e, res = RErr e).
  Proof.
    unfold blob_fetch. destruct (exch s _) as [s1 r]. intro X. injection X as _ _ <-.
    destruct (r_status r =? 200).
    - destruct (match r_clen r with Some n => negb (n =? d_sz d) | None => false end); eauto.
      destruct (verify_digest r (d_dg d)); eauto.
    - destruct (r_status r =? 404); unfold status_err; eauto.
  Qed.

  Theorem blob_mount_consistent s d g s' t :
    blob_mount main other srv exch s d g = (s', t, ROk) ->
    exists q r rest, t = (q, r) :: rest /\
      ((r_status r = 201 /\ rest = [] /\ dig_consistent r (d_dg d)) \/
       (r_status r = 202 /\ rest <> [] /\ r_loc r <> None)).
  Proof.
    unfold blob_mount. destruct (exch s _) as [s1 r1].
    destruct (r_status r1 =? 201) eqn:E1.
    - apply N.eqb_eq in E1. intro X. injection X as _ <- X.
      destruct (verify_digest r1 (d_dg d)) eqn:Ev; [|discriminate]. apply verify_digest_spec in Ev.
      eexists _, r1, []. split; [reflexivity|]. left. auto.
    - destruct (r_status r1 =? 202) eqn:E2; [|discriminate]. apply N.eqb_eq in E2.
      destruct g as [c|].
      + destruct (complete_push _ _ s1 r1 d c false) as [[s2 t2] res2] eqn:Ec.
        intro X. injection X as _ <- ->.
        apply complete_push_consistent in Ec as (rp & ep & q & r2 & El & -> & _).
        eexists _, r1, _. split; [reflexivity|]. right. split; [exact E2|]. split; [discriminate|].
        rewrite El. discriminate.
      + destruct (blob_fetch _ _ other s1 d) as [[s2 t2] res2] eqn:Ef.
        destruct (blob_fetch_shape _ _ _ _ _ _ Ef) as [[c ->]|[e ->]]; [|discriminate].
        destruct (complete_push _ _ s2 r1 d c false) as [[s3 t3] res3] eqn:Ec.
        intro X. injection X as _ <- ->.
        apply complete_push_consistent in Ec as (rp & ep & q & r2 & El & -> & _).
        eexists _, r1, _. split; [reflexivity|]. right. split; [exact E2|].
        split; [destruct t2; discriminate|]. rewrite El. discriminate.
  Qed.
End Consistency.

(* ---------- the same, in the words of the property: single-field corruptions ---------- *)
(* [r0] is a response that Fetch of [d] would accept; corrupting one field so that it
   contradicts the descriptor makes Fetch fail, whatever else the response says. *)
Definition contradicts_fetch (parse_mt : str -> option str) (manifest : bool) (k : corruption) (r0 : response) (d : desc) : Prop :=
  match k with
  | KDigOther x => x <> [] /\ x <> d_dg d
  | KDigGarbage => True
  | KLenInc => r_clen r0 = Some (d_sz d)
  | KStatus st => st <> 200
  | KTypeOther => manifest = true /\ parse_mt (b "application/vnd.verif.other") <> Some (d_mt d)
  | KTypeGarbage => manifest = true /\ parse_mt (b "garbage/;=") = None
  | KTypeDrop => manifest = true /\ parse_mt [] = None
  | KNameUnknown => True                         (* a 404 *)
  | KDigDrop | KLenDrop | KLocDrop => False      (* nothing the descriptor could contradict *)
  end.

Lemma garbage_invalid : valid_digest (b "garbage") = false.
Proof. vm_compute. reflexivity. Qed.

Lemma corrupt_fetch_inconsistent parse_mt manifest k r0 d :
  contradicts_fetch parse_mt manifest k r0 d ->
  let r := corrupt k r0 in
  ~ (r_status r = 200 /\ (manifest = true -> parse_mt (nstr (r_ctype r)) = Some (d_mt d)) /\
     len_consistent r (d_sz d) /\ dig_consistent r (d_dg d)).
Proof.
  intros Hc r (Hs & Hm & Hl & Hd). subst r. destruct r0 as [st ct cl dg loc ar sj rf body].
  unfold dig_consistent, len_consistent in *.
  destruct k; cbn [corrupt r_status r_ctype r_clen r_dig nstr contradicts_fetch] in *; try contradiction.
  - destruct Hc as [N1 N2]. destruct Hd as [X|[X _]]; congruence.
  - destruct Hd as [X|[X V]]; [discriminate|]. rewrite <- X, garbage_invalid in V. discriminate.
  - subst cl. destruct Hl as [X|X]; [discriminate|]. injection X as X. lia.
  - destruct Hc as [-> N1]. specialize (Hm eq_refl). congruence.
  - destruct Hc as [-> N1]. specialize (Hm eq_refl). congruence.
  - destruct Hc as [-> N1]. specialize (Hm eq_refl). congruence.
  - discriminate Hs.
Qed.

Theorem blob_fetch_corrupted (srv : Type) repo (s : srv) k r0 d :
  contradicts_fetch (fun _ => None) false k r0 d ->
  exists e, snd (blob_fetch srv (fun s _ => (s, corrupt k r0)) repo s d) = RErr e.
Proof.
  intro Hc. destruct (blob_fetch srv _ repo s d) as [[s' t] res] eqn:E. cbn [snd].
  destruct (blob_fetch_shape _ _ _ _ _ _ _ _ E) as [[c ->]|[e ->]]; [|eauto].
  exfalso. pose proof E as E'. apply blob_fetch_consistent in E as (q & r & -> & Hs & _ & Hl & Hd).
  unfold blob_fetch in E'. cbv beta iota zeta in E'. injection E' as _ _ <- _.
  eapply corrupt_fetch_inconsistent; eauto. repeat split; eauto. discriminate.
Qed.

Theorem man_fetch_corrupted parse_mt main (srv : Type) (s : srv) k r0 d :
  contradicts_fetch parse_mt true k r0 d ->
  exists e, snd (man_fetch parse_mt main srv (fun s _ => (s, corrupt k r0)) s d) = RErr e.
Proof.
  intro Hc. destruct (man_fetch parse_mt main srv _ s d) as [[s' t] res] eqn:E. cbn [snd].
  assert (Sh : (exists c, res = RBytes c) \/ (exists e, res = RErr e)).
  { unfold man_fetch in E. injection E as _ _ <-.
    destruct (r_status (corrupt k r0) =? 200).
    - destruct (parse_mt _); eauto. destruct (negb _); eauto.
      destruct (match r_clen (corrupt k r0) with Some n => negb (n =? d_sz d) | None => false end); eauto.
      destruct (verify_digest _ _); eauto.
    - destruct (r_status (corrupt k r0) =? 404); unfold status_err; eauto. }
  destruct Sh as [[c ->]|[e ->]]; [|eauto].
  exfalso. pose proof E as E'. apply man_fetch_consistent in E as (q & r & -> & Hs & _ & Hm & Hl & Hd).
  unfold man_fetch in E'. cbv beta iota zeta in E'. injection E' as _ _ <- _.
  eapply corrupt_fetch_inconsistent; eauto.
Qed.
