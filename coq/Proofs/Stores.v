(* C06 -- lemmas about Model/Stores.v *)
From Oras Require Import Base.Prelude Generated.GC06 Model.Stores.
From Coq Require Import Permutation.

(* ---------- decidable keys ---------- *)
Lemma gkey_eqb_spec a c : gkey_eqb a c = true <-> a = c.
Proof.
  destruct a as [[a1 a2] a3], c as [[c1 c2] c3]; simpl.
  rewrite !andb_true_iff, !N.eqb_eq. split.
  - intros [[-> ->] ->]. reflexivity.
  - intro H. injection H as -> -> ->. auto.
Qed.

Lemma ref_eqb_spec a c : ref_eqb a c = true <-> a = c.
Proof.
  destruct a, c; simpl; try rewrite N.eqb_eq; split; intro H;
    try discriminate; try congruence; try reflexivity.
Qed.

Lemma eq_target_spec d' k : eq_target d' k = true <-> d_dig d' = k_dig k.
Proof. unfold eq_target. apply N.eqb_eq. Qed.

Lemma Neqb_spec (a c : N) : (a =? c) = true <-> a = c.
Proof. apply N.eqb_eq. Qed.

Section AMapFacts.
  Context {K V : Type} (eqb : K -> K -> bool).
  Hypothesis eqb_spec : forall a c, eqb a c = true <-> a = c.

  Lemma eqb_refl (a : K) : eqb a a = true.
  Proof. now apply eqb_spec. Qed.

  Lemma eqb_neq (a c : K) : a <> c -> eqb a c = false.
  Proof. intro H. destruct (eqb a c) eqn:E; auto. apply eqb_spec in E. contradiction. Qed.

  Lemma eqb_dec (a c : K) : {a = c} + {a <> c}.
  Proof.
    destruct (eqb a c) eqn:E.
    - left. now apply eqb_spec.
    - right. intro H. apply eqb_spec in H. congruence.
  Qed.

  Lemma get_put_eq k (v : V) m : get eqb k (put eqb k v m) = Some v.
  Proof.
    induction m as [|[k' v'] m IH]; simpl.
    - now rewrite eqb_refl.
    - destruct (eqb k k') eqn:E; simpl; [now rewrite eqb_refl | now rewrite E].
  Qed.

  Lemma get_put_neq k k' (v : V) m : k <> k' -> get eqb k (put eqb k' v m) = get eqb k m.
  Proof.
    intro H. induction m as [|[k2 v2] m IH]; simpl.
    - now rewrite (eqb_neq _ _ H).
    - destruct (eqb k' k2) eqn:E; simpl.
      + apply eqb_spec in E. subst k2. now rewrite (eqb_neq _ _ H).
      + now rewrite IH.
  Qed.

  Lemma get_del_eq k (m : list (K * V)) : get eqb k (del eqb k m) = None.
  Proof.
    induction m as [|[k' v'] m IH]; simpl; auto.
    destruct (eqb k k') eqn:E; simpl; auto. now rewrite E.
  Qed.

  Lemma get_del_neq k k' (m : list (K * V)) : k <> k' -> get eqb k (del eqb k' m) = get eqb k m.
  Proof.
    intro H. induction m as [|[k2 v2] m IH]; simpl; auto.
    destruct (eqb k' k2) eqn:E; simpl.
    - apply eqb_spec in E. subst k2. now rewrite (eqb_neq _ _ H).
    - now rewrite IH.
  Qed.

  Lemma del_absent k (m : list (K * V)) : get eqb k m = None -> del eqb k m = m.
  Proof.
    induction m as [|[k' v'] m IH]; simpl; auto.
    destruct (eqb k k') eqn:E; [discriminate|]. intro H. now rewrite IH.
  Qed.

  Lemma get_In k (v : V) m : get eqb k m = Some v -> In (k, v) m.
  Proof.
    induction m as [|[k' v'] m IH]; simpl; [discriminate|].
    destruct (eqb k k') eqn:E.
    - apply eqb_spec in E. subst. intro H. injection H as ->. now left.
    - intro H. right. auto.
  Qed.

  Lemma In_get k (v : V) m : NoDup (map fst m) -> In (k, v) m -> get eqb k m = Some v.
  Proof.
    induction m as [|[k' v'] m IH]; simpl; [tauto|].
    intros Hnd [H|H].
    - injection H as -> ->. now rewrite eqb_refl.
    - inversion Hnd as [|? ? Hni Hnd']; subst.
      destruct (eqb k k') eqn:E.
      + apply eqb_spec in E. subst. exfalso. apply Hni. apply in_map_iff. exists (k', v). auto.
      + auto.
  Qed.

  Lemma In_put_inv k (v : V) k0 v0 m : In (k, v) (put eqb k0 v0 m) -> (k, v) = (k0, v0) \/ In (k, v) m.
  Proof.
    induction m as [|[k' v'] m IH]; simpl.
    - intros [H|[]]. left. congruence.
    - destruct (eqb k0 k') eqn:E; simpl.
      + intros [H|H]; [left; congruence | right; now right].
      + intros [H|H]; [right; now left|]. destruct (IH H); auto.
  Qed.

  Lemma In_del_inv k (v : V) k0 m : In (k, v) (del eqb k0 m) -> In (k, v) m /\ k <> k0.
  Proof.
    induction m as [|[k' v'] m IH]; simpl; [tauto|].
    destruct (eqb k0 k') eqn:E; simpl.
    - intro H. destruct (IH H). split; auto.
    - intros [H|H].
      + injection H as -> ->. split; [now left|]. intro; subst. rewrite eqb_refl in E. discriminate.
      + destruct (IH H). split; auto.
  Qed.

  Lemma keys_put k (v : V) m x : In x (map fst (put eqb k v m)) -> x = k \/ In x (map fst m).
  Proof.
    induction m as [|[k' v'] m IH]; simpl.
    - intros [H|[]]; auto.
    - destruct (eqb k k') eqn:E; simpl.
      + intros [H|H]; auto.
      + intros [H|H]; auto. destruct (IH H); auto.
  Qed.

  Lemma NoDup_put k (v : V) m : NoDup (map fst m) -> NoDup (map fst (put eqb k v m)).
  Proof.
    induction m as [|[k' v'] m IH]; simpl; intro H.
    - constructor; [tauto | constructor].
    - inversion H as [|? ? Hni Hnd]; subst.
      destruct (eqb k k') eqn:E; simpl.
      + apply eqb_spec in E. subst. now constructor.
      + constructor; auto. intro Hin. apply keys_put in Hin as [->|Hin]; auto.
        rewrite eqb_refl in E. discriminate.
  Qed.

  Lemma keys_del k (m : list (K * V)) x : In x (map fst (del eqb k m)) -> In x (map fst m).
  Proof.
    induction m as [|[k' v'] m IH]; simpl; auto.
    destruct (eqb k k'); simpl; intuition.
  Qed.

  Lemma NoDup_del k (m : list (K * V)) : NoDup (map fst m) -> NoDup (map fst (del eqb k m)).
  Proof.
    induction m as [|[k' v'] m IH]; simpl; intro H; auto.
    inversion H as [|? ? Hni Hnd]; subst.
    destruct (eqb k k'); simpl; auto. constructor; auto. intro Hin. apply Hni. eapply keys_del; eauto.
  Qed.

  (* list-sets *)
  Lemma mem_In (x : K) l : mem eqb x l = true <-> In x l.
  Proof.
    unfold mem. rewrite existsb_exists. split.
    - intros (y & Hy & E). apply eqb_spec in E. now subst.
    - intro H. exists x. split; auto. apply eqb_refl.
  Qed.

  Lemma In_set_add (x y : K) l : In y (set_add eqb x l) <-> y = x \/ In y l.
  Proof.
    unfold set_add. destruct (mem eqb x l) eqn:E.
    - apply mem_In in E. split; [auto|]. intros [->|H]; auto.
    - rewrite in_app_iff. simpl. intuition.
  Qed.

  Lemma In_set_del (x y : K) l : In y (set_del eqb x l) <-> In y l /\ y <> x.
  Proof.
    unfold set_del. rewrite filter_In. split.
    - intros [H1 H2]. split; auto. intro; subst. rewrite eqb_refl in H2. discriminate.
    - intros [H1 H2]. split; auto. rewrite eqb_neq; auto.
  Qed.
End AMapFacts.

Lemma is_nil_spec {A} (l : list A) : is_nil l = true <-> l = [].
Proof. destruct l; simpl; split; intro H; try discriminate; auto. Qed.

Section GetD.
  Context {K V : Type} (eqb : K -> K -> bool).
  Hypothesis eqb_spec : forall a c, eqb a c = true <-> a = c.
  Lemma getd_put_eq k (l : list V) m : getd eqb k (put eqb k l m) = l.
  Proof. unfold getd. now rewrite get_put_eq. Qed.
  Lemma getd_put_neq k k' (l : list V) m : k <> k' -> getd eqb k (put eqb k' l m) = getd eqb k m.
  Proof. intro H. unfold getd. now rewrite get_put_neq. Qed.
  Lemma getd_del_eq k (m : list (K * list V)) : getd eqb k (del eqb k m) = [].
  Proof. unfold getd. now rewrite get_del_eq. Qed.
  Lemma getd_del_neq k k' (m : list (K * list V)) : k <> k' -> getd eqb k (del eqb k' m) = getd eqb k m.
  Proof. intro H. unfold getd. now rewrite get_del_neq. Qed.
End GetD.

(* ---------- graph.Memory: the invariant relative to the stored successor lists ---------- *)
Definition gdec := eqb_dec gkey_eqb gkey_eqb_spec.

Definition upd (S : gkey -> option (list gkey)) (k : gkey) (v : option (list gkey)) :=
  fun k' => if gkey_eqb k' k then v else S k'.

Record graph_inv (S : gkey -> option (list gkey)) (g : graph) : Prop := mkGI {
  gi_nodes : forall k, get gkey_eqb k (g_nodes g) = None <-> S k = None;
  gi_nodes_key : forall k d, get gkey_eqb k (g_nodes g) = Some d -> gk d = k;
  gi_succs : forall k, match S k with
                       | None => get gkey_eqb k (g_succs g) = None
                       | Some l => exists l', get gkey_eqb k (g_succs g) = Some l' /\
                                              forall x, In x l' <-> In x l
                       end;
  gi_preds : forall n p, In p (getd gkey_eqb n (g_preds g)) <-> exists l, S p = Some l /\ In n l }.

Lemma graph_inv_ext S S' g : (forall k, S k = S' k) -> graph_inv S g -> graph_inv S' g.
Proof.
  intros E [H1 H2 H3 H4]. constructor.
  - intro k. rewrite <- E. apply H1.
  - exact H2.
  - intro k. rewrite <- E. apply H3.
  - intros n p. rewrite H4. split; intros (l & A & B); exists l; [rewrite <- E | rewrite E]; auto.
Qed.

Lemma graph_inv_init : graph_inv (fun _ => None) graph_init.
Proof.
  constructor; simpl; intros; try tauto; try discriminate.
  unfold getd; simpl. split; [tauto|]. intros (l & A & _). discriminate.
Qed.

Lemma fold_set_add_In (ss : list gkey) acc x :
  In x (fold_left (fun acc sk => set_add gkey_eqb sk acc) ss acc) <-> In x acc \/ In x ss.
Proof.
  revert acc. induction ss as [|sk ss IH]; intro acc; simpl; [tauto|].
  rewrite IH. rewrite (In_set_add gkey_eqb gkey_eqb_spec). intuition.
Qed.

Definition index_fold (k : gkey) (ss : list gkey) (ps : list (gkey * list gkey)) :=
  fold_left (fun ps sk => put gkey_eqb sk (set_add gkey_eqb k (getd gkey_eqb sk ps)) ps) ss ps.

Lemma index_fold_In k ss ps n p :
  In p (getd gkey_eqb n (index_fold k ss ps)) <-> In p (getd gkey_eqb n ps) \/ (p = k /\ In n ss).
Proof.
  unfold index_fold. revert ps. induction ss as [|sk ss IH]; intro ps; simpl; [tauto|].
  rewrite IH. destruct (gdec n sk) as [->|Hne].
  - rewrite (getd_put_eq gkey_eqb gkey_eqb_spec). rewrite (In_set_add gkey_eqb gkey_eqb_spec). intuition.
  - rewrite (getd_put_neq gkey_eqb gkey_eqb_spec) by exact Hne. intuition. congruence.
Qed.

Definition remove_fold (k : gkey) (ss : list gkey) (ps : list (gkey * list gkey)) :=
  fold_left (fun ps sk =>
               let e := set_del gkey_eqb k (getd gkey_eqb sk ps) in
               if is_nil e then del gkey_eqb sk ps else put gkey_eqb sk e ps) ss ps.

Lemma remove_fold_In k ss ps n p :
  In p (getd gkey_eqb n (remove_fold k ss ps)) <-> In p (getd gkey_eqb n ps) /\ ~ (p = k /\ In n ss).
Proof.
  unfold remove_fold. revert ps. induction ss as [|sk ss IH]; intro ps; simpl; [tauto|].
  rewrite IH. clear IH.
  assert (Hstep : In p (getd gkey_eqb n
             (if is_nil (set_del gkey_eqb k (getd gkey_eqb sk ps)) then del gkey_eqb sk ps
              else put gkey_eqb sk (set_del gkey_eqb k (getd gkey_eqb sk ps)) ps))
            <-> In p (getd gkey_eqb n ps) /\ ~ (p = k /\ n = sk)).
  { destruct (gdec n sk) as [->|Hne].
    - destruct (is_nil _) eqn:E.
      + apply is_nil_spec in E. rewrite (getd_del_eq gkey_eqb). simpl.
        split; [tauto|]. intros [A B].
        assert (C : In p (set_del gkey_eqb k (getd gkey_eqb sk ps))).
        { apply (In_set_del gkey_eqb gkey_eqb_spec). split; [exact A|]. intro Hpk. apply B; auto. }
        rewrite E in C. destruct C.
      + rewrite (getd_put_eq gkey_eqb gkey_eqb_spec). rewrite (In_set_del gkey_eqb gkey_eqb_spec).
        split; intros [A B]; (split; [exact A|]); [intros [C _]; auto | intro Hpk; apply B; auto].
    - destruct (is_nil _).
      + rewrite (getd_del_neq gkey_eqb gkey_eqb_spec) by exact Hne. intuition.
      + rewrite (getd_put_neq gkey_eqb gkey_eqb_spec) by exact Hne. intuition. }
  rewrite Hstep. split.
  - intros [[A B] C]. split; [exact A|]. intros [D [E|E]]; [apply B; split; auto | apply C; auto].
  - intros [A B]. split; [split; [exact A|]|].
    + intros [C D]. apply B. split; [exact C|]. left. auto.
    + intros [C D]. apply B. split; [exact C|]. right. exact D.
Qed.

Lemma upd_eq S k v : upd S k v k = v.
Proof. unfold upd. now rewrite (eqb_refl gkey_eqb gkey_eqb_spec). Qed.
Lemma upd_neq S k v k' : k' <> k -> upd S k v k' = S k'.
Proof. intro H. unfold upd. now rewrite (eqb_neq gkey_eqb gkey_eqb_spec _ _ H). Qed.

Lemma g_index_nodes n ss g : g_nodes (g_index n ss g) = put gkey_eqb (gk n) n (g_nodes g).
Proof. reflexivity. Qed.
Lemma g_index_preds n ss g : g_preds (g_index n ss g) = index_fold (gk n) ss (g_preds g).
Proof. reflexivity. Qed.
Lemma g_index_succs n ss g :
  g_succs (g_index n ss g) =
  put gkey_eqb (gk n) (fold_left (fun acc sk => set_add gkey_eqb sk acc) ss []) (g_succs g).
Proof. reflexivity. Qed.
Lemma g_remove_nodes n g : g_nodes (g_remove n g) = del gkey_eqb (gk n) (g_nodes g).
Proof. reflexivity. Qed.
Lemma g_remove_preds n g :
  g_preds (g_remove n g) = remove_fold (gk n) (getd gkey_eqb (gk n) (g_succs g)) (g_preds g).
Proof. reflexivity. Qed.
Lemma g_remove_succs n g : g_succs (g_remove n g) = del gkey_eqb (gk n) (g_succs g).
Proof. reflexivity. Qed.

Lemma g_index_inv S g n ss :
  graph_inv S g -> S (gk n) = None -> graph_inv (upd S (gk n) (Some ss)) (g_index n ss g).
Proof.
  intros [H1 H2 H3 H4] Hnew. set (k := gk n).
  constructor; rewrite ?g_index_nodes, ?g_index_preds, ?g_index_succs; fold k.
  - intro k'. destruct (gdec k' k) as [->|Hne].
    + rewrite (get_put_eq gkey_eqb gkey_eqb_spec), upd_eq. split; discriminate.
    + rewrite (get_put_neq gkey_eqb gkey_eqb_spec) by exact Hne. rewrite upd_neq by exact Hne. apply H1.
  - intros k' d. destruct (gdec k' k) as [->|Hne].
    + rewrite (get_put_eq gkey_eqb gkey_eqb_spec). intro E. injection E as <-. reflexivity.
    + rewrite (get_put_neq gkey_eqb gkey_eqb_spec) by exact Hne. apply H2.
  - intro k'. destruct (gdec k' k) as [->|Hne].
    + rewrite upd_eq, (get_put_eq gkey_eqb gkey_eqb_spec). eexists. split; [reflexivity|].
      intro x. rewrite fold_set_add_In. simpl. tauto.
    + rewrite upd_neq by exact Hne. rewrite (get_put_neq gkey_eqb gkey_eqb_spec) by exact Hne. apply H3.
  - intros m p. rewrite index_fold_In, H4. split.
    + intros [(l & A & B)|[-> B]].
      * exists l. split; auto. rewrite upd_neq; auto. intro; subst. unfold k in *. congruence.
      * exists ss. split; auto. apply upd_eq.
    + intros (l & A & B). destruct (gdec p k) as [->|Hne].
      * rewrite upd_eq in A. injection A as <-. right. auto.
      * rewrite upd_neq in A by exact Hne. left. eauto.
Qed.

(* graph.index of a key that is already indexed with the same successors is harmless *)
Lemma g_index_inv' S g n ss :
  graph_inv S g -> (S (gk n) = None \/ S (gk n) = Some ss) ->
  graph_inv (upd S (gk n) (Some ss)) (g_index n ss g).
Proof.
  intros Hg [Hnew|Hold]; [now apply g_index_inv|].
  destruct Hg as [H1 H2 H3 H4]. set (k := gk n).
  constructor; rewrite ?g_index_nodes, ?g_index_preds, ?g_index_succs; fold k.
  - intro k'. destruct (gdec k' k) as [->|Hne].
    + rewrite (get_put_eq gkey_eqb gkey_eqb_spec), upd_eq. split; discriminate.
    + rewrite (get_put_neq gkey_eqb gkey_eqb_spec) by exact Hne. rewrite upd_neq by exact Hne. apply H1.
  - intros k' d. destruct (gdec k' k) as [->|Hne].
    + rewrite (get_put_eq gkey_eqb gkey_eqb_spec). intro E. injection E as <-. reflexivity.
    + rewrite (get_put_neq gkey_eqb gkey_eqb_spec) by exact Hne. apply H2.
  - intro k'. destruct (gdec k' k) as [->|Hne].
    + rewrite upd_eq, (get_put_eq gkey_eqb gkey_eqb_spec). eexists. split; [reflexivity|].
      intro x. rewrite fold_set_add_In. simpl. tauto.
    + rewrite upd_neq by exact Hne. rewrite (get_put_neq gkey_eqb gkey_eqb_spec) by exact Hne. apply H3.
  - intros m p. rewrite index_fold_In, H4. split.
    + intros [(l & A & B)|[-> B]].
      * destruct (gdec p k) as [->|Hne].
        -- exists ss. split; [apply upd_eq|]. fold k in Hold. congruence.
        -- exists l. split; auto. now rewrite upd_neq.
      * exists ss. split; auto. apply upd_eq.
    + intros (l & A & B). destruct (gdec p k) as [->|Hne].
      * rewrite upd_eq in A. injection A as <-. right. auto.
      * rewrite upd_neq in A by exact Hne. left. eauto.
Qed.

Lemma g_remove_inv S g n :
  graph_inv S g -> graph_inv (upd S (gk n) None) (g_remove n g).
Proof.
  intros [H1 H2 H3 H4]. set (k := gk n).
  constructor; rewrite ?g_remove_nodes, ?g_remove_preds, ?g_remove_succs; fold k.
  - intro k'. destruct (gdec k' k) as [->|Hne].
    + rewrite (get_del_eq gkey_eqb), upd_eq. tauto.
    + rewrite (get_del_neq gkey_eqb gkey_eqb_spec) by exact Hne. rewrite upd_neq by exact Hne. apply H1.
  - intros k' d. destruct (gdec k' k) as [->|Hne].
    + rewrite (get_del_eq gkey_eqb). discriminate.
    + rewrite (get_del_neq gkey_eqb gkey_eqb_spec) by exact Hne. apply H2.
  - intro k'. destruct (gdec k' k) as [->|Hne].
    + rewrite upd_eq. apply (get_del_eq gkey_eqb).
    + rewrite upd_neq by exact Hne. rewrite (get_del_neq gkey_eqb gkey_eqb_spec) by exact Hne. apply H3.
  - intros m p. rewrite remove_fold_In, H4. split.
    + intros [(l & A & B) C]. exists l. split; auto. rewrite upd_neq; auto.
      intro; subst p. apply C. split; auto.
      specialize (H3 k). rewrite A in H3. destruct H3 as (l' & E & F). unfold getd. rewrite E. now apply F.
    + intros (l & A & B). destruct (gdec p k) as [->|Hne].
      * rewrite upd_eq in A. discriminate.
      * rewrite upd_neq in A by exact Hne. split; [eauto|]. intros [C _]. contradiction.
Qed.

(* Predecessors answers exactly the stored nodes whose successor list contains n *)
Lemma g_predecessors_spec S g n x :
  graph_inv S g ->
  In x (map gk (g_predecessors n g)) <-> exists l, S x = Some l /\ In (gk n) l.
Proof.
  intros [H1 H2 H3 H4]. rewrite <- H4. unfold g_predecessors, getd.
  destruct (get gkey_eqb (gk n) (g_preds g)) as [l|] eqn:E; simpl; [|tauto].
  assert (Hl : forall p, In p l -> exists d, get gkey_eqb p (g_nodes g) = Some d /\ gk d = p).
  { intros p Hp. assert (Hp' : In p (getd gkey_eqb (gk n) (g_preds g))) by (unfold getd; now rewrite E).
    apply H4 in Hp' as (l0 & A & _).
    destruct (get gkey_eqb p (g_nodes g)) as [d|] eqn:En.
    - exists d. split; auto.
    - apply H1 in En. congruence. }
  rewrite map_map. rewrite in_map_iff. split.
  - intros (p & A & B). destruct (Hl p B) as (d & C & D). rewrite C in A. congruence.
  - intro Hx. exists x. split; auto. destruct (Hl x Hx) as (d & C & D). now rewrite C.
Qed.

(* Remove of a node that is not indexed leaves the graph untouched *)
Lemma g_remove_absent S g n : graph_inv S g -> S (gk n) = None -> g_remove n g = g.
Proof.
  intros [H1 H2 H3 H4] Hn. unfold g_remove.
  pose proof (H3 (gk n)) as A. rewrite Hn in A.
  pose proof (proj2 (H1 (gk n)) Hn) as B.
  unfold getd. rewrite A. simpl.
  rewrite (del_absent gkey_eqb _ _ B), (del_absent gkey_eqb _ _ A). destruct g; reflexivity.
Qed.

(* ---------- histories ---------- *)
Lemma run_cons {S} (step : S -> op -> S * out) s o h :
  run step s (o :: h) =
  (fst (run step (fst (step s o)) h), snd (step s o) :: snd (run step (fst (step s o)) h)).
Proof. simpl. destruct (step s o) as [s1 x]. simpl. destruct (run step s1 h). reflexivity. Qed.

Lemma run_app {S} (step : S -> op -> S * out) s h1 h2 :
  run step s (h1 ++ h2) =
  (fst (run step (fst (run step s h1)) h2), snd (run step s h1) ++ snd (run step (fst (run step s h1)) h2)).
Proof.
  revert s. induction h1 as [|o h1 IH]; intro s.
  - simpl. now destruct (run step s h2).
  - rewrite <- app_comm_cons, !run_cons, IH. reflexivity.
Qed.

(* outputs agree; predecessor lists are compared as sets *)
Definition out_equiv (a c : out) : Prop :=
  match a, c with
  | OPreds x, OPreds y => forall k, In k x <-> In k y
  | OPreds _, _ | _, OPreds _ => False
  | _, _ => a = c
  end.

Lemma out_equiv_refl_eq a c : a = c -> out_equiv a c.
Proof. intros ->. destruct c; simpl; auto. tauto. Qed.

(* ---------- memory store refines the content map + tag map ---------- *)
Definition S_mem (cas : list (gkey * blob)) : gkey -> option (list gkey) :=
  fun k => option_map (succ_of k) (get gkey_eqb k cas).

Record mem_inv (s : mem_store) : Prop := mkMI {
  mi_nodup : NoDup (map fst (m_cas s));
  mi_graph : graph_inv (S_mem (m_cas s)) (m_graph s) }.

Lemma mem_inv_init : mem_inv mem_init.
Proof. constructor; simpl; [constructor | exact graph_inv_init]. Qed.

Lemma mspec_preds_spec n content x :
  NoDup (map fst content) ->
  In x (mspec_preds n content) <-> exists l, S_mem content x = Some l /\ In n l.
Proof.
  intro Hnd. unfold mspec_preds, S_mem. rewrite in_map_iff. split.
  - intros ([k c] & A & B). simpl in A. subst k. apply filter_In in B as [B C]. simpl in C.
    exists (succ_of x c). rewrite (In_get gkey_eqb gkey_eqb_spec _ _ _ Hnd B). simpl. split; auto.
    now apply (mem_In gkey_eqb gkey_eqb_spec).
  - intros (l & A & B). destruct (get gkey_eqb x content) as [c|] eqn:E; [|discriminate].
    simpl in A. injection A as <-. exists (x, c). split; auto. apply filter_In. split.
    + now apply (get_In gkey_eqb gkey_eqb_spec).
    + simpl. now apply (mem_In gkey_eqb gkey_eqb_spec).
Qed.

Lemma mem_step_inv s o : mem_inv s -> mem_inv (fst (mem_step s o)).
Proof.
  intros [Hnd Hg]. destruct o; simpl; try (constructor; assumption).
  - destruct (get gkey_eqb (gk d) (m_cas s)) eqn:E; [constructor; assumption|].
    destruct (verify d c); [|constructor; assumption]. constructor; simpl.
    + now apply (NoDup_put gkey_eqb gkey_eqb_spec).
    + eapply graph_inv_ext; [|apply g_index_inv; [exact Hg | unfold S_mem; now rewrite E]].
      intro k. unfold upd, S_mem. destruct (gkey_eqb k (gk d)) eqn:Ek.
      * apply gkey_eqb_spec in Ek. subst k. now rewrite (get_put_eq gkey_eqb gkey_eqb_spec).
      * rewrite (get_put_neq gkey_eqb gkey_eqb_spec); auto. intro; subst.
        rewrite (eqb_refl gkey_eqb gkey_eqb_spec) in Ek. discriminate.
  - destruct (get gkey_eqb (gk d) (m_cas s)); constructor; assumption.
  - destruct (is_some _); constructor; assumption.
  - destruct (get ref_eqb r (r_index (m_res s))); constructor; assumption.
Qed.

Lemma mem_step_refines s o :
  mem_inv s ->
  mem_abs (fst (mem_step s o)) = fst (mspec_step (mem_abs s) o) /\
  out_equiv (snd (mem_step s o)) (snd (mspec_step (mem_abs s) o)).
Proof.
  intros [Hnd Hg]. destruct o; simpl.
  - destruct (get gkey_eqb (gk d) (m_cas s)); [split; reflexivity|].
    destruct (verify d c); split; reflexivity.
  - destruct (get gkey_eqb (gk d) (m_cas s)); split; reflexivity.
  - split; reflexivity.
  - destruct (is_some _); split; reflexivity.
  - destruct (get ref_eqb r (r_index (m_res s))); split; reflexivity.
  - split; [reflexivity|]. intro k.
    rewrite (g_predecessors_spec _ _ _ _ Hg). symmetry. now apply mspec_preds_spec.
  - split; reflexivity.
  - split; reflexivity.
  - split; reflexivity.
Qed.

Lemma run_refines_mem h : forall s,
  mem_inv s ->
  mem_abs (fst (run mem_step s h)) = fst (run mspec_step (mem_abs s) h) /\
  Forall2 out_equiv (snd (run mem_step s h)) (snd (run mspec_step (mem_abs s) h)) /\
  mem_inv (fst (run mem_step s h)).
Proof.
  induction h as [|o h IH]; intros s Hinv.
  - simpl. repeat split; auto; apply Hinv.
  - rewrite !run_cons. simpl.
    destruct (mem_step_refines s o Hinv) as [A B].
    destruct (IH _ (mem_step_inv s o Hinv)) as (C & D & E).
    rewrite <- A. repeat split; auto; apply E.
Qed.

(* a refused or failed operation changes nothing -- literally, for the whole concrete state *)
Lemma mem_failed_noop s o : is_err (snd (mem_step s o)) = true -> fst (mem_step s o) = s.
Proof.
  destruct o; simpl; try reflexivity.
  - destruct (get gkey_eqb (gk d) (m_cas s)); [reflexivity|]. destruct (verify d c); [discriminate|reflexivity].
  - destruct (get gkey_eqb (gk d) (m_cas s)); reflexivity.
  - destruct (is_some _); [discriminate|reflexivity].
  - destruct (get ref_eqb r (r_index (m_res s))); reflexivity.
Qed.

(* ---------- OCI store refines the content map + tag map ---------- *)
Local Arguments oci_tag : simpl never.
Local Arguments res_tag : simpl never.
Local Arguments res_untag : simpl never.
Local Arguments oci_untag_equal : simpl never.
Local Arguments g_index : simpl never.
Local Arguments g_remove : simpl never.
Local Arguments untag_fold : simpl never.
Local Arguments spec_oci_tag : simpl never.
Local Arguments gkey_eqb : simpl never.
Local Arguments verify : simpl never.
Local Arguments is_manifest : simpl never.
Local Arguments oci_tag_graph : simpl never.

Section Oci.
  (* the universe: every digest is used with one media type and size *)
  Variable U : N -> gkey.
  Hypothesis U_dig : forall g, k_dig (U g) = g.

  Definition canon_desc (d : desc) : Prop := gk d = U (d_dig d).

  (* every descriptor of the operation is the universe's descriptor for its digest *)
  Definition canon_op_all (o : op) : Prop :=
    match o with
    | Push d _ | Fetch d | Exists d | Tag d _ | Preds d | Delete d => canon_desc d
    | _ => True
    end.

  (* what the sequential theorems need: content is pushed and deleted under its universe
     descriptor.  Fetch, Exists, Tag and Predecessors may use any descriptor of the digest --
     in particular the application/octet-stream one that Resolve(<digest>) hands out. *)
  Definition canon_op (o : op) : Prop :=
    match o with
    | Push d _ | Delete d => canon_desc d
    | Tag d _ => is_manifest (d_mt d) = true -> canon_desc d   (* Tag indexes a manifest descriptor *)
    | _ => True
    end.

  Lemma canon_op_all_weaken o : canon_op_all o -> canon_op o.
  Proof. destruct o; simpl; auto. Qed.

  Definition S_oci (blobs : list (N * blob)) : gkey -> option (list gkey) :=
    fun k => if gkey_eqb k (U (k_dig k)) then option_map (succ_of k) (get N.eqb (k_dig k) blobs) else None.

  Record oci_inv (s : oci_store) : Prop := mkOI {
    oi_nodup : NoDup (map fst (o_blobs s));
    oi_graph : graph_inv (S_oci (o_blobs s)) (o_graph s);
    oi_tags : forall r d, In (r, d) (r_index (o_res s)) -> get N.eqb (d_dig d) (o_blobs s) <> None }.

  Lemma oci_inv_init : oci_inv oci_init.
  Proof.
    constructor; simpl; [constructor | | tauto].
    eapply graph_inv_ext; [|exact graph_inv_init]. intro k. unfold S_oci. simpl.
    now destruct (gkey_eqb k (U (k_dig k))).
  Qed.

  Lemma k_dig_gk d : k_dig (gk d) = d_dig d.
  Proof. reflexivity. Qed.

  Lemma canon_same_dig d d' : canon_desc d -> canon_desc d' -> d_dig d = d_dig d' -> gk d = gk d'.
  Proof. unfold canon_desc. intros -> -> ->. reflexivity. Qed.

  (* resolver *)
  Lemma r_index_tag d r s : r_index (res_tag d r s) = put ref_eqb r d (r_index s).
  Proof. reflexivity. Qed.

  Lemma r_index_oci_tag d r s : r_index (oci_tag d r s) = spec_oci_tag d r (r_index s).
  Proof. unfold oci_tag, spec_oci_tag. destruct (ref_eqb r (RDig (d_dig d))); reflexivity. Qed.

  Lemma r_index_untag r s : r_index (res_untag r s) = del ref_eqb r (r_index s).
  Proof.
    unfold res_untag. destruct (get ref_eqb r (r_index s)) eqn:E; [reflexivity|].
    symmetry. now apply del_absent.
  Qed.

  Lemma r_index_untag_equal k snap s :
    r_index (oci_untag_equal k snap s) = untag_fold k snap (r_index s).
  Proof.
    unfold oci_untag_equal, untag_fold. revert s. induction snap as [|e snap IH]; intro s; cbn [fold_left]; auto.
    destruct (eq_target (snd e) k); rewrite IH; [now rewrite r_index_untag | reflexivity].
  Qed.

  Lemma untag_equal_nomatch k snap s :
    (forall e, In e snap -> eq_target (snd e) k = false) -> oci_untag_equal k snap s = s.
  Proof.
    unfold oci_untag_equal. revert s. induction snap as [|e snap IH]; intros s H; cbn [fold_left]; auto.
    rewrite (H e) by now left. apply IH. intros e' He'. apply H. now right.
  Qed.

  Lemma untag_fold_In k snap t r d :
    In (r, d) (untag_fold k snap t) ->
    In (r, d) t /\ forall d', In (r, d') snap -> eq_target d' k = false.
  Proof.
    unfold untag_fold. revert t. induction snap as [|[r0 d0] snap IH]; intros t H; cbn [fold_left fst snd] in H.
    - split; auto. simpl. tauto.
    - destruct (eq_target d0 k) eqn:E.
      + destruct (IH _ H) as [A B]. apply (In_del_inv ref_eqb ref_eqb_spec) in A as [A1 A2].
        split; auto. intros d' [C|C]; [congruence | auto].
      + destruct (IH _ H) as [A B]. split; auto. intros d' [C|C]; [congruence | auto].
  Qed.

  Lemma get_put_mono (k k' : N) (v : blob) m :
    get N.eqb k m <> None -> get N.eqb k (put N.eqb k' v m) <> None.
  Proof.
    intro H. destruct (N.eq_dec k k') as [->|Hne].
    - rewrite (get_put_eq N.eqb Neqb_spec). discriminate.
    - now rewrite (get_put_neq N.eqb Neqb_spec).
  Qed.

  Lemma In_spec_oci_tag d r t r' d' :
    In (r', d') (spec_oci_tag d r t) -> d' = d \/ In (r', d') t.
  Proof.
    unfold spec_oci_tag. intro H. apply (In_put_inv ref_eqb) in H as [H|H]; [left; congruence|].
    destruct (ref_eqb r (RDig (d_dig d))); auto.
    apply (In_put_inv ref_eqb) in H as [H|H]; [left; congruence | auto].
  Qed.

  (* Delete of absent content touches nothing *)
  Lemma oci_delete_absent s d :
    oci_inv s -> get N.eqb (d_dig d) (o_blobs s) = None ->
    oci_untag_equal (gk d) (r_index (o_res s)) (o_res s) = o_res s /\ g_remove d (o_graph s) = o_graph s.
  Proof.
    intros [Hnd Hg Ht] Habs. split.
    - apply untag_equal_nomatch. intros [r d'] Hin. simpl.
      destruct (eq_target d' (gk d)) eqn:E; auto. apply eq_target_spec in E.
      pose proof (Ht _ _ Hin) as B. exfalso. apply B.
      assert (d_dig d' = d_dig d) as -> by exact E. exact Habs.
    - eapply g_remove_absent; [exact Hg|]. unfold S_oci. rewrite k_dig_gk, Habs.
      now destruct (gkey_eqb (gk d) (U (d_dig d))).
  Qed.

  Lemma S_oci_put d c blobs k :
    canon_desc d ->
    upd (S_oci blobs) (gk d) (Some (succ_of (gk d) c)) k = S_oci (put N.eqb (d_dig d) c blobs) k.
  Proof.
    intro Hc. unfold upd, S_oci. destruct (gkey_eqb k (gk d)) eqn:Ek.
    - apply gkey_eqb_spec in Ek. subst k. rewrite k_dig_gk, <- Hc.
      rewrite (eqb_refl gkey_eqb gkey_eqb_spec), (get_put_eq N.eqb Neqb_spec). reflexivity.
    - destruct (gkey_eqb k (U (k_dig k))) eqn:Ec; auto.
      rewrite (get_put_neq N.eqb Neqb_spec); auto.
      intro Hd. apply gkey_eqb_spec in Ec. rewrite Hd, <- Hc in Ec. subst k.
      rewrite (eqb_refl gkey_eqb gkey_eqb_spec) in Ek. discriminate.
  Qed.

  Lemma S_oci_del d blobs k :
    canon_desc d ->
    upd (S_oci blobs) (gk d) None k = S_oci (del N.eqb (d_dig d) blobs) k.
  Proof.
    intro Hc. unfold upd, S_oci. destruct (gkey_eqb k (gk d)) eqn:Ek.
    - apply gkey_eqb_spec in Ek. subst k. rewrite k_dig_gk, (get_del_eq N.eqb).
      now destruct (gkey_eqb (gk d) (U (d_dig d))).
    - destruct (gkey_eqb k (U (k_dig k))) eqn:Ec; auto.
      rewrite (get_del_neq N.eqb Neqb_spec); auto.
      intro Hd. apply gkey_eqb_spec in Ec. rewrite Hd, <- Hc in Ec. subst k.
      rewrite (eqb_refl gkey_eqb gkey_eqb_spec) in Ek. discriminate.
  Qed.

  (* re-indexing a stored manifest under its universe descriptor rewrites the same graph entry *)
  Lemma oci_tag_graph_inv d blobs g :
    (is_manifest (d_mt d) = true -> canon_desc d) ->
    graph_inv (S_oci blobs) g -> graph_inv (S_oci blobs) (oci_tag_graph d blobs g).
  Proof.
    intros Hc Hg. unfold oci_tag_graph. destruct (is_manifest (d_mt d)) eqn:Em; [|exact Hg].
    destruct (get N.eqb (d_dig d) blobs) as [c|] eqn:E; [|exact Hg].
    specialize (Hc eq_refl).
    assert (HS : S_oci blobs (gk d) = Some (succ_of (gk d) c)).
    { unfold S_oci. rewrite k_dig_gk, <- Hc, (eqb_refl gkey_eqb gkey_eqb_spec), E. reflexivity. }
    eapply graph_inv_ext; [|apply g_index_inv'; [exact Hg | right; exact HS]].
    intro k. unfold upd. destruct (gkey_eqb k (gk d)) eqn:Ek; auto.
    apply gkey_eqb_spec in Ek. subst k. now rewrite HS.
  Qed.

  Lemma oci_inv_tag s d r :
    oci_inv s -> (is_manifest (d_mt d) = true -> canon_desc d) -> get N.eqb (d_dig d) (o_blobs s) <> None ->
    oci_inv (mkOci (o_blobs s) (oci_tag d r (o_res s)) (oci_tag_graph d (o_blobs s) (o_graph s))).
  Proof.
    intros [Hnd Hg Ht] Hc E. constructor; cbn [o_blobs o_res o_graph]; [exact Hnd | now apply oci_tag_graph_inv |].
    intros r' d' Hin. rewrite r_index_oci_tag in Hin.
    apply In_spec_oci_tag in Hin as [->|Hin]; [assumption | apply (Ht _ _ Hin)].
  Qed.

  Lemma oci_inv_untag s r :
    oci_inv s -> oci_inv (mkOci (o_blobs s) (res_untag r (o_res s)) (o_graph s)).
  Proof.
    intros [Hnd Hg Ht]. constructor; cbn [o_blobs o_res o_graph]; [exact Hnd | exact Hg |].
    intros r' d' Hin. rewrite r_index_untag in Hin.
    apply (In_del_inv ref_eqb ref_eqb_spec) in Hin as [Hin _]. apply (Ht _ _ Hin).
  Qed.

  Lemma oci_abs_tag s d r g :
    oci_abs (mkOci (o_blobs s) (oci_tag d r (o_res s)) g) =
    mkSpec (sp_content (oci_abs s)) (spec_oci_tag d r (sp_tags (oci_abs s))).
  Proof. unfold oci_abs. cbn [o_blobs o_res sp_content sp_tags]. now rewrite r_index_oci_tag. Qed.

  Lemma oci_abs_untag s r :
    oci_abs (mkOci (o_blobs s) (res_untag r (o_res s)) (o_graph s)) =
    mkSpec (sp_content (oci_abs s)) (del ref_eqb r (sp_tags (oci_abs s))).
  Proof. unfold oci_abs. cbn [o_blobs o_res sp_content sp_tags]. now rewrite r_index_untag. Qed.

  Lemma oci_step_inv s o : canon_op o -> oci_inv s -> oci_inv (fst (oci_step s o)).
  Proof.
    intros Hc Hinv. pose proof Hinv as [Hnd Hg Ht]. destruct o; simpl in *; try assumption.
    - (* Push *)
      destruct (get N.eqb (d_dig d) (o_blobs s)) eqn:E; [assumption|].
      destruct (verify d c); [|assumption]. constructor; simpl.
      + now apply (NoDup_put N.eqb Neqb_spec).
      + eapply graph_inv_ext; [intro k; apply S_oci_put; exact Hc|].
        apply g_index_inv; auto. unfold S_oci. rewrite k_dig_gk, E.
        now destruct (gkey_eqb (gk d) (U (d_dig d))).
      + intros r d' Hin.
        assert (Hin' : d' = d \/ In (r, d') (r_index (o_res s))).
        { destruct (is_manifest (d_mt d)); auto. rewrite r_index_oci_tag in Hin.
          eapply In_spec_oci_tag; eauto. }
        destruct Hin' as [->|Hin'].
        * rewrite (get_put_eq N.eqb Neqb_spec). discriminate.
        * apply get_put_mono. apply (Ht _ _ Hin').
    - destruct (get N.eqb (d_dig d) (o_blobs s)); assumption.
    - (* Tag *)
      assert (Hok : forall r0, get N.eqb (d_dig d) (o_blobs s) <> None ->
                               oci_inv (mkOci (o_blobs s) (oci_tag d r0 (o_res s)) (oci_tag_graph d (o_blobs s) (o_graph s))))
        by (intros r0 E; now apply oci_inv_tag).
      destruct r as [m|g|]; cbn [foreign_digest_ref]; try assumption.
      + destruct (get N.eqb (d_dig d) (o_blobs s)) eqn:E; [|assumption]. apply (Hok (RName m)). discriminate.
      + destruct (negb (g =? d_dig d)); [assumption|].
        destruct (get N.eqb (d_dig d) (o_blobs s)) eqn:E; [|assumption]. apply (Hok (RDig g)). discriminate.
    - (* Resolve *)
      destruct r; simpl; try assumption;
        destruct (get ref_eqb _ (r_index (o_res s))); simpl; try assumption.
      destruct (get N.eqb g (o_blobs s)); assumption.
    - (* Untag *)
      destruct r; try assumption;
        (destruct (get ref_eqb _ (r_index (o_res s))) as [d0|] eqn:E; [|assumption];
         destruct (ref_eqb _ (RDig (d_dig d0))); [assumption|]; apply oci_inv_untag; assumption).
    - (* Delete *)
      destruct (get N.eqb (d_dig d) (o_blobs s)) eqn:E; simpl.
      + constructor; simpl.
        * now apply NoDup_del.
        * eapply graph_inv_ext; [intro k; apply S_oci_del; exact Hc|]. now apply g_remove_inv.
        * intros r d' Hin. rewrite r_index_untag_equal in Hin.
          apply untag_fold_In in Hin as [A B]. specialize (B _ A).
          pose proof (Ht _ _ A) as D.
          rewrite (get_del_neq N.eqb Neqb_spec); auto.
          intro Hd. assert (X : eq_target d' (gk d) = true) by (apply eq_target_spec; exact Hd).
          congruence.
      + destruct (oci_delete_absent s d Hinv E) as [-> ->]. destruct s; assumption.
  Qed.

  Lemma ospec_preds_spec n content x :
    NoDup (map fst content) ->
    In x (ospec_preds U n content) <-> exists l, S_oci content x = Some l /\ In n l.
  Proof.
    intro Hnd. unfold ospec_preds, S_oci. rewrite in_map_iff. split.
    - intros ([g c] & A & B). simpl in A. subst x. apply filter_In in B as [B C]. simpl in C.
      exists (succ_of (U g) c). rewrite U_dig, (eqb_refl gkey_eqb gkey_eqb_spec).
      rewrite (In_get N.eqb Neqb_spec _ _ _ Hnd B). simpl. split; auto.
      now apply (mem_In gkey_eqb gkey_eqb_spec).
    - intros (l & A & B). destruct (gkey_eqb x (U (k_dig x))) eqn:Ec; [|discriminate].
      apply gkey_eqb_spec in Ec.
      destruct (get N.eqb (k_dig x) content) as [c|] eqn:E; [|discriminate].
      simpl in A. injection A as <-. exists (k_dig x, c). simpl. split; auto. apply filter_In. split.
      + now apply (get_In N.eqb Neqb_spec).
      + simpl. rewrite <- Ec. now apply (mem_In gkey_eqb gkey_eqb_spec).
  Qed.

  Lemma oci_step_refines s o :
    oci_inv s ->
    oci_abs (fst (oci_step s o)) = fst (ospec_step U (oci_abs s) o) /\
    out_equiv (snd (oci_step s o)) (snd (ospec_step U (oci_abs s) o)).
  Proof.
    intros Hinv. pose proof Hinv as [Hnd Hg Ht]. destruct o; simpl.
    - destruct (get N.eqb (d_dig d) (o_blobs s)); [split; reflexivity|].
      destruct (verify d c); [|split; reflexivity]. split; [|reflexivity].
      unfold oci_abs; simpl. destruct (is_manifest (d_mt d)); [now rewrite r_index_oci_tag | reflexivity].
    - destruct (get N.eqb (d_dig d) (o_blobs s)); split; reflexivity.
    - split; reflexivity.
    - destruct r as [m|g|]; cbn [foreign_digest_ref]; try (split; reflexivity).
      + destruct (is_some _); [|split; reflexivity]. split; [|reflexivity]. apply oci_abs_tag.
      + destruct (negb (g =? d_dig d)); [split; reflexivity|].
        destruct (is_some _); [|split; reflexivity]. split; [|reflexivity]. apply oci_abs_tag.
    - destruct r; try (split; reflexivity);
        destruct (get ref_eqb _ (r_index (o_res s))); try (split; reflexivity).
      destruct (get N.eqb g (o_blobs s)); split; reflexivity.
    - split; [reflexivity|]. intro k.
      rewrite (g_predecessors_spec _ _ _ _ Hg). symmetry. now apply ospec_preds_spec.
    - destruct r; try (split; reflexivity);
        (destruct (get ref_eqb _ (r_index (o_res s))) as [d0|]; [|split; reflexivity];
         destruct (ref_eqb _ (RDig (d_dig d0))); [split; reflexivity|]; split; [|reflexivity];
         apply oci_abs_untag).
    - destruct (get N.eqb (d_dig d) (o_blobs s)) eqn:E; simpl.
      + split; [|reflexivity]. unfold oci_abs; simpl. now rewrite r_index_untag_equal.
      + destruct (oci_delete_absent s d Hinv E) as [-> ->]. split; reflexivity.
    - split; reflexivity.
  Qed.

  Lemma run_refines_oci h : forall s,
    Forall canon_op h -> oci_inv s ->
    oci_abs (fst (run oci_step s h)) = fst (run (ospec_step U) (oci_abs s) h) /\
    Forall2 out_equiv (snd (run oci_step s h)) (snd (run (ospec_step U) (oci_abs s) h)) /\
    oci_inv (fst (run oci_step s h)).
  Proof.
    induction h as [|o h IH]; intros s Hc Hinv.
    - simpl. split; [reflexivity|]. split; [constructor | exact Hinv].
    - inversion Hc as [|? ? Hco Hch]; subst. rewrite !run_cons. cbn [fst snd].
      destruct (oci_step_refines s o Hinv) as [A B].
      destruct (IH _ Hch (oci_step_inv s o Hco Hinv)) as (C & D & E).
      rewrite <- A. split; [exact C|]. split; [constructor; assumption | exact E].
  Qed.

  (* a refused or failed operation changes nothing, literally *)
  Lemma oci_failed_noop s o :
    oci_inv s -> is_err (snd (oci_step s o)) = true -> fst (oci_step s o) = s.
  Proof.
    intros Hinv. destruct o; simpl; try reflexivity.
    - destruct (get N.eqb (d_dig d) (o_blobs s)); [reflexivity|]. destruct (verify d c); [discriminate|reflexivity].
    - destruct (get N.eqb (d_dig d) (o_blobs s)); reflexivity.
    - destruct r as [m|g|]; cbn [foreign_digest_ref]; try reflexivity; [|destruct (negb (g =? d_dig d)); [reflexivity|]];
        (destruct (is_some _); [discriminate|reflexivity]).
    - destruct r; try reflexivity; destruct (get ref_eqb _ (r_index (o_res s))); try reflexivity.
      destruct (get N.eqb g (o_blobs s)); reflexivity.
    - destruct r; try reflexivity;
        (destruct (get ref_eqb _ (r_index (o_res s))) as [d0|]; [|reflexivity];
         destruct (ref_eqb _ (RDig (d_dig d0))); [reflexivity|discriminate]).
    - destruct (get N.eqb (d_dig d) (o_blobs s)) eqn:E; simpl; [discriminate|]. intros _.
      destruct (oci_delete_absent s d Hinv E) as [-> ->]. now destruct s.
  Qed.
End Oci.

(* ---------- statements over whole histories ---------- *)
Lemma refines_memory (h : list op) :
  mem_abs (fst (run mem_step mem_init h)) = fst (run mspec_step mspec_init h) /\
  Forall2 out_equiv (snd (run mem_step mem_init h)) (snd (run mspec_step mspec_init h)).
Proof. destruct (run_refines_mem h mem_init mem_inv_init) as (A & B & _). split; assumption. Qed.

Lemma refines_oci (U : N -> gkey) :
  (forall g, k_dig (U g) = g) ->
  forall h : list op, Forall (canon_op U) h ->
  oci_abs (fst (run oci_step oci_init h)) = fst (run (ospec_step U) ospec_init h) /\
  Forall2 out_equiv (snd (run oci_step oci_init h)) (snd (run (ospec_step U) ospec_init h)).
Proof.
  intros HU h Hc. destruct (run_refines_oci U HU h oci_init Hc (oci_inv_init U)) as (A & B & _).
  split; assumption.
Qed.

Lemma failed_noop_memory (h : list op) (o : op) :
  let s := fst (run mem_step mem_init h) in
  is_err (snd (mem_step s o)) = true -> fst (mem_step s o) = s.
Proof. intro s. apply mem_failed_noop. Qed.

Lemma failed_noop_oci (U : N -> gkey) :
  (forall g, k_dig (U g) = g) ->
  forall (h : list op) (o : op), Forall (canon_op U) h ->
  let s := fst (run oci_step oci_init h) in
  is_err (snd (oci_step s o)) = true -> fst (oci_step s o) = s.
Proof.
  intros HU h o Hc s. apply (oci_failed_noop U).
  destruct (run_refines_oci U HU h oci_init Hc (oci_inv_init U)) as (_ & _ & E). exact E.
Qed.

(* ================================================================== *)
(* The clauses of the property, as consequences for every history.     *)
(* ================================================================== *)

(* ---------- the Delete loop is independent of the map iteration order ---------- *)
Lemma untag_fold_get_none k snap t r :
  get ref_eqb r t = None -> get ref_eqb r (untag_fold k snap t) = None.
Proof.
  unfold untag_fold. revert t. induction snap as [|[r0 d0] snap IH]; intros t H; cbn [fold_left fst snd]; auto.
  destruct (eq_target d0 k); auto. apply IH.
  destruct (eqb_dec ref_eqb ref_eqb_spec r r0) as [->|Hne].
  - apply (get_del_eq ref_eqb).
  - now rewrite (get_del_neq ref_eqb ref_eqb_spec).
Qed.

Lemma untag_fold_get_keep k snap t r :
  (forall d', In (r, d') snap -> eq_target d' k = false) ->
  get ref_eqb r (untag_fold k snap t) = get ref_eqb r t.
Proof.
  unfold untag_fold. revert t. induction snap as [|[r0 d0] snap IH]; intros t H; cbn [fold_left fst snd]; auto.
  assert (H' : forall d', In (r, d') snap -> eq_target d' k = false) by (intros; apply H; now right).
  destruct (eq_target d0 k) eqn:E; [|now apply IH].
  rewrite IH by exact H'. apply (get_del_neq ref_eqb ref_eqb_spec).
  intro; subst r0. rewrite (H d0) in E by now left. discriminate.
Qed.

Lemma untag_fold_get_drop k snap t r d' :
  In (r, d') snap -> eq_target d' k = true -> get ref_eqb r (untag_fold k snap t) = None.
Proof.
  unfold untag_fold. revert t. induction snap as [|[r0 d0] snap IH]; intros t Hin Hm; [destruct Hin|].
  cbn [fold_left fst snd]. destruct Hin as [Heq|Hin].
  - injection Heq as -> ->. rewrite Hm. apply untag_fold_get_none. apply (get_del_eq ref_eqb).
  - now apply IH.
Qed.

Lemma get_filter_nodup {V} (P : ref * V -> bool) (t : list (ref * V)) r :
  NoDup (map fst t) ->
  get ref_eqb r (filter P t) =
  match get ref_eqb r t with Some d => if P (r, d) then Some d else None | None => None end.
Proof.
  induction t as [|[r0 d0] t IH]; intro Hnd; simpl; auto.
  inversion Hnd as [|? ? Hni Hnd']; subst.
  destruct (ref_eqb r r0) eqn:E.
  - apply ref_eqb_spec in E. subst r0. destruct (P (r, d0)) eqn:EP; simpl.
    + now rewrite (eqb_refl ref_eqb ref_eqb_spec).
    + rewrite IH by exact Hnd'. destruct (get ref_eqb r t) eqn:G; auto.
      exfalso. apply Hni. apply in_map_iff. exists (r, v). split; auto.
      now apply (get_In ref_eqb ref_eqb_spec).
  - destruct (P (r0, d0)); simpl; [rewrite E|]; now apply IH.
Qed.

(* whatever order Go's map iteration delivers the snapshot in, Store.delete leaves
   exactly the references whose descriptor is not content.Equal to the target *)
Lemma untag_fold_order_free k snap t r :
  NoDup (map fst t) -> (forall e, In e snap <-> In e t) ->
  get ref_eqb r (untag_fold k snap t) = get ref_eqb r (spec_untag_equal k t).
Proof.
  intros Hnd Hperm. unfold spec_untag_equal. rewrite get_filter_nodup by exact Hnd. simpl.
  destruct (get ref_eqb r t) as [d|] eqn:G.
  - destruct (eq_target d k) eqn:E; simpl.
    + eapply untag_fold_get_drop; [|exact E]. apply Hperm. now apply (get_In ref_eqb ref_eqb_spec).
    + rewrite untag_fold_get_keep; auto. intros d' Hin. apply Hperm in Hin.
      rewrite (In_get ref_eqb ref_eqb_spec _ _ _ Hnd Hin) in G. congruence.
  - now apply untag_fold_get_none.
Qed.

(* ---------- memory store ---------- *)
Lemma mem_content_immutable s o k c :
  get gkey_eqb k (m_cas s) = Some c -> get gkey_eqb k (m_cas (fst (mem_step s o))) = Some c.
Proof.
  intro H. destruct o; simpl; auto.
  - destruct (get gkey_eqb (gk d) (m_cas s)) eqn:E; auto. destruct (verify d c0); auto. simpl.
    rewrite (get_put_neq gkey_eqb gkey_eqb_spec); auto. intro; subst. congruence.
  - destruct (get gkey_eqb (gk d) (m_cas s)); auto.
  - destruct (is_some _); auto.
  - destruct (get ref_eqb r (r_index (m_res s))); auto.
Qed.

Lemma mem_content_immutable_run h : forall s k c,
  get gkey_eqb k (m_cas s) = Some c -> get gkey_eqb k (m_cas (fst (run mem_step s h))) = Some c.
Proof.
  induction h as [|o h IH]; intros s k c H; [exact H|].
  rewrite run_cons. cbn [fst]. apply IH. now apply mem_content_immutable.
Qed.

(* Fetch returns exactly the pushed bytes, for ever; pushing again is refused and changes nothing *)
Lemma mem_fetch_returns_pushed s d c h2 d' :
  snd (mem_step s (Push d c)) = OOk -> gk d' = gk d ->
  let s2 := fst (run mem_step (fst (mem_step s (Push d c))) h2) in
  snd (mem_step s2 (Fetch d')) = OBytes (b_hash c) (b_len c) /\
  b_hash c = d_dig d /\ b_len c = d_size d /\
  forall c', mem_step s2 (Push d' c') = (s2, OErr EAlreadyExists).
Proof.
  intros Hok Hk s2.
  assert (Hget : get gkey_eqb (gk d) (m_cas (fst (mem_step s (Push d c)))) = Some c /\ verify d c = true).
  { revert Hok. simpl. destruct (get gkey_eqb (gk d) (m_cas s)); [discriminate|].
    destruct (verify d c) eqn:V; [|discriminate]. intros _. simpl.
    now rewrite (get_put_eq gkey_eqb gkey_eqb_spec). }
  destruct Hget as [Hget Hv].
  pose proof (mem_content_immutable_run h2 _ _ _ Hget) as H2. fold s2 in H2.
  unfold verify in Hv. apply andb_true_iff in Hv as [V1 V2]. apply N.eqb_eq in V1, V2.
  simpl. rewrite Hk, H2. repeat split; auto.
Qed.

Definition tags_ref (r : ref) (o : op) : bool :=
  match o with Tag _ r' => ref_eqb r' r | _ => false end.

Lemma mem_tag_frame s o r :
  tags_ref r o = false ->
  get ref_eqb r (r_index (m_res (fst (mem_step s o)))) = get ref_eqb r (r_index (m_res s)).
Proof.
  intro H. destruct o; simpl; auto.
  - destruct (get gkey_eqb (gk d) (m_cas s)); auto. destruct (verify d c); auto.
  - destruct (get gkey_eqb (gk d) (m_cas s)); auto.
  - destruct (is_some _); auto. cbn [fst m_res tags_ref] in *. rewrite r_index_tag.
    apply (get_put_neq ref_eqb ref_eqb_spec). intro; subst.
    rewrite (eqb_refl ref_eqb ref_eqb_spec) in H. discriminate.
  - destruct (get ref_eqb r0 (r_index (m_res s))); auto.
Qed.

(* Resolve returns the descriptor most recently tagged *)
Lemma mem_resolve_latest s d r h2 :
  snd (mem_step s (Tag d r)) = OOk -> forallb (fun o => negb (tags_ref r o)) h2 = true ->
  snd (mem_step (fst (run mem_step (fst (mem_step s (Tag d r))) h2)) (Resolve r)) = ODesc d.
Proof.
  intros Hok Hfr.
  assert (Hget : get ref_eqb r (r_index (m_res (fst (mem_step s (Tag d r))))) = Some d).
  { revert Hok. simpl. destruct (is_some _); [|discriminate]. intros _. cbn [fst m_res].
    rewrite r_index_tag. apply (get_put_eq ref_eqb ref_eqb_spec). }
  revert Hget. generalize (fst (mem_step s (Tag d r))). clear Hok s.
  induction h2 as [|o h2 IH]; intros s Hget.
  - simpl. now rewrite Hget.
  - simpl in Hfr. apply andb_true_iff in Hfr as [H1 H2]. rewrite run_cons. cbn [fst].
    apply IH; auto. rewrite mem_tag_frame; auto. now destruct (tags_ref r o).
Qed.

(* content never pushed successfully is absent: fetching or tagging it reports not-found *)
Lemma mem_never_pushed_absent h k :
  (forall d c, In (Push d c) h -> gk d <> k) ->
  let s := fst (run mem_step mem_init h) in
  get gkey_eqb k (m_cas s) = None /\
  forall d r, gk d = k -> snd (mem_step s (Fetch d)) = OErr ENotFound /\
                          snd (mem_step s (Tag d r)) = OErr ENotFound /\
                          snd (mem_step s (Exists d)) = OBool false.
Proof.
  intros Hno s.
  assert (Habs : get gkey_eqb k (m_cas s) = None).
  { unfold s. clear s. assert (G : get gkey_eqb k (m_cas mem_init) = None) by reflexivity.
    revert G Hno. generalize mem_init. induction h as [|o h IH]; intros s0 G Hno; [exact G|].
    rewrite run_cons. cbn [fst]. apply IH; [|intros; apply (Hno d c); now right].
    destruct o; simpl; auto.
    - destruct (get gkey_eqb (gk d) (m_cas s0)); auto. destruct (verify d c); auto. simpl.
      rewrite (get_put_neq gkey_eqb gkey_eqb_spec); auto. intro; subst. apply (Hno d c); [now left | reflexivity].
    - destruct (get gkey_eqb (gk d) (m_cas s0)); auto.
    - destruct (is_some _); auto.
    - destruct (get ref_eqb r (r_index (m_res s0))); auto. }
  split; auto. intros d r <-. simpl. rewrite Habs. simpl. auto.
Qed.

(* ---------- OCI store ---------- *)
Definition deletes_dig (g : N) (o : op) : bool :=
  match o with Delete d => d_dig d =? g | _ => false end.

Lemma oci_content_frame s o g c :
  deletes_dig g o = false ->
  get N.eqb g (o_blobs s) = Some c -> get N.eqb g (o_blobs (fst (oci_step s o))) = Some c.
Proof.
  intros Hd H. destruct o; simpl; auto.
  - destruct (get N.eqb (d_dig d) (o_blobs s)) eqn:E; auto. destruct (verify d c0); auto. simpl.
    rewrite (get_put_neq N.eqb Neqb_spec); auto. intro; subst. congruence.
  - destruct (get N.eqb (d_dig d) (o_blobs s)); auto.
  - destruct r as [m0|g0|]; cbn [foreign_digest_ref]; auto; [|destruct (negb (g0 =? d_dig d)); auto]; destruct (is_some _); auto.
  - destruct r; auto; destruct (get ref_eqb _ (r_index (o_res s))); auto.
    destruct (get N.eqb g0 (o_blobs s)); auto.
  - destruct r; auto; (destruct (get ref_eqb _ (r_index (o_res s))) as [d0|]; auto;
                       destruct (ref_eqb _ (RDig (d_dig d0))); auto).
  - simpl in Hd. destruct (get N.eqb (d_dig d) (o_blobs s)); simpl; auto.
    rewrite (get_del_neq N.eqb Neqb_spec); auto. intro; subst. rewrite N.eqb_refl in Hd. discriminate.
Qed.

(* Fetch returns exactly the pushed bytes until that content is deleted; pushing it
   again is refused and changes nothing *)
Lemma oci_fetch_returns_pushed s d c h2 d' :
  snd (oci_step s (Push d c)) = OOk -> d_dig d' = d_dig d ->
  forallb (fun o => negb (deletes_dig (d_dig d) o)) h2 = true ->
  let s2 := fst (run oci_step (fst (oci_step s (Push d c))) h2) in
  snd (oci_step s2 (Fetch d')) = OBytes (b_hash c) (b_len c) /\
  b_hash c = d_dig d /\ b_len c = d_size d /\
  forall c', oci_step s2 (Push d' c') = (s2, OErr EAlreadyExists).
Proof.
  intros Hok Hk Hfr s2.
  assert (Hget : get N.eqb (d_dig d) (o_blobs (fst (oci_step s (Push d c)))) = Some c /\ verify d c = true).
  { revert Hok. simpl. destruct (get N.eqb (d_dig d) (o_blobs s)); [discriminate|].
    destruct (verify d c) eqn:V; [|discriminate]. intros _. simpl.
    now rewrite (get_put_eq N.eqb Neqb_spec). }
  destruct Hget as [Hget Hv].
  assert (H2 : get N.eqb (d_dig d) (o_blobs s2) = Some c).
  { unfold s2. clear s2 Hok. revert Hget. generalize (fst (oci_step s (Push d c))).
    induction h2 as [|o h2 IH]; intros s0 Hget; [exact Hget|].
    simpl in Hfr. apply andb_true_iff in Hfr as [F1 F2]. rewrite run_cons. cbn [fst].
    apply IH; auto. apply oci_content_frame; auto. now destruct (deletes_dig (d_dig d) o). }
  unfold verify in Hv. apply andb_true_iff in Hv as [V1 V2]. apply N.eqb_eq in V1, V2.
  simpl. rewrite Hk, H2. repeat split; auto.
Qed.

(* the tag map never holds a reference twice *)
Lemma untag_fold_nodup k snap t : NoDup (map fst t) -> NoDup (map fst (untag_fold k snap t)).
Proof.
  unfold untag_fold. revert t. induction snap as [|e snap IH]; intros t H; cbn [fold_left]; auto.
  destruct (eq_target (snd e) k); auto. apply IH. now apply NoDup_del.
Qed.

Lemma spec_oci_tag_nodup d r t : NoDup (map fst t) -> NoDup (map fst (spec_oci_tag d r t)).
Proof.
  intro H. unfold spec_oci_tag. apply (NoDup_put ref_eqb ref_eqb_spec).
  destruct (ref_eqb r (RDig (d_dig d))); auto. now apply (NoDup_put ref_eqb ref_eqb_spec).
Qed.

Lemma oci_index_nodup s o :
  NoDup (map fst (r_index (o_res s))) -> NoDup (map fst (r_index (o_res (fst (oci_step s o))))).
Proof.
  intro H. destruct o; simpl; auto.
  - destruct (get N.eqb (d_dig d) (o_blobs s)); auto. destruct (verify d c); auto. cbn [fst o_res].
    destruct (is_manifest (d_mt d)); auto. rewrite r_index_oci_tag. now apply spec_oci_tag_nodup.
  - destruct (get N.eqb (d_dig d) (o_blobs s)); auto.
  - assert (Hgen : forall r0, NoDup (map fst (r_index (oci_tag d r0 (o_res s)))))
      by (intro; rewrite r_index_oci_tag; now apply spec_oci_tag_nodup).
    destruct r as [m|g|]; cbn [foreign_digest_ref]; auto; [|destruct (negb (g =? d_dig d)); auto];
      (destruct (is_some _); auto); [exact (Hgen (RName m)) | exact (Hgen (RDig g))].
  - destruct r; auto; destruct (get ref_eqb _ (r_index (o_res s))); auto.
    destruct (get N.eqb g (o_blobs s)); auto.
  - assert (Hgen : forall r0, NoDup (map fst (r_index (res_untag r0 (o_res s)))))
      by (intro; rewrite r_index_untag; now apply NoDup_del).
    destruct r as [m|g|]; auto;
      (destruct (get ref_eqb _ (r_index (o_res s))) as [d0|]; auto;
       destruct (ref_eqb _ (RDig (d_dig d0))); auto);
      [exact (Hgen (RName m)) | exact (Hgen (RDig g))].
  - destruct (get N.eqb (d_dig d) (o_blobs s)); cbn [fst o_res];
      rewrite r_index_untag_equal; now apply untag_fold_nodup.
Qed.

(* operations that may change what the name n resolves to, when it points to key k *)
Definition touches_name (n : N) (k : gkey) (o : op) : bool :=
  match o with
  | Tag _ (RName m) => m =? n
  | Untag (RName m) => m =? n
  | Delete d => d_dig d =? k_dig k      (* Delete untags every reference to that digest *)
  | _ => false
  end.

Lemma get_spec_oci_tag_other d r t r' :
  r' <> r -> r' <> RDig (d_dig d) -> get ref_eqb r' (spec_oci_tag d r t) = get ref_eqb r' t.
Proof.
  intros H1 H2. unfold spec_oci_tag. rewrite (get_put_neq ref_eqb ref_eqb_spec) by exact H1.
  destruct (ref_eqb r (RDig (d_dig d))); auto. now rewrite (get_put_neq ref_eqb ref_eqb_spec).
Qed.

Lemma oci_name_frame s o n d :
  NoDup (map fst (r_index (o_res s))) ->
  get ref_eqb (RName n) (r_index (o_res s)) = Some d ->
  touches_name n (gk d) o = false ->
  get ref_eqb (RName n) (r_index (o_res (fst (oci_step s o)))) = Some d.
Proof.
  intros Hnd H Ht. destruct o; simpl; auto.
  - destruct (get N.eqb (d_dig d0) (o_blobs s)); auto. destruct (verify d0 c); auto. cbn [fst o_res].
    destruct (is_manifest (d_mt d0)); auto. rewrite r_index_oci_tag.
    rewrite get_spec_oci_tag_other; auto; discriminate.
  - destruct (get N.eqb (d_dig d0) (o_blobs s)); auto.
  - assert (Hgen : forall r0, r0 <> RName n ->
               get ref_eqb (RName n) (r_index (oci_tag d0 r0 (o_res s))) = Some d).
    { intros r0 Hr0. rewrite r_index_oci_tag. rewrite get_spec_oci_tag_other; auto. discriminate. }
    destruct r as [m|g|]; cbn [foreign_digest_ref]; auto; [|destruct (negb (g =? d_dig d0)); auto];
      (destruct (is_some _); auto).
    + apply (Hgen (RName m)). intro E. injection E as ->. simpl in Ht. rewrite N.eqb_refl in Ht. discriminate.
    + apply (Hgen (RDig g)). discriminate.
  - destruct r as [m|g|]; auto.
    + destruct (get ref_eqb (RName m) (r_index (o_res s))); auto.
    + destruct (get ref_eqb (RDig g) (r_index (o_res s))); auto.
      destruct (get N.eqb g (o_blobs s)); auto.
  - assert (Hgen : forall r0, r0 <> RName n ->
               get ref_eqb (RName n) (r_index (res_untag r0 (o_res s))) = Some d).
    { intros r0 Hr0. rewrite r_index_untag. rewrite (get_del_neq ref_eqb ref_eqb_spec); auto. }
    destruct r as [m|g|]; auto.
    + destruct (get ref_eqb (RName m) (r_index (o_res s))) as [d1|]; auto.
      destruct (ref_eqb _ (RDig (d_dig d1))); auto.
      apply (Hgen (RName m)). intro E. injection E as ->. simpl in Ht. rewrite N.eqb_refl in Ht. discriminate.
    + destruct (get ref_eqb (RDig g) (r_index (o_res s))) as [d1|]; auto.
      destruct (ref_eqb _ (RDig (d_dig d1))); auto.
      apply (Hgen (RDig g)). discriminate.
  - simpl in Ht.
    assert (Hk : get ref_eqb (RName n) (untag_fold (gk d0) (r_index (o_res s)) (r_index (o_res s))) = Some d).
    { rewrite untag_fold_get_keep; auto. intros d' Hin.
      rewrite (In_get ref_eqb ref_eqb_spec _ _ _ Hnd Hin) in H. injection H as ->.
      destruct (eq_target d (gk d0)) eqn:E; auto. apply eq_target_spec in E.
      rewrite k_dig_gk in *. rewrite <- E, N.eqb_refl in Ht. discriminate. }
    destruct (get N.eqb (d_dig d0) (o_blobs s)); cbn [fst o_res]; now rewrite r_index_untag_equal.
Qed.

Lemma oci_run_index_nodup h : forall s,
  NoDup (map fst (r_index (o_res s))) -> NoDup (map fst (r_index (o_res (fst (run oci_step s h))))).
Proof.
  induction h as [|o h IH]; intros s H; [exact H|]. rewrite run_cons. cbn [fst].
  apply IH. now apply oci_index_nodup.
Qed.

(* Resolve of a name returns the descriptor most recently tagged, as long as the name
   is not re-tagged or untagged and the tagged content is not deleted *)
Lemma oci_resolve_latest h1 d n h2 :
  let s := fst (run oci_step oci_init h1) in
  snd (oci_step s (Tag d (RName n))) = OOk ->
  forallb (fun o => negb (touches_name n (gk d) o)) h2 = true ->
  snd (oci_step (fst (run oci_step (fst (oci_step s (Tag d (RName n)))) h2)) (Resolve (RName n))) = ODesc d.
Proof.
  intros s Hok Hfr.
  assert (Hnd0 : NoDup (map fst (r_index (o_res s)))) by (apply oci_run_index_nodup; constructor).
  pose proof (oci_index_nodup s (Tag d (RName n)) Hnd0) as Hnd.
  assert (Hget : get ref_eqb (RName n) (r_index (o_res (fst (oci_step s (Tag d (RName n)))))) = Some d).
  { revert Hok. simpl. destruct (is_some _); [|discriminate]. intros _. cbn [fst o_res].
    change (get ref_eqb (RName n) (r_index (oci_tag d (RName n) (o_res s))) = Some d).
    rewrite r_index_oci_tag. unfold spec_oci_tag. apply (get_put_eq ref_eqb ref_eqb_spec). }
  revert Hnd Hget. generalize (fst (oci_step s (Tag d (RName n)))). clear Hok Hnd0 s.
  induction h2 as [|o h2 IH]; intros s Hnd Hget.
  - simpl. rewrite Hget. reflexivity.
  - simpl in Hfr. apply andb_true_iff in Hfr as [F1 F2]. rewrite run_cons. cbn [fst].
    apply IH; auto.
    + now apply oci_index_nodup.
    + apply oci_name_frame; auto. now destruct (touches_name n (gk d) o).
Qed.

(* Delete removes the content and every reference to it *)
Lemma oci_delete_clears h1 d :
  let s := fst (run oci_step oci_init h1) in
  snd (oci_step s (Delete d)) = OOk ->
  let s' := fst (oci_step s (Delete d)) in
  snd (oci_step s' (Fetch d)) = OErr ENotFound /\
  snd (oci_step s' (Exists d)) = OBool false /\
  forall n d', get ref_eqb (RName n) (r_index (o_res s)) = Some d' -> d_dig d' = d_dig d ->
               snd (oci_step s' (Resolve (RName n))) = OErr ENotFound.
Proof.
  intros s Hok s'.
  assert (Hnd : NoDup (map fst (r_index (o_res s)))) by (apply oci_run_index_nodup; constructor).
  unfold s'. revert Hok. simpl. destruct (get N.eqb (d_dig d) (o_blobs s)) eqn:E; [|discriminate].
  intros _. cbn [fst snd o_blobs o_res]. rewrite (get_del_eq N.eqb). repeat split; auto.
  intros n d' Hg Hk. rewrite r_index_untag_equal.
  rewrite (untag_fold_get_drop (gk d) _ _ (RName n) d'); auto.
  - now apply (get_In ref_eqb ref_eqb_spec).
  - apply eq_target_spec. exact Hk.
Qed.

(* ================================================================== *)
(* File store                                                          *)
(* ================================================================== *)
Definition titles_ok (c : blob) : Prop :=
  (forall k n, In (k, n) (b_tl c) -> path_of n = n) /\ (forall k n, In (k, n) (b_pre_tl c) -> path_of n = n).

Record file_inv (s : file_store) : Prop := mkFI {
  fi_d2p : forall g p, get N.eqb g (f_d2p s) = Some p ->
                       In p (f_names s) /\ exists c, get N.eqb p (f_disk s) = Some c /\ b_hash c = g;
  fi_disk : forall p c, get N.eqb p (f_disk s) = Some c -> In p (f_names s) /\ titles_ok c;
  fi_cas : forall k c, get gkey_eqb k (f_cas s) = Some c -> b_hash c = k_dig k /\ titles_ok c }.

Lemma file_inv_init : file_inv file_init.
Proof. constructor; simpl; intros; discriminate. Qed.

Lemma memN_In x l : mem N.eqb x l = true <-> In x l.
Proof. apply (mem_In N.eqb Neqb_spec). Qed.

Lemma verify_spec d c : verify d c = true -> b_hash c = d_dig d /\ b_len c = d_size d.
Proof.
  unfold verify. intro H. apply andb_true_iff in H as [A B]. apply N.eqb_eq in A, B. auto.
Qed.

Lemma file_inv_graph s g : file_inv s ->
  file_inv (mkFile (f_names s) (f_d2p s) (f_disk s) (f_cas s) (f_res s) g).
Proof. intros [A B C]. constructor; auto. Qed.

(* what Fetch returns hashes to the digest it was asked for, and its titles are alias free *)
Lemma file_fetch_inv d s c : file_inv s -> file_fetch d s = Some c -> b_hash c = d_dig d /\ titles_ok c.
Proof.
  intros [A B C]. unfold file_fetch. destruct (name_ok d s); [|discriminate].
  destruct (get N.eqb (d_dig d) (f_d2p s)) as [p|] eqn:E.
  - destruct (A _ _ E) as (_ & c0 & Hc & Hh). intro H. rewrite H in Hc. injection Hc as <-.
    split; auto. apply (B _ _ H).
  - intro H. destruct (C _ _ H) as [H1 H2]. split; auto.
Qed.

Lemma titles_ok_empty : titles_ok (mkBlob 0 0 [] 0 []).
Proof. split; intros k n []. Qed.

(* the theorems about the file store exclude the aliasing name, also among the titles *)
Definition no_alias (o : op) : Prop :=
  match o with Push d c => path_of (d_name d) = d_name d /\ titles_ok c | _ => True end.

Lemma file_named_push_inv ov s k n c :
  file_inv s -> path_of n = n -> titles_ok c ->
  file_inv (fst (file_named_push true ov s k n c)).
Proof.
  intros Hinv Hn Ht. pose proof Hinv as [A B C]. unfold file_named_push. rewrite Hn.
  destruct (mem N.eqb n (f_names s)) eqn:Em; [exact Hinv|].
  destruct (bad_name n); [exact Hinv|].
  destruct (ov && is_some (get N.eqb n (f_disk s))); [exact Hinv|].
  assert (Hnot : ~ In n (f_names s)) by (intro H; apply memN_In in H; congruence).
  destruct ((k_dig k =? b_hash c) && (k_size k =? b_len c)) eqn:V; cbn [fst].
  - apply andb_true_iff in V as [V _]. apply N.eqb_eq in V.
    constructor; cbn [f_names f_d2p f_disk f_cas]; auto.
    + intros g p. destruct (N.eq_dec g (k_dig k)) as [->|Hne].
      * rewrite (get_put_eq N.eqb Neqb_spec). intro E. injection E as <-. split; [now left|].
        exists c. rewrite (get_put_eq N.eqb Neqb_spec). split; auto.
      * rewrite (get_put_neq N.eqb Neqb_spec) by exact Hne. intro E.
        destruct (A _ _ E) as (Hp & c0 & Hc0 & Hh). split; [now right|]. exists c0. split; auto.
        rewrite (get_put_neq N.eqb Neqb_spec); auto. intro; subst. contradiction.
    + intros p c0. destruct (N.eq_dec p n) as [->|Hne].
      * rewrite (get_put_eq N.eqb Neqb_spec). intro E. injection E as <-. split; [now left | exact Ht].
      * rewrite (get_put_neq N.eqb Neqb_spec) by exact Hne. intro E.
        destruct (B _ _ E). split; [now right | auto].
  - constructor; cbn [f_names f_d2p f_disk f_cas]; auto.
    + intros g p E. destruct (A _ _ E) as (Hp & c0 & Hc0 & Hh). split; auto. exists c0. split; auto.
      rewrite (get_del_neq N.eqb Neqb_spec); auto. intro; subst. contradiction.
    + intros p c0 E. destruct (N.eq_dec p n) as [->|Hne].
      * rewrite (get_del_eq N.eqb) in E. discriminate.
      * rewrite (get_del_neq N.eqb Neqb_spec) in E by exact Hne. eapply B; eauto.
Qed.

Lemma file_restore_inv ov tl : forall s,
  file_inv s -> (forall k n, In (k, n) tl -> path_of n = n) ->
  file_inv (fst (file_restore true ov tl s)).
Proof.
  induction tl as [|[k n] tl IH]; intros s Hinv Ht; [exact Hinv|].
  assert (Ht' : forall k0 n0, In (k0, n0) tl -> path_of n0 = n0) by (intros; eapply Ht; right; eauto).
  cbn [file_restore]. destruct ((n =? 0) || mem N.eqb n (f_names s)); [now apply IH|].
  destruct (file_fetch (mkDesc (k_mt k) (k_dig k) (k_size k) 0) s) as [c2|] eqn:Ef; [|now apply IH].
  destruct (file_fetch_inv _ _ _ Hinv Ef) as [_ Hok].
  set (c2' := match get N.eqb (k_dig k) (f_d2p s) with
              | Some p => if (p =? path_of n) && negb (b_len c2 =? 0) then mkBlob 0 0 [] 0 [] else c2
              | None => c2 end).
  assert (Hok' : titles_ok c2').
  { unfold c2'. destruct (get N.eqb (k_dig k) (f_d2p s)); auto.
    destruct ((n0 =? path_of n) && negb (b_len c2 =? 0)); auto using titles_ok_empty. }
  pose proof (file_named_push_inv ov s k n c2' Hinv (Ht k n (or_introl eq_refl)) Hok') as H1.
  destruct (file_named_push true ov s k n c2') as [s1 [e|]]; cbn [fst] in H1.
  - destruct e as [o|[| |]]; try exact H1. now apply IH.
  - now apply IH.
Qed.

Lemma file_index_inv d s1 : file_inv s1 -> file_inv (fst (file_index d s1)).
Proof.
  intro H. unfold file_index. destruct (is_manifest (d_mt d)).
  - destruct (file_fetch d s1) as [c1|]; cbn [fst]; [|exact H].
    destruct (d_dig d =? b_hash c1); cbn [fst]; [now apply file_inv_graph | exact H].
  - cbn [fst]. now apply file_inv_graph.
Qed.

Lemma file_index_after_inv ov d s1 : file_inv s1 -> file_inv (fst (file_index_after true ov d s1)).
Proof.
  intro H. unfold file_index_after. pose proof (file_index_inv d s1 H) as H2.
  destruct (file_index d s1) as [s2 r]. cbn [fst] in H2.
  destruct r as [o|e]; [|exact H2]. destruct o; try exact H2.
  destruct (is_manifest (d_mt d)); [|exact H2].
  destruct (file_fetch d s2) as [c1|] eqn:Ef; cbn [fst]; [|exact H2].
  destruct (d_dig d =? b_hash c1); cbn [fst]; [|exact H2].
  destruct (file_fetch_inv _ _ _ H2 Ef) as [_ [Hok _]].
  pose proof (file_restore_inv ov (b_tl c1) s2 H2 Hok) as H3.
  destruct (file_restore true ov (b_tl c1) s2) as [s3 [e|]]; exact H3.
Qed.

Lemma titles_ok_limit d c : titles_ok c -> titles_ok (limit_reader d c).
Proof.
  intros [A B]. unfold limit_reader. destruct (d_size d <? b_len c); [|split; auto].
  split; simpl; auto.
Qed.

Lemma file_step_inv ig ov s o : no_alias o -> file_inv s -> file_inv (fst (file_step true ig ov s o)).
Proof.
  intros Hna Hinv. pose proof Hinv as [A B C]. destruct o; cbn [file_step]; try exact Hinv.
  - (* Push *)
    destruct Hna as [Hna Ht].
    destruct (d_name d =? 0) eqn:En.
    + destruct ig.
      * destruct (is_manifest (d_mt d)); [|exact Hinv]. destruct (verify d c); [|exact Hinv].
        pose proof (file_restore_inv ov (b_tl c) s Hinv (proj1 Ht)) as H2.
        destruct (file_restore true ov (b_tl c) s) as [s2 [e|]]; exact H2.
      * destruct (get gkey_eqb (gk d) (f_cas s)) eqn:Ec; [exact Hinv|].
        destruct (verify d (limit_reader d c)) eqn:V; [|exact Hinv].
        apply file_index_after_inv.
        constructor; cbn [f_names f_d2p f_disk f_cas]; auto. intros k c0.
        destruct (gdec k (gk d)) as [->|Hne].
        -- rewrite (get_put_eq gkey_eqb gkey_eqb_spec). intro E. injection E as <-.
           apply verify_spec in V as [V _]. split; [exact V | now apply titles_ok_limit].
        -- rewrite (get_put_neq gkey_eqb gkey_eqb_spec) by exact Hne. apply C.
    + pose proof (file_named_push_inv ov s (gk d) (d_name d) c Hinv Hna Ht) as H1.
      destruct (file_named_push true ov s (gk d) (d_name d) c) as [s1 [e|]]; cbn [fst] in *; [exact H1|].
      now apply file_index_after_inv.
  - destruct (file_fetch d s); exact Hinv.
  - destruct r; try exact Hinv; (destruct (file_exists d s); [|exact Hinv]; cbn [fst]; constructor; auto).
  - destruct r; try exact Hinv; destruct (get ref_eqb _ (r_index (f_res s))); exact Hinv.
Qed.

Lemma runf_cons {S} (step : S -> op -> S * fout) s o h :
  runf step s (o :: h) =
  (fst (runf step (fst (step s o)) h), snd (step s o) :: snd (runf step (fst (step s o)) h)).
Proof. simpl. destruct (step s o) as [s1 x]. simpl. destruct (runf step s1 h). reflexivity. Qed.

Lemma file_run_inv ig ov h : forall s,
  Forall no_alias h -> file_inv s -> file_inv (fst (runf (file_step true ig ov) s h)).
Proof.
  induction h as [|o h IH]; intros s Hna H; [exact H|]. rewrite runf_cons. cbn [fst].
  inversion Hna; subst. apply IH; auto. now apply file_step_inv.
Qed.

(* no Fetch ever returns bytes that do not hash to the requested digest -- also in histories
   whose manifests carry titled successors (restoreDuplicates) *)
Lemma file_fetch_matches ig ov h d hash len :
  Forall no_alias h ->
  let s := fst (runf (file_step true ig ov) file_init h) in
  snd (file_step true ig ov s (Fetch d)) = FO (OBytes hash len) -> hash = d_dig d.
Proof.
  intros Hna s. pose proof (file_run_inv ig ov h _ Hna file_inv_init) as Hinv. fold s in Hinv.
  cbn [file_step]. destruct (file_fetch d s) as [c|] eqn:Ef; [|discriminate].
  destruct (file_fetch_inv _ _ _ Hinv Ef) as [Hh _]. cbn [snd]. intro H. injection H as <- _. exact Hh.
Qed.

(* ---- histories without titled successors: a refused or failed operation changes nothing ---- *)
Definition untitled_blob (c : blob) : Prop := b_tl c = [] /\ b_pre_tl c = [].
Definition untitled (o : op) : Prop := match o with Push _ c => untitled_blob c | _ => True end.

Record file_unt (s : file_store) : Prop := mkFU {
  fu_disk : forall p c, get N.eqb p (f_disk s) = Some c -> b_tl c = [];
  fu_cas : forall k c, get gkey_eqb k (f_cas s) = Some c -> b_tl c = [] }.

Lemma file_fetch_unt d s c : file_unt s -> file_fetch d s = Some c -> b_tl c = [].
Proof.
  intros [A C]. unfold file_fetch. destruct (name_ok d s); [|discriminate].
  destruct (get N.eqb (d_dig d) (f_d2p s)) as [p|]; intro H; eauto.
Qed.

Lemma untitled_titles_ok c : untitled_blob c -> titles_ok c.
Proof. intros [A B]. unfold titles_ok. rewrite A, B. split; intros k n []. Qed.

Lemma untitled_no_alias o : untitled o -> (match o with Push d _ => path_of (d_name d) = d_name d | _ => True end) -> no_alias o.
Proof. destruct o; simpl; auto. intros H1 H2. split; auto. now apply untitled_titles_ok. Qed.

(* with untitled content restoreDuplicates has nothing to do, and the read-back succeeds *)
Lemma file_index_after_unt ov d s1 :
  file_inv s1 -> file_unt s1 -> name_ok d s1 = true ->
  (get N.eqb (d_dig d) (f_d2p s1) <> None \/ get gkey_eqb (gk d) (f_cas s1) <> None) ->
  snd (file_index_after true ov d s1) = FO OOk /\
  file_unt (fst (file_index_after true ov d s1)).
Proof.
  intros Hinv Hu Hn Hp. unfold file_index_after, file_index.
  destruct (is_manifest (d_mt d)); [|split; [reflexivity | destruct Hu; constructor; auto]].
  assert (Hf : exists c1, file_fetch d s1 = Some c1).
  { destruct Hinv as [A B C]. unfold file_fetch. rewrite Hn.
    destruct (get N.eqb (d_dig d) (f_d2p s1)) as [p|] eqn:E.
    - destruct (A _ _ E) as (_ & c & Hc & _). eauto.
    - destruct Hp as [Hp|Hp]; [congruence|]. destruct (get gkey_eqb (gk d) (f_cas s1)); [eauto|congruence]. }
  destruct Hf as (c1 & Hf). rewrite Hf.
  destruct (file_fetch_inv _ _ _ Hinv Hf) as [Hh _]. rewrite Hh, N.eqb_refl.
  change (file_fetch d (mkFile (f_names s1) (f_d2p s1) (f_disk s1) (f_cas s1) (f_res s1)
                               (g_index d (succ_of (gk d) c1) (f_graph s1)))) with (file_fetch d s1).
  rewrite Hf, Hh, N.eqb_refl. rewrite (file_fetch_unt _ _ _ Hu Hf). cbn [file_restore].
  split; [reflexivity | destruct Hu; constructor; auto].
Qed.

Lemma file_step_unt ig ov s o :
  no_alias o -> untitled o -> file_inv s -> file_unt s -> file_unt (fst (file_step true ig ov s o)).
Proof.
  intros Hna Hun Hinv Hu. pose proof Hu as [UA UC]. destruct o; cbn [file_step]; try exact Hu.
  - destruct Hna as [Hna Ht]. destruct Hun as [Hun1 Hun2].
    destruct (d_name d =? 0) eqn:En.
    + destruct ig.
      * destruct (is_manifest (d_mt d)); [|exact Hu]. destruct (verify d c); [|exact Hu].
        rewrite Hun1. exact Hu.
      * destruct (get gkey_eqb (gk d) (f_cas s)) eqn:Ec; [exact Hu|].
        destruct (verify d (limit_reader d c)) eqn:V; [|exact Hu].
        set (s1 := mkFile _ _ _ (put gkey_eqb (gk d) (limit_reader d c) (f_cas s)) _ _).
        assert (Hu1 : file_unt s1).
        { constructor; cbn [s1 f_disk f_cas]; auto. intros k c0.
          destruct (gdec k (gk d)) as [->|Hne].
          - rewrite (get_put_eq gkey_eqb gkey_eqb_spec). intro E. injection E as <-.
            unfold limit_reader. destruct (d_size d <? b_len c); auto.
          - rewrite (get_put_neq gkey_eqb gkey_eqb_spec) by exact Hne. apply UC. }
        assert (Hi1 : file_inv s1).
        { pose proof (file_step_inv false ov s (Push d c) (conj Hna Ht) Hinv) as H. cbn [file_step] in H.
          rewrite En, Ec, V in H. fold s1 in H.
          destruct Hinv as [A B C]. constructor; cbn [s1 f_names f_d2p f_disk f_cas]; auto. intros k c0.
          destruct (gdec k (gk d)) as [->|Hne].
          - rewrite (get_put_eq gkey_eqb gkey_eqb_spec). intro E. injection E as <-.
            apply verify_spec in V as [V _]. split; [exact V | now apply titles_ok_limit].
          - rewrite (get_put_neq gkey_eqb gkey_eqb_spec) by exact Hne. apply C. }
        apply file_index_after_unt; auto.
        -- unfold name_ok. now rewrite En.
        -- right. cbn [s1 f_cas]. rewrite (get_put_eq gkey_eqb gkey_eqb_spec). discriminate.
    + unfold file_named_push. rewrite Hna.
      destruct (mem N.eqb (d_name d) (f_names s)) eqn:Em; [exact Hu|].
      destruct (bad_name (d_name d)) eqn:Eb; [exact Hu|].
      destruct (ov && is_some (get N.eqb (d_name d) (f_disk s))) eqn:Eo; [exact Hu|].
      destruct ((k_dig (gk d) =? b_hash c) && (k_size (gk d) =? b_len c)) eqn:V.
      * set (s1 := mkFile (d_name d :: f_names s) _ _ _ _ _).
        assert (Hu1 : file_unt s1).
        { constructor; cbn [s1 f_disk f_cas]; auto. intros p c0.
          destruct (N.eq_dec p (d_name d)) as [->|Hne].
          - rewrite (get_put_eq N.eqb Neqb_spec). intro E. now injection E as <-.
          - rewrite (get_put_neq N.eqb Neqb_spec) by exact Hne. apply UA. }
        assert (Hi1 : file_inv s1).
        { pose proof (file_named_push_inv ov s (gk d) (d_name d) c Hinv Hna Ht) as H.
          unfold file_named_push in H. rewrite Hna, Em, Eb, Eo, V in H. exact H. }
        apply file_index_after_unt; auto.
        -- unfold name_ok. cbn [s1 f_names]. apply orb_true_iff. right. apply memN_In. now left.
        -- left. cbn [s1 f_d2p]. rewrite (get_put_eq N.eqb Neqb_spec). discriminate.
      * cbn [fst]. constructor; cbn [f_disk f_cas]; auto. intros p c0 E.
        destruct (N.eq_dec p (d_name d)) as [->|Hne].
        -- rewrite (get_del_eq N.eqb) in E. discriminate.
        -- rewrite (get_del_neq N.eqb Neqb_spec) in E by exact Hne. eapply UA; eauto.
  - destruct (file_fetch d s); exact Hu.
  - destruct r; try exact Hu; (destruct (file_exists d s); [|exact Hu]; cbn [fst]; constructor; auto).
  - destruct r; try exact Hu; destruct (get ref_eqb _ (r_index (f_res s))); exact Hu.
Qed.

Lemma file_run_unt ig ov h : forall s,
  Forall no_alias h -> Forall untitled h -> file_inv s -> file_unt s ->
  file_inv (fst (runf (file_step true ig ov) s h)) /\ file_unt (fst (runf (file_step true ig ov) s h)).
Proof.
  induction h as [|o h IH]; intros s Hna Hun Hi Hu; [auto|]. rewrite runf_cons. cbn [fst].
  inversion Hna; inversion Hun; subst. apply IH; auto; [now apply file_step_inv | now apply file_step_unt].
Qed.

Lemma file_unt_init : file_unt file_init.
Proof. constructor; simpl; intros; discriminate. Qed.

(* a refused or failed operation changes nothing (repaired pushFile; no aliasing name; no
   titled successors, i.e. restoreDuplicates has nothing to restore) *)
Lemma file_failed_noop ig ov h o :
  Forall no_alias h -> Forall untitled h -> no_alias o -> untitled o ->
  let s := fst (runf (file_step true ig ov) file_init h) in
  fout_is_err (snd (file_step true ig ov s o)) = true -> fst (file_step true ig ov s o) = s.
Proof.
  intros Hna Hun Hnao Huno s.
  destruct (file_run_unt ig ov h _ Hna Hun file_inv_init file_unt_init) as [Hinv Hu]. fold s in Hinv, Hu.
  pose proof Hinv as [A B C]. destruct o; cbn [file_step]; try reflexivity.
  - destruct Hnao as [Hnao Ht]. destruct Huno as [Hu1 Hu2].
    destruct (d_name d =? 0) eqn:En.
    + destruct ig.
      * destruct (is_manifest (d_mt d)); [|reflexivity]. destruct (verify d c); [|reflexivity].
        rewrite Hu1. reflexivity.
      * destruct (get gkey_eqb (gk d) (f_cas s)) eqn:Ec; [reflexivity|].
        destruct (verify d (limit_reader d c)) eqn:V; [|reflexivity].
        set (s1 := mkFile _ _ _ (put gkey_eqb (gk d) (limit_reader d c) (f_cas s)) _ _).
        assert (Hi1 : file_inv s1 /\ file_unt s1).
        { split.
          - constructor; cbn [s1 f_names f_d2p f_disk f_cas]; auto. intros k c0.
            destruct (gdec k (gk d)) as [->|Hne].
            + rewrite (get_put_eq gkey_eqb gkey_eqb_spec). intro E. injection E as <-.
              apply verify_spec in V as [V _]. split; [exact V | now apply titles_ok_limit].
            + rewrite (get_put_neq gkey_eqb gkey_eqb_spec) by exact Hne. apply C.
          - destruct Hu as [UA UC]. constructor; cbn [s1 f_disk f_cas]; auto. intros k c0.
            destruct (gdec k (gk d)) as [->|Hne].
            + rewrite (get_put_eq gkey_eqb gkey_eqb_spec). intro E. injection E as <-.
              unfold limit_reader. destruct (d_size d <? b_len c); auto.
            + rewrite (get_put_neq gkey_eqb gkey_eqb_spec) by exact Hne. apply UC. }
        destruct Hi1 as [Hi1 Hu1'].
        destruct (file_index_after_unt ov d s1 Hi1 Hu1') as [Hok _].
        { unfold name_ok. now rewrite En. }
        { right. cbn [s1 f_cas]. rewrite (get_put_eq gkey_eqb gkey_eqb_spec). discriminate. }
        rewrite Hok. discriminate.
    + unfold file_named_push. rewrite Hnao.
      destruct (mem N.eqb (d_name d) (f_names s)) eqn:Em; [reflexivity|].
      destruct (bad_name (d_name d)) eqn:Eb; [reflexivity|].
      destruct (ov && is_some (get N.eqb (d_name d) (f_disk s))) eqn:Eo; [reflexivity|].
      assert (Hnot : ~ In (d_name d) (f_names s)) by (intro H; apply memN_In in H; congruence).
      destruct ((k_dig (gk d) =? b_hash c) && (k_size (gk d) =? b_len c)) eqn:V.
      * set (s1 := mkFile (d_name d :: f_names s) _ _ _ _ _).
        assert (Hi1 : file_inv s1).
        { pose proof (file_named_push_inv ov s (gk d) (d_name d) c Hinv Hnao Ht) as H.
          unfold file_named_push in H. rewrite Hnao, Em, Eb, Eo, V in H. exact H. }
        assert (Hu1' : file_unt s1).
        { destruct Hu as [UA UC]. constructor; cbn [s1 f_disk f_cas]; auto. intros p c0.
          destruct (N.eq_dec p (d_name d)) as [->|Hne].
          - rewrite (get_put_eq N.eqb Neqb_spec). intro E. now injection E as <-.
          - rewrite (get_put_neq N.eqb Neqb_spec) by exact Hne. apply UA. }
        destruct (file_index_after_unt ov d s1 Hi1 Hu1') as [Hok _].
        { unfold name_ok. cbn [s1 f_names]. apply orb_true_iff. right. apply memN_In. now left. }
        { left. cbn [s1 f_d2p]. rewrite (get_put_eq N.eqb Neqb_spec). discriminate. }
        rewrite Hok. discriminate.
      * intros _. cbn [fst].
        assert (Hd : get N.eqb (d_name d) (f_disk s) = None).
        { destruct (get N.eqb (d_name d) (f_disk s)) as [c0|] eqn:E; auto.
          apply B in E. destruct E. contradiction. }
        rewrite (del_absent N.eqb _ _ Hd). now destruct s.
  - destruct (file_fetch d s); reflexivity.
  - destruct r; try reflexivity; (destruct (file_exists d s); [discriminate|reflexivity]).
  - destruct r; try reflexivity; destruct (get ref_eqb _ (r_index (f_res s))); reflexivity.
Qed.

(* a name is written once: pushing under an existing name is refused and changes nothing *)
Lemma file_duplicate_name fx ig ov s d c :
  d_name d <> 0 -> In (d_name d) (f_names s) ->
  file_step fx ig ov s (Push d c) = (s, FE FDuplicateName).
Proof.
  intros Hn Hin. cbn [file_step]. apply N.eqb_neq in Hn. rewrite Hn.
  unfold file_named_push. apply memN_In in Hin. now rewrite Hin.
Qed.

(* ---------- witnesses: what the file store does not satisfy ---------- *)
Definition w_named := mkDesc 6 1 5 8.          (* digest 1, 5 bytes, title = name 1 *)
Definition w_unnamed := mkDesc 6 1 5 0.
Definition w_good := mkBlob 1 5 [] 1 [].
Definition w_bad := mkBlob 2 5 [] 2 [].
Definition w_trailing := mkBlob 3 6 [] 1 [].   (* 6 bytes whose first 5 are the content of digest 1 *)

(* the code as found: a failed push leaves its file behind and, with DisableOverwrite,
   makes the later valid push of the same name fail *)
Lemma file_failed_noop_prefix_witness :
  snd (runf (file_step false false true) file_init [Push w_named w_bad; Push w_named w_good])
    = [FO (OErr EMismatch); FE FOverwrite] /\
  snd (runf (file_step false false true) file_init [Push w_named w_good]) = [FO OOk] /\
  snd (runf (file_step true false true) file_init [Push w_named w_bad; Push w_named w_good])
    = [FO (OErr EMismatch); FO OOk].
Proof. vm_compute. auto. Qed.

(* known: content present through a named file is accepted again when pushed unnamed *)
Lemma file_push_present_witness :
  let s := fst (runf (file_step true false false) file_init [Push w_named w_good]) in
  file_exists w_unnamed s = true /\
  snd (file_step true false false s (Push w_unnamed w_good)) = FO OOk.
Proof. vm_compute. auto. Qed.

(* known: the fallback storage cuts trailing data; Fetch returns fewer bytes than were pushed *)
Lemma file_trailing_witness :
  snd (runf (file_step true false false) file_init [Push w_unnamed w_trailing; Fetch w_unnamed])
    = [FO OOk; FO (OBytes 1 5)] /\ b_len w_trailing = 6.
Proof. vm_compute. auto. Qed.


(* ---------- tie to the source: which media types are manifests ----------
   The model numbers the manifest media types 1..5 and gives exactly them successors.
   Generated/GC06.v holds the case labels of descriptor.IsManifest and of
   content.Successors as re-read from the Go sources on every run. *)
Lemma manifest_types_from_source :
  (forall x, In x isManifest_cases <-> In x successors_cases) /\
  length isManifest_cases = 5%nat /\ NoDup isManifest_cases.
Proof.
  split; [|split].
  - intro x. unfold isManifest_cases, successors_cases. simpl. tauto.
  - reflexivity.
  - unfold isManifest_cases. repeat constructor; simpl; intuition discriminate.
Qed.

(* OCI: content never pushed successfully is absent; fetching or tagging it is not-found *)
Lemma oci_never_pushed_absent h g :
  (forall d c, In (Push d c) h -> d_dig d <> g) ->
  let s := fst (run oci_step oci_init h) in
  get N.eqb g (o_blobs s) = None /\
  forall d r, d_dig d = g -> snd (oci_step s (Fetch d)) = OErr ENotFound /\
                             (r <> REmpty -> foreign_digest_ref d r = false ->
                              snd (oci_step s (Tag d r)) = OErr ENotFound) /\
                             snd (oci_step s (Exists d)) = OBool false /\
                             snd (oci_step s (Delete d)) = OErr ENotFound.
Proof.
  intros Hno s.
  assert (Habs : get N.eqb g (o_blobs s) = None).
  { unfold s. clear s. assert (G : get N.eqb g (o_blobs oci_init) = None) by reflexivity.
    revert G Hno. generalize oci_init. induction h as [|o h IH]; intros s0 G Hno; [exact G|].
    rewrite run_cons. cbn [fst]. apply IH; [|intros; apply (Hno d c); now right].
    destruct o; simpl; auto.
    - destruct (get N.eqb (d_dig d) (o_blobs s0)); auto. destruct (verify d c); auto. simpl.
      rewrite (get_put_neq N.eqb Neqb_spec); auto. intro; subst. apply (Hno d c); [now left | reflexivity].
    - destruct (get N.eqb (d_dig d) (o_blobs s0)); auto.
    - destruct r as [m0|g0|]; cbn [foreign_digest_ref]; auto; [|destruct (negb (g0 =? d_dig d)); auto]; destruct (is_some _); auto.
    - destruct r as [m|g0|]; auto.
      + destruct (get ref_eqb (RName m) (r_index (o_res s0))); auto.
      + destruct (get ref_eqb (RDig g0) (r_index (o_res s0))); auto;
          try (destruct (get N.eqb g0 (o_blobs s0)); auto).
    - destruct r as [m|g0|]; auto.
      + destruct (get ref_eqb (RName m) (r_index (o_res s0))) as [d1|]; auto;
          try (destruct (ref_eqb _ (RDig (d_dig d1))); auto).
      + destruct (get ref_eqb (RDig g0) (r_index (o_res s0))) as [d1|]; auto;
          try (destruct (ref_eqb _ (RDig (d_dig d1))); auto).
    - destruct (get N.eqb (d_dig d) (o_blobs s0)) eqn:E; simpl; auto.
      destruct (N.eq_dec g (d_dig d)) as [->|Hne]; [congruence|].
      now rewrite (get_del_neq N.eqb Neqb_spec). }
  split; auto. intros d r <-. simpl. rewrite Habs. simpl. repeat split; auto.
  intros Hr Hf. destruct r; cbn [foreign_digest_ref] in *; auto; [now rewrite Hf | congruence].
Qed.


(* known: two names for one path -- the second push overwrites the file the first digest
   points to, and Fetch of the first descriptor returns the other bytes *)
Definition w_alias := mkDesc 6 2 5 40.         (* digest 2, title = name 5 = "./" ++ name 1 *)
Lemma file_alias_witness :
  snd (runf (file_step true false false) file_init
            [Push w_named w_good; Push w_alias (mkBlob 2 5 [] 2 []); Fetch w_named])
    = [FO OOk; FO OOk; FO (OBytes 2 5)] /\ d_dig w_named = 1.
Proof. vm_compute. auto. Qed.

(* known (audit F1): restoreDuplicates fails AFTER the manifest was stored and indexed -- here
   the layer entry is titled with a name outside the working directory.  The failed Push has
   changed the state: Exists answers true, a re-push is already-exists, Predecessors lists it. *)
Definition w_layer := mkDesc 6 1 5 0.
Definition w_manifest := mkDesc 1 9 20 0.
Definition w_manifest_blob := mkBlobT 9 20 [(6, 1, 5)] 9 [(6, 1, 5)] [((6, 1, 5), 6)] [((6, 1, 5), 6)].
Lemma file_restore_fails_witness :
  snd (runf (file_step true false false) file_init
            [Push w_layer w_good; Push w_manifest w_manifest_blob; Exists w_manifest;
             Push w_manifest w_manifest_blob; Preds w_layer])
    = [FO OOk; FE FTraversal; FO (OBool true); FO (OErr EAlreadyExists); FO (OPreds [(1, 9, 20)])].
Proof. vm_compute. reflexivity. Qed.

(* ---------- a concrete universe and history (non-vacuity of the OCI hypotheses) ---------- *)
Definition ex_U (g : N) : gkey :=
  if g =? 1 then (1, 1, 10) else if g =? 2 then (6, 2, 5) else (0, g, 0).
Definition ex_man := mkDesc 1 1 10 0.
Definition ex_layer := mkDesc 6 2 5 0.
Definition ex_hist : list op :=
  [ Push ex_man (mkBlob 1 10 [(6, 2, 5)] 1 [(6, 2, 5)]); Push ex_layer (mkBlob 2 5 [] 2 []);
    Push ex_layer (mkBlob 2 5 [] 2 []); Tag ex_man (RName 1); Resolve (RName 1); Resolve (RDig 2);
    Preds ex_layer; Delete ex_man; Resolve (RName 1); Preds ex_layer; Delete ex_man ].

Lemma ex_U_dig : forall g, k_dig (ex_U g) = g.
Proof.
  intro g. unfold ex_U. destruct (g =? 1) eqn:E1; [apply N.eqb_eq in E1; now subst|].
  destruct (g =? 2) eqn:E2; [apply N.eqb_eq in E2; now subst|]. reflexivity.
Qed.

Lemma ex_canon : Forall (canon_op ex_U) ex_hist.
Proof. repeat constructor. Qed.

Lemma ex_run :
  snd (run oci_step oci_init ex_hist) =
  [ OOk; OOk; OErr EAlreadyExists; OOk; ODesc ex_man; ODesc (mkDesc 0 2 5 0);
    OPreds [(1, 1, 10)]; OOk; OErr ENotFound; OPreds []; OErr ENotFound ].
Proof. vm_compute. reflexivity. Qed.

(* ================================================================== *)
(* "No operation ever returns bytes that do not match its descriptor"  *)
(* ================================================================== *)
Definition cas_verified (cas : list (gkey * blob)) : Prop :=
  forall k c, get gkey_eqb k cas = Some c -> b_hash c = k_dig k /\ b_len c = k_size k.

Lemma mem_step_verified s o : cas_verified (m_cas s) -> cas_verified (m_cas (fst (mem_step s o))).
Proof.
  intro H. destruct o; simpl; auto.
  - destruct (get gkey_eqb (gk d) (m_cas s)) eqn:E; auto. destruct (verify d c) eqn:V; auto. simpl.
    intros k c0. destruct (gdec k (gk d)) as [->|Hne].
    + rewrite (get_put_eq gkey_eqb gkey_eqb_spec). intro X. injection X as <-. now apply verify_spec.
    + rewrite (get_put_neq gkey_eqb gkey_eqb_spec) by exact Hne. apply H.
  - destruct (get gkey_eqb (gk d) (m_cas s)); auto.
  - destruct (is_some _); auto.
  - destruct (get ref_eqb r (r_index (m_res s))); auto.
Qed.

Lemma mem_run_verified h : forall s, cas_verified (m_cas s) -> cas_verified (m_cas (fst (run mem_step s h))).
Proof.
  induction h as [|o h IH]; intros s H; [exact H|]. rewrite run_cons. cbn [fst]. apply IH.
  now apply mem_step_verified.
Qed.

(* memory: whatever Fetch returns has the digest and the size of the requested descriptor *)
Lemma mem_fetch_matches h d hash len :
  snd (mem_step (fst (run mem_step mem_init h)) (Fetch d)) = OBytes hash len ->
  hash = d_dig d /\ len = d_size d.
Proof.
  assert (H : cas_verified (m_cas (fst (run mem_step mem_init h)))).
  { apply mem_run_verified. intros k c X. discriminate. }
  simpl. destruct (get gkey_eqb (gk d) (m_cas (fst (run mem_step mem_init h)))) as [c|] eqn:E; [|discriminate].
  intro X. injection X as <- <-. apply (H _ _ E).
Qed.

Definition blobs_verified (blobs : list (N * blob)) : Prop :=
  forall g c, get N.eqb g blobs = Some c -> b_hash c = g.

Lemma oci_step_verified s o : blobs_verified (o_blobs s) -> blobs_verified (o_blobs (fst (oci_step s o))).
Proof.
  intro H. destruct o; simpl; auto.
  - destruct (get N.eqb (d_dig d) (o_blobs s)) eqn:E; auto. destruct (verify d c) eqn:V; auto. simpl.
    intros g c0. destruct (N.eq_dec g (d_dig d)) as [->|Hne].
    + rewrite (get_put_eq N.eqb Neqb_spec). intro X. injection X as <-. now apply verify_spec in V as [V _].
    + rewrite (get_put_neq N.eqb Neqb_spec) by exact Hne. apply H.
  - destruct (get N.eqb (d_dig d) (o_blobs s)); auto.
  - destruct r as [m0|g0|]; cbn [foreign_digest_ref]; auto; [|destruct (negb (g0 =? d_dig d)); auto]; destruct (is_some _); auto.
  - destruct r as [m|g|]; auto.
    + destruct (get ref_eqb (RName m) (r_index (o_res s))); auto.
    + destruct (get ref_eqb (RDig g) (r_index (o_res s))); auto; destruct (get N.eqb g (o_blobs s)); auto.
  - destruct r as [m|g|]; auto.
    + destruct (get ref_eqb (RName m) (r_index (o_res s))) as [d1|]; auto; destruct (ref_eqb _ (RDig (d_dig d1))); auto.
    + destruct (get ref_eqb (RDig g) (r_index (o_res s))) as [d1|]; auto; destruct (ref_eqb _ (RDig (d_dig d1))); auto.
  - destruct (get N.eqb (d_dig d) (o_blobs s)) eqn:E; simpl; auto.
    intros g c0 X. destruct (N.eq_dec g (d_dig d)) as [->|Hne].
    + rewrite (get_del_eq N.eqb) in X. discriminate.
    + rewrite (get_del_neq N.eqb Neqb_spec) in X by exact Hne. now apply H.
Qed.

Lemma oci_run_verified h : forall s, blobs_verified (o_blobs s) -> blobs_verified (o_blobs (fst (run oci_step s h))).
Proof.
  induction h as [|o h IH]; intros s H; [exact H|]. rewrite run_cons. cbn [fst]. apply IH.
  now apply oci_step_verified.
Qed.

(* OCI (content addressed by digest; the size field of the request is not consulted):
   whatever Fetch returns hashes to the requested digest -- for every history, canonical or not *)
Lemma oci_fetch_matches h d hash len :
  snd (oci_step (fst (run oci_step oci_init h)) (Fetch d)) = OBytes hash len -> hash = d_dig d.
Proof.
  assert (H : blobs_verified (o_blobs (fst (run oci_step oci_init h)))).
  { apply oci_run_verified. intros g c X. discriminate. }
  simpl. destruct (get N.eqb (d_dig d) (o_blobs (fst (run oci_step oci_init h)))) as [c|] eqn:E; [|discriminate].
  intro X. injection X as <- _. apply (H _ _ E).
Qed.

(* ---------- tie to the source: the order of effects the models mirror ----------
   Generated/GC06.v lists, per modelled Go function, the calls of its body in source order
   (translator kind c06_callseq).  The hand-written step functions perform the same effects
   in the same order; these checks fail (layer P) when a step is re-ordered, removed or
   replaced in the Go source. *)
Fixpoint pos_of (x : string) (l : list string) : option nat :=
  match l with
  | [] => None
  | y :: l' => if String.eqb x y then Some O else option_map S (pos_of x l')
  end.
Definition before (a c : string) (l : list string) : bool :=
  match pos_of a l, pos_of c l with Some i, Some j => Nat.ltb i j | _, _ => false end.
Definition has (a : string) (l : list string) : bool := match pos_of a l with Some _ => true | None => false end.
Definition times (a : string) (l : list string) : nat := length (filter (String.eqb a) l).

Definition call_order_checks : list bool :=
  [ (* memory store *)
    before "s.storage.Push" "s.graph.Index" mem_Push_calls;
    before "s.storage.Exists" "s.resolver.Tag" mem_Tag_calls;
    before "m.content.Load" "contentpkg.ReadAll" cas_Push_calls;
    before "contentpkg.ReadAll" "m.content.LoadOrStore" cas_Push_calls;
    negb (has "m.content.Store" cas_Push_calls);
    (* OCI store *)
    before "s.sync.RLock" "s.storage.Push" oci_Push_calls;
    before "s.storage.Push" "s.graph.Index" oci_Push_calls;
    before "s.graph.Index" "s.tag" oci_Push_calls;
    before "validateReference" "digest.Digest" oci_Tag_calls;
    before "digest.Digest" "s.storage.Exists" oci_Tag_calls;
    before "s.storage.Exists" "s.graph.Index" oci_Tag_calls;
    before "s.graph.Index" "s.tag" oci_Tag_calls;
    Nat.eqb (times "s.tagResolver.Tag" oci_tag_calls) 2;
    before "s.tagResolver.Map" "s.tagResolver.Untag" oci_delete_calls;
    before "s.tagResolver.Untag" "s.graph.Remove" oci_delete_calls;
    before "s.graph.Remove" "s.storage.Delete" oci_delete_calls;
    before "s.tagResolver.Resolve" "s.tagResolver.Untag" oci_Untag_calls;
    (* file store *)
    before "s.push" "s.graph.Index" file_Push_calls;
    before "s.graph.Index" "s.restoreDuplicates" file_Push_calls;
    has "s.restoreDuplicatesOfSkipped" file_Push_calls;
    before "status.Lock" "s.resolveWritePath" file_push_calls;
    before "s.resolveWritePath" "s.pushFile" file_push_calls;
    has "s.fallbackStorage.Push" file_push_calls;
    before "os.Create" "s.saveFile" file_pushFile_calls;
    before "s.saveFile" "os.Remove" file_pushFile_calls;
    before "s.Exists" "s.resolver.Tag" file_Tag_calls;
    has "io.LimitReader" limited_Push_calls;
    (* resolver *)
    has "oldTagSet.Delete" resolver_Tag_calls;
    before "m.lock.Lock" "tagSet.Add" resolver_Tag_calls;
    (* oci.Storage.Push: stat, then ingest into a temp file, then rename onto the blob path *)
    before "os.Stat" "s.ingest" ocistorage_Push_calls;
    before "s.ingest" "os.Rename" ocistorage_Push_calls;
    (* oci.Store.Resolve: the tag map first, the blob fallback second *)
    before "s.tagResolver.Resolve" "resolveBlob" oci_Resolve_calls;
    (* file store reads: name status, then digestToPath, then the fallback storage *)
    before "s.nameExists" "s.digestToPath.Load" file_Fetch_calls;
    before "s.digestToPath.Load" "os.Open" file_Fetch_calls;
    before "os.Open" "s.fallbackStorage.Fetch" file_Fetch_calls;
    before "s.nameExists" "s.digestToPath.Load" file_Exists_calls;
    before "s.digestToPath.Load" "s.fallbackStorage.Exists" file_Exists_calls;
    (* restoreDuplicatesFrom: successors, skip existing names, fetch by plain descriptor, push *)
    before "content.Successors" "s.nameExists" file_restoreFrom_calls;
    before "s.nameExists" "s.Fetch" file_restoreFrom_calls;
    before "s.Fetch" "s.push" file_restoreFrom_calls ].

Lemma call_order_from_source : forallb (fun x => x) call_order_checks = true.
Proof. vm_compute. reflexivity. Qed.
