From Oras Require Import Base.Prelude Model.Stores.
Lemma mem_push_present_noop s d c x :
  get gkey_eqb (gk d) (m_cas s) = Some x -> mem_step s (Push d c) = (s, OErr EAlreadyExists).
Proof. intro H. simpl. now rewrite H. Qed.
