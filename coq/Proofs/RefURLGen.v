(* The URL builders assembled from the literals read off the Go source (Model/RefURLGen.v) ARE the
   closed forms the C20 theorems are stated about. *)
From Oras Require Import Base.Prelude Base.Regex Generated.GC20 Model.NetURL Model.Reference Model.RefOps Model.RefURLGen.

Lemma gen_scheme_eq plain : gen_scheme plain = scheme plain.
Proof. destruct plain; reflexivity. Qed.

Lemma gen_host_eq reg : gen_host reg = host_of reg.
Proof. reflexivity. Qed.

Lemma gen_url_repo_base_eq plain r : gen_url_repo_base plain r = url_repo_base plain r.
Proof.
  unfold gen_url_repo_base, url_repo_base. rewrite gen_scheme_eq, gen_host_eq.
  cbn [lit nth buildRepositoryBaseURL_lits sprintf_s N.eqb Pos.eqb]. rewrite app_nil_r. reflexivity.
Qed.

Lemma gen_url_base_eq plain r : gen_url_base plain r = url_base plain r.
Proof.
  unfold gen_url_base, url_base. rewrite gen_scheme_eq, gen_host_eq.
  cbn [lit nth buildRegistryBaseURL_lits sprintf_s N.eqb Pos.eqb]. reflexivity.
Qed.

Lemma gen_url_catalog_eq plain r : gen_url_catalog plain r = url_catalog plain r.
Proof.
  unfold gen_url_catalog, url_catalog. rewrite gen_scheme_eq, gen_host_eq.
  cbn [lit nth buildRegistryCatalogURL_lits sprintf_s N.eqb Pos.eqb]. reflexivity.
Qed.

Lemma gen_url_taglist_eq plain r : gen_url_taglist plain r = url_taglist plain r.
Proof. unfold gen_url_taglist, url_taglist. rewrite gen_url_repo_base_eq. reflexivity. Qed.

Lemma gen_url_upload_eq plain r : gen_url_upload plain r = url_upload plain r.
Proof. unfold gen_url_upload, url_upload. rewrite gen_url_repo_base_eq. reflexivity. Qed.

Lemma gen_url_manifest_eq plain r : gen_url_manifest plain r = url_manifest plain r.
Proof. unfold gen_url_manifest, url_manifest. rewrite gen_url_repo_base_eq. reflexivity. Qed.

Lemma gen_url_blob_eq plain r : gen_url_blob plain r = url_blob plain r.
Proof. unfold gen_url_blob, url_blob. rewrite gen_url_repo_base_eq. reflexivity. Qed.

Lemma gen_url_mount_eq plain r d from : gen_url_mount plain r d from = url_mount plain r d from.
Proof.
  unfold gen_url_mount, url_mount. rewrite gen_url_upload_eq.
  cbn [lit nth buildRepositoryBlobMountURL_lits sprintf_s N.eqb Pos.eqb]. rewrite app_nil_r. reflexivity.
Qed.

Lemma referrers_key_escaped : query_escape (lit buildReferrersURL_lits 1) = b "artifactType".
Proof. vm_compute. reflexivity. Qed.

Lemma gen_url_referrers_at_eq plain r at_ : gen_url_referrers_at plain r at_ = url_referrers_at plain r at_.
Proof.
  unfold gen_url_referrers_at, url_referrers_at, url_referrers. rewrite gen_url_repo_base_eq.
  destruct at_ as [|a t].
  - cbn [lit nth buildReferrersURL_lits sprintf_s N.eqb Pos.eqb].
    rewrite ?app_nil_r. rewrite <- ?app_assoc. reflexivity.
  - unfold encode_params. cbn [map join_amp fst snd]. rewrite referrers_key_escaped.
    cbn [lit nth buildReferrersURL_lits sprintf_s N.eqb Pos.eqb].
    rewrite ?app_nil_r. rewrite <- ?app_assoc. reflexivity.
Qed.

Lemma gen_url_referrers_eq plain r : gen_url_referrers plain r = url_referrers plain r.
Proof.
  unfold gen_url_referrers. rewrite gen_url_referrers_at_eq. unfold url_referrers_at. now rewrite app_nil_r.
Qed.

(* what the model of ValidateRegistry assumes about the dummy URL it parses: the scheme is
   neither http nor https and is followed by a double slash *)
Lemma validate_registry_dummy_scheme : nth 0 ValidateRegistry_lits [] = b "dummy://".
Proof. reflexivity. Qed.

Theorem generated_builders_agree plain r d from at_ :
  gen_url_base plain r = url_base plain r /\ gen_url_catalog plain r = url_catalog plain r /\
  gen_url_repo_base plain r = url_repo_base plain r /\ gen_url_taglist plain r = url_taglist plain r /\
  gen_url_manifest plain r = url_manifest plain r /\ gen_url_blob plain r = url_blob plain r /\
  gen_url_upload plain r = url_upload plain r /\ gen_url_referrers plain r = url_referrers plain r /\
  gen_url_mount plain r d from = url_mount plain r d from /\
  gen_url_referrers_at plain r at_ = url_referrers_at plain r at_ /\
  nth 0 ValidateRegistry_lits [] = b "dummy://".
Proof.
  repeat split; auto using gen_url_base_eq, gen_url_catalog_eq, gen_url_repo_base_eq, gen_url_taglist_eq,
    gen_url_manifest_eq, gen_url_blob_eq, gen_url_upload_eq, gen_url_referrers_eq, gen_url_mount_eq, gen_url_referrers_at_eq.
Qed.
