(* CopyImplTerm: a natural-number measure strictly decreases on every step of the protocol LTS
   (including fault and cancellation choices), so every execution is finite; the bound depends only on
   the graph (N nodes, their successor lists) and the number of roots. *)
From Coq Require Import List Arith Bool Lia.
From Oras Require Import Model.CopyImpl Proofs.CopyImplBase Proofs.CopyImplInv Proofs.CopyImplInv2.
Import ListNotations.

Fixpoint sum_upto (g : nat -> nat) (n : nat) : nat :=
  match n with O => 0 | S k => g k + sum_upto g k end.
Lemma sum_upto_ext g h n : (forall i, i < n -> g i = h i) -> sum_upto g n = sum_upto h n.
Proof. induction n; intros H; cbn; auto. rewrite H by lia. rewrite IHn; auto. Qed.
Lemma sum_upd_ge {A} (h : nat -> A -> nat) (f : nat -> A) i x n : n <= i ->
  sum_upto (fun j => h j (upd f i x j)) n = sum_upto (fun j => h j (f j)) n.
Proof. intros H. apply sum_upto_ext. intros j Hj. rewrite upd_other by lia. reflexivity. Qed.
Lemma sum_upd {A} (h : nat -> A -> nat) (f : nat -> A) i x n : i < n ->
  sum_upto (fun j => h j (upd f i x j)) n + h i (f i) = sum_upto (fun j => h j (f j)) n + h i x.
Proof.
  induction n; intros H; [lia|]. cbn. destruct (Nat.eq_dec i n) as [->|Hne].
  - rewrite upd_same. rewrite sum_upd_ge by lia. lia.
  - rewrite upd_other by lia. assert (Hi : i < n) by lia. specialize (IHn Hi). lia.
Qed.

Definition spawn_pot (k : kind) : nat := match k with KFn => 3 | KOuter => 14 end.
Definition fcost (k : kind) (n : nat) : nat := n * S (spawn_pot k) + 2.
Definition fpot (f : frame) : nat :=
  match f_pc f with FDispatch => fcost (f_kind f) (length (f_items f)) | FWait => 1 | FRet _ => 0 end.

Section Proofs.
Variable succ : nat -> list nat.
Variable K : nat.
Variable ext : bool.
Variable roots : list nat.
Variable N : nat.                    (* nodes are 0 .. N-1 *)
Hypothesis succ_dec : forall n m, In m (succ n) -> m < n.
Hypothesis roots_lt : forall r, In r roots -> r < N.
Local Notation Reachable := (Reachable succ K ext roots).
Local Notation Inv1 := (Inv1 K).
Local Notation Inv2 := (Inv2 succ).

Definition tpot (t : task) : nat :=
  let wl := length (wait_list succ t) in
  let gc := fcost KFn (length (go_items succ t)) in
  match t_pc t with
  | TFin _ => 0
  | TSpawned => spawn_pot (t_kind t)
  | TTry => 2
  | TExists => 7 + length (succ (t_node t)) + fcost KFn (length (succ (t_node t)))
  | TFind => 6 + length (succ (t_node t)) + fcost KFn (length (succ (t_node t)))
  | TEnd => 5 + wl + gc
  | TGo => 4 + wl + gc
  | TInGo _ => 3 + wl
  | TWait l => 2 + length l
  | TStart => 2
  | TPush => 1
  end.
(* what committing node n will cost: the potential of its task at TExists *)
Definition upot (n : nat) : nat := 7 + length (succ n) + fcost KFn (length (succ n)).
Definition trpot (st : status) (n : nat) : nat := match st with Untracked => upot n | _ => 0 end.

Definition tsum (ts : nat -> task) (n : nat) : nat := sum_upto (fun i => tpot (ts i)) n.
Definition fsum (fs : nat -> frame) (n : nat) : nat := sum_upto (fun i => fpot (fs i)) n.
Definition rsum (tr : nat -> status) : nat := sum_upto (fun i => trpot (tr i) i) N.
Definition measure (s : state) : nat :=
  tsum (tasks s) (ntasks s) + fsum (frames s) (nframes s) + rsum (tracker s) + (if top_cancelled s then 0 else 1).

Lemma tsum_upd ts t x n : t < n -> tsum (upd ts t x) n + tpot (ts t) = tsum ts n + tpot x.
Proof. intros H. unfold tsum. apply (sum_upd (fun _ => tpot)). auto. Qed.
Lemma tsum_new ts n x : tsum (upd ts n x) (S n) = tsum ts n + tpot x.
Proof. unfold tsum. cbn. rewrite upd_same. rewrite (sum_upd_ge (fun _ => tpot)) by lia. lia. Qed.
Lemma fsum_upd fs f x n : f < n -> fsum (upd fs f x) n + fpot (fs f) = fsum fs n + fpot x.
Proof. intros H. unfold fsum. apply (sum_upd (fun _ => fpot)). auto. Qed.
Lemma fsum_new fs n x : fsum (upd fs n x) (S n) = fsum fs n + fpot x.
Proof. unfold fsum. cbn. rewrite upd_same. rewrite (sum_upd_ge (fun _ => fpot)) by lia. lia. Qed.
Lemma fsum_cancel x fs n : fsum (cancel_frames x fs) n = fsum fs n.
Proof.
  unfold fsum. apply sum_upto_ext. intros i _. unfold fpot. rewrite cf_pc, cf_kind, cf_items. reflexivity.
Qed.
Lemma rsum_upd_lt tr m st : m < N -> rsum (upd tr m st) + trpot (tr m) m = rsum tr + trpot st m.
Proof. intros H. unfold rsum. apply (sum_upd (fun i st => trpot st i)). auto. Qed.
Lemma rsum_upd_le tr m st : trpot st m <= trpot (tr m) m -> rsum (upd tr m st) <= rsum tr.
Proof.
  intros H. destruct (Nat.lt_ge_cases m N) as [Hlt|Hge].
  - pose proof (rsum_upd_lt tr m st Hlt). lia.
  - unfold rsum. rewrite (sum_upd_ge (fun i st => trpot st i)) by lia. lia.
Qed.

Definition I_nodes s := (forall t, t < ntasks s -> t_node (tasks s t) < N) /\
                        (forall f i, In i (f_items (frames s f)) -> i < N).

Lemma nodes_init : I_nodes (init K ext roots).
Proof.
  split; cbn; intros; try lia. unfold upd in H. destruct (Nat.eqb f 0); cbn in H; auto. contradiction.
Qed.

Lemma nodes_step s l s' : Inv1 s -> I_nodes s -> step succ s l = Some s' -> I_nodes s'.
Proof.
  intros [Hwf Hperm Hmust Hmay] [Hn1 Hn2] Hs.
  step_cases l Hs.
  all: try (live t).
  all: split; intros; cbn [tasks ntasks free frames nframes tracker failed top_cancelled] in *.
  all: try (timeout 20 solve [
    fsimp; upd_cases; cbn [f_parent f_anc f_kind f_all f_items f_pc f_cancelled t_node t_kind t_frame t_pc t_holds set_pc set_pc_holds set_fpc set_cancelled] in *;
    eauto; try (apply Hn1; lia);
    try match goal with H : f_items (frames _ ?f) = _ |- _ => try (apply (Hn2 f); rewrite H; cbn; auto) end ]).
  all: fsimp; upd_cases; cbn [f_items set_fpc In] in *; try contradiction; eauto.
  all: try (unfold go_items in *; pose proof (Hn1 t ltac:(assumption));
            destruct (t_kind (tasks s t)); cbn [In] in *;
            [ match goal with H : In _ (succ _) |- _ => apply succ_dec in H end; lia | intuition lia ]).
Qed.

Lemma nodes_reach s : Reachable s -> I_nodes s.
Proof.
  induction 1. apply nodes_init. eapply nodes_step; eauto. eapply inv1_reach; eauto.
Qed.

Ltac msum :=
  repeat match goal with
         | |- context [fsum (cancel_frames ?x ?fs) ?n] => rewrite (fsum_cancel x fs n)
         end;
  repeat match goal with
         | |- context [tsum (upd ?ts ?n ?x) (S ?n)] => rewrite (tsum_new ts n x)
         | |- context [fsum (upd ?fs ?n ?x) (S ?n)] => rewrite (fsum_new fs n x)
         | |- context [tsum (upd ?ts ?t ?x) ?n] =>
           let H := fresh "HS" in let v := fresh "v" in
           pose proof (tsum_upd ts t x n ltac:(assumption)) as H;
           set (v := tsum (upd ts t x) n) in *; clearbody v
         | |- context [fsum (upd ?fs ?f ?x) ?n] =>
           let H := fresh "HS" in let v := fresh "v" in
           pose proof (fsum_upd fs f x n ltac:(assumption)) as H;
           set (v := fsum (upd fs f x) n) in *; clearbody v
         end.

Lemma measure_decreases s l s' : Inv1 s -> Inv2 s -> I_nodes s -> step succ s l = Some s' -> measure s' < measure s.
Proof.
  intros [Hwf Hperm Hmust Hmay] [Hwff Hnf Htf Hunf Hingo Hpar Htop Hself Hanc Hrank Hwait] [Hn1 Hn2] Hs.
  step_cases l Hs.
  all: flive_all.
  all: try (live t).
  all: try match goal with H : t_pc (tasks _ ?p) = TInGo _ |- _ => live p end.
  all: unfold measure; cbn [tasks ntasks free frames nframes tracker failed top_cancelled].
  all: msum.
  all: repeat match goal with
              | |- context [rsum (upd ?tr ?m ?st)] =>
                let H := fresh "HR" in let v := fresh "v" in
                first [ pose proof (rsum_upd_lt tr m st ltac:(auto)) as H
                      | pose proof (rsum_upd_le tr m st) as H ];
                set (v := rsum (upd tr m st)) in *; clearbody v
              end.
  all: unfold tpot, fpot, trpot, upot, fcost, wait_pc, wait_list, go_items in *;
       cbn [f_parent f_anc f_kind f_all f_items f_pc f_cancelled t_node t_kind t_frame t_pc t_holds set_pc set_pc_holds set_fpc set_cancelled length spawn_pot] in *.
  all: repeat match goal with
              | H : t_pc (tasks _ _) = _ |- _ => rewrite H in *
              | H : f_pc (frames _ _) = _ |- _ => rewrite H in *
              | H : f_items (frames _ _) = _ |- _ => rewrite H in *
              | H : tracker _ _ = _ |- _ => rewrite H in *
              | H : succ _ = _ |- _ => rewrite H in *
              | H : top_cancelled _ || _ = false |- _ => apply orb_false_iff in H; destruct H
              | H : top_cancelled _ = _ |- _ => rewrite H in *
              end.
  all: cbn [length spawn_pot] in *.
  all: repeat match goal with
              | H : context [t_kind (tasks ?s0 ?x)] |- _ => destruct (t_kind (tasks s0 x)); cbn [length spawn_pot] in *
              | |- context [t_kind (tasks ?s0 ?x)] => destruct (t_kind (tasks s0 x)); cbn [length spawn_pot] in *
              | H : context [f_kind (frames ?s0 ?x)] |- _ => destruct (f_kind (frames s0 x)); cbn [length spawn_pot] in *
              | |- context [f_kind (frames ?s0 ?x)] => destruct (f_kind (frames s0 x)); cbn [length spawn_pot] in *
              end.
  all: repeat match goal with
              | H : context [match succ ?x with _ => _ end] |- _ => destruct (succ x); cbn [length spawn_pot] in *
              end.
  all: try congruence.
  all: try (timeout 20 solve [
    repeat match goal with
           | |- context [match ?x with _ => _ end] => destruct x eqn:?; cbn [length spawn_pot] in *
           | H : context [match ?x with _ => _ end] |- _ => destruct x eqn:?; cbn [length spawn_pot] in *
           end; try lia ]).
  all: repeat match goal with
              | H : context [match ?l with [] => _ | _ :: _ => _ end] |- _ => is_var l; destruct l
              end; cbn [length] in *; try lia.
Qed.

Lemma terminates_step s l s' : Reachable s -> step succ s l = Some s' -> measure s' < measure s.
Proof.
  intros Hr Hs. destruct (inv12_reach succ K ext roots succ_dec s Hr) as [I1 I2].
  eapply measure_decreases; eauto. apply nodes_reach; auto.
Qed.

Definition bound : nat :=
  fcost (if ext then KOuter else KFn) (length roots) + sum_upto upot N + 1.

Lemma measure_init : measure (init K ext roots) = bound.
Proof.
  unfold measure, bound, tsum, fsum, rsum. cbn [init tasks ntasks frames nframes tracker top_cancelled sum_upto].
  unfold upd at 1. cbn [Nat.eqb]. unfold fpot. cbn [f_pc f_kind f_items].
  rewrite (sum_upto_ext (fun i => trpot Untracked i) upot); [lia|]. intros; reflexivity.
Qed.

Lemma run_bounded s ls s' : Reachable s -> run succ s ls = Some s' -> length ls + measure s' <= measure s.
Proof.
  revert s. induction ls as [|l ls IH]; cbn; intros s Hr H.
  - inversion H. lia.
  - destruct (step succ s l) as [s1|] eqn:Hs; [|discriminate].
    pose proof (terminates_step s l s1 Hr Hs).
    assert (Reachable s1) by (econstructor; eauto).
    specialize (IH s1 H1 H). lia.
Qed.

(* every execution from the initial state has at most `bound` steps *)
Theorem terminates ls s : run succ (init K ext roots) ls = Some s -> length ls <= bound.
Proof.
  intros H. pose proof (run_bounded _ ls s (R_init succ K ext roots) H). rewrite measure_init in H0. lia.
Qed.

(* there is no infinite execution *)
Theorem no_infinite_run (st : nat -> state) (lb : nat -> label) :
  st 0 = init K ext roots -> (forall i, step succ (st i) (lb i) = Some (st (S i))) -> False.
Proof.
  intros H0 Hst.
  assert (Hall : forall i, Reachable (st i) /\ i + measure (st i) <= bound).
  { induction i as [|i [Hr Hm]].
    - rewrite H0. split; [constructor|]. rewrite measure_init. lia.
    - pose proof (terminates_step _ _ _ Hr (Hst i)). split; [econstructor; eauto | lia]. }
  destruct (Hall (S bound)) as [_ Hb]. lia.
Qed.

End Proofs.
