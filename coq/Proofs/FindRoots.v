From Oras Require Import Base.Prelude Model.FindRoots.
Lemma stub_true : True. Proof. exact I. Qed.
