(* Lemmas about Model/FindRoots.v: loop invariants of the stack DFS of findRoots
   (for every served predecessor order), termination, exactness of the filters. *)
From Oras Require Import Base.Prelude Generated.GC03 Model.FindRoots.
From Coq Require Import Lia.
Local Open Scope nat_scope.

(* ------------------------------------------------------------------ basics *)

Lemma mem_In x l : mem x l = true <-> In x l.
Proof.
  unfold mem. rewrite existsb_exists. split.
  - intros (y & Hy & E). apply Nat.eqb_eq in E. now subst.
  - intro H. exists x. split; auto. apply Nat.eqb_refl.
Qed.

Lemma mem_not_In x l : mem x l = false <-> ~ In x l.
Proof.
  split.
  - intros H Hin. apply mem_In in Hin. congruence.
  - intro H. destruct (mem x l) eqn:E; auto. apply mem_In in E. contradiction.
Qed.

Definition sids (st : list frame) : list nat := map (fun f => d_id (fst f)) st.

Lemma sids_In z st : In z (sids st) <-> exists x d, In (x, d) st /\ d_id x = z.
Proof.
  unfold sids. rewrite in_map_iff. split.
  - intros ([x d] & E & H). exists x, d. auto.
  - intros (x & d & H & E). exists (x, d). auto.
Qed.

Lemma push_preds_In ps dp V : forall st x k,
  In (x, k) (push_preds ps dp V st) <->
  In (x, k) st \/ (In x ps /\ k = dp /\ ~ In (d_id x) V).
Proof.
  induction ps as [|p ps IH]; intros st x k; simpl.
  - split; [auto | intros [H | (H & _)]; [auto | contradiction]].
  - rewrite IH. destruct (mem (d_id p) V) eqn:Em.
    + apply mem_In in Em. split.
      * intros [H | (H & Hk & Hv)]; [auto | right; auto].
      * intros [H | ([H | H] & Hk & Hv)]; [auto | subst; contradiction | right; auto].
    + apply mem_not_In in Em. simpl. split.
      * intros [[H | H] | (H & Hk & Hv)]; [|auto|right; auto].
        injection H as -> ->. right. auto.
      * intros [H | ([H | H] & Hk & Hv)]; [auto | subst; auto | right; auto].
Qed.

Lemma push_preds_length ps dp V : forall st,
  length (push_preds ps dp V st) <= length ps + length st.
Proof.
  induction ps as [|p ps IH]; intros st; simpl; [lia|].
  specialize (IH (if mem (d_id p) V then st else (p, dp) :: st)).
  destruct (mem (d_id p) V); simpl in IH; lia.
Qed.

Lemma add_root_In r c R : In r (add_root c R) -> In r R \/ r = c.
Proof.
  unfold add_root. destruct (mem (d_id c) (map d_id R)); [auto|].
  rewrite in_app_iff. simpl. intros [H | [H | []]]; auto.
Qed.

Lemma add_root_incl r c R : In r R -> In r (add_root c R).
Proof.
  unfold add_root. destruct (mem (d_id c) (map d_id R)); [auto|].
  rewrite in_app_iff. auto.
Qed.

Lemma add_root_id c R : In (d_id c) (map d_id (add_root c R)).
Proof.
  unfold add_root. destruct (mem (d_id c) (map d_id R)) eqn:E.
  - now apply mem_In in E.
  - rewrite map_app, in_app_iff. right. simpl. auto.
Qed.

Lemma add_root_ids z c R : In z (map d_id R) -> In z (map d_id (add_root c R)).
Proof.
  rewrite !in_map_iff. intros (r & E & H). exists r. split; auto. now apply add_root_incl.
Qed.

(* ------------------------------------------------------------------ the DFS *)

Section DFS.
  Variable fp : nat -> list desc.      (* opts.FindPredecessors, by node key *)
  Variable limit : Z.                  (* opts.Depth *)
  Variable node : desc.                (* the given node *)

  (* y is a followed predecessor of x *)
  Definition E (x y : nat) : Prop := In y (map d_id (fp x)).

  (* path k x y: y is k followed-predecessor steps above x *)
  Inductive path : nat -> nat -> nat -> Prop :=
  | path0 x : path 0 x x
  | pathS k x y z : path k x y -> E y z -> path (S k) x z.

  Definition reach (x y : nat) : Prop := exists k, path k x y.

  Lemma reach_refl x : reach x x.
  Proof. exists 0. constructor. Qed.

  Lemma reach_step x y z : reach x y -> E y z -> reach x z.
  Proof. intros (k & H) He. exists (S k). econstructor; eauto. Qed.

  Lemma path_trans k1 k2 x y z : path k1 x y -> path k2 y z -> path (k2 + k1) x z.
  Proof.
    intros H1 H2. induction H2; simpl; auto. econstructor; eauto.
  Qed.

  Lemma reach_trans x y z : reach x y -> reach y z -> reach x z.
  Proof. intros (k1 & H1) (k2 & H2). exists (k2 + k1). eapply path_trans; eauto. Qed.

  Lemma E_reach x y : E x y -> reach x y.
  Proof. intro H. eapply reach_step; [apply reach_refl | exact H]. Qed.

  Lemma E_In x p : In p (fp x) -> E x (d_id p).
  Proof. intro H. unfold E. apply in_map_iff. eauto. Qed.

  (* content addressing: a predecessor embeds the digest of its successor, so the
     followed-predecessor relation is acyclic; stated with a rank function *)
  Variable rank : nat -> nat.
  Hypothesis Hrank : forall x p, In p (fp x) -> rank x < rank (d_id p).

  Lemma rank_E x y : E x y -> rank x < rank y.
  Proof. unfold E. rewrite in_map_iff. intros (p & <- & H). now apply Hrank. Qed.

  Lemma rank_reach x y : reach x y -> rank x <= rank y.
  Proof.
    intros (k & H). induction H; [lia|]. apply rank_E in H0. lia.
  Qed.

  Record Inv (st : list frame) (V : list nat) (R : list desc) : Prop := {
    iA : forall x d, In (x, d) st ->
           path d (d_id node) (d_id x) /\ ((0 < limit)%Z -> (Z.of_nat d <= limit)%Z);
    iB : forall v, In v V -> reach (d_id node) v;
    iC : forall r, In r R ->
           In (d_id r) V /\
           (exists k, path k (d_id node) (d_id r) /\ ((0 < limit)%Z -> (Z.of_nat k <= limit)%Z)) /\
           (fp (d_id r) = [] \/ ((0 < limit)%Z /\ path (Z.to_nat limit) (d_id node) (d_id r)));
    iD : (limit <= 0)%Z -> forall v, In v V -> fp v = [] -> In v (map d_id R);
    iE : (limit <= 0)%Z -> forall v p, In v V -> In p (fp v) ->
           In (d_id p) V \/ In (d_id p) (sids st);
    iF : forall v, In v V ->
           exists z, reach v z /\ (In z (map d_id R) \/ (In z (sids st) /\ ~ In z V));
    iG : In (d_id node) V \/ In (d_id node) (sids st)
  }.

  Lemma inv_init : Inv [(node, 0)] [] [].
  Proof.
    constructor.
    - intros x d [H | []]. injection H as <- <-. split; [constructor | lia].
    - intros v [].
    - intros r [].
    - intros _ v [].
    - intros _ v p [].
    - intros v [].
    - right. simpl. auto.
  Qed.

  Lemma inv_pop_visited cur d rest V R :
    Inv ((cur, d) :: rest) V R -> In (d_id cur) V -> Inv rest V R.
  Proof.
    intros I Hv. constructor.
    - intros x k H. apply (iA _ _ _ I). right. exact H.
    - apply (iB _ _ _ I).
    - apply (iC _ _ _ I).
    - apply (iD _ _ _ I).
    - intros Hl v p Hin Hp. destruct (iE _ _ _ I Hl v p Hin Hp) as [H | H]; auto.
      simpl in H. destruct H as [H | H]; auto. left. now rewrite <- H.
    - intros v Hin. destruct (iF _ _ _ I v Hin) as (z & Hr & [H | (H & Hn)]).
      + exists z. auto.
      + exists z. split; auto. right. split; auto.
        simpl in H. destruct H as [H | H]; auto. subst z. contradiction.
    - destruct (iG _ _ _ I) as [H | H]; auto. simpl in H. destruct H as [H | H]; auto.
      left. now rewrite <- H.
  Qed.

  Lemma inv_root cur d rest V R :
    Inv ((cur, d) :: rest) V R -> ~ In (d_id cur) V ->
    (fp (d_id cur) = [] \/ ((0 < limit)%Z /\ Z.of_nat d = limit)) ->
    Inv rest (d_id cur :: V) (add_root cur R).
  Proof.
    intros I Hnv Hwhy.
    destruct (iA _ _ _ I cur d (or_introl eq_refl)) as (Hpath & Hlim).
    constructor.
    - intros x k H. apply (iA _ _ _ I). right. exact H.
    - intros v [<- | H]; [exists d; exact Hpath | now apply (iB _ _ _ I)].
    - intros r Hr. apply add_root_In in Hr. destruct Hr as [Hr | ->].
      + destruct (iC _ _ _ I r Hr) as (H1 & H2 & H3). split; [right; exact H1 | auto].
      + split; [left; reflexivity|]. split; [exists d; auto|].
        destruct Hwhy as [H | (H1 & H2)]; [auto|]. right. split; auto.
        rewrite <- H2, Nat2Z.id. exact Hpath.
    - intros Hl v [<- | Hin] Hf; [apply add_root_id|].
      apply add_root_ids. now apply (iD _ _ _ I Hl).
    - intros Hl v p [<- | Hin] Hp.
      + destruct Hwhy as [H | (H & _)]; [rewrite H in Hp; contradiction | lia].
      + destruct (iE _ _ _ I Hl v p Hin Hp) as [H | H]; [left; right; exact H|].
        simpl in H. destruct H as [H | H]; [left; left; exact H | right; exact H].
    - intros v [<- | Hin].
      + exists (d_id cur). split; [apply reach_refl | left; apply add_root_id].
      + destruct (iF _ _ _ I v Hin) as (z & Hr & [H | (H & Hn)]).
        * exists z. split; auto. left. now apply add_root_ids.
        * simpl in H. destruct H as [H | H].
          -- subst z. exists (d_id cur). split; auto. left. apply add_root_id.
          -- destruct (Nat.eq_dec z (d_id cur)) as [-> | Hne].
             ++ exists (d_id cur). split; auto. left. apply add_root_id.
             ++ exists z. split; auto. right. split; auto. intros [Hc | Hc]; auto.
    - destruct (iG _ _ _ I) as [H | H]; [left; right; exact H|].
      simpl in H. destruct H as [H | H]; [left; left; exact H | right; exact H].
  Qed.

  Lemma inv_push cur d rest V R :
    Inv ((cur, d) :: rest) V R -> ~ In (d_id cur) V ->
    ~ ((0 < limit)%Z /\ Z.of_nat d = limit) ->
    fp (d_id cur) <> [] ->
    Inv (push_preds (fp (d_id cur)) (S d) (d_id cur :: V) rest) (d_id cur :: V) R.
  Proof.
    intros I Hnv Hnl Hne.
    destruct (iA _ _ _ I cur d (or_introl eq_refl)) as (Hpath & Hlim).
    assert (Hsub : forall z, In z (sids rest) ->
              In z (sids (push_preds (fp (d_id cur)) (S d) (d_id cur :: V) rest))).
    { intros z Hz. apply sids_In in Hz. destruct Hz as (x & k & Hx & <-).
      apply sids_In. exists x, k. split; auto. apply push_preds_In. auto. }
    assert (Hnew : forall p, In p (fp (d_id cur)) -> ~ In (d_id p) (d_id cur :: V) ->
              In (d_id p) (sids (push_preds (fp (d_id cur)) (S d) (d_id cur :: V) rest))).
    { intros p Hp Hn. apply sids_In. exists p, (S d). split; auto.
      apply push_preds_In. right. auto. }
    (* a witness above cur *)
    assert (Hwit : exists z, reach (d_id cur) z /\
              (In z (map d_id R) \/
               (In z (sids (push_preds (fp (d_id cur)) (S d) (d_id cur :: V) rest)) /\
                ~ In z (d_id cur :: V)))).
    { destruct (fp (d_id cur)) as [|p0 ps] eqn:Efp; [congruence|].
      assert (Hp0 : In p0 (fp (d_id cur))) by (rewrite Efp; left; reflexivity).
      assert (He : E (d_id cur) (d_id p0)) by (apply E_In; exact Hp0).
      assert (Hneq : d_id p0 <> d_id cur).
      { intro Hc. apply Hrank in Hp0. rewrite Hc in Hp0. lia. }
      destruct (in_dec Nat.eq_dec (d_id p0) V) as [Hv | Hv].
      - destruct (iF _ _ _ I _ Hv) as (z & Hr & [H | (H & Hn)]).
        + exists z. split; [eapply reach_trans; [apply E_reach; exact He | exact Hr] | auto].
        + assert (Hz : z <> d_id cur).
          { intro Hc. subst z. apply rank_reach in Hr. apply rank_E in He. lia. }
          exists z. split; [eapply reach_trans; [apply E_reach; exact He | exact Hr]|].
          right. split.
          * simpl in H. destruct H as [H | H]; [congruence|]. now apply Hsub.
          * intros [Hc | Hc]; [congruence | contradiction].
      - exists (d_id p0). split; [apply E_reach; exact He|]. right.
        assert (Hn : ~ In (d_id p0) (d_id cur :: V)) by (intros [Hc | Hc]; [congruence | contradiction]).
        split; auto. apply Hnew; [left; reflexivity | exact Hn]. }
    constructor.
    - intros x k H. apply push_preds_In in H. destruct H as [H | (Hp & -> & Hn)].
      + apply (iA _ _ _ I). right. exact H.
      + split.
        * econstructor; [exact Hpath | apply E_In; exact Hp].
        * intro H0. specialize (Hlim H0). lia.
    - intros v [<- | H]; [exists d; exact Hpath | now apply (iB _ _ _ I)].
    - intros r Hr. destruct (iC _ _ _ I r Hr) as (H1 & H2 & H3). split; [right; exact H1 | auto].
    - intros Hl v [<- | Hin] Hf; [congruence | now apply (iD _ _ _ I Hl)].
    - intros Hl v p [<- | Hin] Hp.
      + destruct (in_dec Nat.eq_dec (d_id p) (d_id cur :: V)) as [H | H]; [left; exact H|].
        right. apply Hnew; auto.
      + destruct (iE _ _ _ I Hl v p Hin Hp) as [H | H]; [left; right; exact H|].
        simpl in H. destruct H as [H | H]; [left; left; exact H | right; apply Hsub; exact H].
    - intros v [<- | Hin]; [exact Hwit|].
      destruct (iF _ _ _ I v Hin) as (z & Hr & [H | (H & Hn)]).
      + exists z. auto.
      + destruct (Nat.eq_dec z (d_id cur)) as [-> | Hne2].
        * destruct Hwit as (z' & Hr' & Hw). exists z'. split; [eapply reach_trans; eauto | exact Hw].
        * exists z. split; auto. right. split.
          -- simpl in H. destruct H as [H | H]; [congruence | apply Hsub; exact H].
          -- intros [Hc | Hc]; [congruence | contradiction].
    - destruct (iG _ _ _ I) as [H | H]; [left; right; exact H|].
      simpl in H. destruct H as [H | H]; [left; left; exact H | right; apply Hsub; exact H].
  Qed.

  Lemma dfs_inv fuel : forall st V R roots,
    Inv st V R -> dfs fuel fp limit st V R = Some roots -> exists V', Inv [] V' roots.
  Proof.
    induction fuel as [|fuel IH]; intros st V R roots I H; cbn [dfs] in H; [discriminate|].
    destruct st as [|[cur d] rest].
    - injection H as <-. exists V. exact I.
    - destruct (mem (d_id cur) V) eqn:Em.
      + apply mem_In in Em. eapply IH; [|exact H]. eapply inv_pop_visited; eauto.
      + apply mem_not_In in Em.
        destruct ((0 <? limit)%Z && (Z.of_nat d =? limit)%Z)%bool eqn:El.
        * apply andb_true_iff in El. destruct El as (E1 & E2).
          apply Z.ltb_lt in E1. apply Z.eqb_eq in E2.
          eapply IH; [|exact H]. apply (inv_root cur d); auto.
        * assert (Hnl : ~ ((0 < limit)%Z /\ Z.of_nat d = limit)).
          { intros (E1 & E2). apply Z.ltb_lt in E1. apply Z.eqb_eq in E2.
            rewrite E1, E2 in El. discriminate. }
          destruct (fp (d_id cur)) as [|p0 ps] eqn:Efp.
          -- eapply IH; [|exact H]. apply (inv_root cur d); auto.
          -- eapply IH; [|exact H]. rewrite <- Efp. apply (inv_push cur d); auto. congruence.
  Qed.

  (* ---- the direct predecessors of the given node are always covered (any Depth) ---- *)
  Definition Jdirect (st : list frame) (V : list nat) : Prop :=
    forall p, In p (fp (d_id node)) -> In (d_id p) V \/ In (d_id p) (sids st).

  Lemma dfs_inv2 fuel : forall st V R roots,
    Inv st V R -> Jdirect st V -> dfs fuel fp limit st V R = Some roots ->
    exists V', Inv [] V' roots /\ Jdirect [] V'.
  Proof.
    induction fuel as [|fuel IH]; intros st V R roots I J H; cbn [dfs] in H; [discriminate|].
    destruct st as [|[cur d] rest].
    - injection H as <-. exists V. split; assumption.
    - assert (Jpop : forall V', (forall v, In v V -> In v V') -> In (d_id cur) V' -> Jdirect rest V').
      { intros V' Hsub Hc p Hp. destruct (J p Hp) as [Hv | Hs]; [left; auto|].
        simpl in Hs. destruct Hs as [Hs | Hs]; [left; now rewrite <- Hs | right; exact Hs]. }
      destruct (mem (d_id cur) V) eqn:Em.
      + apply mem_In in Em. eapply IH; [| |exact H].
        * eapply inv_pop_visited; eauto.
        * apply Jpop; auto.
      + apply mem_not_In in Em.
        assert (Jroot : Jdirect rest (d_id cur :: V)).
        { apply Jpop; [intros v Hv; right; exact Hv | left; reflexivity]. }
        destruct ((0 <? limit)%Z && (Z.of_nat d =? limit)%Z)%bool eqn:El.
        * apply andb_true_iff in El. destruct El as (E1 & E2).
          apply Z.ltb_lt in E1. apply Z.eqb_eq in E2.
          eapply IH; [| |exact H]; [apply (inv_root cur d); auto | exact Jroot].
        * assert (Hnl : ~ ((0 < limit)%Z /\ Z.of_nat d = limit)).
          { intros (E1 & E2). apply Z.ltb_lt in E1. apply Z.eqb_eq in E2.
            rewrite E1, E2 in El. discriminate. }
          destruct (fp (d_id cur)) as [|p0 ps] eqn:Efp.
          -- eapply IH; [| |exact H]; [apply (inv_root cur d); auto | exact Jroot].
          -- eapply IH; [| |exact H].
             ++ rewrite <- Efp. apply (inv_push cur d); auto. congruence.
             ++ intros p Hp. destruct (Jroot p Hp) as [Hv | Hs]; [left; exact Hv|].
                right. apply sids_In in Hs. destruct Hs as (x & k & Hx & <-).
                apply sids_In. exists x, k. split; auto. apply push_preds_In. left. exact Hx.
  Qed.

  Lemma roots_cover_direct_preds fuel roots :
    find_roots_fp fuel fp limit node = Some roots ->
    forall p, In p (fp (d_id node)) -> exists r, In r roots /\ reach (d_id p) (d_id r).
  Proof.
    unfold find_roots_fp. destruct fuel as [|fuel]; [discriminate|]. cbn [dfs]. simpl mem.
    assert (E0 : ((0 <? limit)%Z && (Z.of_nat 0 =? limit)%Z)%bool = false).
    { destruct (0 <? limit)%Z eqn:E1; auto. apply Z.ltb_lt in E1.
      destruct limit; simpl; auto; lia. }
    rewrite E0. intros H p Hp.
    destruct (fp (d_id node)) as [|p0 ps] eqn:Efp; [contradiction|].
    assert (I1 : Inv (push_preds (p0 :: ps) 1 [d_id node] []) [d_id node] []).
    { rewrite <- Efp. apply (inv_push node 0 [] [] []).
      - apply inv_init.
      - intros [].
      - intros (E1 & E2). apply Z.ltb_lt in E1. simpl in E2. rewrite <- E2 in E1. discriminate.
      - rewrite Efp. discriminate. }
    assert (J1 : Jdirect (push_preds (p0 :: ps) 1 [d_id node] []) [d_id node]).
    { intros q Hq. rewrite Efp in Hq.
      destruct (in_dec Nat.eq_dec (d_id q) [d_id node]) as [Hin | Hn]; [left; exact Hin|].
      right. apply sids_In. exists q, 1. split; auto. apply push_preds_In. right. auto. }
    destruct (dfs_inv2 fuel _ _ _ _ I1 J1 H) as (V' & I & J).
    assert (Hp' : In p (fp (d_id node))) by (rewrite Efp; exact Hp).
    destruct (J p Hp') as [Hv | []].
    destruct (iF _ _ _ I _ Hv) as (z & Hr & [Hz | ([] & _)]).
    apply in_map_iff in Hz. destruct Hz as (r & <- & Hin). exists r. auto.
  Qed.

  (* everything the loop can return *)
  Lemma find_roots_inv fuel roots :
    find_roots_fp fuel fp limit node = Some roots -> exists V, Inv [] V roots.
  Proof. unfold find_roots_fp. apply dfs_inv. apply inv_init. Qed.

  Lemma inv_final_closed V roots :
    Inv [] V roots -> (limit <= 0)%Z -> forall a, reach (d_id node) a -> In a V.
  Proof.
    intros I Hl a (k & Hp). remember (d_id node) as n0 eqn:En.
    induction Hp as [x | k x y z Hp IHp He]; subst.
    - destruct (iG _ _ _ I) as [H | []]. exact H.
    - unfold E in He. apply in_map_iff in He. destruct He as (p & <- & Hin).
      destruct (iE _ _ _ I Hl y p (IHp eq_refl) Hin) as [H | []]. exact H.
  Qed.

  (* Depth <= 0: the roots are exactly the tops of the upward closure and every
     member of the closure lies under a root *)
  Lemma roots_unlimited fuel roots :
    (limit <= 0)%Z ->
    find_roots_fp fuel fp limit node = Some roots ->
    (forall r, In r roots -> reach (d_id node) (d_id r) /\ fp (d_id r) = []) /\
    (forall a, reach (d_id node) a -> fp a = [] -> In a (map d_id roots)) /\
    (forall a, reach (d_id node) a -> exists r, In r roots /\ reach a (d_id r)).
  Proof.
    intros Hl H. apply find_roots_inv in H. destruct H as (V & I). repeat split.
    - destruct (iC _ _ _ I r H) as (_ & (k & Hp & _) & _). exists k. exact Hp.
    - destruct (iC _ _ _ I r H) as (_ & _ & [Hf | (Hc & _)]); [exact Hf | lia].
    - intros a Ha Hf. apply (iD _ _ _ I Hl); auto. eapply inv_final_closed; eauto.
    - intros a Ha. assert (Hv : In a V) by (eapply inv_final_closed; eauto).
      destruct (iF _ _ _ I a Hv) as (z & Hr & [H | ([] & _)]).
      apply in_map_iff in H. destruct H as (r & <- & Hin). exists r. auto.
  Qed.

  (* Depth = d > 0: every root is an ancestor at most d steps away (and is a top
     or exactly d steps away); the given node lies under some root *)
  Lemma roots_depth fuel roots :
    (0 < limit)%Z ->
    find_roots_fp fuel fp limit node = Some roots ->
    (forall r, In r roots ->
       (exists k, Z.of_nat k <= limit /\ path k (d_id node) (d_id r))%Z /\
       (fp (d_id r) = [] \/ path (Z.to_nat limit) (d_id node) (d_id r))) /\
    (exists r, In r roots /\ reach (d_id node) (d_id r)).
  Proof.
    intros Hl H. apply find_roots_inv in H. destruct H as (V & I). split.
    - intros r Hr. destruct (iC _ _ _ I r Hr) as (_ & (k & Hp & Hk) & Hw). split.
      + exists k. auto.
      + destruct Hw as [Hf | (_ & Hp')]; auto.
    - destruct (iG _ _ _ I) as [Hv | []].
      destruct (iF _ _ _ I _ Hv) as (z & Hr & [H | ([] & _)]).
      apply in_map_iff in H. destruct H as (r & <- & Hin). exists r. auto.
  Qed.

  (* whatever the depth: the given node lies under some root and every root is an ancestor *)
  Lemma roots_cover_node fuel roots :
    find_roots_fp fuel fp limit node = Some roots ->
    (exists r, In r roots /\ reach (d_id node) (d_id r)) /\
    (forall r, In r roots -> reach (d_id node) (d_id r)).
  Proof.
    intros H. apply find_roots_inv in H. destruct H as (V & I). split.
    - destruct (iG _ _ _ I) as [Hv | []].
      destruct (iF _ _ _ I _ Hv) as (z & Hr & [H | ([] & _)]).
      apply in_map_iff in H. destruct H as (r & <- & Hin). exists r. auto.
    - intros r Hr. destruct (iC _ _ _ I r Hr) as (_ & (k & Hp & _) & _). exists k. exact Hp.
  Qed.

  (* ---------------------------------------------------------------- termination *)

  Variable univ : list nat.            (* the (finitely many) nodes of the source *)
  Hypothesis univ_closed : forall x p, In x univ -> In p (fp x) -> In (d_id p) univ.

  Definition weight (V : list nat) : nat :=
    list_sum (map (fun u => if mem u V then 0 else length (fp u)) univ).

  Lemma mem_cons u x V : mem u (x :: V) = (Nat.eqb u x || mem u V)%bool.
  Proof. reflexivity. Qed.

  Lemma list_sum_cons a l : list_sum (a :: l) = a + list_sum l.
  Proof. reflexivity. Qed.

  Lemma weight_mono_gen (U : list nat) x V :
    list_sum (map (fun u => if mem u (x :: V) then 0 else length (fp u)) U) <=
    list_sum (map (fun u => if mem u V then 0 else length (fp u)) U).
  Proof.
    induction U as [|u U IH]; [simpl; lia|].
    rewrite !map_cons, !list_sum_cons, mem_cons.
    destruct (Nat.eqb u x); destruct (mem u V); cbn [orb]; lia.
  Qed.

  Lemma weight_drop_gen (U : list nat) x V :
    In x U -> ~ In x V ->
    list_sum (map (fun u => if mem u (x :: V) then 0 else length (fp u)) U) + length (fp x) <=
    list_sum (map (fun u => if mem u V then 0 else length (fp u)) U).
  Proof.
    intros Hin Hnv. induction U as [|u U IH]; [contradiction|].
    rewrite !map_cons, !list_sum_cons, mem_cons.
    destruct Hin as [-> | Hin].
    - rewrite Nat.eqb_refl. apply mem_not_In in Hnv. rewrite Hnv.
      pose proof (weight_mono_gen U x V). cbn [orb]. lia.
    - specialize (IH Hin).
      destruct (Nat.eqb u x); destruct (mem u V); cbn [orb]; lia.
  Qed.

  Lemma dfs_terminates_gen fuel : forall st V R,
    (forall z, In z (sids st) -> In z univ) ->
    length st + weight V < fuel ->
    dfs fuel fp limit st V R <> None.
  Proof.
    induction fuel as [|fuel IH]; intros st V R Hst Hlt; [lia|].
    cbn [dfs]. destruct st as [|[cur d] rest]; [discriminate|].
    assert (Hcur : In (d_id cur) univ) by (apply Hst; simpl; auto).
    assert (Hrest : forall z, In z (sids rest) -> In z univ) by (intros z Hz; apply Hst; simpl; auto).
    simpl in Hlt.
    destruct (mem (d_id cur) V) eqn:Em.
    - apply IH; auto. lia.
    - apply mem_not_In in Em.
      pose proof (weight_mono_gen univ (d_id cur) V) as Hm. fold (weight (d_id cur :: V)) in Hm.
      fold (weight V) in Hm.
      destruct ((0 <? limit)%Z && (Z.of_nat d =? limit)%Z)%bool.
      + apply IH; auto. lia.
      + destruct (fp (d_id cur)) as [|p0 ps] eqn:Efp.
        * apply IH; auto. lia.
        * rewrite <- Efp. apply IH.
          -- intros z Hz. apply sids_In in Hz. destruct Hz as (x & k & Hx & <-).
             apply push_preds_In in Hx. destruct Hx as [Hx | (Hx & _)].
             ++ apply Hrest. apply sids_In. eauto.
             ++ eapply univ_closed; eauto.
          -- pose proof (push_preds_length (fp (d_id cur)) (S d) (d_id cur :: V) rest) as Hlen.
             pose proof (weight_drop_gen univ (d_id cur) V Hcur Em) as Hd.
             fold (weight (d_id cur :: V)) in Hd. fold (weight V) in Hd. lia.
  Qed.

  Lemma dfs_terminates fuel :
    In (d_id node) univ ->
    S (list_sum (map (fun u => length (fp u)) univ)) < fuel ->
    exists roots, find_roots_fp fuel fp limit node = Some roots.
  Proof.
    intros Hn Hf. unfold find_roots_fp.
    destruct (dfs fuel fp limit [(node, 0)] [] []) as [roots|] eqn:Ed; [eauto|].
    exfalso. revert Ed. apply dfs_terminates_gen.
    - intros z [<- | []]. exact Hn.
    - unfold weight. simpl. lia.
  Qed.
End DFS.

(* ------------------------------------------------------------------ the filters *)

(* the property's "artifact type of that manifest" *)
Definition effective_type (s : source) (id : nat) : str :=
  match s_kind s id with
  | KImage => if is_empty (s_mat s id) then s_mcfg s id else s_mat s id
  | KArtifact | KIndex => s_mat s id
  | _ => []
  end.

(* the annotations of that manifest (non-manifests have none) *)
Definition manifest_annots (s : source) (id : nat) : annots :=
  if ann_fetch_kind (s_kind s id) then fetch_annotations s id else [].

(* does node id satisfy filter f, judged on the manifest content only *)
Definition keep_spec (s : source) (f : filter) (id : nat) : bool :=
  match f with
  | FArt None => true
  | FArt (Some re) => re (effective_type s id)
  | FAnn key re => match lookup key (manifest_annots s id) with
                   | None => false
                   | Some v => match re with None => true | Some g => g v end
                   end
  end.

(* a served descriptor does not contradict the manifest it describes: fields
   may be missing, but what is present is the manifest's *)
Definition desc_consistent (s : source) (p : desc) : Prop :=
  (d_at p = [] \/ d_at p = effective_type s (d_id p)) /\
  match d_ann p with
  | None => True
  | Some m => forall k, lookup k m = lookup k (manifest_annots s (d_id p))
  end.

(* the case lists re-read from extendedcopy.go are the ones the proofs rely on *)
Lemma at_fetch_kind_table k :
  at_fetch_kind k = match k with KArtifact | KImage | KIndex => true | _ => false end.
Proof. destruct k; vm_compute; reflexivity. Qed.

Lemma ann_fetch_kind_table k :
  ann_fetch_kind k = match k with KOther => false | _ => true end.
Proof. destruct k; vm_compute; reflexivity. Qed.

Lemma fetch_cases_table k :
  in_cases fetchArtifactType_cases k = match k with KArtifact | KImage | KIndex => true | _ => false end.
Proof. destruct k; vm_compute; reflexivity. Qed.

(* what the rules re-read from fetchArtifactType amount to (breaks when the source changes) *)
Lemma fetch_artifact_type_table s id :
  fetch_artifact_type s id =
  match s_kind s id with
  | KArtifact => s_mat s id
  | KImage => if is_empty (s_mat s id) then s_mcfg s id else s_mat s id
  | KIndex => s_mat s id
  | _ => []
  end.
Proof.
  destruct s as [sp sk sm sc sa sl]. unfold fetch_artifact_type. cbn [s_kind s_mat s_mcfg].
  destruct (sk id); vm_compute; try reflexivity.
  destruct (sm id); reflexivity.
Qed.

Lemma is_empty_true (x : str) : is_empty x = true <-> x = [].
Proof. destruct x; simpl; split; congruence. Qed.

Lemma fill_at_id s p : d_id (fill_at s p) = d_id p.
Proof.
  unfold fill_at, fill_at_gen. destruct (is_empty (d_at p)); auto.
  destruct (at_fetch_kind _); auto.
Qed.

Lemma fill_ann_id s p : d_id (fill_ann s p) = d_id p.
Proof.
  unfold fill_ann. destruct (d_ann p); auto. destruct (ann_fetch_kind _); auto.
Qed.

Lemma fill_at_type s p :
  desc_consistent s p -> d_at (fill_at s p) = effective_type s (d_id p).
Proof.
  intros ([Ha | Ha] & _); unfold fill_at, fill_at_gen.
  - rewrite Ha. simpl. unfold effective_type.
    rewrite at_fetch_kind_table, fetch_artifact_type_table.
    destruct (s_kind s (d_id p)); simpl; auto.
  - destruct (is_empty (d_at p)) eqn:Ee; auto.
    apply is_empty_true in Ee. rewrite Ee in *.
    unfold effective_type in *.
    rewrite at_fetch_kind_table, fetch_artifact_type_table.
    destruct (s_kind s (d_id p)); simpl; auto.
Qed.

Lemma fill_at_consistent s p : desc_consistent s p -> desc_consistent s (fill_at s p).
Proof.
  intro H. split.
  - right. rewrite fill_at_id. now apply fill_at_type.
  - destruct H as (_ & H). unfold fill_at, fill_at_gen.
    destruct (is_empty (d_at p)); auto. destruct (at_fetch_kind _); auto.
Qed.

Lemma fill_ann_consistent s p : desc_consistent s p -> desc_consistent s (fill_ann s p).
Proof.
  intros (Ha & Hn). unfold fill_ann. destruct (d_ann p) eqn:Ed.
  - split; auto. rewrite Ed. exact Hn.
  - destruct (ann_fetch_kind (s_kind s (d_id p))) eqn:Ek.
    + split; simpl; auto. intro k. unfold manifest_annots. now rewrite Ek.
    + split; auto. now rewrite Ed.
Qed.

Lemma keep_ann_spec s key re p :
  desc_consistent s p -> keep_ann key re (fill_ann s p) = keep_spec s (FAnn key re) (d_id p).
Proof.
  intros (_ & Hn). unfold keep_ann, fill_ann, keep_spec.
  destruct (d_ann p) eqn:Ed.
  - rewrite Ed. now rewrite Hn.
  - unfold manifest_annots. destruct (ann_fetch_kind (s_kind s (d_id p))); simpl.
    + reflexivity.
    + now rewrite Ed.
Qed.

Lemma apply_filter_spec s f ps :
  Forall (desc_consistent s) ps ->
  map d_id (apply_filter s f ps) = List.filter (keep_spec s f) (map d_id ps) /\
  Forall (desc_consistent s) (apply_filter s f ps).
Proof.
  intro H. destruct f as [[re|] | key re]; unfold apply_filter, apply_filter_gen.
  - induction H as [|p ps Hp Hps (IH1 & IH2)]; [split; constructor|].
    rewrite !map_cons. cbn [List.filter].
    change (fill_at_gen at_fetch_kind fetch_artifact_type s p) with (fill_at s p).
    rewrite (fill_at_type s p Hp).
    change (keep_spec s (FArt (Some re)) (d_id p)) with (re (effective_type s (d_id p))).
    destruct (re (effective_type s (d_id p))).
    + rewrite map_cons, fill_at_id. split; [f_equal; exact IH1 | constructor; auto using fill_at_consistent].
    + split; auto.
  - split; auto. cbn [keep_spec]. induction (map d_id ps) as [|a l IHl]; simpl; congruence.
  - induction H as [|p ps Hp Hps (IH1 & IH2)]; [split; constructor|].
    rewrite !map_cons. cbn [List.filter].
    rewrite (keep_ann_spec s key re p Hp).
    destruct (keep_spec s (FAnn key re) (d_id p)).
    + rewrite map_cons, fill_ann_id. split; [f_equal; exact IH1 | constructor; auto using fill_ann_consistent].
    + split; auto.
Qed.

Lemma filter_filter {A} (f g : A -> bool) l :
  List.filter g (List.filter f l) = List.filter (fun x => f x && g x)%bool l.
Proof.
  induction l as [|a l IH]; simpl; auto.
  destruct (f a); simpl; [destruct (g a); simpl; congruence | exact IH].
Qed.

(* a descriptor served by a ReferrerLister (Referrers API response, referrers
   index of the tag schema) is complete: artifactType is the manifest's effective
   type and the annotations are the manifest's *)
Definition desc_complete (s : source) (p : desc) : Prop :=
  d_at p = effective_type s (d_id p) /\
  forall k, lookup k (match d_ann p with Some m => m | None => [] end) =
            lookup k (manifest_annots s (d_id p)).

Definition served_ok (s : source) (p : desc) : Prop :=
  desc_consistent s p /\ (s_lister s = true -> desc_complete s p).

Lemma keep_ann_complete s key re p :
  desc_complete s p -> keep_ann key re p = keep_spec s (FAnn key re) (d_id p).
Proof.
  intros (_ & Hn). unfold keep_ann, keep_spec. rewrite <- Hn.
  destruct (d_ann p); reflexivity.
Qed.

Lemma filter_ext_in_map (f : desc -> bool) (g : nat -> bool) ps :
  Forall (fun p => f p = g (d_id p)) ps ->
  map d_id (List.filter f ps) = List.filter g (map d_id ps).
Proof.
  induction 1 as [|p ps Hp _ IH]; simpl; auto.
  rewrite Hp. destruct (g (d_id p)); simpl; congruence.
Qed.

Lemma filter_Forall {A} (P : A -> Prop) f l : Forall P l -> Forall P (List.filter f l).
Proof.
  induction 1 as [|a l Ha _ IH]; simpl; auto. destruct (f a); auto.
Qed.

Lemma filter_true {A} (l : list A) : List.filter (fun _ => true) l = l.
Proof. induction l; simpl; congruence. Qed.

Lemma apply_lister_spec s f ps :
  Forall (desc_complete s) ps ->
  map d_id (apply_lister f ps) = List.filter (keep_spec s f) (map d_id ps).
Proof.
  intro H. destruct f as [[re|] | key re]; simpl.
  - apply filter_ext_in_map. eapply Forall_impl; [|exact H].
    intros p (Ha & _). now rewrite Ha.
  - now rewrite filter_true.
  - apply filter_ext_in_map. eapply Forall_impl; [|exact H].
    intros p Hp. now apply keep_ann_complete.
Qed.

Lemma apply_lister_Forall (P : desc -> Prop) f ps : Forall P ps -> Forall P (apply_lister f ps).
Proof. destruct f as [[re|] | key re]; simpl; auto using filter_Forall. Qed.

Definition acc_ok (s : source) (acc : bool * list desc) : Prop :=
  Forall (desc_consistent s) (snd acc) /\
  (fst acc = true -> s_lister s = true -> Forall (desc_complete s) (snd acc)).

Lemma step_spec s f acc :
  acc_ok s acc ->
  map d_id (snd (step_gen fill_at s acc f)) = List.filter (keep_spec s f) (map d_id (snd acc)) /\
  acc_ok s (step_gen fill_at s acc f).
Proof.
  intros (Hc & Hl). unfold step_gen. destruct (is_noop f) eqn:En.
  - destruct f as [[re|] | key re]; try discriminate. simpl. rewrite filter_true.
    split; [reflexivity | split; assumption].
  - destruct (fst acc && s_lister s)%bool eqn:Eb.
    + apply andb_true_iff in Eb. destruct Eb as (E1 & E2). simpl. split.
      * apply apply_lister_spec. auto.
      * split; simpl; [apply apply_lister_Forall; exact Hc | discriminate].
    + simpl. destruct (apply_filter_spec s f (snd acc) Hc) as (H1 & H2).
      split; [exact H1 | split; simpl; [exact H2 | discriminate]].
Qed.

Lemma find_preds_fold s fs : forall acc,
  acc_ok s acc ->
  map d_id (snd (fold_left (step_gen fill_at s) fs acc)) =
  List.filter (fun id => forallb (fun f => keep_spec s f id) fs) (map d_id (snd acc)).
Proof.
  induction fs as [|f fs IH]; intros acc H; simpl.
  - now rewrite filter_true.
  - destruct (step_spec s f acc H) as (H1 & H2).
    rewrite (IH _ H2), H1. apply filter_filter.
Qed.

(* no filter installed: opts.FindPredecessors is src.Predecessors *)
Lemma find_preds_nil s x : find_preds s [] x = s_preds s x.
Proof. reflexivity. Qed.

(* opts.FindPredecessors after any stack of filters follows exactly the
   predecessors whose manifest satisfies every filter (same order, same multiplicity) *)
Lemma find_preds_exact s fs x :
  Forall (served_ok s) (s_preds s x) ->
  map d_id (find_preds s fs x) =
  List.filter (fun id => forallb (fun f => keep_spec s f id) fs) (map d_id (s_preds s x)).
Proof.
  intro H. unfold find_preds, find_preds_gen.
  apply (find_preds_fold s fs (true, s_preds s x)). split; simpl.
  - eapply Forall_impl; [|exact H]. intros p (Hp & _). exact Hp.
  - intros _ Hl. eapply Forall_impl; [|exact H]. intros p (_ & Hp). auto.
Qed.

Lemma find_preds_followed_iff s fs x y :
  Forall (served_ok s) (s_preds s x) ->
  (In y (map d_id (find_preds s fs x)) <->
   In y (map d_id (s_preds s x)) /\ forall f, In f fs -> keep_spec s f y = true).
Proof.
  intro H. rewrite (find_preds_exact s fs x H), filter_In, forallb_forall. tauto.
Qed.

(* ids only shrink (no consistency needed): used to inherit acyclicity *)
Lemma apply_filter_gen_ids fill s f ps p :
  (forall q, d_id (fill s q) = d_id q) ->
  In p (apply_filter_gen fill s f ps) -> In (d_id p) (map d_id ps).
Proof.
  intros Hid. destruct f as [[re|] | key re]; simpl.
  - rewrite filter_In, in_map_iff. intros ((q & <- & Hq) & _). rewrite Hid. now apply in_map.
  - now apply in_map.
  - rewrite filter_In, in_map_iff. intros ((q & <- & Hq) & _). rewrite fill_ann_id. now apply in_map.
Qed.

Lemma apply_lister_incl f ps p : In p (apply_lister f ps) -> In p ps.
Proof. destruct f as [[re|] | key re]; simpl; auto; rewrite filter_In; tauto. Qed.

Lemma step_gen_ids fill s f acc p :
  (forall q, d_id (fill s q) = d_id q) ->
  In p (snd (step_gen fill s acc f)) -> In (d_id p) (map d_id (snd acc)).
Proof.
  intro Hid. unfold step_gen. destruct (is_noop f); [apply in_map|].
  destruct (fst acc && s_lister s)%bool; simpl.
  - intro H. apply in_map. eapply apply_lister_incl; eauto.
  - now apply apply_filter_gen_ids.
Qed.

Lemma find_preds_gen_ids fill s fs x p :
  (forall q, d_id (fill s q) = d_id q) ->
  In p (find_preds_gen fill s fs x) -> In (d_id p) (map d_id (s_preds s x)).
Proof.
  intro Hid. unfold find_preds_gen.
  change (s_preds s x) with (snd (true, s_preds s x)) at 2.
  generalize (true, s_preds s x) as acc.
  induction fs as [|f fs IH]; intros acc; simpl; [apply in_map|].
  intro H. apply IH in H. apply in_map_iff in H. destruct H as (q & E & Hq).
  rewrite <- E. eapply step_gen_ids; eauto.
Qed.

Lemma find_preds_ids s fs x p :
  In p (find_preds s fs x) -> In (d_id p) (map d_id (s_preds s x)).
Proof. apply find_preds_gen_ids. apply fill_at_id. Qed.

Lemma find_preds_rank s fs (rank : nat -> nat) :
  (forall x p, In p (s_preds s x) -> rank x < rank (d_id p)) ->
  forall x p, In p (find_preds s fs x) -> rank x < rank (d_id p).
Proof.
  intros H x p Hp. apply find_preds_ids in Hp. apply in_map_iff in Hp.
  destruct Hp as (q & <- & Hq). now apply H.
Qed.

Lemma filter_len {A} (f : A -> bool) l : length (List.filter f l) <= length l.
Proof. induction l as [|a l IH]; simpl; [lia|]. destruct (f a); simpl; lia. Qed.

Lemma step_gen_length fill s f acc :
  length (snd (step_gen fill s acc f)) <= length (snd acc).
Proof.
  unfold step_gen. destruct (is_noop f); [lia|].
  destruct (fst acc && s_lister s)%bool; simpl.
  - destruct f as [[re|] | key re]; simpl; auto using filter_len.
  - destruct f as [[re|] | key re]; simpl; auto;
      (etransitivity; [apply filter_len | rewrite map_length; lia]).
Qed.

Lemma find_preds_length s fs x : length (find_preds s fs x) <= length (s_preds s x).
Proof.
  unfold find_preds, find_preds_gen.
  change (s_preds s x) with (snd (true, s_preds s x)) at 2.
  generalize (true, s_preds s x) as acc.
  induction fs as [|f fs IH]; intros acc; simpl; [lia|].
  etransitivity; [apply IH | apply step_gen_length].
Qed.

(* ------------------------------------------------------------------ the pinned (pre-fix) filter *)

Definition f9_source : source :=
  mkSource (fun x => match x with 0 => [mkDesc 1 [] None] | _ => [] end)
           (fun x => match x with 1 => KImage | _ => KOther end)
           (fun x => match x with 1 => b "application/vnd.example.sbom" | _ => [] end)
           (fun x => match x with 1 => b "application/vnd.oci.empty.v1+json" | _ => [] end)
           (fun _ => None) false.

Definition f9_regex : str -> bool := str_eqb (b "application/vnd.example.sbom").

Lemma find_preds_prefix_refuted :
  exists s re x,
    Forall (served_ok s) (s_preds s x) /\
    map d_id (find_preds_prefix s [FArt (Some re)] x) <>
    List.filter (fun id => re (effective_type s id)) (map d_id (s_preds s x)).
Proof.
  exists f9_source, f9_regex, 0. split.
  - constructor; [|constructor]. split; [split; simpl; auto | discriminate].
  - vm_compute. discriminate.
Qed.

(* the same manifest behind a descriptor that carries artifactType was followed:
   the pre-fix outcome depended on where the descriptor came from *)
Lemma find_preds_prefix_source_dependent :
  let s1 := f9_source in
  let s2 := mkSource (fun x => match x with
                               | 0 => [mkDesc 1 (b "application/vnd.example.sbom") None]
                               | _ => [] end)
                     (s_kind s1) (s_mat s1) (s_mcfg s1) (s_mann s1) false in
  map d_id (find_preds_prefix s1 [FArt (Some f9_regex)] 0) = [] /\
  map d_id (find_preds_prefix s2 [FArt (Some f9_regex)] 0) = [1] /\
  map d_id (find_preds s1 [FArt (Some f9_regex)] 0) = [1] /\
  map d_id (find_preds s2 [FArt (Some f9_regex)] 0) = [1].
Proof. vm_compute. repeat split. Qed.

(* ------------------------------------------------------------------ end to end *)

Section Closure.
  Variable s : source.
  Variable fs : list filter.
  Variable limit : Z.
  Variable node : desc.
  Variable succ : nat -> list nat.          (* links of a node (content.Successors) *)
  (* the source's predecessor relation is the inverse of the link relation *)
  Hypothesis pred_is_inverse_link : forall x p, In p (s_preds s x) -> In x (succ (d_id p)).

  Inductive down : nat -> nat -> Prop :=     (* reachable through links *)
  | down0 x : down x x
  | downS x y z : In y (succ x) -> down y z -> down x z.

  Lemma down_trans x y z : down x y -> down y z -> down x z.
  Proof. intros H1 H2. induction H1; auto. econstructor; eauto. Qed.

  Lemma reach_down x y : reach (find_preds s fs) x y -> down y x.
  Proof.
    intros (k & H). induction H as [x | k x y z Hp IH He]; [constructor|].
    unfold E in He. apply in_map_iff in He. destruct He as (p & <- & Hin).
    apply find_preds_ids in Hin. apply in_map_iff in Hin. destruct Hin as (q & Eq & Hq).
    apply pred_is_inverse_link in Hq. rewrite Eq in Hq.
    econstructor; [exact Hq | exact IH].
  Qed.

  Variable held : nat -> Prop.   (* the destination holds the node, byte-identical *)

  Lemma extended_closure_gen (rank : nat -> nat) fuel roots :
    (forall x p, In p (s_preds s x) -> rank x < rank (d_id p)) ->
    (limit <= 0)%Z ->
    find_roots fuel s fs limit node = Some roots ->
    (* what C01 proves about the copy phase: each root's graph arrives *)
    (forall r, In r roots -> forall x, down (d_id r) x -> held x) ->
    forall a, reach (find_preds s fs) (d_id node) a -> forall x, down a x -> held x.
  Proof.
    intros Hrank Hl Hf Hcopy a Ha x Hx.
    destruct (roots_unlimited (find_preds s fs) limit node rank
                (find_preds_rank s fs rank Hrank) fuel roots Hl Hf) as (_ & _ & H3).
    destruct (H3 a Ha) as (r & Hr & Hra).
    apply (Hcopy r Hr). eapply down_trans; [apply reach_down; exact Hra | exact Hx].
  Qed.

  Lemma depth_own_graph (rank : nat -> nat) fuel roots :
    (forall x p, In p (s_preds s x) -> rank x < rank (d_id p)) ->
    find_roots fuel s fs limit node = Some roots ->
    (forall r, In r roots -> forall x, down (d_id r) x -> held x) ->
    forall x, down (d_id node) x -> held x.
  Proof.
    intros Hrank Hf Hcopy x Hx.
    destruct (roots_cover_node (find_preds s fs) limit node rank
                (find_preds_rank s fs rank Hrank) fuel roots Hf) as ((r & Hr & Hnr) & _).
    apply (Hcopy r Hr). eapply down_trans; [apply reach_down; exact Hnr | exact Hx].
  Qed.
End Closure.

(* ------------------------------------------------------------------ ExtendedCopy: the tag *)

Lemma extended_copy_tags resolve ok tag_ok src_ref dst_ref tags node tags' :
  extended_copy resolve ok tag_ok src_ref dst_ref tags = Some (node, tags') ->
  resolve src_ref = Some node /\ ok node = true /\
  resolve_tag (if is_empty dst_ref then src_ref else dst_ref) tags' = Some (d_id node).
Proof.
  unfold extended_copy. destruct (resolve src_ref) as [n|]; [|discriminate].
  destruct (ok n) eqn:Eo; [|discriminate]. destruct tag_ok; [|discriminate].
  intro H. injection H as <- <-. repeat split; auto.
  simpl. now rewrite str_eqb_refl.
Qed.

(* ------------------------------------------------------------------ statements about find_roots *)

Definition acyclic_source (s : source) (rank : nat -> nat) : Prop :=
  forall x p, In p (s_preds s x) -> rank x < rank (d_id p).

(* followed-predecessor relation of a source under a filter stack *)
Definition anc (s : source) (fs : list filter) : nat -> nat -> Prop := reach (find_preds s fs).
Definition anc_steps (s : source) (fs : list filter) : nat -> nat -> nat -> Prop := path (find_preds s fs).

Lemma find_roots_unlimited s fs rank limit node fuel roots :
  acyclic_source s rank -> (limit <= 0)%Z ->
  find_roots fuel s fs limit node = Some roots ->
  (forall r, In r roots -> anc s fs (d_id node) (d_id r) /\ find_preds s fs (d_id r) = []) /\
  (forall a, anc s fs (d_id node) a -> find_preds s fs a = [] -> In a (map d_id roots)) /\
  (forall a, anc s fs (d_id node) a -> exists r, In r roots /\ anc s fs a (d_id r)).
Proof.
  intros Hr Hl H.
  exact (roots_unlimited (find_preds s fs) limit node rank (find_preds_rank s fs rank Hr) fuel roots Hl H).
Qed.

Lemma find_roots_depth s fs rank limit node fuel roots :
  acyclic_source s rank -> (0 < limit)%Z ->
  find_roots fuel s fs limit node = Some roots ->
  (forall r, In r roots ->
     (exists k, Z.of_nat k <= limit /\ anc_steps s fs k (d_id node) (d_id r))%Z /\
     (find_preds s fs (d_id r) = [] \/ anc_steps s fs (Z.to_nat limit) (d_id node) (d_id r))) /\
  (exists r, In r roots /\ anc s fs (d_id node) (d_id r)).
Proof.
  intros Hr Hl H.
  exact (roots_depth (find_preds s fs) limit node rank (find_preds_rank s fs rank Hr) fuel roots Hl H).
Qed.

Lemma list_sum_le {A} (f g : A -> nat) l :
  (forall a, f a <= g a) -> list_sum (map f l) <= list_sum (map g l).
Proof.
  intro H. induction l as [|a l IH]; simpl; [lia|]. specialize (H a). lia.
Qed.

(* the fuel the runner uses always suffices on a finite source *)
Lemma find_roots_terminates s fs limit node n :
  (forall x p, x < n -> In p (s_preds s x) -> d_id p < n) -> d_id node < n ->
  exists roots, find_roots (fuel_for s n) s fs limit node = Some roots.
Proof.
  intros Hc Hn. unfold find_roots.
  apply (dfs_terminates (find_preds s fs) limit node (seq 0 n)).
  - intros x p Hx Hp. apply in_seq in Hx. apply in_seq.
    apply find_preds_ids in Hp. apply in_map_iff in Hp. destruct Hp as (q & <- & Hq).
    assert (d_id q < n) by (apply (Hc x q); [lia | exact Hq]). lia.
  - apply in_seq. lia.
  - unfold fuel_for.
    pose proof (list_sum_le (fun u => length (find_preds s fs u)) (fun u => length (s_preds s u))
                  (seq 0 n) (find_preds_length s fs)). lia.
Qed.

(* Depth = d: nothing outside the graphs of ancestors at most d steps away, given
   that the copy phase writes only what lies under a root (C01) *)
Lemma depth_upper s fs rank limit node (succ : nat -> list nat) (held initially : nat -> Prop) fuel roots :
  acyclic_source s rank -> (0 < limit)%Z ->
  find_roots fuel s fs limit node = Some roots ->
  (forall x, held x -> initially x \/ exists r, In r roots /\ down succ (d_id r) x) ->
  forall x, held x ->
    initially x \/
    exists a k, (Z.of_nat k <= limit)%Z /\ anc_steps s fs k (d_id node) a /\ down succ a x.
Proof.
  intros Hr Hl H Hc x Hx. destruct (Hc x Hx) as [Hi | (r & Hin & Hd)]; [auto|]. right.
  destruct (find_roots_depth s fs rank limit node fuel roots Hr Hl H) as (H1 & _).
  destruct (H1 r Hin) as ((k & Hk & Hp) & _). exists (d_id r), k. auto.
Qed.

(* ------------------------------------------------------------------ examples *)

(* 0 blob <- 1 image <- {2 artifact referrer, 3 index} ; 3 <- 4 referrer of the index *)
Definition ex_source : source :=
  mkSource (fun x => match x with
                     | 0 => [mkDesc 1 [] None]
                     | 1 => [mkDesc 2 [] None; mkDesc 3 [] None]
                     | 3 => [mkDesc 4 (b "sig") (Some [(b "k", b "v")])]
                     | _ => [] end)
           (fun x => match x with 0 => KOther | 1 => KImage | 2 => KArtifact | 3 => KIndex | _ => KImage end)
           (fun x => match x with 2 => b "sbom" | 4 => b "sig" | _ => [] end)
           (fun x => match x with 1 => b "cfg" | 4 => b "empty" | _ => [] end)
           (fun x => match x with 2 => Some [(b "k", b "w")] | 4 => Some [(b "k", b "v")] | _ => None end) false.

Definition ex_node : desc := mkDesc 0 [] None.

(* a diamond where the depth-limited DFS misses an ancestor that is 2 steps away:
   0 <- 1, 0 <- 2, 2 <- 1 (served order [1;2] pushes 2 on top), 1 <- 3 *)
Definition diamond_source : source :=
  mkSource (fun x => match x with
                     | 0 => [mkDesc 1 [] None; mkDesc 2 [] None]
                     | 2 => [mkDesc 1 [] None]
                     | 1 => [mkDesc 3 [] None]
                     | _ => [] end)
           (fun _ => KIndex) (fun _ => []) (fun _ => []) (fun _ => None) false.

Definition ex_remote : source :=
  mkSource (fun x => match x with
                     | 1 => [mkDesc 2 (b "sbom") (Some [(b "k", b "w")]); mkDesc 4 (b "sig") None]
                     | _ => [] end)
           (fun x => match x with 2 => KArtifact | _ => KImage end)
           (fun x => match x with 2 => b "sbom" | _ => [] end)
           (fun x => match x with 4 => b "sig" | _ => [] end)
           (fun x => match x with 2 => Some [(b "k", b "w")] | _ => None end) true.

Lemma ex_acyclic : acyclic_source ex_source (fun x => x).
Proof.
  intros x p H. destruct x as [|[|[|[|x]]]]; simpl in H;
    repeat (destruct H as [<- | H]; [simpl; lia|]); contradiction.
Qed.

Lemma ex_served_ok : forall x, Forall (served_ok ex_source) (s_preds ex_source x).
Proof.
  intros x. destruct x as [|[|[|[|x]]]]; simpl.
  - repeat constructor. discriminate.
  - repeat constructor; discriminate.
  - constructor.
  - constructor; [|constructor]. split; [|discriminate].
    split; [right; reflexivity | intro k; reflexivity].
  - constructor.
Qed.

Lemma ex_remote_served_ok : forall x, Forall (served_ok ex_remote) (s_preds ex_remote x).
Proof.
  intros x. destruct x as [|[|x]]; simpl; try constructor.
  - split; [split; [right; reflexivity | intro k; reflexivity]|].
    intros _. split; [reflexivity | intro k; reflexivity].
  - constructor; [|constructor].
    split; [split; [right; reflexivity | exact I]|].
    intros _. split; [reflexivity | intro k; reflexivity].
Qed.

Lemma diamond_depth_not_exact :
  option_map (map d_id) (find_roots (fuel_for diamond_source 4) diamond_source [] 2%Z (mkDesc 0 [] None))
    = Some [1] /\
  anc_steps diamond_source [] 2 0 3.
Proof.
  split; [vm_compute; reflexivity|].
  apply (pathS _ 1 0 1 3).
  - apply (pathS _ 0 0 0 1); [constructor | vm_compute; auto].
  - vm_compute. auto.
Qed.

(* ------------------------------------------------------------------ served_ok is needed (audit F1)
   A descriptor that carries fields which are not the manifest's (e.g. the annotations /
   artifactType of the index entry pointing to it, as a reloaded OCI layout served them
   before fix fda86b1) is judged on those fields: the filters do not fetch then. *)
Definition embedded_source : source :=
  mkSource (fun x => match x with
                     | 0 => [mkDesc 1 (b "application/vnd.fake.type")
                                    (Some [(b "vnd.docker.reference.type", b "attestation-manifest")])]
                     | _ => [] end)
           (fun x => match x with 1 => KImage | _ => KOther end)
           (fun _ => [])
           (fun x => match x with 1 => b "application/vnd.oci.image.config.v1+json" | _ => [] end)
           (fun _ => None) false.

Lemma filter_exact_refuted_embedded :
  let keyf := [FAnn (b "vnd.docker.reference.type") None] in
  let typf := [FArt (Some (str_eqb (b "application/vnd.oci.image.config.v1+json")))] in
  ~ Forall (served_ok embedded_source) (s_preds embedded_source 0) /\
  map d_id (find_preds embedded_source keyf 0) = [1] /\
  List.filter (fun id => forallb (fun f => keep_spec embedded_source f id) keyf)
              (map d_id (s_preds embedded_source 0)) = [] /\
  map d_id (find_preds embedded_source typf 0) = [] /\
  List.filter (fun id => forallb (fun f => keep_spec embedded_source f id) typf)
              (map d_id (s_preds embedded_source 0)) = [1].
Proof.
  split; [|vm_compute; repeat split].
  intro H. inversion H as [|p l Hp _]; subst. destruct Hp as ((Ha & _) & _).
  destruct Ha as [Ha | Ha]; vm_compute in Ha; discriminate.
Qed.

(* ------------------------------------------------------------------ composed statement (audit F6)
   The upward closure in terms of MANIFEST CONTENT only: y is followed from x iff the source
   lists y as a predecessor of x and y's manifest satisfies every filter. *)
Definition followed_spec (s : source) (fs : list filter) (x y : nat) : Prop :=
  In y (map d_id (s_preds s x)) /\ forall f, In f fs -> keep_spec s f y = true.

Inductive rpath (R : nat -> nat -> Prop) : nat -> nat -> nat -> Prop :=
| rpath0 x : rpath R 0 x x
| rpathS k x y z : rpath R k x y -> R y z -> rpath R (S k) x z.

Definition anc_spec (s : source) (fs : list filter) (a c : nat) : Prop :=
  exists k, rpath (followed_spec s fs) k a c.

Definition all_served_ok (s : source) : Prop := forall x, Forall (served_ok s) (s_preds s x).

Lemma E_followed_spec s fs x y :
  all_served_ok s -> (E (find_preds s fs) x y <-> followed_spec s fs x y).
Proof. intro H. unfold E, followed_spec. apply find_preds_followed_iff. apply H. Qed.

Lemma path_rpath s fs k a c :
  all_served_ok s -> (path (find_preds s fs) k a c <-> rpath (followed_spec s fs) k a c).
Proof.
  intro H. split; intro P.
  - induction P; [constructor | econstructor; eauto; now apply E_followed_spec].
  - induction P; [constructor | econstructor; eauto; now apply E_followed_spec].
Qed.

Lemma anc_anc_spec s fs a c : all_served_ok s -> (anc s fs a c <-> anc_spec s fs a c).
Proof.
  intro H. unfold anc, reach, anc_spec. split; intros (k & P); exists k; now apply path_rpath.
Qed.

Lemma find_preds_nil_spec s fs x :
  all_served_ok s -> (find_preds s fs x = [] <-> forall y, ~ followed_spec s fs x y).
Proof.
  intro H. split.
  - intros E0 y Hy. apply E_followed_spec in Hy; auto. unfold E in Hy. rewrite E0 in Hy. contradiction.
  - intro Hn. destruct (find_preds s fs x) as [|p l] eqn:Ep; auto.
    exfalso. apply (Hn (d_id p)). apply E_followed_spec; auto. unfold E. rewrite Ep. left. reflexivity.
Qed.

(* Depth <= 0, any filter stack: the roots are exactly the tops of the upward closure taken
   through predecessors whose manifest content satisfies the filters, and every member of that
   closure lies under a root *)
Lemma find_roots_unlimited_by_content s fs rank limit node fuel roots :
  all_served_ok s -> acyclic_source s rank -> (limit <= 0)%Z ->
  find_roots fuel s fs limit node = Some roots ->
  (forall r, In r roots ->
     anc_spec s fs (d_id node) (d_id r) /\ forall y, ~ followed_spec s fs (d_id r) y) /\
  (forall a, anc_spec s fs (d_id node) a -> (forall y, ~ followed_spec s fs a y) -> In a (map d_id roots)) /\
  (forall a, anc_spec s fs (d_id node) a -> exists r, In r roots /\ anc_spec s fs a (d_id r)).
Proof.
  intros Hok Hac Hl Hf.
  destruct (find_roots_unlimited s fs rank limit node fuel roots Hac Hl Hf) as (H1 & H2 & H3).
  repeat split.
  - apply anc_anc_spec; auto. now apply H1.
  - apply find_preds_nil_spec; auto. now apply H1.
  - intros a Ha Hn. apply H2; [now apply anc_anc_spec | now apply find_preds_nil_spec].
  - intros a Ha. destruct (H3 a) as (r & Hr & Hra); [now apply anc_anc_spec|].
    exists r. split; auto. now apply anc_anc_spec.
Qed.

(* Depth = d > 0 in the same terms *)
Lemma find_roots_depth_by_content s fs rank limit node fuel roots :
  all_served_ok s -> acyclic_source s rank -> (0 < limit)%Z ->
  find_roots fuel s fs limit node = Some roots ->
  (forall r, In r roots ->
     exists k, (Z.of_nat k <= limit)%Z /\ rpath (followed_spec s fs) k (d_id node) (d_id r)) /\
  (exists r, In r roots /\ anc_spec s fs (d_id node) (d_id r)).
Proof.
  intros Hok Hac Hl Hf.
  destruct (find_roots_depth s fs rank limit node fuel roots Hac Hl Hf) as (H1 & (r & Hr & Hnr)).
  split.
  - intros r' Hr'. destruct (H1 r' Hr') as ((k & Hk & Hp) & _). exists k. split; auto.
    now apply path_rpath.
  - exists r. split; auto. now apply anc_anc_spec.
Qed.

Lemma ex_all_served_ok : all_served_ok ex_source.
Proof. exact ex_served_ok. Qed.

(* ------------------------------------------------------------------ failing source operations
   Success with a fault armed means the fault was never reached, and the result is the fault-free
   one: no error is swallowed into a partial predecessor list or a partial root set. *)

Lemma filter_e_ok need fill keep ps : forall k kept k',
  filter_e need fill keep ps k = Some (kept, k') -> kept = List.filter keep (map fill ps).
Proof.
  induction ps as [|p ps IH]; intros k kept k' H; simpl in H.
  - injection H as <- _. reflexivity.
  - destruct (if need p then tick k else Some k) as [k1|]; [|discriminate].
    destruct (filter_e need fill keep ps k1) as [[kept1 k2]|] eqn:E; [|discriminate].
    injection H as <- _. simpl. rewrite (IH _ _ _ E). destruct (keep (fill p)); reflexivity.
Qed.

Lemma filter_e_nofault need fill keep ps :
  filter_e need fill keep ps 0 = Some (List.filter keep (map fill ps), 0).
Proof.
  induction ps as [|p ps IH]; cbn [filter_e map List.filter]; auto.
  assert (E : (if need p then tick 0 else Some 0) = Some 0) by (destruct (need p); reflexivity).
  rewrite E, IH. destruct (keep (fill p)); reflexivity.
Qed.

Lemma apply_filter_e_ok s f ps k ps' k' :
  apply_filter_e s f ps k = Some (ps', k') -> ps' = apply_filter s f ps.
Proof.
  destruct f as [[re|] | key re]; simpl; intro H.
  - now apply filter_e_ok in H.
  - now injection H as <- _.
  - now apply filter_e_ok in H.
Qed.

Lemma apply_filter_e_nofault s f ps : apply_filter_e s f ps 0 = Some (apply_filter s f ps, 0).
Proof. destruct f as [[re|] | key re]; simpl; auto using filter_e_nofault. Qed.

Lemma fold_step_e_none s fs : fold_left (step_e s) fs None = None.
Proof. induction fs; simpl; auto. Qed.

Lemma fold_step_e_ok s fs : forall first ps k b ps' k',
  fold_left (step_e s) fs (Some (first, ps, k)) = Some (b, ps', k') ->
  fold_left (step_gen fill_at s) fs (first, ps) = (b, ps').
Proof.
  induction fs as [|f fs IH]; intros first ps k b ps' k' H; simpl in *.
  - now injection H as <- <- _.
  - unfold step_gen at 2. simpl. destruct (is_noop f); [eapply IH; eauto|].
    destruct (first && s_lister s)%bool; [eapply IH; eauto|].
    destruct (apply_filter_e s f ps k) as [[ps1 k1]|] eqn:E.
    + apply apply_filter_e_ok in E. subst ps1. eapply IH; eauto.
    + rewrite fold_step_e_none in H. discriminate.
Qed.

Lemma fold_step_e_nofault s fs : forall first ps,
  fold_left (step_e s) fs (Some (first, ps, 0)) =
  Some (fst (fold_left (step_gen fill_at s) fs (first, ps)),
        snd (fold_left (step_gen fill_at s) fs (first, ps)), 0).
Proof.
  induction fs as [|f fs IH]; intros first ps; simpl; auto.
  unfold step_gen at 2 4. simpl. destruct (is_noop f); [apply IH|].
  destruct (first && s_lister s)%bool; [apply IH|].
  rewrite apply_filter_e_nofault. apply IH.
Qed.

Lemma find_preds_e_ok s fs x k ps k' :
  find_preds_e s fs x k = Some (ps, k') -> ps = find_preds s fs x.
Proof.
  unfold find_preds_e, find_preds, find_preds_gen. destruct (tick k) as [k1|]; [|discriminate].
  destruct (fold_left (step_e s) fs (Some (true, s_preds s x, k1))) as [[[b ps1] k2]|] eqn:E; [|discriminate].
  intro H. injection H as <- _. apply fold_step_e_ok in E. now rewrite E.
Qed.

Lemma find_preds_e_nofault s fs x : find_preds_e s fs x 0 = Some (find_preds s fs x, 0).
Proof.
  unfold find_preds_e, find_preds, find_preds_gen. simpl. now rewrite fold_step_e_nofault.
Qed.

Lemma dfs_e_ok fuel s fs limit : forall st V R k roots,
  dfs_e fuel s fs limit st V R k = ROk roots ->
  dfs fuel (find_preds s fs) limit st V R = Some roots.
Proof.
  induction fuel as [|fuel IH]; intros st V R k roots H; cbn [dfs_e dfs] in *; [discriminate|].
  destruct st as [|[cur d] rest]; [now injection H as <-|].
  destruct (mem (d_id cur) V); [eapply IH; eauto|].
  destruct ((0 <? limit)%Z && (Z.of_nat d =? limit)%Z)%bool; [eapply IH; eauto|].
  destruct (find_preds_e s fs (d_id cur) k) as [[ps k']|] eqn:E; [|discriminate].
  apply find_preds_e_ok in E. rewrite <- E.
  destruct ps as [|p0 ps]; eapply IH; eauto.
Qed.

Lemma dfs_e_nofault fuel s fs limit : forall st V R,
  dfs_e fuel s fs limit st V R 0 =
  match dfs fuel (find_preds s fs) limit st V R with Some roots => ROk roots | None => RFuel end.
Proof.
  induction fuel as [|fuel IH]; intros st V R; cbn [dfs_e dfs]; [reflexivity|].
  destruct st as [|[cur d] rest]; [reflexivity|].
  destruct (mem (d_id cur) V); [apply IH|].
  destruct ((0 <? limit)%Z && (Z.of_nat d =? limit)%Z)%bool; [apply IH|].
  rewrite find_preds_e_nofault. destruct (find_preds s fs (d_id cur)) as [|p0 ps]; apply IH.
Qed.

(* success = the fault-free result, whatever fault was armed *)
Lemma find_roots_e_success fuel s fs limit node k roots :
  find_roots_e fuel s fs limit node k = ROk roots -> find_roots fuel s fs limit node = Some roots.
Proof. unfold find_roots_e, find_roots, find_roots_fp. apply dfs_e_ok. Qed.

(* without a fault the error-aware run is the plain one and never fails *)
Lemma find_roots_e_nofault fuel s fs limit node :
  find_roots_e fuel s fs limit node 0 =
  match find_roots fuel s fs limit node with Some roots => ROk roots | None => RFuel end.
Proof. unfold find_roots_e, find_roots, find_roots_fp. apply dfs_e_nofault. Qed.

(* a reached fault is an error: the first operation failing fails the call *)
Lemma find_roots_e_first_op fuel s fs limit node :
  (limit <= 0)%Z -> find_roots_e (S fuel) s fs limit node 1 = RErr.
Proof.
  intro Hl. unfold find_roots_e. cbn [dfs_e]. simpl mem.
  assert (E : ((0 <? limit)%Z && (Z.of_nat 0 =? limit)%Z)%bool = false).
  { destruct (0 <? limit)%Z eqn:E1; auto. apply Z.ltb_lt in E1. lia. }
  rewrite E. reflexivity.
Qed.

(* ------------------------------------------------------------------ user-supplied FindPredecessors *)

(* filters stacked on a caller's own FindPredecessors follow exactly those of ITS predecessors
   whose manifest satisfies the filters (the descriptors it returns may lack fields; present
   fields must be the manifest's; no completeness needed: nothing is taken on trust) *)
Lemma find_preds_custom_exact s custom fs x :
  Forall (desc_consistent s) (custom x) ->
  map d_id (find_preds_custom s custom fs x) =
  List.filter (fun id => forallb (fun f => keep_spec s f id) fs) (map d_id (custom x)).
Proof.
  intro H. unfold find_preds_custom.
  apply (find_preds_fold s fs (false, custom x)). split; simpl; [exact H | discriminate].
Qed.

Lemma find_preds_custom_nil s custom x : find_preds_custom s custom [] x = custom x.
Proof. reflexivity. Qed.

(* the walk itself for ANY FindPredecessors function (user-supplied or built by the filters) *)
Lemma find_roots_fp_unlimited (fp : nat -> list desc) rank limit node fuel roots :
  (forall x p, In p (fp x) -> rank x < rank (d_id p)) -> (limit <= 0)%Z ->
  find_roots_fp fuel fp limit node = Some roots ->
  (forall r, In r roots -> reach fp (d_id node) (d_id r) /\ fp (d_id r) = []) /\
  (forall a, reach fp (d_id node) a -> fp a = [] -> In a (map d_id roots)) /\
  (forall a, reach fp (d_id node) a -> exists r, In r roots /\ reach fp a (d_id r)).
Proof. intros Hr Hl H. exact (roots_unlimited fp limit node rank Hr fuel roots Hl H). Qed.

Lemma find_roots_fp_depth (fp : nat -> list desc) rank limit node fuel roots :
  (forall x p, In p (fp x) -> rank x < rank (d_id p)) -> (0 < limit)%Z ->
  find_roots_fp fuel fp limit node = Some roots ->
  (forall r, In r roots ->
     (exists k, Z.of_nat k <= limit /\ path fp k (d_id node) (d_id r))%Z /\
     (fp (d_id r) = [] \/ path fp (Z.to_nat limit) (d_id node) (d_id r))) /\
  (exists r, In r roots /\ reach fp (d_id node) (d_id r)).
Proof. intros Hr Hl H. exact (roots_depth fp limit node rank Hr fuel roots Hl H). Qed.

(* ------------------------------------------------------------------ the walk over any relation
   equivalent to the followed-predecessor relation *)
Lemma rpath_equiv (R1 R2 : nat -> nat -> Prop) :
  (forall x y, R1 x y <-> R2 x y) -> forall k a c, rpath R1 k a c <-> rpath R2 k a c.
Proof.
  intros H k a c. split; intro P; induction P; try constructor; econstructor; eauto; now apply H.
Qed.

Lemma path_rpath_E fp k a c : path fp k a c <-> rpath (E fp) k a c.
Proof. split; intro P; induction P; try constructor; econstructor; eauto. Qed.

Lemma find_roots_unlimited_rel s fs rank limit node fuel roots (R : nat -> nat -> Prop) :
  (forall x y, E (find_preds s fs) x y <-> R x y) ->
  acyclic_source s rank -> (limit <= 0)%Z ->
  find_roots fuel s fs limit node = Some roots ->
  let up a c := exists k, rpath R k a c in
  (forall r, In r roots -> up (d_id node) (d_id r) /\ forall y, ~ R (d_id r) y) /\
  (forall a, up (d_id node) a -> (forall y, ~ R a y) -> In a (map d_id roots)) /\
  (forall a, up (d_id node) a -> exists r, In r roots /\ up a (d_id r)).
Proof.
  intros HR Hac Hl Hf up.
  assert (Hup : forall a c, anc s fs a c <-> up a c).
  { intros a c. unfold anc, reach, up. split; intros (k & P); exists k.
    - apply (rpath_equiv _ _ HR). now apply path_rpath_E.
    - apply path_rpath_E. now apply (rpath_equiv _ _ HR). }
  assert (Hnil : forall x, find_preds s fs x = [] <-> forall y, ~ R x y).
  { intro x. split.
    - intros E0 y Hy. apply HR in Hy. unfold E in Hy. rewrite E0 in Hy. contradiction.
    - intro Hn. destruct (find_preds s fs x) as [|p l] eqn:Ep; auto.
      exfalso. apply (Hn (d_id p)). apply HR. unfold E. rewrite Ep. left. reflexivity. }
  destruct (find_roots_unlimited s fs rank limit node fuel roots Hac Hl Hf) as (H1 & H2 & H3).
  repeat split.
  - apply Hup. now apply H1.
  - apply Hnil. now apply H1.
  - intros a Ha Hn. apply H2; [now apply Hup | now apply Hnil].
  - intros a Ha. destruct (H3 a) as (r & Hr & Hra); [now apply Hup|].
    exists r. split; auto. now apply Hup.
Qed.

(* ------------------------------------------------------------------ the call sequence *)
Lemma dfs_log_fst fuel fp limit : forall st V R calls,
  option_map fst (dfs_log fuel fp limit st V R calls) = dfs fuel fp limit st V R.
Proof.
  induction fuel as [|fuel IH]; intros st V R calls; cbn [dfs_log dfs]; [reflexivity|].
  destruct st as [|[cur d] rest]; [reflexivity|].
  destruct (mem (d_id cur) V); [apply IH|].
  destruct ((0 <? limit)%Z && (Z.of_nat d =? limit)%Z)%bool; [apply IH|].
  destruct (fp (d_id cur)); apply IH.
Qed.

(* FindPredecessors is called at most once per node, and only on nodes that end up visited *)
Lemma dfs_log_calls fuel fp limit : forall st V R calls roots out,
  NoDup calls -> (forall c, In c calls -> In c V) ->
  dfs_log fuel fp limit st V R calls = Some (roots, out) ->
  NoDup out /\ (forall c, In c calls -> In c out).
Proof.
  induction fuel as [|fuel IH]; intros st V R calls roots out Hnd Hsub H; cbn [dfs_log] in H; [discriminate|].
  destruct st as [|[cur d] rest].
  - injection H as _ <-. split.
    + apply NoDup_rev. exact Hnd.
    + intros c Hc. now apply in_rev in Hc.
  - destruct (mem (d_id cur) V) eqn:Em; [eapply IH; eauto|].
    apply mem_not_In in Em.
    assert (Hsub' : forall c, In c calls -> In c (d_id cur :: V)) by (intros c Hc; right; auto).
    destruct ((0 <? limit)%Z && (Z.of_nat d =? limit)%Z)%bool; [eapply IH; eauto|].
    assert (Hnd' : NoDup (d_id cur :: calls)).
    { constructor; [intro Hc; apply Em; now apply Hsub | exact Hnd]. }
    assert (Hsub2 : forall c, In c (d_id cur :: calls) -> In c (d_id cur :: V)).
    { intros c [<- | Hc]; [left; reflexivity | right; auto]. }
    destruct (fp (d_id cur)) as [|p0 ps];
      (destruct (IH _ _ _ _ _ _ Hnd' Hsub2 H) as (H1 & H2); split; [exact H1 | intros c Hc; apply H2; right; exact Hc]).
Qed.

Lemma find_roots_log_spec fuel s fs limit node roots out :
  find_roots_log fuel s fs limit node = Some (roots, out) ->
  find_roots fuel s fs limit node = Some roots /\ NoDup out.
Proof.
  unfold find_roots_log, find_roots, find_roots_fp. intro H. split.
  - rewrite <- dfs_log_fst with (calls := []). now rewrite H.
  - eapply (dfs_log_calls fuel (find_preds s fs) limit _ _ _ [] roots out); eauto; try constructor; try (intros c []).
Qed.

(* ------------------------------------------------------------------ the generated depth arithmetic *)
Lemma findRoots_stop_spec limit d :
  findRoots_stop limit (Z.of_nat d) = ((0 <? limit)%Z && (Z.of_nat d =? limit)%Z)%bool.
Proof. unfold findRoots_stop. now rewrite Z.gtb_ltb. Qed.

Lemma findRoots_push_depth_spec limit d :
  Z.to_nat (findRoots_push_depth limit (Z.of_nat d)) = S d.
Proof. unfold findRoots_push_depth. lia. Qed.

Lemma findRoots_start_depth_spec : Z.to_nat findRoots_start_depth = 0.
Proof. reflexivity. Qed.

Lemma dfs_log_g_eq fuel fp limit : forall st V R calls,
  dfs_log_g fuel fp limit st V R calls = dfs_log fuel fp limit st V R calls.
Proof.
  induction fuel as [|fuel IH]; intros st V R calls; cbn [dfs_log_g dfs_log]; [reflexivity|].
  destruct st as [|[cur d] rest]; [reflexivity|].
  rewrite findRoots_stop_spec, findRoots_push_depth_spec.
  destruct (mem (d_id cur) V); [apply IH|].
  destruct ((0 <? limit)%Z && (Z.of_nat d =? limit)%Z)%bool; [apply IH|].
  destruct (fp (d_id cur)); apply IH.
Qed.

(* what the runner executes is the proved loop *)
Lemma find_roots_run_eq fuel s fs limit node :
  find_roots_run fuel (find_preds s fs) limit node = find_roots_log fuel s fs limit node.
Proof. unfold find_roots_run, find_roots_log. rewrite findRoots_start_depth_spec. apply dfs_log_g_eq. Qed.

(* ------------------------------------------------------------------ order independence (Depth <= 0)
   Two sources that serve the same predecessor SETS (any order, any multiplicity, any descriptor
   fields as long as both are served_ok) over the same manifests give the same SET of roots. *)
Lemma roots_unlimited_order_independent s1 s2 fs rank1 rank2 limit node fuel1 fuel2 roots1 roots2 :
  (forall x y, In y (map d_id (s_preds s1 x)) <-> In y (map d_id (s_preds s2 x))) ->
  (forall f y, keep_spec s1 f y = keep_spec s2 f y) ->
  all_served_ok s1 -> all_served_ok s2 ->
  acyclic_source s1 rank1 -> acyclic_source s2 rank2 -> (limit <= 0)%Z ->
  find_roots fuel1 s1 fs limit node = Some roots1 ->
  find_roots fuel2 s2 fs limit node = Some roots2 ->
  forall a, In a (map d_id roots1) <-> In a (map d_id roots2).
Proof.
  intros Hp Hk Ok1 Ok2 Ac1 Ac2 Hl F1 F2.
  assert (HR : forall x y, followed_spec s1 fs x y <-> followed_spec s2 fs x y).
  { intros x y. unfold followed_spec. rewrite (Hp x y). split; intros (H1 & H2); split; auto;
      intros f Hf; [rewrite <- Hk | rewrite Hk]; auto. }
  destruct (find_roots_unlimited_rel s1 fs rank1 limit node fuel1 roots1 (followed_spec s1 fs)
              (fun x y => E_followed_spec s1 fs x y Ok1) Ac1 Hl F1) as (A1 & A2 & _).
  destruct (find_roots_unlimited_rel s2 fs rank2 limit node fuel2 roots2 (followed_spec s2 fs)
              (fun x y => E_followed_spec s2 fs x y Ok2) Ac2 Hl F2) as (B1 & B2 & _).
  assert (Hup : forall a c, (exists k, rpath (followed_spec s1 fs) k a c) <->
                            (exists k, rpath (followed_spec s2 fs) k a c)).
  { intros a c. split; intros (k & P); exists k; now apply (rpath_equiv _ _ HR). }
  intro a. split; intro Ha.
  - apply in_map_iff in Ha. destruct Ha as (r & <- & Hr). destruct (A1 r Hr) as (U & N).
    apply B2; [now apply Hup|]. intros y Hy. apply (N y). now apply HR.
  - apply in_map_iff in Ha. destruct Ha as (r & <- & Hr). destruct (B1 r Hr) as (U & N).
    apply A2; [now apply Hup|]. intros y Hy. apply (N y). now apply HR.
Qed.

(* ------------------------------------------------------------------ plain descriptors
   A store that serves predecessors as plain descriptors (media type, digest, size only -- what a
   reloaded OCI layout does since fix fda86b1) satisfies served_ok outright: every filter fetches
   and judges the manifest itself. *)
Definition plain_desc (p : desc) : Prop := d_at p = [] /\ d_ann p = None.

Lemma plain_served_ok s p : s_lister s = false -> plain_desc p -> served_ok s p.
Proof.
  intros Hl (Ha & Hn). split.
  - split; [left; exact Ha | now rewrite Hn].
  - rewrite Hl. discriminate.
Qed.

Lemma find_preds_exact_plain s fs x :
  s_lister s = false -> Forall plain_desc (s_preds s x) ->
  map d_id (find_preds s fs x) =
  List.filter (fun id => forallb (fun f => keep_spec s f id) fs) (map d_id (s_preds s x)).
Proof.
  intros Hl H. apply find_preds_exact. eapply Forall_impl; [|exact H].
  intros p Hp. now apply plain_served_ok.
Qed.

(* ------------------------------------------------------------------ the generated filter decisions *)
Lemma keep_ann_g_eq key re p : keep_ann_g key re p = keep_ann key re p.
Proof.
  unfold keep_ann_g, keep_ann, filterAnnotation_keep.
  destruct (d_ann p) as [m|]; simpl; [|reflexivity].
  destruct (lookup key m) as [v|]; simpl; [|reflexivity].
  destruct re; reflexivity.
Qed.

Lemma keep_at_g_eq re p : keep_at_g re p = re (d_at p).
Proof. reflexivity. Qed.

Lemma fill_at_g_eq s p : fill_at_g s p = fill_at s p.
Proof. reflexivity. Qed.

Lemma fill_ann_g_eq s p : fill_ann_g s p = fill_ann s p.
Proof. unfold fill_ann_g, fill_ann, filterAnnotation_fetch_guard. destruct (d_ann p); reflexivity. Qed.

Lemma filter_ext_eq {A} (f g : A -> bool) l : (forall a, f a = g a) -> List.filter f l = List.filter g l.
Proof. intro H. induction l as [|a l IH]; simpl; auto. rewrite H, IH. reflexivity. Qed.

Lemma apply_filter_g_eq s f ps : apply_filter_g s f ps = apply_filter s f ps.
Proof.
  destruct f as [[re|] | key re]; unfold apply_filter, apply_filter_gen, apply_filter_g; auto.
  induction ps as [|p ps IH]; cbn [map List.filter]; auto.
  rewrite fill_ann_g_eq, keep_ann_g_eq, IH. reflexivity.
Qed.

Lemma apply_lister_g_eq f ps : apply_lister_g f ps = apply_lister f ps.
Proof.
  destruct f as [[re|] | key re]; simpl; auto. apply filter_ext_eq. intro a. apply keep_ann_g_eq.
Qed.

Lemma step_g_eq s acc f : step_g s acc f = step_gen fill_at s acc f.
Proof.
  unfold step_g, step_gen. destruct (is_noop f); auto.
  destruct (fst acc && s_lister s)%bool; [now rewrite apply_lister_g_eq|].
  now rewrite apply_filter_g_eq.
Qed.

Lemma fold_step_g_eq s fs : forall acc,
  fold_left (step_g s) fs acc = fold_left (step_gen fill_at s) fs acc.
Proof. induction fs as [|f fs IH]; intro acc; simpl; auto. now rewrite step_g_eq, IH. Qed.

(* what the runner executes for the filters is the proved function *)
Lemma find_preds_g_eq s fs x : find_preds_g s fs x = find_preds s fs x.
Proof. unfold find_preds_g, find_preds, find_preds_gen. now rewrite fold_step_g_eq. Qed.

Lemma find_preds_custom_g_eq s c fs x : find_preds_custom_g s c fs x = find_preds_custom s c fs x.
Proof. unfold find_preds_custom_g, find_preds_custom. now rewrite fold_step_g_eq. Qed.

(* ------------------------------------------------------------------ ExtendedCopy's error origins *)
Lemma extended_copy_x_spec resolve roots_ok copy_ok tag_ok src_ref dst_ref tags :
  match extended_copy_x resolve roots_ok copy_ok tag_ok src_ref dst_ref tags with
  | XOk node tags' =>
      extended_copy resolve (fun _ => (roots_ok && copy_ok)%bool) tag_ok src_ref dst_ref tags = Some (node, tags')
  | XErr op =>
      extended_copy resolve (fun _ => (roots_ok && copy_ok)%bool) tag_ok src_ref dst_ref tags = None /\
      match op with
      | OpResolve => resolve src_ref = None
      | OpFindPredecessors => resolve src_ref <> None /\ roots_ok = false
      | OpCopy => resolve src_ref <> None /\ roots_ok = true /\ copy_ok = false
      | OpTag => resolve src_ref <> None /\ roots_ok = true /\ copy_ok = true /\ tag_ok = false
      end
  end.
Proof.
  unfold extended_copy_x, extended_copy. destruct (resolve src_ref) as [n|]; [|split; reflexivity].
  destruct roots_ok, copy_ok, tag_ok; simpl; repeat split; auto; discriminate.
Qed.

(* ------------------------------------------------------------------ failing operations, any
   error-aware FindPredecessors that refines a fault-free one *)
Lemma dfs_ef_ok fuel fpe fp limit :
  (forall x k ps k', fpe x k = Some (ps, k') -> ps = fp x) ->
  forall st V R k roots,
  dfs_ef fuel fpe limit st V R k = ROk roots -> dfs fuel fp limit st V R = Some roots.
Proof.
  intro Href. induction fuel as [|fuel IH]; intros st V R k roots H; cbn [dfs_ef dfs] in *; [discriminate|].
  destruct st as [|[cur d] rest]; [now injection H as <-|].
  destruct (mem (d_id cur) V); [eapply IH; eauto|].
  destruct ((0 <? limit)%Z && (Z.of_nat d =? limit)%Z)%bool; [eapply IH; eauto|].
  destruct (fpe (d_id cur) k) as [[ps k']|] eqn:E; [|discriminate].
  apply Href in E. rewrite <- E. destruct ps as [|p0 ps]; eapply IH; eauto.
Qed.

(* fuel exhaustion of the error-aware loop implies fuel exhaustion of the plain loop: with the
   runner's fuel the outcome is always a root set or an error *)
Lemma dfs_ef_fuel fuel fpe fp limit :
  (forall x k ps k', fpe x k = Some (ps, k') -> ps = fp x) ->
  forall st V R k,
  dfs_ef fuel fpe limit st V R k = RFuel -> dfs fuel fp limit st V R = None.
Proof.
  intro Href. induction fuel as [|fuel IH]; intros st V R k H; cbn [dfs_ef dfs] in *; [reflexivity|].
  destruct st as [|[cur d] rest]; [discriminate|].
  destruct (mem (d_id cur) V); [eapply IH; eauto|].
  destruct ((0 <? limit)%Z && (Z.of_nat d =? limit)%Z)%bool; [eapply IH; eauto|].
  destruct (fpe (d_id cur) k) as [[ps k']|] eqn:E; [|discriminate].
  apply Href in E. rewrite <- E. destruct ps as [|p0 ps]; eapply IH; eauto.
Qed.

Lemma dfs_e_is_ef fuel s fs limit : forall st V R k,
  dfs_e fuel s fs limit st V R k = dfs_ef fuel (find_preds_e s fs) limit st V R k.
Proof.
  induction fuel as [|fuel IH]; intros st V R k; cbn [dfs_e dfs_ef]; [reflexivity|].
  destruct st as [|[cur d] rest]; [reflexivity|].
  destruct (mem (d_id cur) V); [apply IH|].
  destruct ((0 <? limit)%Z && (Z.of_nat d =? limit)%Z)%bool; [apply IH|].
  destruct (find_preds_e s fs (d_id cur) k) as [[[|p0 ps] k']|]; auto.
Qed.

Lemma find_preds_custom_e_ok s custom fs x k ps k' :
  find_preds_custom_e s custom fs x k = Some (ps, k') -> ps = find_preds_custom s custom fs x.
Proof.
  unfold find_preds_custom_e, find_preds_custom. destruct (tick k) as [k1|]; [|discriminate].
  destruct (fold_left (step_e s) fs (Some (false, custom x, k1))) as [[[b0 ps1] k2]|] eqn:E; [|discriminate].
  intro H. injection H as <- _. apply fold_step_e_ok in E. now rewrite E.
Qed.

(* success below a caller-supplied FindPredecessors = the fault-free result *)
Lemma find_roots_custom_e_success fuel s custom fs limit node k roots :
  find_roots_custom_e fuel s custom fs limit node k = ROk roots ->
  find_roots_fp fuel (find_preds_custom s custom fs) limit node = Some roots.
Proof.
  unfold find_roots_custom_e, find_roots_fp. apply dfs_ef_ok.
  intros x k0 ps k'. apply find_preds_custom_e_ok.
Qed.

(* totality with the runner's fuel: a root set or an error, never fuel exhaustion *)
Lemma find_roots_e_total s fs limit node n k :
  (forall x p, x < n -> In p (s_preds s x) -> d_id p < n) -> d_id node < n ->
  find_roots_e (fuel_for s n) s fs limit node k <> RFuel.
Proof.
  intros Hc Hn H. unfold find_roots_e in H. rewrite dfs_e_is_ef in H.
  apply (dfs_ef_fuel _ _ (find_preds s fs)) in H; [|intros x k0 ps k'; apply find_preds_e_ok].
  destruct (find_roots_terminates s fs limit node n Hc Hn) as (roots & Hr).
  unfold find_roots, find_roots_fp in Hr. congruence.
Qed.

(* any Depth (also d = 1): every followed direct predecessor of the given node lies under a root,
   so with the copy-closure fact the graphs of all direct predecessors / referrers are copied *)
Lemma find_roots_direct_preds s fs rank limit node fuel roots :
  acyclic_source s rank ->
  find_roots fuel s fs limit node = Some roots ->
  forall p, In p (find_preds s fs (d_id node)) -> exists r, In r roots /\ anc s fs (d_id p) (d_id r).
Proof.
  intros Hac H. exact (roots_cover_direct_preds (find_preds s fs) limit node rank
                         (find_preds_rank s fs rank Hac) fuel roots H).
Qed.
