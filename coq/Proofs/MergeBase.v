(* C14 — invariants of the Merge / Pool / updateReferrersIndex transition
   system of Model/Merge.v, for every trace (= every interleaving of lock
   regions and HTTP exchanges of any number of callers, with injected
   failures of the index GET / PUT / DELETE). *)
From Oras Require Import Base.Prelude Model.Referrers Proofs.Referrers Model.Merge.
From Coq Require Import Lia.

Lemma upd_eq {A} (f : nat -> A) k v : upd f k v k = v.
Proof. unfold upd. now rewrite Nat.eqb_refl. Qed.

Lemma upd_neq {A} (f : nat -> A) k v x : x <> k -> upd f k v x = f x.
Proof. unfold upd. intro H. apply Nat.eqb_neq in H. now rewrite H. Qed.

Lemma mem_In t l : mem t l = true <-> In t l.
Proof.
  unfold mem. rewrite existsb_exists. split.
  - intros (x & Hx & E). apply Nat.eqb_eq in E. now subst.
  - intro H. exists t. split; auto. apply Nat.eqb_refl.
Qed.

Lemma mem_false t l : mem t l = false <-> ~ In t l.
Proof. rewrite <- mem_In. destruct (mem t l); split; congruence. Qed.

Ltac tcase t' t :=
  let Hne := fresh "Hne" in
  destruct (Nat.eq_dec t' t) as [->|Hne];
  [rewrite ?upd_eq in * | rewrite ?upd_neq in * by exact Hne].

Lemma in_map_fst_snoc {A B} (l : list (A * B)) x y z :
  In z (map fst (l ++ [(x, y)])) <-> In z (map fst l) \/ z = x.
Proof. rewrite map_app, in_app_iff. simpl. intuition. Qed.

Lemma in_snoc {A} (l : list A) x z : In z (l ++ [x]) <-> In z l \/ z = x.
Proof. rewrite in_app_iff. simpl. intuition. Qed.

Lemma NoDup_map_fst_snoc {A B} (l : list (A * B)) x y :
  NoDup (map fst l) -> ~ In x (map fst l) -> NoDup (map fst (l ++ [(x, y)])).
Proof. intros. rewrite map_app. simpl. now apply NoDup_app_one. Qed.

Lemma snoc_not_nil {A} (l : list A) x : l ++ [x] <> [].
Proof. destruct l; discriminate. Qed.

Lemma in_fst {A B} (l : list (A * B)) x y : In (x, y) l -> In x (map fst l).
Proof. intro H. apply in_map_iff. exists (x, y). auto. Qed.

Definition post_commit (p : pc) : bool :=
  match p with NeedPut _ _ | NeedDel _ _ | Completing _ => true | _ => false end.

Definition flag (p : pc) : bool :=
  match p with
  | NeedDel _ a => a
  | Completing r => match r with RErr => false | _ => true end
  | _ => false
  end.

Lemma main_holding p : is_main p = true -> holding p = true.
Proof. destruct p; simpl; congruence. Qed.
Lemma post_commit_main p : post_commit p = true -> is_main p = true.
Proof. destruct p; simpl; congruence. Qed.

(* ------------------------------------------------------------------ *)
(* Structure of the protocol                                           *)
(* ------------------------------------------------------------------ *)
Record InvS (s : state) : Prop := {
  i_items : forall t c, In (t, c) (items s) ->
      (pcs s t = Wait \/ is_main (pcs s t) = true) /\ arg s t = c;
  i_items_nd : NoDup (batch s);
  i_pend : forall t c, In (t, c) (pending s) ->
      pcs s t = Wait /\ arg s t = c /\ ~ In t (batch s);
  i_pend_nd : NoDup (map fst (pending s));
  i_main_in : forall t, is_main (pcs s t) = true -> In t (batch s) /\ token s = false;
  i_main_unique : forall t1 t2, is_main (pcs s t1) = true -> is_main (pcs s t2) = true -> t1 = t2;
  i_token : token s = true -> items s <> [] /\ committed s = false;
  i_nomain : items s = [] ->
      token s = false /\ committed s = false /\ pending s = [] /\ applied s = false;
  i_committed : forall t, post_commit (pcs s t) = true -> committed s = true;
  i_applied : applied s = true -> committed s = true;
  i_got : forall t c, pcs s t = Got c -> arg s t = c;
  i_wait : forall t, pcs s t = Wait -> In t (batch s) \/ In t (map fst (pending s));
  i_token_or_main : items s <> [] -> token s = true \/ exists t, is_main (pcs s t) = true;
  i_pool : exists hs, NoDup hs /\ (forall t, In t hs <-> holding (pcs s t) = true) /\
      match pool s with None => hs = [] | Some rc => rc = length hs /\ hs <> [] end
}.

Lemma invS_init r0 st0 : InvS (init r0 st0).
Proof.
  constructor; simpl; intros; try discriminate; try tauto; try (now constructor).
  exists []. repeat split; try constructor; simpl; try tauto; discriminate.
Qed.

Ltac inst :=
  repeat match goal with
  | H : Some _ = Some _ |- _ => injection H as H; try subst
  | H : (_, _) = (_, _) |- _ => injection H as ? ?; try subst
  | H : _ /\ _ |- _ => destruct H
  | H : exists _, _ |- _ => destruct H
  | H : In _ (map fst (_ ++ [(_, _)])) |- _ => apply in_map_fst_snoc in H
  | H : In _ (_ ++ [_]) |- _ => apply in_snoc in H
  | H : _ \/ _ |- _ => destruct H
  end.

Ltac fin :=
  try discriminate; try congruence; try lia; try tauto;
  try (unfold batch in *; simpl in *; rewrite ?in_map_fst_snoc, ?in_snoc in *);
  try solve [eauto 4 using snoc_not_nil, NoDup_map_fst_snoc, in_fst
            | intuition (try congruence; try lia; eauto 4 using in_fst)].

Ltac solveS t :=
  intros;
  repeat match goal with
         | H : context [upd _ t _ ?x] |- _ => tcase x t
         | |- context [upd _ t _ ?x] => tcase x t
         end;
  simpl in *; inst; fin.

Lemma pool_same_holding s t p hs :
  holding (pcs s t) = true -> holding p = true ->
  (forall t', In t' hs <-> holding (pcs s t') = true) ->
  (forall t', In t' hs <-> holding (upd (pcs s) t p t') = true).
Proof.
  intros H1 H2 H t'. tcase t' t; [rewrite H; tauto | apply H].
Qed.

Ltac poolS t :=
  match goal with Hp : exists hs, NoDup hs /\ _ |- _ =>
    let hs := fresh "hs" in destruct Hp as (hs & ? & ? & ?); exists hs;
    split; [assumption|split; [apply pool_same_holding;
      [match goal with Hq : pcs _ t = _ |- _ => rewrite Hq; reflexivity end|reflexivity|assumption] | assumption]] end.

(* facts about the stepping thread used by several cases *)
Lemma not_in_batch s t : InvS s -> pcs s t <> Wait -> is_main (pcs s t) = false -> ~ In t (batch s).
Proof.
  intros I H1 H2 Hin. unfold batch in Hin. apply in_map_iff in Hin as ((t', c) & E & Hin). simpl in E. subst t'.
  destruct (i_items s I t c Hin) as [[H|H] _]; congruence.
Qed.

Lemma not_in_pending s t : InvS s -> pcs s t <> Wait -> ~ In t (map fst (pending s)).
Proof.
  intros I H1 Hin. apply in_map_iff in Hin as ((t', c) & E & Hin). simpl in E. subst t'.
  destruct (i_pend s I t c Hin) as [H _]. congruence.
Qed.

Lemma pool_none s : InvS s -> pool s = None ->
  (forall t, holding (pcs s t) = false) /\ items s = [] /\ pending s = [].
Proof.
  intros I Hp. destruct (i_pool s I) as (hs & _ & Hin & Hm). rewrite Hp in Hm. subst hs.
  assert (Hh : forall t, holding (pcs s t) = false).
  { intro t. destruct (holding (pcs s t)) eqn:E; auto. apply Hin in E. destruct E. }
  split; auto. split.
  - destruct (items s) as [|[t c] l] eqn:E; auto.
    destruct (i_items s I t c) as [[H|H] _]; [rewrite E; now left| |];
      specialize (Hh t); [rewrite H in Hh | apply main_holding in H; rewrite H in Hh]; discriminate.
  - destruct (pending s) as [|[t c] l] eqn:E; auto.
    destruct (i_pend s I t c) as [H _]; [rewrite E; now left|].
    specialize (Hh t). rewrite H in Hh. discriminate.
Qed.

Lemma token_or_main_keep s t p :
  is_main (pcs s t) = false \/ is_main p = true ->
  token s = true \/ (exists t0, is_main (pcs s t0) = true) ->
  token s = true \/ exists t0, is_main (upd (pcs s) t p t0) = true.
Proof.
  intros Hc [H|(t0 & H)]; auto. right. destruct (Nat.eq_dec t0 t) as [->|Hne].
  - destruct Hc as [Hc|Hc]; [congruence|]. exists t. now rewrite upd_eq.
  - exists t0. now rewrite upd_neq.
Qed.

Ltac tomS := solve [let Hx := fresh "Hx" in intro Hx; apply token_or_main_keep;
  [first [left; match goal with Hq : pcs _ _ = _ |- _ => rewrite Hq; reflexivity end | right; reflexivity]
  | match goal with Hi : _ <> [] -> _ \/ _ |- _ => apply Hi; exact Hx end]].


Ltac dS I := destruct I as [i_items0 i_items_nd0 i_pend0 i_pend_nd0 i_main_in0 i_main_unique0 i_token0 i_nomain0 i_committed0 i_applied0 i_got0 i_wait0 i_token_or_main0 i_pool0].
