(* CopyImplDst: the destination of the protocol LTS is link-closed at every reachable state; a push is
   enabled only when the successors are in the destination; success means the closure of the roots is
   there; a fault-free rerun from whatever a first call left completes the graph. *)
From Coq Require Import List Arith Bool Lia.
From Oras Require Import Model.CopyImpl Model.CopyImplDst Proofs.CopyImplBase Proofs.CopyImplInv Proofs.CopyImplInv2
  Proofs.CopyImplLive Proofs.CopyImplFault Proofs.CopyImplSucc Proofs.CopyImplSucc2 Proofs.CopyImplOrder
  Proofs.CopyImplNoFault.
Import ListNotations.

Lemma dmem_In n l : dmem n l = true <-> In n l.
Proof.
  unfold dmem. rewrite existsb_exists. split.
  - intros [x [Hx He]]. apply Nat.eqb_eq in He. now subst.
  - intro H. exists n. split; [assumption | apply Nat.eqb_refl].
Qed.

Section Proofs.
Variable succ : nat -> list nat.
Variable K : nat.
Variable ext : bool.
Variable roots : list nat.
Variable d0 : list nat.
Hypothesis succ_dec : forall n m, In m (succ n) -> m < n.
Local Notation Reachable := (Reachable succ K ext roots).

Inductive DReachable : dstate -> Prop :=
| DR_init : DReachable (dinit K ext roots d0)
| DR_step x l x' : DReachable x -> dstep succ x l = Some x' -> DReachable x'.

Definition dclosed (d : list nat) : Prop := forall n, In n d -> forall m, In m (succ n) -> In m d.

(* what a step of the wrapper is underneath *)
Lemma dstep_step x dl x' : dstep succ x dl = Some x' -> step succ (ds x) (dlab dl) = Some (ds x').
Proof.
  unfold dstep. destruct (step succ (ds x) (dlab dl)) as [s'|]; [|discriminate].
  destruct dl as [l|t]; [|intro H; injection H as <-; reflexivity].
  destruct l; try (intro H; injection H as <-; reflexivity).
  - destruct r; try (intro H; injection H as <-; reflexivity);
    destruct (dmem _ _); try discriminate; intro H; injection H as <-; reflexivity.
  - destruct ok; intro H; injection H as <-; reflexivity.
Qed.

Lemma dreach_proj x : DReachable x -> Reachable (ds x).
Proof.
  induction 1 as [|x l x' Hr IH Hs].
  - constructor.
  - econstructor; [exact IH | eapply dstep_step; eauto].
Qed.

(* the destination only grows *)
Lemma dstep_mono x dl x' : dstep succ x dl = Some x' -> forall n, In n (dd x) -> In n (dd x').
Proof.
  unfold dstep. destruct (step succ (ds x) (dlab dl)) as [s'|]; [|discriminate].
  destruct dl as [l|t]; [|intro H; injection H as <-; cbn; auto].
  destruct l; try (intro H; injection H as <-; cbn; auto).
  - destruct r; try (intro H; injection H as <-; cbn; auto);
    destruct (dmem _ _); try discriminate; intro H; injection H as <-; cbn; auto.
  - destruct ok; intro H; injection H as <-; cbn; auto.
Qed.

(* where a Done mark comes from *)
Lemma done_origin s l s' n : step succ s l = Some s' -> is_done (tracker s' n) = true ->
  is_done (tracker s n) = true \/
  (exists t, (l = LPush t true \/ l = LExists t ExTrue) /\ n = t_node (tasks s t)).
Proof.
  intros Hs Hd. step_cases l Hs; auto.
  all: try solve [upd_cases; auto; try discriminate;
                  right; eexists; split; [first [left; reflexivity | right; reflexivity] | reflexivity]].
  all: upd_cases; cbn [is_done] in *; try discriminate; auto.
Qed.

(* every node marked Done in the tracker is in the destination *)
Definition J (x : dstate) : Prop := forall n, is_done (tracker (ds x) n) = true -> In n (dd x).

Lemma J_init : J (dinit K ext roots d0).
Proof. intros n. cbn. discriminate. Qed.

Lemma J_step x dl x' : J x -> dstep succ x dl = Some x' -> J x'.
Proof.
  intros HJ Hs n Hn.
  pose proof (dstep_step _ _ _ Hs) as Hst.
  destruct (done_origin _ _ _ n Hst Hn) as [Hold|[t [Hl ->]]].
  - eapply dstep_mono; eauto.
  - unfold dstep in Hs. rewrite Hst in Hs.
    destruct dl as [l|t']; cbn [dlab] in Hl.
    + destruct Hl as [->| ->].
      * injection Hs as <-. cbn. auto.
      * destruct (dmem (t_node (tasks (ds x) t)) (dd x)) eqn:E; [|discriminate].
        injection Hs as <-. cbn. now apply dmem_In.
    + destruct Hl as [Hl|Hl]; discriminate.
Qed.

Lemma J_reach x : DReachable x -> J x.
Proof. induction 1; [apply J_init | eapply J_step; eauto]. Qed.

(* ---- pushes come after the successors ---- *)

Lemma dpush_after_successors x dl x' t :
  DReachable x -> dstep succ x dl = Some x' ->
  (exists ok, dl = DL (LPush t ok)) \/ dl = DPushFailStored t ->
  forall m, In m (succ (t_node (tasks (ds x) t))) -> In m (dd x).
Proof.
  intros Hr Hs Hl m Hm. apply (J_reach x Hr).
  pose proof (dstep_step _ _ _ Hs) as Hst.
  destruct Hl as [[ok ->]| ->]; cbn [dlab] in Hst;
    eapply (push_after_done succ K ext roots succ_dec); eauto using dreach_proj.
Qed.

(* ---- closed at every reachable state ---- *)

Lemma dclosed_step x dl x' : DReachable x -> dclosed (dd x) -> dstep succ x dl = Some x' -> dclosed (dd x').
Proof.
  intros Hr Hc Hs.
  assert (Hadd : dd x' = dd x \/ exists t, dd x' = t_node (tasks (ds x) t) :: dd x /\
                   ((exists ok, dl = DL (LPush t ok)) \/ dl = DPushFailStored t)).
  { pose proof Hs as Hs0. unfold dstep in Hs0. destruct (step succ (ds x) (dlab dl)) as [s'|]; [|discriminate].
    destruct dl as [l|t]; [|injection Hs0 as <-; right; exists t; cbn; auto].
    destruct l; try (injection Hs0 as <-; left; reflexivity).
    - destruct r; try (injection Hs0 as <-; left; reflexivity);
      destruct (dmem _ _); try discriminate; injection Hs0 as <-; left; reflexivity.
    - destruct ok; injection Hs0 as <-; [right; exists t; cbn; split; eauto | left; reflexivity]. }
  destruct Hadd as [->|[t [-> Hl]]]; [exact Hc|].
  intros n [<-|Hn] m Hm.
  - right. eapply dpush_after_successors; eauto.
  - right. eapply Hc; eauto.
Qed.

Theorem dclosed_always x : dclosed d0 -> DReachable x -> dclosed (dd x).
Proof.
  intros Hc Hr. induction Hr as [|x l x' Hr IH Hs]; [exact Hc|].
  eapply dclosed_step; eauto.
Qed.

(* ---- success: the closure of the roots is in the destination ---- *)

Inductive dreach : nat -> nat -> Prop :=
| dreach_refl a : dreach a a
| dreach_step a m b : In m (succ a) -> dreach m b -> dreach a b.

Lemma dclosed_reach d a b : dclosed d -> dreach a b -> In a d -> In b d.
Proof. intros Hc Hr. induction Hr; auto. intro Ha. apply IHHr. eapply Hc; eauto. Qed.

Theorem dsuccess_complete x : dclosed d0 -> DReachable x -> result (ds x) = Some false ->
  forall r n, In r roots -> dreach r n -> In n (dd x).
Proof.
  intros Hc Hr Hres r n Hin Hrn.
  destruct (success_tracker succ K ext roots succ_dec (ds x) (dreach_proj x Hr) Hres) as [_ [_ [Hroots _]]].
  eapply dclosed_reach; eauto using dclosed_always.
  apply (J_reach x Hr). now apply Hroots.
Qed.

(* ---- runs ---- *)

Lemma drun_reach ls : forall x x', DReachable x -> drun succ x ls = Some x' -> DReachable x'.
Proof.
  induction ls as [|l ls IH]; cbn; intros x x' Hr H.
  - now injection H as <-.
  - destruct (dstep succ x l) as [x1|] eqn:E; [|discriminate]. eapply IH; [econstructor; eauto | exact H].
Qed.

Lemma drun_run ls : forall x x', drun succ x ls = Some x' -> run succ (ds x) (map dlab ls) = Some (ds x').
Proof.
  induction ls as [|l ls IH]; cbn; intros x x' H.
  - now injection H as <-.
  - destruct (dstep succ x l) as [x1|] eqn:E; [|discriminate].
    rewrite (dstep_step _ _ _ E). now apply IH.
Qed.

End Proofs.

(* ---- retry: whatever a first call left (any reachable state, failed / cancelled / unfinished), a second
   call in which nothing fails and which has ended returned nil and holds the closure of its roots ---- *)
Theorem drerun_completes (succ : nat -> list nat) K1 ext1 roots1 K2 ext2 roots2 d0 :
  (forall n m, In m (succ n) -> m < n) -> dclosed succ d0 ->
  forall x1, DReachable succ K1 ext1 roots1 d0 x1 ->
  forall ls x2, drun succ (dinit K2 ext2 roots2 (dd x1)) ls = Some x2 ->
  existsb is_fault (map dlab ls) = false -> is_final (ds x2) = true ->
  result (ds x2) = Some false /\
  dclosed succ (dd x2) /\
  forall r n, In r roots2 -> dreach succ r n -> In n (dd x2).
Proof.
  intros Hdec Hc x1 Hr1 ls x2 Hrun Hnf Hfin.
  pose proof (dclosed_always succ K1 ext1 roots1 d0 Hdec x1 Hc Hr1) as Hc1.
  assert (Hr2 : DReachable succ K2 ext2 roots2 (dd x1) x2).
  { eapply drun_reach; eauto. constructor. }
  pose proof (drun_run succ ls _ _ Hrun) as Hrun0. cbn [dinit ds] in Hrun0.
  destruct (nofault_returns_nil succ K2 ext2 roots2 Hdec _ _ Hrun0 Hnf Hfin) as [_ Hres].
  split; [exact Hres|]. split.
  - eapply dclosed_always; eauto.
  - eapply dsuccess_complete; eauto.
Qed.
