(* CopyImplDst: the destination inside the protocol LTS.  At EVERY reachable state of the combined
   system (any interleaving, any fault placement incl. a push failing after it stored, any
   cancellation point, unfinished executions included) the destination is closed under successors,
   a push stores a node only when all its successors are already stored, and a successful return
   means that everything reachable from the roots is stored.  Plus: the combined system projects to
   the protocol LTS, so deadlock freedom, termination, "fault => error", "no fault => nil" carry over. *)
From Coq Require Import List Arith Bool Lia.
From Oras Require Import Model.CopyImpl Model.CopyImplDst Proofs.CopyImplBase Proofs.CopyImplInv Proofs.CopyImplInv2
  Proofs.CopyImplLive Proofs.CopyImplDeadlock Proofs.CopyImplFault Proofs.CopyImplTerm Proofs.CopyImplSucc
  Proofs.CopyImplSucc2 Proofs.CopyImplOrder Proofs.CopyImplNoFault.
Import ListNotations.

Definition closed (succ : nat -> list nat) (d : nat -> bool) : Prop :=
  forall n, d n = true -> forall m, In m (succ n) -> d m = true.

(* reach succ r n: n is reachable from r along successor links *)
Inductive reach (succ : nat -> list nat) (r : nat) : nat -> Prop :=
| reach_refl : reach succ r r
| reach_step n m : reach succ r n -> In m (succ n) -> reach succ r m.

Section Proofs.
Variable succ : nat -> list nat.
Variable K : nat.
Variable ext : bool.
Variable roots : list nat.
Variable d0 : nat -> bool.
Hypothesis succ_dec : forall n m, In m (succ n) -> m < n.
Local Notation Reachable := (Reachable succ K ext roots).

Inductive DReachable : dstate -> Prop :=
| DR_init : DReachable (dinit K ext roots d0)
| DR_step x dl x' : DReachable x -> dstep succ x dl = Some x' -> DReachable x'.

Lemma dstep_base x dl x' : dstep succ x dl = Some x' -> step succ (d_st x) (base_label dl) = Some (d_st x').
Proof.
  unfold dstep. intros H. destruct (exists_guard x dl); [|discriminate].
  destruct (step succ (d_st x) (base_label dl)); [|discriminate]. inversion H. reflexivity.
Qed.
Lemma dstep_dst x dl x' : dstep succ x dl = Some x' ->
  d_dst x' = match stores (d_st x) dl with Some n => upd (d_dst x) n true | None => d_dst x end.
Proof.
  unfold dstep. intros H. destruct (exists_guard x dl); [|discriminate].
  destruct (step succ (d_st x) (base_label dl)); [|discriminate]. inversion H. reflexivity.
Qed.
Lemma dstep_guard x dl x' : dstep succ x dl = Some x' -> exists_guard x dl = true.
Proof. unfold dstep. destruct (exists_guard x dl); [auto|discriminate]. Qed.

Lemma dreach_base x : DReachable x -> Reachable (d_st x).
Proof.
  induction 1 as [|x dl x' Hr IH Hs].
  - constructor.
  - econstructor; eauto. apply dstep_base; eauto.
Qed.

Lemma drun_base ls : forall x x', drun succ x ls = Some x' ->
  run succ (d_st x) (map base_label ls) = Some (d_st x').
Proof.
  induction ls as [|l ls IH]; cbn; intros x x' H.
  - inversion H. reflexivity.
  - destruct (dstep succ x l) as [x1|] eqn:Hs; [|discriminate].
    rewrite (dstep_base _ _ _ Hs). apply IH. auto.
Qed.
Lemma drun_reachable ls : forall x x', DReachable x -> drun succ x ls = Some x' -> DReachable x'.
Proof.
  induction ls as [|l ls IH]; cbn; intros x x' Hr H.
  - inversion H. subst. auto.
  - destruct (dstep succ x l) as [x1|] eqn:Hs; [|discriminate]. apply (IH x1); auto. econstructor; eauto.
Qed.
Lemma dfault_map ls : existsb dis_fault ls = existsb is_fault (map base_label ls).
Proof. induction ls; cbn; auto. rewrite IHls. reflexivity. Qed.

(* how a node becomes Done: only by Exists answering true or by a push returning nil *)
Lemma done_origin s l s' m : step succ s l = Some s' -> is_done (tracker s' m) = true ->
  is_done (tracker s m) = true \/
  (exists t, (l = LExists t ExTrue \/ l = LPush t true) /\ m = t_node (tasks s t)).
Proof.
  intros Hs Hm. step_cases l Hs; auto.
  all: try solve [ upd_cases; cbn in *; auto; try discriminate; right; eexists; split; [eauto|reflexivity] ].
  all: unfold upd in Hm; destruct (Nat.eqb m _); cbn in Hm; [discriminate | auto].
Qed.

(* the destination invariant *)
Definition DInv (x : dstate) : Prop :=
  (forall m, is_done (tracker (d_st x) m) = true -> d_dst x m = true) /\
  closed succ (d_dst x) /\
  (forall n, d0 n = true -> d_dst x n = true).

Lemma closed_upd d n : closed succ d -> (forall m, In m (succ n) -> d m = true) -> closed succ (upd d n true).
Proof.
  intros Hc Hn a Ha m Hm. unfold upd in *.
  destruct (Nat.eqb_spec m n); auto. destruct (Nat.eqb_spec a n); subst; eauto.
Qed.

(* a label that stores node n fires at pc TPush of a task of copyGraph.fn: all successors Done *)
Lemma stores_successors_done x dl x' n : DReachable x -> dstep succ x dl = Some x' ->
  stores (d_st x) dl = Some n -> forall m, In m (succ n) -> is_done (tracker (d_st x) m) = true.
Proof.
  intros Hr Hs Hst m Hm. pose proof (dreach_base x Hr) as Hb. pose proof (dstep_base _ _ _ Hs) as Hbs.
  destruct dl as [l|t].
  - destruct l; cbn in Hst; try discriminate. destruct ok; cbn in Hst; try discriminate.
    inversion Hst; subst. cbn [base_label] in Hbs. eapply (push_after_done succ K ext roots succ_dec (d_st x) t true); eauto.
  - cbn in Hst. inversion Hst; subst. cbn [base_label] in Hbs. eapply (push_after_done succ K ext roots succ_dec (d_st x) t false); eauto.
Qed.

Lemma dinv_step x dl x' : DReachable x -> DInv x -> dstep succ x dl = Some x' -> DInv x'.
Proof.
  intros Hr [Hdone [Hcl Hmono]] Hs.
  pose proof (dstep_base _ _ _ Hs) as Hbs. pose proof (dstep_dst _ _ _ Hs) as Hd.
  pose proof (dstep_guard _ _ _ Hs) as Hg.
  assert (Hsucc : forall n, stores (d_st x) dl = Some n -> forall m, In m (succ n) -> d_dst x m = true).
  { intros n Hn m Hm. apply Hdone. eapply stores_successors_done; eauto. }
  split; [|split].
  - intros m Hm. rewrite Hd.
    destruct (done_origin _ _ _ m Hbs Hm) as [Hold|[t [Hl ->]]].
    + specialize (Hdone m Hold). destruct (stores (d_st x) dl); auto. unfold upd. destruct (Nat.eqb _ _); auto.
    + destruct Hl as [Hl|Hl].
      * destruct dl as [l|t']; cbn in Hl; [subst l|discriminate]. cbn in Hg. cbn [stores]. auto.
      * destruct dl as [l|t']; cbn in Hl; [subst l|discriminate]. cbn [stores]. apply upd_same.
  - rewrite Hd. destruct (stores (d_st x) dl) as [n|] eqn:Hst; auto. apply closed_upd; auto.
    first [ apply Hsucc; auto; fail | intros m Hm; eapply Hsucc; [reflexivity|auto] ].
  - intros n Hn. rewrite Hd. specialize (Hmono n Hn). destruct (stores (d_st x) dl); auto.
    unfold upd. destruct (Nat.eqb _ _); auto.
Qed.

Lemma dinv_reach x : closed succ d0 -> DReachable x -> DInv x.
Proof.
  intros Hc. induction 1 as [|x dl x' Hr IH Hs].
  - split; [|split]; cbn; auto. intros m Hm. discriminate.
  - eapply dinv_step; eauto.
Qed.

(* 1. closed at every instant; Done nodes are present; the initial content is never lost *)
Theorem dst_closed_always x : closed succ d0 -> DReachable x ->
  closed succ (d_dst x) /\
  (forall m, is_done (tracker (d_st x) m) = true -> d_dst x m = true) /\
  (forall n, d0 n = true -> d_dst x n = true).
Proof. intros Hc Hr. destruct (dinv_reach x Hc Hr) as [A [B C]]. auto. Qed.

(* 2. no push stores a node before all its successors are stored (also a push that then fails) *)
Theorem push_stores_after_successors x dl x' n : closed succ d0 -> DReachable x ->
  dstep succ x dl = Some x' -> stores (d_st x) dl = Some n ->
  forall m, In m (succ n) -> d_dst x m = true.
Proof.
  intros Hc Hr Hs Hst m Hm. destruct (dinv_reach x Hc Hr) as [A _]. apply A.
  eapply stores_successors_done; eauto.
Qed.

(* 3. content appears in the destination only through a push of this call *)
Theorem dst_written_only_by_push x dl x' n : dstep succ x dl = Some x' ->
  d_dst x' n = true -> d_dst x n = true \/ stores (d_st x) dl = Some n.
Proof.
  intros Hs Hn. rewrite (dstep_dst _ _ _ Hs) in Hn. destruct (stores (d_st x) dl) as [k|]; auto.
  unfold upd in Hn. destruct (Nat.eqb_spec n k); subst; auto.
Qed.

Lemma closed_reach d r n : closed succ d -> d r = true -> reach succ r n -> d n = true.
Proof. intros Hc Hr. induction 1; eauto. Qed.

(* 4. a successful return: everything reachable from every root is stored *)
Theorem success_complete x : closed succ d0 -> DReachable x -> result (d_st x) = Some false ->
  forall r, In r roots -> forall n, reach succ r n -> d_dst x n = true.
Proof.
  intros Hc Hr Hres r Hin n Hn. destruct (dinv_reach x Hc Hr) as [A [B _]].
  destruct (success_tracker succ K ext roots succ_dec (d_st x) (dreach_base x Hr) Hres) as [_ [_ [Hroots _]]].
  eapply closed_reach; eauto.
Qed.

(* 5. the combined system does not deadlock either: the Exists answer is determined by the
   destination, every other protocol step is as enabled as before *)
Lemma exists_any s t r s' : step succ s (LExists t r) = Some s' ->
  forall r', exists s'', step succ s (LExists t r') = Some s''.
Proof.
  cbn. intros H r'. destruct (t_pc (tasks s t)); try discriminate. destruct r'; eexists; reflexivity.
Qed.

Theorem dno_deadlock x : 1 <= K -> DReachable x -> is_final (d_st x) = false ->
  exists dl x', dprogress_label dl = true /\ dstep succ x dl = Some x'.
Proof.
  intros HK Hr Hnf.
  destruct (no_deadlock succ K ext roots succ_dec (d_st x) HK (dreach_base x Hr) Hnf) as [l [s' [Hp [Hs _]]]].
  assert (Hgen : forall l0 s0, progress_label l0 = true -> step succ (d_st x) l0 = Some s0 ->
                 exists_guard x (DL l0) = true -> exists dl x', dprogress_label dl = true /\ dstep succ x dl = Some x').
  { intros l0 s0 Hp0 Hs0 Hg. exists (DL l0). eexists. split; [exact Hp0|].
    unfold dstep. rewrite Hg. cbn [base_label]. rewrite Hs0. reflexivity. }
  destruct l; try (eapply Hgen; eauto; reflexivity).
  (* LExists: answer what the destination holds *)
  destruct (d_dst x (t_node (tasks (d_st x) t))) eqn:Hd.
  - destruct (exists_any _ _ _ _ Hs ExTrue) as [s1 Hs1]. eapply (Hgen (LExists t ExTrue)); eauto.
  - destruct (exists_any _ _ _ _ Hs ExFalse) as [s1 Hs1]. eapply (Hgen (LExists t ExFalse)); eauto; cbn; rewrite ?Hd; auto.
Qed.

Section Bounded.
Variable N : nat.
Hypothesis roots_lt : forall r, In r roots -> r < N.

(* 6. every execution of the combined system is finite, with the bound of the protocol model *)
Theorem dterminates ls x : drun succ (dinit K ext roots d0) ls = Some x -> length ls <= bound succ ext roots N.
Proof.
  intros H. pose proof (drun_base ls _ _ H) as Hb. cbn in Hb.
  pose proof (terminates succ K ext roots N succ_dec roots_lt _ _ Hb) as Ht. rewrite map_length in Ht. auto.
Qed.
End Bounded.

(* 7. the property, end to end, for one call on a closed destination: closed throughout; a fault
   or cancellation => error; no fault => nil and the whole graph under the roots is stored *)
Theorem call_summary ls x : closed succ d0 -> drun succ (dinit K ext roots d0) ls = Some x ->
  closed succ (d_dst x) /\
  (forall n, d0 n = true -> d_dst x n = true) /\
  (is_final (d_st x) = true ->
     (existsb dis_fault ls = true -> result (d_st x) = Some true) /\
     (existsb dis_fault ls = false -> result (d_st x) = Some false /\
        forall r, In r roots -> forall n, reach succ r n -> d_dst x n = true)).
Proof.
  intros Hc Hrun.
  assert (Hr : DReachable x) by (eapply drun_reachable; eauto; constructor).
  destruct (dst_closed_always x Hc Hr) as [A [_ C]].
  split; auto. split; auto. intros Hfin.
  pose proof (drun_base ls _ _ Hrun) as Hb. cbn in Hb. rewrite dfault_map.
  split; intros Hf.
  - eapply fault_surfaces; eauto.
  - destruct (nofault_returns_nil succ K ext roots succ_dec _ _ Hb Hf Hfin) as [_ Hres].
    split; auto. eapply success_complete; eauto.
Qed.

End Proofs.

(* 8. retry: after ANY first call (failed, cancelled, abandoned at any point) on a closed destination,
   a fault-free second call on what the first one left behind, once it has ended, has returned nil
   and the destination holds everything reachable from its roots - and it does end (dterminates,
   dno_deadlock) *)
Theorem retry_completes succ K1 ext1 roots1 K2 ext2 roots2 d0 ls1 x1 ls2 x2 :
  (forall n m, In m (succ n) -> m < n) -> closed succ d0 ->
  drun succ (dinit K1 ext1 roots1 d0) ls1 = Some x1 ->
  drun succ (dinit K2 ext2 roots2 (d_dst x1)) ls2 = Some x2 ->
  existsb dis_fault ls2 = false -> is_final (d_st x2) = true ->
  result (d_st x2) = Some false /\ closed succ (d_dst x2) /\
  (forall r, In r roots2 -> forall n, reach succ r n -> d_dst x2 n = true) /\
  (forall n, d0 n = true -> d_dst x2 n = true).
Proof.
  intros Hdec Hc H1 H2 Hnf Hfin.
  destruct (call_summary succ K1 ext1 roots1 d0 Hdec ls1 x1 Hc H1) as [Hc1 [Hm1 _]].
  destruct (call_summary succ K2 ext2 roots2 (d_dst x1) Hdec ls2 x2 Hc1 H2) as [Hc2 [Hm2 Hf2]].
  destruct (Hf2 Hfin) as [_ Hok]. destruct (Hok Hnf) as [Hres Hall].
  repeat split; auto.
Qed.
