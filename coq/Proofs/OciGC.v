(* Lemmas about Model/OciGC.v: Store.GC keeps exactly the live set and terminates;
   Store.Delete with AutoGC removes exactly the least cascade set and terminates;
   both for every iteration order of Go's maps. *)
From Coq Require Import List Arith Bool PeanoNat Lia.
Import ListNotations.
From Oras Require Import Model.OciGC.

(* ------------------------------------------------------------------ *)
(* list-as-set basics *)

Lemma memb_In x l : memb x l = true <-> In x l.
Proof.
  unfold memb. rewrite existsb_exists. split.
  - intros (y & Hy & E). apply Nat.eqb_eq in E. now subst.
  - intro H. exists x. split; [assumption|apply Nat.eqb_refl].
Qed.

Lemma memb_false x l : memb x l = false <-> ~ In x l.
Proof.
  rewrite <- memb_In. destruct (memb x l); split; intro H.
  - discriminate.
  - exfalso. now apply H.
  - intro; discriminate.
  - reflexivity.
Qed.

Lemma dedup_In x l : In x (dedup l) <-> In x l.
Proof.
  induction l as [|a l IH]; simpl; [tauto|].
  destruct (memb a l) eqn:E.
  - rewrite IH. split; [now right|]. intros [->|H]; [now apply memb_In|assumption].
  - simpl. rewrite IH. tauto.
Qed.

Lemma dedup_NoDup l : NoDup (dedup l).
Proof.
  induction l as [|a l IH]; simpl; [constructor|].
  destruct (memb a l) eqn:E; [assumption|].
  constructor; [|assumption]. rewrite dedup_In. now apply memb_false.
Qed.

Lemma removeb_In y x l : In y (removeb x l) <-> In y l /\ y <> x.
Proof.
  unfold removeb. rewrite filter_In. rewrite negb_true_iff, Nat.eqb_neq. tauto.
Qed.

Lemma NoDup_app_intro {A} (l1 l2 : list A) :
  NoDup l1 -> NoDup l2 -> (forall y, In y l1 -> In y l2 -> False) -> NoDup (l1 ++ l2).
Proof.
  induction l1 as [|a l1 IH]; simpl; intros H1 H2 Hd; [assumption|].
  inversion H1; subst. constructor.
  - intro H. apply in_app_or in H as [H|H]; [contradiction|]. eapply Hd; eauto.
  - apply IH; auto. intros y Hy. apply Hd. now right.
Qed.

Lemma filter_all_true {A} (f : A -> bool) l : (forall x, In x l -> f x = true) -> filter f l = l.
Proof.
  induction l as [|a l IH]; intro H; [reflexivity|]. simpl. rewrite (H a (or_introl eq_refl)).
  f_equal. apply IH. intros x Hx. apply H. now right.
Qed.

Lemma ref_eqb_eq a b : ref_eqb a b = true <-> a = b.
Proof.
  destruct a, b; simpl; try rewrite Nat.eqb_eq; split; intro H; try discriminate; try congruence.
Qed.

(* ------------------------------------------------------------------ *)
Section Proofs.
Variable succ : nat -> list nat.
Variable subject : nat -> option nat.
Variable manifest : nat -> bool.

(* content addressing: a node's bytes contain the digests of its successors, so
   the graph is acyclic; the generator numbers nodes bottom-up *)
Hypothesis succ_lt : forall n s, In s (succ n) -> s < n.
(* content.Successors lists the subject *)
Hypothesis subj_succ : forall n s, subject n = Some s -> In s (succ n).

Lemma subj_lt n s : subject n = Some s -> s < n.
Proof. intro H. apply succ_lt, subj_succ, H. Qed.

(* ================================================================== *)
(* Part 1: GC *)

(* x is reachable from n through content that is in the storage *)
Inductive Reach (bl : list nat) : nat -> nat -> Prop :=
| R_refl n : In n bl -> Reach bl n n
| R_step n s x : In n bl -> In s (succ n) -> Reach bl s x -> Reach bl n x.

Lemma Reach_in bl n x : Reach bl n x -> In x bl.
Proof. induction 1; assumption. Qed.

Lemma Reach_start bl n x : Reach bl n x -> In n bl.
Proof. destruct 1; assumption. Qed.

Lemma Reach_snoc bl n x s : Reach bl n x -> In s (succ x) -> In s bl -> Reach bl n s.
Proof.
  induction 1 as [n Hn|n s' x Hn Hs' _ IH]; intros Hs Hb.
  - eapply R_step; eauto. now apply R_refl.
  - eapply R_step; eauto.
Qed.

Lemma down_sound bl k : forall n x, In x (down succ bl k n) -> Reach bl n x.
Proof.
  induction k as [|k IH]; intros n x; simpl; destruct (memb n bl) eqn:E; simpl; try tauto.
  - intros [<-|[]]. apply R_refl. now apply memb_In.
  - apply memb_In in E. intros [<-|H]; [now apply R_refl|].
    apply in_flat_map in H as (s & Hs & Hx). eapply R_step; eauto.
Qed.

Lemma down_complete bl n x : Reach bl n x -> forall k, n <= k -> In x (down succ bl k n).
Proof.
  induction 1 as [n Hn|n s x Hn Hs _ IH]; intros k Hk.
  - apply memb_In in Hn. destruct k; simpl; rewrite Hn; now left.
  - pose proof (succ_lt _ _ Hs) as Hlt. apply memb_In in Hn.
    destruct k as [|k]; [lia|]. simpl. rewrite Hn. right.
    apply in_flat_map. exists s. split; [assumption|]. apply IH. lia.
Qed.

Lemma closure_spec bl n x : In x (closure succ bl n) <-> Reach bl n x.
Proof.
  unfold closure. split; [apply down_sound|]. intro H. now apply down_complete.
Qed.

(* s is met by the subject walk that starts at r *)
Inductive Chain (bl : list nat) : nat -> nat -> Prop :=
| C_one r s : In r bl -> subject r = Some s -> Chain bl r s
| C_step r m s : In r bl -> subject r = Some m -> Chain bl m s -> Chain bl r s.

Lemma walk_spec bl g : forall fuel cur, cur < fuel ->
  exists b, walk subject manifest true bl g fuel cur = Some b /\
            (b = true <-> exists s, Chain bl cur s /\ In s g /\ manifest s = true).
Proof.
  induction fuel as [|f IH]; intros cur Hlt; [lia|]. simpl.
  destruct (memb cur bl) eqn:Eb.
  - apply memb_In in Eb. destruct (subject cur) as [s|] eqn:Es.
    + cbn [negb orb]. destruct (memb s g && manifest s) eqn:Eg.
      * exists true. split; [reflexivity|]. split; [|reflexivity]. intros _.
        apply andb_true_iff in Eg as [Eg Em].
        exists s. split; [now apply C_one|split; [now apply memb_In|assumption]].
      * pose proof (subj_lt _ _ Es) as Hs.
        destruct (IH s ltac:(lia)) as (b & Hw & Hb). exists b. split; [assumption|].
        rewrite Hb. split.
        -- intros (s' & Hc & Hg). exists s'. split; [eapply C_step; eauto|assumption].
        -- intros (s' & Hc & Hg & Hm). inversion Hc; subst.
           ++ assert (s' = s) by congruence. subst. apply memb_In in Hg. rewrite Hg, Hm in Eg. discriminate.
           ++ assert (m = s) by congruence. subst. eauto.
    + exists false. split; [reflexivity|]. split; [discriminate|].
      intros (s' & Hc & _). inversion Hc; congruence.
  - exists false. split; [reflexivity|]. split; [discriminate|].
    intros (s' & Hc & _). apply memb_false in Eb. inversion Hc; contradiction.
Qed.

Lemma tagged_nodes_In ix n : In n (tagged_nodes ix) <-> exists t, In (RTag t, n) ix.
Proof.
  unfold tagged_nodes. rewrite in_flat_map. split.
  - intros ([r m] & He & Hn). simpl in Hn. destruct r; simpl in Hn; try contradiction.
    destruct Hn as [<-|[]]. eauto.
  - intros (t & H). exists (RTag t, n). split; [assumption|now left].
Qed.

Lemma candidates_In ix n :
  In n (candidates ix) <-> (exists d, In (RDig d, n) ix) /\ ~ In n (tagged_nodes ix).
Proof.
  unfold candidates. rewrite in_flat_map. split.
  - intros ([r m] & He & Hn). simpl in Hn. destruct r; simpl in Hn; try contradiction.
    destruct (memb m (tagged_nodes ix)) eqn:E; [contradiction|].
    destruct Hn as [<-|[]]. apply memb_false in E. eauto.
  - intros ((d & H) & Hn). exists (RDig d, n). split; [assumption|]. simpl.
    apply memb_false in Hn. rewrite Hn. now left.
Qed.

Section GC.
Variable st : state.
Let bl := blobs st.
Let ix := idx st.

(* the live set of GC: least set containing what is reachable from a tagged
   descriptor and, for every digest-indexed descriptor r whose subject chain meets
   a live node, what is reachable from r *)
Inductive Live : nat -> Prop :=
| L_tag t n x : In (RTag t, n) ix -> Reach bl n x -> Live x
| L_ref d r s x : In (RDig d, r) ix -> Chain bl r s -> Live s -> manifest s = true ->
                  Reach bl r x -> Live x.

Lemma Live_in x : Live x -> In x bl.
Proof. destruct 1; eapply Reach_in; eauto. Qed.

(* invariant of the referrer passes *)
Record GInv (g kept : list nat) : Prop := {
  gi_sound : forall x, In x g -> Live x;
  gi_closed : forall x s, In x g -> In s (succ x) -> In s bl -> In s g;
  gi_roots : forall t n, In (RTag t, n) ix -> In n bl -> In n g;
  gi_kept : forall r, In r kept -> In r g;
  gi_nodup : NoDup kept;
  gi_cand : forall r, In r kept -> In r (candidates ix) }.

Lemma closed_reach g :
  (forall x s, In x g -> In s (succ x) -> In s bl -> In s g) ->
  forall n x, Reach bl n x -> In n g -> In x g.
Proof.
  intros Hc n x H. induction H as [n Hn|n s x Hn Hs Hr IH]; intro Hg; [assumption|].
  apply IH. eapply Hc; eauto. eapply Reach_start; eauto.
Qed.

Lemma GInv_init : GInv (flat_map (closure succ bl) (tagged_nodes ix)) [].
Proof.
  constructor.
  - intros x H. apply in_flat_map in H as (n & Hn & Hx). apply tagged_nodes_In in Hn as (t & Ht).
    apply closure_spec in Hx. eapply L_tag; eauto.
  - intros x s H Hs Hb. apply in_flat_map in H as (n & Hn & Hx). apply in_flat_map.
    exists n. split; [assumption|]. apply closure_spec. apply closure_spec in Hx.
    eapply Reach_snoc; eauto.
  - intros t n Ht Hb. apply in_flat_map. exists n. split.
    + apply tagged_nodes_In. eauto.
    + apply closure_spec. now apply R_refl.
  - intros r [].
  - constructor.
  - intros r [].
Qed.

Lemma do_walk_fixed g n :
  exists b, do_walk subject manifest cfg_fixed bl g n = Some b /\
            (b = true <-> exists s, Chain bl n s /\ In s g /\ manifest s = true).
Proof. unfold do_walk. cbn [fixF1 fixSubjM cfg_fixed]. apply walk_spec. lia. Qed.

(* one step of a pass *)
Lemma keep_step_spec g kept ch n :
  GInv g kept -> In n (candidates ix) ->
  exists g' kept' ch',
    keep_step succ subject manifest cfg_fixed bl (g, kept, ch, false) n = (g', kept', ch', false) /\
    GInv g' kept' /\
    (forall x, In x g -> In x g') /\
    ((ch' = ch /\ g' = g /\ kept' = kept /\
      (In n kept \/ ~ exists s, Chain bl n s /\ In s g /\ manifest s = true)) \/
     (ch' = true /\ length kept' = S (length kept))).
Proof.
  intros I Hc. unfold keep_step. destruct (memb n kept) eqn:Ek.
  - exists g, kept, ch. split; [reflexivity|]. split; [assumption|]. split; [auto|].
    left. repeat split; try reflexivity. left. now apply memb_In.
  - apply memb_false in Ek. destruct (do_walk_fixed g n) as (b & Hw & Hb). rewrite Hw.
    destruct b.
    + exists (closure succ bl n ++ g), (n :: kept), true. split; [reflexivity|].
      destruct Hb as [Hb _]. destruct (Hb eq_refl) as (s & Hch & Hs & Hms).
      assert (Hnb : In n bl) by (inversion Hch; assumption).
      apply candidates_In in Hc as Hc'. destruct Hc' as ((d & Hd) & _).
      split; [|split; [intros; apply in_or_app; now right|right; split; reflexivity]].
      constructor.
      * intros x Hx. apply in_app_or in Hx as [Hx|Hx]; [|now apply (gi_sound _ _ I)].
        apply closure_spec in Hx. eapply (L_ref d n s x); eauto. now apply (gi_sound _ _ I).
      * intros x s' Hx Hs' Hb'. apply in_or_app. apply in_app_or in Hx as [Hx|Hx].
        -- left. apply closure_spec. apply closure_spec in Hx. eapply Reach_snoc; eauto.
        -- right. eapply (gi_closed _ _ I); eauto.
      * intros t m Ht Hm. apply in_or_app. right. eapply (gi_roots _ _ I); eauto.
      * intros r [<-|Hr]; apply in_or_app.
        -- left. apply closure_spec. now apply R_refl.
        -- right. now apply (gi_kept _ _ I).
      * constructor; [assumption|apply (gi_nodup _ _ I)].
      * intros r [<-|Hr]; [assumption|now apply (gi_cand _ _ I)].
    + exists g, kept, ch. split; [reflexivity|]. split; [assumption|]. split; [auto|].
      left. repeat split; try reflexivity. right. intro H. apply Hb in H. discriminate.
Qed.

(* a whole pass over a list of candidates *)
Lemma pass_spec : forall l g kept ch,
  GInv g kept -> (forall n, In n l -> In n (candidates ix)) ->
  exists g' kept' ch',
    fold_left (keep_step succ subject manifest cfg_fixed bl) l (g, kept, ch, false) = (g', kept', ch', false) /\
    GInv g' kept' /\
    ((ch' = ch /\ g' = g /\ kept' = kept /\
      forall n, In n l -> In n kept \/ ~ exists s, Chain bl n s /\ In s g /\ manifest s = true) \/
     (ch' = true /\ length kept < length kept')).
Proof.
  induction l as [|n l IH]; intros g kept ch I Hl.
  - exists g, kept, ch. split; [reflexivity|]. split; [assumption|]. left. repeat split. intros n [].
  - cbn [fold_left]. destruct (keep_step_spec g kept ch n I (Hl n (or_introl eq_refl)))
      as (g1 & k1 & c1 & Hs & I1 & Hmono & Hcase).
    rewrite Hs. destruct (IH g1 k1 c1 I1 (fun m Hm => Hl m (or_intror Hm)))
      as (g2 & k2 & c2 & Hf & I2 & Hcase2).
    exists g2, k2, c2. split; [assumption|]. split; [assumption|].
    destruct Hcase as [(-> & -> & -> & Hn)|(-> & Hlen)].
    + destruct Hcase2 as [(-> & -> & -> & Hrest)|(-> & Hlen2)].
      * left. repeat split. intros m [<-|Hm]; auto.
      * right. split; [reflexivity|assumption].
    + right. destruct Hcase2 as [(-> & -> & -> & _)|(-> & Hlen2)]; split; try reflexivity; lia.
Qed.

Variable ords : nat -> list nat.
Hypothesis ords_perm : forall i n, In n (ords i) <-> In n (candidates ix).

Lemma kept_bound g kept : GInv g kept -> length kept <= length (candidates ix).
Proof. intro I. apply NoDup_incl_length; [apply (gi_nodup _ _ I)|]. intros r. apply (gi_cand _ _ I). Qed.

Lemma gc_passes_spec : forall fuel i g kept,
  GInv g kept -> length (candidates ix) < fuel + length kept ->
  exists g' kept',
    gc_passes succ subject manifest cfg_fixed bl ords fuel i g kept = Some (g', kept') /\
    GInv g' kept' /\
    forall n, In n (candidates ix) -> In n kept' \/ ~ exists s, Chain bl n s /\ In s g' /\ manifest s = true.
Proof.
  induction fuel as [|f IH]; intros i g kept I Hf.
  - pose proof (kept_bound _ _ I). lia.
  - simpl. destruct (pass_spec (ords i) g kept false I (fun n Hn => proj1 (ords_perm i n) Hn))
      as (g1 & k1 & c1 & Hp & I1 & Hcase).
    rewrite Hp. destruct Hcase as [(-> & -> & -> & Hall)|(-> & Hlen)].
    + simpl. exists g, kept. split; [reflexivity|]. split; [assumption|].
      intros n Hn. apply Hall. now apply ords_perm.
    + simpl. apply IH; [assumption|lia].
Qed.

Lemma gc_index_spec (kl : bool) :
  exists ix' g,
    gc_index succ subject manifest cfg_fixed kl ords st = Some (ix', g) /\
    (forall x, In x g <-> Live x) /\
    (forall t n, In (RTag t, n) ix' <-> In (RTag t, n) ix).
Proof.
  unfold gc_index. fold ix bl. change (clo succ manifest cfg_fixed bl) with (closure succ bl).
  destruct (gc_passes_spec (S (length (candidates ix))) 0 _ [] GInv_init ltac:(simpl; lia))
    as (g & kept & Hp & I & Hfin).
  rewrite Hp. eexists _, g. split; [reflexivity|]. split.
  - intro x. split; [apply (gi_sound _ _ I)|].
    intro HL. induction HL as [t n x Ht Hr|d r s x Hd Hc _ IHs Hms Hr].
    + eapply closed_reach; [apply (gi_closed _ _ I)|exact Hr|].
      eapply (gi_roots _ _ I); eauto. eapply Reach_start; eauto.
    + eapply closed_reach; [apply (gi_closed _ _ I)|exact Hr|].
      assert (Hrb : In r bl) by (eapply Reach_start; eauto).
      destruct (in_dec Nat.eq_dec r (tagged_nodes ix)) as [Ht|Ht].
      * apply tagged_nodes_In in Ht as (t & Ht). eapply (gi_roots _ _ I); eauto.
      * assert (Hcand : In r (candidates ix)) by (apply candidates_In; eauto).
        destruct (Hfin r Hcand) as [Hk|Hno]; [now apply (gi_kept _ _ I)|].
        exfalso. apply Hno. eauto.
  - intros t n. rewrite in_app_iff, filter_In. split.
    + intros [[H _]|H]; [assumption|]. apply in_map_iff in H as (m & Hm & _). discriminate.
    + intro H. left. split; [assumption|reflexivity].
Qed.

(* what a reload of the rebuilt index sees: every entry that is stored is in the graph, the
   graph is closed, every live node is reachable from an entry, no stale entries *)
Lemma gc_index_reload (kl : bool) :
  exists ix' g,
    gc_index succ subject manifest cfg_fixed kl ords st = Some (ix', g) /\
    (forall x s, In x g -> In s (succ x) -> In s bl -> In s g) /\
    (forall e, In e ix' -> In (snd e) bl -> In (snd e) g) /\
    (forall x, In x g -> exists e, In e ix' /\ Reach bl (snd e) x) /\
    (forall e, In e ix' -> match fst e with RStale _ => false | _ => true end = true).
Proof.
  unfold gc_index. fold ix bl. change (clo succ manifest cfg_fixed bl) with (closure succ bl).
  destruct (gc_passes_spec (S (length (candidates ix))) 0 _ [] GInv_init ltac:(simpl; lia))
    as (g & kept & Hp & I & Hfin).
  rewrite Hp. eexists _, g. split; [reflexivity|].
  assert (Hentry : forall e,
    In e (filter (fun e => match fst e with RTag _ => true | _ => false end) ix ++
          map (fun n => (RDig n, n))
            (dedup (tagged_nodes ix) ++ kept ++
             (if kl then filter (gexists succ manifest bl (tagged_nodes ix) g) (digested ix) else []))) ->
    (exists t, e = (RTag t, snd e) /\ In e ix) \/
    (fst e = RDig (snd e) /\ (In (snd e) (tagged_nodes ix) \/ In (snd e) kept \/ In (snd e) g \/ ~ In (snd e) bl))).
  { intros e He. apply in_app_or in He as [He|He].
    - apply filter_In in He as [He Hm]. destruct e as [[t| |] n]; try discriminate. left. eauto.
    - apply in_map_iff in He as (n & <- & Hn). right. split; [reflexivity|]. cbn [fst snd].
      apply in_app_or in Hn as [Hn|Hn]; [left; exact (proj1 (dedup_In _ _) Hn)|].
      apply in_app_or in Hn as [Hn|Hn]; [right; now left|]. right. right.
      destruct kl; [|destruct Hn]. apply filter_In in Hn as [_ Hn]. unfold gexists in Hn.
      apply orb_true_iff in Hn as [Hn|Hn]; [left; now apply memb_In|right].
      apply andb_true_iff in Hn as [Hn _]. unfold leaf_absent in Hn. apply andb_true_iff in Hn as [Hn _].
      apply negb_true_iff in Hn. now apply memb_false. }
  split; [apply (gi_closed _ _ I)|]. split; [|split].
  - intros e He Hb. destruct (Hentry e He) as [(t & Ee & Hin)|(_ & [Ht|[Hk|[Hg|Hnb]]])].
    + rewrite Ee in Hin. eapply (gi_roots _ _ I); eauto.
    + apply tagged_nodes_In in Ht as (t & Ht). eapply (gi_roots _ _ I); eauto.
    + now apply (gi_kept _ _ I).
    + assumption.
    + contradiction.
  - intros x Hx. apply (gi_sound _ _ I) in Hx.
    induction Hx as [t n x Ht Hr|d r s x Hd Hc _ IHs Hms Hr].
    + exists (RTag t, n). split; [|exact Hr]. apply in_or_app. left. apply filter_In. split; [assumption|reflexivity].
    + destruct (in_dec Nat.eq_dec r (tagged_nodes ix)) as [Ht|Ht].
      * apply tagged_nodes_In in Ht as (t & Ht). exists (RTag t, r). split; [|exact Hr].
        apply in_or_app. left. apply filter_In. split; [assumption|reflexivity].
      * assert (Hcand : In r (candidates ix)) by (apply candidates_In; eauto).
        destruct IHs as (e & He & Hre).
        assert (Hsg : In s g).
        { eapply closed_reach; [apply (gi_closed _ _ I)|exact Hre|].
          destruct (Hentry e He) as [(t & Ee & Hin)|(_ & [Ht'|[Hk|[Hg|Hnb]]])].
          - rewrite Ee in Hin. eapply (gi_roots _ _ I); eauto. eapply Reach_start; eauto.
          - apply tagged_nodes_In in Ht' as (t & Ht'). eapply (gi_roots _ _ I); eauto. eapply Reach_start; eauto.
          - now apply (gi_kept _ _ I).
          - assumption.
          - exfalso. apply Hnb. eapply Reach_start; eauto. }
        destruct (Hfin r Hcand) as [Hk|Hno]; [|exfalso; apply Hno; eauto].
        exists (RDig r, r). split; [|exact Hr]. apply in_or_app. right. apply in_map_iff.
        exists r. split; [reflexivity|]. apply in_or_app. right. apply in_or_app. now left.
  - intros e He. destruct (Hentry e He) as [(t & Ee & _)|(Ee & _)]; rewrite Ee; reflexivity.
Qed.

(* everything later lemmas need about the rebuilt index *)
Lemma gc_index_full (kl : bool) :
  exists ix' g,
    gc_index succ subject manifest cfg_fixed kl ords st = Some (ix', g) /\
    (forall x, In x g <-> Live x) /\
    (forall t n, In (RTag t, n) ix' <-> In (RTag t, n) ix) /\
    (forall d r, In (RDig d, r) ix' ->
       d = r /\ ((exists t, In (RTag t, r) ix) \/ (exists d', In (RDig d', r) ix))) /\
    (forall d r s, In (RDig d, r) ix -> Chain bl r s -> Live s -> manifest s = true ->
       In (RDig r, r) ix') /\
    (forall t n, In (RTag t, n) ix -> In (RDig n, n) ix') /\
    (forall t n, ~ In (RStale t, n) ix').
Proof.
  destruct (gc_index_spec kl) as (ix1 & g1 & E1 & HL & HT).
  destruct (gc_passes_spec (S (length (candidates ix))) 0 _ [] GInv_init ltac:(simpl; lia))
    as (g & kept & Hp & I & Hfin).
  assert (E2 : gc_index succ subject manifest cfg_fixed kl ords st =
    Some (filter (fun e => match fst e with RTag _ => true | _ => false end) ix ++
          map (fun n => (RDig n, n))
            (dedup (tagged_nodes ix) ++ kept ++
             (if kl then filter (gexists succ manifest bl (tagged_nodes ix) g) (digested ix) else [])), g)).
  { unfold gc_index. fold ix bl. change (clo succ manifest cfg_fixed bl) with (closure succ bl).
    rewrite Hp. reflexivity. }
  rewrite E2 in E1. injection E1 as <- <-.
  eexists _, g. split; [exact E2|]. split; [exact HL|]. split; [exact HT|].
  split; [|split; [|split]].
  - intros d r H. apply in_app_or in H as [H|H].
    + apply filter_In in H as [_ H]. discriminate.
    + apply in_map_iff in H as (n & E & Hn). injection E as <- <-. split; [reflexivity|].
      apply in_app_or in Hn as [Hn|Hn].
      * left. apply (proj1 (dedup_In _ _)) in Hn. now apply tagged_nodes_In.
      * apply in_app_or in Hn as [Hn|Hn].
        -- right. apply (gi_cand _ _ I) in Hn. apply candidates_In in Hn. tauto.
        -- right. destruct kl; [|destruct Hn]. apply filter_In in Hn as [Hn _].
           unfold digested in Hn. apply in_flat_map in Hn as ([r' m] & He & Hm). simpl in Hm.
           destruct r'; simpl in Hm; try contradiction. destruct Hm as [<-|[]]. eauto.
  - intros d r s Hd Hc Hs Hm. apply in_or_app. right. apply in_map_iff. exists r.
    split; [reflexivity|].
    destruct (in_dec Nat.eq_dec r (tagged_nodes ix)) as [Ht|Ht].
    + apply in_or_app. left. now apply dedup_In.
    + apply in_or_app. right. apply in_or_app. left.
      assert (Hcand : In r (candidates ix)) by (apply candidates_In; eauto).
      destruct (Hfin r Hcand) as [Hk|Hno]; [assumption|]. exfalso. apply Hno. exists s.
      split; [assumption|]. split; [now apply HL|assumption].
  - intros t n Ht. apply in_or_app. right. apply in_map_iff. exists n. split; [reflexivity|].
    apply in_or_app. left. apply dedup_In. apply tagged_nodes_In. eauto.
  - intros t n H. apply in_app_or in H as [H|H].
    + apply filter_In in H as [_ H]. discriminate.
    + apply in_map_iff in H as (m & E & _). discriminate.
Qed.

(* which by-digest references the rebuilt index has when GC keeps those of live descriptors
   (kl = true: the code as it is) *)
Lemma gc_index_digs :
  exists ix' g,
    gc_index succ subject manifest cfg_fixed true ords st = Some (ix', g) /\
    forall d r, In (RDig d, r) ix' <->
      d = r /\ ((exists t, In (RTag t, r) ix) \/
                ((exists d', In (RDig d', r) ix) /\
                 (Live r \/ (~ In r bl /\ manifest r = false /\ exists p, Live p /\ In r (succ p))))).
Proof.
  destruct (gc_index_spec true) as (ix1 & g1 & E1 & HL & HT).
  destruct (gc_passes_spec (S (length (candidates ix))) 0 _ [] GInv_init ltac:(simpl; lia))
    as (g & kept & Hp & I & Hfin).
  assert (E2 : gc_index succ subject manifest cfg_fixed true ords st =
    Some (filter (fun e => match fst e with RTag _ => true | _ => false end) ix ++
          map (fun n => (RDig n, n))
            (dedup (tagged_nodes ix) ++ kept ++ filter (gexists succ manifest bl (tagged_nodes ix) g) (digested ix)), g)).
  { unfold gc_index. fold ix bl. change (clo succ manifest cfg_fixed bl) with (closure succ bl).
    rewrite Hp. reflexivity. }
  rewrite E2 in E1. injection E1 as <- <-.
  eexists _, g. split; [exact E2|]. intros d r.
  assert (Hdig : forall n, In n (digested ix) <-> exists d', In (RDig d', n) ix).
  { intro n. unfold digested. rewrite in_flat_map. split.
    - intros ([r' m] & He & Hm). simpl in Hm. destruct r'; simpl in Hm; try contradiction.
      destruct Hm as [<-|[]]. eauto.
    - intros (d' & H). exists (RDig d', n). split; [assumption|now left]. }
  split.
  - intro H. apply in_app_or in H as [H|H].
    + apply filter_In in H as [_ H]. discriminate.
    + apply in_map_iff in H as (n & E & Hn). injection E as <- <-. split; [reflexivity|].
      apply in_app_or in Hn as [Hn|Hn].
      * left. apply (proj1 (dedup_In _ _)) in Hn. now apply tagged_nodes_In.
      * apply in_app_or in Hn as [Hn|Hn].
        -- right. split; [|left; apply HL; now apply (gi_kept _ _ I)].
           apply (gi_cand _ _ I) in Hn. apply candidates_In in Hn. tauto.
        -- apply filter_In in Hn as [Hn Hg]. unfold gexists in Hg. apply orb_true_iff in Hg as [Hg|Hg].
           ++ right. split; [now apply Hdig|]. left. apply HL. now apply memb_In.
           ++ apply andb_true_iff in Hg as [Hla Hg]. unfold leaf_absent in Hla.
              apply andb_true_iff in Hla as [Hnb Hnm]. apply negb_true_iff in Hnb, Hnm. apply memb_false in Hnb.
              apply orb_true_iff in Hg as [Hg|Hg].
              ** left. apply memb_In in Hg. now apply tagged_nodes_In.
              ** right. split; [now apply Hdig|]. right. repeat split; try assumption.
                 apply existsb_exists in Hg as (p & Hpg & Hs). exists p. split; [now apply HL|now apply memb_In].
  - intros [-> [(t & Ht)|[Hd [HLr|(Hnb & Hnm & p & Hpl & Hs)]]]]; apply in_or_app; right; apply in_map_iff; exists r; (split; [reflexivity|]).
    + apply in_or_app. left. apply dedup_In. apply tagged_nodes_In. eauto.
    + apply in_or_app. right. apply in_or_app. right. apply filter_In.
      split; [now apply Hdig|]. unfold gexists. apply orb_true_iff. left. apply memb_In. now apply HL.
    + apply in_or_app. right. apply in_or_app. right. apply filter_In.
      split; [now apply Hdig|]. unfold gexists, leaf_absent. apply orb_true_iff. right.
      apply memb_false in Hnb. rewrite Hnb, Hnm. cbn [negb andb]. apply orb_true_iff. right.
      apply existsb_exists. exists p. split; [now apply HL|now apply memb_In].
Qed.

End GC.

(* The live set depends only on the tags, on which descriptors have a by-digest reference and
   on the stored content that is live: a state whose references were rebuilt by gcIndex and
   whose storage lost only garbage has the same live set. *)
Lemma Reach_mono bl bl' n x : (forall y, In y bl -> In y bl') -> Reach bl n x -> Reach bl' n x.
Proof.
  intros Hs H. induction H as [n Hn|n s x Hn Hsn _ IH]; [apply R_refl; auto|eapply R_step; eauto].
Qed.

Lemma Reach_within bl bl' n x :
  Reach bl n x -> (forall y, Reach bl n y -> In y bl') -> Reach bl' n x.
Proof.
  intro H. induction H as [n Hn|n s x Hn Hs Hr IH]; intro Hy.
  - apply R_refl. apply Hy. now apply R_refl.
  - eapply R_step; [apply Hy; now apply R_refl|exact Hs|]. apply IH. intros y Hry. apply Hy.
    eapply R_step; eauto.
Qed.

Lemma Chain_mono bl bl' r s : (forall y, In y bl -> In y bl') -> Chain bl r s -> Chain bl' r s.
Proof.
  intros Hs H. induction H as [r s Hr E|r m s Hr E _ IH]; [apply C_one; auto|eapply C_step; eauto].
Qed.

Lemma Live_reach st n x : Live st n -> Reach (blobs st) n x -> Live st x.
Proof.
  intros HL Hr. destruct HL as [t r n Ht Hrn|d r s n Hd Hc Hs Hm Hrn].
  - eapply L_tag; eauto. clear -Hrn Hr. induction Hrn; [assumption|eapply R_step; eauto].
  - eapply L_ref; eauto. clear -Hrn Hr. induction Hrn; [assumption|eapply R_step; eauto].
Qed.

Lemma Chain_within st r s :
  Chain (blobs st) r s -> Live st r -> forall bl', (forall y, Live st y -> In y bl') -> Chain bl' r s.
Proof.
  intros H. induction H as [r s Hr E|r m s Hr E Hc IH]; intros HL bl' Hb.
  - apply C_one; auto.
  - eapply C_step; eauto. apply IH; [|assumption].
    eapply Live_reach; [exact HL|]. eapply (R_step _ r m m); [exact Hr|apply subj_succ; exact E|].
    apply R_refl. inversion Hc; assumption.
Qed.

Lemma Live_rebuilt st st' :
  (forall t n, In (RTag t, n) (idx st') <-> In (RTag t, n) (idx st)) ->
  (forall d r, In (RDig d, r) (idx st') ->
     (exists t, In (RTag t, r) (idx st)) \/ (exists d', In (RDig d', r) (idx st))) ->
  (forall d r s, In (RDig d, r) (idx st) -> Chain (blobs st) r s -> Live st s -> manifest s = true ->
     In (RDig r, r) (idx st')) ->
  (forall x, In x (blobs st') -> In x (blobs st)) ->
  (forall x, Live st x -> In x (blobs st')) ->
  forall x, Live st' x <-> Live st x.
Proof.
  intros HT HD1 HD2 Hsub Hkeep x. split.
  - induction 1 as [t n x Ht Hr|d r s x Hd Hc _ IHs Hm Hr].
    + eapply L_tag; [apply HT; exact Ht|]. eapply Reach_mono; eauto.
    + apply (Reach_mono _ _ _ _ Hsub) in Hr. destruct (HD1 d r Hd) as [(t & Ht)|(d' & Hd')].
      * eapply L_tag; eauto.
      * eapply L_ref; eauto. eapply Chain_mono; eauto.
  - induction 1 as [t n x Ht Hr|d r s x Hd Hc Hs IHs Hm Hr].
    + eapply L_tag; [apply HT; exact Ht|]. apply (Reach_within _ _ _ _ Hr).
      intros y Hy. apply Hkeep. eapply L_tag; eauto.
    + assert (HLr : Live st r).
      { eapply L_ref; eauto. apply R_refl. eapply Reach_start; eauto. }
      eapply (L_ref st' r r s x); [eapply HD2; eauto| |exact IHs|exact Hm|].
      * eapply Chain_within; eauto.
      * apply (Reach_within _ _ _ _ Hr). intros y Hy. apply Hkeep. eapply Live_reach; eauto.
Qed.

(* GC of the repaired code: terminates with Ok for every state and every order,
   the rebuilt graph and the surviving blobs are exactly the live set, tags are
   untouched, stray files: exactly those with a valid digest name in a known
   algorithm directory are removed *)
Lemma gc_exact : forall (kl : bool) (ords : nat -> list nat) (st : state),
  (forall i n, In n (ords i) <-> In n (candidates (idx st))) ->
  exists st',
    gc succ subject manifest cfg_fixed kl ords st = (st', Ok) /\
    (forall x, In x (gnodes st') <-> Live st x) /\
    (forall x, In x (blobs st') <-> In x (blobs st) /\ Live st x) /\
    (forall t n, In (RTag t, n) (idx st') <-> In (RTag t, n) (idx st)) /\
    (forall s, In s (strays st') <-> In s (strays st) /\ (s_known s && s_valid s = false)) /\
    autogc st' = autogc st.
Proof.
  intros kl ords st Ho. unfold gc.
  destruct (gc_index_spec st ords Ho kl) as (ix' & g & Hg & HL & Ht). rewrite Hg.
  eexists. split; [reflexivity|]. simpl. repeat split.
  - rewrite dedup_In. apply HL.
  - rewrite dedup_In. apply HL.
  - apply filter_In in H. tauto.
  - apply filter_In in H as [_ H]. apply memb_In in H. now apply HL.
  - intros [Hb Hl]. apply filter_In. split; [assumption|]. apply memb_In. now apply HL.
  - apply Ht.
  - apply Ht.
  - apply filter_In in H. tauto.
  - apply filter_In in H as [_ H]. unfold sweep_stray in H. now apply negb_true_iff in H.
  - intros [H1 H2]. apply filter_In. split; [assumption|]. unfold sweep_stray. now rewrite H2.
Qed.

(* a state whose reference map was rebuilt by gcIndex and whose storage lost only garbage has
   the live set of the state before *)
Lemma live_after_rebuild kl ords st st' g :
  (forall i n, In n (ords i) <-> In n (candidates (idx st))) ->
  gc_index succ subject manifest cfg_fixed kl ords st = Some (idx st', g) ->
  (forall x, In x (blobs st') -> In x (blobs st)) ->
  (forall x, Live st x -> In x (blobs st')) ->
  forall x, Live st' x <-> Live st x.
Proof.
  intros Ho Hg Hsub Hkeep.
  destruct (gc_index_full st ords Ho kl) as (ix' & g' & Hg' & _ & HT & D1 & D2 & _).
  rewrite Hg in Hg'. injection Hg' as <- <-.
  apply Live_rebuilt; try assumption.
  intros d r Hd. now destruct (D1 d r Hd).
Qed.

(* GC whose context is cancelled in the sweep after [k] entries of the directory order: the
   index is rebuilt exactly as by a complete GC, no live blob is removed, what is removed is
   garbage among the handled entries, and the live set is unchanged *)
Lemma gc_cancel_spec : forall kl ords order k st,
  (forall i n, In n (ords i) <-> In n (candidates (idx st))) ->
  exists st',
    gc_cancel succ subject manifest cfg_fixed kl ords order k st = (st', ECanceled) /\
    idx st' = idx (fst (gc succ subject manifest cfg_fixed kl ords st)) /\
    gnodes st' = gnodes (fst (gc succ subject manifest cfg_fixed kl ords st)) /\
    (forall x, In x (gnodes st') <-> Live st x) /\
    (forall x, In x (blobs st') <->
               In x (blobs st) /\ (Live st x \/ swept_blob x (firstn k order) = false)) /\
    (forall s, In s (strays st') <->
               In s (strays st) /\ (s_known s && s_valid s = false \/
                                    swept_stray (s_id s) (firstn k order) = false)) /\
    autogc st' = autogc st /\
    (forall x, Live st' x <-> Live st x).
Proof.
  intros kl ords order k st Ho. unfold gc_cancel, gc.
  destruct (gc_index_spec st ords Ho kl) as (ix' & g & Hg & HL & Ht). rewrite Hg.
  eexists. split; [reflexivity|]. cbn [fst idx gnodes blobs strays autogc].
  assert (Hb : forall x, In x (filter (fun n => memb n g || negb (swept_blob n (firstn k order))) (blobs st)) <->
               In x (blobs st) /\ (Live st x \/ swept_blob x (firstn k order) = false)).
  { intro x. rewrite filter_In, orb_true_iff, negb_true_iff, memb_In, HL. tauto. }
  split; [reflexivity|]. split; [reflexivity|]. split; [intro x; rewrite dedup_In; apply HL|].
  split; [exact Hb|]. split; [|split; [reflexivity|]].
  - intro s. rewrite filter_In, orb_true_iff, negb_true_iff. unfold sweep_stray.
    rewrite negb_true_iff. tauto.
  - eapply (live_after_rebuild kl ords st _ g Ho); cbn [idx blobs].
    + exact Hg.
    + intros x Hx. apply Hb in Hx. tauto.
    + intros x Hx. apply Hb. split; [eapply Live_in; eauto|now left].
Qed.

(* the live set of the state after a complete GC is the live set before: GC is idempotent *)
Lemma gc_live_same : forall kl ords st,
  (forall i n, In n (ords i) <-> In n (candidates (idx st))) ->
  forall x, Live (fst (gc succ subject manifest cfg_fixed kl ords st)) x <-> Live st x.
Proof.
  intros kl ords st Ho.
  destruct (gc_cancel_spec kl ords [] 0 st Ho) as (sc & Hc & Ei & _ & _ & Hb & _ & _ & _).
  destruct (gc_exact kl ords st Ho) as (st' & Hg & _ & Hb' & _).
  unfold gc in *. destruct (gc_index_spec st ords Ho kl) as (ix' & g & Hgi & HL & _).
  rewrite Hgi in *. injection Hg as <-. cbn [fst].
  apply (live_after_rebuild kl ords st _ g Ho); cbn [idx blobs].
  - exact Hgi.
  - intros x Hx. apply filter_In in Hx. tauto.
  - intros x Hx. apply filter_In. split; [eapply Live_in; eauto|]. apply memb_In. now apply HL.
Qed.

(* every live node keeps exactly its live predecessors *)
Lemma gc_preds : forall kl ords st st',
  (forall i n, In n (ords i) <-> In n (candidates (idx st))) ->
  gc succ subject manifest cfg_fixed kl ords st = (st', Ok) ->
  forall x p, In p (preds succ (gnodes st') x) <-> Live st p /\ In x (succ p).
Proof.
  intros kl ords st st' Ho Hgc x p.
  destruct (gc_exact kl ords st Ho) as (st2 & H2 & Hg & _). rewrite Hgc in H2.
  injection H2 as <-. unfold preds. rewrite filter_In, memb_In, Hg. tauto.
Qed.


(* ================================================================== *)
(* Part 2: Delete with AutoGC *)

Lemma is_tagged_spec st n :
  is_tagged st n = true <-> exists t, In (RTag t, n) (idx st) \/ In (RStale t, n) (idx st).
Proof.
  unfold is_tagged. rewrite existsb_exists. split.
  - intros ([r m] & He & H). unfold is_tag_entry in H. simpl in H. destruct r; try discriminate;
      apply Nat.eqb_eq in H; subst; eauto.
  - intros (t & [H|H]); [exists (RTag t, n)|exists (RStale t, n)]; (split; [assumption|]);
      unfold is_tag_entry; simpl; apply Nat.eqb_refl.
Qed.

Lemma preds_In g n p : In p (preds succ g n) <-> In p g /\ In n (succ p).
Proof. unfold preds. rewrite filter_In, memb_In. tauto. Qed.

Lemma referrers_In g m r :
  In r (referrers succ subject g m) <-> In r g /\ subject r = Some m.
Proof.
  unfold referrers. rewrite filter_In, preds_In. unfold has_subject. split.
  - intros [[Hg _] H]. split; [assumption|]. destruct (subject r) as [s|]; [|discriminate].
    apply Nat.eqb_eq in H. now subst.
  - intros [Hg Hs]. rewrite Hs, Nat.eqb_refl. repeat split; try assumption. now apply subj_succ.
Qed.

Lemma danglings_In g n d :
  In d (danglings succ g n) <->
  In n g /\ In d (succ n) /\ In d g /\ forall p, In p g -> In d (succ p) -> p = n.
Proof.
  unfold danglings. destruct (memb n g) eqn:E.
  - apply memb_In in E. rewrite filter_In, dedup_In, andb_true_iff, memb_In, forallb_forall. split.
    + intros (Hs & Hd & Hall). repeat split; try assumption. intros p Hp Hps.
      apply Nat.eqb_eq. apply Hall. apply preds_In. tauto.
    + intros (_ & Hs & Hd & Hall). repeat split; try assumption. intros p Hp.
      apply preds_In in Hp as [Hp Hps]. apply Nat.eqb_eq. auto.
  - apply memb_false in E. simpl. tauto.
Qed.

Lemma del_idx_In st n e :
  In e (del_idx succ manifest st n) <->
  (In e (idx st) /\ snd e <> n) \/
  (exists d, e = (RDig d, d) /\ In d (danglings succ (gnodes st) n) /\ manifest d = true /\
             lookup (RDig d) (filter (fun e => negb (snd e =? n)) (idx st)) = None).
Proof.
  unfold del_idx. rewrite in_app_iff, in_map_iff, filter_In, negb_true_iff, Nat.eqb_neq. split.
  - intros [(d & <- & Hd)|H]; [right|left; exact H]. apply filter_In in Hd as [Hd Hc].
    apply andb_true_iff in Hc as [Hm Hl]. exists d. repeat split; try assumption.
    destruct (lookup (RDig d) _); [discriminate|reflexivity].
  - intros [H|(d & -> & Hd & Hm & Hl)]; [right; exact H|left]. exists d. split; [reflexivity|].
    apply filter_In. split; [assumption|]. rewrite Hm, Hl. reflexivity.
Qed.

Lemma remove_one_In x y l : In y (remove_one x l) -> In y l.
Proof.
  induction l as [|a l IH]; simpl; [tauto|]. destruct (Nat.eqb a x); [now right|].
  intros [H|H]; [now left|right; now apply IH].
Qed.

Lemma entries_succ p r : In r (entries succ subject p) -> In r (succ p).
Proof. unfold entries. destruct (subject p); [apply remove_one_In|tauto]. Qed.

Section Delete.
Variable st0 : state.
Variable x : nat.
Let G := gnodes st0.
Let B := blobs st0.

(* p holds r: r is an entry of p (manifests, layers, config, blobs), not merely its subject
   (a referrer does not keep its subject alive) *)
Definition holds (p r : nat) : Prop := In r (entries succ subject p).

(* the set Delete(x) removes when AutoGC is on: least set containing x, closed under
   "untagged manifest of the store whose subject (a manifest) was removed and whose holders
   were all removed" and "untagged node of the store that had predecessors, all of which
   were removed" *)
Inductive Gone : nat -> Prop :=
| G_target : Gone x
| G_ref r m : Gone m -> manifest m = true -> In r G -> subject r = Some m ->
              is_tagged st0 r = false ->
              (forall p, In p G -> holds p r -> Gone p) -> Gone r
| G_dang d : In d G -> In d B -> is_tagged st0 d = false ->
             (exists p, In p G /\ In d (succ p)) ->
             (forall p, In p G -> In d (succ p) -> Gone p) -> Gone d.

(* graph nodes that are manifests (or have a subject) are stored; a layer/config may be a
   stale graph node without content (after a Delete by its blob descriptor) *)
Hypothesis wf_sub : forall y, In y G -> manifest y = true \/ subject y <> None -> In y B.
Hypothesis auto_on : autogc st0 = true.
Hypothesis x_in : In x B.

Variable ord : nat -> list nat -> list nat.
Hypothesis ord_perm : forall k l y, In y (ord k l) <-> In y l.

(* an untagged referrer of an already processed manifest *)
Definition waiting (proc : list nat) (r : nat) : Prop :=
  In r G /\ is_tagged st0 r = false /\
  exists m, In m proc /\ manifest m = true /\ subject r = Some m.

(* the reference map during the cascade: the entries of the start state whose target is not
   processed, plus by-digest entries of manifests that lost their last predecessor *)
(* by-digest references name their own content (true in every reachable state: refs_ok) *)
Definition digs_ok0 : Prop := forall d n, In (RDig d, n) (idx st0) -> d = n.

(* d is a manifest of the graph that is not processed, had predecessors, lost all of them and
   had no by-digest reference: delete() lists it by its digest *)
Definition rerooted (proc : list nat) (d : nat) : Prop :=
  manifest d = true /\ In d G /\ ~ In d proc /\ (exists p, In p G /\ In d (succ p)) /\
  (forall p, In p G -> In d (succ p) -> In p proc) /\ (forall m, ~ In (RDig d, m) (idx st0)).

Definition idx_rel (ix : list (ref * nat)) (proc : list nat) : Prop :=
  (forall e, In e ix -> ~ In (snd e) proc /\
             (In e (idx st0) \/ exists d, e = (RDig d, d) /\ manifest d = true /\
                                         (digs_ok0 -> rerooted proc d))) /\
  (forall e, In e (idx st0) -> ~ In (snd e) proc -> In e ix) /\
  (digs_ok0 -> forall d, rerooted proc d -> In (RDig d, d) ix).

Record DInv (st : state) (queue seen proc pending : list nat) : Prop := {
  di_seen : seen = proc ++ queue;
  di_nodup : NoDup seen;
  di_x : In x seen;
  di_g : forall y, In y (gnodes st) <-> In y G /\ ~ In y proc;
  di_b : forall y, In y (blobs st) <-> In y B /\ ~ In y proc;
  di_i : idx_rel (idx st) proc;
  di_a : autogc st = true;
  di_s : strays st = strays st0;
  di_sound : forall y, In y seen -> Gone y;
  di_sub : forall y, In y seen -> y = x \/ In y G;
  di_ref : forall r, waiting proc r -> In r seen \/ In r pending;
  di_pend : forall r, In r pending -> waiting proc r;
  di_blocked : queue = [] -> forall r, In r pending -> ~ In r seen ->
               exists p, In p G /\ holds p r /\ ~ In p seen;
  di_dang : forall d, In d G -> In d B -> is_tagged st0 d = false ->
                      (exists p, In p G /\ In d (succ p)) ->
                      (forall p, In p G -> In d (succ p) -> In p proc) -> In d seen;
  di_seenB : forall y, In y seen -> In y B }.

Lemma tagged_same st proc y :
  idx_rel (idx st) proc -> ~ In y proc -> is_tagged st y = is_tagged st0 y.
Proof.
  intros [H1 [H2 _]] Hy. apply eq_true_iff_eq. rewrite !is_tagged_spec.
  split; intros (t & [H|H]); exists t.
  - left. destruct (H1 _ H) as [_ [Ho|(d & E & _)]]; [assumption|discriminate].
  - right. destruct (H1 _ H) as [_ [Ho|(d & E & _)]]; [assumption|discriminate].
  - left. apply H2; assumption.
  - right. apply H2; assumption.
Qed.

Lemma seen_bound seen : NoDup seen -> (forall y, In y seen -> y = x \/ In y G) ->
  length seen <= S (length G).
Proof.
  intros Hn Hs. change (S (length G)) with (length (x :: G)).
  apply NoDup_incl_length; [assumption|]. intros y Hy. destruct (Hs y Hy); [left; congruence|now right].
Qed.

Lemma has_subject_spec r p : has_subject subject r p = true <-> subject p = Some r.
Proof.
  unfold has_subject. destruct (subject p) as [s|]; [|split; discriminate].
  rewrite Nat.eqb_eq. split; congruence.
Qed.

(* Store.heldBySurvivor *)
Lemma held_spec g seen r :
  held succ subject true g seen r = true <-> exists p, In p g /\ holds p r /\ ~ In p seen.
Proof.
  unfold held, holds. rewrite existsb_exists. split.
  - intros (p & Hp & H). apply preds_In in Hp as [Hg Hs]. apply andb_true_iff in H as [H1 H2].
    apply negb_true_iff in H1. apply memb_false in H1. apply memb_In in H2. eauto.
  - intros (p & Hg & Hh & Hq). exists p. split; [apply preds_In; split; [assumption|now apply entries_succ]|].
    apply andb_true_iff. split; [apply negb_true_iff; now apply memb_false|now apply memb_In].
Qed.

Lemma delete_loop_spec : forall fuel k st queue seen proc pending,
  DInv st queue seen proc pending -> 2 + length G <= fuel + length proc ->
  exists st' proc' pend',
    delete_loop succ subject manifest cfg_fixed ord fuel k st queue seen pending = (st', Ok) /\
    DInv st' [] proc' proc' pend'.
Proof.
  induction fuel as [|fuel IH]; intros k st queue seen proc pending I Hf.
  - pose proof (seen_bound seen (di_nodup _ _ _ _ _ I) (di_sub _ _ _ _ _ I)) as Hb.
    rewrite (di_seen _ _ _ _ _ I), app_length in Hb. lia.
  - destruct queue as [|h q].
    + simpl. exists st, proc, pending. split; [reflexivity|].
      pose proof (di_seen _ _ _ _ _ I) as Hs. rewrite app_nil_r in Hs. subst seen. assumption.
    + pose proof (di_seen _ _ _ _ _ I) as Hseen.
      pose proof (di_nodup _ _ _ _ _ I) as Hnd.
      assert (Hproc_seen : forall y, In y proc -> In y seen).
      { intros y Hy. rewrite Hseen. apply in_or_app. now left. }
      assert (Hh_seen : In h seen) by (rewrite Hseen; apply in_or_app; right; now left).
      assert (Hh_proc : ~ In h proc).
      { rewrite Hseen in Hnd. apply NoDup_remove_2 in Hnd. intro H. apply Hnd.
        apply in_or_app. now left. }
      assert (Hh_B : In h B).
      { now apply (di_seenB _ _ _ _ _ I). }
      assert (Hh_b : memb h (blobs st) = true).
      { apply memb_In. apply (di_b _ _ _ _ _ I). split; assumption. }
      cbn [delete_loop]. unfold delete_one. rewrite Hh_b. rewrite (di_a _ _ _ _ _ I).
      cbn [andb fixF3 fixF4 fixLeaf skipLinked fixHold fixEntry cfg_fixed negb orb app].
      set (st' := {| blobs := removeb h (blobs st);
                     idx := del_idx succ manifest st h;
                     gnodes := removeb h (gnodes st);
                     strays := strays st; autogc := true |}).
      set (refs := if manifest h
                   then filter (fun r => negb (is_tagged st r)) (referrers succ subject (gnodes st) h)
                   else []).
      set (dang' := filter (fun d => memb d (blobs st') && negb (is_tagged st' d))
                           (danglings succ (gnodes st) h)).
      set (fresh := dedup (filter (fun y => negb (memb y seen)) (ord k dang'))).
      set (seen1 := seen ++ fresh).
      set (cand := dedup (filter (fun r => negb (memb r seen1)) (pending ++ ord k refs))).
      set (ready := filter (fun r => negb (held succ subject true (gnodes st') seen1 r)) cand).
      set (rest := filter (held succ subject true (gnodes st') seen1) cand).
      assert (Hg' : forall y, In y (gnodes st') <-> In y G /\ ~ In y (proc ++ [h])).
      { intro y. unfold st'. cbn [gnodes]. rewrite removeb_In, (di_g _ _ _ _ _ I), in_app_iff.
        simpl. split.
        - intros [[H1 H2] H3]. split; [assumption|]. intros [H|[H|[]]]; [tauto|congruence].
        - intros [H1 H2]. repeat split; try assumption; intro H; apply H2; [now left|right; left; congruence]. }
      assert (Hfresh : forall y, In y fresh <-> In y dang' /\ ~ In y seen).
      { intro y. unfold fresh. rewrite dedup_In, filter_In, ord_perm.
        rewrite negb_true_iff, memb_false. tauto. }
      assert (Hidx' : idx_rel (idx st') (proc ++ [h])).
      { destruct (di_i _ _ _ _ _ I) as [Hi1 [Hi2 Hi3]]. unfold st'. cbn [idx].
        assert (Hmono : forall d, rerooted proc d -> d <> h -> rerooted (proc ++ [h]) d).
        { intros d (A & B0 & C & D & E & F) Hne. repeat split; try assumption.
          - rewrite in_app_iff. simpl. intros [H|[H|[]]]; [contradiction|congruence].
          - intros p Hp Hs. apply in_or_app. left. now apply E. }
        split; [|split].
        - intros e He. apply del_idx_In in He as [[He Hne]|(d & -> & Hd & Hm & Hl)].
          + destruct (Hi1 e He) as [Hp Ho]. split.
            * rewrite in_app_iff. simpl. intros [H|[H|[]]]; [contradiction|congruence].
            * destruct Ho as [Ho|(d & Ed & Hm & Hr)]; [now left|right]. exists d.
              split; [exact Ed|split; [exact Hm|]].
              intro P. apply Hmono; [now apply Hr|]. subst e. exact Hne.
          + apply danglings_In in Hd as (Hhg & Hs & Hg & Hall). apply (di_g _ _ _ _ _ I) in Hg.
            apply (di_g _ _ _ _ _ I) in Hhg as [HhG _].
            pose proof (succ_lt _ _ Hs) as Hlt.
            assert (Hdp : ~ In d (proc ++ [h])) by (rewrite in_app_iff; simpl; intros [H|[H|[]]]; [tauto|lia]).
            split; [exact Hdp|]. right. exists d. split; [reflexivity|split; [exact Hm|]].
            intro P. unfold rerooted. split; [exact Hm|]. split; [tauto|]. split; [exact Hdp|].
            split; [|split].
            * exists h. split; assumption.
            * intros p Hp Hps. destruct (in_dec Nat.eq_dec p proc) as [Hpp|Hpp]; apply in_or_app; [now left|right].
              left. symmetry. apply Hall; [apply (di_g _ _ _ _ _ I); tauto|assumption].
            * intros m Hm0. pose proof (P _ _ Hm0). subst m.
              assert (Hin : In (RDig d, d) (filter (fun e => negb (snd e =? h)) (idx st))).
              { apply filter_In. split; [apply Hi2; [assumption|cbn; tauto]|].
                cbn. apply negb_true_iff, Nat.eqb_neq. lia. }
              clear -Hin Hl. induction (filter _ _) as [|[r k] l IH]; [destruct Hin|].
              simpl in Hl. destruct (ref_eqb r (RDig d)) eqn:E; [discriminate|].
              destruct Hin as [Hin|Hin]; [injection Hin as -> ->; simpl in E; rewrite Nat.eqb_refl in E; discriminate|auto].
        - intros e He Hp. apply del_idx_In. left. rewrite in_app_iff in Hp. simpl in Hp. split.
          + apply Hi2; [assumption|]. intro H. apply Hp. now left.
          + intro H. apply Hp. right. left. congruence.
        - intros P d (A & B0 & C & D & E & F).
          assert (Hdh : d <> h) by (intro; subst; apply C; apply in_or_app; right; now left).
          assert (Hdp : ~ In d proc) by (intro H; apply C; apply in_or_app; now left).
          apply del_idx_In.
          destruct (in_dec Nat.eq_dec h G) as [HhG|HhG]; [destruct (in_dec Nat.eq_dec d (succ h)) as [Hsh|Hsh]|].
          + right. exists d. split; [reflexivity|].
            assert (Hdang : In d (danglings succ (gnodes st) h)).
            { apply danglings_In. repeat split; try assumption.
              - apply (di_g _ _ _ _ _ I). tauto.
              - apply (di_g _ _ _ _ _ I). tauto.
              - intros p Hp Hps. apply (di_g _ _ _ _ _ I) in Hp as [HpG Hpp].
                specialize (E p HpG Hps). apply in_app_or in E as [H|[H|[]]]; [tauto|congruence]. }
            split; [exact Hdang|]. split; [exact A|].
            destruct (lookup (RDig d) (filter (fun e => negb (snd e =? h)) (idx st))) as [m|] eqn:El; [|reflexivity].
            exfalso.
            assert (Hin : In (RDig d, m) (idx st)).
            { clear -El. induction (idx st) as [|[r k] l IH]; [discriminate|]. simpl in El.
              destruct (negb (k =? h)); [|right; auto]. simpl in El.
              destruct (ref_eqb r (RDig d)) eqn:E; [|right; auto].
              apply ref_eqb_eq in E. injection El as <-. subst. now left. }
            destruct (Hi1 _ Hin) as [_ [Ho|(d' & Ed & _ & Hr)]]; [exact (F m Ho)|].
            injection Ed as <- <-. destruct (Hr P) as (_ & _ & _ & _ & E' & _).
            apply Hh_proc. now apply E'.
          + left. split; [|cbn; assumption]. apply Hi3; [assumption|]. repeat split; try assumption.
            intros p Hp Hps. specialize (E p Hp Hps). apply in_app_or in E as [H|[H|[]]]; [assumption|].
            subst. contradiction.
          + left. split; [|cbn; assumption]. apply Hi3; [assumption|]. repeat split; try assumption.
            intros p Hp Hps. specialize (E p Hp Hps). apply in_app_or in E as [H|[H|[]]]; [assumption|].
            subst. contradiction. }
      assert (Hrefs : forall r, In r refs <->
                manifest h = true /\ In r (gnodes st) /\ subject r = Some h /\ is_tagged st0 r = false).
      { intro r. unfold refs. destruct (manifest h).
        - rewrite filter_In, referrers_In, negb_true_iff. split.
          + intros [[Hg Hs] Ht]. repeat split; try assumption.
            rewrite <- (tagged_same st proc r (di_i _ _ _ _ _ I)); [assumption|].
            apply (di_g _ _ _ _ _ I) in Hg. tauto.
          + intros (_ & Hg & Hs & Ht). repeat split; try assumption.
            rewrite (tagged_same st proc r (di_i _ _ _ _ _ I)); [assumption|].
            apply (di_g _ _ _ _ _ I) in Hg. tauto.
        - simpl. split; [tauto|]. intros [H _]. discriminate. }
      assert (Hdang : forall d, In d dang' <->
                In d (danglings succ (gnodes st) h) /\ is_tagged st0 d = false /\ In d B).
      { intro d. unfold dang'. rewrite filter_In, andb_true_iff, negb_true_iff, memb_In.
        assert (Hfacts : In d (danglings succ (gnodes st) h) ->
                         ~ In d (proc ++ [h]) /\ (In d (blobs st') <-> In d B)).
        { intro Hd. apply danglings_In in Hd as (_ & Hs & Hg & _). apply (di_g _ _ _ _ _ I) in Hg.
          apply succ_lt in Hs.
          assert (Hnp : ~ In d (proc ++ [h])) by (rewrite in_app_iff; simpl; intros [H|[H|[]]]; [tauto|lia]).
          split; [exact Hnp|].
          unfold st'. cbn [blobs]. rewrite removeb_In, (di_b _ _ _ _ _ I). split; [tauto|].
          intro HB. split; [split; [assumption|tauto]|lia]. }
        split.
        - intros (Hd & Hb & Ht). destruct (Hfacts Hd) as [Hp HbB]. split; [assumption|]. split; [|now apply HbB].
          rewrite <- (tagged_same st' (proc ++ [h]) d Hidx'); assumption.
        - intros (Hd & Ht & HB). destruct (Hfacts Hd) as [Hp HbB]. split; [assumption|]. split; [now apply HbB|].
          rewrite (tagged_same st' (proc ++ [h]) d Hidx'); assumption. }
      (* everything that waits after this step, before the pass over pending *)
      assert (Hwait1 : forall r, In r (pending ++ ord k refs) -> waiting (proc ++ [h]) r).
      { intros r Hr. apply in_app_or in Hr as [Hr|Hr].
        - destruct (di_pend _ _ _ _ _ I r Hr) as (HG & Ht & m & Hm & Hman & Hs).
          repeat split; try assumption. exists m. repeat split; try assumption. apply in_or_app. now left.
        - apply ord_perm in Hr. apply Hrefs in Hr as (Hman & Hg & Hs & Ht).
          apply (di_g _ _ _ _ _ I) in Hg as [Hg _]. repeat split; try assumption.
          exists h. repeat split; try assumption. apply in_or_app. right. now left. }
      assert (Hcand : forall r, In r cand <-> In r (pending ++ ord k refs) /\ ~ In r seen1).
      { intro r. unfold cand. rewrite dedup_In, filter_In, negb_true_iff, memb_false. tauto. }
      assert (Hready : forall r, In r ready <->
                In r cand /\ ~ exists p, In p (gnodes st') /\ holds p r /\ ~ In p seen1).
      { intro r. unfold ready. rewrite filter_In, negb_true_iff. split; intros [Hc Hh]; (split; [assumption|]).
        - intro E. apply held_spec in E. congruence.
        - destruct (held succ subject true (gnodes st') seen1 r) eqn:E; [|reflexivity].
          apply held_spec in E. contradiction. }
      assert (Hrest : forall r, In r rest <->
                In r cand /\ exists p, In p (gnodes st') /\ holds p r /\ ~ In p seen1).
      { intro r. unfold rest. rewrite filter_In, held_spec. tauto. }
      assert (Hsound1 : forall y, In y seen1 -> Gone y).
      { intros y Hy. apply in_app_or in Hy as [Hy|Hy]; [now apply (di_sound _ _ _ _ _ I)|].
        apply Hfresh in Hy as [Hy _].
        apply Hdang in Hy as (Hd & Ht & HdB). apply danglings_In in Hd as (Hhg & Hs & Hg & Hall).
        apply (di_g _ _ _ _ _ I) in Hg as [Hg _]. apply (di_g _ _ _ _ _ I) in Hhg as [HhG _].
        apply G_dang; try assumption; [eauto|].
        intros p Hp Hps. destruct (in_dec Nat.eq_dec p proc) as [Hpp|Hpp].
        - apply (di_sound _ _ _ _ _ I). now apply Hproc_seen.
        - assert (p = h) by (apply Hall; [apply (di_g _ _ _ _ _ I); tauto|assumption]).
          subst. now apply (di_sound _ _ _ _ _ I). }
      assert (Hproc1 : forall y, In y (proc ++ [h]) -> In y seen1).
      { intros y Hy. apply in_or_app. left. apply in_app_or in Hy as [Hy|[<-|[]]]; auto. }
      assert (I' : DInv st' (q ++ fresh ++ ready) (seen1 ++ ready) (proc ++ [h]) rest).
      { constructor.
        - unfold seen1. rewrite Hseen. rewrite <- !app_assoc. reflexivity.
        - apply NoDup_app_intro.
          + apply NoDup_app_intro; [assumption|apply dedup_NoDup|].
            intros y Hy Hy'. apply Hfresh in Hy'. tauto.
          + unfold ready. apply NoDup_filter. apply dedup_NoDup.
          + intros y Hy Hy'. apply Hready in Hy' as [Hy' _]. apply Hcand in Hy'. tauto.
        - apply in_or_app. left. apply in_or_app. left. apply (di_x _ _ _ _ _ I).
        - exact Hg'.
        - intro y. unfold st'. cbn [blobs]. rewrite removeb_In, (di_b _ _ _ _ _ I), in_app_iff.
          simpl. split.
          + intros [[H1 H2] H3]. split; [assumption|]. intros [H|[H|[]]]; [tauto|congruence].
          + intros [H1 H2]. repeat split; try assumption; intro H; apply H2; [now left|right; left; congruence].
        - exact Hidx'.
        - reflexivity.
        - apply (di_s _ _ _ _ _ I).
        - intros y Hy. apply in_app_or in Hy as [Hy|Hy]; [now apply Hsound1|].
          apply Hready in Hy as [Hc Hno]. apply Hcand in Hc as [Hc _].
          destruct (Hwait1 y Hc) as (HG & Ht & m & Hm & Hman & Hs).
          apply (G_ref y m); try assumption.
          + apply Hsound1. now apply Hproc1.
          + intros p Hp Hh. destruct (in_dec Nat.eq_dec p seen1) as [Hps|Hps]; [now apply Hsound1|].
            exfalso. apply Hno. exists p. repeat split; try apply Hh; try assumption.
            apply Hg'. split; [assumption|]. intro Hpp. apply Hps. now apply Hproc1.
        - intros y Hy. apply in_app_or in Hy as [Hy|Hy].
          + apply in_app_or in Hy as [Hy|Hy]; [now apply (di_sub _ _ _ _ _ I)|].
            right. apply Hfresh in Hy as [Hy _]. apply Hdang in Hy as [Hd _].
            apply danglings_In in Hd as (_ & _ & Hg & _). apply (di_g _ _ _ _ _ I) in Hg. tauto.
          + right. apply Hready in Hy as [Hc _]. apply Hcand in Hc as [Hc _].
            now destruct (Hwait1 y Hc).
        - intros r Hw. destruct (in_dec Nat.eq_dec r seen1) as [Hrs|Hrs];
            [left; apply in_or_app; now left|].
          assert (Hc : In r cand).
          { apply Hcand. split; [|assumption].
            destruct Hw as (HG & Ht & m & Hm & Hman & Hs). apply in_app_or in Hm as [Hm|[<-|[]]].
            - destruct (di_ref _ _ _ _ _ I r) as [H|H].
              + repeat split; try assumption. eauto.
              + exfalso. apply Hrs. apply in_or_app. now left.
              + apply in_or_app. now left.
            - apply in_or_app. right. apply ord_perm. apply Hrefs. repeat split; try assumption.
              apply (di_g _ _ _ _ _ I). split; [assumption|]. intro Hp. apply Hrs. apply Hproc1.
              apply in_or_app. now left. }
          destruct (held succ subject true (gnodes st') seen1 r) eqn:E.
          + right. unfold rest. apply filter_In. split; assumption.
          + left. apply in_or_app. right. unfold ready. apply filter_In. split; [assumption|].
            now rewrite E.
        - intros r Hr. apply Hrest in Hr as [Hc _]. apply Hcand in Hc as [Hc _]. now apply Hwait1.
        - intros Hq r Hr Hrs.
          assert (Hre : ready = []).
          { destruct q; [|discriminate]. destruct fresh; [|discriminate]. exact Hq. }
          apply Hrest in Hr as [_ (p & Hp & Hh & Hps)]. exists p. repeat split; try apply Hh.
          + apply Hg' in Hp. tauto.
          + rewrite Hre, app_nil_r. assumption.
        - intros d Hd HdB Ht Hex Hall.
          destruct (in_dec Nat.eq_dec d seen) as [Hds|Hds];
            [apply in_or_app; left; apply in_or_app; now left|].
          assert (Hdp : ~ In d proc) by (intro Hp; apply Hds; now apply Hproc_seen).
          apply in_or_app. left. apply in_or_app.
          destruct (in_dec Nat.eq_dec h G) as [HhG|HhG].
          + destruct (in_dec Nat.eq_dec d (succ h)) as [Hsh|Hsh].
            * right. apply Hfresh. split; [|assumption]. apply Hdang. split; [|split; assumption].
              apply danglings_In. repeat split; try assumption.
              -- apply (di_g _ _ _ _ _ I). tauto.
              -- apply (di_g _ _ _ _ _ I). tauto.
              -- intros p Hp Hps. apply (di_g _ _ _ _ _ I) in Hp as [HpG Hpp].
                 specialize (Hall p HpG Hps). apply in_app_or in Hall as [H|[H|[]]]; [tauto|congruence].
            * left. apply (di_dang _ _ _ _ _ I); try assumption. intros p Hp Hps.
              specialize (Hall p Hp Hps). apply in_app_or in Hall as [H|[H|[]]]; [assumption|].
              subst. contradiction.
          + left. apply (di_dang _ _ _ _ _ I); try assumption. intros p Hp Hps.
            specialize (Hall p Hp Hps). apply in_app_or in Hall as [H|[H|[]]]; [assumption|].
            subst. contradiction.
        - intros y Hy. apply in_app_or in Hy as [Hy|Hy].
          + apply in_app_or in Hy as [Hy|Hy]; [now apply (di_seenB _ _ _ _ _ I)|].
            apply Hfresh in Hy as [Hy _]. apply Hdang in Hy. tauto.
          + apply Hready in Hy as [Hc _]. apply Hcand in Hc as [Hc _].
            destruct (Hwait1 y Hc) as (HyG & _ & m & _ & _ & Hs). apply wf_sub; [assumption|].
            right. congruence. }
      destruct (IH (S k) st' (q ++ fresh ++ ready) (seen1 ++ ready) (proc ++ [h]) rest I')
        as (st2 & proc2 & pend2 & H2 & I2).
      { rewrite app_length. simpl. lia. }
      exists st2, proc2, pend2. split; [|assumption]. exact H2.
Qed.

Lemma DInv_init : DInv st0 [x] [x] [] [].
Proof.
  constructor; try reflexivity; simpl.
  - constructor; [intros []|constructor].
  - now left.
  - tauto.
  - tauto.
  - split; [intros e He; split; [tauto|now left]|split; [intros e He _; exact He|]].
    intros _ d (_ & _ & _ & (p & Hp & Hs) & E & _). destruct (E p Hp Hs).
  - assumption.
  - intros y [<-|[]]. constructor.
  - intros y [<-|[]]. now left.
  - intros r (_ & _ & m & [] & _).
  - intros r [].
  - discriminate.
  - intros d Hd HdB Ht (p & Hp & Hps) Hall. destruct (Hall p Hp Hps).
  - intros y [<-|[]]. exact x_in.
Qed.

Lemma final_gone st' proc pend : DInv st' [] proc proc pend -> forall y, In y proc <-> Gone y.
Proof.
  intros I y. split; [apply (di_sound _ _ _ _ _ I)|].
  induction 1 as [|r m _ IHm Hman Hr Hs Ht _ IHh|d Hd HdB Ht Hex _ IHp].
  - apply (di_x _ _ _ _ _ I).
  - destruct (di_ref _ _ _ _ _ I r) as [H|H]; [|assumption|].
    + repeat split; try assumption. eauto.
    + destruct (in_dec Nat.eq_dec r proc) as [Hp|Hp]; [assumption|].
      destruct (di_blocked _ _ _ _ _ I eq_refl r H Hp) as (p & HpG & Hh & Hps).
      exfalso. apply Hps. now apply IHh.
  - apply (di_dang _ _ _ _ _ I); assumption.
Qed.

(* Delete of the repaired code, AutoGC on: for every iteration order it returns Ok
   (in particular the queue is exhausted within the fuel: it terminates) and removes
   exactly Gone from the storage, the graph and the reference index *)
Lemma delete_exact_sec :
  exists st',
    delete succ subject manifest cfg_fixed ord st0 x = (st', Ok) /\
    (forall y, In y (blobs st') <-> In y B /\ ~ Gone y) /\
    (forall y, In y (gnodes st') <-> In y G /\ ~ Gone y) /\
    ((forall e, In e (idx st') -> ~ Gone (snd e) /\
        (In e (idx st0) \/ exists d, e = (RDig d, d) /\ manifest d = true)) /\
     (forall e, In e (idx st0) -> ~ Gone (snd e) -> In e (idx st'))) /\
    strays st' = strays st0 /\ autogc st' = autogc st0 /\
    (* exactly which references are new, when by-digest references name their own content *)
    (digs_ok0 -> forall d, ~ In (RDig d, d) (idx st0) ->
       (In (RDig d, d) (idx st') <->
        manifest d = true /\ In d G /\ ~ Gone d /\ (exists p, In p G /\ In d (succ p)) /\
        (forall p, In p G -> In d (succ p) -> Gone p) /\ (forall m, ~ In (RDig d, m) (idx st0)))).
Proof.
  unfold delete. cbn [fixF4 cfg_fixed]. unfold delete_fuel.
  destruct (delete_loop_spec (S (S (length (gnodes st0)))) 0 st0 [x] [x] [] [] DInv_init)
    as (st' & proc & pend & Hd & I).
  { simpl. fold G. lia. }
  exists st'. split; [exact Hd|].
  pose proof (final_gone st' proc pend I) as HG.
  destruct (di_i _ _ _ _ _ I) as [Hi1 [Hi2 Hi3]].
  split; [|split; [|split; [split|split; [|split]]]].
  - intro y. rewrite (di_b _ _ _ _ _ I), HG. tauto.
  - intro y. rewrite (di_g _ _ _ _ _ I), HG. tauto.
  - intros e He. destruct (Hi1 e He) as [Hp [Ho|(d & E & Hm & _)]]; (split; [now rewrite <- HG|]); [now left|right; eauto].
  - intros e He Hn. apply Hi2; [assumption|]. now rewrite HG.
  - apply (di_s _ _ _ _ _ I).
  - rewrite (di_a _ _ _ _ _ I). now rewrite auto_on.
  - intros P d Hnot. split.
    + intro Hin. destruct (Hi1 _ Hin) as [_ [Ho|(d' & E & _ & Hr)]]; [contradiction|].
      injection E as <-. destruct (Hr P) as (A & B0 & C & D & E' & F).
      split; [exact A|]. split; [exact B0|]. split; [now rewrite <- HG|]. split; [exact D|].
      split; [|exact F]. intros p Hp Hs. apply HG. now apply E'.
    + intros (A & B0 & C & D & E' & F). apply (Hi3 P).
      split; [exact A|]. split; [exact B0|]. split; [now rewrite HG|]. split; [exact D|].
      split; [|exact F]. intros p Hp Hs. apply HG. now apply E'.
Qed.

(* what the cascade never touches *)
Lemma gone_untagged y : Gone y -> y <> x -> is_tagged st0 y = false.
Proof. destruct 1; intro; try assumption. congruence. Qed.

Lemma gone_in_store y : Gone y -> y = x \/ In y G.
Proof. destruct 1; auto. Qed.

(* no surviving node lists a removed node: every holder of it is removed as well *)
Lemma gone_holders y : Gone y -> y <> x -> forall p, In p G -> holds p y -> Gone p.
Proof.
  intros H Hne. destruct H as [|r m _ _ _ _ _ Hh|d _ _ _ _ Hall]; [congruence|exact Hh|].
  intros p Hp Hh. apply Hall; [assumption|]. now apply entries_succ.
Qed.

End Delete.


(* ------------------------------------------------------------------ *)
(* consequences used by the property file *)

(* AutoGC off: exactly the target goes *)
Lemma delete_plain st x ord :
  (forall k l y, In y (ord k l) <-> In y l) ->
  autogc st = false -> In x (blobs st) ->
  exists st',
    delete succ subject manifest cfg_fixed ord st x = (st', Ok) /\
    blobs st' = removeb x (blobs st) /\ gnodes st' = removeb x (gnodes st) /\
    idx st' = del_idx succ manifest st x /\
    strays st' = strays st /\ autogc st' = autogc st.
Proof.
  intros Ho Ha Hx. apply memb_In in Hx. unfold delete, delete_fuel. cbn [fixF4 cfg_fixed].
  cbn [delete_loop]. unfold delete_one. rewrite Hx, Ha. cbn [andb fixHold cfg_fixed app].
  assert (E : ord 0 [] = []).
  { destruct (ord 0 []) as [|a l] eqn:E; [reflexivity|].
    exfalso. assert (H : In a (ord 0 [])) by (rewrite E; now left).
    apply Ho in H. destruct H. }
  rewrite E. cbn [app dedup filter delete_loop]. eexists. split; [reflexivity|].
  cbn [blobs gnodes idx strays autogc]. repeat split.
Qed.

(* absent target: not found *)
Lemma delete_absent st x ord c :
  ~ In x (blobs st) -> snd (delete succ subject manifest c ord st x) = ENotFound.
Proof.
  intro Hx. apply memb_false in Hx. unfold delete.
  assert (H : forall f, snd (delete_loop succ subject manifest c ord (S f) 0 st [x] [x] []) = ENotFound).
  { intro f. cbn [delete_loop]. unfold delete_one. rewrite Hx. reflexivity. }
  destruct (fixF4 c); [unfold delete_fuel|]; apply H.
Qed.

(* ... and what Go's delete() did before storage.Delete failed stays done: the references to
   x are gone and x is no longer a graph node; the storage is unchanged *)
Lemma delete_absent_state st x ord c :
  ~ In x (blobs st) ->
  fst (delete succ subject manifest c ord st x) =
  {| blobs := removeb x (blobs st);
     idx := del_idx succ manifest st x;
     gnodes := removeb x (gnodes st);
     strays := strays st; autogc := autogc st |}.
Proof.
  intro Hx. apply memb_false in Hx. unfold delete.
  assert (H : forall f, fst (delete_loop succ subject manifest c ord (S f) 0 st [x] [x] []) =
    {| blobs := removeb x (blobs st);
       idx := del_idx succ manifest st x;
       gnodes := removeb x (gnodes st);
       strays := strays st; autogc := autogc st |}).
  { intro f. cbn [delete_loop]. unfold delete_one. rewrite Hx. reflexivity. }
  destruct (fixF4 c); [unfold delete_fuel|]; apply H.
Qed.

Lemma removeb_absent x l : ~ In x l -> removeb x l = l.
Proof.
  intro H. unfold removeb. apply filter_all_true. intros y Hy. apply negb_true_iff, Nat.eqb_neq.
  intro E. subst. contradiction.
Qed.

(* graph nodes are stored blobs: invariant of every history *)
Definition wf (st : state) : Prop := forall y, In y (gnodes st) -> In y (blobs st).

(* the weaker form the Delete theorems need: the graph nodes that are manifests or have a
   subject are stored; a layer/config may be a stale graph node without content (after a Delete
   by the blob descriptor Resolve(<digest>) returns) *)
Definition wfm (st : state) : Prop :=
  forall y, In y (gnodes st) -> manifest y = true \/ subject y <> None -> In y (blobs st).

Lemma wf_wfm st : wf st -> wfm st.
Proof. intros H y Hy _. now apply H. Qed.

Lemma delete_loop_wf c ord : forall fuel k st queue seen pending,
  wf st -> wf (fst (delete_loop succ subject manifest c ord fuel k st queue seen pending)).
Proof.
  induction fuel as [|f IH]; intros k st queue seen pending Hw; [exact Hw|].
  cbn [delete_loop]. destruct queue as [|h q]; [exact Hw|].
  unfold delete_one.
  assert (Hw' : wf {| blobs := removeb h (blobs st);
                      idx := del_idx succ manifest st h;
                      gnodes := removeb h (gnodes st);
                      strays := strays st; autogc := autogc st |}).
  { intros y Hy. simpl in *. apply removeb_In in Hy as [Hy Hn]. apply removeb_In. split; auto. }
  destruct (memb h (blobs st)); [|exact Hw'].
  apply IH. exact Hw'.
Qed.

Lemma step_wf kl st o : wf st -> wf (fst (step succ subject manifest cfg_fixed kl st o)).
Proof.
  intro Hw. destruct o as [n|n t|t|n| |b|s| |]; simpl.
  9: { intros y Hy. cbn [gnodes blobs] in *. apply (proj1 (dedup_In _ _)) in Hy.
       apply in_flat_map in Hy as (n & _ & Hy).
       change (clo succ manifest cfg_fixed) with (closure succ) in Hy.
       apply closure_spec in Hy. eapply Reach_in; eauto. }
  8: { intros y Hy. cbn [gnodes blobs] in *. apply (proj1 (dedup_In _ _)) in Hy.
       apply in_flat_map in Hy as (n & _ & Hy).
       change (clo succ manifest cfg_fixed) with (closure succ) in Hy.
       apply closure_spec in Hy. eapply Reach_in; eauto. }
  - unfold push. destruct (memb n (blobs st)); [exact Hw|]. intros y Hy. simpl in *.
    destruct Hy as [->|Hy]; [now left|]. right. apply removeb_In in Hy as [Hy _]. auto.
  - unfold tag. destruct (memb n (blobs st)) eqn:E; [|exact Hw]. intros y Hy.
    cbn [fst gnodes blobs] in *. destruct (manifest n); [|now apply Hw].
    destruct Hy as [->|Hy]; [now apply memb_In|]. apply removeb_In in Hy as [Hy _]. now apply Hw.
  - unfold untag. destruct (lookup (RTag t) (idx st)); exact Hw.
  - unfold delete. apply delete_loop_wf. exact Hw.
  - destruct (gc_exact kl (fun _ => candidates (idx st)) st ltac:(tauto)) as (st' & Hg & Hn & Hb & _).
    rewrite Hg. intros y Hy. apply Hb. apply Hn in Hy. split; [|assumption].
    eapply Live_in; eauto.
  - exact Hw.
  - exact Hw.
Qed.

Lemma run_wf kl ops : wf (fold_left (fun st o => fst (step succ subject manifest cfg_fixed kl st o)) ops init).
Proof.
  assert (H : forall st, wf st -> wf (fold_left (fun st o => fst (step succ subject manifest cfg_fixed kl st o)) ops st)).
  { induction ops as [|o ops IH]; intros st Hw; [exact Hw|]. simpl. apply IH. now apply step_wf. }
  apply H. intros y [].
Qed.


Lemma filter_all {A} (f : A -> bool) l : (forall x, In x l -> f x = true) -> filter f l = l.
Proof.
  induction l as [|a l IH]; intro H; [reflexivity|]. simpl. rewrite (H a (or_introl eq_refl)).
  f_equal. apply IH. intros x Hx. apply H. now right.
Qed.

Lemma Reach_inside bl (g : list nat) n x :
  (forall y s, In y g -> In s (succ y) -> In s bl -> In s g) ->
  Reach bl n x -> In n g ->
  Reach (filter (fun y => memb y g) bl) n x.
Proof.
  intros Hc H. induction H as [n Hn|n s x Hn Hsn Hr IH]; intro Hg.
  - apply R_refl. apply filter_In. split; [assumption|now apply memb_In].
  - eapply R_step; [apply filter_In; split; [assumption|now apply memb_In]|exact Hsn|].
    apply IH. eapply Hc; eauto. eapply Reach_start; eauto.
Qed.

(* reopening the store right after GC (the rebuilt index is what index.json holds) gives the
   same storage, the same references and the same graph *)
Lemma gc_reopen : forall kl ords st st',
  (forall i n, In n (ords i) <-> In n (candidates (idx st))) ->
  gc succ subject manifest cfg_fixed kl ords st = (st', Ok) ->
  let st2 := fst (step succ subject manifest cfg_fixed kl st' OReopen) in
  blobs st2 = blobs st' /\ idx st2 = idx st' /\ strays st2 = strays st' /\
  (forall x, In x (gnodes st2) <-> In x (gnodes st')).
Proof.
  intros kl ords st st' Ho Hgc. unfold gc in Hgc.
  destruct (gc_index_reload st ords Ho kl) as (ix' & g & Hg & Hclosed & Hent & Hreach & Hns).
  rewrite Hg in Hgc. injection Hgc as <-. cbn [step fst blobs idx strays gnodes].
  assert (Hf : filter (fun e : ref * nat => match fst e with RStale _ => false | _ => true end) ix' = ix').
  { apply filter_all. exact Hns. }
  rewrite Hf. repeat split.
  - rewrite !dedup_In. intro H. apply in_flat_map in H as (n & Hn & Hx).
    change (clo succ manifest cfg_fixed) with (closure succ) in Hx. apply closure_spec in Hx.
    apply in_map_iff in Hn as (e & <- & He).
    assert (Hx' : Reach (blobs st) (snd e) x).
    { eapply Reach_mono; [|exact Hx]. intros y Hy. apply filter_In in Hy. tauto. }
    eapply closed_reach; [exact Hclosed|exact Hx'|].
    apply Reach_start in Hx. apply filter_In in Hx as [_ Hx]. now apply memb_In.
  - rewrite !dedup_In. intro Hx. destruct (Hreach x Hx) as (e & He & Hr).
    apply in_flat_map. exists (snd e). split; [apply in_map; exact He|].
    change (clo succ manifest cfg_fixed) with (closure succ). apply closure_spec.
    apply Reach_inside; try assumption. apply Hent; [assumption|]. eapply Reach_start; eauto.
Qed.

(* the repaired code never records a stale tag-set entry: [is_tagged] is "has a tag" *)
Definition no_stale (st : state) : Prop := forall t n, ~ In (RStale t, n) (idx st).

Lemma delete_loop_no_stale c ord : forall fuel k st queue seen pending,
  no_stale st -> no_stale (fst (delete_loop succ subject manifest c ord fuel k st queue seen pending)).
Proof.
  induction fuel as [|f IH]; intros k st queue seen pending Hw; [exact Hw|].
  cbn [delete_loop]. destruct queue as [|h q]; [exact Hw|].
  unfold delete_one.
  assert (Hw' : no_stale {| blobs := removeb h (blobs st);
                            idx := del_idx succ manifest st h;
                            gnodes := removeb h (gnodes st);
                            strays := strays st; autogc := autogc st |}).
  { intros t n H. cbn [idx] in H. apply del_idx_In in H as [[H _]|(d & E & _)]; [now apply (Hw t n)|discriminate]. }
  destruct (memb h (blobs st)); [|exact Hw'].
  apply IH. exact Hw'.
Qed.

Lemma set_ref_stale r m ix t n : In (RStale t, n) (set_ref r m ix) -> r = RStale t \/ In (RStale t, n) ix.
Proof.
  unfold set_ref. intros [H|H]; [left; congruence|]. apply filter_In in H. tauto.
Qed.

Lemma step_no_stale kl st o : no_stale st -> no_stale (fst (step succ subject manifest cfg_fixed kl st o)).
Proof.
  intro Hw. destruct o as [n|n t|t|n| |b|s| |]; simpl.
  9: { intros t m H. cbn [idx] in H. apply in_flat_map in H as ([r k] & _ & H). simpl in H.
       destruct r; simpl in H; try contradiction. destruct H as [H|[H|[]]]; discriminate. }
  8: { intros t m H. cbn [idx] in H. apply filter_In in H as [H _]. now apply (Hw t m). }
  - unfold push. destruct (memb n (blobs st)); [exact Hw|]. intros t m H. cbn [fst idx] in H.
    destruct (manifest n); [|now apply (Hw t m)].
    apply set_ref_stale in H as [H|H]; [discriminate|now apply (Hw t m)].
  - unfold tag. destruct (memb n (blobs st)); [|exact Hw]. intros t' m H. cbn [fst idx] in H.
    apply set_ref_stale in H as [H|H]; [discriminate|].
    apply set_ref_stale in H as [H|H]; [discriminate|].
    destruct (lookup (RTag t) (idx st)); cbn [fixStale cfg_fixed orb app] in H; now apply (Hw t' m).
  - unfold untag. destruct (lookup (RTag t) (idx st)); [|exact Hw]. intros t' m H. simpl in H.
    apply filter_In in H as [H _]. now apply (Hw t' m).
  - unfold delete. apply delete_loop_no_stale. exact Hw.
  - unfold gc. destruct (gc_index succ subject manifest cfg_fixed kl _ st) as [[ix g]|] eqn:E; [|exact Hw].
    intros t m H. simpl in H. unfold gc_index in E.
    destruct (gc_passes _ _ _ _ _ _ _ _ _ _) as [[g' kept]|]; [|discriminate].
    injection E as <- <-. apply in_app_or in H as [H|H].
    + apply filter_In in H as [_ H]. discriminate.
    + apply in_map_iff in H as (x & Hx & _). discriminate.
  - exact Hw.
  - exact Hw.
Qed.

Lemma run_no_stale kl ops :
  no_stale (fold_left (fun st o => fst (step succ subject manifest cfg_fixed kl st o)) ops init).
Proof.
  assert (H : forall st, no_stale st ->
     no_stale (fold_left (fun st o => fst (step succ subject manifest cfg_fixed kl st o)) ops st)).
  { induction ops as [|o ops IH]; intros st Hw; [exact Hw|]. simpl. apply IH. now apply step_no_stale. }
  apply H. intros t n [].
Qed.

Lemma no_stale_tagged st n : no_stale st -> (is_tagged st n = true <-> exists t, In (RTag t, n) (idx st)).
Proof.
  intro Hn. rewrite is_tagged_spec. split.
  - intros (t & [H|H]); [eauto|]. exfalso. now apply (Hn t n).
  - intros (t & H). eauto.
Qed.


(* ------------------------------------------------------------------ *)
(* histories with arbitrary iteration orders *)

(* every stored blob is a node of the graph: true as long as the store is not reopened at an
   arbitrary point (a reopened store knows only what index.json reaches) *)
Definition full (st : state) : Prop := forall y, In y (blobs st) -> In y (gnodes st).

Lemma delete_loop_full c ord : forall fuel k st queue seen pending,
  full st -> full (fst (delete_loop succ subject manifest c ord fuel k st queue seen pending)).
Proof.
  induction fuel as [|f IH]; intros k st queue seen pending Hw; [exact Hw|].
  cbn [delete_loop]. destruct queue as [|h q]; [exact Hw|].
  unfold delete_one.
  assert (Hw' : full {| blobs := removeb h (blobs st);
                        idx := del_idx succ manifest st h;
                        gnodes := removeb h (gnodes st);
                        strays := strays st; autogc := autogc st |}).
  { intros y Hy. simpl in *. apply removeb_In in Hy as [Hy Hn]. apply removeb_In. split; auto. }
  destruct (memb h (blobs st)); [|exact Hw'].
  apply IH. exact Hw'.
Qed.

(* states reachable by the repaired code; Delete and GC with ANY iteration order;
   [any] = true also allows reopening the store at an arbitrary point *)
Inductive Hist (kl any : bool) : state -> Prop :=
| H_init : Hist kl any init
| H_op st o : Hist kl any st ->
    match o with ODelete _ | OGC | OReopen | OForeign => False | _ => True end ->
    Hist kl any (fst (step succ subject manifest cfg_fixed kl st o))
| H_delete st n ord : Hist kl any st -> (forall k l y, In y (ord k l) <-> In y l) ->
    Hist kl any (fst (delete succ subject manifest cfg_fixed ord st n))
| H_gc st ords : Hist kl any st -> (forall i n, In n (ords i) <-> In n (candidates (idx st))) ->
    Hist kl any (fst (gc succ subject manifest cfg_fixed kl ords st))
| H_gc_reopen st ords : Hist kl any st -> (forall i n, In n (ords i) <-> In n (candidates (idx st))) ->
    Hist kl any (fst (step succ subject manifest cfg_fixed kl
                       (fst (gc succ subject manifest cfg_fixed kl ords st)) OReopen))
| H_reopen st : any = true -> Hist kl any st ->
    Hist kl any (fst (step succ subject manifest cfg_fixed kl st OReopen))
| H_foreign st : any = true -> Hist kl any st ->
    Hist kl any (fst (step succ subject manifest cfg_fixed kl st OForeign))
| H_gc_cancel st ords order k : any = true -> Hist kl any st ->
    (forall i n, In n (ords i) <-> In n (candidates (idx st))) ->
    Hist kl any (fst (gc_cancel succ subject manifest cfg_fixed kl ords order k st)).

Lemma gc_wf kl ords st : (forall i n, In n (ords i) <-> In n (candidates (idx st))) ->
  wf (fst (gc succ subject manifest cfg_fixed kl ords st)).
Proof.
  intro Ho. destruct (gc_exact kl ords st Ho) as (st' & Hg & Hn & Hb & _). rewrite Hg.
  intros y Hy. apply Hb. apply Hn in Hy. split; [|assumption]. eapply Live_in; eauto.
Qed.

Lemma gc_no_stale kl ords st : no_stale st -> no_stale (fst (gc succ subject manifest cfg_fixed kl ords st)).
Proof.
  intro Hw. unfold gc. destruct (gc_index succ subject manifest cfg_fixed kl ords st) as [[ix g]|] eqn:E; [|exact Hw].
  intros t m H. simpl in H. unfold gc_index in E.
  destruct (gc_passes _ _ _ _ _ _ _ _ _ _) as [[g' kept]|]; [|discriminate].
  injection E as <- <-. apply in_app_or in H as [H|H].
  - apply filter_In in H as [_ H]. discriminate.
  - apply in_map_iff in H as (x & Hx & _). discriminate.
Qed.

Lemma hist_wf kl any st : Hist kl any st -> wf st.
Proof.
  induction 1 as [|st o _ IH _|st n ord _ IH _|st ords _ IH Ho|st ords _ IH Ho|st _ _ IH|st _ _ IH|st ords order k _ _ IH Ho].
  8: { destruct (gc_cancel_spec kl ords order k st Ho) as (sc & Ec & _ & _ & Hg & Hb & _). rewrite Ec. cbn [fst].
       intros y Hy. apply Hg in Hy. apply Hb. split; [eapply Live_in; eauto|now left]. }
  - intros y [].
  - now apply step_wf.
  - unfold delete. now apply delete_loop_wf.
  - now apply gc_wf.
  - apply step_wf. now apply gc_wf.
  - now apply step_wf.
  - now apply step_wf.
Qed.

Lemma hist_full kl st : Hist kl false st -> full st.
Proof.
  induction 1 as [|st o _ IH Ho|st n ord _ IH _|st ords _ IH Ho|st ords _ IH Ho|st Hf _ _|st Hf _ _|st ords order k Hf _ _ _]; try discriminate.
  - intros y [].
  - destruct o as [n|n t|t|n| |b|s| |]; try contradiction; simpl.
    + unfold push. destruct (memb n (blobs st)); [exact IH|]. intros y Hy. simpl in *.
      destruct (Nat.eq_dec y n) as [->|Hne]; [now left|]. right. apply removeb_In.
      split; [|assumption]. destruct Hy as [->|Hy]; [contradiction|now apply IH].
    + unfold tag. destruct (memb n (blobs st)); [|exact IH]. intros y Hy.
      cbn [fst gnodes blobs] in *. destruct (manifest n); [|now apply IH].
      destruct (Nat.eq_dec y n) as [->|Hne]; [now left|]. right. apply removeb_In. split; [now apply IH|assumption].
    + unfold untag. destruct (lookup (RTag t) (idx st)); exact IH.
    + exact IH.
    + exact IH.
  - unfold delete. now apply delete_loop_full.
  - destruct (gc_exact kl ords st Ho) as (st' & Hg & Hn & Hb & _). rewrite Hg.
    intros y Hy. apply Hn. now apply Hb in Hy.
  - destruct (gc_exact kl ords st Ho) as (st' & Hg & Hn & Hb & _).
    destruct (gc_reopen kl ords st st' Ho Hg) as (E1 & _ & _ & E4). rewrite Hg. cbn [fst] in *.
    intros y Hy. apply E4. rewrite E1 in Hy. apply Hn. now apply Hb in Hy.
Qed.

Lemma hist_no_stale kl any st : Hist kl any st -> no_stale st.
Proof.
  induction 1 as [|st o _ IH _|st n ord _ IH _|st ords _ IH Ho|st ords _ IH Ho|st _ _ IH|st _ _ IH|st ords order k _ _ IH Ho].
  8: { destruct (gc_cancel_spec kl ords order k st Ho) as (sc & Ec & Ei & _). rewrite Ec. cbn [fst].
       intros t n H. rewrite Ei in H. exact (gc_no_stale kl ords st IH t n H). }
  - intros t n [].
  - now apply step_no_stale.
  - unfold delete. now apply delete_loop_no_stale.
  - now apply gc_no_stale.
  - apply step_no_stale. now apply gc_no_stale.
  - now apply step_no_stale.
  - now apply step_no_stale.
Qed.


(* ------------------------------------------------------------------ *)
(* persistence: index.json *)

(* shape of the reference map: a by-digest reference names its own content, every tagged
   descriptor also has its by-digest reference *)
Definition refs_ok (ix : list (ref * nat)) : Prop :=
  (forall d n, In (RDig d, n) ix -> d = n) /\
  (forall t n, In (RTag t, n) ix -> In (RDig n, n) ix).

Definition nonstale (e : ref * nat) : bool := match fst e with RStale _ => false | _ => true end.

Lemma save_form_In ix e :
  In e (save_form ix) <->
  In e ix /\ match fst e with
             | RTag _ => True
             | RDig _ => ~ In (snd e) (tagged_nodes ix)
             | RStale _ => False end.
Proof.
  unfold save_form. rewrite filter_In. destruct e as [[t|d|t] n]; cbn [fst snd].
  - tauto.
  - rewrite negb_true_iff, memb_false. tauto.
  - split; [intros [_ H]; discriminate|tauto].
Qed.

Lemma load_form_In d e :
  In e (load_form d) <->
  exists e0, In e0 d /\ match fst e0 with
                        | RTag t => e = (RDig (snd e0), snd e0) \/ e = (RTag t, snd e0)
                        | RDig _ => e = (RDig (snd e0), snd e0)
                        | RStale _ => False end.
Proof.
  unfold load_form. rewrite in_flat_map. split; intros (e0 & H0 & H); exists e0; (split; [assumption|]);
    destruct e0 as [[t|d0|t] n]; cbn [fst snd] in *.
  - destruct H as [H|[H|[]]]; auto.
  - destruct H as [H|[]]; auto.
  - destruct H.
  - destruct H as [H|H]; [left|right; left]; auto.
  - left. auto.
  - destruct H.
Qed.

(* loadIndex after saveIndex gives back the reference map *)
Lemma load_save ix e : refs_ok ix ->
  (In e (load_form (save_form ix)) <-> In e ix /\ nonstale e = true).
Proof.
  intros [R1 R2]. rewrite load_form_In. split.
  - intros (e0 & H0 & H). apply save_form_In in H0 as [H0 Hc]. destruct e0 as [[t|d0|t] n]; cbn [fst snd] in *.
    + destruct H as [->| ->]; (split; [|reflexivity]); [now apply (R2 t)|assumption].
    + subst e. pose proof (R1 _ _ H0). subst d0. split; [assumption|reflexivity].
    + destruct H.
  - intros [He Hn]. destruct e as [[t|d0|t] n]; cbn in Hn; try discriminate.
    + exists (RTag t, n). split; [apply save_form_In; cbn; tauto|cbn; now right].
    + pose proof (R1 _ _ He). subst d0.
      destruct (in_dec Nat.eq_dec n (tagged_nodes ix)) as [Ht|Ht].
      * apply tagged_nodes_In in Ht as (t & Ht). exists (RTag t, n).
        split; [apply save_form_In; cbn; tauto|cbn; now left].
      * exists (RDig n, n). split; [apply save_form_In; cbn; tauto|reflexivity].
Qed.

Definition seteq {A} (a b : list A) : Prop := forall e, In e a <-> In e b.

Lemma tagged_nodes_seteq a b : seteq a b -> seteq (tagged_nodes a) (tagged_nodes b).
Proof. intros H n. rewrite !tagged_nodes_In. split; intros (t & Ht); exists t; now apply H. Qed.

Lemma save_form_seteq a b : seteq a b -> seteq (save_form a) (save_form b).
Proof.
  intros H e. rewrite !save_form_In. pose proof (tagged_nodes_seteq a b H (snd e)) as Ht.
  destruct e as [[t|d|t] n]; cbn [fst snd] in *; rewrite (H _); tauto.
Qed.

Lemma load_form_seteq a b : seteq a b -> seteq (load_form a) (load_form b).
Proof. intros H e. rewrite !load_form_In. split; intros (e0 & H0 & Hc); exists e0; (split; [now apply H|assumption]). Qed.

(* stale tag-set entries are not written *)
Lemma save_form_nonstale ix : seteq (save_form (filter nonstale ix)) (save_form ix).
Proof.
  intro e. rewrite !save_form_In, filter_In.
  assert (Ht : forall n, In n (tagged_nodes (filter nonstale ix)) <-> In n (tagged_nodes ix)).
  { intro n. rewrite !tagged_nodes_In. split; intros (t & H); exists t.
    - apply filter_In in H. tauto.
    - apply filter_In. split; [assumption|reflexivity]. }
  destruct e as [[t|d|t] n]; cbn [fst snd]; unfold nonstale; cbn [fst]; rewrite ?Ht; tauto.
Qed.

Lemma refs_ok_load d : refs_ok (load_form d).
Proof.
  split.
  - intros d0 n H. apply load_form_In in H as (e0 & _ & H). destruct e0 as [[t|d1|t] m]; cbn [fst snd] in H.
    + destruct H as [H|H]; congruence.
    + congruence.
    + destruct H.
  - intros t n H. apply load_form_In in H as (e0 & H0 & H). apply load_form_In. exists e0.
    split; [assumption|]. destruct e0 as [[t0|d1|t0] m]; cbn [fst snd] in *.
    + destruct H as [H|H]; [discriminate|]. injection H as -> ->. now left.
    + discriminate.
    + destruct H.
Qed.

Lemma refs_ok_seteq a b : seteq a b -> refs_ok a -> refs_ok b.
Proof.
  intros H [R1 R2]. split.
  - intros d n Hd. apply (R1 d n). now apply H.
  - intros t n Ht. apply H. apply (R2 t). now apply H.
Qed.

Lemma entries_eqb_eq a : forall b, entries_eqb a b = true -> a = b.
Proof.
  induction a as [|x a IH]; intros [|y b]; simpl; intro H; try discriminate; [reflexivity|].
  apply andb_true_iff in H as [H1 H2]. unfold entry_eqb in H1. apply andb_true_iff in H1 as [Hr Hn].
  apply ref_eqb_eq in Hr. apply Nat.eqb_eq in Hn. destruct x, y. simpl in *. subst. f_equal. now apply IH.
Qed.

(* refs_ok is kept by every operation of the repaired code *)
Lemma set_ref_In r n ix e : In e (set_ref r n ix) <-> e = (r, n) \/ (In e ix /\ fst e <> r).
Proof.
  unfold set_ref. simpl. rewrite filter_In, negb_true_iff. split.
  - intros [H|[H1 H2]]; [left; congruence|right]. split; [assumption|].
    intro E. apply ref_eqb_eq in E. congruence.
  - intros [H|[H1 H2]]; [left; congruence|right]. split; [assumption|].
    destruct (ref_eqb (fst e) r) eqn:E; [|reflexivity]. apply ref_eqb_eq in E. contradiction.
Qed.

Lemma refs_ok_set_dig n ix : refs_ok ix -> refs_ok (set_ref (RDig n) n ix).
Proof.
  intros [R1 R2]. split.
  - intros d m H. apply set_ref_In in H as [H|[H _]]; [congruence|eauto].
  - intros t m H. apply set_ref_In in H as [H|[H _]]; [discriminate|].
    apply set_ref_In. destruct (Nat.eq_dec m n) as [->|Hne]; [now left|right].
    split; [now apply (R2 t)|]. cbn. congruence.
Qed.

Lemma delete_loop_refs_ok c ord : forall fuel k st queue seen pending,
  refs_ok (idx st) ->
  refs_ok (idx (fst (delete_loop succ subject manifest c ord fuel k st queue seen pending))).
Proof.
  induction fuel as [|f IH]; intros k st queue seen pending Hw; [exact Hw|].
  cbn [delete_loop]. destruct queue as [|h q]; [exact Hw|].
  unfold delete_one.
  assert (Hw' : refs_ok (del_idx succ manifest st h)).
  { destruct Hw as [R1 R2]. split.
    - intros d n H. apply del_idx_In in H as [[H _]|(d0 & E & _)]; [eauto|congruence].
    - intros t n H. apply del_idx_In in H as [[H Hn]|(d0 & E & _)]; [|discriminate].
      apply del_idx_In. left. split; [now apply (R2 t)|exact Hn]. }
  destruct (memb h (blobs st)); [|exact Hw'].
  apply IH. exact Hw'.
Qed.

Lemma gc_refs_ok kl ords st : (forall i n, In n (ords i) <-> In n (candidates (idx st))) ->
  refs_ok (idx (fst (gc succ subject manifest cfg_fixed kl ords st))).
Proof.
  intro Ho. unfold gc.
  destruct (gc_index_full st ords Ho kl) as (ix' & g & Hg & _ & HT & D1 & _ & D3 & _). rewrite Hg.
  cbn [fst idx]. split.
  - intros d n H. now destruct (D1 d n H).
  - intros t n H. apply HT in H. now apply (D3 t).
Qed.

Lemma step_refs_ok kl st o : refs_ok (idx st) ->
  refs_ok (idx (fst (step succ subject manifest cfg_fixed kl st o))).
Proof.
  intro Hw. destruct o as [n|n t|t|n| |b|s| |]; cbn [step].
  - unfold push. destruct (memb n (blobs st)); [exact Hw|]. cbn [fst idx].
    destruct (manifest n); [now apply refs_ok_set_dig|exact Hw].
  - unfold tag. destruct (memb n (blobs st)); [|exact Hw]. cbn [fst idx fixStale cfg_fixed orb].
    assert (E : match lookup (RTag t) (idx st) with Some _ => [] | None => [] end = (@nil (ref * nat)))
      by (destruct (lookup (RTag t) (idx st)); reflexivity).
    rewrite E. cbn [app]. pose proof (refs_ok_set_dig n _ Hw) as [R1 R2]. split.
    + intros d m H. apply set_ref_In in H as [H|[H _]]; [discriminate|eauto].
    + intros t' m H. apply set_ref_In. right. split; [|cbn; discriminate].
      apply set_ref_In in H as [H|[H _]].
      * injection H as -> ->. apply set_ref_In. now left.
      * now apply (R2 t').
  - unfold untag. destruct (lookup (RTag t) (idx st)); [|exact Hw]. cbn [fst idx].
    destruct Hw as [R1 R2]. split.
    + intros d m H. apply filter_In in H as [H _]. eauto.
    + intros t' m H. apply filter_In in H as [H Hc]. apply filter_In. split; [now apply (R2 t')|reflexivity].
  - unfold delete. now apply delete_loop_refs_ok.
  - apply gc_refs_ok. tauto.
  - exact Hw.
  - exact Hw.
  - cbn [fst idx]. destruct Hw as [R1 R2]. split.
    + intros d m H. apply filter_In in H as [H _]. eauto.
    + intros t' m H. apply filter_In in H as [H _]. apply filter_In. split; [now apply (R2 t')|reflexivity].
  - cbn [fst idx]. split.
    + intros d m H. apply in_flat_map in H as ([r k] & _ & H). destruct r; cbn in H; try contradiction.
      destruct H as [H|[H|[]]]; congruence.
    + intros t' m H. apply in_flat_map in H as ([r k] & Hk & H). apply in_flat_map. exists (r, k).
      split; [assumption|]. destruct r; cbn in *; try contradiction.
      destruct H as [H|[H|[]]]; [discriminate|]. injection H as -> ->. now left.
Qed.

(* the order of effects in the Go source (regenerated call sequences) is the one the model of
   persistence relies on; a reordering of the source breaks these three lemmas *)
Lemma gc_saves_before_sweep_ok : gc_saves_before_sweep = true.
Proof. vm_compute. reflexivity. Qed.
Lemma gc_tests_ctx_before_remove_ok : gc_tests_ctx_before_remove = true.
Proof. vm_compute. reflexivity. Qed.
Lemma delete_saves_before_unlink_ok : delete_saves_before_unlink = true.
Proof. vm_compute. reflexivity. Qed.

(* index.json is current: [disk] is what saveIndex writes for the reference map *)
Definition synced (p : pstate) : Prop := seteq (disk p) (save_form (idx (mem p))).
Definition pstate_ok (p : pstate) : Prop := refs_ok (idx (mem p)) /\ synced p /\ autosave p = true.

Lemma saved_synced b p m :
  (b = false -> seteq (disk p) (save_form (idx m))) -> synced (saved b p m).
Proof.
  intros H. unfold synced, saved. cbn [disk mem]. destruct b; [intro; tauto|now apply H].
Qed.

Lemma pstep_ok kl p o : pstate_ok p -> o <> PAutoSave false ->
  pstate_ok (fst (pstep succ subject manifest cfg_fixed kl p o)).
Proof.
  intros (Hr & Hs & Ha) Hne. destruct o as [o| |b|early order k|bad|alt|order k].
  6: { cbn [pstep fst]. split; [|split; [|exact Ha]].
       - cbn [mem saved idx]. destruct Hr as [R1 R2]. split.
         + intros d m H. apply filter_In in H as [H _]. eauto.
         + intros t m H. apply filter_In in H as [H Hc]. apply filter_In. split; [now apply (R2 t)|exact Hc].
       - rewrite Ha, delete_saves_before_unlink_ok. apply saved_synced. cbn [andb orb]. rewrite andb_true_r. intro Hq.
         apply negb_false_iff in Hq. apply entries_eqb_eq in Hq. cbn [idx]. rewrite Hq. exact Hs. }
  6: { cbn [pstep].
       destruct (gc_cancel succ subject manifest cfg_fixed kl (fun _ => candidates (idx (mem p))) order k (mem p)) as [m r] eqn:E.
       cbn [fst]. unfold gc_cancel in E.
       pose proof (gc_refs_ok kl (fun _ => candidates (idx (mem p))) (mem p) ltac:(tauto)) as Hg. unfold gc in Hg.
       destruct (gc_index _ _ _ _ _ _ (mem p)) as [[ix g]|]; injection E as <- <-.
       - cbn [fst idx] in Hg. split; [exact Hg|split; [|exact Ha]].
         rewrite Ha, gc_saves_before_sweep_ok. apply saved_synced. discriminate.
       - split; [exact Hr|split; [|exact Ha]]. rewrite Ha. apply saved_synced. intros _. exact Hs. }
  5: { cbn [pstep fst]. split; [exact Hr|split; assumption]. }
  - destruct o as [n|n t|t|n| |b|s| |]; cbn [pstep].
    + pose proof (step_refs_ok kl (mem p) (OPush n) Hr) as Hr'. cbn [step] in Hr'.
      unfold push in *. destruct (memb n (blobs (mem p))) eqn:E; cbn [fst] in *.
      * rewrite Ha. cbn. split; [exact Hr|split; [|exact Ha]].
        apply saved_synced. intros _. exact Hs.
      * split; [exact Hr'|split; [|exact Ha]]. rewrite Ha. cbn [andb is_ok].
        apply saved_synced. intro Hm. rewrite andb_true_r in Hm. cbn [idx]. rewrite Hm. exact Hs.
    + pose proof (step_refs_ok kl (mem p) (OTag n t) Hr) as Hr'. cbn [step] in Hr'.
      destruct (tag manifest cfg_fixed (mem p) n t) as [m r] eqn:E. cbn [fst] in *.
      split; [exact Hr'|split; [|exact Ha]]. rewrite Ha. apply saved_synced. cbn [andb]. intro Hok.
      unfold tag in E. destruct (memb n (blobs (mem p))); injection E as <- <-; [discriminate|exact Hs].
    + pose proof (step_refs_ok kl (mem p) (OUntag t) Hr) as Hr'. cbn [step] in Hr'.
      destruct (untag (mem p) t) as [m r] eqn:E. cbn [fst] in *.
      split; [exact Hr'|split; [|exact Ha]]. rewrite Ha. apply saved_synced. cbn [andb]. intro Hok.
      unfold untag in E. destruct (lookup (RTag t) (idx (mem p))); injection E as <- <-; [discriminate|exact Hs].
    + pose proof (step_refs_ok kl (mem p) (ODelete n) Hr) as Hr'. cbn [step] in Hr'.
      destruct (delete succ subject manifest cfg_fixed ord_id (mem p) n) as [m r] eqn:E. cbn [fst] in *.
      split; [exact Hr'|split; [|exact Ha]]. rewrite Ha, delete_saves_before_unlink_ok.
      apply saved_synced. cbn [andb orb]. rewrite andb_true_r. intro Hq.
      apply negb_false_iff in Hq. apply entries_eqb_eq in Hq. rewrite Hq. exact Hs.
    + pose proof (step_refs_ok kl (mem p) OGC Hr) as Hr'. cbn [step] in Hr'.
      destruct (gc succ subject manifest cfg_fixed kl (fun _ => candidates (idx (mem p))) (mem p)) as [m r] eqn:E.
      cbn [fst] in *. split; [exact Hr'|split; [|exact Ha]]. rewrite Ha. apply saved_synced. cbn [andb]. intro Hok.
      unfold gc in E. destruct (gc_index _ _ _ _ _ _ (mem p)) as [[ix g]|]; injection E as <- <-; [discriminate|exact Hs].
    + cbn [fst]. split; [exact Hr|split; [|exact Ha]]. apply saved_synced. intros _. exact Hs.
    + cbn [fst]. split; [exact Hr|split; [|exact Ha]]. apply saved_synced. intros _. exact Hs.
    + cbn [fst]. split; [apply refs_ok_load|split; [|reflexivity]].
      unfold synced, reload. cbn [disk mem idx]. intro e.
      pose proof (load_form_seteq _ _ Hs) as H1.
      assert (H2 : seteq (load_form (disk p)) (filter nonstale (idx (mem p)))).
      { intro x. rewrite (H1 x), (load_save _ x Hr), filter_In. tauto. }
      rewrite (save_form_seteq _ _ H2 e), (save_form_nonstale _ e). apply Hs.
    + cbn [fst]. split; [apply refs_ok_load|split; [|reflexivity]].
      unfold synced, reload. cbn [disk mem idx]. intro e. rewrite save_form_In, load_form_In, filter_In. split.
      * intros [He Ht]. destruct e as [[t|d|t] n]; cbn in Ht; try discriminate.
        split; [exists (RTag t, n); split; [apply filter_In; split; [assumption|reflexivity]|cbn; now right]|exact I].
      * intros ((e0 & H0 & Hc) & Hk). apply filter_In in H0 as [H0 Ht0].
        destruct e0 as [[t0|d0|t0] m]; cbn in Ht0; try discriminate. cbn [fst snd] in Hc.
        destruct Hc as [-> | ->].
        -- exfalso. cbn [fst snd] in Hk. apply Hk. apply tagged_nodes_In. exists t0.
           apply load_form_In. exists (RTag t0, m). split; [apply filter_In; split; [assumption|reflexivity]|cbn; now right].
        -- split; [assumption|reflexivity].
  - cbn [pstep fst]. split; [exact Hr|split; [|exact Ha]]. apply saved_synced. discriminate.
  - destruct b; [|congruence]. cbn [pstep fst]. split; [exact Hr|split; [exact Hs|reflexivity]].
  - destruct early; cbn [pstep]; [split; [exact Hr|split; assumption]|].
    destruct (gc_cancel succ subject manifest cfg_fixed kl (fun _ => candidates (idx (mem p))) order k (mem p)) as [m r] eqn:E.
    cbn [fst]. unfold gc_cancel in E.
    pose proof (gc_refs_ok kl (fun _ => candidates (idx (mem p))) (mem p) ltac:(tauto)) as Hg. unfold gc in Hg.
    destruct (gc_index _ _ _ _ _ _ (mem p)) as [[ix g]|]; injection E as <- <-.
    + cbn [fst idx] in Hg. split; [exact Hg|split; [|exact Ha]].
      rewrite Ha, gc_saves_before_sweep_ok, gc_tests_ctx_before_remove_ok. apply saved_synced. discriminate.
    + split; [exact Hr|split; [|exact Ha]]. rewrite Ha. apply saved_synced. intros _. exact Hs.
Qed.

Lemma pinit_ok : pstate_ok pinit.
Proof.
  split; [split; intros ? ? []|split; [|reflexivity]]. intro e. cbn. tauto.
Qed.

Lemma prun_ok kl ops : Forall (fun o => o <> PAutoSave false) ops ->
  pstate_ok (fold_left (fun p o => fst (pstep succ subject manifest cfg_fixed kl p o)) ops pinit).
Proof.
  assert (H : forall p, pstate_ok p -> Forall (fun o => o <> PAutoSave false) ops ->
    pstate_ok (fold_left (fun p o => fst (pstep succ subject manifest cfg_fixed kl p o)) ops p)).
  { induction ops as [|o ops IH]; intros p Hp Hf; [exact Hp|]. inversion Hf; subst. simpl.
    apply IH; [now apply pstep_ok|assumption]. }
  apply H. exact pinit_ok.
Qed.

(* with a current index.json, a new Store on the directory (reload from disk) is the model's
   OReopen of the in-memory state: same storage, same references, same graph *)
Lemma reload_is_reopen kl p : pstate_ok p ->
  let a := mem (fst (pstep succ subject manifest cfg_fixed kl p (PO OReopen))) in
  let b := fst (step succ subject manifest cfg_fixed kl (mem p) OReopen) in
  blobs a = blobs b /\ seteq (idx a) (idx b) /\ seteq (gnodes a) (gnodes b) /\
  strays a = strays b /\ autogc a = autogc b.
Proof.
  intros (Hr & Hs & _). cbn [pstep step fst mem]. unfold reload. cbn [blobs idx gnodes strays autogc].
  assert (H2 : seteq (load_form (disk p)) (filter nonstale (idx (mem p)))).
  { intro x. rewrite (load_form_seteq _ _ Hs x), (load_save _ x Hr), filter_In. tauto. }
  split; [reflexivity|]. split; [exact H2|]. split; [|split; reflexivity].
  intro x. rewrite !dedup_In, !in_flat_map. split; intros (n & Hn & Hx); exists n; (split; [|assumption]);
    apply in_map_iff in Hn as (e & <- & He); apply in_map; now apply H2.
Qed.


(* every state of the persistence layer's histories (complete and cancelled GCs, SaveIndex,
   AutoSaveIndex on or off, reloads from whatever index.json holds) satisfies the hypotheses of
   the Delete / GC theorems *)
Lemma reload_wf m d : wf (reload succ manifest cfg_fixed m d).
Proof.
  intros y Hy. unfold reload in *. cbn [gnodes blobs] in *. apply (proj1 (dedup_In _ _)) in Hy.
  apply in_flat_map in Hy as (n & _ & Hy).
  change (clo succ manifest cfg_fixed) with (closure succ) in Hy.
  apply closure_spec in Hy. eapply Reach_in; eauto.
Qed.

Lemma reload_no_stale m d : no_stale (reload succ manifest cfg_fixed m d).
Proof.
  intros t n H. unfold reload in H. cbn [idx] in H. apply load_form_In in H as (e0 & _ & H).
  destruct e0 as [[t0|d0|t0] k]; cbn [fst snd] in H; [destruct H as [H|H]| |]; try discriminate; destruct H.
Qed.

Lemma pstep_inv kl p o :
  (forall n, o <> PDeleteAlt n) ->
  wf (mem p) /\ no_stale (mem p) ->
  wf (mem (fst (pstep succ subject manifest cfg_fixed kl p o))) /\
  no_stale (mem (fst (pstep succ subject manifest cfg_fixed kl p o))).
Proof.
  intros Halt [Hw Hn]. destruct o as [o| |b|early order k|bad|alt|order k].
  6: { exfalso. now apply (Halt alt). }
  6: { cbn [pstep].
       destruct (gc_cancel_spec kl (fun _ => candidates (idx (mem p))) order k (mem p) ltac:(tauto))
         as (sc & Ec & Ei & Eg & Hg & Hb & _).
       rewrite Ec. cbn [fst mem saved]. split.
       - intros y Hy. apply Hg in Hy. apply Hb. split; [eapply Live_in; eauto|now left].
       - intros t n H. rewrite Ei in H. exact (gc_no_stale kl _ (mem p) Hn t n H). }
  - pose proof (step_wf kl (mem p) o Hw) as Hw'. pose proof (step_no_stale kl (mem p) o Hn) as Hn'.
    destruct o as [n|n t|t|n| |b|s| |]; cbn [pstep step] in *.
    + destruct (push manifest (mem p) n) as [m r]. cbn [fst mem saved] in *. tauto.
    + destruct (tag manifest cfg_fixed (mem p) n t) as [m r]. cbn [fst mem saved] in *. tauto.
    + destruct (untag (mem p) t) as [m r]. cbn [fst mem saved] in *. tauto.
    + destruct (delete succ subject manifest cfg_fixed ord_id (mem p) n) as [m r]. cbn [fst mem saved] in *. tauto.
    + destruct (gc succ subject manifest cfg_fixed kl _ (mem p)) as [m r]. cbn [fst mem saved] in *. tauto.
    + cbn [fst mem saved] in *. tauto.
    + cbn [fst mem saved] in *. tauto.
    + cbn [fst mem]. split; [apply reload_wf|apply reload_no_stale].
    + cbn [fst mem]. split; [apply reload_wf|apply reload_no_stale].
  - cbn [pstep fst mem saved]. tauto.
  - cbn [pstep fst mem]. tauto.
  - destruct early; cbn [pstep]; [tauto|].
    destruct (gc_cancel_spec kl (fun _ => candidates (idx (mem p))) order k (mem p) ltac:(tauto))
      as (sc & Ec & Ei & Eg & Hg & Hb & _).
    rewrite Ec. cbn [fst mem saved]. split.
    + intros y Hy. apply Hg in Hy. apply Hb. split; [eapply Live_in; eauto|now left].
    + intros t n H. rewrite Ei in H. exact (gc_no_stale kl _ (mem p) Hn t n H).
  - cbn [pstep fst]. tauto.
Qed.

(* the weak well-formedness survives every operation, also a Delete by blob descriptor of a
   plain leaf (no manifest, no subject) *)
Definition plain_alt (o : pop) : Prop := forall n, o = PDeleteAlt n -> manifest n = false /\ subject n = None.

Lemma delete_loop_wfm c ord : forall fuel k st queue seen pending,
  wfm st -> wfm (fst (delete_loop succ subject manifest c ord fuel k st queue seen pending)).
Proof.
  induction fuel as [|f IH]; intros k st queue seen pending Hw; [exact Hw|].
  cbn [delete_loop]. destruct queue as [|h q]; [exact Hw|].
  unfold delete_one.
  assert (Hw' : wfm {| blobs := removeb h (blobs st);
                       idx := del_idx succ manifest st h;
                       gnodes := removeb h (gnodes st);
                       strays := strays st; autogc := autogc st |}).
  { intros y Hy Hc. cbn [gnodes blobs] in *. apply removeb_In in Hy as [Hy Hn]. apply removeb_In. split; auto. }
  destruct (memb h (blobs st)); [|exact Hw'].
  apply IH. exact Hw'.
Qed.

Lemma pstep_inv2 kl p o :
  plain_alt o ->
  wfm (mem p) /\ no_stale (mem p) ->
  wfm (mem (fst (pstep succ subject manifest cfg_fixed kl p o))) /\
  no_stale (mem (fst (pstep succ subject manifest cfg_fixed kl p o))).
Proof.
  intros Halt [Hw Hn]. destruct o as [o| |b|early order k|bad|alt|order k].
  6: { destruct (Halt alt eq_refl) as [Hm Hs]. cbn [pstep fst mem saved]. split.
       - intros y Hy Hc. cbn [gnodes blobs] in *. apply removeb_In. split; [now apply Hw|].
         intro E. subst. destruct Hc as [Hc|Hc]; congruence.
       - intros t n H. cbn [idx] in H. apply filter_In in H as [H _]. now apply (Hn t n). }
  6: { cbn [pstep].
       destruct (gc_cancel_spec kl (fun _ => candidates (idx (mem p))) order k (mem p) ltac:(tauto))
         as (sc & Ec & Ei & Eg & Hg & Hb & _).
       rewrite Ec. cbn [fst mem saved]. split.
       - apply wf_wfm. intros y Hy. apply Hg in Hy. apply Hb. split; [eapply Live_in; eauto|now left].
       - intros t n H. rewrite Ei in H. exact (gc_no_stale kl _ (mem p) Hn t n H). }
  - pose proof (step_no_stale kl (mem p) o Hn) as Hn'.
    destruct o as [n|n t|t|n| |b|s| |]; cbn [pstep step] in *.
    + unfold push in *. destruct (memb n (blobs (mem p))) eqn:E; cbn [fst mem saved] in *; [tauto|].
      split; [|exact Hn']. intros y Hy Hc. cbn [gnodes blobs] in *.
      destruct Hy as [->|Hy]; [now left|]. right. apply removeb_In in Hy as [Hy _]. now apply Hw.
    + unfold tag in *. destruct (memb n (blobs (mem p))) eqn:E; cbn [fst mem saved] in *; [|tauto].
      split; [|exact Hn']. intros y Hy Hc. cbn [gnodes blobs] in *.
      destruct (manifest n); [|now apply Hw].
      destruct Hy as [->|Hy]; [now apply memb_In|]. apply removeb_In in Hy as [Hy _]. now apply Hw.
    + unfold untag in *. destruct (lookup (RTag t) (idx (mem p))); cbn [fst mem saved] in *; tauto.
    + destruct (delete succ subject manifest cfg_fixed ord_id (mem p) n) as [m r] eqn:E. cbn [fst mem saved] in *.
      split; [|exact Hn']. replace m with (fst (delete succ subject manifest cfg_fixed ord_id (mem p) n)) by now rewrite E.
      unfold delete. now apply delete_loop_wfm.
    + destruct (gc succ subject manifest cfg_fixed kl _ (mem p)) as [m r] eqn:E. cbn [fst mem saved] in *.
      split; [|exact Hn']. replace m with (fst (gc succ subject manifest cfg_fixed kl (fun _ => candidates (idx (mem p))) (mem p))) by now rewrite E.
      apply wf_wfm. apply gc_wf. tauto.
    + cbn [fst mem saved] in *. tauto.
    + cbn [fst mem saved] in *. tauto.
    + cbn [fst mem]. split; [apply wf_wfm, reload_wf|apply reload_no_stale].
    + cbn [fst mem]. split; [apply wf_wfm, reload_wf|apply reload_no_stale].
  - cbn [pstep fst mem saved]. tauto.
  - cbn [pstep fst mem]. tauto.
  - destruct early; cbn [pstep]; [tauto|].
    destruct (gc_cancel_spec kl (fun _ => candidates (idx (mem p))) order k (mem p) ltac:(tauto))
      as (sc & Ec & Ei & Eg & Hg & Hb & _).
    rewrite Ec. cbn [fst mem saved]. split.
    + apply wf_wfm. intros y Hy. apply Hg in Hy. apply Hb. split; [eapply Live_in; eauto|now left].
    + intros t n H. rewrite Ei in H. exact (gc_no_stale kl _ (mem p) Hn t n H).
  - cbn [pstep fst]. tauto.
Qed.

Lemma prun_inv2 kl ops :
  Forall plain_alt ops ->
  let p := fold_left (fun p o => fst (pstep succ subject manifest cfg_fixed kl p o)) ops pinit in
  wfm (mem p) /\ no_stale (mem p).
Proof.
  assert (H : forall p, Forall plain_alt ops -> wfm (mem p) /\ no_stale (mem p) ->
     let q := fold_left (fun p o => fst (pstep succ subject manifest cfg_fixed kl p o)) ops p in
     wfm (mem q) /\ no_stale (mem q)).
  { induction ops as [|o ops IH]; intros p Hf Hp; [exact Hp|]. inversion Hf; subst. simpl.
    apply IH; [assumption|]. now apply pstep_inv2. }
  intro Hf. apply H; [exact Hf|]. split; [intros y []|intros t n []].
Qed.

Lemma prun_inv kl ops :
  Forall (fun o => forall n, o <> PDeleteAlt n) ops ->
  let p := fold_left (fun p o => fst (pstep succ subject manifest cfg_fixed kl p o)) ops pinit in
  wf (mem p) /\ no_stale (mem p).
Proof.
  assert (H : forall p, Forall (fun o => forall n, o <> PDeleteAlt n) ops -> wf (mem p) /\ no_stale (mem p) ->
     let q := fold_left (fun p o => fst (pstep succ subject manifest cfg_fixed kl p o)) ops p in
     wf (mem q) /\ no_stale (mem q)).
  { induction ops as [|o ops IH]; intros p Hf Hp; [exact Hp|]. inversion Hf; subst. simpl.
    apply IH; [assumption|]. now apply pstep_inv. }
  intro Hf. apply H; [exact Hf|]. split; [intros y []|intros t n []].
Qed.

End Proofs.

(* ================================================================== *)
(* Witnesses: the code before the repairs, and the one mechanism left *)

Definition succ_w (n : nat) : list nat :=
  match n with
  | 1 => [0] | 2 => [1; 0] | 3 => [1; 2] | 4 => [2] | 5 => [0] | 6 => [1; 5] | 7 => [5; 0]
  | 8 => [2; 0] | 10 => [0; 9] | 11 => [9; 0] | 12 => [2; 2]
  | _ => []
  end.
Definition subject_w (n : nat) : option nat :=
  match n with 2 => Some 1 | 3 => Some 1 | 6 => Some 1 | 7 => Some 5 | 8 => Some 2 | 11 => Some 9 | 12 => Some 2
  | _ => None end.
Definition manifest_w (n : nat) : bool := match n with 0 | 9 => false | _ => true end.
(* 0 blob; 1 image; 2 image with subject 1; 3 index with subject 1 listing 2;
   4 index listing 2; 5 image; 6 index with subject 1 listing 5; 7 image with subject 5;
   8 image with subject 2; 9 layer; 10 image with layer 9; 11 image whose subject is the layer 9;
   12 index with subject 2 that also lists 2 *)

Lemma succ_w_lt : forall n s, In s (succ_w n) -> s < n.
Proof.
  intros n s. do 13 (destruct n as [|n]; [simpl; intuition lia|]). simpl. tauto.
Qed.

Lemma subj_w_succ : forall n s, subject_w n = Some s -> In s (succ_w n).
Proof.
  intros n s. do 13 (destruct n as [|n]; [simpl; intro H; try discriminate; injection H as <-; tauto|]).
  simpl. discriminate.
Qed.

Definition run_w (c : cfg) (ops : list op) : state :=
  fold_left (fun st o => fst (step succ_w subject_w manifest_w c false st o)) ops init.

(* F1: the subject walk of the original gcIndex never leaves its loop *)
Lemma walk_orig_diverges : forall fuel, walk_orig subject_w [2; 1; 0] [] fuel 2 = None.
Proof. induction fuel as [|f IH]; [reflexivity|]. simpl. exact IH. Qed.

Lemma gc_orig_hangs :
  snd (step succ_w subject_w manifest_w cfg_orig false (run_w cfg_orig [OPush 0; OPush 1; OPush 2]) OGC) = EHang.
Proof. vm_compute. reflexivity. Qed.

(* F3: without the repair a tagged referrer is deleted together with its tag *)
Definition cfg_noF3 := {| fixF1 := true; fixF3 := false; fixF4 := true; fixF13 := true;
  fixStale := true; fixLeaf := true; skipLinked := false; fixHold := true;
  fixSubjM := true; fixEntry := true |}.
Lemma delete_noF3_removes_tagged :
  let st := run_w cfg_fixed [OPush 0; OPush 1; OPush 2; OTag 2 0] in
  let st' := fst (delete succ_w subject_w manifest_w cfg_noF3 ord_id st 1) in
  is_tagged st 2 = true /\ In 2 (blobs st) /\ ~ In 2 (blobs st') /\ lookup (RTag 0) (idx st') = None.
Proof. vm_compute. intuition (try discriminate). Qed.

(* F4: without the repair the outcome depends on the iteration order *)
Definition cfg_noF4 := {| fixF1 := true; fixF3 := true; fixF4 := false; fixF13 := true;
  fixStale := true; fixLeaf := true; skipLinked := false; fixHold := false;
  fixSubjM := true; fixEntry := true |}.
Definition ord_rev (k : nat) (l : list nat) : list nat := rev l.
Lemma delete_noF4_order_dependent :
  let st := run_w cfg_fixed [OPush 0; OPush 1; OPush 2; OPush 3] in
  snd (delete succ_w subject_w manifest_w cfg_noF4 ord_id st 1) = ENotFound /\
  snd (delete succ_w subject_w manifest_w cfg_noF4 ord_rev st 1) = Ok.
Proof. vm_compute. split; reflexivity. Qed.

(* F13: a single referrer pass keeps 7 or sweeps it depending on the order *)
Definition cfg_noF13 := {| fixF1 := true; fixF3 := true; fixF4 := true; fixF13 := false;
  fixStale := true; fixLeaf := true; skipLinked := false; fixHold := true;
  fixSubjM := true; fixEntry := true |}.
Lemma gc_noF13_order_dependent :
  let st := run_w cfg_fixed [OPush 0; OPush 1; OPush 5; OPush 6; OPush 7; OTag 1 0] in
  In 7 (blobs (fst (gc succ_w subject_w manifest_w cfg_noF13 false (fun _ => [6; 7; 5]) st))) /\
  ~ In 7 (blobs (fst (gc succ_w subject_w manifest_w cfg_noF13 false (fun _ => [7; 6; 5]) st))) /\
  (forall n, In n [6; 7; 5] <-> In n (candidates (idx st))).
Proof.
  vm_compute. split; [|split].
  - tauto.
  - intuition discriminate.
  - intro n. tauto.
Qed.

(* before the repair of Delete's referrer rule: the referrer 2 of the deleted manifest 1 is
   removed although the surviving tagged index 4 lists it (repaired: 2 stays) *)
Definition cfg_noHold := {| fixF1 := true; fixF3 := true; fixF4 := true; fixF13 := true;
  fixStale := true; fixLeaf := true; skipLinked := false; fixHold := false;
  fixSubjM := true; fixEntry := true |}.
Lemma delete_referrer_still_linked :
  let st := run_w cfg_fixed [OPush 0; OPush 1; OPush 2; OPush 4; OTag 4 0] in
  let st' := fst (delete succ_w subject_w manifest_w cfg_noHold ord_id st 1) in
  let fx' := fst (delete succ_w subject_w manifest_w cfg_fixed ord_id st 1) in
  snd (delete succ_w subject_w manifest_w cfg_noHold ord_id st 1) = Ok /\
  ~ In 2 (blobs st') /\ In 4 (gnodes st') /\ In 2 (succ_w 4) /\ subject_w 4 = None /\
  blobs fx' = [4; 2; 0].
Proof. vm_compute. intuition discriminate. Qed.

(* pre-repair resolver.Memory.Tag: tag 0 is moved from 5 to 1; deleting the index 6 that
   lists 5 leaves 5 behind because its tag set still holds the moved reference *)
Definition cfg_noStale := {| fixF1 := true; fixF3 := true; fixF4 := true; fixF13 := true;
  fixStale := false; fixLeaf := true; skipLinked := false; fixHold := true;
  fixSubjM := true; fixEntry := true |}.
Definition stale_ops := [OPush 0; OPush 5; OPush 6; OPush 1; OTag 5 0; OTag 1 0].
Lemma delete_stale_tag_leaves_garbage :
  let st := run_w cfg_noStale stale_ops in
  let st' := fst (delete succ_w subject_w manifest_w cfg_noStale ord_id st 6) in
  let fx := run_w cfg_fixed stale_ops in
  let fx' := fst (delete succ_w subject_w manifest_w cfg_fixed ord_id fx 6) in
  lookup (RTag 0) (idx st) = Some 1 /\ (forall t, ~ In (RTag t, 5) (idx st)) /\
  In 5 (blobs st') /\ (forall p, In p (gnodes st') -> ~ In 5 (succ_w p)) /\
  ~ In 5 (blobs fx') /\ blobs fx' = [1; 0].
Proof.
  vm_compute. repeat split; try discriminate; try tauto.
  - intros t H. intuition discriminate.
  - intros p H. intuition (subst; simpl in *; intuition discriminate).
  - intuition discriminate.
Qed.

(* pre-repair Delete: after GC the never-stored config 0 of the tagged image 1 is a graph
   node; deleting 1 queues it and aborts with not found *)
Definition cfg_noLeaf := {| fixF1 := true; fixF3 := true; fixF4 := true; fixF13 := true;
  fixStale := true; fixLeaf := false; skipLinked := false; fixHold := true;
  fixSubjM := true; fixEntry := true |}.
Definition leaf_ops := [OPush 1; OTag 1 0; OGC].
Lemma delete_absent_leaf_aborts :
  let st := run_w cfg_noLeaf leaf_ops in
  In 1 (blobs st) /\ In 0 (gnodes st) /\ ~ In 0 (blobs st) /\
  snd (delete succ_w subject_w manifest_w cfg_noLeaf ord_id st 1) = ENotFound /\
  snd (delete succ_w subject_w manifest_w cfg_fixed ord_id (run_w cfg_fixed leaf_ops) 1) = Ok.
Proof. vm_compute. intuition discriminate. Qed.

(* the "small" repair candidate for the known finding -- queue a referrer only when all its
   predecessors are already queued -- breaks referrer chains: 2 (referrer of 1) is held by
   its own referrer 8, so deleting 1 leaves 2 and 8 behind as garbage nobody else links to *)
Definition cfg_skipLinked := {| fixF1 := true; fixF3 := true; fixF4 := true; fixF13 := true;
  fixStale := true; fixLeaf := true; skipLinked := true; fixHold := false;
  fixSubjM := true; fixEntry := true |}.
Lemma delete_skip_linked_leaves_chain :
  let st := run_w cfg_fixed [OPush 0; OPush 1; OPush 2; OPush 8] in
  blobs (fst (delete succ_w subject_w manifest_w cfg_skipLinked ord_id st 1)) = [8; 2; 0] /\
  blobs (fst (delete succ_w subject_w manifest_w cfg_fixed ord_id st 1)) = [] /\
  is_tagged st 2 = false /\ is_tagged st 8 = false.
Proof. vm_compute. repeat split. Qed.

(* audit F-A, before the repair of gcIndex: the layer 9 is never pushed; IndexAll records it
   as a node of the rebuilt graph while indexing the tagged image 10, and 11, whose subject is
   that layer, is kept by GC as garbage (repaired: swept) *)
Definition cfg_noSubjM := {| fixF1 := true; fixF3 := true; fixF4 := true; fixF13 := true;
  fixStale := true; fixLeaf := false; skipLinked := false; fixHold := true;
  fixSubjM := false; fixEntry := true |}.
Definition subjm_ops := [OPush 0; OPush 10; OTag 10 0; OPush 11].
Lemma gc_blob_subject_keeps_garbage :
  blobs (fst (step succ_w subject_w manifest_w cfg_noSubjM false (run_w cfg_noSubjM subjm_ops) OGC)) = [11; 10; 0] /\
  blobs (fst (step succ_w subject_w manifest_w cfg_fixed false (run_w cfg_fixed subjm_ops) OGC)) = [10; 0] /\
  manifest_w 9 = false /\ subject_w 11 = Some 9.
Proof. vm_compute. repeat split. Qed.

(* audit F-C, before the repair of heldBySurvivor: the tagged index 12 names 2 as its subject
   and also lists it; deleting 1 removed its referrer 2 (repaired: 12 holds 2) *)
Definition cfg_noEntry := {| fixF1 := true; fixF3 := true; fixF4 := true; fixF13 := true;
  fixStale := true; fixLeaf := true; skipLinked := false; fixHold := true;
  fixSubjM := true; fixEntry := false |}.
Lemma delete_subject_and_entry :
  let st := run_w cfg_fixed [OPush 0; OPush 1; OPush 2; OPush 12; OTag 12 0] in
  blobs (fst (delete succ_w subject_w manifest_w cfg_noEntry ord_id st 1)) = [12] /\
  blobs (fst (delete succ_w subject_w manifest_w cfg_fixed ord_id st 1)) = [12; 2; 0] /\
  In 2 (entries succ_w subject_w 12).
Proof. vm_compute. repeat split. now left. Qed.

(* the hypotheses of the theorems are satisfiable on a non-trivial history *)
Lemma example_gc :
  let st := run_w cfg_fixed [OPush 0; OPush 1; OPush 2; OPush 3; OPush 5; OPush 6; OPush 7; OTag 1 0; ODelete 3] in
  let st' := fst (step succ_w subject_w manifest_w cfg_fixed false st OGC) in
  blobs st' = [7; 6; 5; 1; 0] /\ snd (step succ_w subject_w manifest_w cfg_fixed false st OGC) = Ok.
Proof. vm_compute. split; reflexivity. Qed.

Lemma example_delete :
  let st := run_w cfg_fixed [OPush 0; OPush 1; OPush 2; OPush 3; OPush 5; OPush 6; OPush 7; OTag 5 0] in
  autogc st = true /\ In 1 (blobs st) /\
  blobs (fst (step succ_w subject_w manifest_w cfg_fixed false st (ODelete 1))) = [7; 5; 0] /\
  snd (step succ_w subject_w manifest_w cfg_fixed false st (ODelete 1)) = Ok.
Proof. vm_compute. intuition. Qed.

(* ================================================================== *)
(* Final forms quoted by Properties/C09.v *)

Definition acyclic (succ : nat -> list nat) : Prop := forall n s, In s (succ n) -> s < n.
Definition subject_listed (succ : nat -> list nat) (subject : nat -> option nat) : Prop :=
  forall n s, subject n = Some s -> In s (succ n).
Definition same_elements (ords : nat -> list nat) (l : list nat) : Prop :=
  forall i n, In n (ords i) <-> In n l.
Definition reorders (ord : nat -> list nat -> list nat) : Prop :=
  forall k l y, In y (ord k l) <-> In y l.

Lemma gc_exact_final : forall succ subject manifest,
  acyclic succ -> subject_listed succ subject ->
  forall kl ords st, same_elements ords (candidates (idx st)) ->
  exists st',
    gc succ subject manifest cfg_fixed kl ords st = (st', Ok) /\
    (forall x, In x (blobs st') <-> In x (blobs st) /\ Live succ subject manifest st x) /\
    (forall x, In x (gnodes st') <-> Live succ subject manifest st x) /\
    (forall t n, In (RTag t, n) (idx st') <-> In (RTag t, n) (idx st)) /\
    (forall x p, In p (preds succ (gnodes st') x) <-> Live succ subject manifest st p /\ In x (succ p)) /\
    (forall s, In s (strays st') <-> In s (strays st) /\ (s_known s && s_valid s = false)) /\
    autogc st' = autogc st.
Proof.
  intros succ subject manifest H1 H2 kl ords st Ho.
  destruct (gc_exact succ subject manifest H1 H2 kl ords st Ho) as (st' & Hg & A & B & C & D & E).
  exists st'. split; [exact Hg|]. split; [exact B|]. split; [exact A|]. split; [exact C|].
  split; [|split; [exact D|exact E]].
  exact (gc_preds succ subject manifest H1 H2 kl ords st st' Ho Hg).
Qed.

Lemma gc_terminates_final : forall succ subject manifest,
  acyclic succ -> subject_listed succ subject ->
  forall kl ords st, same_elements ords (candidates (idx st)) ->
  snd (gc succ subject manifest cfg_fixed kl ords st) = Ok.
Proof.
  intros succ subject manifest H1 H2 kl ords st Ho.
  destruct (gc_exact_final succ subject manifest H1 H2 kl ords st Ho) as (st' & Hg & _). now rewrite Hg.
Qed.

Lemma delete_exact_final : forall succ subject manifest,
  acyclic succ -> subject_listed succ subject ->
  forall st x, wfm subject manifest st -> autogc st = true -> In x (blobs st) ->
  forall ord, reorders ord ->
  exists st',
    delete succ subject manifest cfg_fixed ord st x = (st', Ok) /\
    (forall y, In y (blobs st') <-> In y (blobs st) /\ ~ Gone succ subject manifest st x y) /\
    (forall y, In y (gnodes st') <-> In y (gnodes st) /\ ~ Gone succ subject manifest st x y) /\
    (forall r n, In (r, n) (idx st') ->
       ~ Gone succ subject manifest st x n /\ (In (r, n) (idx st) \/ (r = RDig n /\ manifest n = true))) /\
    (forall r n, In (r, n) (idx st) -> ~ Gone succ subject manifest st x n -> In (r, n) (idx st')) /\
    (forall t n, In (RTag t, n) (idx st') <-> In (RTag t, n) (idx st) /\ n <> x) /\
    (forall r, ~ In (r, x) (idx st')) /\
    strays st' = strays st /\ autogc st' = autogc st /\
    ((forall d n, In (RDig d, n) (idx st) -> d = n) ->
     forall d, ~ In (RDig d, d) (idx st) ->
       (In (RDig d, d) (idx st') <->
        manifest d = true /\ In d (gnodes st) /\ ~ Gone succ subject manifest st x d /\
        (exists p, In p (gnodes st) /\ In d (succ p)) /\
        (forall p, In p (gnodes st) -> In d (succ p) -> Gone succ subject manifest st x p) /\
        (forall m, ~ In (RDig d, m) (idx st)))).
Proof.
  intros succ subject manifest H1 H2 st x Hw Ha Hx ord Ho.
  destruct (delete_exact_sec succ subject manifest H1 H2 st x Hw Ha Hx ord Ho)
    as (st' & Hd & A & B & [C1 C2] & D & E & N).
  assert (Htag : forall t n, In (RTag t, n) (idx st) -> n <> x -> ~ Gone succ subject manifest st x n).
  { intros t n Ht Hn HG.
    pose proof (gone_untagged succ subject manifest st x n HG Hn) as Hf.
    assert (Ht' : is_tagged st n = true) by (apply is_tagged_spec; eauto). congruence. }
  exists st'. split; [exact Hd|]. split; [exact A|]. split; [exact B|].
  split; [|split; [|split; [|split; [|split; [exact D|split; [exact E|exact N]]]]]].
  - intros r n H. destruct (C1 (r, n) H) as [Hg [Ho'|(d & Ed & Hm)]]; (split; [exact Hg|]).
    + now left.
    + right. injection Ed as -> ->. split; [reflexivity|assumption].
  - intros r n H Hg. exact (C2 (r, n) H Hg).
  - intros t n. split.
    + intro H. destruct (C1 (RTag t, n) H) as [Hg [Ho'|(d & Ed & _)]]; [|discriminate].
      split; [assumption|]. intro E'. subst. apply Hg. constructor.
    + intros [H Hn]. apply (C2 (RTag t, n) H). simpl. eapply Htag; eauto.
  - intros r H. destruct (C1 (r, x) H) as [Hg _]. apply Hg. constructor.
Qed.

Lemma delete_terminates_final : forall succ subject manifest,
  acyclic succ -> subject_listed succ subject ->
  forall st x, wfm subject manifest st -> autogc st = true -> In x (blobs st) ->
  forall ord, reorders ord ->
  snd (delete succ subject manifest cfg_fixed ord st x) <> EHang.
Proof.
  intros succ subject manifest H1 H2 st x Hw Ha Hx ord Ho.
  destruct (delete_exact_final succ subject manifest H1 H2 st x Hw Ha Hx ord Ho) as (st' & Hd & _).
  rewrite Hd. discriminate.
Qed.

(* what the cascade may touch: never a tagged node, never a node outside the graph, never a
   node that a surviving node lists (every holder of a removed node is removed too) *)
Lemma delete_never_final : forall succ subject manifest st x y,
  Gone succ subject manifest st x y -> y <> x ->
  is_tagged st y = false /\ In y (gnodes st) /\
  (forall p, In p (gnodes st) -> In y (entries succ subject p) ->
             Gone succ subject manifest st x p).
Proof.
  intros succ subject manifest st x y HG Hn. split; [|split].
  - eapply gone_untagged; eauto.
  - destruct (gone_in_store _ _ _ _ _ _ HG); [contradiction|assumption].
  - intros p Hp Hs. eapply gone_holders; eauto.
Qed.

Lemma delete_plain_final : forall succ subject manifest st x ord,
  reorders ord -> autogc st = false -> In x (blobs st) ->
  exists st',
    delete succ subject manifest cfg_fixed ord st x = (st', Ok) /\
    blobs st' = removeb x (blobs st) /\ gnodes st' = removeb x (gnodes st) /\
    idx st' = del_idx succ manifest st x /\
    strays st' = strays st /\ autogc st' = autogc st.
Proof. intros. now apply delete_plain. Qed.

Lemma wf_final : forall succ subject manifest,
  acyclic succ -> subject_listed succ subject ->
  forall kl ops, wf (fold_left (fun st o => fst (step succ subject manifest cfg_fixed kl st o)) ops init).
Proof. intros. now apply run_wf. Qed.

Lemma gc_terminates_refuted_final :
  (forall fuel, walk_orig subject_w [2; 1; 0] [] fuel 2 = None) /\
  snd (step succ_w subject_w manifest_w cfg_orig false (run_w cfg_orig [OPush 0; OPush 1; OPush 2]) OGC) = EHang.
Proof. split; [exact walk_orig_diverges|exact gc_orig_hangs]. Qed.

Lemma hyps_satisfiable : acyclic succ_w /\ subject_listed succ_w subject_w.
Proof. split; [exact succ_w_lt|exact subj_w_succ]. Qed.

Lemma no_stale_final : forall succ subject manifest kl ops,
  let st := fold_left (fun st o => fst (step succ subject manifest cfg_fixed kl st o)) ops init in
  forall n, is_tagged st n = true <-> exists t, In (RTag t, n) (idx st).
Proof. intros. apply no_stale_tagged. apply run_no_stale. Qed.

Lemma gc_reopen_final : forall succ subject manifest,
  acyclic succ -> subject_listed succ subject ->
  forall kl ords st st', same_elements ords (candidates (idx st)) ->
  gc succ subject manifest cfg_fixed kl ords st = (st', Ok) ->
  let st2 := fst (step succ subject manifest cfg_fixed kl st' OReopen) in
  blobs st2 = blobs st' /\ idx st2 = idx st' /\ strays st2 = strays st' /\
  (forall x, In x (gnodes st2) <-> In x (gnodes st')).
Proof. intros succ subject manifest H1 H2. exact (gc_reopen succ subject manifest H1 H2). Qed.

(* histories with arbitrary orders: every reachable state is well-formed and free of stale
   tag-set entries; without reopening at arbitrary points every stored blob is a graph node *)
Lemma hist_final : forall succ subject manifest,
  acyclic succ -> subject_listed succ subject ->
  forall kl any st, Hist succ subject manifest kl any st ->
  wf st /\ (forall n, is_tagged st n = true <-> exists t, In (RTag t, n) (idx st)) /\
  (any = false -> forall y, In y (blobs st) -> In y (gnodes st)).
Proof.
  intros succ subject manifest H1 H2 kl any st H. split; [|split].
  - eapply hist_wf; eauto.
  - intro n. apply no_stale_tagged. eapply hist_no_stale; eauto.
  - intros ->. eapply hist_full; eauto.
Qed.

Lemma delete_absent_final : forall succ subject manifest st x ord c,
  ~ In x (blobs st) ->
  snd (delete succ subject manifest c ord st x) = ENotFound /\
  blobs (fst (delete succ subject manifest c ord st x)) = blobs st /\
  gnodes (fst (delete succ subject manifest c ord st x)) = removeb x (gnodes st) /\
  idx (fst (delete succ subject manifest c ord st x)) = del_idx succ manifest st x.
Proof.
  intros succ subject manifest st x ord c Hx. split; [now apply delete_absent|].
  rewrite (delete_absent_state succ subject manifest st x ord c Hx). cbn [blobs gnodes idx].
  split; [now apply removeb_absent|split; reflexivity].
Qed.

(* ---- GC cancelled in the sweep, resumed, repeated ---- *)
Lemma gc_cancel_final : forall succ subject manifest,
  acyclic succ -> subject_listed succ subject ->
  forall kl ords order k st, same_elements ords (candidates (idx st)) ->
  exists st',
    gc_cancel succ subject manifest cfg_fixed kl ords order k st = (st', ECanceled) /\
    idx st' = idx (fst (gc succ subject manifest cfg_fixed kl ords st)) /\
    gnodes st' = gnodes (fst (gc succ subject manifest cfg_fixed kl ords st)) /\
    (forall x, In x (gnodes st') <-> Live succ subject manifest st x) /\
    (forall x, In x (blobs st') <->
               In x (blobs st) /\ (Live succ subject manifest st x \/ swept_blob x (firstn k order) = false)) /\
    (forall s, In s (strays st') <->
               In s (strays st) /\ (s_known s && s_valid s = false \/
                                    swept_stray (s_id s) (firstn k order) = false)) /\
    autogc st' = autogc st /\
    (forall x, Live succ subject manifest st' x <-> Live succ subject manifest st x).
Proof. intros succ subject manifest H1 H2. exact (gc_cancel_spec succ subject manifest H1 H2). Qed.

Lemma gc_resume_final : forall succ subject manifest,
  acyclic succ -> subject_listed succ subject ->
  forall kl ords order k st ords2,
  same_elements ords (candidates (idx st)) ->
  let sc := fst (gc_cancel succ subject manifest cfg_fixed kl ords order k st) in
  same_elements ords2 (candidates (idx sc)) ->
  let s1 := fst (gc succ subject manifest cfg_fixed kl ords st) in
  let s2 := fst (gc succ subject manifest cfg_fixed kl ords2 sc) in
  snd (gc succ subject manifest cfg_fixed kl ords2 sc) = Ok /\
  (forall x, In x (blobs s2) <-> In x (blobs s1)) /\
  (forall x, In x (gnodes s2) <-> In x (gnodes s1)) /\
  (forall t n, In (RTag t, n) (idx s2) <-> In (RTag t, n) (idx s1)).
Proof.
  intros succ subject manifest H1 H2 kl ords order k st ords2 Ho sc Ho2 s1 s2.
  destruct (gc_cancel_spec succ subject manifest H1 H2 kl ords order k st Ho)
    as (sc' & Ec & _ & _ & _ & Hb & _ & _ & HLc).
  assert (Esc : sc = sc') by (unfold sc; now rewrite Ec). subst sc'.
  destruct (gc_exact succ subject manifest H1 H2 kl ords st Ho) as (t1 & E1 & G1 & B1 & T1 & _).
  destruct (gc_exact succ subject manifest H1 H2 kl ords2 sc Ho2) as (t2 & E2 & G2 & B2 & T2 & _).
  assert (Es1 : s1 = t1) by (unfold s1; now rewrite E1).
  assert (Es2 : s2 = t2) by (unfold s2; now rewrite E2).
  rewrite Es1, Es2. split; [now rewrite E2|]. split; [|split].
  - intro x. rewrite B2, B1, Hb, HLc. tauto.
  - intro x. rewrite G2, G1. apply HLc.
  - intros t n. rewrite T2, T1.
    destruct (gc_cancel_spec succ subject manifest H1 H2 kl ords order k st Ho)
      as (sc'' & Ec' & Ei & _). assert (sc = sc'') by (unfold sc; now rewrite Ec'). subst sc''.
    rewrite Ei, E1. cbn [fst]. apply T1.
Qed.

Lemma gc_idempotent_final : forall succ subject manifest,
  acyclic succ -> subject_listed succ subject ->
  forall kl ords st ords2,
  same_elements ords (candidates (idx st)) ->
  let s1 := fst (gc succ subject manifest cfg_fixed kl ords st) in
  same_elements ords2 (candidates (idx s1)) ->
  let s2 := fst (gc succ subject manifest cfg_fixed kl ords2 s1) in
  (forall x, In x (blobs s2) <-> In x (blobs s1)) /\
  (forall x, In x (gnodes s2) <-> In x (gnodes s1)) /\
  (forall t n, In (RTag t, n) (idx s2) <-> In (RTag t, n) (idx s1)) /\
  (forall s, In s (strays s2) <-> In s (strays s1)).
Proof.
  intros succ subject manifest H1 H2 kl ords st ords2 Ho s1 Ho2 s2.
  pose proof (gc_live_same succ subject manifest H1 H2 kl ords st Ho) as HL. fold s1 in HL.
  destruct (gc_exact succ subject manifest H1 H2 kl ords st Ho) as (t1 & E1 & G1 & B1 & T1 & S1 & _).
  destruct (gc_exact succ subject manifest H1 H2 kl ords2 s1 Ho2) as (t2 & E2 & G2 & B2 & T2 & S2 & _).
  assert (Es1 : s1 = t1) by (unfold s1; now rewrite E1).
  assert (Es2 : s2 = t2) by (unfold s2; now rewrite E2).
  rewrite Es2. split; [|split; [|split]].
  - intro x. rewrite B2, HL. rewrite Es1, B1. tauto.
  - intro x. rewrite G2, HL. rewrite Es1, G1. tauto.
  - intros t n. rewrite T2. tauto.
  - intro s. rewrite S2. rewrite Es1, S1. tauto.
Qed.

(* ---- persistence ---- *)
Definition prun_w (ops : list pop) : pstate :=
  fold_left (fun p o => fst (pstep succ_w subject_w manifest_w cfg_fixed true p o)) ops pinit.

(* AutoSaveIndex off and no SaveIndex: the tag and the manifest are lost by a restart followed
   by GC ("unsaved index will be lost"); with AutoSaveIndex on they survive *)
Lemma unsaved_index_lost :
  let ops := [PO (OPush 0); PO (OPush 1); PO (OTag 1 0); PO OReopen; PO OGC] in
  blobs (mem (prun_w (PAutoSave false :: ops))) = [] /\
  lookup (RTag 0) (idx (mem (prun_w (PAutoSave false :: ops)))) = None /\
  blobs (mem (prun_w ops)) = [1; 0] /\
  lookup (RTag 0) (idx (mem (prun_w ops))) = Some 1 /\
  blobs (mem (prun_w (PAutoSave false :: [PO (OPush 0); PO (OPush 1); PO (OTag 1 0); PSave; PO OReopen; PO OGC]))) = [1; 0].
Proof. vm_compute. repeat split. Qed.

Lemma index_json_current_final : forall succ subject manifest,
  acyclic succ -> subject_listed succ subject ->
  forall kl ops, Forall (fun o => o <> PAutoSave false) ops ->
  let p := fold_left (fun p o => fst (pstep succ subject manifest cfg_fixed kl p o)) ops pinit in
  (forall e, In e (disk p) <-> In e (save_form (idx (mem p)))) /\
  refs_ok (idx (mem p)) /\ autosave p = true.
Proof.
  intros succ subject manifest H1 H2 kl ops Hf p.
  destruct (prun_ok succ subject manifest H1 H2 kl ops Hf) as (Hr & Hs & Ha). fold p in Hr, Hs, Ha.
  split; [exact Hs|split; assumption].
Qed.

Lemma index_json_step_final : forall succ subject manifest,
  acyclic succ -> subject_listed succ subject ->
  forall kl p o, pstate_ok p -> o <> PAutoSave false ->
  pstate_ok (fst (pstep succ subject manifest cfg_fixed kl p o)).
Proof. intros succ subject manifest H1 H2. exact (pstep_ok succ subject manifest H1 H2). Qed.

Lemma save_index_final : forall succ subject manifest kl p,
  let p' := fst (pstep succ subject manifest cfg_fixed kl p PSave) in
  disk p' = save_form (idx (mem p)) /\ mem p' = mem p.
Proof. intros. split; reflexivity. Qed.

Lemma load_save_final : forall ix e, refs_ok ix ->
  (In e (load_form (save_form ix)) <-> In e ix /\ nonstale e = true).
Proof. intros ix e H. exact (load_save (fun _ => true) ix e H). Qed.

Lemma reload_is_reopen_final : forall succ subject manifest,
  acyclic succ -> subject_listed succ subject ->
  forall kl p, pstate_ok p ->
  let a := mem (fst (pstep succ subject manifest cfg_fixed kl p (PO OReopen))) in
  let b := fst (step succ subject manifest cfg_fixed kl (mem p) OReopen) in
  blobs a = blobs b /\ (forall e, In e (idx a) <-> In e (idx b)) /\
  (forall x, In x (gnodes a) <-> In x (gnodes b)) /\
  strays a = strays b /\ autogc a = autogc b.
Proof. intros succ subject manifest _ _ kl p Hp. apply reload_is_reopen. exact Hp. Qed.

Lemma effect_order_final :
  gc_saves_before_sweep = true /\ gc_tests_ctx_before_remove = true /\ delete_saves_before_unlink = true.
Proof. split; [exact gc_saves_before_sweep_ok|split; [exact gc_tests_ctx_before_remove_ok|exact delete_saves_before_unlink_ok]]. Qed.

(* ---- consequences stated end to end ---- *)

(* the outcome of Delete and of GC does not depend on Go's map iteration orders *)
Lemma order_independent_final : forall succ subject manifest,
  acyclic succ -> subject_listed succ subject ->
  (forall st x, wfm subject manifest st -> autogc st = true -> In x (blobs st) ->
     forall o1 o2, reorders o1 -> reorders o2 ->
     let a := fst (delete succ subject manifest cfg_fixed o1 st x) in
     let b := fst (delete succ subject manifest cfg_fixed o2 st x) in
     (forall y, In y (blobs a) <-> In y (blobs b)) /\ (forall y, In y (gnodes a) <-> In y (gnodes b)) /\
     (forall t n, In (RTag t, n) (idx a) <-> In (RTag t, n) (idx b))) /\
  (forall kl st o1 o2, same_elements o1 (candidates (idx st)) -> same_elements o2 (candidates (idx st)) ->
     let a := fst (gc succ subject manifest cfg_fixed kl o1 st) in
     let b := fst (gc succ subject manifest cfg_fixed kl o2 st) in
     (forall y, In y (blobs a) <-> In y (blobs b)) /\ (forall y, In y (gnodes a) <-> In y (gnodes b)) /\
     (forall t n, In (RTag t, n) (idx a) <-> In (RTag t, n) (idx b))).
Proof.
  intros succ subject manifest H1 H2. split.
  - intros st x Hw Ha Hx o1 o2 Ho1 Ho2 a b.
    destruct (delete_exact_final succ subject manifest H1 H2 st x Hw Ha Hx o1 Ho1) as (s1 & E1 & B1 & G1 & _ & _ & T1 & _).
    destruct (delete_exact_final succ subject manifest H1 H2 st x Hw Ha Hx o2 Ho2) as (s2 & E2 & B2 & G2 & _ & _ & T2 & _).
    unfold a, b. rewrite E1, E2. cbn [fst]. split; [|split].
    + intro y. rewrite B1, B2. tauto.
    + intro y. rewrite G1, G2. tauto.
    + intros t n. rewrite T1, T2. tauto.
  - intros kl st o1 o2 Ho1 Ho2 a b.
    destruct (gc_exact succ subject manifest H1 H2 kl o1 st Ho1) as (s1 & E1 & G1 & B1 & T1 & _).
    destruct (gc_exact succ subject manifest H1 H2 kl o2 st Ho2) as (s2 & E2 & G2 & B2 & T2 & _).
    unfold a, b. rewrite E1, E2. cbn [fst]. split; [|split].
    + intro y. rewrite B1, B2. tauto.
    + intro y. rewrite G1, G2. tauto.
    + intros t n. rewrite T1, T2. tauto.
Qed.

(* a tagged descriptor that is stored stays stored and keeps its tags under every Delete of
   another descriptor (AutoGC on or off, target stored or not, every iteration order), and
   under every GC, complete or cancelled, together with everything reachable from it *)
Lemma tagged_kept_final : forall succ subject manifest,
  acyclic succ -> subject_listed succ subject ->
  forall st n t, wfm subject manifest st -> In (RTag t, n) (idx st) -> In n (blobs st) ->
  (forall x ord, reorders ord -> x <> n ->
     let st' := fst (delete succ subject manifest cfg_fixed ord st x) in
     In n (blobs st') /\ In (RTag t, n) (idx st')) /\
  (forall kl ords order k, same_elements ords (candidates (idx st)) ->
     let s1 := fst (gc succ subject manifest cfg_fixed kl ords st) in
     let s2 := fst (gc_cancel succ subject manifest cfg_fixed kl ords order k st) in
     forall y, Reach succ (blobs st) n y ->
       In y (blobs s1) /\ In y (blobs s2) /\ In (RTag t, n) (idx s1) /\ In (RTag t, n) (idx s2)).
Proof.
  intros succ subject manifest H1 H2 st n t Hw Ht Hn. split.
  - intros x ord Ho Hne st'. unfold st'.
    destruct (in_dec Nat.eq_dec x (blobs st)) as [Hx|Hx].
    + destruct (autogc st) eqn:Ha.
      * destruct (delete_exact_final succ subject manifest H1 H2 st x Hw Ha Hx ord Ho)
          as (s1 & E1 & B1 & _ & _ & _ & T1 & _).
        rewrite E1. cbn [fst]. split; [|apply T1; split; [assumption|congruence]].
        apply B1. split; [assumption|]. intro HG.
        pose proof (gone_untagged succ subject manifest st x n HG ltac:(congruence)) as Hf.
        assert (is_tagged st n = true) by (apply is_tagged_spec; eauto). congruence.
      * destruct (delete_plain succ subject manifest st x ord Ho Ha Hx) as (s1 & E1 & B1 & _ & I1 & _).
        rewrite E1. cbn [fst]. rewrite B1, I1. split.
        -- apply removeb_In. split; [assumption|congruence].
        -- apply del_idx_In. left. split; [assumption|cbn; congruence].
    + rewrite (delete_absent_state succ subject manifest st x ord cfg_fixed Hx). cbn [blobs idx]. split.
      * rewrite removeb_absent; assumption.
      * apply del_idx_In. left. split; [assumption|cbn; congruence].
  - intros kl ords order k Ho s1 s2 y Hy.
    assert (HL : Live succ subject manifest st y) by (eapply L_tag; eauto).
    destruct (gc_exact succ subject manifest H1 H2 kl ords st Ho) as (a & E1 & _ & B1 & T1 & _).
    destruct (gc_cancel_spec succ subject manifest H1 H2 kl ords order k st Ho) as (c & E2 & Ei & _ & _ & B2 & _).
    unfold s1, s2. rewrite E1, E2. cbn [fst].
    assert (Hyb : In y (blobs st)) by (eapply Reach_in; eauto).
    split; [apply B1; tauto|]. split; [apply B2; tauto|]. split; [now apply T1|].
    rewrite Ei, E1. cbn [fst]. now apply T1.
Qed.

Lemma media_type_tables_final :
  subject_tables_agree = true /\
  map kind_has_subject [0; 1; 2; 3; 4; 5] = [false; true; false; true; false; true] /\
  map is_manifest_kind [0; 1; 2; 3; 4; 5] = [false; true; true; true; true; true].
Proof. vm_compute. repeat split. Qed.

Lemma phistories_final : forall succ subject manifest,
  acyclic succ -> subject_listed succ subject ->
  forall kl ops, Forall (fun o => forall n, o <> PDeleteAlt n) ops ->
  let p := fold_left (fun p o => fst (pstep succ subject manifest cfg_fixed kl p o)) ops pinit in
  wf (mem p) /\ (forall n, is_tagged (mem p) n = true <-> exists t, In (RTag t, n) (idx (mem p))).
Proof.
  intros succ subject manifest H1 H2 kl ops Hf p.
  destruct (prun_inv succ subject manifest H1 H2 kl ops Hf) as [Hw Hn]. fold p in Hw, Hn.
  split; [exact Hw|]. intro n. now apply no_stale_tagged.
Qed.

Lemma gc_digest_refs_final : forall succ subject manifest,
  acyclic succ -> subject_listed succ subject ->
  forall ords st, same_elements ords (candidates (idx st)) ->
  let st' := fst (gc succ subject manifest cfg_fixed true ords st) in
  forall d r, In (RDig d, r) (idx st') <->
    d = r /\ ((exists t, In (RTag t, r) (idx st)) \/
              ((exists d', In (RDig d', r) (idx st)) /\
               (Live succ subject manifest st r \/
                (~ In r (blobs st) /\ manifest r = false /\
                 exists p, Live succ subject manifest st p /\ In r (succ p))))).
Proof.
  intros succ subject manifest H1 H2 ords st Ho st'. unfold st', gc.
  destruct (gc_index_digs succ subject manifest H1 H2 st ords Ho) as (ix' & g & E & H).
  rewrite E. cbn [fst idx]. exact H.
Qed.

(* non-trivial instances of the new hypotheses / operations *)
Definition cancel_pre := [PO (OPush 0); PO (OPush 1); PO (OPush 2); PO (OPush 5); PO (OPush 7); PO (OTag 1 0)].
Definition cancel_order := [SBlob 5; SBlob 0; SBlob 7; SBlob 2; SBlob 1].
Lemma example_cancel_resume :
  (* 2 is a referrer of the tagged 1 (kept); 5 and its referrer 7 are garbage *)
  blobs (mem (prun_w (cancel_pre ++ [PGCCancel false cancel_order 1]))) = [7; 2; 1; 0] /\
  snd (pstep succ_w subject_w manifest_w cfg_fixed true (prun_w cancel_pre) (PGCCancel false cancel_order 1)) = ECanceled /\
  blobs (mem (prun_w (cancel_pre ++ [PGCCancel false cancel_order 3]))) = [2; 1; 0] /\
  blobs (mem (prun_w (cancel_pre ++ [PGCCancel false cancel_order 1; PO OGC]))) = [2; 1; 0] /\
  blobs (mem (prun_w (cancel_pre ++ [PO OGC]))) = [2; 1; 0] /\
  disk (prun_w (cancel_pre ++ [PGCCancel false cancel_order 1])) = disk (prun_w (cancel_pre ++ [PO OGC])).
Proof. vm_compute. repeat split. Qed.

Lemma example_pstate_ok : pstate_ok (prun_w (cancel_pre ++ [PGCCancel false cancel_order 1])).
Proof.
  apply (prun_ok succ_w subject_w manifest_w succ_w_lt subj_w_succ true).
  repeat constructor; discriminate.
Qed.

Lemma lock_discipline_final : lock_discipline = true.
Proof. vm_compute. reflexivity. Qed.

(* Delete with the blob descriptor Resolve(<digest>) returns: the file and the references go, the
   graph keeps a node without content (wf is lost until GC or a reload); GC repairs it *)
Lemma delete_alt_stale_node :
  let p := prun_w [PO (OPush 0); PO (OPush 1); PDeleteAlt 0] in
  blobs (mem p) = [1] /\ In 0 (gnodes (mem p)) /\ ~ In 0 (blobs (mem p)) /\
  gnodes (mem (prun_w [PO (OPush 0); PO (OPush 1); PO (OTag 1 0); PDeleteAlt 0; PO OGC])) = [1] /\
  snd (pstep succ_w subject_w manifest_w cfg_fixed true (prun_w [PO (OPush 0); PO (OPush 1)]) (PDeleteAlt 0)) = Ok /\
  snd (pstep succ_w subject_w manifest_w cfg_fixed true p (PDeleteAlt 0)) = ENotFound.
Proof. vm_compute. intuition discriminate. Qed.

(* every history of the persistence layer - also with Deletes by blob descriptor of plain leaves -
   reaches only states in which the Delete theorems apply *)
Lemma phistories2_final : forall succ subject manifest,
  acyclic succ -> subject_listed succ subject ->
  forall kl ops, Forall (plain_alt subject manifest) ops ->
  let p := fold_left (fun p o => fst (pstep succ subject manifest cfg_fixed kl p o)) ops pinit in
  wfm subject manifest (mem p) /\
  (forall n, is_tagged (mem p) n = true <-> exists t, In (RTag t, n) (idx (mem p))).
Proof.
  intros succ subject manifest H1 H2 kl ops Hf p.
  destruct (prun_inv2 succ subject manifest H1 H2 kl ops Hf) as [Hw Hn]. fold p in Hw, Hn.
  split; [exact Hw|]. intro n. now apply no_stale_tagged.
Qed.

Lemma wf_wfm_final : forall subject manifest st, wf st -> wfm subject manifest st.
Proof. intros subject manifest st H. now apply wf_wfm. Qed.

(* the Delete theorems in every state of every history of the persistence layer *)
Lemma reachable_delete_final : forall succ subject manifest,
  acyclic succ -> subject_listed succ subject ->
  forall kl ops, Forall (plain_alt subject manifest) ops ->
  let st := mem (fold_left (fun p o => fst (pstep succ subject manifest cfg_fixed kl p o)) ops pinit) in
  (forall x ord, autogc st = true -> In x (blobs st) -> reorders ord ->
     exists st',
       delete succ subject manifest cfg_fixed ord st x = (st', Ok) /\
       (forall y, In y (blobs st') <-> In y (blobs st) /\ ~ Gone succ subject manifest st x y) /\
       (forall y, In y (gnodes st') <-> In y (gnodes st) /\ ~ Gone succ subject manifest st x y) /\
       (forall t n, In (RTag t, n) (idx st') <-> In (RTag t, n) (idx st) /\ n <> x) /\
       (forall r, ~ In (r, x) (idx st'))) /\
  (forall n t x ord, In (RTag t, n) (idx st) -> In n (blobs st) -> reorders ord -> x <> n ->
     let st' := fst (delete succ subject manifest cfg_fixed ord st x) in
     In n (blobs st') /\ In (RTag t, n) (idx st')) /\
  (forall x o1 o2, autogc st = true -> In x (blobs st) -> reorders o1 -> reorders o2 ->
     let a := fst (delete succ subject manifest cfg_fixed o1 st x) in
     let b := fst (delete succ subject manifest cfg_fixed o2 st x) in
     (forall y, In y (blobs a) <-> In y (blobs b)) /\ (forall y, In y (gnodes a) <-> In y (gnodes b)) /\
     (forall t n, In (RTag t, n) (idx a) <-> In (RTag t, n) (idx b))).
Proof.
  intros succ subject manifest H1 H2 kl ops Hf st.
  destruct (phistories2_final succ subject manifest H1 H2 kl ops Hf) as [Hw _]. fold st in Hw.
  split; [|split].
  - intros x ord Ha Hx Ho.
    destruct (delete_exact_final succ subject manifest H1 H2 st x Hw Ha Hx ord Ho)
      as (s1 & E1 & B1 & G1 & _ & _ & T1 & N1 & _).
    exists s1. split; [exact E1|]. split; [exact B1|]. split; [exact G1|]. split; [exact T1|exact N1].
  - intros n t x ord Ht Hn Ho Hne.
    exact (proj1 (tagged_kept_final succ subject manifest H1 H2 st n t Hw Ht Hn) x ord Ho Hne).
  - intros x o1 o2 Ha Hx Ho1 Ho2.
    exact (proj1 (order_independent_final succ subject manifest H1 H2) st x Hw Ha Hx o1 o2 Ho1 Ho2).
Qed.
