From Coq Require Import List Arith Bool PeanoNat Lia.
Import ListNotations.
From Oras Require Import Model.OciGC.

Lemma placeholder_true : True. Proof. exact I. Qed.
