(* C10 x C09 -- the bridge between the crash model (Model/OciCrash.v) and the model of WHAT
   Delete-with-AutoGC and GC remove (Model/OciGC.v, proved exact in Proofs/OciGC.v, C09).

   The crash theorems for cascades and sweeps (C10_cascade_tags_before_or_after,
   C10_gc_crash_safe) carry the hypothesis "the removed nodes hold no reference name (and are
   not live)".  Here that hypothesis is DERIVED from C09's characterisation of the removed
   sets ([Gone], complement of [Live]) for every enumeration of those sets, given only that
   the two models describe the same store (they agree on which nodes carry a reference name).
   Node n of the C09 model (nat) is blob N.of_nat n of the crash model. *)
From Coq Require Import List Arith Bool.
From Oras Require Import Base.Prelude.
From Oras Require Model.OciGC Proofs.OciGC.
From Oras Require Import Model.OciCrash Model.OciCrashSpec Proofs.OciCrash.

Module G := Oras.Model.OciGC.
Module GP := Oras.Proofs.OciGC.

Section Bridge.
Variable H : list N -> N.
Variable shuffle : nat -> list entry -> list entry.
Hypothesis shuffle_In : forall c l e, In e (shuffle c l) <-> In e l.
Variable succ : nat -> list nat.
Variable subject : nat -> option nat.
Variable manifest : nat -> bool.

(* the two models agree on reference names: a node without a tag entry in the C09 state has
   no named entry in the index.json of the crash state *)
Definition names_agree (g : G.state) (s : st) : Prop :=
  forall n, (forall t, ~ In (G.RTag t, n) (G.idx g)) ->
  forall l, read_index (sfs s) = Some l -> forall r, ~ tag_of l r (N.of_nat n).

Lemma untagged_no_tag g n : G.is_tagged g n = false -> forall t, ~ In (G.RTag t, n) (G.idx g).
Proof.
  intros Hu t Hin. unfold G.is_tagged in Hu.
  assert (X : existsb (G.is_tag_entry n) (G.idx g) = true).
  { apply existsb_exists. exists (G.RTag t, n). split; [exact Hin|]. unfold G.is_tag_entry. cbn.
    apply Nat.eqb_refl. }
  rewrite X in Hu. discriminate.
Qed.

(* Delete with AutoGC: whatever enumeration xs of the nodes C09's model removes besides the
   target x (the set Gone), the crash model's cascade keeps the tag mapping before-or-after at
   every cut, after any earlier crashes *)
Theorem cascade_of_gc_model (g : G.state) (x : nat) (h : list hop) (xs : list nat) (k : nat) :
  let s := runc H shuffle false false true h init in
  names_agree g s ->
  (forall y, In y xs -> GP.Gone succ subject manifest g x y /\ y <> x) ->
  let os := Delete (N.of_nat x) :: map Delete (map N.of_nat xs) in
  let fsk := crash_seq H shuffle false false true s os k in
  same_tags fsk (sfs s) \/ same_tags fsk (sfs (run H shuffle false false true os s)).
Proof.
  intros s Ha Hx os fsk.
  apply (cascade_tags H shuffle shuffle_In h (N.of_nat x) (map N.of_nat xs) k).
  intros l Hl z r Hin. apply in_map_iff in Hin as (y & <- & Hy).
  destruct (Hx y Hy) as [Hg Hn].
  destruct (GP.delete_never_final succ subject manifest g x y Hg Hn) as (Hu & _).
  exact (Ha y (untagged_no_tag g y Hu) l Hl r).
Qed.

(* GC: whatever enumeration xs of stored nodes outside C09's live set, and whatever list
   [live] of live nodes the crash model is told, the hypothesis of C10_gc_crash_safe holds:
   every removal is a bare unlink, the tag mapping never changes, index.json is the one before
   or the one the GC saved *)
Theorem gc_of_gc_model (g : G.state) (h : list hop) (live : list N) (xs : list nat) (k : nat) :
  let s := runc H shuffle false false true h init in
  names_agree g s ->
  (forall z, In z live -> exists n, z = N.of_nat n /\ GP.Live succ subject manifest g n) ->
  (forall y, In y xs -> In y (G.blobs g) /\ ~ GP.Live succ subject manifest g y) ->
  let os := gc_ops live (map N.of_nat xs) in
  let fsk := crash_seq H shuffle false false true s os k in
  same_tags fsk (sfs s) /\
  (read_index fsk = read_index (sfs s) \/
   read_index fsk = read_index (sfs (run_op H shuffle false false true s (Forget live)))).
Proof.
  intros s Ha Hl Hx os fsk.
  destruct (gc_crash_safe H shuffle shuffle_In h live (map N.of_nat xs) k) as (_ & T & R).
  - intros l Hr z Hin. apply in_map_iff in Hin as (y & <- & Hy).
    destruct (Hx y Hy) as [Hb Hnl]. split.
    + intro Hz. destruct (Hl _ Hz) as (n & E & Ln). apply Nat2N.inj in E. subst n. contradiction.
    + apply (Ha y); [|exact Hr]. intros t Ht. apply Hnl.
      apply (GP.L_tag succ subject manifest g t y y Ht). now apply GP.R_refl.
  - split; [exact T|exact R].
Qed.

End Bridge.

Theorem cascade_of_gc_model_src :
  forall (H : list N -> N) (shuffle : nat -> list entry -> list entry),
    (forall c l e, In e (shuffle c l) <-> In e l) ->
    forall succ subject manifest (g : G.state) (x : nat) (h : list hop) (xs : list nat) (k : nat),
      let s := runc H shuffle src_inplace src_unlink_first true h init in
      names_agree g s ->
      (forall y, In y xs -> GP.Gone succ subject manifest g x y /\ y <> x) ->
      let os := Delete (N.of_nat x) :: map Delete (map N.of_nat xs) in
      let fsk := crash_seq H shuffle src_inplace src_unlink_first true s os k in
      same_tags fsk (sfs s) \/ same_tags fsk (sfs (run H shuffle src_inplace src_unlink_first true os s)).
Proof. rewrite src_inplace_false, src_unlink_first_false. exact cascade_of_gc_model. Qed.

Theorem gc_of_gc_model_src :
  forall (H : list N -> N) (shuffle : nat -> list entry -> list entry),
    (forall c l e, In e (shuffle c l) <-> In e l) ->
    forall succ subject manifest (g : G.state) (h : list hop) (live : list N) (xs : list nat) (k : nat),
      let s := runc H shuffle src_inplace src_unlink_first true h init in
      names_agree g s ->
      (forall z, In z live -> exists n, z = N.of_nat n /\ GP.Live succ subject manifest g n) ->
      (forall y, In y xs -> In y (G.blobs g) /\ ~ GP.Live succ subject manifest g y) ->
      let os := gc_ops live (map N.of_nat xs) in
      let fsk := crash_seq H shuffle src_inplace src_unlink_first true s os k in
      same_tags fsk (sfs s) /\
      (read_index fsk = read_index (sfs s) \/
       read_index fsk = read_index (sfs (run_op H shuffle src_inplace src_unlink_first true s (Forget live)))).
Proof. rewrite src_inplace_false, src_unlink_first_false. exact gc_of_gc_model. Qed.

(* the agreement hypothesis is satisfiable: a layer 1 and a manifest 2 tagged t5, in both models *)
Lemma names_agree_example :
  let Hf := fun c : list N => match c with [7] => 1 | [9] => 2 | _ => 0 end in
  let s := runc Hf (fun _ l => l) src_inplace src_unlink_first true
             [Done (Push 1 [7] false); Done (Push 2 [9] true); Done (Tag 2 5)] init in
  let g := {| G.blobs := [1; 2]%nat; G.idx := [(G.RDig 2, 2%nat); (G.RTag 5, 2%nat)];
              G.gnodes := [1; 2]%nat; G.strays := []; G.autogc := true |} in
  names_agree g s /\ read_index (sfs s) = Some [(2, Some 5)].
Proof.
  cbn zeta. split; [|vm_compute; reflexivity].
  intros n Hn l Hl r Ht. vm_compute in Hl. injection Hl as <-.
  destruct Ht as [E|[]]. injection E as E _.
  assert (n = 2%nat) by (apply Nat2N.inj; rewrite <- E; reflexivity). subst n.
  apply (Hn 5%nat). right. now left.
Qed.
