(* Proofs about the net/url model (Model/NetURL.v): what ValidateRegistry accepts is a clean URL
   authority ([reg_clean], the hypothesis of C20_url_exact is discharged for the modelled
   validator, whatever netip.ParseAddr does), and query escaping round-trips and is query-safe. *)
From Oras Require Import Base.Prelude Base.Regex Generated.GC20 Model.NetURL Model.Reference Model.RefOps
  Proofs.Reference Proofs.RefOps Proofs.RefURL.

(* ---------- brute force over bytes ---------- *)

Definition bytes_upto (n : nat) : list N := map N.of_nat (seq 0 n).

Lemma forall_bytes n (P : N -> bool) :
  forallb P (bytes_upto n) = true -> forall c, (c < N.of_nat n)%N -> P c = true.
Proof.
  intros H c Hc. rewrite forallb_forall in H. apply H. unfold bytes_upto.
  apply in_map_iff. exists (N.to_nat c). split; [apply N2Nat.id|].
  apply in_seq. lia.
Qed.

(* ---------- unescape never lengthens; it is the identity exactly on escape-free input ---------- *)

(* a byte that unescape(encodeHost / encodeZone) passes through unchanged *)
Definition hostc (c : N) : Prop := c <> c_pct /\ ((c <? 128) = true -> host_plain c = true).

Lemma unescape_host_spec : forall n s t,
  (length s <= n)%nat -> unescape_host s = Some t ->
  (length t <= length s)%nat /\ (length t = length s -> t = s /\ Forall hostc s).
Proof.
  induction n as [|n IH]; intros s t Hn H.
  - destruct s; [|simpl in Hn; lia]. injection H as <-. split; [lia|]. intros _. split; [reflexivity | constructor].
  - destruct s as [|c r]; [injection H as <-; split; [lia|]; intros _; split; [reflexivity | constructor]|].
    simpl in H. simpl in Hn. destruct (c =? c_pct) eqn:Ec.
    + destruct r as [|h1 [|h2 rest]]; try discriminate.
      destruct (is_hex_c h1 && is_hex_c h2); [|discriminate].
      destruct ((unhex_c h1 <? 8) && negb ((h1 =? 50) && (h2 =? 53))); [discriminate|].
      destruct (unescape_host rest) as [t'|] eqn:E; [|discriminate]. injection H as <-.
      destruct (IH rest t') as [L _]; [simpl in Hn; lia | exact E |].
      simpl. split; lia.
    + destruct ((c <? 128) && negb (host_plain c) && negb (c =? 43)) eqn:Eb; [discriminate|].
      destruct (unescape_host r) as [t'|] eqn:E; [|discriminate]. injection H as <-.
      destruct (IH r t') as [L Q]; [lia | exact E |].
      simpl. split; [lia|]. intro HL. destruct Q as [-> F]; [lia|]. split; [reflexivity|].
      constructor; [|exact F]. split.
      * intro Hc. subst c. discriminate.
      * intro Hlt. rewrite Hlt in Eb. simpl in Eb.
        destruct (host_plain c) eqn:Hp; [reflexivity|]. simpl in Eb.
        destruct (c =? 43) eqn:E43; [|discriminate]. apply N.eqb_eq in E43. subst c. discriminate.
Qed.

Lemma unescape_zone_spec : forall n s t,
  (length s <= n)%nat -> unescape_zone s = Some t ->
  (length t <= length s)%nat /\ (length t = length s -> t = s /\ Forall hostc s).
Proof.
  induction n as [|n IH]; intros s t Hn H.
  - destruct s; [|simpl in Hn; lia]. injection H as <-. split; [lia|]. intros _. split; [reflexivity | constructor].
  - destruct s as [|c r]; [injection H as <-; split; [lia|]; intros _; split; [reflexivity | constructor]|].
    simpl in H. simpl in Hn. destruct (c =? c_pct) eqn:Ec.
    + destruct r as [|h1 [|h2 rest]]; try discriminate.
      destruct (is_hex_c h1 && is_hex_c h2); [|discriminate].
      match type of H with (if ?b then _ else _) = _ => destruct b end; [discriminate|].
      destruct (unescape_zone rest) as [t'|] eqn:E; [|discriminate]. injection H as <-.
      destruct (IH rest t') as [L _]; [simpl in Hn; lia | exact E |].
      simpl. split; lia.
    + destruct ((c <? 128) && negb (host_plain c) && negb (c =? 43)) eqn:Eb; [discriminate|].
      destruct (unescape_zone r) as [t'|] eqn:E; [|discriminate]. injection H as <-.
      destruct (IH r t') as [L Q]; [lia | exact E |].
      simpl. split; [lia|]. intro HL. destruct Q as [-> F]; [lia|]. split; [reflexivity|].
      constructor; [|exact F]. split.
      * intro Hc. subst c. discriminate.
      * intro Hlt. rewrite Hlt in Eb. simpl in Eb.
        destruct (host_plain c) eqn:Hp; [reflexivity|]. simpl in Eb.
        destruct (c =? 43) eqn:E43; [|discriminate]. apply N.eqb_eq in E43. subst c. discriminate.
Qed.

Lemma unescape_host_len s t : unescape_host s = Some t -> (length t <= length s)%nat.
Proof. intro H. now destruct (unescape_host_spec (length s) s t (le_n _) H). Qed.
Lemma unescape_host_id s t : unescape_host s = Some t -> length t = length s -> t = s /\ Forall hostc s.
Proof. intro H. now destruct (unescape_host_spec (length s) s t (le_n _) H). Qed.
Lemma unescape_zone_len s t : unescape_zone s = Some t -> (length t <= length s)%nat.
Proof. intro H. now destruct (unescape_zone_spec (length s) s t (le_n _) H). Qed.
Lemma unescape_zone_id s t : unescape_zone s = Some t -> length t = length s -> t = s /\ Forall hostc s.
Proof. intro H. now destruct (unescape_zone_spec (length s) s t (le_n _) H). Qed.

(* ---------- last_index_of ---------- *)

Lemma last_index_of_split c s i :
  last_index_of c s = Some i -> s = firstn i s ++ c :: skipn (S i) s.
Proof.
  revert i. induction s as [|x s IH]; intros i H; [discriminate|].
  simpl in H. destruct (last_index_of c s) as [j|] eqn:E.
  - injection H as <-. simpl. f_equal. now apply IH.
  - destruct (x =? c) eqn:Ex; [|discriminate]. injection H as <-. apply N.eqb_eq in Ex. now subst.
Qed.

Lemma last_index_skipn c s i :
  last_index_of c s = Some i -> skipn i s = c :: skipn (S i) s.
Proof.
  revert i. induction s as [|x s IH]; intros i H; [discriminate|].
  simpl in H. destruct (last_index_of c s) as [j|] eqn:E.
  - injection H as <-. simpl. now apply IH.
  - destruct (x =? c) eqn:Ex; [|discriminate]. injection H as <-. apply N.eqb_eq in Ex. now subst.
Qed.

(* ---------- per-character consequence ---------- *)

Lemma hostc_reg_char_ok c : hostc c -> is_ctl c = false -> reg_char_ok c = true.
Proof.
  intros [Hp Hh] Hctl. destruct (c <? 128) eqn:Hlt.
  - specialize (Hh eq_refl). apply N.ltb_lt in Hlt.
    assert (G : implb (host_plain c && negb (c =? c_pct) && negb (is_ctl c)) (reg_char_ok c) = true).
    { apply (forall_bytes 128 (fun c => implb (host_plain c && negb (c =? c_pct) && negb (is_ctl c)) (reg_char_ok c)));
        [vm_compute; reflexivity | exact Hlt]. }
    rewrite Hh, Hctl in G. destruct (c =? c_pct) eqn:E; [apply N.eqb_eq in E; contradiction|]. exact G.
  - apply N.ltb_ge in Hlt. unfold reg_char_ok. apply negb_true_iff.
    repeat (apply orb_false_iff; split); try (apply N.eqb_neq; lia). apply N.leb_gt. lia.
Qed.

Lemma Forall_hostc_clean s :
  s <> [] -> Forall hostc s -> existsb is_ctl s = false -> reg_clean s = true.
Proof.
  intros Hne F C. unfold reg_clean. destruct s as [|x s']; [contradiction|].
  remember (x :: s') as s eqn:Es. clear Es Hne x s'.
  induction F as [|c s Hc F IH]; [reflexivity|].
  simpl in C. apply orb_false_iff in C as [C1 C2]. simpl. rewrite (hostc_reg_char_ok c Hc C1). simpl. now apply IH.
Qed.

(* ---------- what parseHost returns unchanged is made of pass-through bytes ---------- *)

Lemma parse_host_fixed ip6 reg : parse_host ip6 reg = Some reg -> Forall hostc reg.
Proof.
  unfold parse_host. destruct (last_index_of 91 reg) as [[|k]|] eqn:Eo; [| discriminate |].
  - (* bracketed IP literal *)
    destruct (last_index_of 93 reg) as [cb|] eqn:Ec; [|discriminate].
    destruct (negb (valid_optional_port (skipn (S cb) reg))); [discriminate|].
    destruct (unescape_host (skipn (S cb) reg)) as [uport|] eqn:Ep; [|discriminate].
    pose proof (last_index_of_split _ _ _ Eo) as So. simpl in So.
    pose proof (last_index_of_split _ _ _ Ec) as Sc.
    destruct reg as [|x tl]; [discriminate|]. simpl in So. injection So as Hx. subst x.
    destruct cb as [|cb]; [simpl in Sc; discriminate|].
    change (skipn (S (S cb)) (91 :: tl)) with (skipn (S cb) tl) in *.
    change (firstn (S cb) (91 :: tl)) with (91 :: firstn cb tl) in *.
    change (skipn 1 (91 :: firstn cb tl)) with (firstn cb tl).
    remember (firstn cb tl) as hostname eqn:Ehn. remember (skipn (S cb) tl) as cport eqn:Ecp.
    simpl in Sc. injection Sc as Sc.
    match goal with |- match ?u with _ => _ end = _ -> _ => destruct u as [uh|] eqn:Eu end; [|discriminate].
    destruct (ip6 uh); [|discriminate]. intro H. injection H as H.
    (* lengths *)
    assert (Lp : (length uport <= length cport)%nat) by now apply unescape_host_len.
    assert (Lh : (length uh <= length hostname)%nat /\ (length uh = length hostname -> uh = hostname /\ Forall hostc hostname)).
    { destruct (index_pct25 hostname) as [z|] eqn:Ez.
      - destruct (unescape_host (firstn z hostname)) as [a|] eqn:Ea; [|discriminate].
        destruct (unescape_zone (skipn z hostname)) as [c|] eqn:Ezn; [|discriminate].
        injection Eu as <-.
        pose proof (unescape_host_len _ _ Ea) as La. pose proof (unescape_zone_len _ _ Ezn) as Lc.
        pose proof (firstn_skipn z hostname) as FS.
        assert (LL : length hostname = (length (firstn z hostname) + length (skipn z hostname))%nat)
          by (rewrite <- app_length, FS; reflexivity).
        rewrite app_length. split; [lia|]. intro HL.
        destruct (unescape_host_id _ _ Ea) as [-> Fa]; [lia|].
        destruct (unescape_zone_id _ _ Ezn) as [-> Fc]; [lia|].
        split; [exact FS|]. rewrite <- FS. now apply Forall_app.
      - split; [now apply unescape_host_len | now apply unescape_host_id]. }
    destruct Lh as [Lh Ih].
    assert (LT : length (uh ++ 93 :: uport) = length (hostname ++ 93 :: cport)) by (rewrite H, <- Sc; reflexivity).
    rewrite !app_length in LT. simpl in LT.
    destruct Ih as [-> Fh]; [lia|].
    destruct (unescape_host_id _ _ Ep) as [_ Fp]; [lia|].
    rewrite Sc. constructor; [split; [discriminate | reflexivity]|].
    apply Forall_app. split; [exact Fh|]. constructor; [split; [discriminate | reflexivity] | exact Fp].
  - (* reg-name [: port] *)
    intro H.
    assert (U : unescape_host reg = Some reg).
    { destruct (last_index_of 58 reg); [destruct (valid_optional_port _); [exact H | discriminate] | exact H]. }
    now destruct (unescape_host_id _ _ U eq_refl).
Qed.

(* ---------- the registry validator ---------- *)

Theorem go_valid_registry_clean ip6 reg :
  go_valid_registry ip6 reg = true -> reg_clean reg = true /\ contains c_slash reg = false.
Proof.
  unfold go_valid_registry. intro H.
  apply andb_true_iff in H as [H Hh]. apply andb_true_iff in H as [H Hat].
  apply andb_true_iff in H as [H Hsl]. apply andb_true_iff in H as [Hctl Hq].
  apply negb_true_iff in Hctl, Hsl.
  destruct (parse_host ip6 reg) as [h|] eqn:P; [|discriminate].
  destruct h as [|x h]; [discriminate|]. apply str_eqb_spec in Hh.
  split; [|exact Hsl].
  apply Forall_hostc_clean; [rewrite <- Hh; discriminate | | exact Hctl].
  apply (parse_host_fixed ip6). rewrite P. now f_equal.
Qed.

Corollary go_valid_registry_ok ip6 reg :
  go_valid_registry ip6 reg = true -> ok_registry (go_valid_registry ip6) reg.
Proof. intro H. split; [exact H | now apply (go_valid_registry_clean ip6)]. Qed.

(* ---------- the property's URL clauses for the modelled validator: no hypothesis left ---------- *)

Section EndToEnd.
  Variable avail : str -> bool.
  Variable ip6 : str -> bool.
  Notation vr := (go_valid_registry ip6).

  Lemma vr_clean : forall reg, vr reg = true -> reg_clean reg = true.
  Proof. intros reg H. now destruct (go_valid_registry_clean ip6 reg H). Qed.

  Theorem url_exact_go plain s r :
    parse avail vr s = Some r -> r_reference r <> [] ->
    url_is (url_manifest plain r) plain r (b "manifests") /\
    url_is (url_blob plain r) plain r (b "blobs") /\
    url_is (url_referrers plain r) plain r (b "referrers").
  Proof.
    intros H Hne. apply (url_exact avail vr plain r vr_clean); [|exact Hne].
    eapply parse_wf; eauto.
  Qed.

  Theorem url_exact_noref_go plain s r :
    parse avail vr s = Some r ->
    url_split (url_taglist plain r)
    = Some (mkParts (scheme plain) (host_of (r_registry r)) (b "/v2/" ++ r_repository r ++ b "/tags/list") None None) /\
    url_split (url_upload plain r)
    = Some (mkParts (scheme plain) (host_of (r_registry r)) (b "/v2/" ++ r_repository r ++ b "/blobs/uploads/") None None).
  Proof.
    intro H. apply (url_exact_noref avail vr plain r vr_clean). eapply parse_wf; eauto.
  Qed.

  Theorem op_requests_exact_paths_go op plain breg brepo s d reqs :
    vr breg = true -> valid_repository brepo = true -> valid_digest avail d = true ->
    op_requests avail vr op plain breg brepo s d = Some reqs ->
    exists r, repo_parse avail vr breg brepo s = Some r /\
      Forall (fun mu => exists seg x,
                (seg = b "manifests" \/ seg = b "blobs") /\ (x = r_reference r \/ x = d) /\
                url_is (snd mu) plain (mkRef breg brepo x) seg) reqs.
  Proof.
    intros Hb Hp Hd H.
    exact (op_requests_exact_paths avail vr op plain breg brepo s d reqs vr_clean
             (go_valid_registry_ok ip6 breg Hb) Hp Hd H).
  Qed.
End EndToEnd.

(* ---------- Reference.Validate ---------- *)

Section Validate.
  Variable avail : str -> bool.
  Variable ip6 : str -> bool.
  Notation vr := (go_valid_registry ip6).

  (* every reference ParseReference returns passes Validate ... *)
  Theorem parse_validate s r : parse avail vr s = Some r -> validate avail vr r = true.
  Proof.
    intro H. destruct (parse_wf avail vr s r H) as ([Hr _] & Hp & Hf). unfold validate. rewrite Hr, Hp. simpl.
    unfold validate_reference. destruct (r_reference r) as [|x t] eqn:E; [reflexivity|].
    destruct Hf as [Hf|[Hf|Hf]]; [discriminate | |].
    - rewrite (tag_no_colon _ Hf). exact Hf.
    - rewrite (digest_has_colon avail _ Hf). exact Hf.
  Qed.

  (* ... and every Reference value that passes Validate (however it was built) with a non-empty
     repository survives String() / ParseReference unchanged *)
  Theorem validate_roundtrip r :
    validate avail vr r = true -> parse avail vr (format avail r) = Some r.
  Proof.
    unfold validate. intro H. apply andb_true_iff in H as [H Hf]. apply andb_true_iff in H as [Hr Hp].
    apply format_parse. split; [now apply go_valid_registry_ok|]. split; [exact Hp|].
    unfold validate_reference in Hf. destruct (r_reference r) as [|x t]; [now left|]. right.
    destruct (contains c_colon (x :: t)); [now right | now left].
  Qed.
End Validate.

(* ---------- the reg-name [":" port] registries, characterised ---------- *)

Definition hostcb (c : N) : bool := negb (c =? c_pct) && ((128 <=? c) || host_plain c).

Lemma hostcb_hostc c : hostcb c = true <-> hostc c.
Proof.
  unfold hostcb, hostc. split.
  - intro H. apply andb_true_iff in H as [A B]. apply negb_true_iff in A. apply N.eqb_neq in A.
    split; [exact A|]. intro L. apply N.ltb_lt in L. apply orb_true_iff in B as [B|B]; [apply N.leb_le in B; lia | exact B].
  - intros [A B]. apply andb_true_iff. split; [apply negb_true_iff; now apply N.eqb_neq|].
    destruct (c <? 128) eqn:L; [rewrite (B eq_refl); apply orb_true_r|].
    apply N.ltb_ge in L. apply orb_true_iff. left. now apply N.leb_le.
Qed.

Lemma unescape_host_fix s : Forall hostc s -> unescape_host s = Some s.
Proof.
  induction 1 as [|c s [Hc Hp] F IH]; [reflexivity|]. simpl.
  destruct (c =? c_pct) eqn:E; [apply N.eqb_eq in E; contradiction|].
  destruct (c <? 128) eqn:L; [rewrite (Hp eq_refl)|]; simpl; now rewrite IH.
Qed.

Lemma last_index_of_none c s : last_index_of c s = None <-> contains c s = false.
Proof.
  unfold contains. induction s as [|x s IH]; simpl; [tauto|].
  destruct (last_index_of c s); split; intro H; try discriminate.
  - apply orb_false_iff in H as [_ H]. apply IH in H. discriminate.
  - destruct (x =? c); [discriminate|]. simpl. now apply IH.
  - apply orb_false_iff in H as [H _]. now rewrite H.
Qed.

Lemma hostc_not_special c : hostc c -> is_ctl c = false /\ c <> 63 /\ c <> 47 /\ c <> 64.
Proof.
  intros [Hp Hh]. destruct (c <? 128) eqn:L.
  - specialize (Hh eq_refl). apply N.ltb_lt in L.
    assert (G : implb (host_plain c) (negb (is_ctl c) && negb (c =? 63) && negb (c =? 47) && negb (c =? 64)) = true).
    { apply (forall_bytes 128 (fun c => implb (host_plain c) (negb (is_ctl c) && negb (c =? 63) && negb (c =? 47) && negb (c =? 64))));
        [vm_compute; reflexivity | exact L]. }
    rewrite Hh in G. simpl in G.
    apply andb_true_iff in G as [G G4]. apply andb_true_iff in G as [G G3]. apply andb_true_iff in G as [G1 G2].
    apply negb_true_iff in G1, G2, G3, G4. apply N.eqb_neq in G2, G3, G4. auto.
  - apply N.ltb_ge in L. unfold is_ctl. repeat split; try lia.
    apply orb_false_iff. split; [apply N.ltb_ge; lia | apply N.eqb_neq; lia].
Qed.

Lemma Forall_hostc_not_special s :
  Forall hostc s -> existsb is_ctl s = false /\ contains 63 s = false /\ contains 47 s = false /\ contains 64 s = false.
Proof.
  unfold contains. induction 1 as [|c s Hc F (I1 & I2 & I3 & I4)]; [repeat split|].
  destruct (hostc_not_special c Hc) as (A & B & C & D). simpl.
  rewrite A, I1, I2, I3, I4. repeat split; apply orb_false_iff; split; auto; now apply N.eqb_neq.
Qed.

(* a registry without brackets is accepted exactly when it is a non-empty string of host bytes
   (alphanumerics, - _ . ~ ! $ & ' ( ) * + , ; = : < > double-quote, and bytes >= 0x80) in which
   only digits follow the last colon *)
Theorem registry_regname_iff ip6 reg :
  contains 91 reg = false ->
  (go_valid_registry ip6 reg = true <->
   reg <> [] /\ forallb hostcb reg = true /\
   (forall i, last_index_of 58 reg = Some i -> forallb is_digit_c (skipn (S i) reg) = true)).
Proof.
  intro Hb. apply last_index_of_none in Hb. split.
  - intro H. pose proof H as H0. unfold go_valid_registry in H.
    apply andb_true_iff in H as [_ Hh]. unfold parse_host in Hh. rewrite Hb in Hh.
    assert (P : parse_host ip6 reg = Some reg /\ reg <> []).
    { unfold parse_host. rewrite Hb.
      destruct (match last_index_of 58 reg with Some i => _ | None => _ end) as [h|]; [|discriminate].
      destruct h; [discriminate|]. apply str_eqb_spec in Hh. rewrite Hh. split; [reflexivity|].
      rewrite <- Hh. discriminate. }
    destruct P as [P Hne]. split; [exact Hne|]. split.
    + apply forallb_forall. intros c Hc. apply hostcb_hostc.
      pose proof (parse_host_fixed ip6 reg P) as F. rewrite Forall_forall in F. now apply F.
    + intros i Hi. rewrite Hi in Hh. destruct (valid_optional_port (skipn i reg)) eqn:V; [|discriminate].
      pose proof (last_index_skipn _ _ _ Hi) as E.
      rewrite E in V. simpl in V. exact V.
  - intros (Hne & F & Hport).
    assert (Fh : Forall hostc reg).
    { apply Forall_forall. intros c Hc. apply hostcb_hostc. rewrite forallb_forall in F. now apply F. }
    destruct (Forall_hostc_not_special reg Fh) as (A & B & C & D).
    unfold go_valid_registry. rewrite A, B, C, D. simpl.
    assert (P : parse_host ip6 reg = Some reg).
    { unfold parse_host. rewrite Hb. destruct (last_index_of 58 reg) as [i|] eqn:Hi; [|now apply unescape_host_fix].
      pose proof (last_index_skipn _ _ _ Hi) as E.
      rewrite E. unfold valid_optional_port. rewrite N.eqb_refl, (Hport i eq_refl). simpl. now apply unescape_host_fix. }
    rewrite P. destruct reg; [contradiction|]. apply str_eqb_refl.
Qed.

(* ---------- query escaping ---------- *)

Definition qsafe (c : N) : bool := query_plain c || (c =? c_pct) || (c =? 43).

Lemma query_escape_safe s : Forall (fun c => (c < 256)%N) s -> Forall (fun c => qsafe c = true) (query_escape s).
Proof.
  induction 1 as [|c s Hc F IH]; [constructor|]. simpl.
  assert (G : (if c =? 32 then true else if query_plain c then qsafe c
               else qsafe (upperhex (c / 16)) && qsafe (upperhex (c mod 16))) = true).
  { apply (forall_bytes 256 (fun c => if c =? 32 then true else if query_plain c then qsafe c
               else qsafe (upperhex (c / 16)) && qsafe (upperhex (c mod 16)))); [vm_compute; reflexivity | exact Hc]. }
  destruct (c =? 32); [constructor; [reflexivity | exact IH]|].
  destruct (query_plain c); [constructor; [exact G | exact IH]|].
  apply andb_true_iff in G as [G1 G2]. repeat constructor; auto.
Qed.

Theorem query_escape_roundtrip s :
  Forall (fun c => (c < 256)%N) s -> query_unescape (query_escape s) = Some s.
Proof.
  induction 1 as [|c s Hc F IH]; [reflexivity|]. simpl.
  assert (G : (if c =? 32 then true else if query_plain c then negb (c =? c_pct) && negb (c =? 43)
               else is_hex_c (upperhex (c / 16)) && is_hex_c (upperhex (c mod 16)) &&
                    (unhex_c (upperhex (c / 16)) * 16 + unhex_c (upperhex (c mod 16)) =? c)) = true).
  { apply (forall_bytes 256 (fun c => if c =? 32 then true else if query_plain c then negb (c =? c_pct) && negb (c =? 43)
               else is_hex_c (upperhex (c / 16)) && is_hex_c (upperhex (c mod 16)) &&
                    (unhex_c (upperhex (c / 16)) * 16 + unhex_c (upperhex (c mod 16)) =? c)));
      [vm_compute; reflexivity | exact Hc]. }
  destruct (c =? 32) eqn:E32.
  - apply N.eqb_eq in E32. subst c. simpl. now rewrite IH.
  - destruct (query_plain c).
    + apply andb_true_iff in G as [G1 G2]. apply negb_true_iff in G1, G2.
      simpl. rewrite G1, IH, G2. reflexivity.
    + apply andb_true_iff in G as [G G3]. apply N.eqb_eq in G3.
      simpl. rewrite G, IH, G3. reflexivity.
Qed.

Lemma qsafe_contains x s : qsafe x = false -> Forall (fun c => qsafe c = true) s -> contains x s = false.
Proof.
  intros Hx F. unfold contains. induction F as [|c s Hc F IH]; [reflexivity|]. simpl.
  rewrite IH, orb_false_r. destruct (c =? x) eqn:E; auto. apply N.eqb_eq in E. subst. congruence.
Qed.

(* ---------- the two URL builders that carry a query ---------- *)

Lemma url_split_query plain reg repo segs q :
  reg_clean reg = true -> qf_free repo -> Forall seg_ok segs -> contains c_hash q = false ->
  url_split (scheme plain ++ b "://" ++ host_of reg ++ path_of repo segs ++ c_qm :: q)
  = Some (mkParts (scheme plain) (host_of reg) (path_of repo segs) (Some q) None).
Proof.
  intros Hreg Hrepo Hsegs Hq. unfold url_split.
  change (b "://" ++ host_of reg ++ path_of repo segs ++ c_qm :: q)
    with (c_colon :: 47 :: 47 :: host_of reg ++ path_of repo segs ++ c_qm :: q).
  rewrite (take_until_stop [c_colon] (scheme plain) c_colon _ (scheme_free plain) eq_refl).
  change (path_of repo segs ++ c_qm :: q) with (c_slash :: (b "v2/" ++ repo ++ tail_of segs) ++ c_qm :: q).
  assert (Fh : free [c_slash; c_qm; c_hash] (host_of reg)).
  { apply free_of_contains. intros x [<-|[<-|[<-|[]]]]; now apply host_of_clean. }
  rewrite (take_until_stop _ _ c_slash _ Fh eq_refl).
  assert (Fp : free [c_qm; c_hash] (c_slash :: b "v2/" ++ repo ++ tail_of segs)).
  { change (c_slash :: b "v2/" ++ repo ++ tail_of segs) with (b "/v2/" ++ repo ++ tail_of segs).
    apply free_app; [vm_compute; repeat constructor|].
    apply free_app; [now apply qf_free_free | now apply tail_qf_free]. }
  change (c_slash :: (b "v2/" ++ repo ++ tail_of segs) ++ c_qm :: q)
    with ((c_slash :: b "v2/" ++ repo ++ tail_of segs) ++ c_qm :: q).
  rewrite (take_until_stop _ _ c_qm _ Fp eq_refl).
  assert (Fq : free [c_hash] q) by (apply free_of_contains; intros x [<-|[]]; exact Hq).
  rewrite (take_until_end _ _ Fq). reflexivity.
Qed.

Section QueryURLs.
  Variable avail : str -> bool.
  Variable vr : str -> bool.
  Hypothesis vr_clean : forall reg, vr reg = true -> reg_clean reg = true.

  (* referrers URL with an artifactType filter: exact path, the query is exactly
     artifactType=<escaped>, the escaped value contains no '&', '=', '#', '?' and decodes back to
     the requested artifact type; no fragment *)
  Theorem url_referrers_at_exact plain r at_ :
    wf_ref avail vr r -> r_reference r <> [] -> at_ <> [] -> Forall (fun c => (c < 256)%N) at_ ->
    url_split (url_referrers_at plain r at_)
    = Some (mkParts (scheme plain) (host_of (r_registry r))
              (b "/v2/" ++ r_repository r ++ b "/referrers/" ++ r_reference r)
              (Some (b "artifactType=" ++ query_escape at_)) None) /\
    query_unescape (query_escape at_) = Some at_ /\
    contains 38 (query_escape at_) = false /\ contains 61 (query_escape at_) = false /\
    contains c_hash (query_escape at_) = false /\ contains c_qm (query_escape at_) = false.
  Proof.
    intros ([Hr _] & Hp & Hf) Hne Hat Hb.
    pose proof (query_escape_safe at_ Hb) as Fs.
    assert (Hs : seg_clean (r_reference r)).
    { destruct Hf as [E|[T|D]]; [contradiction | now apply tag_seg_clean | now apply (digest_seg_clean avail)]. }
    split; [|split; [now apply query_escape_roundtrip|]].
    - assert (Eu : url_referrers_at plain r at_ = url_referrers plain r ++ b "?artifactType=" ++ query_escape at_)
        by (unfold url_referrers_at; destruct at_; [contradiction | reflexivity]).
      rewrite Eu.
      assert (Hq : contains c_hash (b "artifactType=" ++ query_escape at_) = false).
      { rewrite contains_app. rewrite (qsafe_contains c_hash _ eq_refl Fs). reflexivity. }
      pose proof (url_split_query plain (r_registry r) (r_repository r) [b "referrers"; r_reference r]
                    (b "artifactType=" ++ query_escape at_) (vr_clean _ Hr) (repo_qf_free _ Hp)) as Q.
      assert (E : path_of (r_repository r) [b "referrers"; r_reference r]
                  = b "/v2/" ++ r_repository r ++ b "/referrers/" ++ r_reference r).
      { unfold path_of, tail_of. simpl. rewrite ?app_nil_r. reflexivity. }
      assert (Hsegs : Forall seg_ok [b "referrers"; r_reference r]).
      { constructor; [apply const_seg_ok; reflexivity|]. constructor; [now apply seg_clean_ok | constructor]. }
      specialize (Q Hsegs Hq). rewrite E in Q. refine (eq_trans _ Q).
      f_equal. unfold url_referrers, url_repo_base. rewrite <- !app_assoc. reflexivity.
    - repeat split; eapply qsafe_contains; try exact Fs; reflexivity.
  Qed.

  (* blob mount URL for a valid digest and a valid source repository: exact path, the query is
     exactly mount=<digest>&from=<repository>, neither value contains '&', '=', '#', '%', '+' (so
     they are their own query encoding) *)
  Theorem url_mount_exact plain r d from :
    wf_ref avail vr r -> valid_digest avail d = true -> valid_repository from = true ->
    url_split (url_mount plain r d from)
    = Some (mkParts (scheme plain) (host_of (r_registry r)) (b "/v2/" ++ r_repository r ++ b "/blobs/uploads/")
              (Some (b "mount=" ++ d ++ b "&from=" ++ from)) None) /\
    Forall (fun x => contains x d = false /\ contains x from = false) [38; 61; c_hash; c_pct; 43; c_qm].
  Proof.
    intros ([Hr _] & Hp & _) Hd Hfrom.
    pose proof (digest_seg_clean avail d Hd) as Cd. pose proof (repository_url_clean from Hfrom) as Cf.
    assert (Hdc : forall x, in_ranges ((c_slash, c_slash) :: url_bad) x = true \/ x = 38 \/ x = 61 \/ x = 43 -> contains x d = false).
    { intros x [Hx|Hx]; [exact (clean_contains _ x d Cd Hx)|].
      pose proof (digest_chars avail d Hd) as Dc. unfold contains.
      rewrite forallb_forall in Dc. destruct (existsb (fun c => c =? x) d) eqn:E; auto.
      apply existsb_exists in E as (c & Hc & E). apply N.eqb_eq in E. subst c.
      specialize (Dc x Hc). destruct Hx as [->|[->| ->]]; discriminate. }
    assert (Hfc : forall x, in_ranges url_bad x = true \/ x = 38 \/ x = 61 \/ x = 43 -> contains x from = false).
    { intros x [Hx|Hx]; [exact (clean_contains _ x from Cf Hx)|].
      apply repo_no; [|exact Hfrom]. destruct Hx as [->|[->| ->]]; vm_compute; reflexivity. }
    split.
    - unfold url_mount.
      assert (Hq : contains c_hash (b "mount=" ++ d ++ b "&from=" ++ from) = false).
      { rewrite !contains_app. rewrite (Hdc c_hash) by (left; reflexivity). rewrite (Hfc c_hash) by (left; reflexivity). reflexivity. }
      pose proof (url_split_query plain (r_registry r) (r_repository r) [b "blobs"; b "uploads"; []]
                    (b "mount=" ++ d ++ b "&from=" ++ from) (vr_clean _ Hr) (repo_qf_free _ Hp)) as Q.
      assert (E : path_of (r_repository r) [b "blobs"; b "uploads"; []] = b "/v2/" ++ r_repository r ++ b "/blobs/uploads/")
        by (unfold path_of, tail_of; simpl; rewrite ?app_nil_r; reflexivity).
      assert (Hsegs : Forall seg_ok [b "blobs"; b "uploads"; []]).
      { constructor; [apply const_seg_ok; reflexivity|]. constructor; [apply const_seg_ok; reflexivity|].
        constructor; [|constructor]. repeat split; reflexivity. }
      specialize (Q Hsegs Hq). rewrite E in Q. refine (eq_trans _ Q).
      f_equal. unfold url_upload, url_repo_base. rewrite <- !app_assoc. reflexivity.
    - repeat constructor; try (apply Hdc; (left; reflexivity) || (right; auto)); try (apply Hfc; (left; reflexivity) || (right; auto)).
  Qed.
End QueryURLs.

(* ---------- bracketed IP-literal registries, characterised ---------- *)

Lemma last_index_of_head c tl : last_index_of c (c :: tl) = Some 0%nat <-> contains c tl = false.
Proof.
  simpl. rewrite <- last_index_of_none. destruct (last_index_of c tl); rewrite ?N.eqb_refl; split; congruence.
Qed.

Lemma last_index_of_app c a t :
  contains c t = false -> last_index_of c (a ++ c :: t) = Some (length a).
Proof.
  intro H. induction a as [|x a IH]; simpl.
  - apply last_index_of_none in H. rewrite H, N.eqb_refl. reflexivity.
  - now rewrite IH.
Qed.

Lemma last_index_of_after c s i : last_index_of c s = Some i -> contains c (skipn (S i) s) = false.
Proof.
  revert i. induction s as [|x s IH]; intros i H; [discriminate|].
  simpl in H. destruct (last_index_of c s) as [j|] eqn:E.
  - injection H as <-. simpl. now apply IH.
  - destruct (x =? c); [|discriminate]. injection H as <-. simpl. now apply last_index_of_none.
Qed.

Lemma Forall_hostc_no_pct s : Forall hostc s -> contains c_pct s = false.
Proof.
  unfold contains. induction 1 as [|c s [Hc _] F IH]; [reflexivity|]. simpl. rewrite IH, orb_false_r.
  now apply N.eqb_neq.
Qed.

Lemma index_pct25_none s : contains c_pct s = false -> index_pct25 s = None.
Proof.
  unfold contains. induction s as [|c s IH]; [reflexivity|]. intro H. simpl in H.
  apply orb_false_iff in H as [A B]. cbn [index_pct25 prefixb].
  rewrite N.eqb_sym in A. change (37 =? c) with (c_pct =? c). rewrite A. simpl. now rewrite (IH B).
Qed.

Lemma port_hostc p : valid_optional_port p = true -> Forall hostc p.
Proof.
  destruct p as [|c ds]; [constructor|]. simpl. intro H. apply andb_true_iff in H as [A B].
  apply N.eqb_eq in A. subst c. constructor; [split; [discriminate | reflexivity]|].
  rewrite forallb_forall in B. apply Forall_forall. intros d Hd. specialize (B d Hd).
  unfold is_digit_c in B. apply andb_true_iff in B as [B1 B2]. apply N.leb_le in B1, B2.
  split; [unfold c_pct; lia|]. intros _.
  assert (G : implb ((48 <=? d) && (d <=? 57)) (host_plain d) = true).
  { apply (forall_bytes 58 (fun d => implb ((48 <=? d) && (d <=? 57)) (host_plain d))); [vm_compute; reflexivity | lia]. }
  assert (E : (48 <=? d) && (d <=? 57) = true) by (apply andb_true_iff; split; now apply N.leb_le).
  rewrite E in G. exact G.
Qed.

Lemma parse_host_bracket_inv ip6 reg :
  last_index_of 91 reg = Some 0%nat -> parse_host ip6 reg = Some reg ->
  exists h port,
    reg = 91 :: h ++ 93 :: port /\ contains 91 (h ++ 93 :: port) = false /\ contains 93 port = false /\
    Forall hostc h /\ Forall hostc port /\ ip6 h = true /\ valid_optional_port port = true.
Proof.
  intros Eo. unfold parse_host. rewrite Eo.
  destruct (last_index_of 93 reg) as [cb|] eqn:Ec; [|discriminate].
  destruct (valid_optional_port (skipn (S cb) reg)) eqn:Vp; cbn [negb]; [|discriminate].
  destruct (unescape_host (skipn (S cb) reg)) as [uport|] eqn:Ep; [|discriminate].
  pose proof (last_index_of_split _ _ _ Eo) as So.
  pose proof (last_index_of_split _ _ _ Ec) as Sc.
  pose proof (last_index_of_after _ _ _ Ec) as A93.
  destruct reg as [|x tl]; [discriminate|]. simpl in So. injection So as Hx. subst x.
  apply last_index_of_head in Eo.
  destruct cb as [|cb]; [simpl in Sc; discriminate|].
  change (skipn (S (S cb)) (91 :: tl)) with (skipn (S cb) tl) in *.
  change (firstn (S cb) (91 :: tl)) with (91 :: firstn cb tl) in *.
  change (skipn 1 (91 :: firstn cb tl)) with (firstn cb tl).
  remember (firstn cb tl) as hostname eqn:Ehn. remember (skipn (S cb) tl) as cport eqn:Ecp.
  simpl in Sc. injection Sc as Sc.
  match goal with |- match ?u with _ => _ end = _ -> _ => destruct u as [uh|] eqn:Eu end; [|discriminate].
  destruct (ip6 uh) eqn:Hip; [|discriminate]. intro H. injection H as H.
  assert (Lp : (length uport <= length cport)%nat) by now apply unescape_host_len.
  assert (Lh : (length uh <= length hostname)%nat /\ (length uh = length hostname -> uh = hostname /\ Forall hostc hostname)).
  { destruct (index_pct25 hostname) as [z|] eqn:Ez.
    - destruct (unescape_host (firstn z hostname)) as [a|] eqn:Ea; [|discriminate].
      destruct (unescape_zone (skipn z hostname)) as [c|] eqn:Ezn; [|discriminate].
      injection Eu as <-.
      pose proof (unescape_host_len _ _ Ea) as La. pose proof (unescape_zone_len _ _ Ezn) as Lc.
      pose proof (firstn_skipn z hostname) as FS.
      assert (LL : length hostname = (length (firstn z hostname) + length (skipn z hostname))%nat)
        by (rewrite <- app_length, FS; reflexivity).
      rewrite app_length. split; [lia|]. intro HL.
      destruct (unescape_host_id _ _ Ea) as [-> Fa]; [lia|].
      destruct (unescape_zone_id _ _ Ezn) as [-> Fc]; [lia|].
      split; [exact FS|]. rewrite <- FS. now apply Forall_app.
    - split; [now apply unescape_host_len | now apply unescape_host_id]. }
  destruct Lh as [Lh Ih].
  assert (LT : length (uh ++ 93 :: uport) = length (hostname ++ 93 :: cport)) by (rewrite H, <- Sc; reflexivity).
  rewrite !app_length in LT. simpl in LT.
  destruct Ih as [-> Fh]; [lia|].
  destruct (unescape_host_id _ _ Ep) as [_ Fp]; [lia|].
  exists hostname, cport. rewrite <- Sc. repeat split; auto.
Qed.

Theorem registry_bracket_iff ip6 reg :
  contains 91 reg = true ->
  (go_valid_registry ip6 reg = true <->
   exists h port,
     reg = 91 :: h ++ 93 :: port /\ contains 91 h = false /\ contains 91 port = false /\ contains 93 port = false /\
     forallb hostcb h = true /\ ip6 h = true /\ valid_optional_port port = true).
Proof.
  intro Hb. split.
  - intro H. unfold go_valid_registry in H. apply andb_true_iff in H as [_ Hh].
    destruct (parse_host ip6 reg) as [h0|] eqn:P; [|discriminate].
    destruct h0 as [|x0 h0]; [discriminate|]. apply str_eqb_spec in Hh. rewrite Hh in P.
    assert (Eo : last_index_of 91 reg = Some 0%nat).
    { unfold parse_host in P. destruct (last_index_of 91 reg) as [[|k]|] eqn:E; [reflexivity | discriminate |].
      apply last_index_of_none in E. congruence. }
    destruct (parse_host_bracket_inv ip6 reg Eo P) as (h & port & -> & C91 & C93 & Fh & Fp & Hip & Vp).
    exists h, port. rewrite contains_app in C91. apply orb_false_iff in C91 as [C1 C2].
    unfold contains in C2. simpl in C2.
    repeat split; auto.
    apply forallb_forall. intros c Hc. apply hostcb_hostc. rewrite Forall_forall in Fh. now apply Fh.
  - intros (h & port & -> & C1 & C2 & C3 & Fh & Hip & Vp).
    assert (Fhh : Forall hostc h).
    { apply Forall_forall. intros c Hc. apply hostcb_hostc. rewrite forallb_forall in Fh. now apply Fh. }
    pose proof (port_hostc port Vp) as Fp.
    assert (Fall : Forall hostc (91 :: h ++ 93 :: port)).
    { constructor; [split; [discriminate | reflexivity]|]. apply Forall_app. split; [exact Fhh|].
      constructor; [split; [discriminate | reflexivity] | exact Fp]. }
    destruct (Forall_hostc_not_special _ Fall) as (A & B & C & D).
    unfold go_valid_registry. rewrite A, B, C, D. simpl.
    assert (P : parse_host ip6 (91 :: h ++ 93 :: port) = Some (91 :: h ++ 93 :: port)).
    { unfold parse_host.
      assert (E0 : last_index_of 91 (91 :: h ++ 93 :: port) = Some 0%nat).
      { apply last_index_of_head. rewrite contains_app, C1. unfold contains. simpl. exact C2. }
      rewrite E0.
      assert (E1 : last_index_of 93 (91 :: h ++ 93 :: port) = Some (S (length h))).
      { change (91 :: h ++ 93 :: port) with ((91 :: h) ++ 93 :: port). now rewrite last_index_of_app. }
      rewrite E1.
      assert (S1 : skipn (S (S (length h))) (91 :: h ++ 93 :: port) = port).
      { change (skipn (S (S (length h))) (91 :: h ++ 93 :: port)) with (skipn (S (length h)) (h ++ 93 :: port)).
        rewrite skipn_app. rewrite skipn_all2 by lia. replace (S (length h) - length h)%nat with 1%nat by lia. reflexivity. }
      assert (F1 : skipn 1 (firstn (S (length h)) (91 :: h ++ 93 :: port)) = h).
      { change (firstn (S (length h)) (91 :: h ++ 93 :: port)) with (91 :: firstn (length h) (h ++ 93 :: port)).
        rewrite firstn_app, firstn_all, Nat.sub_diag. simpl. now rewrite app_nil_r. }
      rewrite S1, F1, Vp. simpl. rewrite (unescape_host_fix port Fp).
      rewrite (index_pct25_none h (Forall_hostc_no_pct h Fhh)), (unescape_host_fix h Fhh), Hip. reflexivity. }
    rewrite P. apply str_eqb_refl.
Qed.

(* ---------- the shortcuts of go_valid_registry are sound: it equals the step-by-step version ---------- *)

Lemma parse_host_len ip6 x h : parse_host ip6 x = Some h -> (length h <= length x)%nat.
Proof.
  unfold parse_host. destruct (last_index_of 91 x) as [[|k]|] eqn:Eo; [| discriminate |].
  - destruct (last_index_of 93 x) as [cb|] eqn:Ec; [|discriminate].
    destruct (negb (valid_optional_port (skipn (S cb) x))); [discriminate|].
    destruct (unescape_host (skipn (S cb) x)) as [uport|] eqn:Ep; [|discriminate].
    pose proof (unescape_host_len _ _ Ep) as Lp.
    match goal with |- match ?u with _ => _ end = _ -> _ => destruct u as [uh|] eqn:Eu end; [|discriminate].
    destruct (ip6 uh); [|discriminate]. intro H. injection H as <-.
    assert (Lh : (length uh <= length (skipn 1 (firstn cb x)))%nat).
    { destruct (index_pct25 (skipn 1 (firstn cb x))) as [z|].
      - destruct (unescape_host (firstn z (skipn 1 (firstn cb x)))) as [a|] eqn:Ea; [|discriminate].
        destruct (unescape_zone (skipn z (skipn 1 (firstn cb x)))) as [c|] eqn:Ezn; [|discriminate].
        injection Eu as <-. pose proof (unescape_host_len _ _ Ea). pose proof (unescape_zone_len _ _ Ezn).
        assert (LL : length (skipn 1 (firstn cb x)) = (length (firstn z (skipn 1 (firstn cb x))) + length (skipn z (skipn 1 (firstn cb x))))%nat)
          by (rewrite <- app_length, firstn_skipn; reflexivity).
        rewrite app_length. lia.
      - now apply unescape_host_len. }
    pose proof (last_index_of_split _ _ _ Ec) as Sc.
    assert (Lx : length x = (length (firstn cb x) + S (length (skipn (S cb) x)))%nat)
      by (rewrite Sc at 1; rewrite app_length; reflexivity).
    pose proof (last_index_of_split _ _ _ Eo) as So. simpl in So.
    assert (L1 : (S (length (skipn 1 (firstn cb x))) <= length (firstn cb x))%nat \/ firstn cb x = []).
    { destruct (firstn cb x); [now right | left; simpl; lia]. }
    rewrite ?app_length. simpl. rewrite ?app_length. simpl.
    destruct L1 as [L1|L1]; [lia|].
    (* '[' is the first byte, so the part before ']' is not empty *)
    exfalso. destruct x as [|x0 tl]; [discriminate|]. destruct cb; [|discriminate].
    simpl in Sc. injection Sc as E0. simpl in So. injection So as E1. congruence.
  - intro H. apply unescape_host_len.
    destruct (last_index_of 58 x); [destruct (valid_optional_port _); [exact H | discriminate] | exact H].
Qed.

Lemma cut_first_len c s : (length (fst (cut_first c s)) <= length s)%nat /\
                          (contains c s = true -> (length (fst (cut_first c s)) < length s)%nat).
Proof.
  unfold cut_first. destruct (index_of c s) as [i|] eqn:E; simpl.
  - apply index_of_some in E as (_ & Hn & _).
    assert (i < length s)%nat by (apply nth_error_Some; congruence).
    rewrite firstn_length_le by lia. split; [lia | intros _; lia].
  - split; [lia|]. intro H. apply index_of_none in E. congruence.
Qed.

Lemma cut_first_none c s : contains c s = false -> cut_first c s = (s, None).
Proof. intro H. unfold cut_first. apply index_of_none in H. now rewrite H. Qed.

Theorem go_valid_registry_faithful_eq ip6 other_ok reg :
  (forall a, contains 64 a = false -> other_ok a None = true) ->
  go_valid_registry_faithful ip6 other_ok reg = go_valid_registry ip6 reg.
Proof.
  intro Hok. unfold go_valid_registry_faithful, request_uri_host, go_valid_registry.
  destruct (existsb is_ctl reg); [reflexivity|]. cbn [negb andb].
  destruct (contains 63 reg) eqn:Cq; destruct (contains 47 reg) eqn:Cs; destruct (contains 64 reg) eqn:Ca; cbn [negb andb].
  8:{ (* none of the three: the authority is the registry itself *)
      rewrite (cut_first_none 63 reg Cq). cbn [fst]. rewrite (cut_first_none 47 reg Cs).
      apply last_index_of_none in Ca. rewrite Ca. apply last_index_of_none in Ca.
      destruct (parse_host ip6 reg) as [h|]; [|reflexivity]. now rewrite (Hok reg Ca). }
  (* otherwise Host comes out of a strictly shorter string *)
  all: destruct (cut_first 47 (fst (cut_first 63 reg))) as [auth path] eqn:E47;
    match goal with |- context [parse_host ?i6 ?hp] =>
      destruct (parse_host i6 hp) as [h|] eqn:P; [|reflexivity];
      destruct (other_ok auth path); [|reflexivity];
      destruct h as [|x0 h0]; [reflexivity|];
      destruct (str_eqb (x0 :: h0) reg) eqn:Eq; [|reflexivity];
      exfalso; apply str_eqb_spec in Eq; apply parse_host_len in P; rewrite Eq in P;
      assert (Lh : (length hp <= length auth)%nat)
        by (destruct (last_index_of 64 auth); [rewrite skipn_length; lia | lia]);
      assert (La : auth = fst (cut_first 47 (fst (cut_first 63 reg)))) by (rewrite E47; reflexivity);
      pose proof (cut_first_len 47 (fst (cut_first 63 reg))) as [L47 S47];
      pose proof (cut_first_len 63 reg) as [L63 S63];
      rewrite <- La in L47, S47
    end.
  (* a '?' in the registry: strictly shorter already *)
  1-4: specialize (S63 Cq); lia.
  (* no '?': rest = reg *)
  all: rewrite (cut_first_none 63 reg Cq) in *; cbn [fst] in *.
  (* a '/' *)
  1-2: specialize (S47 Cs); lia.
  (* only an '@': authority = reg, the host part starts after the last '@' *)
  rewrite (cut_first_none 47 reg Cs) in E47. injection E47 as <- <-.
  destruct (last_index_of 64 reg) as [i|] eqn:E64.
  - pose proof (last_index_of_split _ _ _ E64) as Sp.
    assert (length reg = (length (firstn i reg) + S (length (skipn (S i) reg)))%nat)
      by (rewrite Sp at 1; rewrite app_length; reflexivity).
    lia.
  - apply last_index_of_none in E64. congruence.
Qed.

(* ---------- the character classes of the model are the toolchain's own table ---------- *)

(* Model/NetURL.v's host_plain (= not shouldEscape(c, encodeHost) = ... encodeZone), query_plain and
   is_hex_c, on every byte, are exactly the bits of net/url's generated encoding table as read off
   GOROOT/src/net/url/encoding_table.go by the translator on every run *)
Theorem neturl_classes_from_source c :
  (c < 256)%N ->
  host_plain c = mem_c c neturl_encodeHost /\ host_plain c = mem_c c neturl_encodeZone /\
  query_plain c = mem_c c neturl_encodeQueryComponent /\ is_hex_c c = mem_c c neturl_hexChar.
Proof.
  intro Hc.
  assert (G : (Bool.eqb (host_plain c) (mem_c c neturl_encodeHost) && Bool.eqb (host_plain c) (mem_c c neturl_encodeZone) &&
               Bool.eqb (query_plain c) (mem_c c neturl_encodeQueryComponent) && Bool.eqb (is_hex_c c) (mem_c c neturl_hexChar)) = true).
  { apply (forall_bytes 256 (fun c => Bool.eqb (host_plain c) (mem_c c neturl_encodeHost) && Bool.eqb (host_plain c) (mem_c c neturl_encodeZone) &&
               Bool.eqb (query_plain c) (mem_c c neturl_encodeQueryComponent) && Bool.eqb (is_hex_c c) (mem_c c neturl_hexChar)));
      [vm_compute; reflexivity | exact Hc]. }
  apply andb_true_iff in G as [G G4]. apply andb_true_iff in G as [G G3]. apply andb_true_iff in G as [G1 G2].
  repeat split; now apply Bool.eqb_prop.
Qed.
