(* Proofs/IndexAllLTS.v -- every schedule of the concurrent IndexAll that runs to completion
   indexes exactly the nodes reachable from the root through fetchable nodes: the same graph
   (up to the order inside sets) as the sequential work-list of Model/GraphMem.v. *)
From Coq Require Import List NArith Bool Lia Permutation.
Import ListNotations.
From Oras Require Import Model.GraphMem Model.IndexAllLTS Proofs.GraphMem.

Lemma remove_nth_In {A} (x : A) : forall l i, In x (remove_nth i l) -> In x l.
Proof.
  induction l as [|a r IH]; intros i H; destruct i; simpl in *; auto.
  destruct H as [H|H]; eauto.
Qed.

Lemma remove_nth_split {A} (x d : A) : forall l i,
  nth_error l i = Some d -> In x l -> x = d \/ In x (remove_nth i l).
Proof.
  induction l as [|a r IH]; intros i E H; destruct i; simpl in *; try discriminate.
  - inversion E; subst. destruct H; auto.
  - destruct H as [H|H]; [right; left; exact H|]. destruct (IH i E H); auto.
Qed.

Lemma remove_nth_NoDup {A} : forall (l : list A) i, NoDup l -> NoDup (remove_nth i l).
Proof.
  induction l as [|a r IH]; intros i H; destruct i; simpl; auto; inversion H; subst; auto.
  constructor; auto. intro Hin. apply remove_nth_In in Hin. auto.
Qed.

Lemma remove_nth_NoDup_notin {A} (d : A) : forall l i,
  nth_error l i = Some d -> NoDup l -> ~ In d (remove_nth i l).
Proof.
  induction l as [|a r IH]; intros i E H; destruct i; simpl in *; try discriminate;
    inversion H; subst.
  - inversion E; subst. auto.
  - intros [->|Hin].
    + apply nth_error_In in E. auto.
    + apply (IH i E H3 Hin).
Qed.

Section IA.
Variable content : node -> list node.
Variable sok : node -> bool.
Variable g0 : graph.
Variable r : node.

Record IAinv (st : ia_state) : Prop := mkIAinv {
  a_inv : Inv content (ia_g st);
  a_sound : forall x, In x (ia_pending st) \/ In x (ia_tracker st) -> pre content sok r x;
  a_nodes : forall x, In x (g_nodes (ia_g st)) <->
              In x (g_nodes g0) \/ (In x (ia_tracker st) /\ sok x = true /\ ~ In x (ia_inflight st));
  a_closed : forall p, In p (ia_tracker st) -> sok p = true -> ~ In p (ia_inflight st) ->
              forall c, In c (content p) -> In c (ia_tracker st) \/ In c (ia_pending st);
  a_root : In r (ia_tracker st) \/ In r (ia_pending st);
  a_infl : forall x, In x (ia_inflight st) -> In x (ia_tracker st) /\ sok x = true;
  a_nodup : NoDup (ia_inflight st)
}.

Lemma IA_init : Inv content g0 -> IAinv (ia_init g0 r).
Proof.
  intro HI. constructor; simpl.
  - exact HI.
  - intros x [[<-|[]]|[]]. apply pre_refl.
  - intro x. split; [auto | intros [H|[[] _]]; auto].
  - intros p [].
  - right. left. reflexivity.
  - intros x [].
  - constructor.
Qed.

Lemma ia_step_inv st e st' : IAinv st -> ia_step content sok st e = Some st' -> IAinv st'.
Proof.
  intros [A1 A2 A3 A4 A5 A6 A7] H. destruct e as [i|j]; simpl in H.
  - destruct (nth_error (ia_pending st) i) as [d|] eqn:E; [|discriminate].
    assert (In d (ia_pending st)) as Hd by (eapply nth_error_In; eauto).
    assert (forall x, In x (ia_pending st) -> x = d \/ In x (remove_nth i (ia_pending st))) as Hsp
      by (intros x Hx; apply (remove_nth_split x d _ i E Hx)).
    destruct (smem d (ia_tracker st)) eqn:M.
    + apply smem_In in M. inversion H; subst; clear H. constructor; simpl; auto.
      * intros x [Hx|Hx]; apply A2; [left; eapply remove_nth_In; eauto | auto].
      * intros p Hp Hs Hn c Hc. destruct (A4 p Hp Hs Hn c Hc) as [Hx|Hx]; auto.
        destruct (Hsp c Hx) as [->|Hy]; auto.
      * destruct A5 as [Hx|Hx]; auto. destruct (Hsp r Hx) as [->|Hy]; auto.
    + apply smem_false in M.
      assert (~ In d (ia_inflight st)) as Hni by (intro Hx; apply M, (A6 d Hx)).
      destruct (sok d) eqn:S; inversion H; subst; clear H; constructor; simpl; auto.
      * intros x [Hx|[<-|Hx]]; apply A2; auto. left. eapply remove_nth_In; eauto.
      * intro x. rewrite A3. split.
        -- intros [Hx|(Ha & Hb & Hc)]; auto. right. split; auto. split; auto.
           intros [<-|Hx]; auto.
        -- intros [Hx|([<-|Ha] & Hb & Hc)]; auto.
           ++ exfalso. apply Hc. auto.
           ++ right. split; auto.
      * intros p [<-|Hp] Hs Hn c Hc; [exfalso; apply Hn; auto|].
        destruct (A4 p Hp Hs (fun F => Hn (or_intror F)) c Hc) as [Hx|Hx]; auto.
        destruct (Hsp c Hx) as [->|Hy]; auto.
      * destruct A5 as [Hx|Hx]; auto. destruct (Hsp r Hx) as [->|Hy]; auto.
      * intros x [<-|Hx]; auto. destruct (A6 x Hx). auto.
      * constructor; auto.
      * intros x [Hx|[<-|Hx]]; apply A2; auto. left. eapply remove_nth_In; eauto.
      * intro x. rewrite A3. split.
        -- intros [Hx|(Ha & Hb & Hc)]; auto.
        -- intros [Hx|([<-|Ha] & Hb & Hc)]; auto. congruence.
      * intros p [<-|Hp] Hs Hn c Hc; [congruence|].
        destruct (A4 p Hp Hs Hn c Hc) as [Hx|Hx]; auto.
        destruct (Hsp c Hx) as [->|Hy]; auto.
      * destruct A5 as [Hx|Hx]; auto. destruct (Hsp r Hx) as [->|Hy]; auto.
      * intros x Hx. destruct (A6 x Hx). auto.
  - destruct (nth_error (ia_inflight st) j) as [d|] eqn:E; [|discriminate].
    inversion H; subst; clear H.
    assert (In d (ia_inflight st)) as Hd by (eapply nth_error_In; eauto).
    destruct (A6 d Hd) as [Hdt Hds].
    assert (~ In d (remove_nth j (ia_inflight st))) as Hnd by (apply remove_nth_NoDup_notin; auto).
    constructor; simpl.
    + apply index_Inv, A1.
    + intros x [Hx|Hx]; [|apply A2; auto].
      apply in_app_iff in Hx. destruct Hx as [Hx|Hx]; [apply A2; auto|].
      eapply pre_step; [apply A2; right; exact Hdt | exact Hds | exact Hx].
    + intro x. rewrite In_sadd, A3. split.
      * intros [->|[Hx|(Ha & Hb & Hc)]]; auto.
        right. split; auto. split; auto. intro Hx. apply Hc. eapply remove_nth_In; eauto.
      * intros [Hx|(Ha & Hb & Hc)]; auto.
        destruct (N.eq_dec x d) as [->|Hne]; auto.
        right. right. split; auto. split; auto. intro Hx.
        destruct (remove_nth_split x d _ j E Hx); auto.
    + intros p Hp Hs Hn c Hc. destruct (N.eq_dec p d) as [->|Hne].
      * right. apply in_app_iff. auto.
      * assert (~ In p (ia_inflight st)) as Hn'.
        { intro Hx. destruct (remove_nth_split p d _ j E Hx); auto. }
        destruct (A4 p Hp Hs Hn' c Hc) as [Hx|Hx]; auto. right. apply in_app_iff. auto.
    + destruct A5 as [Hx|Hx]; auto. right. apply in_app_iff. auto.
    + intros x Hx. apply A6. eapply remove_nth_In; eauto.
    + apply remove_nth_NoDup, A7.
Qed.

Lemma ia_run_inv trace : forall st st', IAinv st -> ia_run content sok st trace = Some st' -> IAinv st'.
Proof.
  induction trace as [|e t IH]; intros st st' HI H; simpl in H.
  - inversion H; subst; auto.
  - destruct (ia_step content sok st e) as [st1|] eqn:E; [|discriminate].
    apply (IH st1); auto. apply (ia_step_inv st e); auto.
Qed.
End IA.

(* every complete schedule indexes exactly the reachable fetchable nodes *)
Lemma ia_complete content sok g r trace st' :
  Inv content g ->
  ia_run content sok (ia_init g r) trace = Some st' -> ia_done st' = true ->
  Inv content (ia_g st') /\
  forall x, In x (g_nodes (ia_g st')) <-> In x (g_nodes g) \/ areach content sok r x.
Proof.
  intros HI H Hd.
  pose proof (ia_run_inv content sok g r trace (ia_init g r) st' (IA_init content sok g r HI) H)
    as [A1 A2 A3 A4 A5 A6 A7].
  unfold ia_done in Hd.
  destruct (ia_pending st') eqn:Ep; [|discriminate]. destruct (ia_inflight st') eqn:Ei; [|discriminate].
  split; auto.
  assert (forall y, pre content sok r y -> In y (ia_tracker st')) as Hc.
  { intros y Hy. induction Hy as [|p c Hp IH Hs Hcc].
    - destruct A5 as [Hx|[]]; auto.
    - destruct (A4 p IH Hs (fun F => F) c Hcc) as [Hx|[]]; auto. }
  intro x. rewrite A3. unfold areach. split.
  - intros [Hx|(Ha & Hb & _)]; auto.
  - intros [Hx|[Hp Hs]]; [left; exact Hx | right; split; [apply Hc, Hp | split; [exact Hs | intros []]]].
Qed.

(* ... hence the same answers as the sequential IndexAll of Model/GraphMem.v *)
Lemma ia_same_as_sequential content sok g r trace st' fuel g' :
  Inv content g ->
  ia_run content sok (ia_init g r) trace = Some st' -> ia_done st' = true ->
  index_all_root content sok fuel g r = (g', true) ->
  (forall x, In x (g_nodes (ia_g st')) <-> In x (g_nodes g')) /\
  forall n, Permutation (predecessors (ia_g st') n) (predecessors g' n).
Proof.
  intros HI H Hd Hs.
  destruct (ia_complete content sok g r trace st' HI H Hd) as [HI' Hn].
  assert (Inv content g') as HIs.
  { pose proof (index_all_root_Inv content sok fuel g r HI) as H1. rewrite Hs in H1. exact H1. }
  assert (forall x, In x (g_nodes (ia_g st')) <-> In x (g_nodes g')) as Hsame.
  { intro x. rewrite Hn, (index_all_root_nodes content sok fuel g r g' Hs x). tauto. }
  split; auto. apply (same_nodes_same_preds content); auto.
Qed.

(* a schedule in which a grandchild is committed before its parent's sibling is indexed *)
Definition ia_ct : amap := [(3, [2; 1]); (2, [0; 1])]%N.
Lemma ia_example :
  exists st', ia_run (ctab ia_ct) (fun _ => true) (ia_init empty_graph 3%N)
                [EvCommit 0; EvIndex 0; EvCommit 1; EvCommit 0; EvIndex 1; EvIndex 0;
                 EvCommit 1; EvCommit 0; EvIndex 0] = Some st' /\
              ia_done st' = true /\ predecessors (ia_g st') 1%N = [2; 3]%N.
Proof. eexists. vm_compute. repeat split. Qed.

Lemma indexall_task_order_true : indexall_task_order = true.
Proof. vm_compute. reflexivity. Qed.

From Oras Require Import Model.GraphMemSrc.
Lemma graphmem_source_shape_true : graphmem_source_shape = true.
Proof. vm_compute. reflexivity. Qed.
