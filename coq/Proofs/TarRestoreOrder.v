(* C12: restoreDirModes in its real order.  chmod(2) by the owner needs search permission on
   every directory above; because the directories are handled deepest first, every directory
   above the one being changed still has its creation mode (mode | 0700): no chmod is refused,
   and the result is the one of [finish_dirs] (which ignores the order). *)
From Coq Require Import Permutation Sorted.
From Oras Require Import Base.Prelude Generated.GC12 Model.TarRoundTrip Proofs.TarRoundTrip Proofs.TarModeSweep
  Proofs.TarWalkOrder Proofs.TarRootMode Proofs.TarUnprivileged.

Definition proper_prefix (q p : path) : Prop := exists r, r <> [] /\ p = q ++ r.

Lemma proper_prefix_shorter q p : proper_prefix q p -> (length q < length p)%nat.
Proof. intros (r & Hr & ->). rewrite app_length. destruct r; [contradiction|simpl; lia]. Qed.

Definition all_dirs_x (f : fs) : Prop := forall p m, fs_lookup f p = Some (NDir m) -> has_x m = true.

Lemma has_wx_x m : has_wx m = true -> has_x m = true.
Proof.
  unfold has_wx, has_x, owner_wx, owner_x. intro Hw. apply N.eqb_eq in Hw. apply N.eqb_eq.
  apply N.bits_inj. intro i. rewrite N.land_spec.
  assert (Hb : N.testbit (N.land m 192) i = N.testbit 192 i) by now rewrite Hw.
  rewrite N.land_spec in Hb.
  destruct (N.eq_dec i 6) as [->|Hi].
  - change (N.testbit 192 6) with true in Hb. change (N.testbit 64 6) with true.
    rewrite andb_true_r in *. exact Hb.
  - change 64 with (2 ^ 6). rewrite (N.pow2_bits_false 6 i) by (intro E; now subst). apply andb_false_r.
Qed.

(* ---------- the permission check passes when everything above still is searchable ---------- *)
Lemma ancestors_x_ok f : forall rp,
  (forall l1 rq, l1 <> [] -> rp = l1 ++ rq -> forall m, fs_lookup f (rev rq) = Some (NDir m) -> has_x m = true) ->
  ancestors_x f rp = true.
Proof.
  induction rp as [|x rp IH]; intro H; simpl; [reflexivity|].
  rewrite IH.
  - destruct (fs_lookup f (rev rp)) as [[| m |]|] eqn:E; try reflexivity.
    rewrite (H [x] rp ltac:(discriminate) eq_refl m E). reflexivity.
  - intros l1 rq Hl1 E m Hm. apply (H (x :: l1) rq); [discriminate|simpl; now rewrite E|exact Hm].
Qed.

Lemma ancestors_x_prefixes f p :
  (forall q, proper_prefix q p -> forall m, fs_lookup f q = Some (NDir m) -> has_x m = true) ->
  ancestors_x f (rev p) = true.
Proof.
  intro H. apply ancestors_x_ok. intros l1 rq Hl1 E m Hm.
  apply (H (rev rq)); [|exact Hm]. exists (rev l1). split.
  - intro E0. apply Hl1. rewrite <- (rev_involutive l1), E0. reflexivity.
  - rewrite <- (rev_involutive p), E, rev_app_distr. reflexivity.
Qed.

(* ---------- one pass over an order in which no directory comes after one above it ---------- *)
Definition settled (pre : path) (preserve : bool) (es : list entry) (f0 : fs) (q : path) : option node :=
  match last_dir_mode pre q es, fs_lookup f0 q with
  | Some m, Some (NDir cur) => Some (NDir (final_dir_mode preserve cur m))
  | _, _ => fs_lookup f0 q
  end.

Lemma existsb_path_in q l : existsb (path_eqb q) l = true <-> In q l.
Proof.
  rewrite existsb_exists. split.
  - intros (x & Hx & E). apply path_eqb_spec in E. now subst.
  - intro H. exists q. split; [exact H|apply path_eqb_refl].
Qed.

Lemma restore_in_order_ok priv pre preserve es f0 : all_dirs_x f0 -> forall order f done,
  (forall q, ~ In q done -> fs_lookup f q = fs_lookup f0 q) ->
  NoDup (done ++ order) ->
  (forall l1 p l2, order = l1 ++ p :: l2 -> forall q, In q (done ++ l1) -> ~ proper_prefix q p) ->
  exists f', restore_in_order priv pre preserve es f order = Ok f' /\
    forall q, fs_lookup f' q = if existsb (path_eqb q) order then settled pre preserve es f0 q else fs_lookup f q.
Proof.
  intro Hx. induction order as [|p order IH]; intros f done Hag Hnd Hanc.
  - exists f. split; [reflexivity|]. intro q. reflexivity.
  - assert (Hp : ~ In p done).
    { intro Hin. apply NoDup_remove_2 in Hnd. apply Hnd. apply in_or_app. now left. }
    assert (Hstep : exists f1, restore_step priv pre preserve es f p = Ok f1 /\
              (forall q, fs_lookup f1 q = if path_eqb p q then settled pre preserve es f0 p else fs_lookup f q)).
    { unfold restore_step, settled. rewrite (Hag p Hp).
      destruct (last_dir_mode pre p es) as [m|].
      - destruct (fs_lookup f0 p) as [[c m0|cur|g]|] eqn:E0.
        + exists f. split; [reflexivity|]. intro q. destruct (path_eqb p q) eqn:Eq; [|reflexivity].
          apply path_eqb_spec in Eq. subst q. now rewrite (Hag p Hp).
        + assert (ancestors_x f (rev p) = true) as ->.
          { apply ancestors_x_prefixes. intros q Hq m1 Hm1. apply (Hx q m1).
            rewrite <- Hag; [exact Hm1|]. intro Hin.
            apply (Hanc [] p order eq_refl q); [rewrite app_nil_r; exact Hin|exact Hq]. }
          rewrite orb_true_r. eexists. split; [reflexivity|]. intro q. rewrite lookup_set. reflexivity.
        + exists f. split; [reflexivity|]. intro q. destruct (path_eqb p q) eqn:Eq; [|reflexivity].
          apply path_eqb_spec in Eq. subst q. now rewrite (Hag p Hp).
        + exists f. split; [reflexivity|]. intro q. destruct (path_eqb p q) eqn:Eq; [|reflexivity].
          apply path_eqb_spec in Eq. subst q. now rewrite (Hag p Hp).
      - exists f. split; [reflexivity|]. intro q. destruct (path_eqb p q) eqn:Eq; [|reflexivity].
        apply path_eqb_spec in Eq. subst q. rewrite (Hag p Hp). destruct (fs_lookup f0 p) as [[]|]; reflexivity. }
    destruct Hstep as (f1 & E1 & L1).
    destruct (IH f1 (done ++ [p])) as (f' & E' & L').
    + intros q Hq. rewrite L1. destruct (path_eqb p q) eqn:Eq.
      * apply path_eqb_spec in Eq. subst q. exfalso. apply Hq. apply in_or_app. right. now left.
      * apply Hag. intro Hin. apply Hq. apply in_or_app. now left.
    + rewrite <- app_assoc. exact Hnd.
    + intros l1 p' l2 E q Hq. apply (Hanc (p :: l1) p' l2); [simpl; now rewrite E|].
      rewrite <- app_assoc in Hq. exact Hq.
    + exists f'. split; [simpl; rewrite E1; exact E'|]. intro q. rewrite L'. simpl.
      destruct (existsb (path_eqb q) order) eqn:Eo.
      * now rewrite orb_true_r.
      * rewrite orb_false_r, L1.
        assert (path_eqb q p = path_eqb p q) as ->.
        { destruct (path_eqb p q) eqn:E2.
          - apply path_eqb_spec in E2. subst. apply path_eqb_refl.
          - apply path_eqb_neq. intro E3. subst. rewrite path_eqb_refl in E2. discriminate. }
        destruct (path_eqb p q) eqn:Eq; [|reflexivity].
        apply path_eqb_spec in Eq. now subst q.
Qed.

(* ---------- the real order: sorted by depth, walked backwards ---------- *)
Lemma insert_by_depth_perm p l : Permutation (insert_by_depth p l) (p :: l).
Proof.
  induction l as [|q l IH]; simpl; [reflexivity|].
  destruct (length q <=? length p)%nat; [|reflexivity]. rewrite IH. apply perm_swap.
Qed.

Lemma sort_by_depth_perm l : Permutation (sort_by_depth l) l.
Proof.
  induction l as [|p l IH]; [reflexivity|]. unfold sort_by_depth in *. simpl.
  rewrite insert_by_depth_perm. now constructor.
Qed.

Definition depth_le (a c : path) : Prop := (length a <= length c)%nat.

Lemma insert_by_depth_sorted p l : StronglySorted depth_le l -> StronglySorted depth_le (insert_by_depth p l).
Proof.
  induction l as [|q l IH]; simpl; intro Hs; [repeat constructor|].
  inversion Hs as [|? ? Hs' Hq]; subst.
  destruct (length q <=? length p)%nat eqn:E.
  - apply Nat.leb_le in E. constructor; [now apply IH|].
    apply (Permutation_Forall (Permutation_sym (insert_by_depth_perm p l))). constructor; [exact E|exact Hq].
  - apply Nat.leb_gt in E. constructor; [exact Hs|]. constructor; [unfold depth_le; lia|].
    eapply Forall_impl; [|exact Hq]. unfold depth_le. intros; lia.
Qed.

Lemma sort_by_depth_sorted l : StronglySorted depth_le (sort_by_depth l).
Proof.
  induction l as [|p l IH]; [constructor|]. unfold sort_by_depth in *. simpl. now apply insert_by_depth_sorted.
Qed.

Lemma sorted_after a : forall l x c, StronglySorted depth_le (l ++ x :: c) -> In a c -> depth_le x a.
Proof.
  induction l as [|y l IH]; intros x c Hs Hin; simpl in Hs; inversion Hs as [|? ? Hs' Hf]; subst.
  - rewrite Forall_forall in Hf. now apply Hf.
  - eapply IH; eauto.
Qed.

(* walking a depth-sorted list backwards never meets a directory after one above it *)
Lemma rev_sorted_no_ancestor l : StronglySorted depth_le l ->
  forall l1 p l2, rev l = l1 ++ p :: l2 -> forall q, In q l1 -> ~ proper_prefix q p.
Proof.
  intros Hs l1 p l2 E q Hq Hpp.
  assert (El : l = rev l2 ++ p :: rev l1).
  { rewrite <- (rev_involutive l), E, rev_app_distr. simpl. now rewrite <- app_assoc. }
  rewrite El in Hs. pose proof (sorted_after q (rev l2) p (rev l1) Hs (proj1 (in_rev l1 q) Hq)) as Hd.
  apply proper_prefix_shorter in Hpp. unfold depth_le in Hd. lia.
Qed.

Lemma dedup_in l p : In p (dedup l) <-> In p l.
Proof.
  induction l as [|q l IH]; simpl; [tauto|].
  destruct (existsb (path_eqb q) (dedup l)) eqn:E.
  - apply existsb_path_in in E. split.
    + intro H. right. now apply IH.
    + intros [<-|H]; [exact E|now apply IH].
  - simpl. rewrite IH. tauto.
Qed.

Lemma dedup_nodup l : NoDup (dedup l).
Proof.
  induction l as [|q l IH]; simpl; [constructor|].
  destruct (existsb (path_eqb q) (dedup l)) eqn:E; [exact IH|].
  constructor; [|exact IH]. intro Hin. apply existsb_path_in in Hin. rewrite Hin in E. discriminate.
Qed.

Lemma last_dir_mode_in pre es p m : last_dir_mode pre p es = Some m -> In p (dir_paths pre es).
Proof.
  revert m. induction es as [|e es IH]; intro m; simpl; [discriminate|].
  destruct (last_dir_mode pre p es) as [m'|] eqn:El.
  - intros _. specialize (IH m' eq_refl).
    destruct (e_kind e); try exact IH. destruct (strip_prefix pre (e_name e)); [now right|exact IH].
  - destruct (e_kind e); try discriminate.
    destruct (strip_prefix pre (e_name e)) as [rel|]; [|discriminate].
    destruct (path_eqb rel p) eqn:E; [|discriminate]. apply path_eqb_spec in E. subst. intros _. now left.
Qed.

Lemma restore_order_in pre es p m : last_dir_mode pre p es = Some m -> In p (restore_order pre es).
Proof.
  intro H. unfold restore_order. apply -> in_rev.
  apply (Permutation_in _ (Permutation_sym (sort_by_depth_perm _))). apply dedup_in.
  eapply last_dir_mode_in; eauto.
Qed.

Lemma restore_order_nodup pre es : NoDup (restore_order pre es).
Proof.
  unfold restore_order. apply NoDup_rev.
  apply (Permutation_NoDup (Permutation_sym (sort_by_depth_perm _))). apply dedup_nodup.
Qed.

(* ---------- restoreDirModes in its real order = finish_dirs, and never refused ---------- *)
Theorem restore_order_ok priv pre preserve es f0 :
  all_dirs_x f0 ->
  exists f', restore_in_order priv pre preserve es f0 (restore_order pre es) = Ok f' /\
    forall q, fs_lookup f' q = fs_lookup (finish_dirs pre preserve es f0) q.
Proof.
  intro Hx.
  destruct (restore_in_order_ok priv pre preserve es f0 Hx (restore_order pre es) f0 []) as (f' & E & L).
  - reflexivity.
  - simpl. apply restore_order_nodup.
  - intros l1 p l2 Eo q Hq. simpl in Hq.
    exact (rev_sorted_no_ancestor _ (sort_by_depth_sorted _) l1 p l2 Eo q Hq).
  - exists f'. split; [exact E|]. intro q. rewrite L. unfold finish_dirs. rewrite finish_lookup. unfold settled.
    destruct (existsb (path_eqb q) (restore_order pre es)) eqn:Eo; [reflexivity|].
    destruct (last_dir_mode pre q es) as [m|] eqn:El; [|destruct (fs_lookup f0 q) as [[]|]; reflexivity].
    exfalso. apply (restore_order_in pre es q m) in El. apply existsb_path_in in El. rewrite El in Eo. discriminate.
Qed.

Lemma extract_list_wx pre umask preserve : umask_keeps_wx umask -> forall es f f',
  all_dirs_wx f -> extract_list pre umask preserve f es = Ok f' -> all_dirs_wx f'.
Proof.
  intro Hu. induction es as [|e es IH]; intros f f' Hf E; simpl in E; [injection E as <-; exact Hf|].
  destruct (extract_entry pre umask preserve f e) as [f1|] eqn:E1; [|discriminate].
  eapply IH; [|exact E]. eapply step_wx; eauto.
Qed.

(* the extraction with restoreDirModes step by step in its real order and with the kernel's
   check on every chmod gives what [extract] gives, for root and for an unprivileged owner,
   for every archive *)
Theorem extract_po_ok priv pre umask preserve es :
  umask_keeps_wx umask ->
  match extract pre umask preserve es with
  | Ok f => exists f', extract_po priv pre umask preserve es = Ok f' /\
                       forall q, fs_lookup f' q = fs_lookup f q
  | Err x => extract_po priv pre umask preserve es = Err x
  end.
Proof.
  intro Hu. unfold extract, extract_po.
  rewrite (extract_list_p_eq priv pre umask preserve Hu es (fs_init umask) (all_dirs_wx_init umask Hu)).
  destruct (extract_list pre umask preserve (fs_init umask) es) as [f|x] eqn:E; [|reflexivity].
  apply restore_order_ok. intros p m Hm. apply has_wx_x.
  exact (extract_list_wx pre umask preserve Hu es _ f (all_dirs_wx_init umask Hu) E p m Hm).
Qed.

(* the order matters: handling a directory before the ones below it fails for the owner as soon
   as its recorded mode has no search permission *)
Definition order_witness : list entry :=
  [ mkEntry [b "d"] EDir 493 0; mkEntry [b "d"; b "p"] EDir 384 0; mkEntry [b "d"; b "p"; b "c"] EDir 493 0 ].

Theorem shallow_first_refuted :
  restore_order [b "d"] order_witness = [[b "p"; b "c"]; [b "p"]; []] /\
  (exists f, extract_po false [b "d"] 18 false order_witness = Ok f /\
             fs_lookup f [b "p"] = Some (NDir 384) /\ fs_lookup f [b "p"; b "c"] = Some (NDir 493)) /\
  match extract_list_p false [b "d"] 18 false (fs_init 18) order_witness with
  | Ok f => restore_in_order false [b "d"] false order_witness f [[]; [b "p"]; [b "p"; b "c"]] = Err XPerm
  | Err _ => False
  end.
Proof.
  split; [vm_compute; reflexivity|]. split.
  - eexists. split; [vm_compute; reflexivity|]. split; vm_compute; reflexivity.
  - vm_compute. reflexivity.
Qed.

(* the round trip for an unprivileged owner, restoreDirModes step by step in its real order *)
Theorem roundtrip_unprivileged_ordered pre umask preserve repro T :
  umask_keeps_wx umask -> (preserve = false -> umask <= 511) ->
  is_dir T = true -> wf_treeb T = true -> modes_okb T = true -> benign_tree pre T = true ->
  exists f', extract_po false pre umask preserve (tar_entries pre repro T) = Ok f' /\
    forall p, fs_lookup f' p = expected umask preserve T p.
Proof.
  intros Hw Hu Hd Hwf Hmo Hbe.
  destruct (roundtrip_walk_full pre umask preserve repro T Hu Hd Hwf Hmo Hbe) as (f & E & L).
  pose proof (extract_po_ok false pre umask preserve (tar_entries pre repro T) Hw) as H.
  rewrite E in H. destruct H as (f' & E' & L'). exists f'. split; [exact E'|].
  intro p. now rewrite L', L.
Qed.
