(* C16 -- Client.Do under concurrency (Model/AuthConc.v): whatever the three cache
   reads of a call return, as long as it is something a host-tainted cache can
   return, the call sends only what it may and writes only a token of its own
   host; hence, for every interleaving of any number of calls over one shared
   cache, the cache stays host-tainted and every call's sends are [trace_ok]. *)
From Oras Require Import Base.Prelude Model.Scopes Model.Challenge Model.AuthClient Model.AuthConc Proofs.AuthClient.

Section WithParse.
Variable parse : str -> scheme * params.

Definition op_fits (h : host) (op : store_op) : Prop :=
  match op with Some (s, k, v) => tok_fits h s v | None => True end.

Ltac adv_first :=
  match goal with
  | |- advertised _ ?h _ _ =>
    eexists _, _, _, _; split; [left; reflexivity | split; [eassumption | reflexivity]]
  | |- basic_challenged _ ?h _ =>
    eexists _, _, _, _; split; [left; reflexivity | eassumption]
  end.

Ltac leaf :=
  simpl; repeat split; auto;
  try (intros; discriminate); intros;
  try adv_first;
  try (match goal with H : forall k t, _ = Some t -> _ |- _ => eapply H; eassumption end);
  try (right; eexists; reflexivity); try (left; reflexivity).

Ltac crush :=
  repeat (match goal with
  | |- context [match ?s with [] => _ | _ :: _ => _ end] => is_var s; destruct s as [|[| ? | ? | | ? | | ] ?]
  | |- context [if ?b then _ else _] => destruct b eqn:?
  end; cbn beta iota); leaf.

(* guarantee of one call, for arbitrary fitting oracle answers *)
Lemma do_request_rd_ok clean cf rq osch otok1 otok2 script :
  (forall t, otok1 = Some t -> match osch with Some s => tok_fits (rq_host rq) s t | None => True end) ->
  (forall k t, otok2 k = Some t -> tok_fits (rq_host rq) SchBearer t) ->
  let '(evs, op, r) := do_request_rd clean parse cf rq osch otok1 otok2 script in
  trace_ok_from parse (rq_host rq) [] evs /\ op_fits (rq_host rq) op.
Proof.
  intros F1 F2. unfold do_request_rd.
  assert (H1 : auth_fits (rq_host rq)
    (snd (match osch with
          | Some SchBasic => (@nil N, match otok1 with Some t => ABasic t | None => NoAuth end)
          | Some SchBearer =>
            (join [c_space] (get_all_scopes clean (rq_hints_host rq) (rq_hints_global rq)),
             match otok1 with Some t => ABearer t | None => NoAuth end)
          | _ => ([], NoAuth)
          end))).
  { destruct osch as [[| |]|]; simpl; auto; destruct otok1 as [t|]; simpl; auto; exact (F1 t eq_refl). }
  destruct (match osch with
            | Some SchBasic => _ | Some SchBearer => _ | _ => _ end) as [attempted a1].
  simpl in H1. clear F1.
  destruct script as [|[| hdr | id | | sid | | ] script1]; try (leaf; fail).
  destruct (parse hdr) as [[| |] ps] eqn:Ech; try (leaf; fail).
  - unfold fetch_basic, final_send. crush.
  - set (scopes := if is_empty (get_param s_scope ps) then _ else _).
    set (key := join [c_space] scopes).
    cbv zeta. unfold fetch_bearer_plan, final_send.
    destruct (if str_eqb key attempted then None else otok2 key) as [tok2|] eqn:E2.
    + assert (T2 : tok_fits (rq_host rq) SchBearer tok2).
      { destruct (str_eqb key attempted); [discriminate|]. eapply F2; eauto. }
      clear E2. crush.
    + clear E2. crush.
Qed.

(* the sequential model is the special case: all reads see one cache, the write is
   applied at once *)
Ltac eleaf := simpl; try reflexivity.
Ltac ecrush :=
  repeat (match goal with
  | |- context [match ?s with [] => _ | _ :: _ => _ end] => is_var s; destruct s as [|[| ? | ? | | ? | | ] ?]
  | |- context [if ?b then _ else _] => destruct b eqn:?
  | |- context [match cache_get_token ?f ?c ?h ?s ?k with Some _ => _ | None => _ end] =>
    destruct (cache_get_token f c h s k) eqn:?
  end; cbn beta iota); eleaf.

Lemma do_request_rd_eq clean cf c rq script :
  do_request clean parse cf c rq script =
  let osch := rd_scheme (cf_flavour cf) c rq in
  let '(evs, op, r) :=
    do_request_rd clean parse cf rq osch (rd_tok1 clean (cf_flavour cf) c rq osch)
                  (rd_tok2 (cf_flavour cf) c rq) script in
  (evs, apply_op (cf_flavour cf) c (rq_host rq) op, r).
Proof.
  unfold do_request, do_request_rd, rd_scheme, rd_tok1, rd_tok2. cbv zeta.
  destruct (cache_get_scheme (cf_flavour cf) c (rq_host rq)) as [[| |]|].
  - destruct script as [|[| hdr | id | | sid | | ] script1]; try reflexivity.
    destruct (parse hdr) as [[| |] ps]; try reflexivity; unfold fetch_basic, fetch_bearer_plan, final_send; ecrush.
  - destruct (cache_get_token (cf_flavour cf) c (rq_host rq) SchBasic []);
      (destruct script as [|[| hdr | id | | sid | | ] script1]; try reflexivity;
       destruct (parse hdr) as [[| |] ps]; try reflexivity; unfold fetch_basic, fetch_bearer_plan, final_send; ecrush).
  - destruct (cache_get_token (cf_flavour cf) c (rq_host rq) SchBearer _);
      (destruct script as [|[| hdr | id | | sid | | ] script1]; try reflexivity;
       destruct (parse hdr) as [[| |] ps]; try reflexivity; unfold fetch_basic, fetch_bearer_plan, final_send; ecrush).
  - destruct script as [|[| hdr | id | | sid | | ] script1]; try reflexivity.
    destruct (parse hdr) as [[| |] ps]; try reflexivity; unfold fetch_basic, fetch_bearer_plan, final_send; ecrush.
Qed.

(* ---------- the system ---------- *)
Definition snap_ok (o : option cc) : Prop := match o with Some c => cache_ok c | None => True end.

Definition sys_ok (y : csys) : Prop :=
  cache_ok (y_cache y) /\
  (forall j t, In (j, t) (y_threads y) -> snap_ok (t_s1 t) /\ snap_ok (t_s2 t) /\ snap_ok (t_s3 t)) /\
  (forall j h evs r, In (j, (h, evs, r)) (y_out y) -> trace_ok parse h evs).

Lemma th_get_in m j t : th_get m j = Some t -> In (j, t) m.
Proof.
  induction m as [|[j' t'] m IH]; simpl; [discriminate|].
  destruct (j =? j') eqn:E; [apply N.eqb_eq in E; subst; intros [= ->]; now left | intro H; right; auto].
Qed.

Lemma sys_ok_init : sys_ok yinit.
Proof. split; [apply cache_ok_nil|]. split; intros; contradiction. Qed.

Lemma rd_tok1_fits clean f c rq osch t :
  cache_ok c -> rd_tok1 clean f c rq osch = Some t ->
  match osch with Some s => tok_fits (rq_host rq) s t | None => True end.
Proof.
  intros H. unfold rd_tok1. destruct osch as [[| |]|]; try discriminate; intro E;
    eapply cache_get_token_ok; eauto.
Qed.

Lemma sys_ok_step clean cf y e y' : sys_ok y -> ystep clean parse cf y e = Some y' -> sys_ok y'.
Proof.
  intros (C & T & O) S. destruct e as [j rq script|j w|j]; simpl in S.
  - destruct (th_get (y_threads y) j); [discriminate|]. injection S as <-. split; [exact C|]. split; simpl.
    + intros j' t [H|H]; [injection H as _ <-; simpl; auto | eauto].
    + exact O.
  - destruct (th_get (y_threads y) j) as [t|] eqn:G; [|discriminate].
    destruct (t_done t); [discriminate|]. injection S as <-. split; [exact C|]. split; simpl.
    + pose proof (T j t (th_get_in _ _ _ G)) as (A1 & A2 & A3).
      intros j' t' [H|H]; [|eauto]. injection H as _ <-.
      destruct w as [|[|[|w]]]; simpl; auto.
    + exact O.
  - destruct (th_get (y_threads y) j) as [t|] eqn:G; [|discriminate].
    destruct (t_done t); [discriminate|].
    pose proof (T j t (th_get_in _ _ _ G)) as (A1 & A2 & A3).
    set (c := y_cache y) in *. set (rq := t_rq t) in *. set (f := cf_flavour cf) in *.
    assert (K1 : cache_ok (snap (t_s1 t) c)) by (destruct (t_s1 t); simpl; auto).
    assert (K2 : cache_ok (snap (t_s2 t) c)) by (destruct (t_s2 t); simpl; auto).
    assert (K3 : cache_ok (snap (t_s3 t) c)) by (destruct (t_s3 t); simpl; auto).
    assert (F1 : forall tk, rd_tok1 clean f (snap (t_s2 t) c) rq (rd_scheme f (snap (t_s1 t) c) rq) = Some tk ->
                 match rd_scheme f (snap (t_s1 t) c) rq with Some s => tok_fits (rq_host rq) s tk | None => True end)
      by (intros tk E; exact (rd_tok1_fits clean f _ rq _ tk K2 E)).
    assert (F2 : forall k tk, rd_tok2 f (snap (t_s3 t) c) rq k = Some tk -> tok_fits (rq_host rq) SchBearer tk)
      by (intros k tk E; unfold rd_tok2 in E; exact (cache_get_token_ok f _ _ _ _ _ K3 E)).
    pose proof (do_request_rd_ok clean cf rq _ _ _ (t_script t) F1 F2) as D.
    destruct (do_request_rd clean parse cf rq _ _ _ (t_script t)) as [[evs op] r].
    destruct D as [D1 D2].
    injection S as <-. split; simpl.
    + destruct op as [[[s k] v]|]; simpl; auto. apply cache_store_ok; auto.
    + split.
      * intros j' t' [H|H]; [injection H as _ <-; simpl; auto | eauto].
      * intros j' h evs' r' [H|H]; [|eauto]. injection H as _ <- <- _. now apply trace_ok_of_from.
Qed.

(* every interleaving of looks and finishes of any number of calls *)
Lemma sys_ok_run clean cf tr : forall y y', sys_ok y -> yrun clean parse cf y tr = Some y' -> sys_ok y'.
Proof.
  induction tr as [|e tr IH]; intros y y' I R; simpl in R.
  - now injection R as <-.
  - destruct (ystep clean parse cf y e) as [y1|] eqn:S; [|discriminate].
    eapply IH; [eapply sys_ok_step; eauto | eauto].
Qed.

Lemma concurrent_no_cross_host clean cf tr y :
  yrun clean parse cf yinit tr = Some y ->
  (forall j h evs r, In (j, (h, evs, r)) (y_out y) -> trace_ok parse h evs) /\
  (forall h s k t, cc_get_token (y_cache y) h s k = Some t -> taint t = h).
Proof.
  intro R. destruct (sys_ok_run clean cf tr yinit y sys_ok_init R) as (C & _ & O).
  split; auto. intros h s k t G. eapply tok_fits_taint. eapply C; eauto.
Qed.

(* budget and outcome classification do not depend on what the cache says: they hold
   for a call in any concurrent execution *)
Ltac bleaf :=
  simpl; repeat split; auto; try lia; try assumption; try (intros; discriminate);
  try (eexists _, _, _; reflexivity);
  try (eexists _, _, _, _; split; [reflexivity | first [left; reflexivity | right; eexists; eassumption]]);
  try (eexists; split; reflexivity);
  try (match goal with |- c_user ?x && c_pass ?x = false =>
         destruct (c_user x), (c_pass x), (c_refresh x); simpl in *; congruence end).

Ltac bcrush :=
  repeat (match goal with
  | |- context [match ?s with [] => _ | _ :: _ => _ end] => is_var s; destruct s as [|[| ? | ? | | ? | | ] ?]
  | |- context [if ?b then _ else _] => destruct b eqn:?
  end; cbn beta iota); bleaf.

Lemma do_request_rd_budget clean cf rq osch otok1 otok2 script :
  let '(evs, op, r) := do_request_rd clean parse cf rq osch otok1 otok2 script in
  (reg_sends evs <= 3)%nat /\ (fetches evs <= 1)%nat /\ outcome_ok parse cf rq evs r /\ stops_after_failure evs.
Proof.
  unfold do_request_rd.
  destruct (match osch with
            | Some SchBasic => _ | Some SchBearer => _ | _ => _ end) as [attempted a1].
  destruct script as [|[| hdr | id | | sid | | ] script1]; try (bleaf; fail).
  destruct (parse hdr) as [[| |] ps] eqn:Ech; try (bleaf; fail).
  - unfold fetch_basic, final_send. bcrush.
  - set (scopes := if is_empty (get_param s_scope ps) then _ else _).
    set (key := join [c_space] scopes).
    cbv zeta. unfold fetch_bearer_plan, final_send.
    destruct (if str_eqb key attempted then None else otok2 key) as [tok2|]; bcrush.
Qed.

(* "valid credentials => the registry's non-401 answer" for a call in any concurrent
   execution (same statement as the sequential one, on the oracle-read model) *)
Lemma valid_credentials_succeed_rd clean cf rq osch otok1 otok2 script :
  let '(evs, op, r) := do_request_rd clean parse cf rq osch otok1 otok2 script in
  r <> RBad ->
  rewind_ok (rq_body rq) = true ->
  r <> RErr ENoCred -> r <> RErr EMissing -> r <> RErr ECred -> r <> RErr EShared ->
  (forall s, ~ In (s, AFail) evs) ->
  (forall s, ~ In (s, AErr) evs) ->
  (forall h a hdr, ~ In (SReg h a true, A401 hdr) evs) ->
  (forall s hdr ps, In (s, A401 hdr) evs -> parse hdr <> (SchUnknown, ps)) ->
  r = RResp false /\ exists h a fresh, last evs no_event = (SReg h a fresh, AOk).
Proof.
  pose proof (do_request_rd_budget clean cf rq osch otok1 otok2 script) as B.
  destruct (do_request_rd clean parse cf rq osch otok1 otok2 script) as [[evs op] r].
  destruct B as (B1 & B2 & O & _).
  intros Hbad Hbody Hnc Hmiss Hce Hsh Hfail Herr Hfresh Hknown.
  destruct r as [[|]|[| | | | | |]|]; simpl in O; try congruence.
  - exfalso. destruct O as (h & a & fresh & hdr & L & [->|(ps & P)]).
    + apply (Hfresh h a hdr). apply (last_in _ _ _ L). discriminate.
    + apply (Hknown (SReg h a fresh) hdr ps); auto. apply (last_in _ _ _ L). discriminate.
  - auto.
  - exfalso. destruct O as (s & L & Hs). apply (Hfail s).
    apply (last_in _ _ _ L). intro E. rewrite E in Hs. discriminate.
  - exfalso. destruct O as (s & L). apply (Herr s). apply (last_in _ _ _ L). discriminate.
Qed.

(* concurrentCache.store is not one atomic step in Go: between the replacement of the
   entry (LoadOrStore / Store on cc.cache) and tokens.Store a reader may see the entry
   with the new scheme and without the token.  That intermediate cache is host-tainted
   too, so a read at that moment is one of the oracle answers the theorems allow. *)
Lemma store_intermediate_ok c h s :
  cache_ok c ->
  cache_ok (match cc_entry c h with
            | Some (s', t) => if scheme_eqb s s' then c else cc_put c h (s, [])
            | None => cc_put c h (s, [])
            end).
Proof.
  intros H. destruct (cc_entry c h) as [[s' t]|] eqn:E; [destruct (scheme_eqb s s'); auto|];
    intros h' s0 k v G; unfold cc_get_token in G; rewrite cc_entry_put in G;
    (destruct (h' =? h) eqn:Eh;
     [destruct (scheme_eqb s0 s); discriminate | apply (H h' s0 k v); unfold cc_get_token; exact G]).
Qed.
End WithParse.
