(* Proofs/StoreLTS.v -- every interleaving of the atomic steps of concurrent Push / Tag /
   Untag operations (with exclusive Delete / GC / reopen in between) leads, once all
   operations have returned, to a store in which Predecessors is exact and which a reopen
   reproduces. *)
From Coq Require Import List NArith Arith Bool Lia Permutation.
Import ListNotations.
From Oras Require Import Base.Prelude Model.GraphMem Model.GraphStore Model.IndexLTS Model.StoreLTS
     Proofs.GraphMem Proofs.GraphStore Proofs.IndexLTS.
Local Open Scope nat_scope.

Lemma existsb_set_nth_split {A} (P : A -> bool) x : forall l i y,
  nth_error l i = Some y -> existsb P l = true -> P y = true \/ existsb P (set_nth i x l) = true.
Proof.
  induction l as [|z r IH]; intros i y H He; destruct i; simpl in *; try discriminate.
  - inversion H; subst. destruct (P y) eqn:Py; auto. simpl in He. right. rewrite He. apply orb_true_r.
  - destruct (P z) eqn:Pz; simpl in *; [right; reflexivity|].
    destruct (IH i y H He) as [H1|H1]; auto.
Qed.

Lemma Forall_set_nth {A} (Q : A -> Prop) x : forall l i, Forall Q l -> Q x -> Forall Q (set_nth i x l).
Proof.
  induction l as [|z r IH]; intros i Hl Hx; destruct i; simpl; auto; inversion Hl; subst; constructor; auto.
Qed.

Lemma forallb_set_nth {A} (P : A -> bool) x : forall l i,
  forallb P l = true -> P x = true -> forallb P (set_nth i x l) = true.
Proof.
  induction l as [|z r IH]; intros i Hl Hx; destruct i; simpl in *; auto;
    apply andb_true_iff in Hl; destruct Hl as [H1 H2]; apply andb_true_iff; auto.
Qed.

Lemma forallb_existsb_false {A} (P Q : A -> bool) l :
  (forall t, P t = true -> Q t = false) -> forallb P l = true -> existsb Q l = false.
Proof.
  intros H. induction l as [|z r IH]; simpl; auto. intro Hl.
  apply andb_true_iff in Hl. destruct Hl as [H1 H2]. rewrite (H z H1), (IH H2). reflexivity.
Qed.

(* ---- pending work of the threads ---- *)
Definition p_push1 (p : node) (t : cthread) : bool :=
  match ct_op t with CPush n => N.eqb n p && Nat.eqb (ct_pc t) 1 | _ => false end.
Definition p_push12 (p : node) (t : cthread) : bool :=
  match ct_op t with CPush n => N.eqb n p && (Nat.eqb (ct_pc t) 1 || Nat.eqb (ct_pc t) 2) | _ => false end.
Definition p_save (t : cthread) : bool :=
  match ct_op t with
  | CPush _ => Nat.eqb (ct_pc t) 3
  | CTag _ => Nat.eqb (ct_pc t) 2 || Nat.eqb (ct_pc t) 3
  | CUntag _ => Nat.eqb (ct_pc t) 3
  | CAtomic _ => false
  end.
(* what a thread in flight relies on *)
Definition Qt (s : ostore) (t : cthread) : Prop :=
  match ct_op t with
  | CPush n => 1 <= ct_pc t <= 3 -> In n (o_blobs s)
  | CTag n => ct_pc t = 2 -> In n (o_bydigest s)
  | _ => True
  end.

Lemma idle_not_push1 p t : idle_t t = true -> p_push1 p t = false.
Proof.
  unfold idle_t, p_push1. intro H. destruct (ct_op t); auto.
  apply orb_true_iff in H. destruct H as [H|H]; apply Nat.eqb_eq in H; rewrite H;
    [|unfold done_pc]; simpl; apply andb_false_r.
Qed.
Lemma idle_not_push12 p t : idle_t t = true -> p_push12 p t = false.
Proof.
  unfold idle_t, p_push12. intro H. destruct (ct_op t); auto.
  apply orb_true_iff in H. destruct H as [H|H]; apply Nat.eqb_eq in H; rewrite H;
    [|unfold done_pc]; simpl; apply andb_false_r.
Qed.
Lemma idle_not_save t : idle_t t = true -> p_save t = false.
Proof.
  unfold idle_t, p_save. intro H.
  apply orb_true_iff in H. destruct H as [H|H]; apply Nat.eqb_eq in H; rewrite H;
    [|unfold done_pc]; destruct (ct_op t); reflexivity.
Qed.
Lemma idle_Qt s t : idle_t t = true -> Qt s t.
Proof.
  unfold idle_t, Qt. intro H.
  apply orb_true_iff in H. destruct H as [H|H]; apply Nat.eqb_eq in H; rewrite H;
    [|unfold done_pc]; destruct (ct_op t); auto; lia.
Qed.

Section Conc.
Variable content : node -> list node.
Variable isman : node -> bool.
Variable rank : node -> nat.
Hypothesis content_isman : forall p, content p <> [] -> isman p = true.
Hypothesis rank_dec : forall p c, In c (content p) -> rank c < rank p.

Definition synced (s : ostore) : Prop :=
  forall p, In p (o_bydigest s) <-> In p (o_dbydigest s) \/ In p (o_dtagged s).

Record K (st : cstate) : Prop := mkK {
  k_inv : Inv content (o_graph (c_s st));
  k_local : forall p, isman p = true -> In p (o_blobs (c_s st)) ->
            In p (o_bydigest (c_s st)) \/ parented content isman (c_s st) p \/
            existsb (p_push12 p) (c_threads st) = true;
  k_graph_stored : forall p, In p (g_nodes (o_graph (c_s st))) -> isman p = true -> In p (o_blobs (c_s st));
  k_stored_graph : forall p, In p (o_blobs (c_s st)) -> isman p = true ->
            In p (g_nodes (o_graph (c_s st))) \/ existsb (p_push1 p) (c_threads st) = true;
  k_tagged : forall p, In p (o_tagged (c_s st)) -> In p (o_bydigest (c_s st));
  k_sync : synced (c_s st) \/ existsb p_save (c_threads st) = true;
  k_threads : Forall (Qt (c_s st)) (c_threads st)
}.

Lemma J_K s ops : J content isman s -> K (cinit s ops).
Proof.
  intros [H1 H2 H3 H4 H5 H6]. constructor; simpl; auto.
  - intros p Hm Hp. destruct (H2 p Hm Hp); auto.
  - induction ops; simpl; constructor; auto. unfold Qt. simpl. destruct a; auto; simpl; lia.
Qed.

Lemma K_J st : forallb idle_t (c_threads st) = true -> K st -> J content isman (c_s st).
Proof.
  intros Hi [H1 H2 H3 H4 H5 H6 H7]. constructor; auto.
  - intros p Hm Hp. destruct (H2 p Hm Hp) as [H|[H|H]]; auto.
    rewrite (forallb_existsb_false idle_t (p_push12 p) _ (idle_not_push12 p) Hi) in H. discriminate.
  - intros p Hp Hm. destruct (H4 p Hp Hm) as [H|H]; auto.
    rewrite (forallb_existsb_false idle_t (p_push1 p) _ (idle_not_push1 p) Hi) in H. discriminate.
  - destruct H6 as [H|H]; auto.
    rewrite (forallb_existsb_false idle_t p_save _ idle_not_save Hi) in H. discriminate.
Qed.

Lemma done_idle st : call_done st = true -> forallb idle_t (c_threads st) = true.
Proof.
  unfold call_done. induction (c_threads st) as [|t r IH]; simpl; auto.
  intro H. apply andb_true_iff in H. destruct H as [H1 H2]. rewrite (IH H2).
  unfold idle_t. rewrite H1. rewrite orb_true_r. reflexivity.
Qed.

Lemma parented_blobs s s' p :
  (forall q, In q (o_blobs s) -> In q (o_blobs s')) ->
  parented content isman s p -> parented content isman s' p.
Proof. intros H (q & Hq & Hm & Hc). exists q. auto. Qed.

Lemma Qt_mono s s' t :
  (forall q, In q (o_blobs s) -> In q (o_blobs s')) ->
  (forall q, In q (o_bydigest s) -> In q (o_bydigest s')) -> Qt s t -> Qt s' t.
Proof. unfold Qt. intros Hb Hd H. destruct (ct_op t); auto. Qed.

Lemma Forall_Qt_mono s s' l :
  (forall q, In q (o_blobs s) -> In q (o_blobs s')) ->
  (forall q, In q (o_bydigest s) -> In q (o_bydigest s')) -> Forall (Qt s) l -> Forall (Qt s') l.
Proof. intros Hb Hd H. eapply Forall_impl; [|exact H]. intros t. apply Qt_mono; auto. Qed.

(* a step that changes only the thread, from a program point with nothing pending *)
Lemma K_thread_only st i t t' :
  K st -> nth_error (c_threads st) i = Some t ->
  (forall p, p_push1 p t = false) -> (forall p, p_push12 p t = false) -> p_save t = false ->
  Qt (c_s st) t' ->
  K (mkC (c_s st) (set_nth i t' (c_threads st))).
Proof.
  intros [H1 H2 H3 H4 H5 H6 H7] E P1 P12 PS HQ. constructor; simpl; auto.
  - intros p Hm Hp. destruct (H2 p Hm Hp) as [H|[H|H]]; auto. right. right.
    apply (existsb_set_nth_other _ _ _ i t); auto.
  - intros p Hp Hm. destruct (H4 p Hp Hm) as [H|H]; auto. right.
    apply (existsb_set_nth_other _ _ _ i t); auto.
  - destruct H6 as [H|H]; auto. right. apply (existsb_set_nth_other _ _ _ i t); auto.
  - apply Forall_set_nth; auto.
Qed.

Lemma save_synced s : (forall p, In p (o_tagged s) -> In p (o_bydigest s)) -> synced (osave s).
Proof. intros H p. simpl. split; [auto | intros [H1|H1]; auto]. Qed.

Lemma cstep_K fuel st i st' : K st -> cstep content isman fuel st i = Some st' -> K st'.
Proof.
  intros HK H. unfold cstep in H.
  destruct (nth_error (c_threads st) i) as [t|] eqn:E; [|discriminate].
  pose proof HK as [H1 H2 H3 H4 H5 H6 H7].
  assert (Qt (c_s st) t) as HQt.
  { rewrite Forall_forall in H7. apply H7. eapply nth_error_In; eauto. }
  destruct (ct_op t) as [n|n|n|o] eqn:Eop.
  - (* Push *)
    destruct (ct_pc t) as [|[|[|[|k]]]] eqn:Epc; try discriminate.
    + (* pc 0 *)
      assert (forall p, p_push1 p t = false) as P1 by (intro p; unfold p_push1; rewrite Eop, Epc; apply andb_false_r).
      assert (forall p, p_push12 p t = false) as P12 by (intro p; unfold p_push12; rewrite Eop, Epc; apply andb_false_r).
      assert (p_save t = false) as PS by (unfold p_save; rewrite Eop, Epc; reflexivity).
      destruct (smem n (o_blobs (c_s st))) eqn:M; inversion H; subst; clear H.
      * apply (K_thread_only st i t); auto. unfold Qt. simpl. unfold done_pc. lia.
      * constructor; simpl.
        -- exact H1.
        -- intros p Hm [<-|Hp].
           ++ right. right. apply (existsb_set_nth_new _ _ _ i t); auto.
              unfold p_push12. simpl. rewrite N.eqb_refl. reflexivity.
           ++ destruct (H2 p Hm Hp) as [Hx|[Hx|Hx]]; auto.
              ** right. left. apply (parented_blobs (c_s st)); auto. simpl. auto.
              ** right. right. apply (existsb_set_nth_other _ _ _ i t); auto.
        -- intros p Hp Hm. right. apply H3; auto.
        -- intros p [<-|Hp] Hm.
           ++ right. apply (existsb_set_nth_new _ _ _ i t); auto.
              unfold p_push1. simpl. rewrite N.eqb_refl. reflexivity.
           ++ destruct (H4 p Hp Hm) as [Hx|Hx]; auto. right.
              apply (existsb_set_nth_other _ _ _ i t); auto.
        -- exact H5.
        -- destruct H6 as [Hx|Hx]; [left; exact Hx | right].
           apply (existsb_set_nth_other _ _ _ i t); auto.
        -- apply Forall_set_nth.
           ++ apply (Forall_Qt_mono (c_s st)); auto. simpl. auto.
           ++ unfold Qt. simpl. auto.
    + (* pc 1: graph.Index *)
      inversion H; subst; clear H.
      assert (In n (o_blobs (c_s st))) as Hn by (unfold Qt in HQt; rewrite Eop, Epc in HQt; apply HQt; lia).
      assert (p_save t = false) as PS by (unfold p_save; rewrite Eop, Epc; reflexivity).
      constructor; simpl.
      * apply index_Inv, H1.
      * intros p Hm Hp. destruct (H2 p Hm Hp) as [Hx|[Hx|Hx]]; [left; exact Hx | right; left; exact Hx |].
        right. right.
        destruct (existsb_set_nth_split (p_push12 p) (mkCT (CPush n) 2) _ i t E Hx) as [Hy|Hy]; auto.
        apply (existsb_set_nth_new _ _ _ i t); auto.
        unfold p_push12 in *. rewrite Eop, Epc in Hy. simpl in *.
        apply andb_true_iff in Hy. destruct Hy as [Hy _]. rewrite Hy. reflexivity.
      * intros p Hp Hm. apply In_sadd in Hp. destruct Hp as [->|Hp]; [exact Hn | apply H3; auto].
      * intros p Hp Hm. destruct (H4 p Hp Hm) as [Hx|Hx].
        -- left. apply In_sadd. auto.
        -- destruct (existsb_set_nth_split (p_push1 p) (mkCT (CPush n) 2) _ i t E Hx) as [Hy|Hy]; auto.
           left. apply In_sadd. left.
           unfold p_push1 in Hy. rewrite Eop, Epc in Hy. simpl in Hy.
           apply andb_true_iff in Hy. destruct Hy as [Hy _]. apply N.eqb_eq in Hy. auto.
      * exact H5.
      * destruct H6 as [Hx|Hx]; [left; exact Hx | right].
        apply (existsb_set_nth_other _ _ _ i t); auto.
      * apply Forall_set_nth; [exact H7|]. unfold Qt. simpl. auto.
    + (* pc 2: tag by digest *)
      assert (In n (o_blobs (c_s st))) as Hn by (unfold Qt in HQt; rewrite Eop, Epc in HQt; apply HQt; lia).
      assert (forall p, p_push1 p t = false) as P1 by (intro p; unfold p_push1; rewrite Eop, Epc; apply andb_false_r).
      destruct (isman n) eqn:Mn; inversion H; subst; clear H.
      * constructor; simpl.
        -- exact H1.
        -- intros p Hm Hp. destruct (H2 p Hm Hp) as [Hx|[Hx|Hx]].
           ++ left. apply In_sadd. auto.
           ++ right. left. exact Hx.
           ++ destruct (existsb_set_nth_split (p_push12 p) (mkCT (CPush n) 3) _ i t E Hx) as [Hy|Hy]; auto.
              left. apply In_sadd. left.
              unfold p_push12 in Hy. rewrite Eop, Epc in Hy. simpl in Hy.
              apply andb_true_iff in Hy. destruct Hy as [Hy _]. apply N.eqb_eq in Hy. auto.
        -- exact H3.
        -- intros p Hp Hm. destruct (H4 p Hp Hm) as [Hx|Hx]; auto. right.
           apply (existsb_set_nth_other _ _ _ i t); auto.
        -- intros p Hp. apply In_sadd. auto.
        -- right. apply (existsb_set_nth_new _ _ _ i t); auto.
        -- apply Forall_set_nth.
           ++ apply (Forall_Qt_mono (c_s st)); auto. simpl. intros q Hq. apply In_sadd. auto.
           ++ unfold Qt. simpl. auto.
      * (* not a manifest: done *)
        constructor; simpl.
        -- exact H1.
        -- intros p Hm Hp. destruct (H2 p Hm Hp) as [Hx|[Hx|Hx]]; [left; exact Hx | right; left; exact Hx |].
           destruct (existsb_set_nth_split (p_push12 p) (mkCT (CPush n) done_pc) _ i t E Hx) as [Hy|Hy]; auto.
           unfold p_push12 in Hy. rewrite Eop, Epc in Hy. simpl in Hy.
           apply andb_true_iff in Hy. destruct Hy as [Hy _]. apply N.eqb_eq in Hy. subst. congruence.
        -- exact H3.
        -- intros p Hp Hm. destruct (H4 p Hp Hm) as [Hx|Hx]; auto. right.
           apply (existsb_set_nth_other _ _ _ i t); auto.
        -- exact H5.
        -- destruct H6 as [Hx|Hx]; [left; exact Hx | right].
           apply (existsb_set_nth_other _ _ _ i t); auto.
           unfold p_save. rewrite Eop, Epc. reflexivity.
        -- apply Forall_set_nth; [exact H7|]. unfold Qt. simpl. unfold done_pc. lia.
    + (* pc 3: saveIndex *)
      inversion H; subst; clear H.
      assert (forall p, p_push1 p t = false) as P1 by (intro p; unfold p_push1; rewrite Eop, Epc; apply andb_false_r).
      assert (forall p, p_push12 p t = false) as P12 by (intro p; unfold p_push12; rewrite Eop, Epc; apply andb_false_r).
      constructor; simpl.
      * exact H1.
      * intros p Hm Hp. destruct (H2 p Hm Hp) as [Hx|[Hx|Hx]]; [left; exact Hx | right; left; exact Hx |].
        right. right. apply (existsb_set_nth_other _ _ _ i t); auto.
      * exact H3.
      * intros p Hp Hm. destruct (H4 p Hp Hm) as [Hx|Hx]; auto. right.
        apply (existsb_set_nth_other _ _ _ i t); auto.
      * exact H5.
      * left. apply save_synced. exact H5.
      * apply Forall_set_nth; [exact H7|]. unfold Qt. simpl. unfold done_pc. lia.
  - (* Tag *)
    assert (forall p, p_push1 p t = false) as P1 by (intro p; unfold p_push1; rewrite Eop; reflexivity).
    assert (forall p, p_push12 p t = false) as P12 by (intro p; unfold p_push12; rewrite Eop; reflexivity).
    destruct (ct_pc t) as [|[|[|[|k]]]] eqn:Epc; try discriminate.
    + assert (p_save t = false) as PS by (unfold p_save; rewrite Eop, Epc; reflexivity).
      destruct (smem n (o_blobs (c_s st))); inversion H; subst; clear H;
        apply (K_thread_only st i t); auto; unfold Qt; simpl; intros Hc; [discriminate | unfold done_pc in Hc; discriminate].
    + (* by digest *)
      inversion H; subst; clear H. constructor; simpl.
      * exact H1.
      * intros p Hm Hp. destruct (H2 p Hm Hp) as [Hx|[Hx|Hx]].
        -- left. apply In_sadd. auto.
        -- right. left. exact Hx.
        -- right. right. apply (existsb_set_nth_other _ _ _ i t); auto.
      * exact H3.
      * intros p Hp Hm. destruct (H4 p Hp Hm) as [Hx|Hx]; auto. right.
        apply (existsb_set_nth_other _ _ _ i t); auto.
      * intros p Hp. apply In_sadd. auto.
      * right. apply (existsb_set_nth_new _ _ _ i t); auto.
      * apply Forall_set_nth.
        -- apply (Forall_Qt_mono (c_s st)); auto. simpl. intros q Hq. apply In_sadd. auto.
        -- unfold Qt. simpl. intros _. apply In_sadd. auto.
    + (* by name *)
      inversion H; subst; clear H.
      assert (In n (o_bydigest (c_s st))) as Hn by (unfold Qt in HQt; rewrite Eop, Epc in HQt; auto).
      constructor; simpl.
      * exact H1.
      * intros p Hm Hp. destruct (H2 p Hm Hp) as [Hx|[Hx|Hx]]; [left; exact Hx | right; left; exact Hx |].
        right. right. apply (existsb_set_nth_other _ _ _ i t); auto.
      * exact H3.
      * intros p Hp Hm. destruct (H4 p Hp Hm) as [Hx|Hx]; auto. right.
        apply (existsb_set_nth_other _ _ _ i t); auto.
      * intros p Hp. apply In_sadd in Hp. destruct Hp as [->|Hp]; auto.
      * right. apply (existsb_set_nth_new _ _ _ i t); auto.
      * apply Forall_set_nth; [exact H7|]. unfold Qt. simpl. intros Hc. discriminate.
    + (* save *)
      inversion H; subst; clear H. constructor; simpl.
      * exact H1.
      * intros p Hm Hp. destruct (H2 p Hm Hp) as [Hx|[Hx|Hx]]; [left; exact Hx | right; left; exact Hx |].
        right. right. apply (existsb_set_nth_other _ _ _ i t); auto.
      * exact H3.
      * intros p Hp Hm. destruct (H4 p Hp Hm) as [Hx|Hx]; auto. right.
        apply (existsb_set_nth_other _ _ _ i t); auto.
      * exact H5.
      * left. apply save_synced. exact H5.
      * apply Forall_set_nth; [exact H7|]. unfold Qt. simpl. unfold done_pc. intros Hc. discriminate.
  - (* Untag *)
    assert (forall p, p_push1 p t = false) as P1 by (intro p; unfold p_push1; rewrite Eop; reflexivity).
    assert (forall p, p_push12 p t = false) as P12 by (intro p; unfold p_push12; rewrite Eop; reflexivity).
    destruct (ct_pc t) as [|[|[|[|k]]]] eqn:Epc; try discriminate.
    + assert (p_save t = false) as PS by (unfold p_save; rewrite Eop, Epc; reflexivity).
      destruct (smem n (o_tagged (c_s st))); inversion H; subst; clear H.
      * constructor; simpl.
        -- exact H1.
        -- intros p Hm Hp. destruct (H2 p Hm Hp) as [Hx|[Hx|Hx]]; [left; exact Hx | right; left; exact Hx |].
           right. right. apply (existsb_set_nth_other _ _ _ i t); auto.
        -- exact H3.
        -- intros p Hp Hm. destruct (H4 p Hp Hm) as [Hx|Hx]; auto. right.
           apply (existsb_set_nth_other _ _ _ i t); auto.
        -- intros p Hp. apply In_sdel in Hp. apply H5, Hp.
        -- right. apply (existsb_set_nth_new _ _ _ i t); auto.
        -- apply Forall_set_nth; [exact H7|]. unfold Qt. simpl. auto.
      * apply (K_thread_only st i t); auto. unfold Qt. simpl. auto.
    + inversion H; subst; clear H. constructor; simpl.
      * exact H1.
      * intros p Hm Hp. destruct (H2 p Hm Hp) as [Hx|[Hx|Hx]]; [left; exact Hx | right; left; exact Hx |].
        right. right. apply (existsb_set_nth_other _ _ _ i t); auto.
      * exact H3.
      * intros p Hp Hm. destruct (H4 p Hp Hm) as [Hx|Hx]; auto. right.
        apply (existsb_set_nth_other _ _ _ i t); auto.
      * exact H5.
      * left. apply save_synced. exact H5.
      * apply Forall_set_nth; [exact H7|]. unfold Qt. simpl. auto.
  - (* Atomic: nobody in flight *)
    destruct (ct_pc t) as [|k] eqn:Epc; [|discriminate].
    destruct (forallb idle_t (c_threads st)) eqn:Hi; [|discriminate].
    inversion H; subst; clear H.
    pose proof (K_J st Hi HK) as HJ.
    pose proof (ostep_J content isman rank content_isman rank_dec fuel (c_s st) o HJ) as HJ'.
    set (s' := fst (ostep true true true content isman fuel (c_s st) o)) in *.
    destruct HJ' as [J1 J2 J3 J4 J5 J6].
    assert (forallb idle_t (set_nth i (mkCT (CAtomic o) done_pc) (c_threads st)) = true) as Hi'.
    { apply forallb_set_nth; auto. }
    constructor; simpl; auto.
    + intros p Hm Hp. destruct (J2 p Hm Hp); auto.
    + rewrite forallb_forall in Hi'. apply Forall_forall. intros x Hx. apply idle_Qt, Hi', Hx.
Qed.

Lemma crun_K fuel trace : forall st st', K st -> crun content isman fuel st trace = Some st' -> K st'.
Proof.
  induction trace as [|i r IH]; intros st st' HK H; simpl in H.
  - inversion H; subst; auto.
  - destruct (cstep content isman fuel st i) as [st1|] eqn:E; [|discriminate].
    apply (IH st1); auto. apply (cstep_K fuel st i); auto.
Qed.

(* every interleaving, once every operation has returned *)
Lemma concurrent_quiescent_J fuel ops0 cops trace st' :
  let s0 := fst (orun true true true content isman fuel empty_store ops0) in
  crun content isman fuel (cinit s0 cops) trace = Some st' -> call_done st' = true ->
  J content isman (c_s st').
Proof.
  intros s0 H Hd.
  apply K_J; [apply done_idle, Hd|].
  apply (crun_K fuel trace (cinit s0 cops)); auto.
  apply J_K. apply (orun_J content isman rank content_isman rank_dec). apply J_empty.
Qed.

Lemma concurrent_quiescent_exact fuel ops0 cops trace st' n :
  let s0 := fst (orun true true true content isman fuel empty_store ops0) in
  crun content isman fuel (cinit s0 cops) trace = Some st' -> call_done st' = true ->
  NoDup (predecessors (o_graph (c_s st')) n) /\
  forall p, In p (predecessors (o_graph (c_s st')) n) <-> In p (o_blobs (c_s st')) /\ In n (content p).
Proof.
  intros s0 H Hd. apply (J_exact content isman content_isman).
  apply (concurrent_quiescent_J fuel ops0 cops trace st' H Hd).
Qed.

Lemma concurrent_quiescent_reopen fuel ops0 cops trace st' s'' :
  let s0 := fst (orun true true true content isman fuel empty_store ops0) in
  crun content isman fuel (cinit s0 cops) trace = Some st' -> call_done st' = true ->
  ostep true true true content isman fuel (c_s st') PReopen = (s'', true) ->
  o_blobs s'' = o_blobs (c_s st') /\
  forall n, Permutation (predecessors (o_graph s'') n) (predecessors (o_graph (c_s st')) n).
Proof.
  intros s0 H Hd HR.
  pose proof (concurrent_quiescent_J fuel ops0 cops trace st' H Hd) as HJ.
  assert (J content isman s'') as HJ'.
  { pose proof (ostep_J content isman rank content_isman rank_dec fuel (c_s st') PReopen HJ) as H1.
    rewrite HR in H1. exact H1. }
  assert (o_blobs s'' = o_blobs (c_s st')) as Hb.
  { cbn [ostep] in HR.
    destruct (load content (o_sok isman (c_s st')) fuel (o_dtagged (c_s st') ++ o_dbydigest (c_s st'))) as [g' ok].
    destruct ok; inversion HR; reflexivity. }
  split; auto. intro n.
  destruct (J_exact content isman content_isman (c_s st') HJ n) as [Hd1 Hm1].
  destruct (J_exact content isman content_isman s'' HJ' n) as [Hd2 Hm2].
  apply NoDup_Permutation; auto. intro p. rewrite Hm1, Hm2, Hb. tauto.
Qed.

(* at EVERY reachable state, quiescent or not: no extra and no duplicate answer, and the only
   stored referencing nodes that may still be missing are those whose Push is between its
   storage step and its index step *)
Lemma concurrent_anytime fuel ops0 cops trace st' n :
  let s0 := fst (orun true true true content isman fuel empty_store ops0) in
  crun content isman fuel (cinit s0 cops) trace = Some st' ->
  NoDup (predecessors (o_graph (c_s st')) n) /\
  (forall p, In p (predecessors (o_graph (c_s st')) n) -> In p (o_blobs (c_s st')) /\ In n (content p)) /\
  (forall p, In p (o_blobs (c_s st')) -> In n (content p) ->
             In p (predecessors (o_graph (c_s st')) n) \/ existsb (p_push1 p) (c_threads st') = true).
Proof.
  intros s0 H.
  assert (K st') as [H1 H2 H3 H4 H5 H6 H7].
  { apply (crun_K fuel trace (cinit s0 cops)); auto.
    apply J_K. apply (orun_J content isman rank content_isman rank_dec). apply J_empty. }
  destruct (predecessors_exact content (o_graph (c_s st')) H1 n) as [Hd Hm].
  split; auto. split.
  - intros p Hp. apply Hm in Hp. destruct Hp as [Hp Hn]. split; auto.
    apply H3; auto. apply content_isman. intro E. rewrite E in Hn. destruct Hn.
  - intros p Hp Hn.
    assert (isman p = true) as Hmp by (apply content_isman; intro E; rewrite E in Hn; destruct Hn).
    destruct (H4 p Hp Hmp) as [Hx|Hx]; auto. left. apply Hm. auto.
Qed.
End Conc.

(* a complete interleaved run: two pushes and a tag step by step, then an exclusive delete *)
Definition lts_ct : amap := [(2, [0]); (3, [2])]%N.
Definition lts_isman (x : node) : bool := N.leb 2 x.
Definition lts_ops : list cop := [CPush 2%N; CPush 3%N; CTag 3%N; CAtomic (PDelete 3%N); CPush 0%N].
Definition lts_trace : list nat := [4; 0; 1; 4; 1; 0; 4; 0; 1; 1; 0; 2; 2; 2; 2; 3].
Lemma lts_example :
  exists st', crun (ctab lts_ct) lts_isman 50 (cinit empty_store lts_ops) lts_trace = Some st' /\
              call_done st' = true /\ o_blobs (c_s st') = [2; 0]%N /\
              predecessors (o_graph (c_s st')) 0%N = [2%N].
Proof. eexists. vm_compute. repeat split. Qed.

Lemma oci_step_order_true : oci_step_order = true.
Proof. vm_compute. reflexivity. Qed.
