(* CopyImplBase: definitions of the invariants of the protocol LTS (Model/CopyImpl.v), basic lemmas, tactics. *)
From Coq Require Import List Arith Bool Lia.
From Oras Require Import Model.CopyImpl.
Import ListNotations.

Lemma upd_same {A} (f : nat -> A) i x : upd f i x i = x.
Proof. unfold upd. now rewrite Nat.eqb_refl. Qed.
Lemma upd_other {A} (f : nat -> A) i x j : j <> i -> upd f i x j = f j.
Proof. intro H. unfold upd. destruct (Nat.eqb_spec j i); congruence. Qed.

Definition b2n (b : bool) : nat := if b then 1 else 0.

Lemma count_upto_ext p q n : (forall i, i < n -> p i = q i) -> count_upto p n = count_upto q n.
Proof.
  induction n; intros H; simpl; auto. rewrite H by lia. rewrite IHn; auto.
Qed.
Lemma count_upto_upd_ge {A} (g : A -> bool) (f : nat -> A) i x n : n <= i ->
  count_upto (fun t => g (upd f i x t)) n = count_upto (fun t => g (f t)) n.
Proof. intros H. apply count_upto_ext. intros j Hj. rewrite upd_other by lia. reflexivity. Qed.
Lemma count_upto_upd {A} (g : A -> bool) (f : nat -> A) i x n : i < n ->
  count_upto (fun t => g (upd f i x t)) n + b2n (g (f i)) = count_upto (fun t => g (f t)) n + b2n (g x).
Proof.
  induction n; intros H; [lia|]. simpl.
  destruct (Nat.eq_dec i n) as [->|Hne].
  - rewrite upd_same. rewrite count_upto_upd_ge by lia. unfold b2n. destruct (g x), (g (f n)); lia.
  - rewrite upd_other by lia. assert (Hi : i < n) by lia. specialize (IHn Hi). lia.
Qed.
Lemma count_upto_le p q n : (forall i, p i = true -> q i = true) -> count_upto p n <= count_upto q n.
Proof.
  intros H. induction n; simpl; auto. specialize (H n). destruct (p n), (q n); try lia.
Qed.
Lemma count_upto_bound p n : count_upto p n <= n.
Proof. induction n; simpl; auto. destruct (p n); lia. Qed.

Definition must_hold (p : pc) : bool :=
  match p with TSpawned | TTry | TExists | TFind | TPush => true | _ => false end.
Definition may_hold (p : pc) : bool :=
  match p with TSpawned | TTry | TExists | TFind | TEnd | TPush => true | _ => false end.

(* destructs every match / if of a `step ... = Some s'` hypothesis *)

Section Defs.
Variable succ : nat -> list nat.
Variable K : nat.
Variable ext : bool.
Variable roots : list nat.

Inductive Reachable : state -> Prop :=
| R_init : Reachable (init K ext roots)
| R_step s l s' : Reachable s -> step succ s l = Some s' -> Reachable s'.


Record Inv1 (s : state) : Prop := {
  i1_wf : forall t, ntasks s <= t -> tasks s t = dtask;
  i1_perm : free s + holders s = K;
  i1_must : forall t, must_hold (t_pc (tasks s t)) = true -> t_holds (tasks s t) = true;
  i1_may : forall t, t_holds (tasks s t) = true -> may_hold (t_pc (tasks s t)) = true }.

Lemma live_lt s t : (forall t, ntasks s <= t -> tasks s t = dtask) ->
  is_fin (t_pc (tasks s t)) = false -> t < ntasks s.
Proof.
  intros Hwf Hp. destruct (Nat.lt_ge_cases t (ntasks s)); auto. rewrite Hwf in Hp by auto. discriminate.
Qed.

Lemma holders_upd s ts t x fr nf fe trk tc fl :
  ts = tasks s -> t < ntasks s ->
  holders (mkState (upd ts t x) (ntasks s) fr nf fe trk tc fl) + b2n (t_holds (tasks s t))
  = holders s + b2n (t_holds x).
Proof. intros -> Hlt. unfold holders. simpl. apply (count_upto_upd t_holds). auto. Qed.


Definition crank (k : kind) (n : nat) : nat := match k with KFn => 2 * n | KOuter => 2 * n + 1 end.
Definition trank (t : task) : nat := crank (t_kind t) (t_node t).

Definition I_wff s := forall f, nframes s <= f -> frames s f = dframe.
Definition I_nfpos s := 1 <= nframes s.
Definition I_tframe s := forall t, t_frame (tasks s t) < nframes s.
Definition I_unfin s := forall t, is_fin (t_pc (tasks s t)) = false -> is_ret (f_pc (frames s (t_frame (tasks s t)))) = false.
Definition I_ingo s := forall t f, t_pc (tasks s t) = TInGo f ->
  f_parent (frames s f) = Some t /\ is_ret (f_pc (frames s f)) = false.
Definition I_parent s := forall f p, f_parent (frames s f) = Some p ->
  (t_frame (tasks s p) < f /\ p < ntasks s) /\ (is_ret (f_pc (frames s f)) = false -> t_pc (tasks s p) = TInGo f).
Definition I_top s := forall f, f_parent (frames s f) = None -> f = 0 \/ nframes s <= f.
Definition I_ancself s := forall f, f < nframes s -> In f (f_anc (frames s f)).
Definition I_anc s := forall f p, f_parent (frames s f) = Some p ->
  (forall x, In x (f_anc (frames s (t_frame (tasks s p)))) -> In x (f_anc (frames s f))) /\
  (f_cancelled (frames s (t_frame (tasks s p))) = true -> f_cancelled (frames s f) = true).
Definition I_rank s := forall f p, f_parent (frames s f) = Some p ->
  (forall i, In i (f_items (frames s f)) -> crank (f_kind (frames s f)) i < trank (tasks s p)) /\
  (forall c, t_frame (tasks s c) = f -> trank (tasks s c) < trank (tasks s p)).
Definition I_wait s := forall t l, t_pc (tasks s t) = TWait l ->
  t_kind (tasks s t) = KFn /\ l <> [] /\ forall m, In m l -> In m (succ (t_node (tasks s t))).

Record Inv2 (s : state) : Prop := {
  i2_wff : I_wff s; i2_nfpos : I_nfpos s; i2_tframe : I_tframe s; i2_unfin : I_unfin s; i2_ingo : I_ingo s;
  i2_parent : I_parent s; i2_top : I_top s; i2_ancself : I_ancself s; i2_anc : I_anc s; i2_rank : I_rank s;
  i2_wait : I_wait s }.

Lemma cf_parent x fs j : f_parent (cancel_frames x fs j) = f_parent (fs j).
Proof. unfold cancel_frames. destruct (existsb _ _); reflexivity. Qed.
Lemma cf_anc x fs j : f_anc (cancel_frames x fs j) = f_anc (fs j).
Proof. unfold cancel_frames. destruct (existsb _ _); reflexivity. Qed.
Lemma cf_kind x fs j : f_kind (cancel_frames x fs j) = f_kind (fs j).
Proof. unfold cancel_frames. destruct (existsb _ _); reflexivity. Qed.
Lemma cf_all x fs j : f_all (cancel_frames x fs j) = f_all (fs j).
Proof. unfold cancel_frames. destruct (existsb _ _); reflexivity. Qed.
Lemma cf_items x fs j : f_items (cancel_frames x fs j) = f_items (fs j).
Proof. unfold cancel_frames. destruct (existsb _ _); reflexivity. Qed.
Lemma cf_pc x fs j : f_pc (cancel_frames x fs j) = f_pc (fs j).
Proof. unfold cancel_frames. destruct (existsb _ _); reflexivity. Qed.
Lemma cf_cancelled x fs j :
  f_cancelled (cancel_frames x fs j) = existsb (Nat.eqb x) (f_anc (fs j)) || f_cancelled (fs j).
Proof. unfold cancel_frames. destruct (existsb _ _); reflexivity. Qed.
Lemma cf_dframe x fs j : fs j = dframe -> cancel_frames x fs j = dframe.
Proof. unfold cancel_frames. intros ->. reflexivity. Qed.
Lemma existsb_eqb_in x l : existsb (Nat.eqb x) l = true <-> In x l.
Proof.
  rewrite existsb_exists. split.
  - intros [y [Hy He]]. apply Nat.eqb_eq in He. subst. auto.
  - intros H. exists x. split; auto. apply Nat.eqb_refl.
Qed.


Lemma flive s f : I_wff s -> is_ret (f_pc (frames s f)) = false -> f < nframes s.
Proof.
  intros Hw Hp. destruct (Nat.lt_ge_cases f (nframes s)); auto. rewrite Hw in Hp by auto. discriminate.
Qed.


Lemma ftd_spec s f : (forall t, ntasks s <= t -> tasks s t = dtask) -> frame_tasks_done s f = true ->
  forall t, t_frame (tasks s t) = f -> is_fin (t_pc (tasks s t)) = true.
Proof.
  intros Hwf H t Ht. destruct (Nat.lt_ge_cases t (ntasks s)) as [Hlt|Hge].
  - unfold frame_tasks_done in H. rewrite forallb_forall in H. specialize (H t).
    rewrite Ht, Nat.eqb_refl in H. apply H. apply in_seq. lia.
  - rewrite Hwf by auto. reflexivity.
Qed.


End Defs.

Ltac inv_step H :=
  unfold step in H; cbv zeta in H;
  repeat match type of H with
         | context [match ?x with _ => _ end] => destruct x eqn:?; try discriminate H
         end;
  try (injection H as H); try subst.

Ltac upd_split g i x j :=
  let E := fresh "E" in
  destruct (Nat.eq_dec j i) as [E|E];
  [ first [ subst j | subst i | rewrite E in * ]; rewrite ?upd_same in *
  | rewrite ?(upd_other g i x j E) in * ].
Ltac upd_cases :=
  repeat match goal with
         | |- context [upd ?g ?i ?x ?j] =>
           lazymatch j with context [upd _ _ _ _] => fail | _ => upd_split g i x j end
         | H : context [upd ?g ?i ?x ?j] |- _ =>
           lazymatch j with context [upd _ _ _ _] => fail | _ => upd_split g i x j end
         end.

Ltac live t :=
  match goal with
  | Hwf : forall t, ntasks ?s <= t -> tasks ?s t = dtask, Hpc : t_pc (tasks ?s t) = _ |- _ =>
    assert (t < ntasks s) by (apply (live_lt s t Hwf); rewrite Hpc; reflexivity)
  end.

Ltac holds_from_pc :=
  repeat match goal with
         | Hm : (forall t, must_hold (t_pc (tasks ?s t)) = true -> _), Hpc : t_pc (tasks ?s ?t) = _ |- _ =>
           lazymatch goal with
           | _ : t_holds (tasks s t) = true |- _ => fail
           | _ => idtac
           end;
           assert (t_holds (tasks s t) = true) by (apply Hm; rewrite Hpc; reflexivity)
         end.

Ltac perm_tac :=
  match goal with
  | |- context [holders (mkState (upd (tasks ?s) ?t ?x) (ntasks ?s) ?a ?b ?c ?d ?e ?f)] =>
    let HH := fresh "HH" in
    pose proof (holders_upd s (tasks s) t x a b c d e f eq_refl ltac:(assumption)) as HH;
    cbn [set_pc set_pc_holds t_holds] in HH; unfold b2n in HH;
    repeat match goal with
           | |- context [if t_holds ?y then _ else _] => destruct (t_holds y) eqn:?
           | H : context [if t_holds ?y then _ else _] |- _ => destruct (t_holds y) eqn:?
           end;
    try congruence; try lia
  end.

Ltac fsimp := repeat (rewrite ?cf_parent, ?cf_anc, ?cf_kind, ?cf_all, ?cf_items, ?cf_pc in * ).
Ltac step_cases l Hs :=
  destruct l; inv_step Hs; unfold finish, with_tasks in *;
  cbn [tasks ntasks free frames nframes tracker failed top_cancelled] in *;
  repeat match goal with H : Nat.eqb _ _ = true |- _ => apply Nat.eqb_eq in H; try subst end.
Ltac flive_all :=
  repeat match goal with
         | Hw : I_wff ?s, Hp : f_pc (frames ?s ?f) = _ |- _ =>
           lazymatch goal with
           | _ : f < nframes s |- _ => fail
           | _ => idtac
           end;
           assert (f < nframes s) by (apply (flive s f Hw); rewrite Hp; reflexivity)
         end.

Ltac pc_rewrite :=
  repeat match goal with
         | H : t_pc (tasks _ ?t) = _ |- _ => first [rewrite H in * | clear H]
         end.

Ltac pre :=
  try match goal with
      | Hwf : (forall t, ntasks ?s <= t -> tasks ?s t = dtask), H : frame_tasks_done ?s ?f = true |- _ =>
        pose proof (ftd_spec s f Hwf H)
      end;
  try match goal with
      | Hw : I_wff ?s |- _ => assert (frames s (nframes s) = dframe) by (apply Hw; lia)
      end;
  repeat match goal with H : f_pc (frames _ _) = _ |- _ => rewrite H in * end.

Ltac fpc_rw := repeat match goal with H : f_pc (frames _ _) = _ |- _ => rewrite H in * end.

Ltac extra :=
  try match goal with
      | Hf : (forall t, t_frame (tasks ?s t) = _ -> is_fin _ = true), H0 : is_fin (t_pc (tasks ?s ?t)) = false |- _ =>
        rewrite Hf in H0 by (auto; congruence); discriminate
      end;
  try match goal with H : frames ?s (nframes ?s) = dframe |- _ => rewrite H in * end;
  repeat match goal with
         | Ht : I_tframe ?s, H : t_pc (tasks ?s ?t) = _ |- _ =>
           lazymatch goal with | _ : t_frame (tasks s t) < nframes s |- _ => fail | _ => idtac end;
           pose proof (Ht t)
         end.

Ltac sat :=
  repeat match goal with
         | Hi : I_ingo ?s, H : t_pc (tasks ?s ?t) = TInGo ?f |- _ =>
           lazymatch goal with | _ : f_parent (frames s f) = Some t |- _ => fail | _ => idtac end;
           let A := fresh "Hig" in let B := fresh "Hig" in destruct (Hi t f H) as [A B]
         | Hp : I_parent ?s, H : f_parent (frames ?s ?f) = Some ?p |- _ =>
           lazymatch goal with | _ : t_frame (tasks s p) < f |- _ => fail | _ => idtac end;
           let A := fresh "Hpa" in let B := fresh "Hpa" in let C := fresh "Hpa" in destruct (Hp f p H) as [[A C] B]
         | Hu : I_unfin ?s, H : t_pc (tasks ?s ?t) = ?p |- _ =>
           lazymatch goal with | _ : is_ret (f_pc (frames s (t_frame (tasks s t)))) = false |- _ => fail | _ => idtac end;
           assert (is_ret (f_pc (frames s (t_frame (tasks s t)))) = false) by (apply Hu; rewrite H; reflexivity)
         end.


