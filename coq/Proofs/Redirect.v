(* C16 -- witnesses of the two known findings in the redirect policy model. *)
From Oras Require Import Base.Prelude Model.Scopes Model.Challenge Model.Redirect.

(* redirect-other-port-keeps-authorization: two registries that the auth client
   keeps apart (different cache/credential keys: the host strings differ) are the
   same for the redirect policy *)
Lemma other_port_keeps_authorization :
  let a := b "reg0.test" in let c := b "reg0.test:443" in
  a <> c /\ keeps_authorization a c = true /\ keeps_authorization c a = true /\
  keeps_authorization a (b "reg1.test:5000") = false /\ keeps_authorization a (b "blobs.reg0.test") = true.
Proof. vm_compute. repeat split; auto; discriminate. Qed.

(* redirect-token-request-resent: 307/308 keep the POST body (the password grant) *)
Lemma token_post_resent : keeps_body 307 = true /\ keeps_body 308 = true /\ keeps_body 302 = false /\ keeps_body 303 = false.
Proof. vm_compute. auto. Qed.

(* same host string: always kept (sanity of the model) *)
Lemma same_host_keeps h : keeps_authorization h h = true.
Proof. unfold keeps_authorization, is_domain_or_subdomain. now rewrite str_eqb_refl. Qed.
