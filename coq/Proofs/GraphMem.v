(* Proofs/GraphMem.v -- lemmas about Model/GraphMem.v (graph.Memory).
   Self-contained (standard library only). *)
From Coq Require Import List NArith Bool Lia Permutation.
Import ListNotations.
From Oras Require Import Model.GraphMem.

(* ------------------------------------------------------------------ sets *)
Lemma smem_In x s : smem x s = true <-> In x s.
Proof.
  induction s as [|y r IH]; simpl.
  - split; [discriminate | tauto].
  - destruct (N.eqb_spec x y) as [->|Hne].
    + split; auto.
    + rewrite IH. split; [auto | intros [H|H]; [congruence | exact H]].
Qed.

Lemma smem_false x s : smem x s = false <-> ~ In x s.
Proof.
  rewrite <- smem_In. destruct (smem x s); split; intros; congruence.
Qed.

Lemma In_sadd y x s : In y (sadd x s) <-> y = x \/ In y s.
Proof.
  unfold sadd. destruct (smem x s) eqn:E; simpl.
  - apply smem_In in E. split; [auto | intros [->|H]; auto].
  - split; intros [H|H]; auto.
Qed.

Lemma NoDup_sadd x s : NoDup s -> NoDup (sadd x s).
Proof.
  intro H. unfold sadd. destruct (smem x s) eqn:E; auto.
  apply smem_false in E. constructor; auto.
Qed.

Lemma sadd_not_nil x s : sadd x s <> [].
Proof.
  intro H. assert (In x (sadd x s)) as HI by (apply In_sadd; auto).
  rewrite H in HI. destruct HI.
Qed.

Lemma In_sdel y x s : In y (sdel x s) <-> y <> x /\ In y s.
Proof.
  induction s as [|z r IH]; simpl.
  - tauto.
  - destruct (N.eqb_spec x z) as [->|Hne]; simpl; rewrite IH.
    + split; [intros [H1 H2]; auto | intros [H1 [H2|H2]]; [congruence | auto]].
    + split.
      * intros [->|[H1 H2]]; auto.
      * intros [H1 [H2|H2]]; auto.
Qed.

Lemma NoDup_sdel x s : NoDup s -> NoDup (sdel x s).
Proof.
  induction 1 as [|z r Hz Hr IH]; simpl; [constructor|].
  destruct (N.eqb_spec x z); auto.
  constructor; auto. rewrite In_sdel. tauto.
Qed.

Lemma sdel_idem x s : sdel x (sdel x s) = sdel x s.
Proof.
  induction s as [|z r IH]; simpl; auto.
  destruct (N.eqb_spec x z) as [->|Hne]; auto.
  simpl. destruct (N.eqb_spec x z); [congruence|]. now rewrite IH.
Qed.

Lemma sdel_nil x s : sdel x s = [] <-> forall p, In p s -> p = x.
Proof.
  split.
  - intros H p Hp. destruct (N.eq_dec p x) as [|Hne]; auto.
    assert (In p (sdel x s)) as HI by (apply In_sdel; auto).
    rewrite H in HI. destruct HI.
  - intro H. destruct (sdel x s) as [|z r] eqn:E; auto.
    assert (In z (sdel x s)) as HI by (rewrite E; simpl; auto).
    apply In_sdel in HI. destruct HI as [H1 H2]. apply H in H2. congruence.
Qed.

Lemma NoDup_snoc (l : list node) a : NoDup l -> ~ In a l -> NoDup (l ++ [a]).
Proof.
  induction 1 as [|z r Hz Hr IH]; intros Ha; simpl.
  - constructor; [tauto | constructor].
  - constructor.
    + rewrite in_app_iff. simpl. intros [H|[H|[]]]; [auto | subst; apply Ha; simpl; auto].
    + apply IH. intro H. apply Ha. simpl; auto.
Qed.

Lemma fold_sadd_In ss : forall acc x,
  In x (fold_left (fun acc s => sadd s acc) ss acc) <-> In x ss \/ In x acc.
Proof.
  induction ss as [|a r IH]; intros acc x; simpl.
  - tauto.
  - rewrite IH, In_sadd. split; intros H; intuition auto.
Qed.

Lemma fold_sadd_NoDup ss : forall acc, NoDup acc -> NoDup (fold_left (fun acc s => sadd s acc) ss acc).
Proof.
  induction ss as [|a r IH]; intros acc H; simpl; auto.
  apply IH, NoDup_sadd, H.
Qed.

(* ------------------------------------------------------------------ maps *)
Lemma aget_adel m k k' : aget (adel m k) k' = if N.eqb k' k then None else aget m k'.
Proof.
  induction m as [|[k0 v] r IH]; simpl.
  - destruct (N.eqb k' k); auto.
  - destruct (N.eqb_spec k k0) as [->|Hne]; simpl.
    + rewrite IH. destruct (N.eqb_spec k' k0); auto.
    + rewrite IH. destruct (N.eqb_spec k' k0) as [->|Hne2].
      * destruct (N.eqb_spec k0 k); [congruence | auto].
      * auto.
Qed.

Lemma aget_aset m k v k' : aget (aset m k v) k' = if N.eqb k' k then Some v else aget m k'.
Proof.
  unfold aset. simpl. destruct (N.eqb_spec k' k) as [->|Hne]; auto.
  rewrite aget_adel. destruct (N.eqb_spec k' k); [congruence | auto].
Qed.

Lemma getd_adel m k k' : getd (adel m k) k' = if N.eqb k' k then [] else getd m k'.
Proof. unfold getd. rewrite aget_adel. destruct (N.eqb k' k); auto. Qed.

Lemma getd_aset m k v k' : getd (aset m k v) k' = if N.eqb k' k then v else getd m k'.
Proof. unfold getd. rewrite aget_aset. destruct (N.eqb k' k); auto. Qed.

Definition wf_sets (m : amap) : Prop :=
  forall k ps, aget m k = Some ps -> ps <> [] /\ NoDup ps.

Lemma wf_sets_getd m k : wf_sets m -> NoDup (getd m k).
Proof.
  intro H. unfold getd. destruct (aget m k) eqn:E; [apply (H _ _ E) | constructor].
Qed.

(* ------------------------------------------------------------------ index *)
Lemma fold_add_pred_getd n ss : forall pm s p,
  In p (getd (fold_left (add_pred n) ss pm) s) <-> In p (getd pm s) \/ (p = n /\ In s ss).
Proof.
  induction ss as [|a r IH]; intros pm s p; simpl.
  - tauto.
  - rewrite IH. unfold add_pred. rewrite getd_aset.
    destruct (N.eqb_spec s a) as [->|Hne].
    + rewrite In_sadd. intuition auto.
    + intuition auto. congruence.
Qed.

Lemma fold_add_pred_wf n ss : forall pm, wf_sets pm -> wf_sets (fold_left (add_pred n) ss pm).
Proof.
  induction ss as [|a r IH]; intros pm H; simpl; auto.
  apply IH. intros k ps. unfold add_pred. rewrite aget_aset.
  destruct (N.eqb_spec k a) as [->|Hne].
  - intros E. inversion E; subst. split; [apply sadd_not_nil | apply NoDup_sadd, wf_sets_getd, H].
  - apply H.
Qed.

(* ------------------------------------------------------------------ Remove *)
Lemma rm_step_getd nodes n pm dang a s :
  getd (fst (rm_step nodes n (pm, dang) a)) s = if N.eqb s a then sdel n (getd pm a) else getd pm s.
Proof.
  unfold rm_step. destruct (sdel n (getd pm a)) as [|x l] eqn:E; simpl.
  - rewrite getd_adel. destruct (N.eqb s a); auto.
  - rewrite getd_aset. destruct (N.eqb s a); auto.
Qed.

Lemma rm_step_wf nodes n pm dang a :
  wf_sets pm -> wf_sets (fst (rm_step nodes n (pm, dang) a)).
Proof.
  intros H k ps. unfold rm_step.
  destruct (sdel n (getd pm a)) as [|x l] eqn:E; cbn [fst snd].
  - rewrite aget_adel. destruct (N.eqb k a); [discriminate | apply H].
  - rewrite aget_aset. destruct (N.eqb k a); [|apply H].
    intro E2. inversion E2; subst. split; [discriminate|].
    rewrite <- E. apply NoDup_sdel, wf_sets_getd, H.
Qed.

Lemma rm_step_dang nodes n pm dang a d :
  In d (snd (rm_step nodes n (pm, dang) a)) <->
  In d dang \/ (d = a /\ sdel n (getd pm a) = [] /\ In a nodes).
Proof.
  unfold rm_step. destruct (sdel n (getd pm a)) as [|x l] eqn:E; simpl.
  - destruct (smem a nodes) eqn:M.
    + apply smem_In in M. rewrite in_app_iff. simpl. intuition auto.
    + apply smem_false in M. intuition auto.
  - intuition auto. discriminate.
Qed.

Lemma rm_fold_getd nodes n order : forall pm dang s,
  getd (fst (fold_left (rm_step nodes n) order (pm, dang))) s =
  if smem s order then sdel n (getd pm s) else getd pm s.
Proof.
  induction order as [|a r IH]; intros pm dang s; cbn [fold_left smem fst]; auto.
  destruct (rm_step nodes n (pm, dang) a) as [pm1 dang1] eqn:E.
  rewrite IH.
  assert (forall t, getd pm1 t = if N.eqb t a then sdel n (getd pm a) else getd pm t) as H1.
  { intro t. rewrite <- (rm_step_getd nodes n pm dang a t). now rewrite E. }
  rewrite H1. destruct (N.eqb_spec s a) as [->|Hne].
  - rewrite sdel_idem. destruct (smem a r); auto.
  - auto.
Qed.

Lemma rm_fold_wf nodes n order : forall pm dang,
  wf_sets pm -> wf_sets (fst (fold_left (rm_step nodes n) order (pm, dang))).
Proof.
  induction order as [|a r IH]; intros pm dang H; cbn [fold_left fst]; auto.
  destruct (rm_step nodes n (pm, dang) a) as [pm1 dang1] eqn:E.
  apply IH. change pm1 with (fst (pm1, dang1)). rewrite <- E. now apply rm_step_wf.
Qed.

Lemma rm_fold_dang nodes n order : forall pm dang d,
  In d (snd (fold_left (rm_step nodes n) order (pm, dang))) <->
  In d dang \/ (In d order /\ sdel n (getd pm d) = [] /\ In d nodes).
Proof.
  induction order as [|a r IH]; intros pm dang d; cbn [fold_left snd In].
  - tauto.
  - destruct (rm_step nodes n (pm, dang) a) as [pm1 dang1] eqn:E.
    rewrite IH.
    assert (getd pm1 d = if N.eqb d a then sdel n (getd pm a) else getd pm d) as H1.
    { rewrite <- (rm_step_getd nodes n pm dang a d). now rewrite E. }
    assert (In d dang1 <-> In d dang \/ (d = a /\ sdel n (getd pm a) = [] /\ In a nodes)) as H2.
    { rewrite <- (rm_step_dang nodes n pm dang a d). now rewrite E. }
    assert (sdel n (getd pm1 d) = sdel n (getd pm d)) as H3.
    { rewrite H1. destruct (N.eqb_spec d a) as [->|]; auto using sdel_idem. }
    rewrite H2, H3. split.
    + intros [[H|[-> [Ha Hb]]]|[Ha [Hb Hc]]]; auto.
    + intros [H|[[ <- | Ha ] [Hb Hc]]]; auto.
Qed.

Lemma rm_fold_dang_nodup nodes n order : forall pm dang,
  NoDup order -> NoDup dang -> (forall d, In d dang -> ~ In d order) ->
  NoDup (snd (fold_left (rm_step nodes n) order (pm, dang))).
Proof.
  induction order as [|a r IH]; intros pm dang Ho Hd Hdis; cbn [fold_left snd]; auto.
  destruct (rm_step nodes n (pm, dang) a) as [pm1 dang1] eqn:E.
  inversion Ho as [|? ? Ha Hr]; subst.
  assert (forall d, In d dang1 -> In d dang \/ d = a) as H2.
  { intros d Hd1. change dang1 with (snd (pm1, dang1)) in Hd1. rewrite <- E in Hd1.
    apply rm_step_dang in Hd1. tauto. }
  assert (NoDup dang1) as H3.
  { assert (dang1 = snd (rm_step nodes n (pm, dang) a)) as -> by now rewrite E.
    unfold rm_step. destruct (sdel n (getd pm a)); simpl; auto.
    destruct (smem a nodes); auto.
    apply NoDup_snoc; auto. intros Hin. apply (Hdis a Hin). simpl; auto. }
  apply IH; auto.
  intros d Hd1 Hin. destruct (H2 d Hd1) as [H | ->]; auto.
  apply (Hdis d H). simpl; auto.
Qed.

(* ------------------------------------------------------------------ the invariant *)
Section WithContent.
Variable content : node -> list node.

(* The three comment blocks of graph.Memory (memory.go:33-58), plus the
   representation facts (sets have no duplicates, no empty predecessor entry). *)
Record Inv (g : graph) : Prop := mkInv {
  inv_nodes_nodup : NoDup (g_nodes g);
  (* successors.1: a node is in Memory.successors iff it is in the memory *)
  inv_succ_dom : forall p, In p (g_nodes g) <-> aget (g_succs g) p <> None;
  (* successors.2: the entry is the actual content of the node *)
  inv_succ_val : forall p ss, aget (g_succs g) p = Some ss ->
                   NoDup ss /\ forall s, In s ss <-> In s (content p);
  (* predecessors.2: no entry for a node without predecessor in the memory *)
  inv_pred_wf : wf_sets (g_preds g);
  (* predecessors.1: entry = the predecessors that are in the memory, whether or not
     the node itself is *)
  inv_pred_mem : forall n p, In p (getd (g_preds g) n) <-> In p (g_nodes g) /\ In n (content p)
}.

Lemma Inv_empty : Inv empty_graph.
Proof.
  constructor; simpl.
  - constructor.
  - intros p. split; [tauto | intros H; now apply H].
  - discriminate.
  - intros k ps. discriminate.
  - intros n p. unfold getd. simpl. tauto.
Qed.

Lemma succs_getd_in g n : Inv g -> In n (g_nodes g) ->
  forall s, In s (getd (g_succs g) n) <-> In s (content n).
Proof.
  intros HI Hn s. unfold getd.
  destruct (aget (g_succs g) n) as [ss|] eqn:E.
  - apply (inv_succ_val g HI n ss E).
  - exfalso. apply (inv_succ_dom g HI n) in Hn. auto.
Qed.

Lemma succs_getd_out g n : Inv g -> ~ In n (g_nodes g) -> getd (g_succs g) n = [].
Proof.
  intros HI Hn. unfold getd.
  destruct (aget (g_succs g) n) as [ss|] eqn:E; auto.
  exfalso. apply Hn, (inv_succ_dom g HI n). congruence.
Qed.

Lemma index_nodes g n ss x : In x (g_nodes (index g n ss)) <-> x = n \/ In x (g_nodes g).
Proof. unfold index. simpl. apply In_sadd. Qed.

Lemma index_Inv g n : Inv g -> Inv (index g n (content n)).
Proof.
  intros HI. constructor.
  - simpl. apply NoDup_sadd, HI.
  - intros p. unfold index; cbn [g_nodes g_preds g_succs]. rewrite aget_aset, In_sadd.
    destruct (N.eqb_spec p n) as [->|Hne].
    + split; [discriminate | auto].
    + rewrite (inv_succ_dom g HI p). split; [intros [H|H]; [congruence|auto] | auto].
  - intros p ss. unfold index; cbn [g_nodes g_preds g_succs]. rewrite aget_aset.
    destruct (N.eqb_spec p n) as [->|Hne].
    + intros E. inversion E; subst. split.
      * apply fold_sadd_NoDup. constructor.
      * intros s. rewrite fold_sadd_In. simpl. tauto.
    + apply (inv_succ_val g HI).
  - simpl. apply fold_add_pred_wf, HI.
  - intros m p. simpl. rewrite fold_add_pred_getd, In_sadd, (inv_pred_mem g HI).
    split.
    + intros [[H1 H2]|[-> H]]; auto.
    + intros [[->|H1] H2]; auto.
Qed.

(* ---- Remove ---- *)
Lemma remove_ord_nodes g n order x :
  In x (g_nodes (fst (remove_ord g n order))) <-> x <> n /\ In x (g_nodes g).
Proof.
  unfold remove_ord.
  destruct (fold_left (rm_step (g_nodes g) n) order (g_preds g, [])) as [pm dang].
  simpl. apply In_sdel.
Qed.

Lemma remove_ord_Inv g n order :
  Inv g -> (forall s, In s order <-> In s (getd (g_succs g) n)) ->
  Inv (fst (remove_ord g n order)).
Proof.
  intros HI Hord. unfold remove_ord.
  destruct (fold_left (rm_step (g_nodes g) n) order (g_preds g, [])) as [pm dang] eqn:E.
  assert (forall s, getd pm s = if smem s order then sdel n (getd (g_preds g) s) else getd (g_preds g) s) as Hpm.
  { intro s. rewrite <- (rm_fold_getd (g_nodes g) n order (g_preds g) [] s). now rewrite E. }
  assert (wf_sets pm) as Hwf.
  { change pm with (fst (pm, dang)). rewrite <- E. apply rm_fold_wf, HI. }
  constructor; cbn [fst g_nodes g_preds g_succs].
  - apply NoDup_sdel, HI.
  - intros p. rewrite aget_adel, In_sdel.
    destruct (N.eqb_spec p n) as [->|Hne].
    + split; [intros [H _]; congruence | congruence].
    + rewrite (inv_succ_dom g HI p). tauto.
  - intros p ss. rewrite aget_adel. destruct (N.eqb p n); [discriminate | apply (inv_succ_val g HI)].
  - exact Hwf.
  - intros m p. rewrite Hpm, In_sdel.
    destruct (smem m order) eqn:M.
    + rewrite In_sdel, (inv_pred_mem g HI). tauto.
    + rewrite (inv_pred_mem g HI). split; [|tauto].
      intros [H1 H2]. split; auto. split; auto.
      intros ->. apply smem_false in M. apply M, Hord.
      apply (succs_getd_in g n HI H1). exact H2.
Qed.

Lemma remove_Inv g n : Inv g -> Inv (fst (remove g n)).
Proof. intro HI. apply remove_ord_Inv; auto. tauto. Qed.

Lemma remove_ord_danglings g n order :
  Inv g -> (forall s, In s order <-> In s (getd (g_succs g) n)) ->
  forall d, In d (snd (remove_ord g n order)) <->
            (In n (g_nodes g) /\ In d (content n) /\ In d (g_nodes g) /\
             forall p, In p (g_nodes g) -> In d (content p) -> p = n).
Proof.
  intros HI Hord d. unfold remove_ord.
  destruct (fold_left (rm_step (g_nodes g) n) order (g_preds g, [])) as [pm dang] eqn:E.
  cbn [snd].
  assert (In d dang <-> In d [] \/ (In d order /\ sdel n (getd (g_preds g) d) = [] /\ In d (g_nodes g))) as H.
  { rewrite <- (rm_fold_dang (g_nodes g) n order (g_preds g) [] d). now rewrite E. }
  rewrite H, sdel_nil, Hord. simpl.
  split.
  - intros [[]|[H1 [H2 H3]]].
    assert (In n (g_nodes g)) as Hn.
    { destruct (in_dec N.eq_dec n (g_nodes g)) as [|Hn]; auto.
      rewrite (succs_getd_out g n HI Hn) in H1. destruct H1. }
    split; auto. split; [apply (succs_getd_in g n HI Hn), H1|]. split; auto.
    intros p Hp Hd. apply H2, (inv_pred_mem g HI). auto.
  - intros [Hn [Hd [Hdn Hall]]]. right. split; [apply (succs_getd_in g n HI Hn), Hd|].
    split; auto. intros p Hp. apply (inv_pred_mem g HI) in Hp. destruct Hp. auto.
Qed.

Lemma remove_ord_danglings_nodup g n order :
  NoDup order -> NoDup (snd (remove_ord g n order)).
Proof.
  intros Ho. unfold remove_ord.
  destruct (fold_left (rm_step (g_nodes g) n) order (g_preds g, [])) as [pm dang] eqn:E.
  assert (dang = snd (fold_left (rm_step (g_nodes g) n) order (g_preds g, []))) as Hd
    by (rewrite E; reflexivity).
  simpl. rewrite Hd.
  apply rm_fold_dang_nodup; [exact Ho | constructor | intros d []].
Qed.

(* ---- exactness of Predecessors under the invariant ---- *)
Lemma predecessors_exact g : Inv g -> forall n,
  NoDup (predecessors g n) /\
  forall p, In p (predecessors g n) <-> In p (g_nodes g) /\ In n (content p).
Proof.
  intros HI n. unfold predecessors. split.
  - apply wf_sets_getd, HI.
  - apply (inv_pred_mem g HI).
Qed.

Lemma predecessors_raw_some g : Inv g -> forall n,
  predecessors_raw g n = map Some (predecessors g n).
Proof.
  intros HI n. unfold predecessors_raw. apply map_ext_in. intros k Hk.
  apply (predecessors_exact g HI n) in Hk. destruct Hk as [Hk _].
  apply smem_In in Hk. now rewrite Hk.
Qed.

(* ---- IndexAll ---- *)
Section WithSok.
Variable sok : node -> bool.

Lemma index_all_Inv fuel : forall work visited g,
  Inv g -> Inv (fst (fst (index_all content sok fuel work visited g))).
Proof.
  induction fuel as [|f IH]; intros work visited g HI; simpl; auto.
  destruct work as [|d rest]; auto.
  destruct (smem d visited); auto.
  destruct (sok d); auto.
  apply IH, index_Inv, HI.
Qed.

(* [pre w x]: x is reached from w through nodes whose Successors succeed
   (x itself may fail) *)
Inductive pre (w : node) : node -> Prop :=
| pre_refl : pre w w
| pre_step : forall p c, pre w p -> sok p = true -> In c (content p) -> pre w c.

Lemma pre_prepend d w x : sok d = true -> In w (content d) -> pre w x -> pre d x.
Proof.
  intros Hd Hw H. induction H as [|p c Hp IH Hs Hc].
  - eapply pre_step; [apply pre_refl | exact Hd | exact Hw].
  - eapply pre_step; eauto.
Qed.

(* the nodes IndexAll indexes from a root *)
Definition areach (r x : node) : Prop := pre r x /\ sok x = true.

Ltac spec_base :=
  split; [apply incl_refl|]; split; [intros ? []|];
  split; [intros ? ? ?; contradiction|]; split; [intros ? ? ?; contradiction|];
  intros ?; split; [auto | intros [?|(? & ? & _)]; [auto | contradiction]].

Lemma index_all_spec fuel : forall work visited g g' visited',
  index_all content sok fuel work visited g = (g', visited', true) ->
  incl visited visited' /\
  (forall w, In w work -> In w visited') /\
  (forall p, In p visited' -> ~ In p visited -> sok p = true ->
             forall c, In c (content p) -> In c visited') /\
  (forall x, In x visited' -> ~ In x visited -> exists w, In w work /\ pre w x) /\
  (forall x, In x (g_nodes g') <->
             In x (g_nodes g) \/ (In x visited' /\ ~ In x visited /\ sok x = true)).
Proof.
  induction fuel as [|f IH]; intros work visited g g' visited' H; simpl in H.
  - destruct work; [|inversion H]. inversion H; subst. spec_base.
  - destruct work as [|d rest].
    { inversion H; subst. spec_base. }
    destruct (smem d visited) eqn:M.
    { apply smem_In in M. apply IH in H. destruct H as (H1 & H2 & H3 & H4 & H5).
      repeat split; auto.
      - intros w [<-|Hw]; auto.
      - intros x Hx Hn. destruct (H4 x Hx Hn) as (w & Hw & Hp). exists w. simpl; auto.
      - apply H5.
      - apply H5. }
    apply smem_false in M.
    destruct (sok d) eqn:S.
    + apply IH in H. destruct H as (H1 & H2 & H3 & H4 & H5).
      assert (In d visited') as Hd by (apply H1; simpl; auto).
      repeat split.
      * intros x Hx. apply H1. simpl; auto.
      * intros w [<-|Hw]; auto. apply H2, in_app_iff; auto.
      * intros p Hp Hnv Hs c Hc. destruct (N.eq_dec p d) as [->|Hne].
        -- apply H2, in_app_iff; auto.
        -- apply (H3 p Hp); auto. simpl. intros [E|E]; [congruence | auto].
      * intros x Hx Hnv. destruct (N.eq_dec x d) as [->|Hne].
        -- exists d. split; [simpl; auto | apply pre_refl].
        -- destruct (H4 x Hx) as (w & Hw & Hp).
           { simpl. intros [E|E]; [congruence | auto]. }
           apply in_app_iff in Hw. destruct Hw as [Hw|Hw].
           ++ exists d. split; [simpl; auto | eapply pre_prepend; eauto].
           ++ exists w. split; [simpl; auto | auto].
      * intros Hx. apply H5 in Hx. rewrite index_nodes in Hx.
        destruct Hx as [[->|Hx]|(Ha & Hb & Hc)]; auto.
        right. repeat split; auto. intro Hv. apply Hb. simpl; auto.
      * intros Hx. apply H5. rewrite index_nodes.
        destruct Hx as [Hx|(Ha & Hb & Hc)]; auto.
        destruct (N.eq_dec x d) as [->|Hne]; auto.
        right. repeat split; auto. simpl. intros [E|E]; [congruence | auto].
    + apply IH in H. destruct H as (H1 & H2 & H3 & H4 & H5).
      assert (In d visited') as Hd by (apply H1; simpl; auto).
      repeat split.
      * intros x Hx. apply H1. simpl; auto.
      * intros w [<-|Hw]; auto.
      * intros p Hp Hnv Hs c Hc. apply (H3 p Hp); auto.
        simpl. intros [E|E]; [congruence | auto].
      * intros x Hx Hnv. destruct (N.eq_dec x d) as [->|Hne].
        -- exists d. split; [simpl; auto | apply pre_refl].
        -- destruct (H4 x Hx) as (w & Hw & Hp).
           { simpl. intros [E|E]; [congruence | auto]. }
           exists w. split; [simpl; auto | auto].
      * intros Hx. apply H5 in Hx.
        destruct Hx as [Hx|(Ha & Hb & Hc)]; auto.
        right. repeat split; auto. intro Hv. apply Hb. simpl; auto.
      * intros Hx. apply H5.
        destruct Hx as [Hx|(Ha & Hb & Hc)]; auto.
        right. repeat split; auto. simpl. intros [E|E]; [congruence | auto].
Qed.

(* IndexAll from one root adds exactly the nodes reachable through fetchable nodes *)
Lemma index_all_root_nodes fuel g r g' :
  index_all_root content sok fuel g r = (g', true) ->
  forall x, In x (g_nodes g') <-> In x (g_nodes g) \/ areach r x.
Proof.
  unfold index_all_root. intros H x.
  destruct (index_all content sok fuel [r] [] g) as [[g1 v1] ok] eqn:E.
  inversion H; subst.
  apply index_all_spec in E. destruct E as (H1 & H2 & H3 & H4 & H5).
  rewrite H5. unfold areach.
  assert (forall y, pre r y -> In y v1) as Hcomp.
  { intros y Hy. induction Hy as [|p c Hp IH Hs Hc].
    - apply H2. simpl; auto.
    - apply (H3 p IH (fun F => F) Hs c Hc). }
  split.
  - intros [Hx|(Ha & _ & Hc)]; auto. right. split; auto.
    destruct (H4 x Ha (fun F => F)) as (w & [<-|[]] & Hp). exact Hp.
  - intros [Hx|[Hp Hs]]; [auto|]. right. split; [apply Hcomp, Hp|]. split; [intros []|exact Hs].
Qed.

Lemma index_all_root_Inv fuel g r : Inv g -> Inv (fst (index_all_root content sok fuel g r)).
Proof.
  intro HI. unfold index_all_root.
  pose proof (index_all_Inv fuel [r] [] g HI) as H.
  destruct (index_all content sok fuel [r] [] g) as [[g1 v1] ok]. exact H.
Qed.

Lemma load_from_Inv fuel roots : forall g, Inv g -> Inv (fst (load_from content sok fuel g roots)).
Proof.
  induction roots as [|r rs IH]; intros g HI; simpl; auto.
  pose proof (index_all_root_Inv fuel g r HI) as H1.
  destruct (index_all_root content sok fuel g r) as [g1 ok1]. simpl in H1.
  specialize (IH g1 H1).
  destruct (load_from content sok fuel g1 rs) as [g2 ok2]. exact IH.
Qed.

Lemma load_from_nodes fuel roots : forall g g',
  load_from content sok fuel g roots = (g', true) ->
  forall x, In x (g_nodes g') <-> In x (g_nodes g) \/ exists r, In r roots /\ areach r x.
Proof.
  induction roots as [|r rs IH]; intros g g' H x; simpl in H.
  - inversion H; subst. split; [auto | intros [H1|(r & [] & _)]; auto].
  - destruct (index_all_root content sok fuel g r) as [g1 ok1] eqn:E1.
    destruct (load_from content sok fuel g1 rs) as [g2 ok2] eqn:E2.
    inversion H; subst. apply andb_true_iff in H2. destruct H2 as [-> ->].
    rewrite (IH g1 g' E2 x), (index_all_root_nodes fuel g r g1 E1 x).
    split.
    + intros [[H1|H1]|(r' & Hr & Ha)]; auto.
      * right. exists r. simpl; auto.
      * right. exists r'. simpl; auto.
    + intros [H1|(r' & [<-|Hr] & Ha)]; auto.
      right. exists r'. auto.
Qed.
End WithSok.
End WithContent.

(* ------------------------------------------------------------------ histories *)
Lemma step_Inv ct fuel s o :
  Inv (ctab ct) (s_g s) -> Inv (ctab ct) (s_g (fst (step ct fuel s o))).
Proof.
  intro HI. unfold step. destruct o.
  - unfold op_index. destruct (smem n (s_sok s)); simpl; auto. apply index_Inv, HI.
  - pose proof (remove_Inv (ctab ct) (s_g s) n HI) as H.
    destruct (remove (s_g s) n) as [g d]. exact H.
  - pose proof (index_all_root_Inv (ctab ct) (fun x => smem x (s_sok s)) fuel (s_g s) n HI) as H.
    destruct (index_all_root (ctab ct) (fun x => smem x (s_sok s)) fuel (s_g s) n) as [g ok]. exact H.
  - exact HI.
  - exact HI.
  - exact HI.
  - apply Inv_empty.
Qed.

Lemma run_Inv ct fuel ops : forall s,
  Inv (ctab ct) (s_g s) -> Inv (ctab ct) (s_g (fst (run ct fuel s ops))).
Proof.
  induction ops as [|o r IH]; intros s HI; simpl; auto.
  pose proof (step_Inv ct fuel s o HI) as H.
  destruct (step ct fuel s o) as [s1 x]. simpl in H.
  specialize (IH s1 H). destruct (run ct fuel s1 r) as [s2 xs]. exact IH.
Qed.

Lemma history_inv ct fuel ops : Inv (ctab ct) (s_g (fst (run ct fuel init_state ops))).
Proof. apply run_Inv. apply Inv_empty. Qed.

Lemma history_query ct fuel ops n :
  let g := s_g (fst (run ct fuel init_state ops)) in
  predecessors_raw g n = map Some (predecessors g n) /\
  NoDup (predecessors g n) /\
  forall p, In p (predecessors g n) <-> In p (g_nodes g) /\ In n (ctab ct p).
Proof.
  intro g. pose proof (history_inv ct fuel ops) as HI. fold g in HI.
  split; [apply (predecessors_raw_some _ g HI)|]. apply (predecessors_exact _ g HI).
Qed.

(* ---- store-level histories: Push = index, Delete = Remove ---- *)
Inductive sop := SPush (n : node) | SDelete (n : node).

Definition sop_apply (content : node -> list node) (g : graph) (o : sop) : graph :=
  match o with SPush n => index g n (content n) | SDelete n => fst (remove g n) end.

(* what the store holds after the history (the specification side) *)
Definition sop_set (l : list node) (o : sop) : list node :=
  match o with SPush n => sadd n l | SDelete n => sdel n l end.
Definition stored_after (ops : list sop) : list node := fold_left sop_set ops [].

Lemma stored_after_snoc ops o x :
  In x (stored_after (ops ++ [o])) <->
  match o with
  | SPush n => x = n \/ In x (stored_after ops)
  | SDelete n => x <> n /\ In x (stored_after ops)
  end.
Proof.
  unfold stored_after. rewrite fold_left_app. simpl.
  destruct o; simpl; [apply In_sadd | apply In_sdel].
Qed.

Lemma remove_ord_nodes_eq g n order : g_nodes (fst (remove_ord g n order)) = sdel n (g_nodes g).
Proof.
  unfold remove_ord.
  destruct (fold_left (rm_step (g_nodes g) n) order (g_preds g, [])) as [pm dang]. reflexivity.
Qed.

Lemma sops_nodes content ops : forall g,
  g_nodes (fold_left (sop_apply content) ops g) = fold_left sop_set ops (g_nodes g).
Proof.
  induction ops as [|o r IH]; intros g; simpl; auto.
  rewrite IH. f_equal. destruct o; simpl; auto. apply remove_ord_nodes_eq.
Qed.

Lemma sops_Inv content ops : forall g, Inv content g -> Inv content (fold_left (sop_apply content) ops g).
Proof.
  induction ops as [|o r IH]; intros g HI; simpl; auto.
  apply IH. destruct o; simpl; [apply index_Inv | apply remove_Inv]; auto.
Qed.

Lemma push_delete_exact content ops n :
  let g := fold_left (sop_apply content) ops empty_graph in
  NoDup (predecessors g n) /\
  forall p, In p (predecessors g n) <-> In p (stored_after ops) /\ In n (content p).
Proof.
  intro g.
  assert (Inv content g) as HI by (apply sops_Inv, Inv_empty).
  assert (g_nodes g = stored_after ops) as Hn by (apply sops_nodes).
  rewrite <- Hn. apply (predecessors_exact content g HI).
Qed.

(* ---- order independence ---- *)
Definition pushes (content : node -> list node) (l : list node) : graph :=
  fold_left (fun g n => index g n (content n)) l empty_graph.

Lemma pushes_nodes content l : forall g x,
  In x (g_nodes (fold_left (fun g n => index g n (content n)) l g)) <-> In x l \/ In x (g_nodes g).
Proof.
  induction l as [|a r IH]; intros g x; simpl.
  - tauto.
  - rewrite IH, index_nodes. intuition auto.
Qed.

Lemma pushes_Inv content l : forall g, Inv content g ->
  Inv content (fold_left (fun g n => index g n (content n)) l g).
Proof.
  induction l as [|a r IH]; intros g HI; simpl; auto. apply IH, index_Inv, HI.
Qed.

Lemma same_nodes_same_preds content g1 g2 :
  Inv content g1 -> Inv content g2 ->
  (forall x, In x (g_nodes g1) <-> In x (g_nodes g2)) ->
  forall n, Permutation (predecessors g1 n) (predecessors g2 n).
Proof.
  intros H1 H2 Hn n.
  destruct (predecessors_exact content g1 H1 n) as [Hd1 Hm1].
  destruct (predecessors_exact content g2 H2 n) as [Hd2 Hm2].
  apply NoDup_Permutation; auto.
  intro p. rewrite Hm1, Hm2, Hn. tauto.
Qed.

Lemma push_order_independent content l1 l2 :
  Permutation l1 l2 ->
  (forall x, In x (g_nodes (pushes content l1)) <-> In x (g_nodes (pushes content l2))) /\
  forall n, Permutation (predecessors (pushes content l1) n) (predecessors (pushes content l2) n).
Proof.
  intro HP.
  assert (forall x, In x (g_nodes (pushes content l1)) <-> In x (g_nodes (pushes content l2))) as Hn.
  { intro x. unfold pushes. rewrite !pushes_nodes. simpl.
    split; intros [H|[]]; left; [apply (Permutation_in _ HP H) | apply (Permutation_in _ (Permutation_sym HP) H)]. }
  split; auto.
  apply (same_nodes_same_preds content); auto; apply pushes_Inv, Inv_empty.
Qed.

(* ---- Remove: the map iteration order is irrelevant ---- *)
Lemma remove_order_irrelevant content g n o1 o2 :
  Inv content g ->
  Permutation o1 (getd (g_succs g) n) -> Permutation o2 (getd (g_succs g) n) ->
  (forall x, In x (g_nodes (fst (remove_ord g n o1))) <-> In x (g_nodes (fst (remove_ord g n o2)))) /\
  (forall m, Permutation (predecessors (fst (remove_ord g n o1)) m)
                         (predecessors (fst (remove_ord g n o2)) m)) /\
  Permutation (snd (remove_ord g n o1)) (snd (remove_ord g n o2)).
Proof.
  intros HI P1 P2.
  assert (forall o, Permutation o (getd (g_succs g) n) ->
                    forall s, In s o <-> In s (getd (g_succs g) n)) as Hmem.
  { intros o P s. split; [apply Permutation_in, P | apply Permutation_in, Permutation_sym, P]. }
  assert (NoDup (getd (g_succs g) n)) as Hnd.
  { unfold getd. destruct (aget (g_succs g) n) eqn:E; [apply (inv_succ_val content g HI n l E) | constructor]. }
  assert (forall x, In x (g_nodes (fst (remove_ord g n o1))) <-> In x (g_nodes (fst (remove_ord g n o2)))) as Hn.
  { intro x. rewrite !remove_ord_nodes_eq. tauto. }
  split; auto. split.
  - apply (same_nodes_same_preds content); auto; apply remove_ord_Inv; auto.
  - apply NoDup_Permutation.
    + apply remove_ord_danglings_nodup. eapply Permutation_NoDup; [apply Permutation_sym, P1 | exact Hnd].
    + apply remove_ord_danglings_nodup. eapply Permutation_NoDup; [apply Permutation_sym, P2 | exact Hnd].
    + intro d. rewrite (remove_ord_danglings content g n o1 HI (Hmem o1 P1)),
                       (remove_ord_danglings content g n o2 HI (Hmem o2 P2)). tauto.
Qed.

(* ---- reload (loadIndex) and gcIndex: a fresh graph, IndexAll per root ---- *)
Lemma load_Inv content sok fuel roots : Inv content (fst (load content sok fuel roots)).
Proof. apply load_from_Inv, Inv_empty. Qed.

Lemma load_exact content sok fuel roots g' :
  load content sok fuel roots = (g', true) ->
  (forall x, In x (g_nodes g') <-> exists r, In r roots /\ areach content sok r x) /\
  forall n, NoDup (predecessors g' n) /\
            forall p, In p (predecessors g' n) <->
                      (exists r, In r roots /\ areach content sok r p) /\ In n (content p).
Proof.
  intro H.
  assert (Inv content g') as HI.
  { pose proof (load_Inv content sok fuel roots) as H1. rewrite H in H1. exact H1. }
  assert (forall x, In x (g_nodes g') <-> exists r, In r roots /\ areach content sok r x) as Hn.
  { intro x. unfold load in H. rewrite (load_from_nodes content sok fuel roots empty_graph g' H x).
    simpl. tauto. }
  split; auto. intro n.
  destruct (predecessors_exact content g' HI n) as [Hd Hm]. split; auto.
  intro p. rewrite Hm, Hn. tauto.
Qed.

(* The live graph and the reloaded graph answer every Predecessors query alike when
   (a) Successors succeeds for everything in the live graph, (b) every manifest whose
   Successors succeeds is in the live graph (storage = graph), and (c) every live
   node with successors is a root (OCI: every stored manifest is tagged by digest,
   hence listed in index.json). *)
Lemma reload_equiv content sok fuel roots g g' :
  Inv content g ->
  (forall p, In p (g_nodes g) -> sok p = true) ->
  (forall p, sok p = true -> content p <> [] -> In p (g_nodes g)) ->
  (forall p, In p (g_nodes g) -> content p <> [] -> In p roots) ->
  load content sok fuel roots = (g', true) ->
  forall n, Permutation (predecessors g' n) (predecessors g n).
Proof.
  intros HI Ha Hb Hc HL n.
  destruct (load_exact content sok fuel roots g' HL) as [_ Hx].
  destruct (Hx n) as [Hd' Hm']. destruct (predecessors_exact content g HI n) as [Hd Hm].
  apply NoDup_Permutation; auto.
  intro p. rewrite Hm', Hm. split.
  - intros [(r & Hr & Hp & Hs) Hn]. split; auto. apply Hb; auto.
    intro E. rewrite E in Hn. destruct Hn.
  - intros [Hp Hn]. split; auto. exists p.
    assert (content p <> []) as Hne by (intro E; rewrite E in Hn; destruct Hn).
    split; [apply Hc; auto|]. split; [apply pre_refl | apply Ha, Hp].
Qed.

(* ---- packaged statements used by Properties/C07.v ---- *)
Lemma exact_full :
  forall (content : node -> list node) (g : graph), Inv content g ->
  forall n,
    NoDup (predecessors g n) /\
    (forall p, In p (predecessors g n) <-> In p (g_nodes g) /\ In n (content p)) /\
    predecessors_raw g n = map Some (predecessors g n).
Proof.
  intros content g HI n. destruct (predecessors_exact content g HI n) as [H1 H2].
  split; auto. split; auto. apply (predecessors_raw_some content g HI n).
Qed.

Lemma remove_danglings_full :
  forall (content : node -> list node) (g : graph) (n : node) (order : list node),
    Inv content g -> Permutation order (getd (g_succs g) n) ->
    Inv content (fst (remove_ord g n order)) /\
    NoDup (snd (remove_ord g n order)) /\
    forall d, In d (snd (remove_ord g n order)) <->
              (In n (g_nodes g) /\ In d (content n) /\ In d (g_nodes g) /\
               forall p, In p (g_nodes g) -> In d (content p) -> p = n).
Proof.
  intros content g n order HI P.
  assert (forall s, In s order <-> In s (getd (g_succs g) n)) as Hm.
  { intro s. split; [apply Permutation_in, P | apply Permutation_in, Permutation_sym, P]. }
  split; [exact (remove_ord_Inv content g n order HI Hm)|].
  split; [|exact (remove_ord_danglings content g n order HI Hm)].
  apply remove_ord_danglings_nodup. eapply Permutation_NoDup; [apply Permutation_sym, P|].
  unfold getd. destruct (aget (g_succs g) n) eqn:E; [apply (inv_succ_val content g HI n l E) | constructor].
Qed.

(* ------------------------------------------------------------------ fuel: IndexAll terminates *)
Section Fuel.
Variable content : node -> list node.
Variable sok : node -> bool.

Definition cost (x : node) : nat := S (length (content x)).
Fixpoint pot (U visited : list node) : nat :=
  match U with
  | [] => 0
  | u :: r => (if smem u visited then 0 else cost u) + pot r visited
  end.

Lemma pot_mono U d visited : pot U (d :: visited) <= pot U visited.
Proof.
  induction U as [|u r IH]; simpl; auto.
  destruct (N.eqb u d); [lia|]. destruct (smem u visited); lia.
Qed.

Lemma pot_visit U d visited :
  In d U -> smem d visited = false -> pot U (d :: visited) + cost d <= pot U visited.
Proof.
  induction U as [|u r IH]; intros Hin Hd; simpl; [destruct Hin|].
  destruct (N.eqb_spec u d) as [->|Hne].
  - rewrite Hd. pose proof (pot_mono r d visited). lia.
  - destruct Hin as [E|Hin]; [congruence|]. specialize (IH Hin Hd).
    destruct (smem u visited); lia.
Qed.

Lemma index_all_fuel U :
  (forall u, In u U -> forall c, In c (content u) -> In c U) ->
  forall fuel work visited g,
    (forall w, In w work -> In w U) ->
    length work + pot U visited < fuel ->
    snd (index_all content sok fuel work visited g) = true.
Proof.
  intros Hclosed. induction fuel as [|f IH]; intros work visited g Hw Hlt; [lia|].
  simpl. destruct work as [|d rest]; auto.
  simpl in Hlt.
  assert (forall w, In w rest -> In w U) as Hrest by (intros w H; apply Hw; simpl; auto).
  assert (In d U) as Hd by (apply Hw; simpl; auto).
  destruct (smem d visited) eqn:M.
  - apply IH; auto. lia.
  - pose proof (pot_visit U d visited Hd M) as Hp. unfold cost in Hp.
    destruct (sok d).
    + apply IH.
      * intros w H. apply in_app_iff in H. destruct H as [H|H]; auto. apply (Hclosed d Hd w H).
      * rewrite app_length. lia.
    + apply IH; auto. lia.
Qed.

Lemma load_from_fuel U fuel :
  (forall u, In u U -> forall c, In c (content u) -> In c U) ->
  1 + pot U [] < fuel ->
  forall roots g, (forall r, In r roots -> In r U) ->
    snd (load_from content sok fuel g roots) = true.
Proof.
  intros Hclosed Hf. induction roots as [|r rs IH]; intros g Hr; simpl; auto.
  assert (snd (index_all content sok fuel [r] [] g) = true) as H1.
  { apply (index_all_fuel U Hclosed).
    - intros w [<-|[]]. apply Hr. simpl; auto.
    - simpl. lia. }
  unfold index_all_root.
  destruct (index_all content sok fuel [r] [] g) as [[g1 v1] ok1]. simpl in H1. subst ok1.
  specialize (IH g1 (fun r0 H => Hr r0 (or_intror H))).
  destruct (load_from content sok fuel g1 rs) as [g2 ok2]. simpl in IH. subst ok2. reflexivity.
Qed.
End Fuel.

(* For every finite universe closed under [content] that contains the roots there is a
   fuel for which loadIndex / gcIndex / IndexAll complete: the [ok = true] hypothesis of
   the reload theorems is always satisfiable, whatever the graph shape (cycles included). *)
Lemma load_terminates content sok U roots :
  (forall u, In u U -> forall c, In c (content u) -> In c U) ->
  (forall r, In r roots -> In r U) ->
  exists fuel g', load content sok fuel roots = (g', true).
Proof.
  intros Hc Hr. exists (2 + pot content U []).
  assert (1 + pot content U [] < 2 + pot content U []) as Hlt by lia.
  pose proof (load_from_fuel content sok U (2 + pot content U []) Hc Hlt roots empty_graph Hr) as H.
  unfold load. destruct (load_from content sok (2 + pot content U []) empty_graph roots) as [g' ok].
  simpl in H. subst ok. exists g'. reflexivity.
Qed.

(* ---- the root hypothesis of reload_equiv is necessary (finding gc-drops-nested-manifest) ----
   Before the fix, gcIndex dropped the by-digest entry of a manifest nested under a
   tagged root; after Delete of the root the nested manifest (2 below, referencing blob 0)
   was still stored but no longer a root of index.json: the reloaded graph omits it. *)
Definition wit_ct : amap := [(2, [0])]%N.
Definition wit_live : graph := pushes (ctab wit_ct) [0; 2]%N.
Definition wit_sok (x : node) : bool := N.leb x 2.

Lemma reload_without_root_refuted :
  exists content sok fuel roots g g' n,
    Inv content g /\
    (forall p, In p (g_nodes g) -> sok p = true) /\
    (forall p, sok p = true -> content p <> [] -> In p (g_nodes g)) /\
    load content sok fuel roots = (g', true) /\
    ~ Permutation (predecessors g' n) (predecessors g n).
Proof.
  exists (ctab wit_ct), wit_sok, 10, [], wit_live, empty_graph, 0%N.
  split; [apply pushes_Inv, Inv_empty|].
  split.
  { vm_compute. intros p H. repeat (destruct H as [<-|H]; [reflexivity|]). destruct H. }
  split.
  { intros p Hs Hne. vm_compute.
    destruct (N.eq_dec p 2) as [->|H2]; [auto|].
    exfalso. apply Hne. unfold ctab, getd, wit_ct. simpl.
    destruct (N.eqb_spec p 2); [congruence | reflexivity]. }
  split; [reflexivity|].
  vm_compute. intro HP. apply Permutation_nil in HP. discriminate.
Qed.

(* ------------------------------------------------------------------ map order over histories *)
(* two answers that differ only in the order inside sets *)
Inductive out_equiv : out -> out -> Prop :=
| oe_dang : forall d1 d2, Permutation d1 d2 -> out_equiv (RDang d1) (RDang d2)
| oe_preds : forall p1 p2, Permutation p1 p2 -> out_equiv (RPreds p1) (RPreds p2)
| oe_same : forall o, out_equiv o o.

Lemma nodup_b_NoDup l : nodup_b l = true -> NoDup l.
Proof.
  induction l as [|x r IH]; simpl; [constructor|].
  intro H. apply andb_true_iff in H. destruct H as [H1 H2].
  apply negb_true_iff, smem_false in H1. constructor; auto.
Qed.

Lemma valid_order_spec order succs :
  valid_order order succs = true -> NoDup order /\ forall s, In s order <-> In s succs.
Proof.
  unfold valid_order. intro H. apply andb_true_iff in H. destruct H as [H H3].
  apply andb_true_iff in H. destruct H as [H1 H2].
  split; [apply nodup_b_NoDup, H1|].
  rewrite forallb_forall in H2, H3. intro s. split; intro Hs.
  - apply smem_In, H2, Hs.
  - apply smem_In, H3, Hs.
Qed.

(* the traversal of IndexAll does not look at the graph it fills *)
Lemma index_all_nodes_indep content sok fuel : forall work visited g1 g2,
  (forall x, In x (g_nodes g1) <-> In x (g_nodes g2)) ->
  let r1 := index_all content sok fuel work visited g1 in
  let r2 := index_all content sok fuel work visited g2 in
  (forall x, In x (g_nodes (fst (fst r1))) <-> In x (g_nodes (fst (fst r2)))) /\ snd r1 = snd r2.
Proof.
  induction fuel as [|f IH]; intros work visited g1 g2 H; simpl.
  - split; auto.
  - destruct work as [|d rest]; [split; auto|].
    destruct (smem d visited); [apply IH; auto|].
    destruct (sok d); [|apply IH; auto].
    apply IH. intro x. rewrite !index_nodes, H. tauto.
Qed.

Section Orders.
Variable ct : amap.
Variable fuel : nat.

Definition srel (s1 s2 : state) : Prop :=
  s_sok s1 = s_sok s2 /\ Inv (ctab ct) (s_g s1) /\ Inv (ctab ct) (s_g s2) /\
  forall x, In x (g_nodes (s_g s1)) <-> In x (g_nodes (s_g s2)).

Lemma remove_with_Inv g n order : Inv (ctab ct) g -> Inv (ctab ct) (fst (remove_with g n order)).
Proof.
  intro HI. unfold remove_with. destruct (valid_order order (getd (g_succs g) n)) eqn:V.
  - apply remove_ord_Inv; auto. apply (valid_order_spec _ _ V).
  - apply remove_Inv; auto.
Qed.

Lemma remove_with_nodes g n order x :
  In x (g_nodes (fst (remove_with g n order))) <-> x <> n /\ In x (g_nodes g).
Proof.
  unfold remove_with. destruct (valid_order order (getd (g_succs g) n)); apply remove_ord_nodes.
Qed.

Lemma remove_with_dang g n order :
  Inv (ctab ct) g ->
  NoDup (snd (remove_with g n order)) /\
  forall d, In d (snd (remove_with g n order)) <->
            (In n (g_nodes g) /\ In d (ctab ct n) /\ In d (g_nodes g) /\
             forall p, In p (g_nodes g) -> In d (ctab ct p) -> p = n).
Proof.
  intro HI. unfold remove_with. destruct (valid_order order (getd (g_succs g) n)) eqn:V.
  - destruct (valid_order_spec _ _ V) as [Hn Hm]. split.
    + apply remove_ord_danglings_nodup; auto.
    + apply remove_ord_danglings; auto.
  - split.
    + apply remove_ord_danglings_nodup. unfold getd.
      destruct (aget (g_succs g) n) eqn:E; [apply (inv_succ_val (ctab ct) g HI n l E) | constructor].
    + apply remove_ord_danglings; auto. tauto.
Qed.

Lemma step_ord_equiv s1 s2 o order :
  srel s1 s2 ->
  srel (fst (step_ord ct fuel s1 (o, order))) (fst (step ct fuel s2 o)) /\
  out_equiv (snd (step_ord ct fuel s1 (o, order))) (snd (step ct fuel s2 o)).
Proof.
  intros (Hs & H1 & H2 & Hn). unfold step_ord. cbn [fst snd].
  destruct o; unfold step.
  - (* Index *)
    rewrite Hs. unfold op_index. destruct (smem n (s_sok s2)); cbn [fst snd s_g s_sok].
    + split; [|apply oe_same].
      split; [reflexivity|]. split; [apply index_Inv; exact H1|]. split; [apply index_Inv; exact H2|].
      intro x. cbn [s_g]. rewrite !index_nodes, Hn. tauto.
    + split; [|apply oe_same]. split; [reflexivity|]. split; [exact H1|]. split; [exact H2 | exact Hn].
  - (* Remove: any order against the model's own *)
    pose proof (remove_with_Inv (s_g s1) n order H1) as I1.
    pose proof (remove_with_dang (s_g s1) n order H1) as [D1 M1].
    pose proof (remove_with_nodes (s_g s1) n order) as N1.
    destruct (remove_with (s_g s1) n order) as [g1 d1]. cbn [fst snd] in *.
    pose proof (remove_Inv (ctab ct) (s_g s2) n H2) as I2.
    pose proof (remove_with_dang (s_g s2) n [] H2) as [D2 M2].
    pose proof (remove_with_nodes (s_g s2) n []) as N2.
    assert (remove_with (s_g s2) n [] = remove (s_g s2) n \/ True) as _ by auto.
    assert (forall d, In d (snd (remove (s_g s2) n)) <->
              (In n (g_nodes (s_g s2)) /\ In d (ctab ct n) /\ In d (g_nodes (s_g s2)) /\
               forall p, In p (g_nodes (s_g s2)) -> In d (ctab ct p) -> p = n)) as M2'.
    { intro d. apply remove_ord_danglings; auto. tauto. }
    assert (NoDup (snd (remove (s_g s2) n))) as D2'.
    { apply remove_ord_danglings_nodup. unfold getd.
      destruct (aget (g_succs (s_g s2)) n) eqn:E; [apply (inv_succ_val (ctab ct) _ H2 n l E) | constructor]. }
    assert (forall x, In x (g_nodes (fst (remove (s_g s2) n))) <-> x <> n /\ In x (g_nodes (s_g s2))) as N2'
      by (intro x; apply remove_ord_nodes).
    destruct (remove (s_g s2) n) as [g2 d2]. cbn [fst snd s_g s_sok] in *.
    split.
    + split; [exact Hs|]. split; [exact I1|]. split; [exact I2|]. intro x. rewrite N1, N2', Hn. tauto.
    + apply oe_dang. apply NoDup_Permutation; auto.
      intro d. rewrite M1, M2'. rewrite !Hn.
      split; intros (A & B & C & D); repeat split; auto; intros p Hp; apply D; apply Hn; auto.
  - (* IndexAll *)
    rewrite Hs. unfold index_all_root.
    pose proof (index_all_nodes_indep (ctab ct) (fun x => smem x (s_sok s2)) fuel [n] [] (s_g s1) (s_g s2) Hn) as [Hx Hok].
    pose proof (index_all_Inv (ctab ct) (fun x => smem x (s_sok s2)) fuel [n] [] (s_g s1) H1) as J1.
    pose proof (index_all_Inv (ctab ct) (fun x => smem x (s_sok s2)) fuel [n] [] (s_g s2) H2) as J2.
    destruct (index_all (ctab ct) (fun x => smem x (s_sok s2)) fuel [n] [] (s_g s1)) as [[g1 v1] ok1].
    destruct (index_all (ctab ct) (fun x => smem x (s_sok s2)) fuel [n] [] (s_g s2)) as [[g2 v2] ok2].
    cbn [fst snd s_g s_sok] in *. subst ok2. split; [|apply oe_same].
    split; [reflexivity|]. split; [exact J1|]. split; [exact J2 | exact Hx].
  - (* Query *)
    cbn [fst snd]. split; [split; [exact Hs|]; split; [exact H1|]; split; [exact H2 | exact Hn]|].
    rewrite (predecessors_raw_some (ctab ct) (s_g s1) H1), (predecessors_raw_some (ctab ct) (s_g s2) H2).
    apply oe_preds. apply Permutation_map. apply (same_nodes_same_preds (ctab ct)); auto.
  - (* Exists *)
    cbn [fst snd]. split; [split; [exact Hs|]; split; [exact H1|]; split; [exact H2 | exact Hn]|].
    unfold exists_node.
    assert (smem n (g_nodes (s_g s1)) = smem n (g_nodes (s_g s2))) as ->; [|apply oe_same].
    destruct (smem n (g_nodes (s_g s2))) eqn:M.
    + apply smem_In. apply Hn. apply smem_In. exact M.
    + apply smem_false. intro H. apply Hn in H. apply smem_In in H. congruence.
  - (* Sok *)
    cbn [fst snd s_g s_sok]. rewrite Hs. split; [split; [reflexivity|]; split; [exact H1|]; split; [exact H2 | exact Hn] | apply oe_same].
  - (* Reset *)
    cbn [fst snd s_g s_sok]. split; [|apply oe_same].
    split; [exact Hs|]. split; [apply Inv_empty|]. split; [apply Inv_empty|]. intro x. simpl. tauto.
Qed.

Lemma run_orders_equiv ops : forall s1 s2,
  srel s1 s2 ->
  srel (fst (run_orders ct fuel s1 ops)) (fst (run ct fuel s2 (map fst ops))) /\
  Forall2 out_equiv (snd (run_orders ct fuel s1 ops)) (snd (run ct fuel s2 (map fst ops))).
Proof.
  induction ops as [|[o order] r IH]; intros s1 s2 HR; simpl.
  - split; auto.
  - destruct (step_ord_equiv s1 s2 o order HR) as [HR1 HO].
    destruct (step_ord ct fuel s1 (o, order)) as [a1 x1].
    destruct (step ct fuel s2 o) as [a2 x2]. cbn [fst snd] in *.
    destruct (IH a1 a2 HR1) as [HR2 HF].
    destruct (run_orders ct fuel a1 r) as [b1 xs1].
    destruct (run ct fuel a2 (map fst r)) as [b2 xs2]. cbn [fst snd] in *.
    split; auto.
Qed.

Lemma history_any_map_order ops :
  let r1 := run_orders ct fuel init_state ops in
  let r2 := run ct fuel init_state (map fst ops) in
  Inv (ctab ct) (s_g (fst r1)) /\
  (forall x, In x (g_nodes (s_g (fst r1))) <-> In x (g_nodes (s_g (fst r2)))) /\
  (forall n, Permutation (predecessors (s_g (fst r1)) n) (predecessors (s_g (fst r2)) n)) /\
  Forall2 out_equiv (snd r1) (snd r2).
Proof.
  intros r1 r2.
  assert (srel init_state init_state) as H0.
  { split; [reflexivity|]. split; [apply Inv_empty|]. split; [apply Inv_empty|]. intro x. tauto. }
  destruct (run_orders_equiv ops init_state init_state H0) as [(Hs & I1 & I2 & Hn) HF].
  fold r1 r2 in Hs, I1, I2, Hn, HF.
  split; auto. split; auto. split; auto.
  apply (same_nodes_same_preds (ctab ct)); auto.
Qed.
End Orders.
