From Coq Require Import List NArith Bool Lia Permutation.
Import ListNotations.
From Oras Require Import Model.GraphMem.

Lemma empty_preds : forall n, predecessors empty_graph n = [].
Proof. reflexivity. Qed.
