From Oras Require Import Base.Prelude Base.Regex Generated.GC20 Model.Reference Model.RefOps Proofs.Reference.

(* the request that carries the caller's reference *)
Definition ref_request (op : refop) (plain : bool) (r : reference) : str * str :=
  match op with
  | OpMResolve => (m_head, url_manifest plain r)
  | OpMFetchRef => (m_get, url_manifest plain r)
  | OpTag | OpPushRef => (m_put, url_manifest plain r)
  | OpBResolve => (m_head, url_blob plain r)
  | OpBFetchRef => (m_get, url_blob plain r)
  end.

Section Avail.
Variable avail : str -> bool.
Notation valid_digest := (Reference.valid_digest avail).
Notation repo_parse := (Reference.repo_parse avail).
Notation op_requests := (RefOps.op_requests avail).
Notation wf_ref := (wf_ref avail).

Lemma op_requests_use_resolved :
  forall vr op plain breg brepo s d reqs,
    ok_registry vr breg -> valid_repository brepo = true ->
    op_requests vr op plain breg brepo s d = Some reqs ->
    exists r, repo_parse vr breg brepo s = Some r /\
      r_registry r = breg /\ r_repository r = brepo /\
      In (ref_request op plain r) reqs /\
      Forall (fun mu => snd mu = url_manifest plain r \/ snd mu = url_blob plain r \/
                        snd mu = url_manifest plain (mkRef breg brepo d)) reqs /\
      after_last c_slash (snd (ref_request op plain r)) = r_reference r.
Proof.
  intros vr op plain breg brepo s d reqs Hbr Hbp H. unfold RefOps.op_requests in H.
  destruct (repo_parse vr breg brepo s) as [r|] eqn:Hp; [|discriminate].
  destruct (repo_parse_result_in_base avail vr breg brepo s r Hp) as (Hreg & Hrepo & Hne & Hv).
  exists r. split; [reflexivity|]. split; [exact Hreg|]. split; [exact Hrepo|].
  assert (Hslot : after_last c_slash (url_manifest plain r) = r_reference r /\
                  after_last c_slash (url_blob plain r) = r_reference r).
  { assert (Hwf : wf_ref vr r).
    { unfold wf_ref. rewrite Hreg, Hrepo. split; [exact Hbr|]. split; [exact Hbp|]. right. exact Hv. }
    destruct (url_slot avail vr plain r Hwf Hne) as (_ & _ & Hm & Hb & _). split; assumption. }
  destruct Hslot as [Hm Hb].
  destruct op; cbn [op_requests_resolved] in H;
    try (destruct (valid_digest (r_reference r)); [|discriminate]);
    injection H as <-; cbn [ref_request snd];
    (split; [cbn [In]; auto|]); (split; [|assumption]);
    repeat (apply Forall_cons || apply Forall_nil); cbn [snd]; rewrite ?Hreg, ?Hrepo;
    first [left; reflexivity | right; left; reflexivity | right; right; reflexivity].
Qed.

(* forms agree at the level of requests: tag@digest and fully qualified forms send
   exactly the requests of the bare digest / bare tag *)
Lemma op_requests_forms_agree :
  forall vr op plain breg brepo d0,
    ok_registry vr breg -> valid_repository brepo = true ->
    (forall t, valid_tag t = true ->
       op_requests vr op plain breg brepo (breg ++ [c_slash] ++ brepo ++ [c_colon] ++ t) d0
       = op_requests vr op plain breg brepo t d0) /\
    (forall d, valid_digest d = true ->
       op_requests vr op plain breg brepo (breg ++ [c_slash] ++ brepo ++ [c_at] ++ d) d0
       = op_requests vr op plain breg brepo d d0 /\
       (forall junk, contains c_slash junk = false -> contains c_at junk = false ->
         op_requests vr op plain breg brepo (junk ++ [c_at] ++ d) d0
         = op_requests vr op plain breg brepo d d0) /\
       (forall junk, contains c_at junk = false ->
         op_requests vr op plain breg brepo (breg ++ [c_slash] ++ brepo ++ [c_colon] ++ junk ++ [c_at] ++ d) d0
         = op_requests vr op plain breg brepo d d0)).
Proof.
  intros vr op plain breg brepo d0 Hr Hp. unfold RefOps.op_requests. split.
  - intros t Ht. rewrite (repo_parse_full_tag avail vr breg brepo Hr Hp t Ht), (repo_parse_tag avail vr breg brepo t Ht). reflexivity.
  - intros d Hd. rewrite (repo_parse_full_digest avail vr breg brepo Hr Hp d Hd), (repo_parse_digest avail vr breg brepo d Hd).
    split; [reflexivity|]. split.
    + intros junk Hs Ha.
      rewrite (repo_parse_tag_at_digest avail vr breg brepo junk d Hs Ha Hd). reflexivity.
    + intros junk Ha.
      rewrite (repo_parse_full_tag_digest avail vr breg brepo Hr Hp junk d Ha Hd). reflexivity.
Qed.
End Avail.
