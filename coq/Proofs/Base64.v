(* C18 -- the concrete base64 codec of Model/Base64.v round-trips every byte string. *)
From Coq Require Import Lia ZifyClasses ZifyInst.
From Oras Require Import Base.Prelude Model.Base64.

Ltac Zify.zify_post_hook ::= Z.to_euclidean_division_equations.

Definition is_byte (c : N) : Prop := c < 256.
Definition bytes (s : str) : Prop := Forall is_byte s.

Lemma list_ind3 {A} (P : list A -> Prop) :
  P [] -> (forall x, P [x]) -> (forall x y, P [x; y]) ->
  (forall x y z r, P r -> P (x :: y :: z :: r)) -> forall l, P l.
Proof.
  intros H0 H1 H2 H3. fix IH 1. intros [|x [|y [|z r]]]; [exact H0|apply H1|apply H2|apply H3; apply IH].
Qed.

(* the alphabet: checked for all 64 values *)
Definition sextets : list N := map N.of_nat (seq 0 64).

Lemma sextet_in v : v < 64 -> In v sextets.
Proof.
  intro H. unfold sextets. apply in_map_iff. exists (N.to_nat v). split; [lia|].
  apply in_seq. lia.
Qed.

Lemma alphabet_ok :
  forallb (fun v => match b64_val (b64_char v) with Some w => w =? v | None => false end
                    && negb (b64_char v =? pad) && negb (is_crlf (b64_char v))) sextets = true.
Proof. vm_compute. reflexivity. Qed.

Lemma char_val v : v < 64 ->
  b64_val (b64_char v) = Some v /\ (b64_char v =? pad) = false /\ is_crlf (b64_char v) = false.
Proof.
  intro H. pose proof (proj1 (forallb_forall _ _) alphabet_ok v (sextet_in v H)) as X.
  apply andb_true_iff in X as [X C]. apply andb_true_iff in X as [X P].
  apply negb_true_iff in C. apply negb_true_iff in P.
  destruct (b64_val (b64_char v)) as [w|]; [|discriminate].
  apply N.eqb_eq in X. subst w. auto.
Qed.

Lemma pad_not_crlf : is_crlf pad = false.
Proof. reflexivity. Qed.

(* the encoder never emits CR or LF, so the decoder's filter is the identity *)
Lemma encode_no_crlf s : bytes s -> filter (fun c => negb (is_crlf c)) (b64_encode s) = b64_encode s.
Proof.
  unfold bytes. induction s using list_ind3; intro B.
  - reflexivity.
  - inversion B as [|? ? Bx _]; subst. unfold is_byte in *.
    cbn [b64_encode filter].
    destruct (char_val (x / 4)) as (_ & _ & ->); [lia|].
    destruct (char_val ((x mod 4) * 16)) as (_ & _ & ->); [lia|].
    rewrite pad_not_crlf. reflexivity.
  - inversion B as [|? ? Bx B']; subst. inversion B' as [|? ? By _]; subst. unfold is_byte in *.
    cbn [b64_encode filter].
    destruct (char_val (x / 4)) as (_ & _ & ->); [lia|].
    destruct (char_val ((x mod 4) * 16 + y / 16)) as (_ & _ & ->); [lia|].
    destruct (char_val ((y mod 16) * 4)) as (_ & _ & ->); [lia|].
    rewrite pad_not_crlf. reflexivity.
  - inversion B as [|? ? Bx B']; subst. inversion B' as [|? ? By B'']; subst.
    inversion B'' as [|? ? Bz Br]; subst. unfold is_byte in *.
    cbn [b64_encode filter].
    destruct (char_val (x / 4)) as (_ & _ & ->); [lia|].
    destruct (char_val ((x mod 4) * 16 + y / 16)) as (_ & _ & ->); [lia|].
    destruct (char_val ((y mod 16) * 4 + z / 64)) as (_ & _ & ->); [lia|].
    destruct (char_val (z mod 64)) as (_ & _ & ->); [lia|].
    cbn [negb]. now rewrite IHs.
Qed.

Lemma decode_clean_encode s : bytes s -> b64_decode_clean (b64_encode s) = Some s.
Proof.
  unfold bytes. induction s using list_ind3; intro B.
  - reflexivity.
  - inversion B as [|? ? Bx _]; subst. unfold is_byte in *.
    cbn [b64_encode b64_decode_clean].
    destruct (char_val (x / 4)) as (-> & _ & _); [lia|].
    destruct (char_val ((x mod 4) * 16)) as (-> & _ & _); [lia|].
    rewrite N.eqb_refl. do 2 f_equal. lia.
  - inversion B as [|? ? Bx B']; subst. inversion B' as [|? ? By _]; subst. unfold is_byte in *.
    cbn [b64_encode b64_decode_clean].
    destruct (char_val (x / 4)) as (-> & _ & _); [lia|].
    destruct (char_val ((x mod 4) * 16 + y / 16)) as (-> & _ & _); [lia|].
    destruct (char_val ((y mod 16) * 4)) as (-> & -> & _); [lia|].
    rewrite N.eqb_refl. f_equal. f_equal; [lia|f_equal; lia].
  - inversion B as [|? ? Bx B']; subst. inversion B' as [|? ? By B'']; subst.
    inversion B'' as [|? ? Bz Br]; subst. unfold is_byte in *.
    cbn [b64_encode b64_decode_clean].
    destruct (char_val (x / 4)) as (-> & _ & _); [lia|].
    destruct (char_val ((x mod 4) * 16 + y / 16)) as (-> & _ & _); [lia|].
    destruct (char_val ((y mod 16) * 4 + z / 64)) as (-> & -> & _); [lia|].
    destruct (char_val (z mod 64)) as (-> & -> & _); [lia|].
    rewrite (IHs Br). f_equal. f_equal; [lia|f_equal; [lia|f_equal; lia]].
Qed.

Lemma b64_roundtrip s : bytes s -> b64_decode (b64_encode s) = Some s.
Proof.
  intro B. unfold b64_decode. rewrite encode_no_crlf by exact B. now apply decode_clean_encode.
Qed.

Lemma b64_encode_nonempty s : b64_encode s = [] -> s = [].
Proof. destruct s as [|x [|y [|z r]]]; [reflexivity|discriminate..]. Qed.

(* the encoder's output is ASCII *)
Lemma alphabet_ascii : forallb (fun v => b64_char v <? 128) sextets = true.
Proof. vm_compute. reflexivity. Qed.

Lemma char_ascii v : v < 64 -> b64_char v < 128.
Proof. intro H. apply N.ltb_lt. exact (proj1 (forallb_forall _ _) alphabet_ascii v (sextet_in v H)). Qed.

Lemma b64_encode_ascii s : bytes s -> Forall (fun c => c < 128) (b64_encode s).
Proof.
  unfold bytes. induction s using list_ind3; intro B.
  - constructor.
  - inversion B as [|? ? Bx _]; subst. unfold is_byte in *. cbn [b64_encode].
    repeat constructor; try (apply char_ascii; lia); unfold pad; lia.
  - inversion B as [|? ? Bx B']; subst. inversion B' as [|? ? By _]; subst. unfold is_byte in *. cbn [b64_encode].
    repeat constructor; try (apply char_ascii; lia); unfold pad; lia.
  - inversion B as [|? ? Bx B']; subst. inversion B' as [|? ? By B'']; subst.
    inversion B'' as [|? ? Bz Br]; subst. unfold is_byte in *. cbn [b64_encode].
    repeat (constructor; [apply char_ascii; lia|]). now apply IHs.
Qed.
