(* C06 -- file store with a fallback push limit (NewWithFallbackLimit): refinement, no-op of the
   refusal, the limit is unobservable below it, nothing above it ever enters the fallback. *)
From Oras Require Import Base.Prelude Generated.GC06 Model.Stores Model.StoresFileSpec Model.StoresFileLimit
     Proofs.Stores Proofs.StoresFileSpec.
From Coq Require String.

Lemma runl_cons {S} (step : S -> op -> S * lout) s o h :
  runl step s (o :: h) =
  (fst (runl step (fst (step s o)) h), snd (step s o) :: snd (runl step (fst (step s o)) h)).
Proof. simpl. destruct (step s o) as [s1 x]. simpl. destruct (runl step s1 h). reflexivity. Qed.

(* the refusal changes nothing *)
Lemma file_limit_refusal_noop lim fx ig ov s o :
  snd (file_step_lim lim fx ig ov s o) = LLimit -> fst (file_step_lim lim fx ig ov s o) = s.
Proof. unfold file_step_lim. destruct (over_limit lim ig o); [reflexivity | discriminate]. Qed.

(* exactly the oversized unnamed pushes are refused *)
Lemma file_limit_refusal_iff lim fx ig ov s o :
  snd (file_step_lim lim fx ig ov s o) = LLimit <->
  exists d c, o = Push d c /\ d_name d = 0 /\ ig = false /\ lim < d_size d.
Proof.
  unfold file_step_lim. destruct (over_limit lim ig o) eqn:E; cbn [snd]; split; try discriminate; try reflexivity.
  - intros _. destruct o; try discriminate. exists d, c. cbn [over_limit] in E.
    apply andb_true_iff in E as [E E3]. apply andb_true_iff in E as [E1 E2].
    apply N.eqb_eq in E1. apply N.ltb_lt in E3. destruct ig; [discriminate|]. auto.
  - intros (d & c & -> & H1 & -> & H3). cbn [over_limit] in E.
    apply N.eqb_eq in H1. apply N.ltb_lt in H3. rewrite H1, H3 in E. discriminate.
Qed.

Lemma file_limit_step_inv lim ig ov s o :
  no_alias o -> file_inv s -> file_inv (fst (file_step_lim lim true ig ov s o)).
Proof.
  intros Hna Hi. unfold file_step_lim. destruct (over_limit lim ig o); [exact Hi|]. now apply file_step_inv.
Qed.

Lemma frel_step_lim lim ig ov s a o :
  no_alias o -> file_inv s -> frel s a ->
  snd (file_step_lim lim true ig ov s o) = snd (fspec_step_lim lim ig a o) /\
  frel (fst (file_step_lim lim true ig ov s o)) (fst (fspec_step_lim lim ig a o)).
Proof.
  intros Hna Hi Hr. unfold file_step_lim, fspec_step_lim.
  destruct (over_limit lim ig o); [split; [reflexivity | exact Hr]|].
  destruct (frel_step ig ov s a o Hna Hi Hr) as [A C]. cbn [fst snd]. split; [now rewrite A | exact C].
Qed.

(* refinement to the abstract specification with the same limit, for every history *)
Theorem refines_file_limit lim ig ov h : forall s a,
  Forall no_alias h -> file_inv s -> frel s a ->
  snd (runl (file_step_lim lim true ig ov) s h) = snd (runl (fspec_step_lim lim ig) a h) /\
  frel (fst (runl (file_step_lim lim true ig ov) s h)) (fst (runl (fspec_step_lim lim ig) a h)) /\
  file_inv (fst (runl (file_step_lim lim true ig ov) s h)).
Proof.
  induction h as [|o h IH]; intros s a Hna Hi Hr; [split; [reflexivity | split; [exact Hr | exact Hi]]|].
  inversion Hna; subst. rewrite !runl_cons. cbn [fst snd].
  destruct (frel_step_lim lim ig ov s a o H1 Hi Hr) as [Hs Hr1].
  destruct (IH _ _ H2 (file_limit_step_inv lim ig ov s o H1 Hi) Hr1) as (Hs2 & Hr2 & Hi2).
  split; [now rewrite Hs, Hs2 | split; [exact Hr2 | exact Hi2]].
Qed.

(* no Fetch returns bytes that do not match its descriptor, whatever the limit *)
Theorem file_limit_fetch_matches lim ig ov h d hash len :
  Forall no_alias h ->
  let s := fst (runl (file_step_lim lim true ig ov) file_init h) in
  snd (file_step_lim lim true ig ov s (Fetch d)) = LOut (FO (OBytes hash len)) -> hash = d_dig d.
Proof.
  intros Hna s. destruct (refines_file_limit lim ig ov h file_init fspec_init Hna file_inv_init frel_init) as (_ & _ & Hi).
  fold s in Hi. unfold file_step_lim. cbn [over_limit file_step fst snd].
  destruct (file_fetch d s) as [c|] eqn:Ef; cbn [snd]; [|discriminate].
  destruct (file_fetch_inv _ _ _ Hi Ef) as [Hh _]. intro X. injection X as <- _. exact Hh.
Qed.

(* a history whose unnamed pushes stay below the limit cannot observe it *)
Definition below_limit (lim : N) (ig : bool) (o : op) : Prop := over_limit lim ig o = false.

Lemma file_step_lim_below lim fx ig ov s o :
  below_limit lim ig o ->
  file_step_lim lim fx ig ov s o = (fst (file_step fx ig ov s o), LOut (snd (file_step fx ig ov s o))).
Proof. unfold below_limit, file_step_lim. now intros ->. Qed.

Theorem file_limit_unobservable lim fx ig ov h : forall s,
  Forall (below_limit lim ig) h ->
  snd (runl (file_step_lim lim fx ig ov) s h) = map LOut (snd (runf (file_step fx ig ov) s h)) /\
  fst (runl (file_step_lim lim fx ig ov) s h) = fst (runf (file_step fx ig ov) s h).
Proof.
  induction h as [|o h IH]; intros s Hb; [split; reflexivity|].
  inversion Hb; subst. rewrite runl_cons, runf_cons, (file_step_lim_below lim fx ig ov s o H1).
  cbn [fst snd map]. destruct (IH (fst (file_step fx ig ov s o)) H2) as [A C].
  split; [now rewrite A | exact C].
Qed.

(* what a step can do to the fallback content map: nothing, or one unnamed push's entry *)
Lemma file_step_cas fx ig ov s o :
  f_cas (fst (file_step fx ig ov s o)) = f_cas s \/
  exists d c c', o = Push d c /\ d_name d = 0 /\ ig = false /\
                 f_cas (fst (file_step fx ig ov s o)) = put gkey_eqb (gk d) c' (f_cas s).
Proof.
  assert (Hnp : forall s0 k0 n c0, f_cas (fst (file_named_push fx ov s0 k0 n c0)) = f_cas s0).
  { intros. unfold file_named_push. destruct (mem N.eqb n (f_names s0)); auto. destruct (bad_name n); auto.
    destruct (ov && _); auto. destruct (_ && _); reflexivity. }
  assert (Hr : forall tl s0, f_cas (fst (file_restore fx ov tl s0)) = f_cas s0).
  { induction tl as [|[k0 n] tl IH]; intro s0; [reflexivity|]. cbn [file_restore].
    destruct ((n =? 0) || mem N.eqb n (f_names s0)); [apply IH|].
    destruct (file_fetch _ s0) as [c2|]; [|apply IH].
    match goal with |- context [file_named_push fx ov s0 k0 n ?cc] => pose proof (Hnp s0 k0 n cc) as X;
      destruct (file_named_push fx ov s0 k0 n cc) as [s1 [e|]] end; cbn [fst] in X.
    - destruct e as [o0|[| |]]; try exact X. rewrite IH. exact X.
    - rewrite IH. exact X. }
  assert (Hi : forall d0 s0, f_cas (fst (file_index d0 s0)) = f_cas s0).
  { intros. unfold file_index. destruct (is_manifest (d_mt d0)); [|reflexivity].
    destruct (file_fetch d0 s0) as [c1|]; [|reflexivity]. destruct (d_dig d0 =? b_hash c1); reflexivity. }
  assert (Hia : forall d0 s0, f_cas (fst (file_index_after fx ov d0 s0)) = f_cas s0).
  { intros d0 s0. unfold file_index_after. pose proof (Hi d0 s0) as X.
    destruct (file_index d0 s0) as [s2 r]. cbn [fst] in X.
    destruct r as [o0|e]; [|exact X]. destruct o0; try exact X.
    destruct (is_manifest (d_mt d0)); [|exact X].
    destruct (file_fetch d0 s2) as [c1|]; [|exact X]. destruct (d_dig d0 =? b_hash c1); [|exact X].
    pose proof (Hr (b_tl c1) s2) as Y. destruct (file_restore fx ov (b_tl c1) s2) as [s3 [e|]]; cbn [fst] in *; congruence. }
  destruct o; try (left; reflexivity).
  - cbn [file_step]. destruct (d_name d =? 0) eqn:En.
    + destruct ig.
      * left. destruct (is_manifest (d_mt d)); [|reflexivity]. destruct (verify d c); [|reflexivity].
        pose proof (Hr (b_tl c) s) as X. destruct (file_restore fx ov (b_tl c) s) as [s2 [e|]]; exact X.
      * destruct (get gkey_eqb (gk d) (f_cas s)); [left; reflexivity|].
        destruct (verify d (limit_reader d c)); [|left; reflexivity].
        right. exists d, c, (limit_reader d c). apply N.eqb_eq in En. rewrite Hia. auto.
    + left. pose proof (Hnp s (gk d) (d_name d) c) as X.
      destruct (file_named_push fx ov s (gk d) (d_name d) c) as [s1 [e|]]; cbn [fst] in *; [exact X|].
      now rewrite Hia.
  - left. cbn [file_step]. destruct (file_fetch d s); reflexivity.
  - left. cbn [file_step]. destruct r; try reflexivity; destruct (file_exists d s); reflexivity.
  - left. cbn [file_step]. destruct r; try reflexivity; destruct (get ref_eqb _ (r_index (f_res s))); reflexivity.
Qed.

(* nothing larger than the limit ever enters the fallback storage -- for EVERY history and
   option setting (aliasing names, titled successors, code as found or repaired) *)
Definition cas_bounded (lim : N) (s : file_store) : Prop :=
  forall k c, get gkey_eqb k (f_cas s) = Some c -> k_size k <= lim.

Theorem file_limit_cas_bounded lim fx ig ov h : forall s,
  cas_bounded lim s -> cas_bounded lim (fst (runl (file_step_lim lim fx ig ov) s h)).
Proof.
  induction h as [|o h IH]; intros s Hb; [exact Hb|]. rewrite runl_cons. cbn [fst]. apply IH.
  unfold file_step_lim. destruct (over_limit lim ig o) eqn:E; [exact Hb|]. cbn [fst].
  destruct (file_step_cas fx ig ov s o) as [X|(d & c & c' & -> & Hn & -> & X)]; intros k c0; rewrite X; [apply Hb|].
  destruct (eqb_dec gkey_eqb gkey_eqb_spec k (gk d)) as [->|Hne].
  - intros _. cbn [over_limit] in E. apply N.eqb_eq in Hn. rewrite Hn in E. cbn [andb negb] in E.
    apply N.ltb_ge in E. exact E.
  - rewrite (get_put_neq gkey_eqb gkey_eqb_spec) by exact Hne. apply Hb.
Qed.

Corollary file_limit_cas_bounded_init lim fx ig ov h :
  cas_bounded lim (fst (runl (file_step_lim lim fx ig ov) file_init h)).
Proof. apply file_limit_cas_bounded. intros k c X. discriminate. Qed.

(* non-vacuity: limit 10, a 20-byte unnamed manifest is refused, the 5-byte layer is stored *)
Lemma file_limit_example :
  snd (runl (file_step_lim 10 true false false) file_init
            [Push (mkDesc 1 9 20 0) (mkBlob 9 20 [(6, 1, 5)] 9 [(6, 1, 5)]); Push w_unnamed w_good;
             Exists (mkDesc 1 9 20 0); Fetch w_unnamed])
  = [LLimit; LOut (FO OOk); LOut (FO (OBool false)); LOut (FO (OBytes 1 5))].
Proof. vm_compute. reflexivity. Qed.

(* tie to the source (translator kind callguards, re-read on every run): LimitedStorage.Push
   builds its error exactly under `expected.Size > ls.PushLimit` and reaches the wrapped
   Storage.Push outside any condition (after that early return); file.Store.push reaches the
   fallback storage exactly for descriptors without a name -- the three conjuncts of
   [over_limit] (with IgnoreNoName returning earlier: call order file_push_calls) *)
Lemma limit_guards_from_source :
  limited_Push_guards = [(b "fmt.Errorf"%string, [b "expected.Size > ls.PushLimit"%string]);
                         (b "ls.Storage.Push"%string, [])] /\
  file_push_guards = [(b "s.fallbackStorage.Push"%string, [b "name == ''"%string])].
Proof. split; reflexivity. Qed.

(* helper *)
Lemma file_step_lim_over lim fx ig ov s o :
  over_limit lim ig o = true -> file_step_lim lim fx ig ov s o = (s, LLimit).
Proof. unfold file_step_lim. now intros ->. Qed.

(* for EVERY history the limited store ends in the state of the unlimited store run on the
   history without its oversized unnamed pushes, and answers the remaining operations alike:
   the theorems about file_step (sequential and, since the limit check reads no shared state,
   the interleaving theorems on the filtered programs) apply to it *)
Theorem file_limit_is_filter lim fx ig ov h : forall s,
  fst (runl (file_step_lim lim fx ig ov) s h) =
  fst (runf (file_step fx ig ov) s (filter (fun o => negb (over_limit lim ig o)) h)) /\
  filter (fun x => match x with LLimit => false | LOut _ => true end) (snd (runl (file_step_lim lim fx ig ov) s h)) =
  map LOut (snd (runf (file_step fx ig ov) s (filter (fun o => negb (over_limit lim ig o)) h))).
Proof.
  induction h as [|o h IH]; intro s; [split; reflexivity|].
  rewrite runl_cons. cbn [filter]. destruct (over_limit lim ig o) eqn:E.
  - rewrite (file_step_lim_over lim fx ig ov s o E). cbn [negb fst snd filter]. apply IH.
  - rewrite (file_step_lim_below lim fx ig ov s o E). cbn [negb fst snd filter].
    rewrite runf_cons. cbn [fst snd map]. destruct (IH (fst (file_step fx ig ov s o))) as [A C].
    split; [exact A | now rewrite C].
Qed.
