(* CopyImplNoFault: an execution of the protocol LTS in which no storage step / callback fails and the
   caller's context is not cancelled never sets [failed]; hence, when it has ended, the top-level
   syncutil.Go has returned nil.  The non-trivial arm is "successor not committed" (copy.go: a parent
   finds a successor untracked after its syncutil.Go returned nil): excluded by I_waittr. *)
From Coq Require Import List Arith Bool Lia.
From Oras Require Import Model.CopyImpl Proofs.CopyImplBase Proofs.CopyImplInv Proofs.CopyImplInv2 Proofs.CopyImplLive
  Proofs.CopyImplFault Proofs.CopyImplSucc Proofs.CopyImplSucc2.
Import ListNotations.

Section Proofs.
Variable succ : nat -> list nat.
Variable K : nat.
Variable ext : bool.
Variable roots : list nat.
Hypothesis succ_dec : forall n m, In m (succ n) -> m < n.
Local Notation Reachable := (Reachable succ K ext roots).
Local Notation Inv1 := (Inv1 K).
Local Notation Inv2 := (Inv2 succ).
Local Notation Inv4 := (Inv4 succ ext roots).

Ltac tsimp := cbn [f_parent f_anc f_kind f_all f_items f_pc f_cancelled t_node t_kind t_frame t_pc t_holds set_pc set_pc_holds set_fpc set_cancelled is_fin is_ret In] in *.

(* while nothing has failed, every node a task still waits for is tracked *)
Definition I_waittr s := failed s = false ->
  forall t l, t_pc (tasks s t) = TWait l -> forall m, In m l -> tracker s m <> Untracked.
(* a frame that returned an error means a failure was recorded *)
Definition I_reterr s := forall f, f_pc (frames s f) = FRet true -> failed s = true.

Lemma waittr_step s l s' : Inv1 s -> Inv2 s -> Inv3 s -> Inv4 s -> I_waittr s ->
  step succ s l = Some s' -> I_waittr s'.
Proof.
  intros [Hwf Hperm Hmust Hmay] [Hwff Hnf Htf Hunf Hingo Hpar Htop Hself Hanc Hrank Hwait] [Hcf Hfw Hown Hkfn]
         [Hdc Hwd Htr Hcov Hot [Hsh1 [Hsh2 Hsh3]]] Hw Hs.
  pose proof (tracked_mono succ s l s' Hs) as Hmono.
  red in Hw, Hcf.
  step_cases l Hs.
  all: intros Hfl tt ll Hp0 mm Hm0; cbn [tasks ntasks free frames nframes tracker failed top_cancelled] in *.
  all: rewrite ?orb_false_r, ?orb_true_r in Hfl; try discriminate.
  all: try (assert (failed s = true) by (eapply Hcf; eauto); congruence).
  all: try (timeout 20 solve [
    apply Hmono; upd_cases; tsimp; try discriminate; try (eapply Hw; eauto; fail); try congruence ]).
  - (* LGoReturn with nil: the parent enters its wait loop; every item of its Go frame was run by a
       finished task of copyGraph.fn, which tracked it *)
    upd_cases; tsimp; [|eapply Hw; eauto].
    destruct (Hsh1 f n Heqo) as [Hall Hkind]. unfold go_items in Hall. unfold wait_pc, wait_list in Hp0.
    destruct (t_kind (tasks s n)) eqn:Hk; [|discriminate].
    destruct (succ (t_node (tasks s n))) eqn:Hsu; [discriminate|]. inversion Hp0; subst ll.
    destruct (Hcov Hfl f mm) as [Hin|[c [Hc1 [Hc2 [Hc3 Hc4]]]]].
    + rewrite Hall. exact Hm0.
    + rewrite (Hsh2 f) in Hin by congruence. contradiction.
    + rewrite <- Hc3. apply Htr; auto; [congruence|].
      pose proof (ftd_spec s f Hwf Heqb c Hc2) as Hfin. destruct (t_pc (tasks s c)); try discriminate; reflexivity.
  - upd_cases; tsimp; try (eapply Hw; eauto; fail).
    unfold wait_pc in Hp0; destruct l0; [discriminate|]; inversion Hp0; subst ll.
    eapply Hw; [exact Hfl | eassumption | right; exact Hm0].
  - upd_cases; tsimp; try (eapply Hw; eauto; fail).
    unfold wait_pc in Hp0; destruct l0; [discriminate|]; inversion Hp0; subst ll.
    eapply Hw; [exact Hfl | eassumption | right; exact Hm0].
Qed.

Lemma nofault_step s l s' : Inv1 s -> Inv2 s -> Inv3 s -> Inv4 s -> I_waittr s ->
  step succ s l = Some s' -> is_fault l = false -> failed s = false -> failed s' = false.
Proof.
  intros [Hwf Hperm Hmust Hmay] [Hwff Hnf Htf Hunf Hingo Hpar Htop Hself Hanc Hrank Hwait] [Hcf Hfw Hown Hkfn]
         [Hdc Hwd Htr Hcov Hot [Hsh1 [Hsh2 Hsh3]]] Hw Hs Hnf0 Hfl.
  red in Hw, Hcf.
  step_cases l Hs.
  all: cbn [tasks ntasks free frames nframes tracker failed top_cancelled] in *.
  all: rewrite ?orb_false_r; auto; try discriminate.
  all: try (assert (failed s = true) by (eapply Hcf; eauto); congruence).
  - exfalso. eapply Hw; [exact Hfl | eassumption | left; reflexivity | assumption].
  - match goal with H : _ && _ = true |- _ => apply andb_true_iff in H as [_ H];
      assert (failed s = true) by (eapply Hcf; eauto); congruence end.
Qed.

Lemma reterr_step s l s' : Inv3 s -> I_reterr s -> step succ s l = Some s' -> I_reterr s'.
Proof.
  intros [Hcf Hfw Hown Hkfn] Hre Hs. red in Hre, Hcf.
  step_cases l Hs.
  all: intros ff Hp0; cbn [tasks ntasks free frames nframes tracker failed top_cancelled] in *.
  all: rewrite ?orb_true_r; auto.
  all: try (timeout 20 solve [ fsimp; upd_cases; tsimp; fsimp; try discriminate; try congruence;
                               try (rewrite (Hre ff) by assumption; reflexivity); eauto ]).
  upd_cases; tsimp; [|now apply (Hre ff)]. injection Hp0 as Hc0. rewrite (Hcf f Hc0). reflexivity || (symmetry; exact Hc0) || auto.
Qed.

Lemma reterr_init : I_reterr (init K ext roots).
Proof.
  intros f. cbn. unfold upd. destruct (Nat.eqb f 0); cbn; discriminate.
Qed.

Lemma waittr_init : I_waittr (init K ext roots).
Proof. intros _ t l. cbn. discriminate. Qed.

Lemma nofault_run ls : forall s s', Reachable s -> I_waittr s -> I_reterr s -> failed s = false ->
  run succ s ls = Some s' -> existsb is_fault ls = false ->
  Reachable s' /\ I_reterr s' /\ failed s' = false.
Proof.
  induction ls as [|l ls IH]; cbn; intros s s' Hr Hw Hre Hfl H Hf.
  - inversion H. subst. auto.
  - destruct (step succ s l) as [s1|] eqn:Hs; [|discriminate].
    apply orb_false_iff in Hf as [Hf1 Hf2].
    destruct (inv1234_reach succ K ext roots succ_dec s Hr) as [I1 [I2 [I3 I4]]].
    apply (IH s1); auto.
    + econstructor; eauto.
    + eapply waittr_step; eauto.
    + eapply reterr_step; eauto.
    + eapply nofault_step; eauto.
Qed.

(* no failing storage step / callback and no cancellation of the caller's context: when the execution has
   ended, the top-level syncutil.Go has returned nil *)
Theorem nofault_returns_nil ls s : run succ (init K ext roots) ls = Some s ->
  existsb is_fault ls = false -> is_final s = true -> failed s = false /\ result s = Some false.
Proof.
  intros Hrun Hf Hfin.
  destruct (nofault_run ls (init K ext roots) s) as [Hr [Hre Hfl]]; auto.
  - constructor.
  - apply waittr_init.
  - apply reterr_init.
  - split; auto. unfold is_final, result in *.
    destruct (f_pc (frames s 0)) eqn:Hp; try discriminate.
    destruct e; auto. rewrite (Hre 0 Hp) in Hfl. discriminate.
Qed.

End Proofs.
