(* Proofs/RemotePaged.v -- composition with C15 (Model/Paging.v, Proofs/Paging.v):
   against a registry that PAGINATES the Referrers API in any legal way, the pages the
   client's page loop delivers, concatenated, are exactly the manifests the C13 registry
   model stores with the given subject (and artifact type). *)
From Oras Require Import Base.Prelude Model.Reference Model.Registry Model.RemoteClient.
From Oras Require Model.Paging Proofs.Paging.
Module P := Oras.Model.Paging.
Module PP := Oras.Proofs.Paging.

(* ---------- manifest digests of a reachable registry state are distinct ---------- *)

Definition keys {V} (m : list (str * V)) : list str := map fst m.

Lemma keys_remove {V} k (m : list (str * V)) :
  keys (remove k m) = filter (fun x => negb (str_eqb x k)) (keys m).
Proof.
  induction m as [|[k' v] m IH]; [reflexivity|]. unfold remove, keys in *. cbn.
  destruct (str_eqb k' k); cbn; [exact IH|now rewrite IH].
Qed.

Lemma NoDup_filter {A} (f : A -> bool) l : NoDup l -> NoDup (filter f l).
Proof.
  induction 1 as [|x l Hx Hl IH]; cbn; [constructor|].
  destruct (f x); auto. constructor; auto. intro Hin. apply filter_In in Hin. tauto.
Qed.

Lemma keys_remove_nodup {V} k (m : list (str * V)) : NoDup (keys m) -> NoDup (keys (remove k m)).
Proof. intro Hn. rewrite keys_remove. now apply NoDup_filter. Qed.

Lemma keys_insert_nodup {V} k v (m : list (str * V)) : NoDup (keys m) -> NoDup (keys (insert k v m)).
Proof.
  intro Hn. unfold insert. cbn. constructor; [|now apply keys_remove_nodup].
  fold (keys (remove k m)). rewrite keys_remove. intro Hin. apply filter_In in Hin as [_ Hk].
  now rewrite str_eqb_refl in Hk.
Qed.

Definition keys_ok (g : reg) : Prop :=
  NoDup (keys (g_mans g)) /\ Forall (fun k => k <> []) (keys (g_mans g)).

Lemma forall_remove {V} k (m : list (str * V)) (Q : str -> Prop) :
  Forall Q (keys m) -> Forall Q (keys (remove k m)).
Proof.
  rewrite keys_remove. intro Hf. apply Forall_forall. intros x Hin. apply filter_In in Hin as [Hin _].
  rewrite Forall_forall in Hf. auto.
Qed.

Section Keys.
  Variable H : str -> str.
  Variable sj : str -> option desc.
  Variables main other : str.
  Variable p : profile.
  Hypothesis Hne : forall c, H c <> [].

  (* a request changes the manifest map by at most one insertion under the digest of the
     body, or one removal *)
  Lemma handle_mans g q :
    g_mans (fst (handle H sj main other p g q)) = g_mans g \/
    (exists mt, g_mans (fst (handle H sj main other p g q)) = insert (H (q_body q)) (mt, q_body q) (g_mans g)) \/
    (exists k, g_mans (fst (handle H sj main other p g q)) = remove k (g_mans g)).
  Proof.
    unfold handle, open_session.
    repeat match goal with
           | |- context [match ?x with _ => _ end] => destruct x
           | |- context [if ?x then _ else _] => destruct x
           end; cbn; eauto.
  Qed.

  Theorem handle_keys_ok g q : keys_ok g -> keys_ok (fst (handle H sj main other p g q)).
  Proof.
    intros [Hn Hf]. destruct (handle_mans g q) as [E|[[mt E]|[k E]]]; unfold keys_ok; rewrite E.
    - auto.
    - split; [now apply keys_insert_nodup|]. unfold insert. cbn. constructor; [apply Hne|].
      now apply (forall_remove _ _ (fun k => k <> [])).
    - split; [now apply keys_remove_nodup|now apply (forall_remove _ _ (fun k => k <> []))].
  Qed.

  Lemma reg0_keys_ok ob : keys_ok (reg0 ob).
  Proof. split; constructor. Qed.

  (* every state reached from the empty registry by any request sequence *)
  Theorem reachable_keys_ok ob qs :
    keys_ok (fold_left (fun g q => fst (handle H sj main other p g q)) qs (reg0 ob)).
  Proof.
    assert (G : forall g, keys_ok g -> keys_ok (fold_left (fun g q => fst (handle H sj main other p g q)) qs g)).
    { induction qs as [|q qs IH]; intros g Hk; cbn; auto. apply IH. now apply handle_keys_ok. }
    apply G, reg0_keys_ok.
  Qed.

  (* ... and so do the tags: one binding per tag (used by the tag-schema theorems) *)
  Lemma handle_tags g q :
    g_tags (fst (handle H sj main other p g q)) = g_tags g \/
    (exists rf d, g_tags (fst (handle H sj main other p g q)) = insert rf d (g_tags g)) \/
    (exists f, g_tags (fst (handle H sj main other p g q)) = filter f (g_tags g)).
  Proof.
    unfold handle, open_session.
    repeat match goal with
           | |- context [match ?x with _ => _ end] => destruct x
           | |- context [if ?x then _ else _] => destruct x
           end; cbn; eauto.
  Qed.

  Theorem reachable_tags_unique ob qs :
    NoDup (keys (g_tags (fold_left (fun g q => fst (handle H sj main other p g q)) qs (reg0 ob)))).
  Proof.
    assert (G : forall g, NoDup (keys (g_tags g)) ->
              NoDup (keys (g_tags (fold_left (fun g q => fst (handle H sj main other p g q)) qs g)))).
    { induction qs as [|q qs IH]; intros g Hk; cbn; auto. apply IH.
      destruct (handle_tags g q) as [E|[(rf & d & E)|[f E]]]; rewrite E; auto.
      - now apply keys_insert_nodup.
      - clear - Hk. unfold keys in *. induction (g_tags g) as [|[k v] m IHm]; [constructor|].
        cbn [map fst] in Hk. inversion Hk as [|? ? Hn Hm]; subst. cbn [filter].
        destruct (f (k, v)); [|auto]. cbn [map fst]. constructor; auto.
        intro Hin. apply Hn. clear - Hin. induction m as [|[k1 v1] m IH]; [exact Hin|].
        cbn [filter] in Hin. destruct (f (k1, v1)); cbn [map fst In] in *; tauto. }
    apply G. constructor.
  Qed.

  (* ---------- the referrers of a subject as C15 items ---------- *)
  Variable atype : str -> str.      (* artifact type of a manifest (JSON decoding: external) *)

  Definition ref_items (g : reg) (dg : str) : list P.item :=
    flat_map (fun e => let '(k, (mt, c)) := e in
                match sj c with
                | Some s => if str_eqb (d_dg s) dg then [(k, atype c)] else []
                | None => []
                end) (g_mans g).

  Lemma ref_items_names g dg : map fst (ref_items g dg) = map d_dg (referrers_of sj g dg).
  Proof.
    unfold ref_items, referrers_of. induction (g_mans g) as [|[k [mt c]] m IH]; [reflexivity|].
    cbn. rewrite !map_app, IH. destruct (sj c) as [s|]; [destruct (str_eqb (d_dg s) dg)|]; reflexivity.
  Qed.

  Lemma ref_items_in g dg x : In x (map fst (ref_items g dg)) -> In x (keys (g_mans g)).
  Proof.
    unfold ref_items, keys. induction (g_mans g) as [|[k [mt c]] m IH]; [auto|].
    cbn. rewrite map_app, in_app_iff. intros [Hin|Hin]; [|auto].
    destruct (sj c) as [s|]; [destruct (str_eqb (d_dg s) dg)|]; cbn in Hin; tauto.
  Qed.

  Lemma ref_items_nodup g dg : NoDup (keys (g_mans g)) -> NoDup (map fst (ref_items g dg)).
  Proof.
    unfold keys. intro Hn.
    assert (G : forall m : list (str * (str * str)), NoDup (map fst m) ->
              NoDup (map fst (flat_map (fun e => let '(k, (mt, c)) := e in
                match sj c with
                | Some s => if str_eqb (d_dg s) dg then [(k, atype c)] else []
                | None => []
                end) m)) /\
              forall x, In x (map fst (flat_map (fun e => let '(k, (mt, c)) := e in
                match sj c with
                | Some s => if str_eqb (d_dg s) dg then [(k, atype c)] else []
                | None => []
                end) m)) -> In x (map fst m)).
    { induction m as [|[k [mt c]] m IH]; intro Hm; [split; [constructor|auto]|].
      inversion Hm as [|? ? Hk Hm']; subst. destruct (IH Hm') as [IH1 IH2]. cbn.
      destruct (sj c) as [s|]; [destruct (str_eqb (d_dg s) dg)|]; cbn; split; auto.
      - constructor; auto.
      - intros x [->|Hx]; auto. }
    exact (proj1 (G _ Hn)).
  Qed.

  (* ---------- composition ---------- *)
  (* Referrers(artifactType) over a paginating registry (C15: any page split below the cap,
     any legal Link rendering, filtering announced or not) = the stored manifests whose
     subject is [dg], of that artifact type: all of them, once, in registry order. *)
  Theorem referrers_paged g dg (cap : nat) (ds : nat -> P.decision)
          (render : nat -> P.url -> P.url -> str) (trailer : nat -> str)
          (resolve : P.url -> str -> option P.url) (c : P.cfg)
          (cu : P.cursor) (npath : nat -> str -> str) (vis : P.item -> bool) (path : str) (fuel : nat) :
    keys_ok g ->
    PP.cursor_ok cu ->
    P.c_kind c = P.KReferrers ->
    (forall i base x, In x (map fst (ref_items g dg)) ->
       contains P.c_gt (render i base (PP.link_target ds cu npath i base x)) = false) ->
    (forall i base x, In x (map fst (ref_items g dg)) ->
       resolve base (render i base (PP.link_target ds cu npath i base x)) = Some (PP.link_target ds cu npath i base x)) ->
    (forall i, (Z.of_N (P.d_doc_len (ds i)) <= P.eff_limit (P.c_limit c))%Z) ->
    (forall i, P.qget P.k_at (P.d_extra (ds i)) = None) ->
    (length (ref_items g dg) < fuel)%nat ->
    let t := P.loop (P.reg_serve P.KReferrers cu npath vis (ref_items g dg) cap ds render trailer) resolve (fun _ => false) c
                    fuel 0 0 (P.mkUrl path (PP.referrers_query (P.c_at c))) [] in
    P.t_out t = P.Done /\
    concat (P.t_pages t) = P.filter_referrers (filter vis (ref_items g dg)) (P.c_at c) /\
    (length (P.t_reqs t) <= S (length (ref_items g dg)))%nat.
  Proof.
    intros [Hn Hf] Hcu K Hgt Hres Hfit Hex Hfuel.
    apply PP.referrers_exactly_once; auto.
    - now apply ref_items_nodup.
    - intros it Hin. rewrite Forall_forall in Hf. apply Hf. apply ref_items_in with (dg := dg).
      now apply in_map.
  Qed.

  Lemma filter_all {A} (f : A -> bool) l : (forall x, f x = true) -> filter f l = l.
  Proof. intro Hf. induction l as [|x l IH]; cbn; [reflexivity|]. now rewrite Hf, IH. Qed.

  (* Predecessors = Referrers with no artifact type, against a registry that shows every entry:
     the digests of the concatenated pages are the digests of [referrers_of], the list
     C13_predecessors_reflect speaks of *)
  Corollary predecessors_paged g dg cap ds render trailer resolve c cu npath vis path fuel :
    keys_ok g -> PP.cursor_ok cu -> P.c_kind c = P.KReferrers -> P.c_at c = [] ->
    (forall it, vis it = true) ->
    (forall i base x, In x (map fst (ref_items g dg)) ->
       contains P.c_gt (render i base (PP.link_target ds cu npath i base x)) = false) ->
    (forall i base x, In x (map fst (ref_items g dg)) ->
       resolve base (render i base (PP.link_target ds cu npath i base x)) = Some (PP.link_target ds cu npath i base x)) ->
    (forall i, (Z.of_N (P.d_doc_len (ds i)) <= P.eff_limit (P.c_limit c))%Z) ->
    (forall i, P.qget P.k_at (P.d_extra (ds i)) = None) ->
    (length (ref_items g dg) < fuel)%nat ->
    let t := P.loop (P.reg_serve P.KReferrers cu npath vis (ref_items g dg) cap ds render trailer) resolve (fun _ => false) c
                    fuel 0 0 (P.mkUrl path []) [] in
    P.t_out t = P.Done /\
    map fst (concat (P.t_pages t)) = map d_dg (referrers_of sj g dg).
  Proof.
    intros Hk Hcu K Ha Hv Hgt Hres Hfit Hex Hfuel.
    destruct (referrers_paged g dg cap ds render trailer resolve c cu npath vis path fuel Hk Hcu K Hgt Hres Hfit Hex Hfuel)
      as (A & B & _).
    rewrite Ha in *. cbn in A, B. split; [exact A|]. rewrite B, (filter_all vis _ Hv). apply ref_items_names.
  Qed.
End Keys.
