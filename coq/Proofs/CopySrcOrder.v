(* C04: what the translator reads from the Go sources (Generated/GC04.v) against what the
   hand-written transition system assumes.
     - the limiter sizes of copyGraph and ExtendedCopyGraph, translated from their syntax, both are
       the model's eff_K;
     - the source order of the calls inside copyGraph.fn, copyNode, doCopyNode, mountOrCopyNode,
       ExtendedCopyGraph's closure, syncutil.Go, LimitedRegion.Start / End (kind callseq);
     - the per-node order of the visible events that the transition system enforces for a plain blob
       copy, which is that source order: PreCopy, src.Fetch, dst.Push, (deferred) Close, PostCopy. *)
From Oras Require Import Base.Prelude Generated.GC04 Model.CopySpec Model.CopyTop
  Proofs.CopySpec Proofs.CopyAcct.
Local Open Scope nat_scope.

Ltac simp_st := cbn [set_ph ph dst cached tag returned] in *.
Ltac upd_cases m n :=
  let E := fresh "E" in
  destruct (Nat.eq_dec m n) as [E|E];
  [subst; rewrite ?upd_same in * | rewrite ?(upd_other _ _ _ _ E) in *].

(* ------------------------------------------------------------------ limiter size *)

Lemma copyGraph_limiter_size_is_eff_K opt :
  Z.to_nat (copyGraph_limiter_size opt) = eff_K defaultConcurrency opt.
Proof. unfold copyGraph_limiter_size, eff_K. reflexivity. Qed.

Lemma ExtendedCopyGraph_limiter_size_is_eff_K opt :
  Z.to_nat (ExtendedCopyGraph_limiter_size opt) = eff_K defaultConcurrency opt.
Proof. unfold ExtendedCopyGraph_limiter_size, eff_K. reflexivity. Qed.

Lemma limiter_sizes_lemma opt :
  Z.to_nat (copyGraph_limiter_size opt) = eff_K defaultConcurrency opt /\
  Z.to_nat (ExtendedCopyGraph_limiter_size opt) = eff_K defaultConcurrency opt /\
  ((0 < opt)%Z -> copyGraph_limiter_size opt = opt) /\
  ((opt <= 0)%Z -> copyGraph_limiter_size opt = 3%Z).
Proof.
  split; [apply copyGraph_limiter_size_is_eff_K|].
  split; [apply ExtendedCopyGraph_limiter_size_is_eff_K|].
  unfold copyGraph_limiter_size, defaultConcurrency. split; intro H.
  - destruct (opt <=? 0)%Z eqn:E; [apply Z.leb_le in E; lia | reflexivity].
  - apply Z.leb_le in H. now rewrite H.
Qed.

(* ------------------------------------------------------------------ call order in the sources *)

Lemma source_call_order :
  (* copyGraph.fn: claim, (deferred) close(done), probe, skip callback, successors, release the permit,
     dispatch, wait (TryCommit of each successor), re-acquire, copy; then the top-level dispatch *)
  c04_calls_copyGraph =
    [b "tracker.TryCommit"; b "close"; b "dst.Exists"; b "opts.OnCopySkipped"; b "opts.FindSuccessors";
     b "removeForeignLayers"; b "region.End"; b "syncutil.Go"; b "tracker.TryCommit"; b "region.Start";
     b "proxy.Cache.Exists"; b "copyNode"; b "mountOrCopyNode"; b "syncutil.Go"]%string /\
  c04_calls_copyNode = [b "opts.PreCopy"; b "doCopyNode"; b "opts.PostCopy"]%string /\
  (* rc.Close is deferred: it runs after dst.Push returned *)
  c04_calls_doCopyNode = [b "src.Fetch"; b "rc.Close"; b "dst.Push"]%string /\
  c04_calls_mountOrCopyNode =
    [b "copyNode"; b "copyNode"; b "opts.MountFrom"; b "copyNode"; b "opts.PreCopy"; b "src.Fetch";
     b "mounter.Mount"; b "opts.OnMounted"; b "opts.PostCopy"]%string /\
  (* one limiter, one tracker for all roots; the closure releases its permit around copyGraph *)
  c04_calls_ExtendedCopyGraph =
    [b "findRoots"; b "semaphore.NewWeighted"; b "status.NewTracker"; b "syncutil.Go"; b "region.End";
     b "copyGraph"; b "region.Start"]%string /\
  (* syncutil.Go: acquire before spawning, release in the goroutine's defer *)
  c04_calls_Go =
    [b "LimitRegion"; b "region.Start"; b "eg.Go"; b "lr.End"; b "fn"; b "eg.Wait"; b "context.Cause"]%string /\
  c04_calls_Start = [b "lr.limiter.Acquire"]%string /\
  c04_calls_End = [b "lr.limiter.Release"]%string.
Proof. repeat split; reflexivity. Qed.

(* ------------------------------------------------------------------ per-node event order *)

Definition mfetch_ph (p : phase) : bool :=
  match p with NeedFetch | MF1 | MF2 => true | _ => false end.
Definition inpush_ph (p : phase) : bool :=
  match p with Pushing _ _ | Closing _ => true | _ => false end.

Section Order.
Variable g : graph.
Variable c : cfg.
Variable d0 : list node.

Record OInv (h : list event) (st : state) : Prop := {
  o_mf : forall n, mfetch_ph (ph st n) = true -> g_ismf g n = true;
  o_f2 : forall n sk, ph st n = F2 sk -> In (SFE n) h;
  o_f1 : forall n sk, ph st n = F1 sk \/ ph st n = F2 sk -> In (SFB n) h;
  o_pu : forall n, inpush_ph (ph st n) = true -> In (PuB n (root_refpush c n)) h
}.

Lemma oinv_init : OInv [] (init c d0).
Proof. constructor; simpl; intros; try discriminate; destruct H; discriminate. Qed.

Lemma in_snoc_l {A} (x e : A) h : In x h -> In x (h ++ [e]).
Proof. intro H. apply in_or_app. now left. Qed.
Lemma in_snoc_r {A} (e : A) h : In e (h ++ [e]).
Proof. apply in_or_app. right. now left. Qed.

Lemma oinv_step h st e st' : OInv h st -> step g c st e = Some st' -> OInv (h ++ [e]) st'.
Proof.
  intros [O1 O2 O3 O4] H. constructor.
  - intros x Hx.
    step_inv H; simp_st; try (now apply O1);
    (upd_cases x n; [| now apply O1]);
    unfold after_push, after_tag in Hx;
    repeat match type of Hx with context [if ?q then _ else _] => destruct q eqn:?Hq end;
    simpl in Hx; try discriminate Hx;
    try (apply O1; match goal with Hp : ph st _ = _ |- _ => rewrite Hp; reflexivity end);
    repeat match goal with Hq : (_ && _) = true |- _ => apply andb_true_iff in Hq; destruct Hq end;
    assumption.
  - intros x sk Hx.
    assert (Old : ph st x = F2 sk -> In (SFE x) (h ++ [e])) by (intro Hq; apply in_snoc_l; eauto).
    step_inv H; simp_st; try (now apply Old);
    (upd_cases x n; [| now apply Old]);
    unfold after_push, after_tag in Hx;
    repeat match type of Hx with context [if ?q then _ else _] => destruct q eqn:?Hq end;
    try discriminate Hx; apply in_snoc_r.
  - intros x sk Hx.
    assert (Old : ph st x = F1 sk \/ ph st x = F2 sk -> In (SFB x) (h ++ [e])) by (intro Hq; apply in_snoc_l; eauto).
    step_inv H; simp_st; try (now apply Old);
    (upd_cases x n; [| now apply Old]);
    unfold after_push, after_tag in Hx;
    repeat match type of Hx with context [if ?q then _ else _] => destruct q eqn:?Hq end;
    destruct Hx as [Hx|Hx]; try discriminate Hx;
    first [ apply in_snoc_r
          | apply in_snoc_l; eapply O3; left; eassumption
          | apply in_snoc_l; eapply O3; right; eassumption ].
  - intros x Hx.
    assert (Old : inpush_ph (ph st x) = true -> In (PuB x (root_refpush c x)) (h ++ [e]))
      by (intro Hq; apply in_snoc_l; eauto).
    step_inv H; simp_st; try (now apply Old);
    (upd_cases x n; [| now apply Old]);
    unfold after_push, after_tag in Hx;
    repeat match type of Hx with context [if ?q then _ else _] => destruct q eqn:?Hq end;
    simpl in Hx; try discriminate Hx;
    try (apply Old; match goal with Hp : ph st _ = _ |- _ => rewrite Hp; reflexivity end);
    match goal with
    | Hq : negb (Bool.eqb ?r (root_refpush c _)) = false |- _ =>
        apply Bool.negb_false_iff in Hq; apply Bool.eqb_prop in Hq; subst r; apply in_snoc_r
    end.
Qed.

Lemma oinv_run tr : forall h st st', OInv h st -> run g c st tr = Some st' -> OInv (h ++ tr) st'.
Proof.
  induction tr as [|e tr IH]; simpl; intros h st st' O H.
  - injection H as <-. now rewrite app_nil_r.
  - destruct (step g c st e) as [s1|] eqn:E; [|discriminate].
    replace (h ++ e :: tr) with ((h ++ [e]) ++ tr) by (rewrite <- app_assoc; reflexivity).
    apply (IH (h ++ [e]) s1 st'); [eapply oinv_step; eauto | exact H].
Qed.

(* src.Fetch of a blob is preceded by its PreCopy (except the re-push of a present / mounted
   ReferencePusher root, which has no PreCopy) *)
Lemma fetch_after_precopy tr1 n tr2 st :
  accepts g c d0 (tr1 ++ SFB n :: tr2) = Some st ->
  g_ismf g n = false -> root_refpush c n = false -> In (Cb CPre n) tr1.
Proof.
  intros Ha Hm Hr. unfold accepts in Ha. apply run_app in Ha as [st1 [H1 H2]].
  pose proof (run_inv g c d0 tr1 _ _ (init_inv g c d0) H1) as I1.
  pose proof (hinv_run g c d0 tr1 [] _ _ (init_inv g c d0) (hinv_init c d0) H1) as HI. simpl in HI.
  pose proof (oinv_run tr1 [] _ _ oinv_init H1) as OI. simpl in OI.
  simpl in H2. destruct (step g c st1 (SFB n)) as [s2|] eqn:E; [|discriminate].
  unfold step in E. destruct (returned st1); [discriminate|].
  destruct (ph st1 n) eqn:Hp; try discriminate.
  - pose proof (o_mf _ _ OI n) as M. rewrite Hp in M. specialize (M eq_refl). congruence.
  - destruct sk.
    + pose proof (i_skflag g c d0 st1 I1 n) as S. rewrite Hp in S. specialize (S eq_refl). congruence.
    + apply (h_pre tr1 st1 HI). rewrite Hp. reflexivity.
  - apply (h_pre tr1 st1 HI). rewrite Hp. reflexivity.
Qed.

(* dst.Push of content that is not in the proxy cache happens while the source reader is open:
   Fetch was called and has returned *)
Lemma push_after_fetch tr1 n r tr2 st :
  accepts g c d0 (tr1 ++ PuB n r :: tr2) = Some st ->
  exists st1, accepts g c d0 tr1 = Some st1 /\
              (memb n (cached st1) = false -> In (SFB n) tr1 /\ In (SFE n) tr1).
Proof.
  intro Ha. unfold accepts in Ha. apply run_app in Ha as [st1 [H1 H2]].
  exists st1. split; [exact H1|]. intro Hc.
  pose proof (oinv_run tr1 [] _ _ oinv_init H1) as OI. simpl in OI.
  simpl in H2. destruct (step g c st1 (PuB n r)) as [s2|] eqn:E; [|discriminate].
  unfold step in E. destruct (returned st1); [discriminate|].
  destruct (negb (Bool.eqb r (root_refpush c n))); [discriminate|].
  destruct (ph st1 n) eqn:Hp; try discriminate.
  - rewrite Hc in E. discriminate.
  - split; [eapply (o_f1 _ _ OI); right; exact Hp | eapply (o_f2 _ _ OI); exact Hp].
Qed.

(* the reader of a blob (no Mounter involved) is closed only after dst.Push was called *)
Lemma close_after_push tr1 n tr2 st :
  accepts g c d0 (tr1 ++ SFC n :: tr2) = Some st ->
  g_ismf g n = false -> c_mount c = false -> In (PuB n (root_refpush c n)) tr1.
Proof.
  intros Ha Hm Hmt. unfold accepts in Ha. apply run_app in Ha as [st1 [H1 H2]].
  pose proof (run_inv g c d0 tr1 _ _ (init_inv g c d0) H1) as I1.
  pose proof (oinv_run tr1 [] _ _ oinv_init H1) as OI. simpl in OI.
  simpl in H2. destruct (step g c st1 (SFC n)) as [s2|] eqn:E; [|discriminate].
  unfold step in E. destruct (returned st1); [discriminate|].
  destruct (ph st1 n) eqn:Hp; try discriminate.
  - pose proof (o_mf _ _ OI n) as M. rewrite Hp in M. specialize (M eq_refl). congruence.
  - apply (o_pu _ _ OI). rewrite Hp. reflexivity.
  - apply (o_pu _ _ OI). rewrite Hp. reflexivity.
  - pose proof (i_mt g c d0 st1 I1 n) as M. rewrite Hp in M. destruct (M eq_refl). congruence.
Qed.
End Order.
