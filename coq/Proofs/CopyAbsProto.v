(* CopyAbsProto: the protocol system with a destination (Model/CopyImplDst.v) refines the abstract system of
   Model/CopyAbs.v: a push step is an abstract store (its guard: the successors are in the destination), the
   return of the top-level syncutil.Go is the abstract return (on nil: the closure of the roots is there),
   every other protocol step is a stutter. *)
From Coq Require Import List Arith Bool Lia.
From Oras Require Import Model.CopyImpl Model.CopyImplDst Model.CopyAbs Proofs.CopyImplBase Proofs.CopyImplInv
  Proofs.CopyImplInv2 Proofs.CopyImplLive Proofs.CopyImplFault Proofs.CopyImplSucc Proofs.CopyImplSucc2
  Proofs.CopyImplOrder Proofs.CopyImplNoFault Proofs.CopyImplDst.
Import ListNotations.

Section Proofs.
Variable succ : nat -> list nat.
Variable K : nat.
Variable ext : bool.
Variable roots : list nat.
Variable d0 : list nat.
Hypothesis succ_dec : forall n m, In m (succ n) -> m < n.

Ltac tsimp := cbn [f_parent f_anc f_kind f_all f_items f_pc f_cancelled t_node t_kind t_frame t_pc t_holds set_pc set_pc_holds set_fpc set_cancelled is_fin is_ret In] in *.

(* only the return of a Go frame changes the result of the top-level call *)
Lemma result_step s l s' : Reachable succ K ext roots s -> step succ s l = Some s' ->
  (forall f, l <> LGoReturn f) -> result s' = result s.
Proof.
  intros Hr Hs Hn. unfold result.
  destruct (inv1234_reach succ K ext roots succ_dec s Hr) as [_ [[Hwff Hnf Htf Hunf Hingo Hpar Htop Hself Hanc Hrank Hwait] _]].
  red in Hnf.
  step_cases l Hs; try (exfalso; eapply Hn; reflexivity).
  all: cbn [tasks ntasks free frames nframes tracker failed top_cancelled] in *.
  all: try reflexivity.
  all: fsimp; upd_cases; tsimp; fsimp; try reflexivity.
  all: try (fpc_rw; reflexivity).
  all: try lia.
Qed.

Definition pabs (x : dstate) : astate :=
  mkA (dd x) (match result (ds x) with Some e => Some (negb e) | None => None end).
Definition pheld (d : list nat) (m : nat) : Prop := In m d.
Definition proot (r : nat) : Prop := In r roots.

Lemma areach_dreach a b : areach succ a b -> dreach succ a b.
Proof. induction 1; econstructor; eauto. Qed.

(* which labels change the destination *)
Lemma dstep_dd x dl x' : dstep succ x dl = Some x' ->
  dd x' = dd x \/
  (exists t, dd x' = t_node (tasks (ds x) t) :: dd x /\ ((exists ok, dl = DL (LPush t ok)) \/ dl = DPushFailStored t)).
Proof.
  unfold dstep. destruct (step succ (ds x) (dlab dl)) as [s'|]; [|discriminate].
  destruct dl as [l|t]; [|intro H; injection H as <-; right; exists t; cbn; auto].
  destruct l; try (intro H; injection H as <-; left; reflexivity).
  - destruct r; try (intro H; injection H as <-; left; reflexivity);
    destruct (dmem _ _); try discriminate; intro H; injection H as <-; left; reflexivity.
  - destruct ok; intro H; injection H as <-; [right; exists t; cbn; split; eauto | left; reflexivity].
Qed.

Theorem dstep_refines x dl x' : dclosed succ d0 -> DReachable succ K ext roots d0 x ->
  result (ds x) = None -> dstep succ x dl = Some x' ->
  exists l, astep succ proot pheld (pabs x) l (pabs x').
Proof.
  intros Hc Hr Hres Hs.
  assert (Hr' : DReachable succ K ext roots d0 x') by (econstructor; eauto).
  pose proof (dstep_step succ _ _ _ Hs) as Hst.
  unfold pabs. rewrite Hres.
  destruct (dstep_dd _ _ _ Hs) as [E|[t [E Hl]]]; rewrite E.
  - (* the destination is untouched: a return of the top-level Go, or a stutter *)
    destruct (result (ds x')) as [e|] eqn:Hres'.
    + destruct e; cbn [negb].
      * exists (ARet false). now apply as_ret_err.
      * exists (ARet true). apply as_ret_ok; [reflexivity|]. intros r n Hroot Hreach. unfold pheld. cbn [a_dst].
        rewrite <- E. eapply (dsuccess_complete succ K ext roots d0 succ_dec); eauto using areach_dreach.
    + exists ATau. apply as_tau.
  - (* a push: the successors are in the destination; the top-level call has not returned *)
    assert (Hres' : result (ds x') = None).
    { rewrite <- Hres. eapply (result_step (ds x)); eauto using dreach_proj.
      intros f Hf. destruct Hl as [[ok ->]| ->]; cbn [dlab] in Hf; discriminate. }
    rewrite Hres'. exists (AStore (t_node (tasks (ds x) t))). apply as_store; [reflexivity|].
    intros m Hm. unfold pheld. cbn [a_dst].
    eapply (dpush_after_successors succ K ext roots d0 succ_dec); eauto.
Qed.

End Proofs.
