(* Bridge between the graph abstraction of Model/OciGC.v (graph.Memory = its node set, the
   predecessor map derived) and the concrete model of internal/graph/memory.go of property C07
   (Model/GraphMem.v: nodes, predecessors map, successors map; Index and Remove statement by
   statement): on every concrete state that satisfies C07's representation invariant [Inv]
   (proved there for every history of Index / Remove / IndexAll), Predecessors, the danglings
   reported by Remove and the node sets after Index / Remove are exactly the ones the C09 model
   computes from the node set.  Descriptor keys are N there, nat here. *)
From Coq Require Import List NArith Bool Arith Lia Permutation.
Import ListNotations.
From Oras Require Import Model.GraphMem Proofs.GraphMem.
From Oras Require Model.OciGC Proofs.OciGC.

Section Bridge.
Variable succ : nat -> list nat.

Definition contentN (p : N) : list N := map N.of_nat (succ (N.to_nat p)).
Definition absn (g : graph) : list nat := map N.to_nat (g_nodes g).

Lemma In_absn g x : In x (absn g) <-> In (N.of_nat x) (g_nodes g).
Proof.
  unfold absn. rewrite in_map_iff. split.
  - intros (p & <- & Hp). now rewrite N2Nat.id.
  - intro H. exists (N.of_nat x). split; [apply Nat2N.id|assumption].
Qed.

Lemma In_absn_N g p : In (N.to_nat p) (absn g) <-> In p (g_nodes g).
Proof. rewrite In_absn, N2Nat.id. tauto. Qed.

Lemma In_contentN p n : In (N.of_nat n) (contentN p) <-> In n (succ (N.to_nat p)).
Proof.
  unfold contentN. rewrite in_map_iff. split.
  - intros (m & E & Hm). apply Nat2N.inj in E. now subst.
  - intro H. exists n. split; [reflexivity|assumption].
Qed.

Lemma In_contentN_N p d : In d (contentN p) <-> In (N.to_nat d) (succ (N.to_nat p)).
Proof. rewrite <- In_contentN, N2Nat.id. tauto. Qed.

(* Memory.Predecessors = the derived predecessor set of the C09 model *)
Lemma bridge_preds g : Inv contentN g ->
  forall n p, In p (predecessors g n) <-> In (N.to_nat p) (OciGC.preds succ (absn g) (N.to_nat n)).
Proof.
  intros HI n p. destruct (exact_full contentN g HI n) as (_ & H & _). rewrite H.
  rewrite (Proofs.OciGC.preds_In succ (fun _ => true)), In_absn_N, <- In_contentN, N2Nat.id. tauto.
Qed.

(* Memory.Remove: the danglings it reports (for every iteration order of the successor set),
   the node set and the invariant afterwards *)
Lemma bridge_remove g n order : Inv contentN g -> Permutation order (getd (g_succs g) n) ->
  Inv contentN (fst (remove_ord g n order)) /\
  (forall d, In d (snd (remove_ord g n order)) <->
             In (N.to_nat d) (OciGC.danglings succ (absn g) (N.to_nat n))) /\
  (forall x, In x (absn (fst (remove_ord g n order))) <-> In x (OciGC.removeb (N.to_nat n) (absn g))).
Proof.
  intros HI P. destruct (remove_danglings_full contentN g n order HI P) as (HI' & _ & Hd).
  split; [exact HI'|]. split.
  - intro d. rewrite Hd, (Proofs.OciGC.danglings_In succ (fun _ => true)).
    rewrite !In_absn_N, In_contentN_N. split.
    + intros (A & B & C & D). repeat split; try assumption. intros p Hp Hs.
      apply In_absn in Hp.
      assert (Hs' : In d (contentN (N.of_nat p))) by (apply In_contentN_N; now rewrite Nat2N.id).
      specialize (D _ Hp Hs'). rewrite <- D. symmetry. apply Nat2N.id.
    + intros (A & B & C & D). repeat split; try assumption. intros p Hp Hs.
      apply In_absn_N in Hp. apply In_contentN_N in Hs. specialize (D _ Hp Hs).
      apply N2Nat.inj. exact D.
  - intro x. rewrite In_absn, remove_ord_nodes, Proofs.OciGC.removeb_In, In_absn. split.
    + intros [Hn Hx]. split; [assumption|]. intro E. apply Hn. subst. now rewrite N2Nat.id.
    + intros [Hx Hn]. split; [|assumption]. intro E. apply Hn. subst. now rewrite Nat2N.id.
Qed.

(* Memory.index (Push, Tag): the node joins the set *)
Lemma bridge_index g n : forall x,
  In x (absn (GraphMem.index g n (contentN n))) <-> x = N.to_nat n \/ In x (absn g).
Proof.
  intro x. rewrite In_absn, index_nodes, In_absn. split.
  - intros [E|H]; [left; subst; symmetry; apply Nat2N.id|now right].
  - intros [E|H]; [left; subst; now rewrite N2Nat.id|now right].
Qed.

End Bridge.

Lemma graph_bridge_final : forall (succ : nat -> list nat) (g : graph),
  Inv (contentN succ) g ->
  (forall n p, In p (predecessors g n) <->
               In (N.to_nat p) (OciGC.preds succ (absn g) (N.to_nat n))) /\
  (forall n order, Permutation order (getd (g_succs g) n) ->
     Inv (contentN succ) (fst (remove_ord g n order)) /\
     (forall d, In d (snd (remove_ord g n order)) <->
                In (N.to_nat d) (OciGC.danglings succ (absn g) (N.to_nat n))) /\
     (forall x, In x (absn (fst (remove_ord g n order))) <->
                In x (OciGC.removeb (N.to_nat n) (absn g)))) /\
  (forall n x, In x (absn (GraphMem.index g n (contentN succ n))) <-> x = N.to_nat n \/ In x (absn g)).
Proof.
  intros succ g HI. split; [apply bridge_preds; exact HI|]. split.
  - intros n order P. now apply bridge_remove.
  - intros n x. apply bridge_index.
Qed.
