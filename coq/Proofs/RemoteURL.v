(* C13: the URL of every request the client may emit, tied to C20's URL theorems.
   [request_url] (Model/RemoteClient.v) is what the harness compares with the URL of every real
   http.Request; here: for a request of the grammar [allowed], that URL is -- under the generic URL
   syntax of RFC 3986 (C20's url_split) -- scheme://host/v2/<repository>/<kind>/<reference> with
   exactly these path segments and neither query nor fragment (C20_url_exact, [url_is]). *)
From Oras Require Import Base.Prelude Base.Regex Generated.GC20 Model.Reference Model.RefOps
  Proofs.Reference Proofs.RefOps Proofs.RefURL Model.Registry Model.RemoteClient Proofs.RemoteClient.

Lemma valid_ref_wf vr host repo rf :
  vr host = true -> contains c_slash host = false ->
  valid_repository repo = true -> valid_ref rf = true ->
  wf_ref all_algs vr (mkRef host repo rf) /\ r_reference (mkRef host repo rf) <> [].
Proof.
  intros Hh Hs Hr Hv. unfold valid_ref in Hv. split.
  - split; [split; assumption|]. split; [exact Hr|]. right. cbn [r_reference].
    apply orb_true_iff in Hv as [Hv|Hv]; auto.
  - cbn [r_reference]. intros ->. vm_compute in Hv. discriminate.
Qed.

Lemma valid_digest_ref d : valid_digest d = true -> valid_ref d = true.
Proof. intro V. unfold valid_ref. now rewrite V. Qed.

Theorem request_url_exact vr plain host page q :
  (forall reg, vr reg = true -> reg_clean reg = true) ->
  vr host = true -> contains c_slash host = false ->
  allowed q = true ->
  match q_ep q with
  | EManifest r => url_is (request_url plain host page q) plain (mkRef host (q_repo q) r) (b "manifests")
  | EBlob d => url_is (request_url plain host page q) plain (mkRef host (q_repo q) d) (b "blobs")
  | EReferrers d =>
      page = 0 -> url_is (request_url plain host page q) plain (mkRef host (q_repo q) d) (b "referrers")
  | EUploads =>
      q_mount q = None ->
      url_split (request_url plain host page q)
      = Some (mkParts (scheme plain) (host_of host) (b "/v2/" ++ q_repo q ++ b "/blobs/uploads/") None None)
  | ESession _ => True
  end.
Proof.
  intros Hvr Hh Hs Ha. unfold allowed in Ha. apply andb_true_iff in Ha as [Hr Ha].
  unfold request_url.
  destruct (q_ep q) as [d|r| |id|d] eqn:Ep.
  - assert (V : valid_digest d = true /\ q_digest q = None).
    { destruct (q_m q); try discriminate; repeat (apply andb_true_iff in Ha as [Ha ?]);
        (split; [assumption|]); (destruct (q_digest q); [discriminate|reflexivity]). }
    destruct V as [V ->]. rewrite app_nil_r.
    destruct (valid_ref_wf vr host (q_repo q) d Hh Hs Hr (valid_digest_ref _ V)) as [W N].
    apply (url_exact all_algs vr plain _ Hvr W N).
  - assert (V : valid_ref r = true /\ q_digest q = None).
    { destruct (q_m q); try discriminate; repeat (apply andb_true_iff in Ha as [Ha ?]);
        (split; [assumption|]); (destruct (q_digest q); [discriminate|reflexivity]). }
    destruct V as [V ->]. rewrite app_nil_r.
    destruct (valid_ref_wf vr host (q_repo q) r Hh Hs Hr V) as [W N].
    apply (url_exact all_algs vr plain _ Hvr W N).
  - intros Hm. rewrite Hm.
    assert (q_digest q = None) as ->.
    { destruct (q_m q); try discriminate; repeat (apply andb_true_iff in Ha as [Ha ?]);
        (destruct (q_digest q); [discriminate|reflexivity]). }
    rewrite !app_nil_r.
    assert (W : wf_ref all_algs vr (mkRef host (q_repo q) [])).
    { split; [split; assumption|]. split; [exact Hr|]. left. reflexivity. }
    apply (url_exact_noref all_algs vr plain _ Hvr W).
  - exact I.
  - intros ->. cbn [N.eqb orb].
    assert (V : valid_digest d = true /\ q_digest q = None).
    { destruct (q_m q); try discriminate; repeat (apply andb_true_iff in Ha as [Ha ?]);
        (split; [assumption|]); (destruct (q_digest q); [discriminate|reflexivity]). }
    destruct V as [V ->]. rewrite !app_nil_r.
    destruct (valid_ref_wf vr host (q_repo q) d Hh Hs Hr (valid_digest_ref _ V)) as [W N].
    apply (url_exact all_algs vr plain _ Hvr W N).
Qed.
